(* C16: numeric text parsing is exact (util/parsenum.h, util/humansize.c).
   Only statements, each closed by [exact], with Print Assumptions.
   Models: Util/Strto.v (strtoumax/strtoimax), Util/Parsenum.v (macro logic + inline functions),
   Util/ParsenumFloat.v (binary64 / binary32 patterns, the conversion double -> float),
   Util/Humansize.v (instantiated with the literals regenerated from the C in Gen/Repo_parsenum.v).
   Specs: Util/ParsenumSpec.v (numeral grammar over Z), Util/HumansizeSpec.v. *)
From Coq Require Import NArith ZArith List.
From LCP Require Import Base.CheckedMem Util.ParsenumSpec Util.Strto Util.ParsenumFloat Util.Parsenum Util.ParsenumProofs Util.ParsenumFloatProofs Util.Humansize Util.HumansizeSpec Util.HumansizeProofs.
Import ListNotations.
Local Open Scope Z_scope.

(* M1: PARSENUM_EX(&x, s, min, max, base, trailing) with x a signed integer of 8/16/32/64 bits and the
   bounds inside that type: for EVERY C string s the outcome (value / EINVAL / ERANGE) is the one the
   grammar-level spec prescribes; in particular the run never leaves the string (it is an Ok). *)
Theorem C16_parsenum_signed_exact :
  forall w min max base trailing s sd,
    width_ok w ->
    typemin KSigned w <= min <= typemax KSigned w -> typemin KSigned w <= max <= typemax KSigned w ->
    base_ok base -> bytes_ok s -> no_nul s ->
    map_res presult_of (parsenum_ex6 {| ck := KSigned; cw := w |} (cstr s) min max base trailing sd)
    = Ok (parse_spec KSigned w min max base trailing s).
Proof. exact parsenum_signed_exact_proof. Qed.
Print Assumptions C16_parsenum_signed_exact.

(* M2: the same for unsigned targets (uint8..64, size_t, uintmax_t), for ANY bounds a caller can write
   (values of 64-bit integer expressions, negative ones included).  True of the code as it is now
   (after the fix that rejects negative numerals); false of the code before it, see C16_regression_F4. *)
Theorem C16_parsenum_unsigned_exact :
  forall w min max base trailing s sd,
    width_ok w -> IMIN <= min <= UMAX -> IMIN <= max <= UMAX ->
    base_ok base -> bytes_ok s -> no_nul s ->
    map_res presult_of (parsenum_ex6 {| ck := KUnsigned; cw := w |} (cstr s) min max base trailing sd)
    = Ok (parse_spec KUnsigned w min max base trailing s).
Proof. exact parsenum_unsigned_exact_proof. Qed.
Print Assumptions C16_parsenum_unsigned_exact.

(* PARSENUM(&x, s) and PARSENUM_EX(&x, s, base, trailing): the bounds are the limits of the type *)
Theorem C16_parsenum_unsigned_nobounds_exact :
  forall w base trailing s sd,
    width_ok w -> base_ok base -> bytes_ok s -> no_nul s ->
    map_res presult_of (parsenum_ex4 {| ck := KUnsigned; cw := w |} (cstr s) base trailing sd)
    = Ok (parse_spec KUnsigned w 0 (typemax KUnsigned w) base trailing s).
Proof. exact parsenum_ex4_unsigned_exact_proof. Qed.
Print Assumptions C16_parsenum_unsigned_nobounds_exact.

(* M3: floating-point targets.  strtod itself is libc's (its answer sd is data: characters consumed,
   its own range error, the two comparison outcomes, the double returned as its 64-bit pattern).  The
   wrapper reports EINVAL iff nothing was converted or junk follows (and trailing is off); ERANGE iff
   converted, no junk, and the value is below min, above max or strtod raised a range error; a NaN
   passes any bounds.  What is left in *x is strtod's double converted to the target type (w = 32: a
   float, narrowed; otherwise the double itself), whatever errno is. *)
Theorem C16_parsenum_float_wrapper :
  forall w min max trailing s sd,
    no_nul s -> (sd_consumed sd <= length s)%nat ->
    exists e,
      parsenum_ex6 {| ck := KFloat; cw := w |} (cstr s) min max 0 trailing sd = Ok {| o_errno := e; o_stored := fstore w (sd_bits sd) |} /\
      parsenum_ex4 {| ck := KFloat; cw := w |} (cstr s) 0 trailing sd = Ok {| o_errno := e; o_stored := fstore w (sd_bits sd) |} /\
      let converted := sd_consumed sd <> 0%nat in
      let junk := trailing = false /\ sd_consumed sd <> length s in
      (e = EInval <-> (~ converted \/ junk)) /\
      (e = ERange <-> (converted /\ ~ junk /\
                       (sd_lt_min sd = true \/ sd_gt_max sd = true \/ sd_erange sd = true))) /\
      (converted -> ~ junk -> sd_class sd = FNan -> sd_lt_min sd = false -> sd_gt_max sd = false ->
       sd_erange sd = false -> e = ENone).
Proof. exact parsenum_float_wrapper_proof. Qed.
Print Assumptions C16_parsenum_float_wrapper.

(* M3a: the conversion double -> float of the model ([narrow32], integer arithmetic on bit patterns)
   is the correctly rounded one, for EVERY 64-bit pattern: NaN to NaN, infinity to infinity with its
   sign; a finite m * 2^e overflows to infinity exactly when m * 2^e >= 2^128 - 2^103 (FLT_MAX plus
   half a spacing; magnitudes in units of 2^-1074); otherwise the result is finite, has the sign of
   the double, and no float magnitude is nearer to m * 2^e than the result's.  (Which of two equally
   near floats is taken - the even one, Util/ParsenumFloatProofs.rne_tie_even for the rounding
   step - is not part of this statement; the correspondence run exercises exact ties.) *)
Theorem C16_narrow32_correctly_rounded :
  forall b,
    match decode64 b with
    | VNan => decode32 (narrow32 b) = VNan
    | VInf n => decode32 (narrow32 b) = VInf n
    | VFin n m e =>
      if OVF32_units <=? units m e then decode32 (narrow32 b) = VInf n
      else exists m' e', decode32 (narrow32 b) = VFin n m' e' /\
           forall c n2 m2 e2, decode32 c = VFin n2 m2 e2 ->
             Z.abs (units m' e' - units m e) <= Z.abs (units m2 e2 - units m e)
    end.
Proof. exact narrow32_correct. Qed.
Print Assumptions C16_narrow32_correctly_rounded.

(* M3b: double targets meet the property (given strtod): the outcome is the typed reading of the
   property (float_spec_typed 64 = the wrapper's conditions; every double lies within double) and the
   value stored is strtod's, bit for bit. *)
Theorem C16_parsenum_double_exact :
  forall min max trailing s sd,
    no_nul s -> (sd_consumed sd <= length s)%nat ->
    parsenum_ex6 {| ck := KFloat; cw := 64 |} (cstr s) min max 0 trailing sd
      = Ok {| o_errno := float_spec_typed 64 s sd trailing; o_stored := sd_bits sd |} /\
    parsenum_ex4 {| ck := KFloat; cw := 64 |} (cstr s) 0 trailing sd
      = Ok {| o_errno := float_spec_typed 64 s sd trailing; o_stored := sd_bits sd |}.
Proof. exact parsenum_double_exact_proof. Qed.
Print Assumptions C16_parsenum_double_exact.

(* M3c: float targets, PARTIAL: only when strtod's value lies within float (|v| <= FLT_MAX, or it
   is an infinity / NaN) is the outcome the property's; the float stored is then the correctly rounded
   value.  Missing for the full statement: values beyond FLT_MAX - there the code does NOT fail, see
   C16_parsenum_float_narrowing_refuted. *)
Theorem C16_parsenum_float32_in_type_partial :
  forall min max trailing s sd,
    no_nul s -> (sd_consumed sd <= length s)%nat ->
    in_float32 (decode64 (sd_bits sd)) = true ->
    parsenum_ex6 {| ck := KFloat; cw := 32 |} (cstr s) min max 0 trailing sd
      = Ok {| o_errno := float_spec_typed 32 s sd trailing; o_stored := narrow32 (sd_bits sd) |} /\
    parsenum_ex4 {| ck := KFloat; cw := 32 |} (cstr s) 0 trailing sd
      = Ok {| o_errno := float_spec_typed 32 s sd trailing; o_stored := narrow32 (sd_bits sd) |} /\
    match decode64 (sd_bits sd) with
    | VNan => decode32 (narrow32 (sd_bits sd)) = VNan
    | VInf n => decode32 (narrow32 (sd_bits sd)) = VInf n
    | VFin n m e => exists m' e', decode32 (narrow32 (sd_bits sd)) = VFin n m' e' /\ nearest32 m e m' e'
    end.
Proof. exact parsenum_float32_in_type_proof. Qed.
Print Assumptions C16_parsenum_float32_in_type_partial.

(* M3d: REFUTATION of the property for float targets (known finding parsenum.float-target-narrowing).
   The macro range-checks the double and then assigns it to the float: with float f,
   PARSENUM(&f, "1e300", 0, 1e308) and PARSENUM(&f, "1e300") report success (errno 0) and leave
   +infinity in f, although 10^300 is a finite value inside the requested bounds and outside float,
   for which the property asks ERANGE (the same call with a double target is right).  Underflow is
   silent as well: PARSENUM(&f, "1e-50") succeeds and stores +0 for a non-zero value. *)
Theorem C16_parsenum_float_narrowing_refuted :
  let s := [49; 101; 51; 48; 48]%N in
  let d := 0x7e37e43c8800759c in
  let sd := mk_sd 5 false d 0 0x7fe1ccf385ebc8a0 in
  let sd' := mk_sd 5 false d 0xfff0000000000000 0x7ff0000000000000 in
  no_nul s /\ (sd_consumed sd <= length s)%nat /\
  sd_class sd = FFinite /\ sd_lt_min sd = false /\ sd_gt_max sd = false /\ sd_erange sd = false /\
  in_float32 (decode64 d) = false /\
  parsenum_ex6 {| ck := KFloat; cw := 32 |} (cstr s) 0 0 0 false sd = Ok {| o_errno := ENone; o_stored := INF32 |} /\
  parsenum_ex4 {| ck := KFloat; cw := 32 |} (cstr s) 0 false sd' = Ok {| o_errno := ENone; o_stored := INF32 |} /\
  decode32 INF32 = VInf false /\
  float_spec_typed 32 s sd false = ERange /\ float_spec_typed 32 s sd' false = ERange /\
  parsenum_ex6 {| ck := KFloat; cw := 64 |} (cstr s) 0 0 0 false sd = Ok {| o_errno := ENone; o_stored := d |} /\
  float_spec_typed 64 s sd false = ENone /\
  let s2 := [49; 101; 45; 53; 48]%N in
  let d2 := 0x358dee7a4ad4b81f in
  let sd2 := mk_sd 5 false d2 0xfff0000000000000 0x7ff0000000000000 in
  parsenum_ex4 {| ck := KFloat; cw := 32 |} (cstr s2) 0 false sd2 = Ok {| o_errno := ENone; o_stored := 0 |} /\
  decode64 d2 = VFin false 8424983333484575 (-219) /\ decode32 0 = VFin false 0 (-149).
Proof. exact parsenum_float_narrowing_refuted_proof. Qed.
Print Assumptions C16_parsenum_float_narrowing_refuted.

(* regression for finding F4: without the sign test the old parsenum_unsigned stored 2^64-1 for "-1"
   into a uintmax_t and reported success, against the spec; the code as it is now reports ERANGE *)
Theorem C16_regression_F4 :
  parsenum_ex6_unsigned_old 64 (cstr [45; 49]%N) 0 UMAX 0 false
    = Ok {| o_errno := ENone; o_stored := 18446744073709551615 |} /\
  parse_spec KUnsigned 64 0 UMAX 0 false [45; 49]%N = ERANGE /\
  map_res presult_of (parsenum_ex6 {| ck := KUnsigned; cw := 64 |} (cstr [45; 49]%N) 0 UMAX 0 false sd_none) = Ok ERANGE.
Proof. exact old_code_accepts_minus_one. Qed.
Print Assumptions C16_regression_F4.

(* M4: humansize_parse, with the literals now in the C source, accepts exactly
   digit+ ' '? [kMGTPE]? 'B'?  whose value digits * 1000^k is below 2^64, and yields that value *)
Theorem C16_humansize_parse_exact :
  forall s, bytes_ok s -> no_nul s ->
    map_res result_of (humansize_parse_repo (cstr s)) = Ok (hs_parse_spec s).
Proof. exact humansize_parse_exact_proof. Qed.
Print Assumptions C16_humansize_parse_exact.

(* M5: for every 64-bit n, humansize(n) is the rendering of a documented form whose value is the
   greatest representable value not above n *)
Theorem C16_humansize_greatest :
  forall n, 0 <= n < 2 ^ 64 ->
    exists f, valid_form f /\ humansize_repo n = Ok (render f) /\
              form_value f <= n /\
              forall v, representable v -> v <= n -> v <= form_value f.
Proof. exact humansize_greatest_proof. Qed.
Print Assumptions C16_humansize_greatest.

(* the executable form of M5 that the correspondence run and the failing-input search evaluate
   (greatest value among all 7480 documented forms, rendered) is what humansize returns *)
Theorem C16_humansize_is_spec :
  forall n, 0 <= n < 2 ^ 64 -> humansize_repo n = Ok (hs_format_spec n).
Proof. exact humansize_is_spec_proof. Qed.
Print Assumptions C16_humansize_is_spec.
