(* C20 (AES part, model level): when an expanded AES key or an AES-CTR stream object is freed, the
   block handed to the allocator contains only zero bytes.
   Only statements, each closed by [exact], with Print Assumptions.

   released_zeroed f = for every content of the object, f releases exactly one block, of the
   object's size, all of whose bytes are 0.  x_*_free interpret the insecure_memzero / free call
   lists and size expressions regenerated from the three C functions (Crypto/AesWipe.v), so a
   removed or mis-sized wipe breaks these theorems at the next run.  Whether the compiler keeps
   the wipe is a property of the binary: decided by the wrapped-free observation in areas/aes.py. *)
From Coq Require Import NArith List.
From LCP Require Import Gen.Repo_aes.
From LCP Require Import Crypto.AesWipe.
From LCP Require Import Crypto.AesRepo.
From LCP Require Import Crypto.AesWipeProofs.

Theorem C20_key_free_aesni_zero : released_zeroed x_key_free_aesni.
Proof. exact key_free_aesni_zero. Qed.
Print Assumptions C20_key_free_aesni_zero.

Theorem C20_key_free_sw_zero : released_zeroed x_key_free_sw.
Proof. exact key_free_sw_zero. Qed.
Print Assumptions C20_key_free_sw_zero.

(* the same software path as it is compiled in the AES-NI build configuration (after the run-time
   hand-over test `hwaccel == HW_X86_AESNI`): an OpenSSL key object freed by a library built with
   CPUSUPPORT_X86_AESNI on a CPU without AES-NI, or after a failed self-test *)
Theorem C20_key_free_sw_in_aesni_build_zero : released_zeroed x_key_free_sw_ni.
Proof. exact key_free_sw_ni_zero. Qed.
Print Assumptions C20_key_free_sw_in_aesni_build_zero.

Theorem C20_aesctr_free_zero : released_zeroed x_aesctr_free.
Proof. exact aesctr_free_zero. Qed.
Print Assumptions C20_aesctr_free_zero.
