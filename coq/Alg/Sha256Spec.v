(* SHA-256 as FIPS 180-4 states it (4.1.2 functions, 4.2.2 constants, 5.1.1 padding, 5.3.3 initial
   hash value, 6.2.2 computation with the working variables a..h).  Written from the standard,
   independent of alg/sha256.c.  Definitions only. *)
From Coq Require Import Arith NArith List.
From LCP Require Import Alg.Words Alg.MDSpec.
Import ListNotations.
Local Open Scope N_scope.

(* 4.2.2: first 32 bits of the fractional parts of the cube roots of the first 64 primes *)
Definition K256 : list N :=
  [0x428a2f98; 0x71374491; 0xb5c0fbcf; 0xe9b5dba5;
   0x3956c25b; 0x59f111f1; 0x923f82a4; 0xab1c5ed5;
   0xd807aa98; 0x12835b01; 0x243185be; 0x550c7dc3;
   0x72be5d74; 0x80deb1fe; 0x9bdc06a7; 0xc19bf174;
   0xe49b69c1; 0xefbe4786; 0x0fc19dc6; 0x240ca1cc;
   0x2de92c6f; 0x4a7484aa; 0x5cb0a9dc; 0x76f988da;
   0x983e5152; 0xa831c66d; 0xb00327c8; 0xbf597fc7;
   0xc6e00bf3; 0xd5a79147; 0x06ca6351; 0x14292967;
   0x27b70a85; 0x2e1b2138; 0x4d2c6dfc; 0x53380d13;
   0x650a7354; 0x766a0abb; 0x81c2c92e; 0x92722c85;
   0xa2bfe8a1; 0xa81a664b; 0xc24b8b70; 0xc76c51a3;
   0xd192e819; 0xd6990624; 0xf40e3585; 0x106aa070;
   0x19a4c116; 0x1e376c08; 0x2748774c; 0x34b0bcb5;
   0x391c0cb3; 0x4ed8aa4a; 0x5b9cca4f; 0x682e6ff3;
   0x748f82ee; 0x78a5636f; 0x84c87814; 0x8cc70208;
   0x90befffa; 0xa4506ceb; 0xbef9a3f7; 0xc67178f2].

(* 5.3.3: fractional parts of the square roots of the first 8 primes *)
Definition H0_256 : list N :=
  [0x6a09e667; 0xbb67ae85; 0x3c6ef372; 0xa54ff53a;
   0x510e527f; 0x9b05688c; 0x1f83d9ab; 0x5be0cd19].

(* 4.1.2 *)
Definition f256_Ch (x y z : N) : N := N.lxor (N.land x y) (N.ldiff z x).       (* (x&y) xor (~x&z) *)
Definition f256_Maj (x y z : N) : N := N.lxor (N.lxor (N.land x y) (N.land x z)) (N.land y z).
Definition f256_Sigma0 (x : N) : N := N.lxor (N.lxor (rotr32 x 2) (rotr32 x 13)) (rotr32 x 22).
Definition f256_Sigma1 (x : N) : N := N.lxor (N.lxor (rotr32 x 6) (rotr32 x 11)) (rotr32 x 25).
Definition f256_sigma0 (x : N) : N := N.lxor (N.lxor (rotr32 x 7) (rotr32 x 18)) (shr x 3).
Definition f256_sigma1 (x : N) : N := N.lxor (N.lxor (rotr32 x 17) (rotr32 x 19)) (shr x 10).

(* 6.2.2 step 1: W_t = M_t for t < 16, else sigma1(W_{t-2}) + W_{t-7} + sigma0(W_{t-15}) + W_{t-16}.
   [f256_extend n W] appends W_t for t = |W| .. |W|+n-1. *)
Fixpoint f256_extend (n : nat) (W : list N) {struct n} : list N :=
  match n with
  | O => W
  | S n' =>
    let t := length W in
    f256_extend n'
      (W ++ [add32 (add32 (add32 (f256_sigma1 (nth (t - 2) W 0)) (nth (t - 7) W 0))
                          (f256_sigma0 (nth (t - 15) W 0))) (nth (t - 16) W 0)])
  end.
Definition f256_schedule (block : list N) : list N := f256_extend 48 (be32dec_vect block).

(* 6.2.2 step 3 *)
Definition f256_round (v : list N) (kt wt : N) : list N :=
  match v with
  | [a; b; c; d; e; f; g; h] =>
    let T1 := add32 (add32 (add32 (add32 h (f256_Sigma1 e)) (f256_Ch e f g)) kt) wt in
    let T2 := add32 (f256_Sigma0 a) (f256_Maj a b c) in
    [add32 T1 T2; a; b; c; add32 d T1; e; f; g]
  | _ => v
  end.

(* 6.2.2 steps 1-4 for one block *)
Definition f256_compress (H block : list N) : list N :=
  let W := f256_schedule block in
  let v := fold_left (fun v t => f256_round v (nth t K256 0) (nth t W 0)) (seq 0 64) H in
  map2 add32 H v.

Definition SHA256_spec (m : list N) : list N :=
  be32enc_vect (md_hash f256_compress H0_256 be64enc m).
