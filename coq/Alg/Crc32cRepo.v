(* The model of alg/crc32c.c instantiated with the constants regenerated from the C source. *)
From Coq Require Import NArith List.
From LCP Require Import Base.CheckedMem Gen.Repo_crc Alg.GF2Poly Alg.Crc32c.
Import ListNotations.
Local Open Scope N_scope.

Definition crc_reverse : N -> N := reverse_m crc_reverse_steps.
Definition crc_times256 : N -> N := times256_m crc_poly crc_topbit crc_times256_iters.
Definition crc_tables : list (list N) :=
  tables_m crc_poly crc_topbit crc_times256_iters crc_reverse_steps crc_fill_order.
Definition crc_init_tables : res (list (list N)) :=
  init_m crc_poly crc_topbit crc_times256_iters crc_T_0_0x80 crc_reverse_steps crc_fill_order.

Definition crc_init : N := crc_init_m crc_T_0_0x80.
Definition crc_slice4 : N -> N -> N -> N -> N -> N := slice4_m crc_slice_terms crc_tables.
Definition crc_byte_step : N -> N -> N := byte_step_m crc_byte_term crc_tables.
Definition crc_update_c : N -> list N -> N := update_sw_m crc_slice_terms crc_byte_term crc_tables.
Definition crc_final : N -> list N := final_m crc_final_bytes.

(* Init; Update(part) for each part; Final *)
Definition crc_stream_c (parts : list (list N)) : list N :=
  crc_final (fold_left crc_update_c parts crc_init).
