(* Model of HMAC_XXX_Init / Update / Final / Buf, which are the same text in sha256.c, sha1.c and
   md5.c up to the hash they call: generic in the hash context functions.  [h_final] is the inner
   Final as the C calls it (SHA256_Final_internal, SHA1_Final, MD5_Final, each with whatever it does
   to its own context); [h_wipe_i] / [h_wipe_o] are what the statements of HMAC_XXX_Final itself do
   to the two halves afterwards.  Neither is fixed here: HashRepo.v derives them from the statement
   lists regenerated from the C (Alg/HashWipe.v).  Definitions only. *)
From Coq Require Import Arith NArith List.
From LCP Require Import Alg.Words.
Import ListNotations.
Local Open Scope N_scope.

(* for (i = 0; i < Klen; i++) pad[i] ^= K[i]; (K holds exactly the Klen bytes read) *)
Fixpoint xor_prefix (pad K : list N) {struct pad} : list N :=
  match pad, K with
  | p :: pr, k :: kr => N.lxor p k :: xor_prefix pr kr
  | _, _ => pad
  end.

Section HmacModel.
  Variable ctxT : Type.
  Variable h_init : ctxT.
  Variable h_update : ctxT -> list N -> ctxT.
  Variable h_final : ctxT -> list N * ctxT.
  Variables h_wipe_i h_wipe_o : ctxT -> ctxT.     (* what HMAC_XXX_Final's own statements do to ictx / octx *)
  Variables hblk klen ipad opad ihash_len : N.     (* 64, digest length, 0x36, 0x5c, digest length *)

  Record hmac_ctx : Type := mkhmac { hm_ictx : ctxT; hm_octx : ctxT }.

  (* memset(pad, v, 64); for (i = 0; i < Klen; i++) pad[i] ^= K[i]; *)
  Definition hmac_pad (v : N) (K : list N) (Klen : N) : list N :=
    xor_prefix (repeat v (N.to_nat hblk)) (firstn (N.to_nat Klen) K).

  Definition hmac_init (K : list N) : hmac_ctx :=
    let Klen := N.of_nat (length K) in
    (* if (Klen > 64) { Init; Update(K, Klen); Final(khash); K = khash; Klen = <digest length>; } *)
    let '(K1, Klen1) :=
      if hblk <? Klen then (fst (h_final (h_update h_init K)), klen) else (K, Klen) in
    mkhmac (h_update h_init (hmac_pad ipad K1 Klen1))
           (h_update h_init (hmac_pad opad K1 Klen1)).

  Definition hmac_update (c : hmac_ctx) (d : list N) : hmac_ctx :=
    mkhmac (h_update (hm_ictx c) d) (hm_octx c).

  (* Final(ihash, &ictx); Update(&octx, ihash, <digest length>); Final(digest, &octx); *)
  Definition hmac_final_internal (c : hmac_ctx) : list N * hmac_ctx :=
    let '(ihash, ic) := h_final (hm_ictx c) in
    let oc1 := h_update (hm_octx c) (firstn (N.to_nat ihash_len) ihash) in
    let '(dg, oc) := h_final oc1 in
    (dg, mkhmac ic oc).

  Definition hmac_final (c : hmac_ctx) : list N * hmac_ctx :=
    let '(dg, c') := hmac_final_internal c in
    (dg, mkhmac (h_wipe_i (hm_ictx c')) (h_wipe_o (hm_octx c'))).

  Definition hmac_buf (K m : list N) : list N :=
    fst (hmac_final_internal (hmac_update (hmac_init K) m)).
End HmacModel.
