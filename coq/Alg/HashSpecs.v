(* The standards' functions assembled: HMAC over each hash, PBKDF2 over HMAC-SHA256.
   Definitions only. *)
From Coq Require Import Arith NArith List.
From LCP Require Import Alg.Words Alg.MDSpec Alg.Sha256Spec Alg.Sha1Spec Alg.Md5Spec Alg.HmacSpec Alg.Pbkdf2Spec.
Definition HMAC_SHA256_spec : list N -> list N -> list N := HMAC_spec SHA256_spec.
Definition HMAC_SHA1_spec : list N -> list N -> list N := HMAC_spec SHA1_spec.
Definition HMAC_MD5_spec : list N -> list N -> list N := HMAC_spec MD5_spec.
Definition PBKDF2_SHA256_spec : list N -> list N -> N -> N -> list N :=
  PBKDF2_spec HMAC_SHA256_spec 32%N.

(* digests of streams resumed from an arbitrary (state, bit count, buffer) *)
Definition SHA256_resume_spec (st : list N) (bits : N) (buf d : list N) : list N :=
  be32enc_vect (md_resume f256_compress be64enc st bits buf d).
Definition SHA1_resume_spec (st : list N) (bits : N) (buf d : list N) : list N :=
  be32enc_vect (md_resume f1_compress be64enc st bits buf d).
Definition MD5_resume_spec (st : list N) (bits : N) (buf d : list N) : list N :=
  le32enc_vect (md_resume r5_compress le64enc_spec st bits buf d).
