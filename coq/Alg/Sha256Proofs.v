(* alg/sha256.c model = FIPS 180-4.  Part 1: SHA256_Transform (rotating array, schedule filled
   16 words at a time) equals the textbook compression function, by a per-round simulation. *)
From Coq Require Import Arith NArith ZArith List Lia ZifyNat ZifyN.
From LCP Require Import Alg.Words Alg.WordsProofs Alg.MDSpec Alg.MDModel Alg.Sha256Spec Alg.Sha256Model.
Import ListNotations.
Local Open Scope N_scope.
Ltac Zify.zify_post_hook ::= Z.to_euclidean_division_equations.

(* the C macros compute the same boolean functions as the standard's formulas *)
Lemma c256_Ch_eq x y z : c256_Ch x y z = f256_Ch x y z.
Proof. unfold c256_Ch, f256_Ch. bitwise. Qed.
Lemma c256_Maj_eq x y z : c256_Maj x y z = f256_Maj x y z.
Proof. unfold c256_Maj, f256_Maj. bitwise. Qed.
Lemma c256_S0_eq x : c256_S0 x = f256_Sigma0 x. Proof. reflexivity. Qed.
Lemma c256_S1_eq x : c256_S1 x = f256_Sigma1 x. Proof. reflexivity. Qed.
Lemma c256_s0_eq x : c256_s0 x = f256_sigma0 x. Proof. reflexivity. Qed.
Lemma c256_s1_eq x : c256_s1 x = f256_sigma1 x. Proof. reflexivity. Qed.

(* the working array after t rounds is the spec tuple rotated by t *)
Definition rotv (r : nat) (v : list N) : list N := skipn r v ++ firstn r v.

Arguments add32 : simpl never.
Arguments c256_S0 : simpl never.
Arguments c256_S1 : simpl never.
Arguments c256_Ch : simpl never.
Arguments c256_Maj : simpl never.
Arguments f256_Sigma0 : simpl never.
Arguments f256_Sigma1 : simpl never.
Arguments f256_Ch : simpl never.
Arguments f256_Maj : simpl never.

Lemma c256_rnd_sim i a b c d e f g h w k : (i < 16)%nat ->
  c256_rnd (rotv (i mod 8) [a; b; c; d; e; f; g; h]) i w k =
  rotv ((i + 1) mod 8) (f256_round [a; b; c; d; e; f; g; h] k w).
Proof.
  intros Hi.
  do 16 (destruct i as [|i];
         [ cbn; rewrite !c256_Ch_eq, !c256_Maj_eq, !c256_S0_eq, !c256_S1_eq;
           repeat (f_equal; try add32_ac) | ]).
  lia.
Qed.

Lemma rotv_0 v : rotv 0 v = v.
Proof. unfold rotv. cbn [skipn firstn]. apply app_nil_r. Qed.

Lemma f256_round_length v k w : length v = 8%nat -> length (f256_round v k w) = 8%nat.
Proof.
  intros H. do 8 (destruct v as [|? v]; [discriminate|]). destruct v; [|discriminate]. reflexivity.
Qed.

Section Transform.
  Variable K : list N.

  Lemma rounds_sim Wspec W ii : (forall j, (j < ii + 16)%nat -> nth j W 0 = nth j Wspec 0) ->
    forall n i v, (i + n <= 16)%nat -> length v = 8%nat ->
    fold_left (fun s i => c256_rnd s i (nth (i + ii) W 0) (nth (i + ii) K 0)) (seq i n) (rotv (i mod 8) v) =
    rotv ((i + n) mod 8)
         (fold_left (fun v t => f256_round v (nth t K 0) (nth t Wspec 0)) (seq (i + ii) n) v).
  Proof.
    intros HW. induction n as [|n IH]; intros i v Hin Hv.
    - cbn [seq fold_left]. rewrite Nat.add_0_r. reflexivity.
    - cbn [seq fold_left].
      assert (Hv' := Hv).
      do 8 (destruct v as [|? v]; [discriminate|]). destruct v; [|discriminate].
      rewrite c256_rnd_sim by lia.
      rewrite HW by lia.
      replace (S (i + ii)) with (S i + ii)%nat by lia.
      replace (i + S n)%nat with (S i + n)%nat by lia.
      replace (i + 1)%nat with (S i) by lia.
      apply IH; [lia|]. apply f256_round_length. exact Hv'.
  Qed.

  Lemma rounds16_sim Wspec W ii v : (forall j, (j < ii + 16)%nat -> nth j W 0 = nth j Wspec 0) ->
    length v = 8%nat ->
    c256_rounds16 K v W ii =
    fold_left (fun v t => f256_round v (nth t K 0) (nth t Wspec 0)) (seq ii 16) v.
  Proof.
    intros HW Hv. unfold c256_rounds16.
    pose proof (rounds_sim Wspec W ii HW 16 0 v (le_n _) Hv) as H.
    change (0 mod 8)%nat with 0%nat in H. change ((0 + 16) mod 8)%nat with 0%nat in H.
    rewrite !rotv_0 in H. exact H.
  Qed.
End Transform.

(* ---- the schedule ---- *)
Lemma f256_extend_length n : forall W, length (f256_extend n W) = (length W + n)%nat.
Proof.
  induction n as [|n IH]; intros W; cbn [f256_extend]; [lia|].
  rewrite IH, app_length. simpl. lia.
Qed.

Lemma f256_extend_old n : forall W j, (j < length W)%nat -> nth j (f256_extend n W) 0 = nth j W 0.
Proof.
  induction n as [|n IH]; intros W j Hj; cbn [f256_extend]; [reflexivity|].
  rewrite IH by (rewrite app_length; simpl; lia). apply app_nth1. exact Hj.
Qed.

Definition f256_wt (E : list N) (t : nat) : N :=
  add32 (add32 (add32 (f256_sigma1 (nth (t - 2) E 0)) (nth (t - 7) E 0))
               (f256_sigma0 (nth (t - 15) E 0))) (nth (t - 16) E 0).

Lemma f256_extend_rec n : forall W t, (16 <= length W)%nat -> (length W <= t < length W + n)%nat ->
  nth t (f256_extend n W) 0 = f256_wt (f256_extend n W) t.
Proof.
  induction n as [|n IH]; intros W t H16 Ht; [lia|]. cbn [f256_extend].
  set (x := add32 _ _). 
  destruct (Nat.eq_dec t (length W)) as [->|Hne].
  - rewrite f256_extend_old by (rewrite app_length; simpl; lia).
    rewrite app_nth2 by lia. rewrite Nat.sub_diag. cbn [nth].
    unfold f256_wt.
    rewrite !(f256_extend_old n (W ++ [x])) by (rewrite app_length; simpl; lia).
    rewrite !app_nth1 by lia. reflexivity.
  - apply IH; rewrite app_length; simpl; lia.
Qed.

Lemma be32dec_vect_length k : forall bs, length bs = (4 * k)%nat -> length (be32dec_vect bs) = k.
Proof.
  induction k as [|k IH]; intros bs H.
  - destruct bs; [reflexivity|discriminate].
  - do 4 (destruct bs as [|? bs]; [simpl in H; lia|]). cbn [be32dec_vect length]. f_equal.
    apply IH. simpl in H. lia.
Qed.

Section Sched.
  Variable block : list N.
  Hypothesis Hblock : length block = 64%nat.
  Let Wspec := f256_schedule block.

  Definition sched_ok (t : nat) (W : list N) : Prop :=
    length W = 64%nat /\ forall j, (j < t)%nat -> nth j W 0 = nth j Wspec 0.

  Lemma Wspec_rec t : (16 <= t < 64)%nat -> nth t Wspec 0 = f256_wt Wspec t.
  Proof.
    intros Ht. unfold Wspec, f256_schedule. apply f256_extend_rec;
      rewrite (be32dec_vect_length 16) by (rewrite Hblock; reflexivity); lia.
  Qed.

  Lemma sched_init : sched_ok 16 (be32dec_vect block ++ repeat 0 48).
  Proof.
    assert (length (be32dec_vect block) = 16%nat) as HL
        by (apply be32dec_vect_length; rewrite Hblock; reflexivity).
    split.
    - rewrite app_length, repeat_length, HL. reflexivity.
    - intros j Hj. rewrite app_nth1 by lia. unfold Wspec, f256_schedule.
      rewrite f256_extend_old by lia. reflexivity.
  Qed.

  Lemma msch_ok W ii i : sched_ok (i + ii + 16) W -> (i + ii + 16 < 64)%nat ->
    sched_ok (S (i + ii + 16)) (c256_msch W ii i).
  Proof.
    intros [HL HW] Hlt. unfold c256_msch. split; [rewrite upd_length; exact HL|].
    intros j Hj. destruct (Nat.eq_dec j (i + ii + 16)) as [->|Hne].
    - rewrite nth_upd_eq by lia. rewrite Wspec_rec by lia. unfold f256_wt.
      rewrite !HW by lia.
      replace (i + ii + 16 - 2)%nat with (i + ii + 14)%nat by lia.
      replace (i + ii + 16 - 7)%nat with (i + ii + 9)%nat by lia.
      replace (i + ii + 16 - 15)%nat with (i + ii + 1)%nat by lia.
      replace (i + ii + 16 - 16)%nat with (i + ii)%nat by lia.
      rewrite c256_s1_eq, c256_s0_eq. reflexivity.
    - rewrite nth_upd_neq by lia. apply HW. lia.
  Qed.

  Lemma msch_fold_ok ii : forall n i W, sched_ok (i + ii + 16) W -> (i + n + ii + 16 <= 64)%nat ->
    sched_ok (i + n + ii + 16) (fold_left (fun w i => c256_msch w ii i) (seq i n) W).
  Proof.
    induction n as [|n IH]; intros i W HW Hle; cbn [seq fold_left].
    - rewrite Nat.add_0_r. exact HW.
    - replace (i + S n + ii + 16)%nat with (S i + n + ii + 16)%nat by lia.
      apply IH; [|lia]. apply msch_ok; [exact HW|lia].
  Qed.

  Lemma msch16_ok W ii : sched_ok (ii + 16) W -> (ii + 32 <= 64)%nat ->
    sched_ok (ii + 32) (c256_msch16 W ii).
  Proof.
    intros HW Hle. unfold c256_msch16.
    pose proof (msch_fold_ok ii 16 0 W) as H.
    replace (0 + ii + 16)%nat with (ii + 16)%nat in H by lia.
    replace (0 + 16 + ii + 16)%nat with (ii + 32)%nat in H by lia. apply H; [exact HW|lia].
  Qed.
End Sched.

(* M1 *)
Theorem c256_transform_eq_compress K st block :
  length st = 8%nat -> length block = 64%nat ->
  c256_transform K st block =
  map2 add32 st (fold_left (fun v t => f256_round v (nth t K 0) (nth t (f256_schedule block) 0)) (seq 0 64) st).
Proof.
  intros Hst Hb. unfold c256_transform. f_equal.
  set (Wspec := f256_schedule block).
  set (stepf := fun v t => f256_round v (nth t K 0) (nth t Wspec 0)).
  assert (Hlen : forall n i v, length v = 8%nat -> length (fold_left stepf (seq i n) v) = 8%nat).
  { induction n as [|n IH]; intros i v Hv; cbn [seq fold_left]; [exact Hv|].
    apply IH. apply f256_round_length. exact Hv. }
  pose proof (sched_init block Hb) as H0.
  pose proof (msch16_ok block Hb _ 0 H0 ltac:(lia)) as H1.
  pose proof (msch16_ok block Hb _ 16 H1 ltac:(lia)) as H2.
  pose proof (msch16_ok block Hb _ 32 H2 ltac:(lia)) as H3.
  change (seq 0 64) with (seq 0 16 ++ seq 16 16 ++ seq 32 16 ++ seq 48 16).
  rewrite !fold_left_app.
  cbn [c256_mix Nat.ltb Nat.leb Nat.eqb Nat.add].
  set (W0 := be32dec_vect block ++ repeat 0 48) in *.
  set (v1 := fold_left stepf (seq 0 16) st).
  assert (E1 : c256_rounds16 K st W0 0 = v1)
    by (apply rounds16_sim; [intros j Hj; apply H0; lia | exact Hst]).
  rewrite E1.
  set (v2 := fold_left stepf (seq 16 16) v1).
  assert (E2 : c256_rounds16 K v1 (c256_msch16 W0 0) 16 = v2)
    by (apply rounds16_sim; [intros j Hj; apply H1; lia | apply Hlen; exact Hst]).
  rewrite E2.
  set (v3 := fold_left stepf (seq 32 16) v2).
  assert (E3 : c256_rounds16 K v2 (c256_msch16 (c256_msch16 W0 0) 16) 32 = v3)
    by (apply rounds16_sim; [intros j Hj; apply H2; lia | do 2 apply Hlen; exact Hst]).
  rewrite E3.
  apply rounds16_sim; [intros j Hj; apply H3; lia | do 3 apply Hlen; exact Hst].
Qed.

Corollary c256_transform_spec st block :
  length st = 8%nat -> length block = 64%nat ->
  c256_transform K256 st block = f256_compress st block.
Proof. intros. unfold f256_compress. apply c256_transform_eq_compress; assumption. Qed.

(* ================= Part 2: streaming ================= *)
From LCP Require Import Alg.MDStreaming.

Definition PAD_spec : list N := 128 :: repeat 0 63.

Lemma f256_compress_length st block : length st = 8%nat -> length (f256_compress st block) = 8%nat.
Proof.
  intros H. unfold f256_compress. rewrite map2_length.
  assert (forall n i v, length v = 8%nat ->
            length (fold_left (fun v t => f256_round v (nth t K256 0) (nth t (f256_schedule block) 0)) (seq i n) v) = 8%nat) as HL.
  { induction n as [|n IH]; intros i v Hv; cbn [seq fold_left]; [exact Hv|].
    apply IH, f256_round_length, Hv. }
  rewrite HL by exact H. rewrite H. reflexivity.
Qed.

Lemma chunks_all64 k : forall l, (64 * k <= length l)%nat -> Forall (fun b => length b = 64%nat) (chunks k l).
Proof.
  induction k as [|k IH]; intros l H; cbn [chunks]; constructor.
  - rewrite firstn_length. lia.
  - apply IH. rewrite skipn_length. lia.
Qed.
Lemma blocks_all64 l : Forall (fun b => length b = 64%nat) (blocks l).
Proof. unfold blocks. apply chunks_all64. lia. Qed.

Lemma fold_transform_eq bs : forall st, length st = 8%nat -> Forall (fun b => length b = 64%nat) bs ->
  fold_left (c256_transform K256) bs st = fold_left f256_compress bs st.
Proof.
  induction bs as [|b bs IH]; intros st Hst Hbs; [reflexivity|].
  inversion Hbs as [|? ? Hb Hr]; subst. cbn [fold_left].
  rewrite c256_transform_spec by assumption.
  apply IH; [apply f256_compress_length; exact Hst | exact Hr].
Qed.

Lemma buf_write_at buf a X P : firstn a buf = X ->
  buf_write buf a P = X ++ P ++ skipn (a + length P) buf.
Proof. intros H. unfold buf_write. rewrite H. reflexivity. Qed.

Lemma firstn_PAD k : (k <= 63)%nat -> firstn (S k) PAD_spec = 128 :: repeat 0 k.
Proof. intros H. unfold PAD_spec. cbn [firstn]. f_equal. apply firstn_repeat. exact H. Qed.

Section Streaming.
  Variable st0 : list N.                     (* chaining value the stream starts from *)
  Variable base : N.                         (* bits absorbed before it (a multiple of 512) *)
  Hypothesis Hbase : base mod 512 = 0.
  Let T := c256_transform K256.
  Let upd_ := c256_update K256 64 3 63.
  Let pad_ := c256_pad K256 PAD_spec 56 64 3 63.

  Definition cinv256 (c : ctx256) (m : list N) : Prop :=
    Inv T st0 (c256_state c) (c256_buf c) m /\
    c256_count c = (base + 8 * N.of_nat (length m)) mod M64.

  Lemma cinv256_r c m : cinv256 c m -> c256_r 3 63 c = (length m mod 64)%nat.
  Proof.
    intros [_ Hc]. unfold c256_r. rewrite Hc, residue_of_count_base by exact Hbase. lia.
  Qed.

  (* M2 for SHA256_Update_internal *)
  Lemma c256_update_inv c m d : cinv256 c m -> cinv256 (upd_ c d) (m ++ d).
  Proof.
    intros H. unfold upd_, c256_update.
    destruct (N.eqb_spec (N.of_nat (length d)) 0) as [Hz|Hnz].
    - destruct d; [|simpl in Hz; lia]. rewrite app_nil_r. exact H.
    - rewrite (cinv256_r c m H). change (N.to_nat 64) with 64%nat.
      destruct H as [HI Hc].
      pose proof (update_body_inv T st0 _ _ _ d HI) as HU.
      fold T.
      destruct (update_body T 64 (c256_state c) (c256_buf c) (length m mod 64) d) as [st bf].
      cbn [fst snd] in HU. split; cbn [c256_state c256_buf c256_count]; [exact HU|].
      rewrite Hc, count_step_base, app_length. f_equal. lia.
  Qed.

  Lemma c256_updates_inv parts : forall c m, cinv256 c m ->
    cinv256 (fold_left upd_ parts c) (m ++ concat parts).
  Proof.
    induction parts as [|p ps IH]; intros c m H; cbn [fold_left concat].
    - rewrite app_nil_r. exact H.
    - rewrite app_assoc. apply IH. apply c256_update_inv. exact H.
  Qed.

  (* SHA256_Pad leaves the state the standard prescribes for the padded stream *)
  Lemma c256_pad_state c m : cinv256 c m ->
    c256_state (pad_ c) = fold_left T (blocks (md_pad_from be64enc base m)) st0.
  Proof.
    intros H. pose proof (cinv256_r c m H) as Hr. destruct H as [HI Hc].
    apply Inv_residue in HI. destruct HI as (F & R & Hm & [q HF] & HR & Hst & Hb & HbR).
    unfold pad_, c256_pad. rewrite Hr, <- HR.
    change (N.to_nat 56) with 56%nat. change (N.to_nat 64) with 64%nat.
    assert (HR64 : (length R < 64)%nat) by lia.
    unfold md_pad_from. unfold M64 in Hc. rewrite <- Hc.
    replace (md_zeros (length m)) with ((119 - length R) mod 64)%nat by (unfold md_zeros; rewrite HR; reflexivity).
    set (enc := be64enc (c256_count c)).
    assert (Henc : length enc = 8%nat) by reflexivity.
    subst m.
    destruct (Nat.ltb_spec (length R) 56) as [Hlt|Hge].
    - (* one final block *)
      cbn [c256_state].
      replace (56 - length R)%nat with (S (55 - length R)) by lia.
      rewrite firstn_PAD by lia.
      set (P := 128 :: repeat 0 (55 - length R)).
      assert (HP : length P = (56 - length R)%nat) by (unfold P; cbn [length]; rewrite repeat_length; lia).
      rewrite (buf_write_at _ _ R P HbR).
      assert (Hf : firstn 56 (R ++ P ++ skipn (length R + length P) (c256_buf c)) = R ++ P).
      { rewrite app_assoc, firstn_app, firstn_all2 by (rewrite app_length; lia).
        rewrite app_length. replace (56 - (length R + length P))%nat with 0%nat by lia.
        cbn [firstn]. apply app_nil_r. }
      rewrite (buf_write_at _ 56 (R ++ P) enc Hf).
      rewrite skipn_all2 by (rewrite !app_length, skipn_length; lia).
      rewrite app_nil_r.
      replace ((119 - length R) mod 64)%nat with (55 - length R)%nat by lia.
      rewrite <- (app_assoc F R).
      rewrite (blocks_app F _ q HF), fold_left_app, <- Hst.
      change ([128] ++ repeat 0 (55 - length R) ++ enc) with (P ++ enc).
      rewrite blocks_one by (rewrite !app_length; lia).
      rewrite <- (app_assoc R P enc). reflexivity.
    - (* the residue does not leave room for the length: two blocks *)
      cbn [c256_state].
      replace (64 - length R)%nat with (S (63 - length R)) by lia.
      rewrite firstn_PAD by lia.
      set (P := 128 :: repeat 0 (63 - length R)).
      assert (HP : length P = (64 - length R)%nat) by (unfold P; cbn [length]; rewrite repeat_length; lia).
      rewrite (buf_write_at _ _ R P HbR).
      rewrite skipn_all2 by lia. rewrite app_nil_r.
      assert (HRP : length (R ++ P) = 64%nat) by (rewrite app_length; lia).
      unfold buf_write at 2. cbn [firstn app Nat.add]. rewrite repeat_length.
      assert (Hf : firstn 56 (repeat 0 56 ++ skipn 56 (R ++ P)) = repeat 0 56).
      { rewrite firstn_app, repeat_length, Nat.sub_diag. rewrite firstn_O, app_nil_r.
        apply firstn_all2. rewrite repeat_length. lia. }
      rewrite (buf_write_at _ 56 (repeat 0 56) enc Hf).
      rewrite skipn_all2 by (rewrite app_length, repeat_length, skipn_length; lia).
      rewrite app_nil_r.
      replace ((119 - length R) mod 64)%nat with ((63 - length R) + 56)%nat by lia.
      rewrite repeat_app_plus.
      rewrite <- (app_assoc F R).
      rewrite (blocks_app F _ q HF), fold_left_app, <- Hst.
      replace (R ++ 128 :: (repeat 0 (63 - length R) ++ repeat 0 56) ++ enc)
        with ((R ++ P) ++ (repeat 0 56 ++ enc))
        by (unfold P; rewrite <- !app_assoc; cbn [app]; reflexivity).
      rewrite (blocks_app (R ++ P) _ 1) by lia.
      rewrite fold_left_app, (blocks_one (R ++ P)) by exact HRP.
      rewrite blocks_one by (rewrite app_length, repeat_length; lia).
      reflexivity.
  Qed.
End Streaming.

(* ================= Part 3: the theorems, for the model with the standard's constants ================= *)
Definition upd256 := c256_update K256 64 3 63.
Definition fin256_internal := c256_final_internal K256 PAD_spec 56 64 3 63.
Definition fin256 (wipe : ctx256 -> ctx256) := c256_final K256 PAD_spec 56 64 3 63 wipe.
Definition init256 := c256_init H0_256.
Definition buf256 := c256_buf_oneshot K256 H0_256 PAD_spec 56 64 3 63.

(* a context as SHA256_Update can leave it: 8 state words, 64 buffer bytes, whole bytes counted *)
Definition wf256 (c : ctx256) : Prop :=
  length (c256_state c) = 8%nat /\ length (c256_buf c) = 64%nat /\
  c256_count c mod 8 = 0 /\ c256_count c < M64.

Definition SHA256_resume (st : list N) (bits : N) (buf d : list N) : list N :=
  be32enc_vect (md_resume f256_compress be64enc st bits buf d).

(* Streaming from ANY well-formed context: the digest is the standard's padding and compression
   continued from that chaining value, bit count and pending residue. *)
Theorem sha256_resume_correct c parts : wf256 c ->
  fst (fin256_internal (fold_left upd256 parts c)) =
  SHA256_resume (c256_state c) (c256_count c) (c256_buf c) (concat parts).
Proof.
  intros (Hst & Hbuf & Hc8 & Hc64).
  set (r := N.to_nat ((c256_count c / 8) mod 64)).
  set (base := c256_count c - 8 * N.of_nat r).
  assert (Hr : (r < 64)%nat) by (unfold r; lia).
  assert (Hbase : base mod 512 = 0) by (unfold base, r; lia).
  assert (HR : length (firstn r (c256_buf c)) = r) by (rewrite firstn_length; lia).
  assert (H0 : cinv256 (c256_state c) base c (firstn r (c256_buf c))).
  { split.
    - exists [], (firstn r (c256_buf c)). rewrite HR. repeat split; auto.
      exists 0%nat. reflexivity.
    - rewrite HR. unfold base, r, M64 in *. lia. }
  pose proof (c256_updates_inv _ _ Hbase parts c _ H0) as H1.
  pose proof (c256_pad_state _ _ Hbase _ _ H1) as H2.
  unfold fin256_internal, c256_final_internal, upd256. cbn [fst].
  rewrite H2. unfold SHA256_resume, md_resume. fold r. fold base. f_equal.
  apply fold_transform_eq; [exact Hst | apply blocks_all64].
Qed.

Lemma wf256_init : wf256 init256.
Proof. repeat split; try reflexivity. Qed.

(* M3 *)
Theorem sha256_streaming_correct_all wipe parts :
  fst (fin256 wipe (fold_left upd256 parts init256)) = SHA256_spec (concat parts).
Proof.
  unfold fin256, c256_final. cbn [fst]. fold fin256_internal.
  rewrite sha256_resume_correct by apply wf256_init. reflexivity.
Qed.

Theorem sha256_streaming_correct wipe parts :
  8 * N.of_nat (length (concat parts)) < 18446744073709551616 ->
  fst (fin256 wipe (fold_left upd256 parts init256)) = SHA256_spec (concat parts).
Proof. intros _. apply sha256_streaming_correct_all. Qed.

Theorem sha256_internal_streaming_correct parts :
  fst (fin256_internal (fold_left upd256 parts init256)) = SHA256_spec (concat parts).
Proof. rewrite sha256_resume_correct by apply wf256_init. reflexivity. Qed.

Theorem sha256_oneshot_correct m : buf256 m = SHA256_spec m.
Proof.
  unfold buf256, c256_buf_oneshot. fold fin256_internal init256.
  change (c256_update K256 64 3 63 init256 m) with (fold_left upd256 [m] init256).
  rewrite sha256_internal_streaming_correct. cbn [concat]. rewrite app_nil_r. reflexivity.
Qed.

Corollary sha256_oneshot_eq_streaming wipe parts :
  buf256 (concat parts) = fst (fin256 wipe (fold_left upd256 parts init256)).
Proof. rewrite sha256_oneshot_correct, sha256_streaming_correct_all. reflexivity. Qed.

(* the digest does not depend on what Final does to the context afterwards *)
Lemma fin256_fst wipe c : fst (fin256 wipe c) = fst (fin256_internal c).
Proof. reflexivity. Qed.
Lemma fin256_snd wipe c : snd (fin256 wipe c) = wipe (snd (fin256_internal c)).
Proof. reflexivity. Qed.

Lemma SHA256_spec_length m : length (SHA256_spec m) = 32%nat.
Proof.
  unfold SHA256_spec, md_hash. rewrite be32enc_vect_length.
  assert (forall bs st, length st = 8%nat -> length (fold_left f256_compress bs st) = 8%nat) as H.
  { induction bs as [|b bs IH]; intros st Hst; [exact Hst|]. cbn [fold_left].
    apply IH, f256_compress_length, Hst. }
  rewrite H by reflexivity. reflexivity.
Qed.
