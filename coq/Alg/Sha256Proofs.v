(* alg/sha256.c model = FIPS 180-4.  Part 1: SHA256_Transform (rotating array, schedule filled
   16 words at a time) equals the textbook compression function, by a per-round simulation. *)
From Coq Require Import Arith NArith ZArith List Lia ZifyNat ZifyN.
From LCP Require Import Alg.Words Alg.WordsProofs Alg.MDSpec Alg.MDModel Alg.Sha256Spec Alg.Sha256Model.
Import ListNotations.
Local Open Scope N_scope.
Ltac Zify.zify_post_hook ::= Z.to_euclidean_division_equations.

(* the C macros compute the same boolean functions as the standard's formulas *)
Lemma c256_Ch_eq x y z : c256_Ch x y z = f256_Ch x y z.
Proof. unfold c256_Ch, f256_Ch. bitwise. Qed.
Lemma c256_Maj_eq x y z : c256_Maj x y z = f256_Maj x y z.
Proof. unfold c256_Maj, f256_Maj. bitwise. Qed.
Lemma c256_S0_eq x : c256_S0 x = f256_Sigma0 x. Proof. reflexivity. Qed.
Lemma c256_S1_eq x : c256_S1 x = f256_Sigma1 x. Proof. reflexivity. Qed.
Lemma c256_s0_eq x : c256_s0 x = f256_sigma0 x. Proof. reflexivity. Qed.
Lemma c256_s1_eq x : c256_s1 x = f256_sigma1 x. Proof. reflexivity. Qed.

(* the working array after t rounds is the spec tuple rotated by t *)
Definition rotv (r : nat) (v : list N) : list N := skipn r v ++ firstn r v.

Arguments add32 : simpl never.
Arguments c256_S0 : simpl never.
Arguments c256_S1 : simpl never.
Arguments c256_Ch : simpl never.
Arguments c256_Maj : simpl never.
Arguments f256_Sigma0 : simpl never.
Arguments f256_Sigma1 : simpl never.
Arguments f256_Ch : simpl never.
Arguments f256_Maj : simpl never.

Lemma c256_rnd_sim i a b c d e f g h w k : (i < 16)%nat ->
  c256_rnd (rotv (i mod 8) [a; b; c; d; e; f; g; h]) i w k =
  rotv ((i + 1) mod 8) (f256_round [a; b; c; d; e; f; g; h] k w).
Proof.
  intros Hi.
  do 16 (destruct i as [|i];
         [ cbn; rewrite !c256_Ch_eq, !c256_Maj_eq, !c256_S0_eq, !c256_S1_eq;
           repeat (f_equal; try add32_ac) | ]).
  lia.
Qed.

Lemma rotv_0 v : rotv 0 v = v.
Proof. unfold rotv. cbn [skipn firstn]. apply app_nil_r. Qed.

Lemma f256_round_length v k w : length v = 8%nat -> length (f256_round v k w) = 8%nat.
Proof.
  intros H. do 8 (destruct v as [|? v]; [discriminate|]). destruct v; [|discriminate]. reflexivity.
Qed.

Section Transform.
  Variable K : list N.

  Lemma rounds_sim Wspec W ii : (forall j, (j < ii + 16)%nat -> nth j W 0 = nth j Wspec 0) ->
    forall n i v, (i + n <= 16)%nat -> length v = 8%nat ->
    fold_left (fun s i => c256_rnd s i (nth (i + ii) W 0) (nth (i + ii) K 0)) (seq i n) (rotv (i mod 8) v) =
    rotv ((i + n) mod 8)
         (fold_left (fun v t => f256_round v (nth t K 0) (nth t Wspec 0)) (seq (i + ii) n) v).
  Proof.
    intros HW. induction n as [|n IH]; intros i v Hin Hv.
    - cbn [seq fold_left]. rewrite Nat.add_0_r. reflexivity.
    - cbn [seq fold_left].
      assert (Hv' := Hv).
      do 8 (destruct v as [|? v]; [discriminate|]). destruct v; [|discriminate].
      rewrite c256_rnd_sim by lia.
      rewrite HW by lia.
      replace (S (i + ii)) with (S i + ii)%nat by lia.
      replace (i + S n)%nat with (S i + n)%nat by lia.
      replace (i + 1)%nat with (S i) by lia.
      apply IH; [lia|]. apply f256_round_length. exact Hv'.
  Qed.

  Lemma rounds16_sim Wspec W ii v : (forall j, (j < ii + 16)%nat -> nth j W 0 = nth j Wspec 0) ->
    length v = 8%nat ->
    c256_rounds16 K v W ii =
    fold_left (fun v t => f256_round v (nth t K 0) (nth t Wspec 0)) (seq ii 16) v.
  Proof.
    intros HW Hv. unfold c256_rounds16.
    pose proof (rounds_sim Wspec W ii HW 16 0 v (le_n _) Hv) as H.
    change (0 mod 8)%nat with 0%nat in H. change ((0 + 16) mod 8)%nat with 0%nat in H.
    rewrite !rotv_0 in H. exact H.
  Qed.
End Transform.

(* ---- the schedule ---- *)
Lemma f256_extend_length n : forall W, length (f256_extend n W) = (length W + n)%nat.
Proof.
  induction n as [|n IH]; intros W; cbn [f256_extend]; [lia|].
  rewrite IH, app_length. simpl. lia.
Qed.

Lemma f256_extend_old n : forall W j, (j < length W)%nat -> nth j (f256_extend n W) 0 = nth j W 0.
Proof.
  induction n as [|n IH]; intros W j Hj; cbn [f256_extend]; [reflexivity|].
  rewrite IH by (rewrite app_length; simpl; lia). apply app_nth1. exact Hj.
Qed.

Definition f256_wt (E : list N) (t : nat) : N :=
  add32 (add32 (add32 (f256_sigma1 (nth (t - 2) E 0)) (nth (t - 7) E 0))
               (f256_sigma0 (nth (t - 15) E 0))) (nth (t - 16) E 0).

Lemma f256_extend_rec n : forall W t, (16 <= length W)%nat -> (length W <= t < length W + n)%nat ->
  nth t (f256_extend n W) 0 = f256_wt (f256_extend n W) t.
Proof.
  induction n as [|n IH]; intros W t H16 Ht; [lia|]. cbn [f256_extend].
  set (x := add32 _ _). 
  destruct (Nat.eq_dec t (length W)) as [->|Hne].
  - rewrite f256_extend_old by (rewrite app_length; simpl; lia).
    rewrite app_nth2 by lia. rewrite Nat.sub_diag. cbn [nth].
    unfold f256_wt.
    rewrite !(f256_extend_old n (W ++ [x])) by (rewrite app_length; simpl; lia).
    rewrite !app_nth1 by lia. reflexivity.
  - apply IH; rewrite app_length; simpl; lia.
Qed.

Lemma be32dec_vect_length k : forall bs, length bs = (4 * k)%nat -> length (be32dec_vect bs) = k.
Proof.
  induction k as [|k IH]; intros bs H.
  - destruct bs; [reflexivity|discriminate].
  - do 4 (destruct bs as [|? bs]; [simpl in H; lia|]). cbn [be32dec_vect length]. f_equal.
    apply IH. simpl in H. lia.
Qed.

Section Sched.
  Variable block : list N.
  Hypothesis Hblock : length block = 64%nat.
  Let Wspec := f256_schedule block.

  Definition sched_ok (t : nat) (W : list N) : Prop :=
    length W = 64%nat /\ forall j, (j < t)%nat -> nth j W 0 = nth j Wspec 0.

  Lemma Wspec_rec t : (16 <= t < 64)%nat -> nth t Wspec 0 = f256_wt Wspec t.
  Proof.
    intros Ht. unfold Wspec, f256_schedule. apply f256_extend_rec;
      rewrite (be32dec_vect_length 16) by (rewrite Hblock; reflexivity); lia.
  Qed.

  Lemma sched_init : sched_ok 16 (be32dec_vect block ++ repeat 0 48).
  Proof.
    assert (length (be32dec_vect block) = 16%nat) as HL
        by (apply be32dec_vect_length; rewrite Hblock; reflexivity).
    split.
    - rewrite app_length, repeat_length, HL. reflexivity.
    - intros j Hj. rewrite app_nth1 by lia. unfold Wspec, f256_schedule.
      rewrite f256_extend_old by lia. reflexivity.
  Qed.

  Lemma msch_ok W ii i : sched_ok (i + ii + 16) W -> (i + ii + 16 < 64)%nat ->
    sched_ok (S (i + ii + 16)) (c256_msch W ii i).
  Proof.
    intros [HL HW] Hlt. unfold c256_msch. split; [rewrite upd_length; exact HL|].
    intros j Hj. destruct (Nat.eq_dec j (i + ii + 16)) as [->|Hne].
    - rewrite nth_upd_eq by lia. rewrite Wspec_rec by lia. unfold f256_wt.
      rewrite !HW by lia.
      replace (i + ii + 16 - 2)%nat with (i + ii + 14)%nat by lia.
      replace (i + ii + 16 - 7)%nat with (i + ii + 9)%nat by lia.
      replace (i + ii + 16 - 15)%nat with (i + ii + 1)%nat by lia.
      replace (i + ii + 16 - 16)%nat with (i + ii)%nat by lia.
      rewrite c256_s1_eq, c256_s0_eq. reflexivity.
    - rewrite nth_upd_neq by lia. apply HW. lia.
  Qed.

  Lemma msch_fold_ok ii : forall n i W, sched_ok (i + ii + 16) W -> (i + n + ii + 16 <= 64)%nat ->
    sched_ok (i + n + ii + 16) (fold_left (fun w i => c256_msch w ii i) (seq i n) W).
  Proof.
    induction n as [|n IH]; intros i W HW Hle; cbn [seq fold_left].
    - rewrite Nat.add_0_r. exact HW.
    - replace (i + S n + ii + 16)%nat with (S i + n + ii + 16)%nat by lia.
      apply IH; [|lia]. apply msch_ok; [exact HW|lia].
  Qed.

  Lemma msch16_ok W ii : sched_ok (ii + 16) W -> (ii + 32 <= 64)%nat ->
    sched_ok (ii + 32) (c256_msch16 W ii).
  Proof.
    intros HW Hle. unfold c256_msch16.
    pose proof (msch_fold_ok ii 16 0 W) as H.
    replace (0 + ii + 16)%nat with (ii + 16)%nat in H by lia.
    replace (0 + 16 + ii + 16)%nat with (ii + 32)%nat in H by lia. apply H; [exact HW|lia].
  Qed.
End Sched.

(* M1 *)
Theorem c256_transform_eq_compress K st block :
  length st = 8%nat -> length block = 64%nat ->
  c256_transform K st block =
  map2 add32 st (fold_left (fun v t => f256_round v (nth t K 0) (nth t (f256_schedule block) 0)) (seq 0 64) st).
Proof.
  intros Hst Hb. unfold c256_transform. f_equal.
  set (Wspec := f256_schedule block).
  set (stepf := fun v t => f256_round v (nth t K 0) (nth t Wspec 0)).
  assert (Hlen : forall n i v, length v = 8%nat -> length (fold_left stepf (seq i n) v) = 8%nat).
  { induction n as [|n IH]; intros i v Hv; cbn [seq fold_left]; [exact Hv|].
    apply IH. apply f256_round_length. exact Hv. }
  pose proof (sched_init block Hb) as H0.
  pose proof (msch16_ok block Hb _ 0 H0 ltac:(lia)) as H1.
  pose proof (msch16_ok block Hb _ 16 H1 ltac:(lia)) as H2.
  pose proof (msch16_ok block Hb _ 32 H2 ltac:(lia)) as H3.
  change (seq 0 64) with (seq 0 16 ++ seq 16 16 ++ seq 32 16 ++ seq 48 16).
  rewrite !fold_left_app.
  cbn [c256_mix Nat.ltb Nat.leb Nat.eqb Nat.add].
  set (W0 := be32dec_vect block ++ repeat 0 48) in *.
  set (v1 := fold_left stepf (seq 0 16) st).
  assert (E1 : c256_rounds16 K st W0 0 = v1)
    by (apply rounds16_sim; [intros j Hj; apply H0; lia | exact Hst]).
  rewrite E1.
  set (v2 := fold_left stepf (seq 16 16) v1).
  assert (E2 : c256_rounds16 K v1 (c256_msch16 W0 0) 16 = v2)
    by (apply rounds16_sim; [intros j Hj; apply H1; lia | apply Hlen; exact Hst]).
  rewrite E2.
  set (v3 := fold_left stepf (seq 32 16) v2).
  assert (E3 : c256_rounds16 K v2 (c256_msch16 (c256_msch16 W0 0) 16) 32 = v3)
    by (apply rounds16_sim; [intros j Hj; apply H2; lia | do 2 apply Hlen; exact Hst]).
  rewrite E3.
  apply rounds16_sim; [intros j Hj; apply H3; lia | do 3 apply Hlen; exact Hst].
Qed.

Corollary c256_transform_spec st block :
  length st = 8%nat -> length block = 64%nat ->
  c256_transform K256 st block = f256_compress st block.
Proof. intros. unfold f256_compress. apply c256_transform_eq_compress; assumption. Qed.
