(* PBKDF2 as RFC 8018 section 5.2 states it, generic in the pseudo-random function.
   Definitions only. *)
From Coq Require Import Arith NArith List.
From LCP Require Import Alg.Words.
Import ListNotations.
Local Open Scope N_scope.

Section Pbkdf2Spec.
  Variable PRF : list N -> list N -> list N.     (* key -> text -> hLen bytes *)
  Variable hLen : N.

  (* INT(i): four-octet encoding of the integer i, most significant octet first *)
  Definition INT4 (i : N) : list N :=
    [(i / 16777216) mod 256; (i / 65536) mod 256; (i / 256) mod 256; i mod 256].

  (* F(P, S, c, i) = U_1 xor U_2 xor ... xor U_c *)
  Definition pbkdf2_F (P S : list N) (c i : N) : list N :=
    let U1 := PRF P (S ++ INT4 i) in
    snd (N.iter (c - 1) (fun UT : list N * list N =>
                           let U' := PRF P (fst UT) in (U', xor_bytes (snd UT) U')) (U1, U1)).

  (* DK = T_1 || T_2 || ... || T_l<0..r-1>, l = CEIL(dkLen / hLen) *)
  Definition PBKDF2_spec (P S : list N) (c dkLen : N) : list N :=
    let l := (dkLen + (hLen - 1)) / hLen in
    firstn (N.to_nat dkLen)
           (concat (map (fun i => pbkdf2_F P S c (N.of_nat i)) (seq 1 (N.to_nat l)))).
End Pbkdf2Spec.
