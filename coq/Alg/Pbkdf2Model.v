(* Model of PBKDF2_SHA256 of alg/sha256.c: the two precomputed HMAC contexts, the block loop,
   INT(i+1) as a truncated uint32_t in big-endian, the inner loop for (j = 2; j <= c; j++), the
   final clen truncation.  Generic in the HMAC context functions.  Definitions only. *)
From Coq Require Import Arith NArith List.
From LCP Require Import Base.CheckedMem Alg.Words.
Import ListNotations.
Local Open Scope N_scope.

Section Pbkdf2Model.
  Variable hctx : Type.
  Variable hm_init : list N -> hctx.                   (* HMAC_SHA256_Init_internal *)
  Variable hm_update : hctx -> list N -> hctx.         (* HMAC_SHA256_Update_internal *)
  Variable hm_final : hctx -> list N * hctx.           (* HMAC_SHA256_Final_internal *)
  Variables hlen jstart ivec_len : N.                  (* 32, 2, 4 *)

  Definition pbkdf2_block (Phctx PShctx : hctx) (c i : N) : list N :=
    (* be32enc(ivec, (uint32_t)(i + 1)); *)
    let ivec := be32enc (w32 (i + 1)) in
    (* memcpy(&hctx, &PShctx, ..); Update(&hctx, ivec, 4); Final(U, &hctx);  memcpy(T, U, 32); *)
    let U1 := fst (hm_final (hm_update PShctx (firstn (N.to_nat ivec_len) ivec))) in
    (* for (j = 2; j <= c; j++) { memcpy(&hctx, &Phctx, ..); Update(&hctx, U, 32); Final(U, &hctx);
                                   for (k = 0; k < 32; k++) T[k] ^= U[k]; } *)
    snd (N.iter (c + 1 - jstart)
                (fun UT : list N * list N =>
                   let U' := fst (hm_final (hm_update Phctx (firstn (N.to_nat hlen) (fst UT)))) in
                   (U', xor_bytes (snd UT) U'))
                (U1, U1)).

  Definition pbkdf2_c (passwd salt : list N) (c dkLen : N) : res (list N) :=
    (* assert(dkLen <= 32 * (size_t)(UINT32_MAX)); *)
    if hlen * 4294967295 <? dkLen then AssertFail
    (* uint64_t j; j <= c with c = UINT64_MAX never becomes false: the C does not return *)
    else if c =? 18446744073709551615 then OutOfFuel
    else
      let Phctx := hm_init passwd in
      let PShctx := hm_update Phctx salt in
      (* for (i = 0; i * 32 < dkLen; i++): CEIL(dkLen / 32) passes *)
      let passes := (dkLen + (hlen - 1)) / hlen in
      Ok (snd (N.iter passes
                      (fun io : N * list N =>
                         let i := fst io in
                         let T := pbkdf2_block Phctx PShctx c i in
                         (* clen = dkLen - i * 32; if (clen > 32) clen = 32; memcpy(&buf[i * 32], T, clen); *)
                         let clen := dkLen - i * hlen in
                         let clen := if hlen <? clen then hlen else clen in
                         (i + 1, snd io ++ firstn (N.to_nat clen) T))
                      (0, []))).
End Pbkdf2Model.
