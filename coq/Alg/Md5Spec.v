(* MD5 as RFC 1321 states it (3.1-3.2 padding with a little-endian length, 3.3 initial buffer,
   3.4 the four auxiliary functions, the table T[i] = floor(2^32 * |sin i|) and the 64 operations
   [abcd k s i]).  Written from the RFC, independent of alg/md5.c.  Definitions only. *)
From Coq Require Import Arith NArith List.
From LCP Require Import Alg.Words Alg.MDSpec.
Import ListNotations.
Local Open Scope N_scope.

Definition IV_md5 : list N := [0x67452301; 0xefcdab89; 0x98badcfe; 0x10325476].

(* 3.4 *)
Definition r5_F (x y z : N) : N := N.lor (N.land x y) (N.ldiff z x).      (* XY v not(X) Z *)
Definition r5_G (x y z : N) : N := N.lor (N.land x z) (N.ldiff y z).      (* XZ v Y not(Z) *)
Definition r5_H (x y z : N) : N := N.lxor (N.lxor x y) z.
Definition r5_I (x y z : N) : N := N.lxor y (N.lor x (not32 z)).          (* Y xor (X v not(Z)) *)

Definition T_md5 : list N :=
  [0xd76aa478; 0xe8c7b756; 0x242070db; 0xc1bdceee;
   0xf57c0faf; 0x4787c62a; 0xa8304613; 0xfd469501;
   0x698098d8; 0x8b44f7af; 0xffff5bb1; 0x895cd7be;
   0x6b901122; 0xfd987193; 0xa679438e; 0x49b40821;
   0xf61e2562; 0xc040b340; 0x265e5a51; 0xe9b6c7aa;
   0xd62f105d; 0x02441453; 0xd8a1e681; 0xe7d3fbc8;
   0x21e1cde6; 0xc33707d6; 0xf4d50d87; 0x455a14ed;
   0xa9e3e905; 0xfcefa3f8; 0x676f02d9; 0x8d2a4c8a;
   0xfffa3942; 0x8771f681; 0x6d9d6122; 0xfde5380c;
   0xa4beea44; 0x4bdecfa9; 0xf6bb4b60; 0xbebfbc70;
   0x289b7ec6; 0xeaa127fa; 0xd4ef3085; 0x04881d05;
   0xd9d4d039; 0xe6db99e5; 0x1fa27cf8; 0xc4ac5665;
   0xf4292244; 0x432aff97; 0xab9423a7; 0xfc93a039;
   0x655b59c3; 0x8f0ccc92; 0xffeff47d; 0x85845dd1;
   0x6fa87e4f; 0xfe2ce6e0; 0xa3014314; 0x4e0811a1;
   0xf7537e82; 0xbd3af235; 0x2ad7d2bb; 0xeb86d391].

(* per-round shift amounts and message-word index (t = 0..63) *)
Definition r5_s (t : nat) : N :=
  nth (t mod 4)
      (nth (t / 16) [[7; 12; 17; 22]; [5; 9; 14; 20]; [4; 11; 16; 23]; [6; 10; 15; 21]] []) 0.
Definition r5_k (t : nat) : nat :=
  match (t / 16)%nat with
  | 0 => t
  | 1 => (1 + 5 * t) mod 16
  | 2 => (5 + 3 * t) mod 16
  | _ => (7 * t) mod 16
  end%nat.
Definition r5_f (t : nat) : N -> N -> N -> N :=
  match (t / 16)%nat with 0%nat => r5_F | 1%nat => r5_G | 2%nat => r5_H | _ => r5_I end.

(* one operation [abcd k s i]: a = b + ((a + f(b,c,d) + X[k] + T[i]) <<< s); the register names
   then rotate (ABCD, DABC, CDAB, BCDA), which on the tuple is (A,B,C,D) := (D, a', B, C). *)
Definition r5_step (X : list N) (v : list N) (t : nat) : list N :=
  match v with
  | [a; b; c; d] =>
    let a' := add32 b (rotl32 (add32 (add32 (add32 a (r5_f t b c d)) (nth (r5_k t) X 0)) (nth t T_md5 0))
                              (r5_s t)) in
    [d; a'; b; c]
  | _ => v
  end.

Definition r5_compress (H block : list N) : list N :=
  let X := le32dec_vect block in
  map2 add32 H (fold_left (r5_step X) (seq 0 64) H).

Definition le64enc_spec (x : N) : list N := rev (be64enc x).

Definition MD5_spec (m : list N) : list N :=
  le32enc_vect (md_hash r5_compress IV_md5 le64enc_spec m).
