(* Model of MD5_Transform of alg/md5.c: the 64 macro invocations XXr(S, W, i, s, T) on the
   rotating array S[4], taken in the order and with the (kind, i, s, T) the translator found in
   the source; the message-word index (i * mul + add) % 16 comes from the XXr macro bodies.
   The streaming functions are MD32Model's.  Definitions only. *)
From Coq Require Import Arith NArith List.
From LCP Require Import Alg.Words Alg.MDModel Alg.MD32Model.
Import ListNotations.
Local Open Scope N_scope.

Definition c5_F (x y z : N) : N := N.lxor (N.land x (N.lxor y z)) z.
Definition c5_G (x y z : N) : N := N.lxor (N.land z (N.lxor x y)) y.
Definition c5_H (x y z : N) : N := N.lxor (N.lxor x y) z.
Definition c5_I (x y z : N) : N := N.lxor (N.lor x (not32 z)) y.
Definition c5_f (kind : nat) : N -> N -> N -> N :=
  match kind with 0%nat => c5_F | 1%nat => c5_G | 2%nat => c5_H | _ => c5_I end.

Section Model.
  Variable formulas : list (N * N * N).    (* per kind FF GG HH II: (mul, add, modulus) *)
  Variable ops : list (N * N * N * N).     (* invocations in source order: (kind, i, s, T) *)

  (* XXr(S, W, i, s, T):  a = b + ROTL((a + f(b, c, d) + W[(i*mul+add)%16] + T), s)
     with a..d = S[(64-i)%4] .. S[(67-i)%4] *)
  Definition c5_rnd (W sv : list N) (op : N * N * N * N) : list N :=
    let '(kd, i_, s, T) := op in
    let kind := N.to_nat kd in let i := N.to_nat i_ in
    let '(mul, ad, md) := nth kind formulas (0, 0, 1) in
    let ia := ((64 - i) mod 4)%nat in let ib := ((65 - i) mod 4)%nat in
    let ic := ((66 - i) mod 4)%nat in let id := ((67 - i) mod 4)%nat in
    let g (l : list N) (j : nat) := nth j l 0 in
    let x := nth (N.to_nat ((i_ * mul + ad) mod md)) W 0 in
    upd sv ia (add32 (g sv ib)
                     (rotl32 (add32 (add32 (add32 (g sv ia) (c5_f kind (g sv ib) (g sv ic) (g sv id))) x) T) s)).

  Definition c5_transform (state block : list N) : list N :=
    let W := le32dec_vect block in                             (* le32dec_vect(W, block, 64) *)
    let sv := fold_left (c5_rnd W) ops state in                (* memcpy(S, state, 16); mix *)
    map2 add32 state sv.                                       (* state[i] += S[i] *)
End Model.
