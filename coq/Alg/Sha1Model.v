(* Model of SHA1_Transform of alg/sha1.c: full 80-word schedule first, then the 80 macro
   invocations RNDkr(S, W, i) on the rotating array S[5], taken in the order and with the kinds
   the translator found in the source.  The streaming functions are MD32Model's.
   Definitions only. *)
From Coq Require Import Arith NArith List.
From LCP Require Import Alg.Words Alg.MDModel Alg.MD32Model.
Import ListNotations.
Local Open Scope N_scope.

Definition c1_Ch (x y z : N) : N := N.lxor (N.land x (N.lxor y z)) z.
Definition c1_Maj (x y z : N) : N := N.lor (N.land x (N.lor y z)) (N.land y z).
Definition c1_Xor3 (x y z : N) : N := N.lxor (N.lxor x y) z.
(* boolean function code found in the RNDk macro body: 0 = Ch, 1 = (b ^ c ^ d), 2 = Maj *)
Definition c1_f (fc : N) : N -> N -> N -> N :=
  match fc with 0 => c1_Ch | 1 => c1_Xor3 | _ => c1_Maj end.

Section Model.
  Variable kinds : list (N * N * N * N).   (* per RNDk: function code, constant, ROTL(a,.), ROTL(b,.) *)
  Variable rounds : list (N * N).          (* the invocations RND<kind>r(S, W, <i>) in source order *)
  Variable offsets : list N.               (* 3 8 14 16 *)
  Variables sched_rot sched_from sched_to : N.   (* 1 16 80 *)

  (* RNDkr(S, W, i):  e = ROTL(a, 5) + f(b, c, d) + e + W[i] + K;  b = ROTL(b, 30);
     with a..e = S[(80-i)%5] .. S[(84-i)%5] *)
  Definition c1_rnd (sv : list N) (kind i : nat) (w : N) : list N :=
    let '(fc, kc, ra, rb) := nth kind kinds (0, 0, 0, 0) in
    let ia := ((80 - i) mod 5)%nat in let ib := ((81 - i) mod 5)%nat in
    let ic := ((82 - i) mod 5)%nat in let id := ((83 - i) mod 5)%nat in
    let ie := ((84 - i) mod 5)%nat in
    let g (l : list N) (j : nat) := nth j l 0 in
    let s1 := upd sv ie (add32 (add32 (add32 (add32 (rotl32 (g sv ia) ra)
                                                     (c1_f fc (g sv ib) (g sv ic) (g sv id)))
                                             (g sv ie)) w) kc) in
    upd s1 ib (rotl32 (g s1 ib) rb).

  (* W[i] = W[i-3] ^ W[i-8] ^ W[i-14] ^ W[i-16]; W[i] = ROTL(W[i], 1); *)
  Definition c1_sched_step (W : list N) (i : nat) : list N :=
    let rdo (o : N) := nth (i - N.to_nat o) W 0 in
    let x := match offsets with
             | [o1; o2; o3; o4] => N.lxor (N.lxor (N.lxor (rdo o1) (rdo o2)) (rdo o3)) (rdo o4)
             | _ => 0
             end in
    let W1 := upd W i x in
    upd W1 i (rotl32 (nth i W1 0) sched_rot).

  Definition c1_transform (state block : list N) : list N :=
    let W0 := be32dec_vect block ++ repeat 0 64 in              (* uint32_t W[80] *)
    let W := fold_left c1_sched_step
                       (seq (N.to_nat sched_from) (N.to_nat sched_to - N.to_nat sched_from)) W0 in
    let sv := fold_left (fun s (ki : N * N) =>
                           c1_rnd s (N.to_nat (fst ki)) (N.to_nat (snd ki)) (nth (N.to_nat (snd ki)) W 0))
                        rounds state in                         (* memcpy(S, state, 20); mix *)
    map2 add32 state sv.                                        (* state[i] += S[i] *)
End Model.
