(* Model of the portable path of alg/sha256.c: SHA256_Transform (C version, rotating working
   array S[8], schedule W[64] filled 16 words at a time), SHA256_Pad, SHA256_Init,
   SHA256_Update_internal, SHA256_Final_internal / SHA256_Final, SHA256_Buf.
   Parametric in the tables and limits the translator regenerates (Gen/Repo_hash.v).
   Definitions only. *)
From Coq Require Import Arith NArith List.
From LCP Require Import Alg.Words Alg.MDModel.
Import ListNotations.
Local Open Scope N_scope.

Record ctx256 : Type := mk256 { c256_state : list N; c256_count : N; c256_buf : list N }.

(* the elementary macros of sha256.c *)
Definition c256_Ch (x y z : N) : N := N.lxor (N.land x (N.lxor y z)) z.
Definition c256_Maj (x y z : N) : N := N.lor (N.land x (N.lor y z)) (N.land y z).
Definition c256_S0 (x : N) : N := N.lxor (N.lxor (rotr32 x 2) (rotr32 x 13)) (rotr32 x 22).
Definition c256_S1 (x : N) : N := N.lxor (N.lxor (rotr32 x 6) (rotr32 x 11)) (rotr32 x 25).
Definition c256_s0 (x : N) : N := N.lxor (N.lxor (rotr32 x 7) (rotr32 x 18)) (shr x 3).
Definition c256_s1 (x : N) : N := N.lxor (N.lxor (rotr32 x 17) (rotr32 x 19)) (shr x 10).

Section Model.
  Variable Krnd : list N.          (* static const uint32_t Krnd[64] *)
  Variable iv : list N.            (* initial_state[8] *)
  Variable PAD : list N.           (* PAD[64] *)
  Variables padlim blk cshift rmask : N.   (* 56, 64, 3, 0x3f *)

  (* RNDr(S, W, i, ii): RND on S[(64-i)%8] .. S[(71-i)%8] with k = W[i+ii] + Krnd[i+ii];
     the three statements of RND are executed in order on the array. *)
  Definition c256_rnd (sv : list N) (i : nat) (w k : N) : list N :=
    let ia := ((64 - i) mod 8)%nat in let ib := ((65 - i) mod 8)%nat in
    let ic := ((66 - i) mod 8)%nat in let id := ((67 - i) mod 8)%nat in
    let ie := ((68 - i) mod 8)%nat in let jf := ((69 - i) mod 8)%nat in
    let ig := ((70 - i) mod 8)%nat in let ih := ((71 - i) mod 8)%nat in
    let g (l : list N) (j : nat) := nth j l 0 in
    (* h += S1(e) + Ch(e, f, g) + W[i + ii] + Krnd[i + ii]; *)
    let s1 := upd sv ih (add32 (g sv ih)
                (add32 (add32 (add32 (c256_S1 (g sv ie)) (c256_Ch (g sv ie) (g sv jf) (g sv ig))) w) k)) in
    (* d += h; *)
    let s2 := upd s1 id (add32 (g s1 id) (g s1 ih)) in
    (* h += S0(a) + Maj(a, b, c) *)
    upd s2 ih (add32 (g s2 ih) (add32 (c256_S0 (g s2 ia)) (c256_Maj (g s2 ia) (g s2 ib) (g s2 ic)))).

  Definition c256_rounds16 (sv W : list N) (ii : nat) : list N :=
    fold_left (fun s i => c256_rnd s i (nth (i + ii) W 0) (nth (i + ii) Krnd 0)) (seq 0 16) sv.

  (* MSCH(W, ii, i): W[i+ii+16] = s1(W[i+ii+14]) + W[i+ii+9] + s0(W[i+ii+1]) + W[i+ii] *)
  Definition c256_msch (W : list N) (ii i : nat) : list N :=
    upd W (i + ii + 16)
        (add32 (add32 (add32 (c256_s1 (nth (i + ii + 14) W 0)) (nth (i + ii + 9) W 0))
                      (c256_s0 (nth (i + ii + 1) W 0))) (nth (i + ii) W 0)).
  Definition c256_msch16 (W : list N) (ii : nat) : list N :=
    fold_left (fun w i => c256_msch w ii i) (seq 0 16) W.

  (* for (i = 0; i < 64; i += 16) { 16 x RNDr; if (i == 48) break; 16 x MSCH; } *)
  Fixpoint c256_mix (fuel ii : nat) (sv W : list N) {struct fuel} : list N :=
    match fuel with
    | O => sv
    | S f =>
      if (ii <? 64)%nat then
        let sv' := c256_rounds16 sv W ii in
        if (ii =? 48)%nat then sv' else c256_mix f (ii + 16) sv' (c256_msch16 W ii)
      else sv
    end.

  (* SHA256_Transform(state, block, W, S); W's words 16..63 hold stale data until written *)
  Definition c256_transform (state block : list N) : list N :=
    let W := be32dec_vect block ++ repeat 0 48 in      (* be32dec_vect(W, block, 64) *)
    let sv := c256_mix 4 0 state W in                  (* memcpy(S, state, 32); mix *)
    map2 add32 state sv.                               (* state[i] += S[i] *)

  Definition c256_init : ctx256 := mk256 iv 0 (repeat 0 64).

  Definition c256_r (c : ctx256) : nat := N.to_nat (N.land (N.shiftr (c256_count c) cshift) rmask).

  (* SHA256_Update_internal *)
  Definition c256_update (c : ctx256) (d : list N) : ctx256 :=
    let len := N.of_nat (length d) in
    if len =? 0 then c
    else
      let r := c256_r c in
      (* ctx->count += (uint64_t)(len) << 3; *)
      let count' := w64 (c256_count c + w64 (N.shiftl len cshift)) in
      let '(st, bf) := update_body c256_transform (N.to_nat blk) (c256_state c) (c256_buf c) r d in
      mk256 st count' bf.

  (* SHA256_Pad *)
  Definition c256_pad (c : ctx256) : ctx256 :=
    let r := c256_r c in
    let lim := N.to_nat padlim in
    let '(st, bf) :=
      if (r <? lim)%nat then
        (c256_state c, buf_write (c256_buf c) r (firstn (lim - r) PAD))
      else
        let b1 := buf_write (c256_buf c) r (firstn (N.to_nat blk - r) PAD) in
        let st1 := c256_transform (c256_state c) b1 in
        (st1, buf_write b1 0 (repeat 0 lim)) in
    (* be64enc(&ctx->buf[56], ctx->count); SHA256_Transform(ctx->state, ctx->buf, ..) *)
    let bf2 := buf_write bf lim (be64enc (c256_count c)) in
    mk256 (c256_transform st bf2) (c256_count c) bf2.

  (* SHA256_Final_internal: digest and the context as it is left (not wiped) *)
  Definition c256_final_internal (c : ctx256) : list N * ctx256 :=
    let c' := c256_pad c in (be32enc_vect (c256_state c'), c').

  (* an all-zero SHA256_CTX *)
  Definition c256_zero : ctx256 := mk256 (repeat 0 8) 0 (repeat 0 64).

  (* SHA256_Final: SHA256_Final_internal, then whatever the statements that follow it do to the
     context.  [wipe] is NOT fixed here: HashRepo.v passes the result of interpreting the statement
     list regenerated from the body of SHA256_Final (Alg/HashWipe.v). *)
  Definition c256_final (wipe : ctx256 -> ctx256) (c : ctx256) : list N * ctx256 :=
    (fst (c256_final_internal c), wipe (snd (c256_final_internal c))).

  (* SHA256_Buf *)
  Definition c256_buf_oneshot (m : list N) : list N :=
    fst (c256_final_internal (c256_update c256_init m)).
End Model.

Definition c256_is_zero (c : ctx256) : bool :=
  all_zero (c256_state c) && (c256_count c =? 0) && all_zero (c256_buf c).
