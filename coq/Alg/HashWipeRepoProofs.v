(* C20 for the models instantiated with the regenerated data (HashRepo.v): the contexts returned by
   the six Final functions are all-zero BECAUSE the zero sets the interpreter (Alg/HashWipe.v)
   computes from the REGENERATED statement lists of the C Final functions and the REGENERATED struct
   layouts contain every field - established by vm_compute on those lists and lifted to every input
   context by mask256_zero / mask32_zero.  A wipe removed from, mis-sized in, made conditional in or
   moved inside the C changes the lists and breaks the corresponding proofs here at the next run. *)
From Coq Require Import String.
From Coq Require Import Arith NArith List.
From LCP Require Import Gen.Repo_hash Alg.Words Alg.Sha256Model Alg.MD32Model Alg.HmacModel Alg.HashWipe Alg.HashWipeProofs Alg.HashRepo.
Import ListNotations.
Local Open Scope N_scope.

Theorem repo_sha256_final_zeroes_ctx c : c256_is_zero (snd (sha256_final c)) = true.
Proof.
  unfold sha256_final, c256_final. cbn [snd].
  apply mask256_zero; vm_compute; reflexivity.
Qed.

Theorem repo_sha256_final_wipes_whole :
  wipes_whole_ctx hash_structs hash_final_fns "SHA256_Final"%string = true.
Proof. vm_compute. reflexivity. Qed.

Theorem repo_sha1_final_zeroes_ctx c : c32_is_zero (snd (sha1_final c)) = true.
Proof.
  unfold sha1_final, sha1_final_with, c32_final. cbn [snd].
  apply mask32_zero; vm_compute; reflexivity.
Qed.

Theorem repo_sha1_final_wipes_whole :
  wipes_whole_ctx hash_structs hash_final_fns "SHA1_Final"%string = true.
Proof. vm_compute. reflexivity. Qed.

Theorem repo_md5_final_zeroes_ctx c : c32_is_zero (snd (md5_final c)) = true.
Proof.
  unfold md5_final, md5_final_with, c32_final. cbn [snd].
  apply mask32_zero; vm_compute; reflexivity.
Qed.

Theorem repo_md5_final_wipes_whole :
  wipes_whole_ctx hash_structs hash_final_fns "MD5_Final"%string = true.
Proof. vm_compute. reflexivity. Qed.

Theorem repo_hmac_sha256_final_zeroes_ctx c : hctx256_is_zero (snd (hmac256_final c)) = true.
Proof.
  unfold hmac256_final, hmac_final.
  destruct (hmac_final_internal ctx256 sha256_update sha256_final_internal hmac_sha256_ihash_len c) as [dg c'].
  unfold hctx256_is_zero. cbn [snd hm_ictx hm_octx].
  rewrite !mask256_zero by (vm_compute; reflexivity). reflexivity.
Qed.

Theorem repo_hmac_sha256_final_wipes_whole :
  wipes_whole_ctx hash_structs hash_final_fns "HMAC_SHA256_Final"%string = true.
Proof. vm_compute. reflexivity. Qed.

Theorem repo_hmac_sha1_final_zeroes_ctx c : hctx32_is_zero (snd (hmacsha1_final c)) = true.
Proof.
  unfold hmacsha1_final, hmac_final.
  destruct (hmac_final_internal ctx32 sha1_update sha1_final_nowipe hmac_sha1_ihash_len c) as [dg c'].
  unfold hctx32_is_zero. cbn [snd hm_ictx hm_octx].
  rewrite !mask32_zero by (vm_compute; reflexivity). reflexivity.
Qed.

Theorem repo_hmac_sha1_final_wipes_whole :
  wipes_whole_ctx hash_structs hash_final_fns "HMAC_SHA1_Final"%string = true.
Proof. vm_compute. reflexivity. Qed.

Theorem repo_hmac_md5_final_zeroes_ctx c : hctx32_is_zero (snd (hmacmd5_final c)) = true.
Proof.
  unfold hmacmd5_final, hmac_final.
  destruct (hmac_final_internal ctx32 md5_update md5_final_nowipe hmac_md5_ihash_len c) as [dg c'].
  unfold hctx32_is_zero. cbn [snd hm_ictx hm_octx].
  rewrite !mask32_zero by (vm_compute; reflexivity). reflexivity.
Qed.

Theorem repo_hmac_md5_final_wipes_whole :
  wipes_whole_ctx hash_structs hash_final_fns "HMAC_MD5_Final"%string = true.
Proof. vm_compute. reflexivity. Qed.

(* non-vacuity: the computation leaves a dirty context; it is the regenerated wipes that zero it *)
Example repo_sha1_dirty_then_wiped :
  c32_is_zero (snd (sha1_final_nowipe (sha1_update sha1_init [97; 98; 99]))) = false /\
  c32_is_zero (snd (sha1_final (sha1_update sha1_init [97; 98; 99]))) = true.
Proof. split; vm_compute; reflexivity. Qed.

Example repo_sha256_dirty_then_wiped :
  c256_is_zero (snd (sha256_final_internal (sha256_update sha256_init [97; 98; 99]))) = false /\
  c256_is_zero (snd (sha256_final (sha256_update sha256_init [97; 98; 99]))) = true.
Proof. split; vm_compute; reflexivity. Qed.

Example repo_hmac_sha256_dirty_then_wiped :
  hctx256_is_zero (snd (hmac256_final_internal (hmac256_update (hmac256_init [1; 2; 3]) [97; 98; 99]))) = false /\
  hctx256_is_zero (snd (hmac256_final (hmac256_update (hmac256_init [1; 2; 3]) [97; 98; 99]))) = true.
Proof. split; vm_compute; reflexivity. Qed.

Example repo_hmac_md5_wiped_through_inner_finals :
  hmacmd5_final_zero =
  [["octx"; "state"]; ["octx"; "count"]; ["octx"; "buf"]; ["ictx"; "state"]; ["ictx"; "count"]; ["ictx"; "buf"]]%string.
Proof. vm_compute. reflexivity. Qed.
