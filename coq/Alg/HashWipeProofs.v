(* Lemmas of the interpreter of Alg/HashWipe.v: a model context whose three fields are in the zero
   set is all-zero after masking, whatever it held; a field that is NOT in the zero set keeps what
   the computation left there.  Plus sensitivity examples: the interpreter run on statement lists
   with a removed, mis-sized, conditional or misplaced wipe does not report the field as zero. *)
From Coq Require Import String.
From Coq Require Import NArith List Bool.
From LCP Require Import Alg.Words Alg.Sha256Model Alg.MD32Model Alg.HashWipe.
Import ListNotations.
Local Open Scope N_scope.

Lemma all_zero_wzeros l : all_zero (wzeros l) = true.
Proof. induction l as [|x l IH]; [reflexivity|]. cbn [wzeros map all_zero forallb]. exact IH. Qed.

Lemma mask256_zero Z pre c :
  wcovered Z (pre ++ ["state"%string]) = true ->
  wcovered Z (pre ++ ["count"%string]) = true ->
  wcovered Z (pre ++ ["buf"%string]) = true ->
  c256_is_zero (mask256 Z pre c) = true.
Proof.
  intros Hs Hc Hb. unfold c256_is_zero, mask256. cbn [c256_state c256_count c256_buf].
  rewrite Hs, Hc, Hb, !all_zero_wzeros. reflexivity.
Qed.

Lemma mask32_zero Z pre c :
  wcovered Z (pre ++ ["state"%string]) = true ->
  wcovered Z (pre ++ ["count"%string]) = true ->
  wcovered Z (pre ++ ["buf"%string]) = true ->
  c32_is_zero (mask32 Z pre c) = true.
Proof.
  intros Hs Hc Hb. unfold c32_is_zero, mask32. cbn [c32_state c32_count0 c32_count1 c32_buf].
  rewrite Hs, Hc, Hb, !all_zero_wzeros. reflexivity.
Qed.

(* nothing is zeroed that the zero set does not name *)
Lemma mask256_keeps Z pre c :
  wcovered Z (pre ++ ["state"%string]) = false ->
  wcovered Z (pre ++ ["count"%string]) = false ->
  wcovered Z (pre ++ ["buf"%string]) = false ->
  mask256 Z pre c = c.
Proof. intros Hs Hc Hb. unfold mask256. rewrite Hs, Hc, Hb. destruct c; reflexivity. Qed.

Lemma mask32_keeps Z pre c :
  wcovered Z (pre ++ ["state"%string]) = false ->
  wcovered Z (pre ++ ["count"%string]) = false ->
  wcovered Z (pre ++ ["buf"%string]) = false ->
  mask32 Z pre c = c.
Proof. intros Hs Hc Hb. unfold mask32. rewrite Hs, Hc, Hb. destruct c; reflexivity. Qed.

(* ---------------- sensitivity of the interpreter (hand-written statement lists) ---------------- *)
Local Open Scope string_scope.
Definition ex_structs : wstructs :=
  [("H_CTX", [("uint32_t", "state", 5%N); ("uint32_t", "count", 2%N); ("uint8_t", "buf", 64%N)]);
   ("HM_CTX", [("H_CTX", "ictx", 1%N); ("H_CTX", "octx", 1%N)])].
Definition ex_final (body : list wstmt) : wfn := ("H_Final", ("H_CTX", "ctx", 1%N), body).
Definition ex_hfinal (body : list wstmt) : wfn := ("HM_Final", ("HM_CTX", "c", 1%N), body).
Definition ex_pad : wstmt := (0%N, "H_Pad", ["ctx"]).
Definition ex_wipe (sz : string) : wstmt := (0%N, "insecure_memzero", ["ctx"; sz]).
Definition ex_inner : list wstmt :=
  [(0%N, "H_Final", ["ihash"; "&c->ictx"]); (0%N, "H_Update", ["&c->octx"; "ihash"; "20"]);
   (0%N, "H_Final", ["digest"; "&c->octx"])].

Example ex_wiped :
  wipes_whole_ctx ex_structs [ex_final [ex_pad; ex_wipe "sizeof(H_CTX)"]] "H_Final" = true.
Proof. reflexivity. Qed.
Example ex_wiped_deref :
  wipes_whole_ctx ex_structs [ex_final [ex_pad; ex_wipe "sizeof(*ctx)"]] "H_Final" = true.
Proof. reflexivity. Qed.
Example ex_wipe_removed :
  wzero_after 8 ex_structs [ex_final [ex_pad]] "H_Final" = [].
Proof. reflexivity. Qed.
Example ex_wipe_pointer_size :
  wzero_after 8 ex_structs [ex_final [ex_pad; ex_wipe "sizeof(ctx)"]] "H_Final" = [].
Proof. reflexivity. Qed.
Example ex_wipe_literal_size :
  wzero_after 8 ex_structs [ex_final [ex_pad; ex_wipe "92"]] "H_Final" = [].
Proof. reflexivity. Qed.
Example ex_wipe_other_type :
  wzero_after 8 ex_structs [ex_final [ex_pad; ex_wipe "sizeof(HM_CTX)"]] "H_Final" = [].
Proof. reflexivity. Qed.
Example ex_wipe_before_use :
  wzero_after 8 ex_structs [ex_final [ex_wipe "sizeof(H_CTX)"; ex_pad]] "H_Final" = [].
Proof. reflexivity. Qed.
Example ex_wipe_conditional :
  wzero_after 8 ex_structs
    [ex_final [ex_pad; (1%N, "", ["if(ctx->count[0])insecure_memzero(ctx,sizeof(H_CTX))"])]] "H_Final" = [].
Proof. reflexivity. Qed.
Example ex_wipe_one_field :
  wzero_after 8 ex_structs
    [ex_final [ex_pad; (0%N, "insecure_memzero", ["&ctx->count"; "sizeof(uint32_t)"])]] "H_Final" = [].
Proof. reflexivity. Qed.
(* HMAC through the inner Final calls: whole object iff the inner Final wipes *)
Example ex_hmac_through_inner :
  wipes_whole_ctx ex_structs [ex_final [ex_pad; ex_wipe "sizeof(H_CTX)"]; ex_hfinal ex_inner] "HM_Final" = true.
Proof. reflexivity. Qed.
Example ex_hmac_inner_unwiped :
  wzero_after 8 ex_structs [ex_final [ex_pad]; ex_hfinal ex_inner] "HM_Final" = [].
Proof. reflexivity. Qed.
(* an Update on octx after its Final: octx is no longer known to be zero, ictx still is *)
Example ex_hmac_touched_after :
  wzero_after 8 ex_structs
    [ex_final [ex_pad; ex_wipe "sizeof(H_CTX)"];
     ex_hfinal (ex_inner ++ [(0%N, "H_Update", ["&c->octx"; "x"; "1"])])] "HM_Final"
  = [["ictx"; "state"]; ["ictx"; "count"]; ["ictx"; "buf"]].
Proof. reflexivity. Qed.
