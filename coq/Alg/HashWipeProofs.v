(* Lemmas of the interpreter of Alg/HashWipe.v: a model context whose three fields are in the zero
   set is all-zero after masking, whatever it held; a field that is NOT in the zero set keeps what
   the computation left there.  Plus sensitivity examples: the interpreter run on statement lists
   with a removed, mis-sized, guarded or misplaced wipe does not report the field as zero, and sizes
   are compared by value (literal, product, sizeof, with alignment padding). *)
From Coq Require Import String.
From Coq Require Import NArith List Bool.
From LCP Require Import Alg.Words Alg.Sha256Model Alg.MD32Model Alg.HashWipe.
Import ListNotations.
Local Open Scope N_scope.

Lemma all_zero_wzeros l : all_zero (wzeros l) = true.
Proof. induction l as [|x l IH]; [reflexivity|]. cbn [wzeros map all_zero forallb]. exact IH. Qed.

Lemma mask256_zero Z pre c :
  wcovered Z (pre ++ ["state"%string]) = true ->
  wcovered Z (pre ++ ["count"%string]) = true ->
  wcovered Z (pre ++ ["buf"%string]) = true ->
  c256_is_zero (mask256 Z pre c) = true.
Proof.
  intros Hs Hc Hb. unfold c256_is_zero, mask256. cbn [c256_state c256_count c256_buf].
  rewrite Hs, Hc, Hb, !all_zero_wzeros. reflexivity.
Qed.

Lemma mask32_zero Z pre c :
  wcovered Z (pre ++ ["state"%string]) = true ->
  wcovered Z (pre ++ ["count"%string]) = true ->
  wcovered Z (pre ++ ["buf"%string]) = true ->
  c32_is_zero (mask32 Z pre c) = true.
Proof.
  intros Hs Hc Hb. unfold c32_is_zero, mask32. cbn [c32_state c32_count0 c32_count1 c32_buf].
  rewrite Hs, Hc, Hb, !all_zero_wzeros. reflexivity.
Qed.

(* nothing is zeroed that the zero set does not name *)
Lemma mask256_keeps Z pre c :
  wcovered Z (pre ++ ["state"%string]) = false ->
  wcovered Z (pre ++ ["count"%string]) = false ->
  wcovered Z (pre ++ ["buf"%string]) = false ->
  mask256 Z pre c = c.
Proof. intros Hs Hc Hb. unfold mask256. rewrite Hs, Hc, Hb. destruct c; reflexivity. Qed.

Lemma mask32_keeps Z pre c :
  wcovered Z (pre ++ ["state"%string]) = false ->
  wcovered Z (pre ++ ["count"%string]) = false ->
  wcovered Z (pre ++ ["buf"%string]) = false ->
  mask32 Z pre c = c.
Proof. intros Hs Hc Hb. unfold mask32. rewrite Hs, Hc, Hb. destruct c; reflexivity. Qed.

(* ---------------- sensitivity of the interpreter (hand-written statement lists) ---------------- *)
Local Open Scope string_scope.
Definition ex_structs : wstructs :=
  [("H_CTX", [("uint32_t", "state", 5%N); ("uint32_t", "count", 2%N); ("uint8_t", "buf", 64%N)]);
   ("HM_CTX", [("H_CTX", "ictx", 1%N); ("H_CTX", "octx", 1%N)]);
   ("P_CTX", [("uint8_t", "tag", 1%N); ("uint64_t", "count", 1%N); ("uint8_t", "buf", 3%N)])].
Definition ctx_ : wobj := (0%N, "").
Definition fld_ (f : string) : wobj := (1%N, f).
Definition other_ : wobj := (2%N, "").
Definition ex_final (body : list wstmt) : wfn := ("H_Final", ("H_CTX", "ctx", 1%N), body).
Definition ex_hfinal (body : list wstmt) : wfn := ("HM_Final", ("HM_CTX", "c", 1%N), body).
Definition ex_pad : wstmt := (0%N, "H_Pad", [ctx_], []).
Definition ex_wipe (sz : list wfactor) : wstmt := (2%N, "insecure_memzero", [ctx_], sz).
Definition ex_scratch : wstmt := (2%N, "insecure_memzero", [other_], []).
Definition sz_type (T : string) : list wfactor := [(1%N, T, 0%N)].
Definition sz_lit (n : N) : list wfactor := [(0%N, "", n)].
Definition ex_inner : list wstmt :=
  [(0%N, "H_Final", [other_; fld_ "ictx"], []); (0%N, "H_Update", [fld_ "octx"; other_; other_], []);
   (0%N, "H_Final", [other_; fld_ "octx"], [])].

(* sizes and offsets by value, with alignment padding *)
Example ex_sizeof : wsizeof 8 ex_structs "H_CTX" = Some (92%N, 4%N) /\
                    wsizeof 8 ex_structs "HM_CTX" = Some (184%N, 4%N) /\
                    wsizeof 8 ex_structs "P_CTX" = Some (24%N, 8%N).
Proof. repeat split; reflexivity. Qed.
Example ex_leaves : wleaves_at 8 ex_structs "HM_CTX" 0 =
  [(["ictx"; "state"], 0%N, 20%N); (["ictx"; "count"], 20%N, 8%N); (["ictx"; "buf"], 28%N, 64%N);
   (["octx"; "state"], 92%N, 20%N); (["octx"; "count"], 112%N, 8%N); (["octx"; "buf"], 120%N, 64%N)].
Proof. reflexivity. Qed.

Example ex_wiped :
  wipes_whole_ctx ex_structs [ex_final [ex_pad; ex_wipe (sz_type "H_CTX")]] "H_Final" = true.
Proof. reflexivity. Qed.
(* the same size written as a literal, as a product, or larger than the object *)
Example ex_wiped_literal :
  wipes_whole_ctx ex_structs [ex_final [ex_pad; ex_wipe (sz_lit 92)]] "H_Final" = true.
Proof. reflexivity. Qed.
Example ex_wiped_product :
  wipes_whole_ctx ex_structs [ex_final [ex_pad; ex_wipe [(1%N, "uint32_t", 0%N); (0%N, "", 23%N)]]] "H_Final" = true.
Proof. reflexivity. Qed.
(* wipes of other objects may stand anywhere *)
Example ex_wiped_reordered :
  wipes_whole_ctx ex_structs [ex_final [ex_pad; ex_scratch; ex_wipe (sz_type "H_CTX"); ex_scratch]] "H_Final" = true.
Proof. reflexivity. Qed.
Example ex_wipe_removed :
  wzero_after 8 ex_structs [ex_final [ex_pad; ex_scratch]] "H_Final" = [].
Proof. reflexivity. Qed.
Example ex_wipe_pointer_size :
  wzero_after 8 ex_structs [ex_final [ex_pad; ex_wipe [(2%N, "", 0%N)]]] "H_Final" = [].
Proof. reflexivity. Qed.
(* one byte short: the last field is not covered, the first two are *)
Example ex_wipe_short :
  wzero_after 8 ex_structs [ex_final [ex_pad; ex_wipe (sz_lit 91)]] "H_Final" = [["state"]; ["count"]].
Proof. reflexivity. Qed.
Example ex_wipe_unknown_type :
  wzero_after 8 ex_structs [ex_final [ex_pad; ex_wipe (sz_type "struct other")]] "H_Final" = [].
Proof. reflexivity. Qed.
Example ex_wipe_before_use :
  wzero_after 8 ex_structs [ex_final [ex_wipe (sz_type "H_CTX"); ex_pad]] "H_Final" = [].
Proof. reflexivity. Qed.
Example ex_wipe_guarded :
  wzero_after 8 ex_structs [ex_final [ex_pad; (1%N, "", [], [])]] "H_Final" = [].
Proof. reflexivity. Qed.
Example ex_wipe_one_field :
  wzero_after 8 ex_structs
    [ex_final [ex_pad; (2%N, "insecure_memzero", [fld_ "count"], [(1%N, "uint32_t", 0%N); (0%N, "", 2%N)])]] "H_Final"
  = [["count"]].
Proof. reflexivity. Qed.
(* HMAC through the inner Final calls: whole object iff the inner Final wipes *)
Example ex_hmac_through_inner :
  wipes_whole_ctx ex_structs [ex_final [ex_pad; ex_wipe (sz_type "H_CTX")]; ex_hfinal ex_inner] "HM_Final" = true.
Proof. reflexivity. Qed.
Example ex_hmac_inner_unwiped :
  wzero_after 8 ex_structs [ex_final [ex_pad]; ex_hfinal ex_inner] "HM_Final" = [].
Proof. reflexivity. Qed.
(* an Update on octx after its Final: octx is no longer known to be zero, ictx still is *)
Example ex_hmac_touched_after :
  wzero_after 8 ex_structs
    [ex_final [ex_pad; ex_wipe (sz_type "H_CTX")];
     ex_hfinal (ex_inner ++ [(0%N, "H_Update", [fld_ "octx"; other_; other_], [])])] "HM_Final"
  = [["ictx"; "state"]; ["ictx"; "count"]; ["ictx"; "buf"]].
Proof. reflexivity. Qed.
(* the size of ONE half does not cover the HMAC context *)
Example ex_hmac_half_size :
  wzero_after 8 ex_structs
    [ex_final [ex_pad]; ex_hfinal (ex_inner ++ [(2%N, "insecure_memzero", [ctx_], sz_type "H_CTX")])] "HM_Final"
  = [["ictx"; "state"]; ["ictx"; "count"]; ["ictx"; "buf"]].
Proof. reflexivity. Qed.
