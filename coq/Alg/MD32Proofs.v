(* Streaming theory of the code shared by alg/sha1.c and alg/md5.c (MD32Model): the bit count
   kept in two 32-bit words with an explicit carry test is the 64-bit count; Update preserves
   the Merkle-Damgard invariant; Pad, which goes through two Update calls, produces exactly the
   standard's padding; Final's digest is the standard's function, from ANY well-formed context. *)
From Coq Require Import Arith NArith ZArith List Lia ZifyNat ZifyN.
From LCP Require Import Alg.Words Alg.WordsProofs Alg.MDSpec Alg.MDModel Alg.MDStreaming Alg.MD32Model.
Import ListNotations.
Local Open Scope N_scope.
Ltac Zify.zify_post_hook ::= Z.to_euclidean_division_equations.

Definition PAD_spec32 : list N := 128 :: repeat 0 63.

(* the carry test  if ((count[lo] += bitlen[lo]) < bitlen[lo]) count[hi]++;  count[hi] += bitlen[hi] *)
Lemma count32_step hi lo len : hi < M32 -> lo < M32 ->
  let bl_lo := w32 (N.shiftl (w32 len) 3) in
  let bl_hi := w32 (N.shiftr len 29) in
  let lo' := add32 lo bl_lo in
  let hi1 := if lo' <? bl_lo then add32 hi 1 else hi in
  let hi' := add32 hi1 bl_hi in
  hi' * M32 + lo' = (hi * M32 + lo + 8 * len) mod M64 /\ lo' < M32 /\ hi' < M32.
Proof.
  intros Hhi Hlo. cbv zeta.
  rewrite !add32_mod, !w32_mod, N.shiftl_mul_pow2, N.shiftr_div_pow2.
  change (2 ^ 3) with 8. change (2 ^ 29) with 536870912.
  destruct (N.ltb_spec ((lo + (len mod M32 * 8) mod M32) mod M32) ((len mod M32 * 8) mod M32)) as [Hc|Hc];
    rewrite ?add32_mod; unfold M32, M64 in *; lia.
Qed.

Lemma residue_of_lo base n lo hi : base mod 512 = 0 -> lo < M32 ->
  hi * M32 + lo = (base + 8 * n) mod M64 ->
  N.land (N.shiftr lo 3) 63 = n mod 64.
Proof.
  intros Hb Hlo H. change 63 with (N.ones 6). rewrite N.land_ones, N.shiftr_div_pow2.
  change (2 ^ 3) with 8. change (2 ^ 6) with 64. unfold M32, M64 in *. lia.
Qed.

Lemma firstn_PAD32 k : (k <= 63)%nat -> firstn (S k) PAD_spec32 = 128 :: repeat 0 k.
Proof. intros H. unfold PAD_spec32. cbn [firstn]. f_equal. apply firstn_repeat. exact H. Qed.

Section MD32.
  Variable T : list N -> list N -> list N.
  Variable enc_vect : list N -> list N.
  Variable enc_len : N -> list N.
  Variable iv : list N.
  Variable lo1 : bool.
  Hypothesis Henc : forall hi lo, hi < M32 -> lo < M32 ->
    enc_vect (if lo1 then [hi; lo] else [lo; hi]) = enc_len (hi * M32 + lo).
  Hypothesis Henc_len : forall x, length (enc_len x) = 8%nat.

  Let upd_ := c32_update T lo1 3 29 63 64.
  Let pad_ := c32_pad T enc_vect PAD_spec32 lo1 56 120 3 29 63 64.

  Variable st0 : list N.
  Variable base : N.
  Hypothesis Hbase : base mod 512 = 0.

  Definition cinv32 (c : ctx32) (m : list N) : Prop :=
    Inv T st0 (c32_state c) (c32_buf c) m /\
    c32_hi lo1 c * M32 + c32_lo lo1 c = (base + 8 * N.of_nat (length m)) mod M64 /\
    c32_lo lo1 c < M32 /\ c32_hi lo1 c < M32.

  Lemma cinv32_r c m : cinv32 c m -> c32_r lo1 3 63 c = (length m mod 64)%nat.
  Proof.
    intros (_ & Hc & Hlo & Hhi). unfold c32_r.
    rewrite (residue_of_lo base (N.of_nat (length m)) _ _ Hbase Hlo Hc). lia.
  Qed.

  Lemma c32_mk_lo st lo hi bf : c32_lo lo1 (c32_mk lo1 st lo hi bf) = lo.
  Proof. unfold c32_lo, c32_mk. destruct lo1; reflexivity. Qed.
  Lemma c32_mk_hi st lo hi bf : c32_hi lo1 (c32_mk lo1 st lo hi bf) = hi.
  Proof. unfold c32_hi, c32_mk. destruct lo1; reflexivity. Qed.
  Lemma c32_mk_state st lo hi bf : c32_state (c32_mk lo1 st lo hi bf) = st.
  Proof. unfold c32_mk. destruct lo1; reflexivity. Qed.
  Lemma c32_mk_buf st lo hi bf : c32_buf (c32_mk lo1 st lo hi bf) = bf.
  Proof. unfold c32_mk. destruct lo1; reflexivity. Qed.

  (* M2 for XXX_Update *)
  Lemma c32_update_inv c m d : cinv32 c m -> cinv32 (upd_ c d) (m ++ d).
  Proof.
    intros H. unfold upd_, c32_update.
    destruct (N.eqb_spec (N.of_nat (length d)) 0) as [Hz|Hnz].
    - destruct d; [|simpl in Hz; lia]. rewrite app_nil_r. exact H.
    - rewrite (cinv32_r c m H). change (N.to_nat 64) with 64%nat.
      destruct H as (HI & Hc & Hlo & Hhi).
      pose proof (update_body_inv T st0 _ _ _ d HI) as HU.
      destruct (update_body T 64 (c32_state c) (c32_buf c) (length m mod 64) d) as [st bf].
      cbn [fst snd] in HU.
      pose proof (count32_step _ _ (N.of_nat (length d)) Hhi Hlo) as HS. cbv zeta in HS.
      destruct HS as (HS1 & HS2 & HS3).
      unfold cinv32. rewrite c32_mk_lo, c32_mk_hi, c32_mk_state, c32_mk_buf.
      repeat split; auto.
      rewrite HS1, Hc, app_length. unfold M64. lia.
  Qed.

  Lemma c32_updates_inv parts : forall c m, cinv32 c m ->
    cinv32 (fold_left upd_ parts c) (m ++ concat parts).
  Proof.
    induction parts as [|p ps IH]; intros c m H; cbn [fold_left concat].
    - rewrite app_nil_r. exact H.
    - rewrite app_assoc. apply IH. apply c32_update_inv. exact H.
  Qed.

  (* XXX_Pad: the two Update calls append exactly the standard's padding *)
  Lemma c32_pad_state c m : cinv32 c m ->
    c32_state (pad_ c) = fold_left T (blocks (md_pad_from enc_len base m)) st0.
  Proof.
    intros H. pose proof (cinv32_r c m H) as Hr.
    unfold pad_, c32_pad. rewrite Hr.
    set (r := (length m mod 64)%nat).
    assert (Hr64 : (r < 64)%nat) by (unfold r; lia).
    set (plen := if N.of_nat r <? 56 then 56 - N.of_nat r else 120 - N.of_nat r).
    assert (Hplen : N.to_nat plen = S (md_zeros (length m))).
    { unfold plen, md_zeros. fold r. destruct (N.ltb_spec (N.of_nat r) 56); lia. }
    assert (Hz : (md_zeros (length m) <= 63)%nat) by (unfold md_zeros; lia).
    rewrite Hplen, firstn_PAD32 by exact Hz.
    assert (Hl8 : enc_vect [c32_count0 c; c32_count1 c] =
                  enc_len ((base + 8 * N.of_nat (length m)) mod M64)).
    { destruct H as (_ & Hc & Hlo & Hhi). rewrite <- Hc. rewrite <- Henc by assumption.
      unfold c32_hi, c32_lo. destruct lo1; reflexivity. }
    rewrite Hl8.
    fold upd_.
    pose proof (c32_update_inv _ _ (128 :: repeat 0 (md_zeros (length m))) H) as H1.
    pose proof (c32_update_inv _ _ (enc_len ((base + 8 * N.of_nat (length m)) mod M64)) H1) as H2.
    destruct H2 as (HI & _).
    apply Inv_full in HI.
    - unfold upd_ in *. rewrite HI. f_equal. f_equal. unfold md_pad_from. rewrite <- !app_assoc. reflexivity.
    - rewrite !app_length, Henc_len. cbn [length]. rewrite repeat_length. unfold md_zeros. lia.
  Qed.

  (* XXX_Final's digest after any sequence of updates *)
  Lemma c32_final_digest wipe c m : cinv32 c m ->
    fst (c32_final T enc_vect PAD_spec32 lo1 56 120 3 29 63 64 wipe c) =
    enc_vect (fold_left T (blocks (md_pad_from enc_len base m)) st0).
  Proof. intros H. unfold c32_final. cbn [fst]. fold pad_. rewrite (c32_pad_state c m H). reflexivity. Qed.
End MD32.

(* a context as XXX_Update can leave it *)
Definition wf32 (nstate : nat) (lo1 : bool) (c : ctx32) : Prop :=
  length (c32_state c) = nstate /\ length (c32_buf c) = 64%nat /\
  c32_lo lo1 c mod 8 = 0 /\ c32_lo lo1 c < M32 /\ c32_hi lo1 c < M32.

Section MD32Final.
  Variable T compress : list N -> list N -> list N.
  Variable nstate : nat.
  Variable enc_vect : list N -> list N.
  Variable enc_len : N -> list N.
  Variable iv : list N.
  Variable lo1 : bool.
  Hypothesis Henc : forall hi lo, hi < M32 -> lo < M32 ->
    enc_vect (if lo1 then [hi; lo] else [lo; hi]) = enc_len (hi * M32 + lo).
  Hypothesis Henc_len : forall x, length (enc_len x) = 8%nat.
  Hypothesis HT : forall st b, length st = nstate -> length b = 64%nat -> T st b = compress st b.
  Hypothesis Hcl : forall st b, length st = nstate -> length (compress st b) = nstate.

  Lemma fold_T_eq bs : forall st, length st = nstate -> Forall (fun b => length b = 64%nat) bs ->
    fold_left T bs st = fold_left compress bs st.
  Proof.
    induction bs as [|b bs IH]; intros st Hst Hbs; [reflexivity|].
    pose proof (Forall_inv Hbs) as Hb. pose proof (Forall_inv_tail Hbs) as Hr.
    cbn [fold_left]. cbv beta in Hb.
    rewrite (HT st b Hst Hb). apply IH; [apply Hcl; exact Hst | exact Hr].
  Qed.

  Lemma chunks_all64' k : forall l, (64 * k <= length l)%nat -> Forall (fun b => length b = 64%nat) (chunks k l).
  Proof.
    induction k as [|k IH]; intros l H; cbn [chunks]; constructor.
    - rewrite firstn_length. lia.
    - apply IH. rewrite skipn_length. lia.
  Qed.

  Theorem md32_resume_correct wipe c parts : wf32 nstate lo1 c ->
    fst (c32_final T enc_vect PAD_spec32 lo1 56 120 3 29 63 64 wipe
                   (fold_left (c32_update T lo1 3 29 63 64) parts c)) =
    enc_vect (md_resume compress enc_len (c32_state c) (c32_hi lo1 c * M32 + c32_lo lo1 c)
                        (c32_buf c) (concat parts)).
  Proof.
    intros (Hst & Hbuf & Hc8 & Hlo & Hhi).
    set (bits := c32_hi lo1 c * M32 + c32_lo lo1 c).
    set (r := N.to_nat ((bits / 8) mod 64)).
    set (base := bits - 8 * N.of_nat r).
    assert (Hr : (r < 64)%nat) by (unfold r; lia).
    assert (Hbase : base mod 512 = 0) by (unfold base, r, bits, M32 in *; lia).
    assert (HR : length (firstn r (c32_buf c)) = r) by (rewrite firstn_length; lia).
    assert (H0 : cinv32 T lo1 (c32_state c) base c (firstn r (c32_buf c))).
    { split; [|split; [|split; assumption]].
      - exists [], (firstn r (c32_buf c)). rewrite HR. repeat split; auto.
        exists 0%nat. reflexivity.
      - rewrite HR. fold bits. unfold base, r, bits, M32, M64 in *. lia. }
    pose proof (c32_updates_inv T enc_vect enc_len lo1 Henc Henc_len _ _ Hbase parts c _ H0) as H1.
    rewrite (c32_final_digest T enc_vect enc_len lo1 Henc Henc_len _ _ Hbase wipe _ _ H1).
    unfold md_resume. fold r. fold base. f_equal.
    apply fold_T_eq; [exact Hst|]. unfold blocks. apply chunks_all64'. lia.
  Qed.
End MD32Final.
