(* SHA-1 as FIPS 180-4 states it (4.1.1 f_t, 4.2.1 K_t, 5.1.1 padding, 5.3.1 H(0), 6.1.2).
   Written from the standard, independent of alg/sha1.c.  Definitions only. *)
From Coq Require Import Arith NArith List.
From LCP Require Import Alg.Words Alg.MDSpec.
Import ListNotations.
Local Open Scope N_scope.

Definition H0_1 : list N := [0x67452301; 0xefcdab89; 0x98badcfe; 0x10325476; 0xc3d2e1f0].

(* 4.1.1 *)
Definition f1_Ch (x y z : N) : N := N.lxor (N.land x y) (N.ldiff z x).
Definition f1_Parity (x y z : N) : N := N.lxor (N.lxor x y) z.
Definition f1_Maj (x y z : N) : N := N.lxor (N.lxor (N.land x y) (N.land x z)) (N.land y z).
Definition f1_f (t : nat) : N -> N -> N -> N :=
  if (t <? 20)%nat then f1_Ch else if (t <? 40)%nat then f1_Parity
  else if (t <? 60)%nat then f1_Maj else f1_Parity.
(* 4.2.1 *)
Definition f1_K (t : nat) : N :=
  if (t <? 20)%nat then 0x5a827999 else if (t <? 40)%nat then 0x6ed9eba1
  else if (t <? 60)%nat then 0x8f1bbcdc else 0xca62c1d6.

(* 6.1.2 step 1: W_t = ROTL^1(W_{t-3} xor W_{t-8} xor W_{t-14} xor W_{t-16}) for t >= 16 *)
Fixpoint f1_extend (n : nat) (W : list N) {struct n} : list N :=
  match n with
  | O => W
  | S n' =>
    let t := length W in
    f1_extend n'
      (W ++ [rotl32 (N.lxor (N.lxor (N.lxor (nth (t - 3) W 0) (nth (t - 8) W 0)) (nth (t - 14) W 0))
                            (nth (t - 16) W 0)) 1])
  end.
Definition f1_schedule (block : list N) : list N := f1_extend 64 (be32dec_vect block).

(* 6.1.2 step 3 *)
Definition f1_round (v : list N) (t : nat) (wt : N) : list N :=
  match v with
  | [a; b; c; d; e] =>
    let T := add32 (add32 (add32 (add32 (rotl32 a 5) (f1_f t b c d)) e) (f1_K t)) wt in
    [T; a; rotl32 b 30; c; d]
  | _ => v
  end.

Definition f1_compress (H block : list N) : list N :=
  let W := f1_schedule block in
  let v := fold_left (fun v t => f1_round v t (nth t W 0)) (seq 0 80) H in
  map2 add32 H v.

Definition SHA1_spec (m : list N) : list N :=
  be32enc_vect (md_hash f1_compress H0_1 be64enc m).
