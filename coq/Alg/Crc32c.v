(* alg/crc32c.c: MODEL (mirrors the C, parametric in everything the translator regenerates)
   and SPEC (Castagnoli polynomial division, independent of the C).  No proofs here. *)
From Coq Require Import NArith List Bool.
From LCP Require Import Base.CheckedMem Base.Sweep Alg.GF2Poly.
Import ListNotations.
Local Open Scope N_scope.

Definition w32 (x : N) : N := x mod 4294967296.

(* ------------------------------------------------------------------ *)
(* MODEL                                                              *)
(* ------------------------------------------------------------------ *)
Section Model.
  Variable poly : N.                               (* 0x1EDC6F41 in times256 *)
  Variable topbit : N.                             (* 0x80000000 in times256 *)
  Variable iters : N.                              (* k < 8 *)
  Variable t_0_0x80 : N.                           (* #define T_0_0x80 *)
  Variable reverse_steps : list (N * N * N * N).   (* (mask, >>, mask, <<) per line of reverse() *)
  Variable fill_order : list N.                    (* T0, T1, T2, T3 get successive times256 values *)
  Variable slice_terms : list (N * N * N * N).     (* (table, state >>, & mask, buf index) *)
  Variable byte_term : list (N * N * N).           (* (table, state >>, & mask) of the byte loop *)
  Variable final_bytes : list (N * N * N).         (* (cbuf index, state >>, & mask) *)

  (* static uint32_t reverse(uint32_t x) *)
  Definition reverse_line (x : N) (l : N * N * N * N) : N :=
    let '(mh, sr, ml, sl) := l in
    N.lor (N.shiftr (N.land x mh) sr) (w32 (N.shiftl (N.land x ml) sl)).
  Definition reverse_m (x : N) : N := fold_left reverse_line reverse_steps x.

  (* static uint32_t times256(uint32_t r) *)
  Definition times2_m (r : N) : N :=
    if N.eqb (N.land r topbit) 0 then w32 (N.shiftl r 1)
    else N.lxor (w32 (N.shiftl r 1)) poly.
  Definition times256_m (r : N) : N := N.iter iters times2_m r.

  (* init(): one row = the values stored at index i, in the order of the assignments *)
  Fixpoint fill_row (r : N) (order : list N) : list (N * N) :=
    match order with
    | [] => []
    | t :: rest => let r' := times256_m r in (t, reverse_m r') :: fill_row r' rest
    end.
  Definition row_of (i : N) : list (N * N) := fill_row (reverse_m i) fill_order.

  (* static storage starts as 0; the last assignment to a table wins *)
  Definition row_get (t : N) (row : list (N * N)) : N :=
    fold_left (fun acc e => if N.eqb t (fst e) then snd e else acc) row 0.

  (* the four tables as lists of 256 entries: tables = [T0; T1; T2; T3] *)
  Definition table_m (t : N) : list N := map (fun i => row_get t (row_of i)) (N_range 256).
  Definition tables_m : list (list N) := map table_m [0; 1; 2; 3].

  (* init() ends with assert(T0[0x80] == T_0_0x80) *)
  Definition init_m : res (list (list N)) :=
    let ts := tables_m in
    if N.eqb (nth 128 (nth 0 ts []) 0) t_0_0x80 then Ok ts else AssertFail.

  Section WithTables.
    Variable T : list (list N).

    Definition tbl (t : N) (i : N) : N := nth (N.to_nat i) (nth (N.to_nat t) T []) 0.

    (* one iteration of the 4-byte loop *)
    Definition slice_term (st : N) (chunk : list N) (e : N * N * N * N) : N :=
      let '(t, sh, mask, bi) := e in
      tbl t (N.lxor (N.land (N.shiftr st sh) mask) (nth (N.to_nat bi) chunk 0)).
    Definition slice4_m (st b0 b1 b2 b3 : N) : N :=
      fold_left (fun acc e => N.lxor acc (slice_term st [b0; b1; b2; b3] e)) slice_terms 0.

    (* one iteration of the byte loop *)
    Definition byte_step_m (st b : N) : N :=
      match byte_term with
      | (t, sh, mask) :: _ => N.lxor (N.shiftr st sh) (tbl t (N.lxor (N.land st mask) b))
      | [] => st
      end.

    Definition bytes_loop_m (st : N) (buf : list N) : N := fold_left byte_step_m buf st.

    (* software part of CRC32C_Update: for (; len >= 4; ...) then for (; len > 0; ...) *)
    Fixpoint update_sw_m (st : N) (buf : list N) {struct buf} : N :=
      match buf with
      | b0 :: b1 :: b2 :: b3 :: rest => update_sw_m (slice4_m st b0 b1 b2 b3) rest
      | _ => bytes_loop_m st buf
      end.
  End WithTables.

  (* CRC32C_Init: ctx->state = T_0_0x80 *)
  Definition crc_init_m : N := t_0_0x80.

  (* CRC32C_Final: cbuf[k] = (state >> s) & m *)
  Definition final_m (st : N) : list N :=
    map (fun k => match find (fun e => N.eqb (fst (fst e)) k) final_bytes with
                  | Some (_, sh, mask) => N.land (N.shiftr st sh) mask
                  | None => 0
                  end) [0; 1; 2; 3].
End Model.

(* ------------------------------------------------------------------ *)
(* SPEC                                                               *)
(* ------------------------------------------------------------------ *)

(* The Castagnoli polynomial x^32+x^28+x^27+x^26+x^25+x^23+x^22+x^20+x^19+x^18+x^14+x^13+x^11+
   x^10+x^9+x^8+x^6+1 *)
Definition castagnoli : N := 0x11EDC6F41.

(* "the bit string 1 || data || crc, least-significant bit first, is a multiple of the
   Castagnoli polynomial" *)
Definition crc_codeword (data c : list N) : N :=
  poly_of_bits (true :: bits_lsb data ++ bits_lsb c).
Definition crc_spec_ok (data c : list N) : Prop := pmod (crc_codeword data c) castagnoli = 0.
Definition crc_spec_okb (data c : list N) : bool := N.eqb (pmod (crc_codeword data c) castagnoli) 0.

(* Bit-serial reference CRC in the usual reflected form (register bit 0 = highest power). *)
Definition castagnoli_reflected : N := 0x82F63B78.

(* multiply the register by x (no input) *)
Definition rshift1 (s : N) : N :=
  if N.testbit s 0 then N.lxor (N.shiftr s 1) castagnoli_reflected else N.shiftr s 1.
(* take one message bit in *)
Definition rstep (s : N) (b : bool) : N := rshift1 (N.lxor s (N.b2n b)).

Definition crc_bits (s : N) (bits : list bool) : N := fold_left rstep bits s.
(* eight bit steps for one byte, least significant bit first *)
Definition crc_byte_bits (s b : N) : N := crc_bits s (nbits_lsb 8 b).

(* register after the implicit leading 1 bit: x^32 mod P, reflected *)
Definition crc_ref_init : N := reflect 32 (pmod 4294967296 castagnoli).
Definition crc_ref_state (data : list N) : N := fold_left crc_byte_bits data crc_ref_init.
Definition le32_bytes (s : N) : list N :=
  [s mod 256; (s / 256) mod 256; (s / 65536) mod 256; (s / 16777216) mod 256].
Definition crc_ref (data : list N) : list N := le32_bytes (crc_ref_state data).

(* what the generated tables are documented to contain: T[k][i] = i * x^(8(k+1)) mod P, reflected *)
Definition crc_table_ref (k : N) : list N :=
  map (fun i => N.iter (8 * (k + 1)) rshift1 i) (N_range 256).
(* the register after a run of bytes, from any state (reference for one Update call) *)
Definition crc_ref_update (s : N) (data : list N) : N := fold_left crc_byte_bits data s.
