(* The models instantiated with the constants REGENERATED from /repo (Gen/Repo_hash.v).
   These are the functions that are extracted, run against the compiled C, and that the
   property theorems are about.

   What XXX_Final / HMAC_XXX_Final leave in the context object: the context as the computation
   leaves it (state words, bit count, buffer after the padding), with exactly those fields zeroed
   whose path is in the ZERO SET that the interpreter of Alg/HashWipe.v computes from the statement
   list regenerated from the body of that C function (hash_final_fns) and the struct layouts
   regenerated from the headers (hash_structs).  No wipe is written down in this file.
   Definitions only. *)
From Coq Require Import String.
From Coq Require Import Arith NArith List.
From LCP Require Import Base.CheckedMem Gen.Repo_hash Alg.Words Alg.MDModel Alg.Sha256Model Alg.MD32Model Alg.Sha1Model Alg.Md5Model Alg.HmacModel Alg.Pbkdf2Model Alg.HashWipe.
Import ListNotations.
Local Open Scope N_scope.

(* ---- zero sets of the six public Final functions, from the regenerated statement lists ---- *)
Definition final_zero_set (fname : string) : list wpath := wzero_after 8 hash_structs hash_final_fns fname.
Definition sha256_final_zero : list wpath := final_zero_set "SHA256_Final"%string.
Definition sha1_final_zero : list wpath := final_zero_set "SHA1_Final"%string.
Definition md5_final_zero : list wpath := final_zero_set "MD5_Final"%string.
Definition hmac256_final_zero : list wpath := final_zero_set "HMAC_SHA256_Final"%string.
Definition hmacsha1_final_zero : list wpath := final_zero_set "HMAC_SHA1_Final"%string.
Definition hmacmd5_final_zero : list wpath := final_zero_set "HMAC_MD5_Final"%string.
Definition in_ictx : wpath := ["ictx"%string].
Definition in_octx : wpath := ["octx"%string].

(* ---- SHA-256 ---- *)
Definition sha256_transform := c256_transform sha256_Krnd.
Definition sha256_init : ctx256 := c256_init sha256_initial_state.
Definition sha256_update := c256_update sha256_Krnd sha256_blk sha256_cshift sha256_rmask.
Definition sha256_final_internal :=
  c256_final_internal sha256_Krnd sha256_PAD sha256_padlim sha256_blk sha256_cshift sha256_rmask.
Definition sha256_final :=
  c256_final sha256_Krnd sha256_PAD sha256_padlim sha256_blk sha256_cshift sha256_rmask
             (mask256 sha256_final_zero []).
Definition sha256_buf :=
  c256_buf_oneshot sha256_Krnd sha256_initial_state sha256_PAD sha256_padlim sha256_blk
                   sha256_cshift sha256_rmask.

(* ---- SHA-1 ---- *)
Definition sha1_transform :=
  c1_transform sha1_kinds sha1_rounds sha1_sched_offsets sha1_sched_rot sha1_sched_from sha1_sched_to.
Definition sha1_lo1 : bool := sha1_lo_word =? 1.
Definition sha1_init : ctx32 := c32_init sha1_iv sha1_lo1.
Definition sha1_update :=
  c32_update sha1_transform sha1_lo1 sha1_cshift sha1_hishift sha1_rmask sha1_blk.
Definition sha1_final_with (wipe : ctx32 -> ctx32) :=
  c32_final sha1_transform be32enc_vect sha1_PAD sha1_lo1 sha1_padlim sha1_padlim2
            sha1_cshift sha1_hishift sha1_rmask sha1_blk wipe.
Definition sha1_final := sha1_final_with (mask32 sha1_final_zero []).
(* the computation alone: digest and the context as SHA1_Pad leaves it *)
Definition sha1_final_nowipe := sha1_final_with (fun c => c).
Definition sha1_buf :=
  c32_buf_oneshot sha1_transform be32enc_vect sha1_iv sha1_PAD sha1_lo1 sha1_padlim sha1_padlim2
                  sha1_cshift sha1_hishift sha1_rmask sha1_blk.

(* ---- MD5 ---- *)
Definition md5_transform := c5_transform md5_index_formulas md5_ops.
Definition md5_lo1 : bool := md5_lo_word =? 1.
Definition md5_init : ctx32 := c32_init md5_iv md5_lo1.
Definition md5_update :=
  c32_update md5_transform md5_lo1 md5_cshift md5_hishift md5_rmask md5_blk.
Definition md5_final_with (wipe : ctx32 -> ctx32) :=
  c32_final md5_transform le32enc_vect md5_PAD md5_lo1 md5_padlim md5_padlim2
            md5_cshift md5_hishift md5_rmask md5_blk wipe.
Definition md5_final := md5_final_with (mask32 md5_final_zero []).
Definition md5_final_nowipe := md5_final_with (fun c => c).
Definition md5_buf :=
  c32_buf_oneshot md5_transform le32enc_vect md5_iv md5_PAD md5_lo1 md5_padlim md5_padlim2
                  md5_cshift md5_hishift md5_rmask md5_blk.

(* ---- HMAC: the two inner Final computations leave ictx / octx as after their padding; which of
   their fields are zero when HMAC_XXX_Final returns is the zero set of HMAC_XXX_Final, which the
   interpreter derives from its statement list - through the explicit insecure_memzero of the whole
   object (sha256.c) or through the zero sets of the inner XXX_Final calls on &ctx->ictx and
   &ctx->octx (sha1.c, md5.c), as the C happens to be written. ---- *)
(* ---- HMAC-SHA256 ---- *)
Definition hctx256 : Type := hmac_ctx ctx256.
Definition hmac256_init : list N -> hctx256 :=
  hmac_init ctx256 sha256_init sha256_update sha256_final_internal
            hmac_sha256_blk hmac_sha256_klen hmac_sha256_ipad hmac_sha256_opad.
Definition hmac256_update : hctx256 -> list N -> hctx256 := hmac_update ctx256 sha256_update.
Definition hmac256_final_internal : hctx256 -> list N * hctx256 :=
  hmac_final_internal ctx256 sha256_update sha256_final_internal hmac_sha256_ihash_len.
Definition hmac256_final : hctx256 -> list N * hctx256 :=
  hmac_final ctx256 sha256_update sha256_final_internal
             (mask256 hmac256_final_zero in_ictx) (mask256 hmac256_final_zero in_octx) hmac_sha256_ihash_len.
Definition hmac256_buf : list N -> list N -> list N :=
  hmac_buf ctx256 sha256_init sha256_update sha256_final_internal
           hmac_sha256_blk hmac_sha256_klen hmac_sha256_ipad hmac_sha256_opad hmac_sha256_ihash_len.

(* ---- HMAC-SHA1 / HMAC-MD5 ---- *)
Definition hctx32 : Type := hmac_ctx ctx32.
Definition hmacsha1_init : list N -> hctx32 :=
  hmac_init ctx32 sha1_init sha1_update sha1_final_nowipe
            hmac_sha1_blk hmac_sha1_klen hmac_sha1_ipad hmac_sha1_opad.
Definition hmacsha1_update : hctx32 -> list N -> hctx32 := hmac_update ctx32 sha1_update.
Definition hmacsha1_final : hctx32 -> list N * hctx32 :=
  hmac_final ctx32 sha1_update sha1_final_nowipe
             (mask32 hmacsha1_final_zero in_ictx) (mask32 hmacsha1_final_zero in_octx) hmac_sha1_ihash_len.
Definition hmacsha1_buf : list N -> list N -> list N :=
  hmac_buf ctx32 sha1_init sha1_update sha1_final_nowipe
           hmac_sha1_blk hmac_sha1_klen hmac_sha1_ipad hmac_sha1_opad hmac_sha1_ihash_len.

Definition hmacmd5_init : list N -> hctx32 :=
  hmac_init ctx32 md5_init md5_update md5_final_nowipe
            hmac_md5_blk hmac_md5_klen hmac_md5_ipad hmac_md5_opad.
Definition hmacmd5_update : hctx32 -> list N -> hctx32 := hmac_update ctx32 md5_update.
Definition hmacmd5_final : hctx32 -> list N * hctx32 :=
  hmac_final ctx32 md5_update md5_final_nowipe
             (mask32 hmacmd5_final_zero in_ictx) (mask32 hmacmd5_final_zero in_octx) hmac_md5_ihash_len.
Definition hmacmd5_buf : list N -> list N -> list N :=
  hmac_buf ctx32 md5_init md5_update md5_final_nowipe
           hmac_md5_blk hmac_md5_klen hmac_md5_ipad hmac_md5_opad hmac_md5_ihash_len.

(* ---- PBKDF2-HMAC-SHA256 ---- *)
Definition pbkdf2_sha256 : list N -> list N -> N -> N -> res (list N) :=
  pbkdf2_c hctx256 hmac256_init hmac256_update hmac256_final_internal
           pbkdf2_hlen pbkdf2_jstart pbkdf2_ivec_len.

Definition hctx256_is_zero (c : hctx256) : bool :=
  c256_is_zero (hm_ictx _ c) && c256_is_zero (hm_octx _ c).
Definition hctx32_is_zero (c : hctx32) : bool :=
  c32_is_zero (hm_ictx _ c) && c32_is_zero (hm_octx _ c).
