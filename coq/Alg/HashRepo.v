(* The models instantiated with the constants REGENERATED from /repo (Gen/Repo_hash.v).
   These are the functions that are extracted, run against the compiled C, and that the
   property theorems are about.  Definitions only. *)
From Coq Require Import Arith NArith List.
From LCP Require Import Base.CheckedMem Gen.Repo_hash Alg.Words Alg.MDModel Alg.Sha256Model Alg.MD32Model Alg.Sha1Model Alg.Md5Model Alg.HmacModel Alg.Pbkdf2Model.
Import ListNotations.
Local Open Scope N_scope.

(* ---- SHA-256 ---- *)
Definition sha256_transform := c256_transform sha256_Krnd.
Definition sha256_init : ctx256 := c256_init sha256_initial_state.
Definition sha256_update := c256_update sha256_Krnd sha256_blk sha256_cshift sha256_rmask.
Definition sha256_final_internal :=
  c256_final_internal sha256_Krnd sha256_PAD sha256_padlim sha256_blk sha256_cshift sha256_rmask.
Definition sha256_final :=
  c256_final sha256_Krnd sha256_PAD sha256_padlim sha256_blk sha256_cshift sha256_rmask.
Definition sha256_buf :=
  c256_buf_oneshot sha256_Krnd sha256_initial_state sha256_PAD sha256_padlim sha256_blk
                   sha256_cshift sha256_rmask.

(* ---- SHA-1 ---- *)
Definition sha1_transform :=
  c1_transform sha1_kinds sha1_rounds sha1_sched_offsets sha1_sched_rot sha1_sched_from sha1_sched_to.
Definition sha1_lo1 : bool := sha1_lo_word =? 1.
Definition sha1_init : ctx32 := c32_init sha1_iv sha1_lo1.
Definition sha1_update :=
  c32_update sha1_transform sha1_lo1 sha1_cshift sha1_hishift sha1_rmask sha1_blk.
Definition sha1_final :=
  c32_final sha1_transform be32enc_vect sha1_iv sha1_PAD sha1_lo1 sha1_padlim sha1_padlim2
            sha1_cshift sha1_hishift sha1_rmask sha1_blk.
Definition sha1_buf :=
  c32_buf_oneshot sha1_transform be32enc_vect sha1_iv sha1_PAD sha1_lo1 sha1_padlim sha1_padlim2
                  sha1_cshift sha1_hishift sha1_rmask sha1_blk.

(* ---- MD5 ---- *)
Definition md5_transform := c5_transform md5_index_formulas md5_ops.
Definition md5_lo1 : bool := md5_lo_word =? 1.
Definition md5_init : ctx32 := c32_init md5_iv md5_lo1.
Definition md5_update :=
  c32_update md5_transform md5_lo1 md5_cshift md5_hishift md5_rmask md5_blk.
Definition md5_final :=
  c32_final md5_transform le32enc_vect md5_iv md5_PAD md5_lo1 md5_padlim md5_padlim2
            md5_cshift md5_hishift md5_rmask md5_blk.
Definition md5_buf :=
  c32_buf_oneshot md5_transform le32enc_vect md5_iv md5_PAD md5_lo1 md5_padlim md5_padlim2
                  md5_cshift md5_hishift md5_rmask md5_blk.

(* ---- HMAC-SHA256 (inner Final = SHA256_Final_internal, whole context wiped by HMAC_SHA256_Final) ---- *)
Definition hctx256 : Type := hmac_ctx ctx256.
Definition hmac256_init : list N -> hctx256 :=
  hmac_init ctx256 sha256_init sha256_update sha256_final_internal
            hmac_sha256_blk hmac_sha256_klen hmac_sha256_ipad hmac_sha256_opad.
Definition hmac256_update : hctx256 -> list N -> hctx256 := hmac_update ctx256 sha256_update.
Definition hmac256_final_internal : hctx256 -> list N * hctx256 :=
  hmac_final_internal ctx256 sha256_update sha256_final_internal hmac_sha256_ihash_len.
Definition hmac256_final : hctx256 -> list N * hctx256 :=
  hmac_final ctx256 sha256_update sha256_final_internal (fun _ => c256_zero) hmac_sha256_ihash_len.
Definition hmac256_buf : list N -> list N -> list N :=
  hmac_buf ctx256 sha256_init sha256_update sha256_final_internal
           hmac_sha256_blk hmac_sha256_klen hmac_sha256_ipad hmac_sha256_opad hmac_sha256_ihash_len.

(* ---- HMAC-SHA1 / HMAC-MD5 (inner Final = XXX_Final, which wipes each half) ---- *)
Definition hctx32 : Type := hmac_ctx ctx32.
Definition hmacsha1_init : list N -> hctx32 :=
  hmac_init ctx32 sha1_init sha1_update sha1_final
            hmac_sha1_blk hmac_sha1_klen hmac_sha1_ipad hmac_sha1_opad.
Definition hmacsha1_update : hctx32 -> list N -> hctx32 := hmac_update ctx32 sha1_update.
Definition hmacsha1_final : hctx32 -> list N * hctx32 :=
  hmac_final ctx32 sha1_update sha1_final (fun c => c) hmac_sha1_ihash_len.
Definition hmacsha1_buf : list N -> list N -> list N :=
  hmac_buf ctx32 sha1_init sha1_update sha1_final
           hmac_sha1_blk hmac_sha1_klen hmac_sha1_ipad hmac_sha1_opad hmac_sha1_ihash_len.

Definition hmacmd5_init : list N -> hctx32 :=
  hmac_init ctx32 md5_init md5_update md5_final
            hmac_md5_blk hmac_md5_klen hmac_md5_ipad hmac_md5_opad.
Definition hmacmd5_update : hctx32 -> list N -> hctx32 := hmac_update ctx32 md5_update.
Definition hmacmd5_final : hctx32 -> list N * hctx32 :=
  hmac_final ctx32 md5_update md5_final (fun c => c) hmac_md5_ihash_len.
Definition hmacmd5_buf : list N -> list N -> list N :=
  hmac_buf ctx32 md5_init md5_update md5_final
           hmac_md5_blk hmac_md5_klen hmac_md5_ipad hmac_md5_opad hmac_md5_ihash_len.

(* ---- PBKDF2-HMAC-SHA256 ---- *)
Definition pbkdf2_sha256 : list N -> list N -> N -> N -> res (list N) :=
  pbkdf2_c hctx256 hmac256_init hmac256_update hmac256_final_internal
           pbkdf2_hlen pbkdf2_jstart pbkdf2_ivec_len.

Definition hctx256_is_zero (c : hctx256) : bool :=
  c256_is_zero (hm_ictx _ c) && c256_is_zero (hm_octx _ c).
Definition hctx32_is_zero (c : hctx32) : bool :=
  c32_is_zero (hm_ictx _ c) && c32_is_zero (hm_octx _ c).
