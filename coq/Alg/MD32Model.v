(* Model of the streaming code that alg/sha1.c and alg/md5.c share word for word except for
   (a) which of count[0], count[1] is the low word, (b) big- or little-endian vectors and
   (c) the block transform:  XXX_Init, XXX_Update (bit count kept in two uint32_t with the carry
   test written out), XXX_Pad (padding done THROUGH two Update calls, length vector captured
   first), XXX_Final (what it does to the context afterwards is a parameter), XXX_Buf.  Definitions only. *)
From Coq Require Import Arith NArith List.
From LCP Require Import Alg.Words Alg.MDModel.
Import ListNotations.
Local Open Scope N_scope.

Record ctx32 : Type := mk32 { c32_state : list N; c32_count0 : N; c32_count1 : N; c32_buf : list N }.

Section Model.
  Variable transform : list N -> list N -> list N.
  Variable enc_vect : list N -> list N.            (* be32enc_vect / le32enc_vect *)
  Variable iv : list N.
  Variable PAD : list N.
  Variable lo_is_1 : bool.                         (* sha1: count[1] is the low word; md5: count[0] *)
  Variables padlim padlim2 cshift hishift rmask blk : N.   (* 56 120 3 29 0x3f 64 *)

  Definition c32_lo (c : ctx32) : N := if lo_is_1 then c32_count1 c else c32_count0 c.
  Definition c32_hi (c : ctx32) : N := if lo_is_1 then c32_count0 c else c32_count1 c.
  Definition c32_mk (st : list N) (lo hi : N) (bf : list N) : ctx32 :=
    if lo_is_1 then mk32 st hi lo bf else mk32 st lo hi bf.

  Definition c32_init : ctx32 := c32_mk iv 0 0 (repeat 0 64).

  (* r = (ctx->count[lo] >> 3) & 0x3f *)
  Definition c32_r (c : ctx32) : nat := N.to_nat (N.land (N.shiftr (c32_lo c) cshift) rmask).

  Definition c32_update (c : ctx32) (d : list N) : ctx32 :=
    let len := N.of_nat (length d) in
    if len =? 0 then c
    else
      let r := c32_r c in
      (* bitlen[lo] = ((uint32_t)len) << 3;  bitlen[hi] = (uint32_t)(len >> 29); *)
      let bl_lo := w32 (N.shiftl (w32 len) cshift) in
      let bl_hi := w32 (N.shiftr len hishift) in
      (* if ((ctx->count[lo] += bitlen[lo]) < bitlen[lo]) ctx->count[hi]++;  ctx->count[hi] += bitlen[hi]; *)
      let lo' := add32 (c32_lo c) bl_lo in
      let hi1 := if lo' <? bl_lo then add32 (c32_hi c) 1 else c32_hi c in
      let hi' := add32 hi1 bl_hi in
      let '(st, bf) := update_body transform (N.to_nat blk) (c32_state c) (c32_buf c) r d in
      c32_mk st lo' hi' bf.

  (* XXX_Pad *)
  Definition c32_pad (c : ctx32) : ctx32 :=
    let len8 := enc_vect [c32_count0 c; c32_count1 c] in       (* xx32enc_vect(len, ctx->count, 8) *)
    let r := N.of_nat (c32_r c) in
    let plen := if r <? padlim then padlim - r else padlim2 - r in
    let c1 := c32_update c (firstn (N.to_nat plen) PAD) in
    c32_update c1 len8.

  (* XXX_Final: XXX_Pad, the digest written from the state words, then whatever the remaining
     statements do to the context.  [wipe] is NOT fixed here: HashRepo.v passes the result of
     interpreting the statement list regenerated from the body of XXX_Final (Alg/HashWipe.v). *)
  Definition c32_final (wipe : ctx32 -> ctx32) (c : ctx32) : list N * ctx32 :=
    let c' := c32_pad c in (enc_vect (c32_state c'), wipe c').

  (* XXX_Buf *)
  Definition c32_buf_oneshot (m : list N) : list N :=
    fst (c32_final (fun c => c) (c32_update c32_init m)).
End Model.

Definition c32_is_zero (c : ctx32) : bool :=
  all_zero (c32_state c) && (c32_count0 c =? 0) && (c32_count1 c =? 0) && all_zero (c32_buf c).
