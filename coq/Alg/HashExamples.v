(* Standard test vectors for the specs (sanity of the transcription of FIPS 180-4, RFC 1321,
   RFC 2104/2202/4231, RFC 8018 via RFC 7914 - not part of the claim), the same vectors through the
   models instantiated with the regenerated constants, non-vacuity instances of the theorems, and
   what the 64-bit bit counter does when it wraps.  Expected values were produced independently
   (Python hashlib / hmac) and agree with the values printed in the standards. *)
From Coq Require Import Arith NArith List.
From LCP Require Import Base.CheckedMem Alg.Words Alg.MDSpec Alg.Sha256Spec Alg.Sha1Spec Alg.Md5Spec Alg.HashSpecs Alg.Sha256Model Alg.MD32Model Alg.HmacModel Alg.HashRepo Alg.HashRepoProofs Alg.Sha256Proofs Alg.MD32Proofs.
Import ListNotations.
Local Open Scope N_scope.

(* ---- FIPS 180-4 / NIST example vectors ---- *)
Example SHA256_spec_abc :
  SHA256_spec [97; 98; 99] =
  [186; 120; 22; 191; 143; 1; 207; 234; 65; 65; 64; 222; 93; 174; 34; 35; 176; 3; 97; 163; 150; 23; 122; 156; 180; 16; 255; 97; 242; 0; 21; 173].
Proof. vm_compute. reflexivity. Qed.
Example SHA256_spec_empty :
  SHA256_spec [] =
  [227; 176; 196; 66; 152; 252; 28; 20; 154; 251; 244; 200; 153; 111; 185; 36; 39; 174; 65; 228; 100; 155; 147; 76; 164; 149; 153; 27; 120; 82; 184; 85].
Proof. vm_compute. reflexivity. Qed.
Example SHA256_spec_two_blocks :
  SHA256_spec [97; 98; 99; 100; 98; 99; 100; 101; 99; 100; 101; 102; 100; 101; 102; 103; 101; 102; 103; 104; 102; 103; 104; 105; 103; 104; 105; 106; 104; 105; 106; 107; 105; 106; 107; 108; 106; 107; 108; 109; 107; 108; 109; 110; 108; 109; 110; 111; 109; 110; 111; 112; 110; 111; 112; 113] =
  [36; 141; 106; 97; 210; 6; 56; 184; 229; 192; 38; 147; 12; 62; 96; 57; 163; 60; 228; 89; 100; 255; 33; 103; 246; 236; 237; 212; 25; 219; 6; 193].
Proof. vm_compute. reflexivity. Qed.
Example SHA1_spec_abc :
  SHA1_spec [97; 98; 99] =
  [169; 153; 62; 54; 71; 6; 129; 106; 186; 62; 37; 113; 120; 80; 194; 108; 156; 208; 216; 157].
Proof. vm_compute. reflexivity. Qed.
Example SHA1_spec_two_blocks :
  SHA1_spec [97; 98; 99; 100; 98; 99; 100; 101; 99; 100; 101; 102; 100; 101; 102; 103; 101; 102; 103; 104; 102; 103; 104; 105; 103; 104; 105; 106; 104; 105; 106; 107; 105; 106; 107; 108; 106; 107; 108; 109; 107; 108; 109; 110; 108; 109; 110; 111; 109; 110; 111; 112; 110; 111; 112; 113] =
  [132; 152; 62; 68; 28; 59; 210; 110; 186; 174; 74; 161; 249; 81; 41; 229; 229; 70; 112; 241].
Proof. vm_compute. reflexivity. Qed.
(* ---- RFC 1321 A.5 test suite ---- *)
Example MD5_spec_rfc1321_0 :
  MD5_spec [] =
  [212; 29; 140; 217; 143; 0; 178; 4; 233; 128; 9; 152; 236; 248; 66; 126].
Proof. vm_compute. reflexivity. Qed.
Example MD5_spec_rfc1321_1 :
  MD5_spec [97] =
  [12; 193; 117; 185; 192; 241; 182; 168; 49; 195; 153; 226; 105; 119; 38; 97].
Proof. vm_compute. reflexivity. Qed.
Example MD5_spec_rfc1321_2 :
  MD5_spec [97; 98; 99] =
  [144; 1; 80; 152; 60; 210; 79; 176; 214; 150; 63; 125; 40; 225; 127; 114].
Proof. vm_compute. reflexivity. Qed.
Example MD5_spec_rfc1321_3 :
  MD5_spec [109; 101; 115; 115; 97; 103; 101; 32; 100; 105; 103; 101; 115; 116] =
  [249; 107; 105; 125; 124; 183; 147; 141; 82; 90; 47; 49; 170; 241; 97; 208].
Proof. vm_compute. reflexivity. Qed.
Example MD5_spec_rfc1321_4 :
  MD5_spec [49; 50; 51; 52; 53; 54; 55; 56; 57; 48; 49; 50; 51; 52; 53; 54; 55; 56; 57; 48; 49; 50; 51; 52; 53; 54; 55; 56; 57; 48; 49; 50; 51; 52; 53; 54; 55; 56; 57; 48; 49; 50; 51; 52; 53; 54; 55; 56; 57; 48; 49; 50; 51; 52; 53; 54; 55; 56; 57; 48; 49; 50; 51; 52; 53; 54; 55; 56; 57; 48; 49; 50; 51; 52; 53; 54; 55; 56; 57; 48] =
  [87; 237; 244; 162; 43; 227; 201; 85; 172; 73; 218; 46; 33; 7; 182; 122].
Proof. vm_compute. reflexivity. Qed.
(* ---- RFC 4231 test cases 1, 2, 6 (131-byte key); RFC 2202 test case 2 ---- *)
Example HMAC_SHA256_spec_rfc4231_1 :
  HMAC_SHA256_spec [11; 11; 11; 11; 11; 11; 11; 11; 11; 11; 11; 11; 11; 11; 11; 11; 11; 11; 11; 11] [72; 105; 32; 84; 104; 101; 114; 101] =
  [176; 52; 76; 97; 216; 219; 56; 83; 92; 168; 175; 206; 175; 11; 241; 43; 136; 29; 194; 0; 201; 131; 61; 167; 38; 233; 55; 108; 46; 50; 207; 247].
Proof. vm_compute. reflexivity. Qed.
Example HMAC_SHA256_spec_rfc4231_2 :
  HMAC_SHA256_spec [74; 101; 102; 101] [119; 104; 97; 116; 32; 100; 111; 32; 121; 97; 32; 119; 97; 110; 116; 32; 102; 111; 114; 32; 110; 111; 116; 104; 105; 110; 103; 63] =
  [91; 220; 193; 70; 191; 96; 117; 78; 106; 4; 36; 38; 8; 149; 117; 199; 90; 0; 63; 8; 157; 39; 57; 131; 157; 236; 88; 185; 100; 236; 56; 67].
Proof. vm_compute. reflexivity. Qed.
Example HMAC_SHA256_spec_rfc4231_6 :
  HMAC_SHA256_spec (repeat 170 131) [84; 101; 115; 116; 32; 85; 115; 105; 110; 103; 32; 76; 97; 114; 103; 101; 114; 32; 84; 104; 97; 110; 32; 66; 108; 111; 99; 107; 45; 83; 105; 122; 101; 32; 75; 101; 121; 32; 45; 32; 72; 97; 115; 104; 32; 75; 101; 121; 32; 70; 105; 114; 115; 116] =
  [96; 228; 49; 89; 30; 224; 182; 127; 13; 138; 38; 170; 203; 245; 183; 127; 142; 11; 198; 33; 55; 40; 197; 20; 5; 70; 4; 15; 14; 227; 127; 84].
Proof. vm_compute. reflexivity. Qed.
Example HMAC_SHA1_spec_rfc2202_2 :
  HMAC_SHA1_spec [74; 101; 102; 101] [119; 104; 97; 116; 32; 100; 111; 32; 121; 97; 32; 119; 97; 110; 116; 32; 102; 111; 114; 32; 110; 111; 116; 104; 105; 110; 103; 63] =
  [239; 252; 223; 106; 229; 235; 47; 162; 210; 116; 22; 213; 241; 132; 223; 156; 37; 154; 124; 121].
Proof. vm_compute. reflexivity. Qed.
Example HMAC_MD5_spec_rfc2202_2 :
  HMAC_MD5_spec [74; 101; 102; 101] [119; 104; 97; 116; 32; 100; 111; 32; 121; 97; 32; 119; 97; 110; 116; 32; 102; 111; 114; 32; 110; 111; 116; 104; 105; 110; 103; 63] =
  [117; 12; 120; 62; 106; 176; 181; 3; 234; 168; 110; 49; 10; 93; 183; 56].
Proof. vm_compute. reflexivity. Qed.
(* ---- PBKDF2-HMAC-SHA256: RFC 7914 section 11 (c = 1, dkLen = 64) and c = 2 ---- *)
Example PBKDF2_spec_rfc7914 :
  PBKDF2_SHA256_spec [112; 97; 115; 115; 119; 100] [115; 97; 108; 116] 1 64 =
  [85; 172; 4; 110; 86; 227; 8; 159; 236; 22; 145; 194; 37; 68; 182; 5; 249; 65; 133; 33; 109; 222; 4; 101; 230; 139; 157; 87; 194; 13; 172; 188; 73; 202; 156; 204; 241; 121; 182; 69; 153; 22; 100; 179; 157; 119; 239; 49; 124; 113; 184; 69; 177; 227; 11; 213; 9; 17; 32; 65; 211; 161; 151; 131].
Proof. vm_compute. reflexivity. Qed.
Example PBKDF2_spec_c2 :
  PBKDF2_SHA256_spec [112; 97; 115; 115; 119; 111; 114; 100] [115; 97; 108; 116] 2 32 =
  [174; 77; 12; 149; 175; 107; 70; 211; 45; 10; 223; 249; 40; 240; 109; 208; 42; 48; 63; 142; 243; 194; 81; 223; 214; 226; 216; 90; 149; 71; 76; 67].
Proof. vm_compute. reflexivity. Qed.

(* ---- the same through the models with the REGENERATED constants ---- *)
Example sha256_model_abc :
  fst (sha256_final (sha256_update sha256_init [97; 98; 99])) =
  [186; 120; 22; 191; 143; 1; 207; 234; 65; 65; 64; 222; 93; 174; 34; 35; 176; 3; 97; 163; 150; 23; 122; 156; 180; 16; 255; 97; 242; 0; 21; 173].
Proof. vm_compute. reflexivity. Qed.
Example sha1_model_abc :
  fst (sha1_final (sha1_update sha1_init [97; 98; 99])) =
  [169; 153; 62; 54; 71; 6; 129; 106; 186; 62; 37; 113; 120; 80; 194; 108; 156; 208; 216; 157].
Proof. vm_compute. reflexivity. Qed.
Example md5_model_abc :
  fst (md5_final (md5_update md5_init [97; 98; 99])) =
  [144; 1; 80; 152; 60; 210; 79; 176; 214; 150; 63; 125; 40; 225; 127; 114].
Proof. vm_compute. reflexivity. Qed.

(* ---- non-vacuity: a 3-part partition (60 + 4 + 66, cutting exactly at 64 - r) of a 130-byte message ---- *)
Definition ex_parts : list (list N) :=
  [[3; 10; 17; 24; 31; 38; 45; 52; 59; 66; 73; 80; 87; 94; 101; 108; 115; 122; 129; 136; 143; 150; 157; 164; 171; 178; 185; 192; 199; 206; 213; 220; 227; 234; 241; 248; 255; 6; 13; 20; 27; 34; 41; 48; 55; 62; 69; 76; 83; 90; 97; 104; 111; 118; 125; 132; 139; 146; 153; 160]; [167; 174; 181; 188]; [195; 202; 209; 216; 223; 230; 237; 244; 251; 2; 9; 16; 23; 30; 37; 44; 51; 58; 65; 72; 79; 86; 93; 100; 107; 114; 121; 128; 135; 142; 149; 156; 163; 170; 177; 184; 191; 198; 205; 212; 219; 226; 233; 240; 247; 254; 5; 12; 19; 26; 33; 40; 47; 54; 61; 68; 75; 82; 89; 96; 103; 110; 117; 124; 131; 138]].
Example ex_parts_length :
  (length (concat ex_parts), 8 * N.of_nat (length (concat ex_parts)) <? 18446744073709551616) =
  (130%nat, true).
Proof. vm_compute. reflexivity. Qed.
Example sha256_streaming_instance :
  fst (sha256_final (fold_left sha256_update ex_parts sha256_init)) =
  [77; 94; 71; 162; 232; 81; 10; 49; 69; 118; 194; 56; 246; 255; 25; 211; 137; 211; 239; 58; 170; 202; 139; 46; 83; 2; 99; 165; 209; 87; 65; 218].
Proof. vm_compute. reflexivity. Qed.
Example sha1_streaming_instance :
  fst (sha1_final (fold_left sha1_update ex_parts sha1_init)) =
  [110; 149; 243; 143; 189; 211; 132; 84; 171; 67; 112; 202; 135; 214; 40; 181; 38; 81; 89; 80].
Proof. vm_compute. reflexivity. Qed.
Example md5_streaming_instance :
  fst (md5_final (fold_left md5_update ex_parts md5_init)) =
  [66; 152; 149; 24; 118; 175; 144; 83; 118; 160; 37; 247; 39; 150; 81; 194].
Proof. vm_compute. reflexivity. Qed.
(* M4 with a 100-byte key (hashed-key branch) *)
Example hmac_sha256_instance :
  fst (hmac256_final (fold_left hmac256_update ex_parts (hmac256_init [1; 6; 11; 16; 21; 26; 31; 36; 41; 46; 51; 56; 61; 66; 71; 76; 81; 86; 91; 96; 101; 106; 111; 116; 121; 126; 131; 136; 141; 146; 151; 156; 161; 166; 171; 176; 181; 186; 191; 196; 201; 206; 211; 216; 221; 226; 231; 236; 241; 246; 251; 0; 5; 10; 15; 20; 25; 30; 35; 40; 45; 50; 55; 60; 65; 70; 75; 80; 85; 90; 95; 100; 105; 110; 115; 120; 125; 130; 135; 140; 145; 150; 155; 160; 165; 170; 175; 180; 185; 190; 195; 200; 205; 210; 215; 220; 225; 230; 235; 240]))) =
  [159; 116; 151; 14; 50; 144; 214; 225; 157; 58; 94; 177; 156; 208; 168; 59; 76; 218; 222; 170; 147; 207; 222; 32; 120; 99; 99; 220; 134; 215; 84; 111].
Proof. vm_compute. reflexivity. Qed.
Example hmac_sha1_instance :
  fst (hmacsha1_final (fold_left hmacsha1_update ex_parts (hmacsha1_init [1; 6; 11; 16; 21; 26; 31; 36; 41; 46; 51; 56; 61; 66; 71; 76; 81; 86; 91; 96; 101; 106; 111; 116; 121; 126; 131; 136; 141; 146; 151; 156; 161; 166; 171; 176; 181; 186; 191; 196; 201; 206; 211; 216; 221; 226; 231; 236; 241; 246; 251; 0; 5; 10; 15; 20; 25; 30; 35; 40; 45; 50; 55; 60; 65; 70; 75; 80; 85; 90; 95; 100; 105; 110; 115; 120; 125; 130; 135; 140; 145; 150; 155; 160; 165; 170; 175; 180; 185; 190; 195; 200; 205; 210; 215; 220; 225; 230; 235; 240]))) =
  [103; 152; 220; 182; 65; 22; 203; 83; 110; 52; 203; 50; 169; 253; 236; 244; 234; 188; 167; 71].
Proof. vm_compute. reflexivity. Qed.
Example hmac_md5_instance :
  fst (hmacmd5_final (fold_left hmacmd5_update ex_parts (hmacmd5_init [1; 6; 11; 16; 21; 26; 31; 36; 41; 46; 51; 56; 61; 66; 71; 76; 81; 86; 91; 96; 101; 106; 111; 116; 121; 126; 131; 136; 141; 146; 151; 156; 161; 166; 171; 176; 181; 186; 191; 196; 201; 206; 211; 216; 221; 226; 231; 236; 241; 246; 251; 0; 5; 10; 15; 20; 25; 30; 35; 40; 45; 50; 55; 60; 65; 70; 75; 80; 85; 90; 95; 100; 105; 110; 115; 120; 125; 130; 135; 140; 145; 150; 155; 160; 165; 170; 175; 180; 185; 190; 195; 200; 205; 210; 215; 220; 225; 230; 235; 240]))) =
  [158; 127; 166; 195; 204; 144; 90; 47; 235; 155; 102; 253; 248; 74; 120; 133].
Proof. vm_compute. reflexivity. Qed.
(* M5 with dkLen = 40 (a partial second block) and c = 3; its hypotheses hold *)
Example pbkdf2_instance :
  pbkdf2_sha256 [112; 97; 115; 115] [115; 97; 108; 116] 3 40 =
  Ok [246; 137; 78; 213; 125; 157; 216; 175; 4; 158; 146; 252; 153; 193; 82; 99; 204; 155; 110; 66; 131; 208; 221; 212; 254; 84; 63; 215; 119; 62; 61; 100; 42; 88; 119; 22; 42; 207; 102; 139].
Proof. vm_compute. reflexivity. Qed.
Example pbkdf2_instance_hyps :
  ((1 <=? 3) && (3 <? 18446744073709551615) && (40 <=? 32 * 4294967295))%bool =
  true.
Proof. vm_compute. reflexivity. Qed.

(* ---- beyond FIPS's domain: the 64-bit bit counter wraps (the model says what the C does) ---- *)
Example sha256_count_wraps :
  c256_count (sha256_update (mk256 H0_256 18446744073709551608 (repeat 0 64)) [1; 2]) = 8.
Proof. vm_compute. reflexivity. Qed.
Example sha1_count_carries :
  let c := sha1_update (mk32 H0_1 0 4294967288 (repeat 0 64)) [1; 2] in
  (c32_count0 c, c32_count1 c) = (1, 8).
Proof. vm_compute. reflexivity. Qed.
Example md5_count_carries :
  let c := md5_update (mk32 IV_md5 4294967288 0 (repeat 0 64)) [1; 2] in
  (c32_count0 c, c32_count1 c) = (8, 1).
Proof. vm_compute. reflexivity. Qed.
(* a well-formed context in the sense of the resume theorems *)
Example wf256_instance : wf256 (mk256 H0_256 18446744073709551608 (repeat 0 64)).
Proof. repeat split; vm_compute; reflexivity. Qed.
(* PBKDF2 outside its domain: the assertion, and the loop that cannot end *)
Example pbkdf2_assert : pbkdf2_sha256 [] [] 1 137438953441 = AssertFail.
Proof. vm_compute. reflexivity. Qed.
Example pbkdf2_never_returns : pbkdf2_sha256 [] [] 18446744073709551615 32 = OutOfFuel.
Proof. vm_compute. reflexivity. Qed.
(* instances satisfying the hypotheses of the transform and resume theorems *)
Example transform_hyps_instance :
  (length H0_256 = 8 /\ length H0_1 = 5 /\ length IV_md5 = 4 /\ length (repeat 7 64) = 64)%nat.
Proof. repeat split. Qed.
Example sha256_transform_instance :
  sha256_transform H0_256 (repeat 7 64) = f256_compress H0_256 (repeat 7 64).
Proof. vm_compute. reflexivity. Qed.
Example wf32_sha1_instance : MD32Proofs.wf32 5 true (mk32 H0_1 0 4294967288 (repeat 0 64)).
Proof. repeat split; vm_compute; reflexivity. Qed.
Example wf32_md5_instance : MD32Proofs.wf32 4 false (mk32 IV_md5 4294967288 0 (repeat 0 64)).
Proof. repeat split; vm_compute; reflexivity. Qed.
(* the resume theorems at work across the carry: 2 bytes absorbed after 2^32 - 8 bits *)
Example sha1_resume_instance :
  fst (sha1_final (sha1_update (mk32 H0_1 0 4294967288 (repeat 0 64)) [1; 2])) =
  SHA1_resume_spec H0_1 4294967288 (repeat 0 64) [1; 2].
Proof. vm_compute. reflexivity. Qed.
