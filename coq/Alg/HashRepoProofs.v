(* The tie: the constants the translator regenerates from alg/sha256.c, alg/sha1.c, alg/md5.c
   (Gen/Repo_hash.v) are the standards' constants, so the models instantiated with them
   (HashRepo.v - the functions that are extracted and run against the compiled C) satisfy the
   theorems of Sha256Proofs / Sha1Proofs / Md5Proofs / HmacProofs / Pbkdf2Proofs.
   Every table equality is by vm_compute and is used below: a changed table breaks this file.
   Nothing in this file depends on what the Final functions do to the context afterwards (the digest
   theorems hold for every [wipe]); the C20 statements about the returned context are in
   Alg/HashWipeRepoProofs.v, so that a changed wipe breaks C20's proofs and not C01's. *)
From Coq Require Import Arith NArith ZArith List Lia.
From LCP Require Import Base.CheckedMem Gen.Repo_hash Alg.Words Alg.WordsProofs Alg.MDSpec Alg.MDModel Alg.Sha256Spec Alg.Sha256Model Alg.Sha256Proofs Alg.MD32Model Alg.MD32Proofs Alg.Sha1Spec Alg.Sha1Model Alg.Sha1Proofs Alg.Md5Spec Alg.Md5Model Alg.Md5Proofs Alg.HmacSpec Alg.HmacModel Alg.HmacProofs Alg.Pbkdf2Spec Alg.Pbkdf2Model Alg.Pbkdf2Proofs Alg.HashSpecs Alg.HashWipe Alg.HashRepo.
Import ListNotations.
Local Open Scope N_scope.

(* ---------------- alg/sha256.c ---------------- *)
Lemma repo_sha256_Krnd_eq_spec : sha256_Krnd = K256. Proof. vm_compute. reflexivity. Qed.
Lemma repo_sha256_iv_eq_spec : sha256_initial_state = H0_256. Proof. vm_compute. reflexivity. Qed.
Lemma repo_sha256_PAD_eq_spec : sha256_PAD = PAD_spec. Proof. vm_compute. reflexivity. Qed.
Lemma repo_sha256_limits :
  sha256_padlim = 56 /\
  sha256_blk = 64 /\
  sha256_cshift = 3 /\
  sha256_rmask = 63.
Proof. repeat split; vm_compute; reflexivity. Qed.
Lemma repo_hmac_sha256_consts :
  hmac_sha256_blk = 64 /\
  hmac_sha256_klen = 32 /\
  hmac_sha256_ipad = 54 /\
  hmac_sha256_opad = 92 /\
  hmac_sha256_ihash_len = 32.
Proof. repeat split; vm_compute; reflexivity. Qed.
Lemma repo_pbkdf2_consts : pbkdf2_hlen = 32 /\ pbkdf2_jstart = 2 /\ pbkdf2_ivec_len = 4.
Proof. repeat split; vm_compute; reflexivity. Qed.

Ltac pair_eqs H := repeat match type of H with (_, _) = (_, _) => let H1 := fresh H in injection H as H H1 end.

Lemma sha256_transform_eq : sha256_transform = c256_transform K256.
Proof. unfold sha256_transform. rewrite repo_sha256_Krnd_eq_spec. reflexivity. Qed.
Lemma sha256_init_eq : sha256_init = init256.
Proof. unfold sha256_init, init256. rewrite repo_sha256_iv_eq_spec. reflexivity. Qed.
Lemma sha256_update_eq : sha256_update = upd256.
Proof.
  pose proof repo_sha256_limits as L. destruct L as (L1 & L2 & L3 & L4).
  unfold sha256_update, upd256. rewrite repo_sha256_Krnd_eq_spec, ?L1, ?L2, ?L3, ?L4. reflexivity.
Qed.
Lemma sha256_final_internal_eq : sha256_final_internal = fin256_internal.
Proof.
  pose proof repo_sha256_limits as L. destruct L as (L1 & L2 & L3 & L4).
  unfold sha256_final_internal, fin256_internal.
  rewrite repo_sha256_Krnd_eq_spec, repo_sha256_PAD_eq_spec, ?L1, ?L2, ?L3, ?L4. reflexivity.
Qed.
Lemma sha256_final_eq : sha256_final = fin256 (mask256 sha256_final_zero []).
Proof.
  pose proof repo_sha256_limits as L. destruct L as (L1 & L2 & L3 & L4).
  unfold sha256_final, fin256.
  rewrite repo_sha256_Krnd_eq_spec, repo_sha256_PAD_eq_spec, ?L1, ?L2, ?L3, ?L4. reflexivity.
Qed.
Lemma sha256_buf_eq : sha256_buf = buf256.
Proof.
  pose proof repo_sha256_limits as L. destruct L as (L1 & L2 & L3 & L4).
  unfold sha256_buf, buf256.
  rewrite repo_sha256_Krnd_eq_spec, repo_sha256_iv_eq_spec, repo_sha256_PAD_eq_spec, ?L1, ?L2, ?L3, ?L4. reflexivity.
Qed.

Theorem repo_sha256_transform_is_compress st block :
  length st = 8%nat -> length block = 64%nat -> sha256_transform st block = f256_compress st block.
Proof. rewrite sha256_transform_eq. apply c256_transform_spec. Qed.

Theorem repo_sha256_streaming parts :
  8 * N.of_nat (length (concat parts)) < 18446744073709551616 ->
  fst (sha256_final (fold_left sha256_update parts sha256_init)) = SHA256_spec (concat parts).
Proof. rewrite sha256_final_eq, sha256_update_eq, sha256_init_eq. apply sha256_streaming_correct. Qed.

Theorem repo_sha256_streaming_all parts :
  fst (sha256_final (fold_left sha256_update parts sha256_init)) = SHA256_spec (concat parts).
Proof. rewrite sha256_final_eq, sha256_update_eq, sha256_init_eq. apply sha256_streaming_correct_all. Qed.

Theorem repo_sha256_oneshot m : sha256_buf m = SHA256_spec m.
Proof. rewrite sha256_buf_eq. apply sha256_oneshot_correct. Qed.

Theorem repo_sha256_oneshot_eq_streaming parts :
  sha256_buf (concat parts) = fst (sha256_final (fold_left sha256_update parts sha256_init)).
Proof. rewrite repo_sha256_oneshot, repo_sha256_streaming_all. reflexivity. Qed.

Theorem repo_sha256_resume c parts : wf256 c ->
  fst (sha256_final (fold_left sha256_update parts c)) =
  SHA256_resume_spec (c256_state c) (c256_count c) (c256_buf c) (concat parts).
Proof.
  intros H. rewrite sha256_final_eq, sha256_update_eq. unfold fin256, c256_final. cbn [fst].
  fold fin256_internal. apply sha256_resume_correct. exact H.
Qed.

(* ---------------- alg/sha1.c ---------------- *)
Lemma repo_sha1_iv_eq_spec : sha1_iv = H0_1. Proof. vm_compute. reflexivity. Qed.
Lemma repo_sha1_PAD_eq_spec : sha1_PAD = PAD_spec32. Proof. vm_compute. reflexivity. Qed.
Lemma repo_sha1_kinds_eq_spec : sha1_kinds = sha1_kinds_spec. Proof. vm_compute. reflexivity. Qed.
Lemma repo_sha1_rounds_eq_spec : sha1_rounds = sha1_rounds_spec. Proof. vm_compute. reflexivity. Qed.
Lemma repo_sha1_sched :
  sha1_sched_offsets = [3; 8; 14; 16] /\
  sha1_sched_rot = 1 /\
  sha1_sched_from = 16 /\
  sha1_sched_to = 80.
Proof. repeat split; vm_compute; reflexivity. Qed.
Lemma repo_sha1_limits :
  sha1_padlim = 56 /\
  sha1_padlim2 = 120 /\
  sha1_lo1 = true /\
  sha1_cshift = 3 /\
  sha1_hishift = 29 /\
  sha1_rmask = 63 /\
  sha1_blk = 64.
Proof. repeat split; vm_compute; reflexivity. Qed.
Lemma repo_hmac_sha1_consts :
  hmac_sha1_blk = 64 /\
  hmac_sha1_klen = 20 /\
  hmac_sha1_ipad = 54 /\
  hmac_sha1_opad = 92 /\
  hmac_sha1_ihash_len = 20.
Proof. repeat split; vm_compute; reflexivity. Qed.

Lemma sha1_transform_eq : sha1_transform = T_sha1.
Proof.
  pose proof repo_sha1_sched as L. destruct L as (L1 & L2 & L3 & L4).
  unfold sha1_transform, T_sha1.
  rewrite repo_sha1_kinds_eq_spec, repo_sha1_rounds_eq_spec, ?L1, ?L2, ?L3, ?L4. reflexivity.
Qed.
Lemma sha1_init_eq : sha1_init = init1.
Proof.
  pose proof repo_sha1_limits as L. destruct L as (L1 & L2 & L3 & L4 & L5 & L6 & L7).
  unfold sha1_init, init1. rewrite repo_sha1_iv_eq_spec, ?L3. reflexivity.
Qed.
Lemma sha1_update_eq : sha1_update = upd1.
Proof.
  pose proof repo_sha1_limits as L. destruct L as (L1 & L2 & L3 & L4 & L5 & L6 & L7).
  unfold sha1_update, upd1. rewrite sha1_transform_eq, ?L3, ?L4, ?L5, ?L6, ?L7. reflexivity.
Qed.
Lemma sha1_final_with_eq wipe : sha1_final_with wipe = fin1 wipe.
Proof.
  pose proof repo_sha1_limits as L. destruct L as (L1 & L2 & L3 & L4 & L5 & L6 & L7).
  unfold sha1_final_with, fin1.
  rewrite sha1_transform_eq, repo_sha1_PAD_eq_spec, ?L1, ?L2, ?L3, ?L4, ?L5, ?L6, ?L7.
  reflexivity.
Qed.
Lemma sha1_final_eq : sha1_final = fin1 (mask32 sha1_final_zero []).
Proof. apply sha1_final_with_eq. Qed.
Lemma sha1_buf_eq : sha1_buf = buf1.
Proof.
  pose proof repo_sha1_limits as L. destruct L as (L1 & L2 & L3 & L4 & L5 & L6 & L7).
  unfold sha1_buf, buf1.
  rewrite sha1_transform_eq, repo_sha1_iv_eq_spec, repo_sha1_PAD_eq_spec, ?L1, ?L2, ?L3, ?L4, ?L5, ?L6, ?L7.
  reflexivity.
Qed.

Theorem repo_sha1_transform_is_compress st block :
  length st = 5%nat -> length block = 64%nat -> sha1_transform st block = f1_compress st block.
Proof. rewrite sha1_transform_eq. apply sha1_transform_eq_compress. Qed.

Theorem repo_sha1_streaming parts :
  8 * N.of_nat (length (concat parts)) < 18446744073709551616 ->
  fst (sha1_final (fold_left sha1_update parts sha1_init)) = SHA1_spec (concat parts).
Proof. rewrite sha1_final_eq, sha1_update_eq, sha1_init_eq. apply sha1_streaming_correct. Qed.

Theorem repo_sha1_streaming_all parts :
  fst (sha1_final (fold_left sha1_update parts sha1_init)) = SHA1_spec (concat parts).
Proof. rewrite sha1_final_eq, sha1_update_eq, sha1_init_eq. apply sha1_streaming_correct_all. Qed.

Theorem repo_sha1_oneshot m : sha1_buf m = SHA1_spec m.
Proof. rewrite sha1_buf_eq. apply sha1_oneshot_correct. Qed.

Theorem repo_sha1_oneshot_eq_streaming parts :
  sha1_buf (concat parts) = fst (sha1_final (fold_left sha1_update parts sha1_init)).
Proof. rewrite repo_sha1_oneshot, repo_sha1_streaming_all. reflexivity. Qed.

Theorem repo_sha1_resume c parts : wf32 5 true c ->
  fst (sha1_final (fold_left sha1_update parts c)) =
  SHA1_resume_spec (c32_state c) (c32_count0 c * 4294967296 + c32_count1 c) (c32_buf c) (concat parts).
Proof. intros H. rewrite sha1_final_eq, sha1_update_eq. apply sha1_resume_correct. exact H. Qed.

Lemma sha1_nowipe_streaming parts :
  fst (sha1_final_nowipe (fold_left sha1_update parts sha1_init)) = SHA1_spec (concat parts).
Proof.
  unfold sha1_final_nowipe. rewrite sha1_final_with_eq, sha1_update_eq, sha1_init_eq.
  apply sha1_streaming_correct_all.
Qed.

(* ---------------- alg/md5.c ---------------- *)
Lemma repo_md5_iv_eq_spec : md5_iv = IV_md5. Proof. vm_compute. reflexivity. Qed.
Lemma repo_md5_PAD_eq_spec : md5_PAD = PAD_spec32. Proof. vm_compute. reflexivity. Qed.
Lemma repo_md5_formulas_eq_spec : md5_index_formulas = md5_formulas_spec. Proof. vm_compute. reflexivity. Qed.
Lemma repo_md5_ops_eq_spec : md5_ops = md5_ops_spec. Proof. vm_compute. reflexivity. Qed.
Lemma repo_md5_limits :
  md5_padlim = 56 /\
  md5_padlim2 = 120 /\
  md5_lo1 = false /\
  md5_cshift = 3 /\
  md5_hishift = 29 /\
  md5_rmask = 63 /\
  md5_blk = 64.
Proof. repeat split; vm_compute; reflexivity. Qed.
Lemma repo_hmac_md5_consts :
  hmac_md5_blk = 64 /\
  hmac_md5_klen = 16 /\
  hmac_md5_ipad = 54 /\
  hmac_md5_opad = 92 /\
  hmac_md5_ihash_len = 16.
Proof. repeat split; vm_compute; reflexivity. Qed.

Lemma md5_transform_eq : md5_transform = T_md5x.
Proof.
  unfold md5_transform, T_md5x. rewrite repo_md5_formulas_eq_spec, repo_md5_ops_eq_spec. reflexivity.
Qed.
Lemma md5_init_eq : md5_init = init5.
Proof.
  pose proof repo_md5_limits as L. destruct L as (L1 & L2 & L3 & L4 & L5 & L6 & L7).
  unfold md5_init, init5. rewrite repo_md5_iv_eq_spec, ?L3. reflexivity.
Qed.
Lemma md5_update_eq : md5_update = upd5.
Proof.
  pose proof repo_md5_limits as L. destruct L as (L1 & L2 & L3 & L4 & L5 & L6 & L7).
  unfold md5_update, upd5. rewrite md5_transform_eq, ?L3, ?L4, ?L5, ?L6, ?L7. reflexivity.
Qed.
Lemma md5_final_with_eq wipe : md5_final_with wipe = fin5 wipe.
Proof.
  pose proof repo_md5_limits as L. destruct L as (L1 & L2 & L3 & L4 & L5 & L6 & L7).
  unfold md5_final_with, fin5.
  rewrite md5_transform_eq, repo_md5_PAD_eq_spec, ?L1, ?L2, ?L3, ?L4, ?L5, ?L6, ?L7.
  reflexivity.
Qed.
Lemma md5_final_eq : md5_final = fin5 (mask32 md5_final_zero []).
Proof. apply md5_final_with_eq. Qed.
Lemma md5_buf_eq : md5_buf = buf5.
Proof.
  pose proof repo_md5_limits as L. destruct L as (L1 & L2 & L3 & L4 & L5 & L6 & L7).
  unfold md5_buf, buf5.
  rewrite md5_transform_eq, repo_md5_iv_eq_spec, repo_md5_PAD_eq_spec, ?L1, ?L2, ?L3, ?L4, ?L5, ?L6, ?L7.
  reflexivity.
Qed.

Theorem repo_md5_transform_is_compress st block :
  length st = 4%nat -> length block = 64%nat -> md5_transform st block = r5_compress st block.
Proof. rewrite md5_transform_eq. apply md5_transform_eq_compress. Qed.

Theorem repo_md5_streaming parts :
  fst (md5_final (fold_left md5_update parts md5_init)) = MD5_spec (concat parts).
Proof. rewrite md5_final_eq, md5_update_eq, md5_init_eq. apply md5_streaming_correct. Qed.

Theorem repo_md5_oneshot m : md5_buf m = MD5_spec m.
Proof. rewrite md5_buf_eq. apply md5_oneshot_correct. Qed.

Theorem repo_md5_oneshot_eq_streaming parts :
  md5_buf (concat parts) = fst (md5_final (fold_left md5_update parts md5_init)).
Proof. rewrite repo_md5_oneshot, repo_md5_streaming. reflexivity. Qed.

Theorem repo_md5_resume c parts : wf32 4 false c ->
  fst (md5_final (fold_left md5_update parts c)) =
  MD5_resume_spec (c32_state c) (c32_count1 c * 4294967296 + c32_count0 c) (c32_buf c) (concat parts).
Proof. intros H. rewrite md5_final_eq, md5_update_eq. apply md5_resume_correct. exact H. Qed.

Lemma md5_nowipe_streaming parts :
  fst (md5_final_nowipe (fold_left md5_update parts md5_init)) = MD5_spec (concat parts).
Proof.
  unfold md5_final_nowipe. rewrite md5_final_with_eq, md5_update_eq, md5_init_eq.
  apply md5_streaming_correct.
Qed.

(* ---------------- HMAC ---------------- *)
Lemma sha256_internal_stream parts :
  fst (sha256_final_internal (fold_left sha256_update parts sha256_init)) = SHA256_spec (concat parts).
Proof.
  rewrite sha256_final_internal_eq, sha256_update_eq, sha256_init_eq.
  apply sha256_internal_streaming_correct.
Qed.

Theorem repo_hmac_sha256_internal K parts :
  fst (hmac256_final_internal (fold_left hmac256_update parts (hmac256_init K))) =
  HMAC_SHA256_spec K (concat parts).
Proof.
  pose proof repo_hmac_sha256_consts as L. destruct L as (L1 & L2 & L3 & L4 & L5).
  unfold hmac256_final_internal, hmac256_update, hmac256_init, HMAC_SHA256_spec.
  rewrite ?L1, ?L2, ?L3, ?L4, ?L5.
  exact (hmac_internal_correct ctx256 sha256_init sha256_update sha256_final_internal (fun c => c) (fun c => c) SHA256_spec 32
           sha256_internal_stream SHA256_spec_length ltac:(lia) K parts).
Qed.

Theorem repo_hmac_sha256_correct K parts :
  fst (hmac256_final (fold_left hmac256_update parts (hmac256_init K))) =
  HMAC_SHA256_spec K (concat parts).
Proof.
  pose proof repo_hmac_sha256_consts as L. destruct L as (L1 & L2 & L3 & L4 & L5).
  unfold hmac256_final, hmac256_update, hmac256_init, HMAC_SHA256_spec.
  rewrite ?L1, ?L2, ?L3, ?L4, ?L5.
  exact (hmac_correct ctx256 sha256_init sha256_update sha256_final_internal
           (mask256 hmac256_final_zero in_ictx) (mask256 hmac256_final_zero in_octx) SHA256_spec 32 sha256_internal_stream SHA256_spec_length ltac:(lia) K parts).
Qed.

Theorem repo_hmac_sha256_buf K m : hmac256_buf K m = HMAC_SHA256_spec K m.
Proof.
  pose proof repo_hmac_sha256_consts as L. destruct L as (L1 & L2 & L3 & L4 & L5).
  unfold hmac256_buf, HMAC_SHA256_spec. rewrite ?L1, ?L2, ?L3, ?L4, ?L5.
  exact (hmac_buf_correct ctx256 sha256_init sha256_update sha256_final_internal (fun c => c) (fun c => c) SHA256_spec 32
           sha256_internal_stream SHA256_spec_length ltac:(lia) K m).
Qed.

Theorem repo_hmac_sha256_buf_eq_streaming K parts :
  hmac256_buf K (concat parts) = fst (hmac256_final (fold_left hmac256_update parts (hmac256_init K))).
Proof. rewrite repo_hmac_sha256_buf, repo_hmac_sha256_correct. reflexivity. Qed.

(* two-call streaming = one-shot (used by the DRBG area) *)
Theorem repo_hmac_sha256_stream2_eq_buf K a b :
  fst (hmac256_final (hmac256_update (hmac256_update (hmac256_init K) a) b)) = hmac256_buf K (a ++ b).
Proof.
  pose proof (repo_hmac_sha256_buf_eq_streaming K [a; b]) as E. cbn [fold_left concat] in E.
  rewrite app_nil_r in E. symmetry. exact E.
Qed.

Theorem repo_hmac_sha1_correct K parts :
  fst (hmacsha1_final (fold_left hmacsha1_update parts (hmacsha1_init K))) =
  HMAC_SHA1_spec K (concat parts).
Proof.
  pose proof repo_hmac_sha1_consts as L. destruct L as (L1 & L2 & L3 & L4 & L5).
  unfold hmacsha1_final, hmacsha1_update, hmacsha1_init, HMAC_SHA1_spec.
  rewrite ?L1, ?L2, ?L3, ?L4, ?L5.
  exact (hmac_correct ctx32 sha1_init sha1_update sha1_final_nowipe
           (mask32 hmacsha1_final_zero in_ictx) (mask32 hmacsha1_final_zero in_octx)
           SHA1_spec 20 sha1_nowipe_streaming SHA1_spec_length ltac:(lia) K parts).
Qed.

Theorem repo_hmac_sha1_buf K m : hmacsha1_buf K m = HMAC_SHA1_spec K m.
Proof.
  pose proof repo_hmac_sha1_consts as L. destruct L as (L1 & L2 & L3 & L4 & L5).
  unfold hmacsha1_buf, HMAC_SHA1_spec. rewrite ?L1, ?L2, ?L3, ?L4, ?L5.
  exact (hmac_buf_correct ctx32 sha1_init sha1_update sha1_final_nowipe (fun c => c) (fun c => c) SHA1_spec 20
           sha1_nowipe_streaming SHA1_spec_length ltac:(lia) K m).
Qed.

Theorem repo_hmac_md5_correct K parts :
  fst (hmacmd5_final (fold_left hmacmd5_update parts (hmacmd5_init K))) =
  HMAC_MD5_spec K (concat parts).
Proof.
  pose proof repo_hmac_md5_consts as L. destruct L as (L1 & L2 & L3 & L4 & L5).
  unfold hmacmd5_final, hmacmd5_update, hmacmd5_init, HMAC_MD5_spec.
  rewrite ?L1, ?L2, ?L3, ?L4, ?L5.
  exact (hmac_correct ctx32 md5_init md5_update md5_final_nowipe
           (mask32 hmacmd5_final_zero in_ictx) (mask32 hmacmd5_final_zero in_octx)
           MD5_spec 16 md5_nowipe_streaming MD5_spec_length ltac:(lia) K parts).
Qed.

Theorem repo_hmac_md5_buf K m : hmacmd5_buf K m = HMAC_MD5_spec K m.
Proof.
  pose proof repo_hmac_md5_consts as L. destruct L as (L1 & L2 & L3 & L4 & L5).
  unfold hmacmd5_buf, HMAC_MD5_spec. rewrite ?L1, ?L2, ?L3, ?L4, ?L5.
  exact (hmac_buf_correct ctx32 md5_init md5_update md5_final_nowipe (fun c => c) (fun c => c) MD5_spec 16
           md5_nowipe_streaming MD5_spec_length ltac:(lia) K m).
Qed.

(* ---------------- PBKDF2-HMAC-SHA256 ---------------- *)
Lemma HMAC_SHA256_spec_length K m : length (HMAC_SHA256_spec K m) = 32%nat.
Proof. apply (HMAC_spec_length SHA256_spec 32 SHA256_spec_length). Qed.

Theorem repo_pbkdf2_correct P S c dkLen :
  1 <= c -> c < 18446744073709551615 -> dkLen <= 32 * 4294967295 ->
  pbkdf2_sha256 P S c dkLen = Ok (PBKDF2_SHA256_spec P S c dkLen).
Proof.
  pose proof repo_pbkdf2_consts as L. destruct L as (L1 & L2 & L3).
  unfold pbkdf2_sha256, PBKDF2_SHA256_spec. rewrite ?L1, ?L2, ?L3.
  apply (pbkdf2_correct hctx256 hmac256_init hmac256_update hmac256_final_internal HMAC_SHA256_spec
           repo_hmac_sha256_internal HMAC_SHA256_spec_length).
Qed.

Theorem repo_pbkdf2_zero_iterations P S dkLen :
  pbkdf2_sha256 P S 0 dkLen = pbkdf2_sha256 P S 1 dkLen.
Proof.
  pose proof repo_pbkdf2_consts as L. destruct L as (L1 & L2 & L3).
  unfold pbkdf2_sha256. rewrite ?L1, ?L2, ?L3. reflexivity.
Qed.
