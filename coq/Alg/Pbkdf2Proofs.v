(* The PBKDF2_SHA256 model (precomputed HMAC contexts, INT(i+1) as a truncated big-endian uint32_t,
   inner loop j = 2..c, clen truncation) equals RFC 8018 PBKDF2 - generic in an HMAC whose context
   interface is proved equal to a function PRF on whole messages with 32-byte output. *)
From Coq Require Import Arith NArith ZArith List Lia ZifyNat ZifyN.
From LCP Require Import Base.CheckedMem Alg.Words Alg.WordsProofs Alg.Pbkdf2Spec Alg.Pbkdf2Model.
Import ListNotations.
Local Open Scope N_scope.
Ltac Zify.zify_post_hook ::= Z.to_euclidean_division_equations.

Lemma be32enc_INT4 x : be32enc x = INT4 x.
Proof.
  unfold be32enc, INT4, byte0. change 255 with (N.ones 8). rewrite !N.land_ones, !N.shiftr_div_pow2.
  reflexivity.
Qed.

Lemma xor_bytes_length a b : length (xor_bytes a b) = Nat.min (length a) (length b).
Proof. apply map2_length. Qed.

Section Pbkdf2Proofs.
  Variable hctx : Type.
  Variable hm_init : list N -> hctx.
  Variable hm_update : hctx -> list N -> hctx.
  Variable hm_final : hctx -> list N * hctx.
  Variable PRF : list N -> list N -> list N.
  Hypothesis Hhm : forall K parts,
    fst (hm_final (fold_left hm_update parts (hm_init K))) = PRF K (concat parts).
  Hypothesis Hlen : forall K m, length (PRF K m) = 32%nat.

  Let block := pbkdf2_block hctx hm_update hm_final 32 2 4.
  Let kdf := pbkdf2_c hctx hm_init hm_update hm_final 32 2 4.

  Lemma prf_two P a b : fst (hm_final (hm_update (hm_update (hm_init P) a) b)) = PRF P (a ++ b).
  Proof.
    pose proof (Hhm P [a; b]) as E. cbn [fold_left concat] in E. rewrite app_nil_r in E. exact E.
  Qed.
  Lemma prf_one P a : fst (hm_final (hm_update (hm_init P) a)) = PRF P a.
  Proof.
    pose proof (Hhm P [a]) as E. cbn [fold_left concat] in E. rewrite app_nil_r in E. exact E.
  Qed.

  (* the inner loop computes F(P, S, c, i+1) *)
  Lemma block_eq_F P S c i : i + 1 < M32 ->
    block (hm_init P) (hm_update (hm_init P) S) c i = pbkdf2_F PRF P S c (i + 1).
  Proof.
    intros Hi. unfold block, pbkdf2_block, pbkdf2_F.
    rewrite w32_mod, N.mod_small by exact Hi.
    change (N.to_nat 4) with 4%nat. change (N.to_nat 32) with 32%nat.
    replace (firstn 4 (be32enc (i + 1))) with (INT4 (i + 1)) by (rewrite be32enc_INT4; reflexivity).
    rewrite prf_two.
    set (U1 := PRF P (S ++ INT4 (i + 1))).
    replace (c + 1 - 2) with (c - 1) by lia.
    assert (HU1 : length U1 = 32%nat) by apply Hlen.
    (* both loops step in lock-step; the model's firstn 32 U is U *)
    f_equal.
    set (f := fun UT : list N * list N =>
                  let U' := fst (hm_final (hm_update (hm_init P) (firstn 32 (fst UT)))) in
                  (U', xor_bytes (snd UT) U')).
    set (g := fun UT : list N * list N =>
                  let U' := PRF P (fst UT) in (U', xor_bytes (snd UT) U')).
    assert (G : forall n, N.iter n f (U1, U1) = N.iter n g (U1, U1) /\
                          length (fst (N.iter n g (U1, U1))) = 32%nat).
    { assert (Hfg : forall X, length (fst X) = 32%nat -> f X = g X).
      { intros X HX. unfold f, g. cbv zeta. rewrite firstn_all2 by lia. rewrite prf_one. reflexivity. }
      assert (Hg : forall X, length (fst (g X)) = 32%nat).
      { intros X. unfold g. cbv zeta. cbn [fst]. apply Hlen. }
      intros k. induction k as [|k IH] using N.peano_ind.
      - split; [reflexivity | exact HU1].
      - rewrite !N.iter_succ. destruct IH as [IH1 IH2]. rewrite IH1. split.
        + apply Hfg. exact IH2.
        + apply Hg. }
    apply G.
  Qed.

  Lemma F_length P S c i : length (pbkdf2_F PRF P S c i) = 32%nat.
  Proof.
    unfold pbkdf2_F. set (U1 := PRF P (S ++ INT4 i)).
    assert (HU1 : length U1 = 32%nat) by apply Hlen.
    set (g := fun UT : list N * list N =>
                  let U' := PRF P (fst UT) in (U', xor_bytes (snd UT) U')).
    assert (G : forall n, length (fst (N.iter n g (U1, U1))) = 32%nat /\
                          length (snd (N.iter n g (U1, U1))) = 32%nat).
    { assert (Hg : forall X, length (snd X) = 32%nat ->
                length (fst (g X)) = 32%nat /\ length (snd (g X)) = 32%nat).
      { intros X HX. unfold g. cbv zeta. cbn [fst snd]. split; [apply Hlen|].
        rewrite xor_bytes_length, HX, Hlen. reflexivity. }
      intros k. induction k as [|k IH] using N.peano_ind.
      - cbn [N.iter fst snd]. auto.
      - rewrite N.iter_succ. apply Hg. apply IH. }
    apply G.
  Qed.

  Lemma concat_F_length P S c n : forall s,
    length (concat (map (fun i => pbkdf2_F PRF P S c (N.of_nat i)) (seq s n))) = (32 * n)%nat.
  Proof.
    induction n as [|n IH]; intros s; [reflexivity|].
    cbn [seq map concat]. rewrite app_length, F_length, IH. lia.
  Qed.

  (* M5 *)
  Theorem pbkdf2_correct P S c dkLen :
    1 <= c -> c < 18446744073709551615 -> dkLen <= 32 * 4294967295 ->
    kdf P S c dkLen = Ok (PBKDF2_spec PRF 32 P S c dkLen).
  Proof.
    intros Hc1 Hc2 Hdk. unfold kdf, pbkdf2_c.
    destruct (N.ltb_spec (32 * 4294967295) dkLen) as [Hbad|_]; [lia|].
    destruct (N.eqb_spec c 18446744073709551615) as [Hbad|_]; [lia|].
    f_equal. unfold PBKDF2_spec.
    change (32 - 1) with 31.
    set (passes := (dkLen + 31) / 32).
    set (Fi := fun i : nat => pbkdf2_F PRF P S c (N.of_nat i)).
    set (step := fun io : N * list N => _).
    assert (G : forall n, n <= passes ->
              N.iter n step (0, []) =
              (n, firstn (N.to_nat dkLen) (concat (map Fi (seq 1 (N.to_nat n)))))).
    { intros n. induction n as [|n IH] using N.peano_ind; intros Hn.
      - cbn. rewrite firstn_nil. reflexivity.
      - rewrite N.iter_succ, IH by lia. unfold step at 1. cbn [fst snd].
        fold block. rewrite block_eq_F by (unfold passes, M32 in *; lia).
        f_equal; [lia|].
        rewrite N2Nat.inj_succ. rewrite seq_S, map_app, concat_app. cbn [map concat]. rewrite app_nil_r.
        set (A := concat (map Fi (seq 1 (N.to_nat n)))).
        assert (HA : length A = (32 * N.to_nat n)%nat) by apply concat_F_length.
        unfold Fi at 1. replace (N.of_nat (1 + N.to_nat n)) with (n + 1) by lia.
        set (B := pbkdf2_F PRF P S c (n + 1)).
        assert (HB : length B = 32%nat) by apply F_length.
        assert (Hlt : 32 * n < dkLen) by (unfold passes in *; lia).
        rewrite (firstn_all2 A) by lia.
        rewrite firstn_app, (firstn_all2 A) by lia. f_equal.
        rewrite HA.
        destruct (N.ltb_spec 32 (dkLen - n * 32)) as [Hbig|Hsmall].
        + change (N.to_nat 32) with 32%nat. rewrite !firstn_all2 by lia. reflexivity.
        + f_equal. lia. }
    rewrite G by lia. reflexivity.
  Qed.

  (* c = 0 is not in RFC 8018's domain; the C (and the model) then behave exactly as for c = 1 *)
  Theorem pbkdf2_zero_iterations P S dkLen : kdf P S 0 dkLen = kdf P S 1 dkLen.
  Proof. reflexivity. Qed.
End Pbkdf2Proofs.
