(* HMAC as RFC 2104 section 2 states it, for a hash with 64-byte blocks (B = 64):
   H((K0 xor opad) || H((K0 xor ipad) || text)), K0 = K (or H(K) when K is longer than B)
   zero-extended to B bytes.  Definitions only. *)
From Coq Require Import Arith NArith List.
From LCP Require Import Alg.Words.
Import ListNotations.
Local Open Scope N_scope.

Section HmacSpec.
  Variable H : list N -> list N.
  Definition hmac_K0 (K : list N) : list N :=
    let K' := if (64 <? length K)%nat then H K else K in
    K' ++ repeat 0 (64 - length K').
  Definition HMAC_spec (K text : list N) : list N :=
    let K0 := hmac_K0 K in
    H (map (fun b => N.lxor b 0x5c) K0 ++ H (map (fun b => N.lxor b 0x36) K0 ++ text)).
End HmacSpec.
