(* The part of SHA256_Update_internal / SHA1_Update / MD5_Update that is textually the same in
   the three C files: given the residue r already in ctx->buf, either copy only, or finish the
   block, run the whole blocks straight from the source, and keep the left-over bytes.
   Parametric in the block transform and the block length literal.  Definitions only. *)
From Coq Require Import NArith List Arith.
Import ListNotations.

Section MDModel.
  Variable transform : list N -> list N -> list N.   (* state -> 64-byte block -> new state *)
  Variable blk : nat.                                (* the literal 64 of the C *)

  (* memcpy(&buf[off], src, length src) *)
  Definition buf_write (buf : list N) (off : nat) (src : list N) : list N :=
    firstn off buf ++ src ++ skipn (off + length src) buf.

  (* while (len >= 64) { Transform(state, src); src += 64; len -= 64; } *)
  Fixpoint whole_blocks (fuel : nat) (st src : list N) (len : nat) {struct fuel} : list N * list N :=
    match fuel with
    | O => (st, src)
    | S f =>
      if blk <=? len
      then whole_blocks f (transform st (firstn blk src)) (skipn blk src) (len - blk)
      else (st, src)
    end.

  Definition update_body (st buf : list N) (r : nat) (d : list N) : list N * list N :=
    let len := length d in
    (* if (len < 64 - r) { memcpy(&ctx->buf[r], src, len); return; } *)
    if len <? blk - r then (st, buf_write buf r d)
    else
      (* memcpy(&ctx->buf[r], src, 64 - r); Transform(state, buf); src += 64 - r; len -= 64 - r; *)
      let buf1 := buf_write buf r (firstn (blk - r) d) in
      let st1 := transform st buf1 in
      let '(st2, src) := whole_blocks len st1 (skipn (blk - r) d) (len - (blk - r)) in
      (* memcpy(ctx->buf, src, len); *)
      (st2, buf_write buf1 0 src).
End MDModel.
