(* alg/sha1.c model = FIPS 180-4 SHA-1.  SHA1_Transform (80 macro invocations on a rotating
   array of 5 words, taken from the source by the translator) equals the textbook compression
   function, by a per-round simulation; then the streaming theorems by instantiating MD32Proofs. *)
From Coq Require Import Arith NArith ZArith List Lia ZifyNat ZifyN.
From LCP Require Import Alg.Words Alg.WordsProofs Alg.MDSpec Alg.MDModel Alg.MDStreaming Alg.MD32Model Alg.MD32Proofs Alg.Sha1Spec Alg.Sha1Model.
Import ListNotations.
Local Open Scope N_scope.
Ltac Zify.zify_post_hook ::= Z.to_euclidean_division_equations.

(* what the translator must find in alg/sha1.c, stated from the standard *)
Definition sha1_kinds_spec : list (N * N * N * N) :=
  [(0, 0x5a827999, 5, 30); (1, 0x6ed9eba1, 5, 30); (2, 0x8f1bbcdc, 5, 30); (1, 0xca62c1d6, 5, 30)].
Definition sha1_rounds_spec : list (N * N) :=
  map (fun t => (N.of_nat (t / 20), N.of_nat t)) (seq 0 80).

Lemma c1_Ch_eq x y z : c1_Ch x y z = f1_Ch x y z.
Proof. unfold c1_Ch, f1_Ch. bitwise. Qed.
Lemma c1_Maj_eq x y z : c1_Maj x y z = f1_Maj x y z.
Proof. unfold c1_Maj, f1_Maj. bitwise. Qed.
Lemma c1_Xor3_eq x y z : c1_Xor3 x y z = f1_Parity x y z.
Proof. reflexivity. Qed.

Definition rotv5 (r : nat) (v : list N) : list N := skipn r v ++ firstn r v.

Arguments add32 : simpl never.
Arguments rotl32 : simpl never.
Arguments c1_Ch : simpl never.
Arguments c1_Maj : simpl never.
Arguments c1_Xor3 : simpl never.
Arguments f1_Ch : simpl never.
Arguments f1_Maj : simpl never.
Arguments f1_Parity : simpl never.

Lemma c1_rnd_sim i a b c d e w : (i < 80)%nat ->
  c1_rnd sha1_kinds_spec (rotv5 (i mod 5) [a; b; c; d; e]) (i / 20) i w =
  rotv5 ((i + 1) mod 5) (f1_round [a; b; c; d; e] i w).
Proof.
  intros Hi.
  do 80 (destruct i as [|i];
         [ cbn; rewrite ?c1_Ch_eq, ?c1_Maj_eq, ?c1_Xor3_eq; repeat (f_equal; try add32_ac) | ]).
  lia.
Qed.

Lemma rotv5_0 v : rotv5 0 v = v.
Proof. unfold rotv5. cbn [skipn firstn]. apply app_nil_r. Qed.

Lemma f1_round_length v t w : length v = 5%nat -> length (f1_round v t w) = 5%nat.
Proof.
  intros H. do 5 (destruct v as [|? v]; [discriminate|]). destruct v; [|discriminate]. reflexivity.
Qed.

Lemma fold_left_map_ (A B C : Type) (f : A -> B -> A) (g : C -> B) l : forall a,
  fold_left f (map g l) a = fold_left (fun a x => f a (g x)) l a.
Proof. induction l as [|x l IH]; intros a; [reflexivity|]. cbn [map fold_left]. apply IH. Qed.

Lemma fold_left_ext_ (A B : Type) (f g : A -> B -> A) : (forall a x, f a x = g a x) ->
  forall l a, fold_left f l a = fold_left g l a.
Proof. intros H. induction l as [|x l IH]; intros a; [reflexivity|]. cbn [fold_left]. rewrite H. apply IH. Qed.

Lemma sha1_rounds_sim Wspec W : (forall j, (j < 80)%nat -> nth j W 0 = nth j Wspec 0) ->
  forall n i v, (i + n <= 80)%nat -> length v = 5%nat ->
  fold_left (fun s t => c1_rnd sha1_kinds_spec s (t / 20) t (nth t W 0)) (seq i n) (rotv5 (i mod 5) v) =
  rotv5 ((i + n) mod 5) (fold_left (fun v t => f1_round v t (nth t Wspec 0)) (seq i n) v).
Proof.
  intros HW. induction n as [|n IH]; intros i v Hin Hv.
  - cbn [seq fold_left]. rewrite Nat.add_0_r. reflexivity.
  - cbn [seq fold_left]. assert (Hv' := Hv).
    do 5 (destruct v as [|? v]; [discriminate|]). destruct v; [|discriminate].
    rewrite c1_rnd_sim by lia. rewrite HW by lia.
    replace (i + S n)%nat with (S i + n)%nat by lia.
    replace (i + 1)%nat with (S i) by lia.
    apply IH; [lia|]. apply f1_round_length. exact Hv'.
Qed.

(* ---- schedule ---- *)
Definition f1_wt (E : list N) (t : nat) : N :=
  rotl32 (N.lxor (N.lxor (N.lxor (nth (t - 3) E 0) (nth (t - 8) E 0)) (nth (t - 14) E 0)) (nth (t - 16) E 0)) 1.

Lemma f1_extend_length n : forall W, length (f1_extend n W) = (length W + n)%nat.
Proof.
  induction n as [|n IH]; intros W; cbn [f1_extend]; [lia|].
  rewrite IH, app_length. simpl. lia.
Qed.
Lemma f1_extend_old n : forall W j, (j < length W)%nat -> nth j (f1_extend n W) 0 = nth j W 0.
Proof.
  induction n as [|n IH]; intros W j Hj; cbn [f1_extend]; [reflexivity|].
  rewrite IH by (rewrite app_length; simpl; lia). apply app_nth1. exact Hj.
Qed.
Lemma f1_extend_rec n : forall W t, (16 <= length W)%nat -> (length W <= t < length W + n)%nat ->
  nth t (f1_extend n W) 0 = f1_wt (f1_extend n W) t.
Proof.
  induction n as [|n IH]; intros W t H16 Ht; [lia|]. cbn [f1_extend].
  set (x := rotl32 _ _).
  destruct (Nat.eq_dec t (length W)) as [->|Hne].
  - rewrite f1_extend_old by (rewrite app_length; simpl; lia).
    rewrite app_nth2 by lia. rewrite Nat.sub_diag. cbn [nth].
    unfold f1_wt.
    rewrite !(f1_extend_old n (W ++ [x])) by (rewrite app_length; simpl; lia).
    rewrite !app_nth1 by lia. reflexivity.
  - apply IH; rewrite app_length; simpl; lia.
Qed.

Lemma be32dec_vect_len k : forall bs, length bs = (4 * k)%nat -> length (be32dec_vect bs) = k.
Proof.
  induction k as [|k IH]; intros bs H.
  - destruct bs; [reflexivity|discriminate].
  - do 4 (destruct bs as [|? bs]; [simpl in H; lia|]). cbn [be32dec_vect length]. f_equal.
    apply IH. simpl in H. lia.
Qed.

Section Sched.
  Variable block : list N.
  Hypothesis Hblock : length block = 64%nat.
  Let Wspec := f1_schedule block.

  Definition sched1_ok (t : nat) (W : list N) : Prop :=
    length W = 80%nat /\ forall j, (j < t)%nat -> nth j W 0 = nth j Wspec 0.

  Lemma Wspec1_rec t : (16 <= t < 80)%nat -> nth t Wspec 0 = f1_wt Wspec t.
  Proof.
    intros Ht. unfold Wspec, f1_schedule. apply f1_extend_rec;
      rewrite (be32dec_vect_len 16) by (rewrite Hblock; reflexivity); lia.
  Qed.

  Lemma sched1_init : sched1_ok 16 (be32dec_vect block ++ repeat 0 64).
  Proof.
    assert (length (be32dec_vect block) = 16%nat) as HL
        by (apply be32dec_vect_len; rewrite Hblock; reflexivity).
    split.
    - rewrite app_length, repeat_length, HL. reflexivity.
    - intros j Hj. rewrite app_nth1 by lia. unfold Wspec, f1_schedule.
      rewrite f1_extend_old by lia. reflexivity.
  Qed.

  Lemma sched1_step W t : sched1_ok t W -> (16 <= t < 80)%nat ->
    sched1_ok (S t) (c1_sched_step [3; 8; 14; 16] 1 W t).
  Proof.
    intros [HL HW] Ht. unfold c1_sched_step.
    change (N.to_nat 3) with 3%nat. change (N.to_nat 8) with 8%nat.
    change (N.to_nat 14) with 14%nat. change (N.to_nat 16) with 16%nat.
    rewrite upd_upd, nth_upd_eq by lia.
    split; [rewrite upd_length; exact HL|].
    intros j Hj. destruct (Nat.eq_dec j t) as [->|Hne].
    - rewrite nth_upd_eq by lia. rewrite Wspec1_rec by lia. unfold f1_wt.
      rewrite !HW by lia. reflexivity.
    - rewrite nth_upd_neq by lia. apply HW. lia.
  Qed.

  Lemma sched1_fold : forall n i W, sched1_ok i W -> (16 <= i)%nat -> (i + n <= 80)%nat ->
    sched1_ok (i + n) (fold_left (c1_sched_step [3; 8; 14; 16] 1) (seq i n) W).
  Proof.
    induction n as [|n IH]; intros i W HW H16 Hle; cbn [seq fold_left].
    - rewrite Nat.add_0_r. exact HW.
    - replace (i + S n)%nat with (S i + n)%nat by lia.
      apply IH; [|lia|lia]. apply sched1_step; [exact HW|lia].
  Qed.
End Sched.

Definition T_sha1 := c1_transform sha1_kinds_spec sha1_rounds_spec [3; 8; 14; 16] 1 16 80.

(* M1 for SHA-1 *)
Theorem sha1_transform_eq_compress st block :
  length st = 5%nat -> length block = 64%nat -> T_sha1 st block = f1_compress st block.
Proof.
  intros Hst Hb. unfold T_sha1, c1_transform, f1_compress. f_equal.
  change (N.to_nat 16) with 16%nat. change (N.to_nat 80 - 16)%nat with 64%nat.
  pose proof (sched1_fold block Hb 64 16 _ (sched1_init block Hb) (le_n _) (le_n _)) as [HL HW].
  change (16 + 64)%nat with 80%nat in HW.
  set (W := fold_left (c1_sched_step [3; 8; 14; 16] 1) (seq 16 64) (be32dec_vect block ++ repeat 0 64)) in *.
  unfold sha1_rounds_spec. rewrite fold_left_map_. cbn [fst snd].
  pose proof (sha1_rounds_sim (f1_schedule block) W HW 80 0 st (le_n _) Hst) as H.
  change (0 mod 5)%nat with 0%nat in H. change ((0 + 80) mod 5)%nat with 0%nat in H.
  rewrite !rotv5_0 in H. rewrite <- H.
  apply fold_left_ext_. intros s t. rewrite !Nat2N.id. reflexivity.
Qed.

(* ================= streaming ================= *)
Lemma f1_compress_length st block : length st = 5%nat -> length (f1_compress st block) = 5%nat.
Proof.
  intros H. unfold f1_compress. rewrite map2_length.
  assert (forall n i v, length v = 5%nat ->
            length (fold_left (fun v t => f1_round v t (nth t (f1_schedule block) 0)) (seq i n) v) = 5%nat) as HL.
  { induction n as [|n IH]; intros i v Hv; cbn [seq fold_left]; [exact Hv|].
    apply IH, f1_round_length, Hv. }
  rewrite HL by exact H. rewrite H. reflexivity.
Qed.

Lemma sha1_enc hi lo : hi < M32 -> lo < M32 ->
  be32enc_vect (if true then [hi; lo] else [lo; hi]) = be64enc (hi * M32 + lo).
Proof.
  intros _ Hlo. rewrite be64enc_halves by exact Hlo. unfold be32enc_vect. cbn [flat_map].
  rewrite app_nil_r. reflexivity.
Qed.

Definition upd1 := c32_update T_sha1 true 3 29 63 64.
Definition fin1 (wipe : ctx32 -> ctx32) := c32_final T_sha1 be32enc_vect PAD_spec32 true 56 120 3 29 63 64 wipe.
Definition init1 := c32_init H0_1 true.
Definition buf1 := c32_buf_oneshot T_sha1 be32enc_vect H0_1 PAD_spec32 true 56 120 3 29 63 64.

Definition SHA1_resume (st : list N) (bits : N) (buf d : list N) : list N :=
  be32enc_vect (md_resume f1_compress be64enc st bits buf d).

(* streaming from ANY well-formed context *)
Theorem sha1_resume_correct wipe c parts : wf32 5 true c ->
  fst (fin1 wipe (fold_left upd1 parts c)) =
  SHA1_resume (c32_state c) (c32_count0 c * M32 + c32_count1 c) (c32_buf c) (concat parts).
Proof.
  intros H. unfold fin1, upd1, SHA1_resume.
  apply (md32_resume_correct T_sha1 f1_compress 5 be32enc_vect be64enc H0_1 true
           sha1_enc be64enc_length sha1_transform_eq_compress f1_compress_length wipe c parts H).
Qed.

Lemma wf32_init1 : wf32 5 true init1.
Proof. repeat split; try reflexivity. Qed.

(* M3 for SHA-1 *)
Theorem sha1_streaming_correct_all wipe parts :
  fst (fin1 wipe (fold_left upd1 parts init1)) = SHA1_spec (concat parts).
Proof. rewrite sha1_resume_correct by apply wf32_init1. reflexivity. Qed.

Theorem sha1_streaming_correct wipe parts :
  8 * N.of_nat (length (concat parts)) < 18446744073709551616 ->
  fst (fin1 wipe (fold_left upd1 parts init1)) = SHA1_spec (concat parts).
Proof. intros _. apply sha1_streaming_correct_all. Qed.

Theorem sha1_oneshot_correct m : buf1 m = SHA1_spec m.
Proof.
  unfold buf1, c32_buf_oneshot. fold (fin1 (fun c => c)) init1.
  change (c32_update T_sha1 true 3 29 63 64 init1 m) with (fold_left upd1 [m] init1).
  rewrite sha1_streaming_correct_all. cbn [concat]. rewrite app_nil_r. reflexivity.
Qed.

(* the digest does not depend on what Final does to the context afterwards *)
Lemma fin1_fst wipe c : fst (fin1 wipe c) = fst (fin1 (fun c => c) c).
Proof. reflexivity. Qed.
Lemma fin1_snd wipe c : snd (fin1 wipe c) = wipe (snd (fin1 (fun c => c) c)).
Proof. reflexivity. Qed.

Lemma SHA1_spec_length m : length (SHA1_spec m) = 20%nat.
Proof.
  unfold SHA1_spec, md_hash. rewrite be32enc_vect_length.
  assert (forall bs st, length st = 5%nat -> length (fold_left f1_compress bs st) = 5%nat) as H.
  { induction bs as [|b bs IH]; intros st Hst; [exact Hst|]. cbn [fold_left].
    apply IH, f1_compress_length, Hst. }
  rewrite H by reflexivity. reflexivity.
Qed.
