(* Word-level vocabulary shared by the hash models and the hash specs: 32/64-bit wrap-around
   arithmetic on N, rotations, the sysendian.h byte codecs, list update.  Definitions only
   (their arithmetic meaning is proved in WordsProofs.v). *)
From Coq Require Import NArith List.
Import ListNotations.
Local Open Scope N_scope.

Definition mask32 : N := 4294967295.
Definition mask64 : N := 18446744073709551615.
Definition w32 (x : N) : N := N.land x mask32.          (* truncation to uint32_t *)
Definition w64 (x : N) : N := N.land x mask64.          (* truncation to uint64_t *)
Definition add32 (a b : N) : N := w32 (a + b).
Definition not32 (x : N) : N := N.lxor x mask32.        (* ~x on a uint32_t *)
Definition shr (x n : N) : N := N.shiftr x n.
(* ((x >> n) | (x << (32 - n))) and ((x << n) | (x >> (32 - n))) on uint32_t *)
Definition rotr32 (x n : N) : N := N.lor (N.shiftr x n) (w32 (N.shiftl x (32 - n))).
Definition rotl32 (x n : N) : N := N.lor (w32 (N.shiftl x n)) (N.shiftr x (32 - n)).

(* util/sysendian.h *)
Definition byte0 (x : N) : N := N.land x 255.
Definition be32enc (x : N) : list N :=
  [byte0 (N.shiftr x 24); byte0 (N.shiftr x 16); byte0 (N.shiftr x 8); byte0 x].
Definition le32enc (x : N) : list N :=
  [byte0 x; byte0 (N.shiftr x 8); byte0 (N.shiftr x 16); byte0 (N.shiftr x 24)].
Definition be64enc (x : N) : list N :=
  [byte0 (N.shiftr x 56); byte0 (N.shiftr x 48); byte0 (N.shiftr x 40); byte0 (N.shiftr x 32);
   byte0 (N.shiftr x 24); byte0 (N.shiftr x 16); byte0 (N.shiftr x 8); byte0 x].
Definition be32dec4 (p0 p1 p2 p3 : N) : N :=
  N.lor (N.lor (N.lor p3 (N.shiftl p2 8)) (N.shiftl p1 16)) (N.shiftl p0 24).
Definition le32dec4 (p0 p1 p2 p3 : N) : N :=
  N.lor (N.lor (N.lor p0 (N.shiftl p1 8)) (N.shiftl p2 16)) (N.shiftl p3 24).

(* the *_vect helpers of sha256.c / sha1.c / md5.c *)
Definition be32enc_vect (ws : list N) : list N := flat_map be32enc ws.
Definition le32enc_vect (ws : list N) : list N := flat_map le32enc ws.
Fixpoint be32dec_vect (bs : list N) : list N :=
  match bs with
  | p0 :: p1 :: p2 :: p3 :: r => be32dec4 p0 p1 p2 p3 :: be32dec_vect r
  | _ => []
  end.
Fixpoint le32dec_vect (bs : list N) : list N :=
  match bs with
  | p0 :: p1 :: p2 :: p3 :: r => le32dec4 p0 p1 p2 p3 :: le32dec_vect r
  | _ => []
  end.

(* a[i] = v on a list standing for a fixed-size array (no effect outside the array) *)
Fixpoint upd (l : list N) (i : nat) (v : N) {struct l} : list N :=
  match l, i with
  | [], _ => []
  | _ :: r, O => v :: r
  | x :: r, S j => x :: upd r j v
  end.

Fixpoint map2 (f : N -> N -> N) (a b : list N) {struct a} : list N :=
  match a, b with
  | x :: a', y :: b' => f x y :: map2 f a' b'
  | _, _ => []
  end.

Definition xor_bytes (a b : list N) : list N := map2 N.lxor a b.
Definition all_zero (l : list N) : bool := forallb (fun b => N.eqb b 0) l.
