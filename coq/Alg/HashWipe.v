(* C20, hash part: INTERPRETER of the statement lists the translator regenerates from the bodies of
   the *_Final* functions of alg/sha256.c, alg/sha1.c, alg/md5.c (Gen/Repo_hash.v: hash_final_fns)
   and of the struct layouts regenerated from the headers (hash_structs).

   The translator READS each statement (or refuses the whole file, in which case the pinned output
   is used and the byte-level observation of the binary alone decides): it says which object an
   argument denotes - the context object, one of its fields, or no part of it - after resolving
   parentheses, pointer casts and single-assignment temporaries, and gives every wipe size as a
   product of factors: integer literals, sizeof(T) (also for sizeof( *p ) through p's declared
   pointee type, sizeof(local array) = sizeof(element) * n, sizeof(ctx->f)), sizeof(a pointer).
   This file gives those readings their MEANING, by VALUE: sizes and field offsets are computed
   from the regenerated layouts (natural alignment, LP64 scalar sizes below).

   The interpreter computes, for one function, which LEAF FIELDS of its context object are known
   to hold only zero bytes when the function returns (the "zero set", a list of field paths):
     - nothing is known on entry;
     - a guarded wipe (kind 1: it may not run) forgets everything;
     - insecure_memzero(O, SZ) with O the context object or one of its fields: every leaf that lies
       wholly inside the first min(SZ, size of O) bytes of O becomes zero - so a size >= the object's
       size covers it, the size of a pointer (8) or any smaller size does not; with O no part of
       the context (stack scratch, another parameter): no effect, wherever it stands in the body;
     - a call of another function of the regenerated table (an inner XXX_Final / XXX_Final_internal)
       on the context or a field of the callee's context type: that sub-object first loses what was
       known about it (the callee computes in it), then gains the callee's zero set (recursively);
     - any other call (XXX_Pad, XXX_Update, be32enc_vect ...): every argument that denotes the
       context or one of its fields loses what was known about it.
   The final functions of the models (HashRepo.v) zero a field of the context the computation left
   behind exactly when its path is in the zero set of the corresponding C function.
   Definitions only. *)
From Coq Require Import NArith List Bool String.
From LCP Require Import Alg.Words Alg.Sha256Model Alg.MD32Model.
Import ListNotations.
Local Open Scope string_scope.

Definition wfield : Type := (string * string * N)%type.          (* element type, name, element count *)
Definition wstructs : Type := list (string * list wfield).
Definition wobj : Type := (N * string)%type.                      (* 0 the context, 1 its field f, else none of it *)
Definition wfactor : Type := (N * string * N)%type.               (* 0 literal n, 1 sizeof(T), 2 sizeof(pointer) *)
Definition wstmt : Type := (N * string * list wobj * list wfactor)%type.
Definition wfn : Type := (string * (string * string * N) * list wstmt)%type.
                                                                  (* name, (ctx struct, ctx name, its position), body *)
Definition wpath : Type := list string.                           (* field names from the context object down *)

Fixpoint wlookup {A : Type} (k : string) (l : list (string * A)) : option A :=
  match l with
  | [] => None
  | (k', v) :: r => if k =? k' then Some v else wlookup k r
  end.

Definition wlookup_fn (k : string) (F : list wfn) : option ((string * string * N) * list wstmt) :=
  wlookup k (map (fun f : wfn => let '(n, sg, body) := f in (n, (sg, body))) F).

Fixpoint wpath_eqb (a b : wpath) : bool :=
  match a, b with
  | [], [] => true
  | x :: a', y :: b' => (x =? y) && wpath_eqb a' b'
  | _, _ => false
  end.

(* p is a prefix of q *)
Fixpoint wprefix (p q : wpath) : bool :=
  match p, q with
  | [], _ => true
  | x :: p', y :: q' => (x =? y) && wprefix p' q'
  | _ :: _, [] => false
  end.

(* scalar sizes (= alignments) of the LP64 target the correspondence run compiles for *)
Definition wprim : list (string * N) :=
  [("char", 1%N); ("unsigned char", 1%N); ("uint8_t", 1%N); ("uint16_t", 2%N); ("uint32_t", 4%N);
   ("int", 4%N); ("unsigned int", 4%N); ("uint64_t", 8%N); ("size_t", 8%N)].
Definition wptr_size : N := 8%N.

Definition wround_up (x a : N) : N := ((x + a - 1) / a * a)%N.

(* (size, alignment) of type T; None if T is neither a scalar above nor a listed struct *)
Fixpoint wsizeof (fuel : nat) (L : wstructs) (T : string) : option (N * N) :=
  match wlookup T wprim with
  | Some s => Some (s, s)
  | None =>
    match fuel with
    | O => None
    | Datatypes.S f =>
      match wlookup T L with
      | None => None
      | Some fs =>
        match fold_left (fun (acc : option (N * N)) (fd : wfield) =>
                           let '(ft, _, cnt) := fd in
                           match acc, wsizeof f L ft with
                           | Some (off, al), Some (s, a) => Some ((wround_up off a + s * cnt)%N, N.max al a)
                           | _, _ => None
                           end) fs (Some (0%N, 1%N)) with
        | Some (off, al) => Some (wround_up off al, al)
        | None => None
        end
      end
    end
  end.

(* the fields of struct T with their offsets: (element type, name, count, offset, total size) *)
Definition wfields_at (L : wstructs) (T : string) : list (string * string * N * N * N) :=
  match wlookup T L with
  | None => []
  | Some fs =>
    snd (fold_left (fun (acc : N * list (string * string * N * N * N)) (fd : wfield) =>
                      let '(ft, fname, cnt) := fd in
                      match wsizeof 8 L ft with
                      | Some (s, a) => let o := wround_up (fst acc) a in
                                       ((o + s * cnt)%N, app (snd acc) [(ft, fname, cnt, o, (s * cnt)%N)])
                      | None => acc
                      end) fs (0%N, []))
  end.

(* the leaf fields of an object of type T placed at offset base: (path, offset, size).  A field of a
   scalar type (an array of them included) is one leaf; a single field of a listed struct type is
   descended into; arrays of structs and unknown types have no leaves (nothing can be claimed). *)
Fixpoint wleaves_at (fuel : nat) (L : wstructs) (T : string) (base : N) : list (wpath * N * N) :=
  match fuel with
  | O => []
  | Datatypes.S f =>
    flat_map (fun fd : string * string * N * N * N =>
                let '(ft, fname, cnt, o, sz) := fd in
                match wlookup ft wprim with
                | Some _ => [([fname], (base + o)%N, sz)]
                | None => if (cnt =? 1)%N
                          then map (fun lf : wpath * N * N => let '(pa, lo, ls) := lf in (fname :: pa, lo, ls))
                                   (wleaves_at f L ft (base + o)%N)
                          else []
                end) (wfields_at L T)
  end.

Definition wleaves (L : wstructs) (T : string) : list wpath :=
  map (fun lf : wpath * N * N => fst (fst lf)) (wleaves_at 8 L T 0%N).

(* value of a size: the product of its factors; None if a type is unknown *)
Fixpoint wsize_value (L : wstructs) (fs : list wfactor) : option N :=
  match fs with
  | [] => Some 1%N
  | (k, T, n) :: r =>
    match (if (k =? 0)%N then Some n
           else if (k =? 1)%N then option_map fst (wsizeof 8 L T)
           else if (k =? 2)%N then Some wptr_size else None), wsize_value L r with
    | Some a, Some b => Some (a * b)%N
    | _, _ => None
    end
  end.

(* where an object lies inside a context of struct type T: (path, type, count, offset, size) *)
Definition wlocate (L : wstructs) (T : string) (o : wobj) : option (wpath * string * N * N * N) :=
  let '(k, f) := o in
  if (k =? 0)%N then
    match wsizeof 8 L T with Some (s, _) => Some ([], T, 1%N, 0%N, s) | None => None end
  else if (k =? 1)%N then
    fold_right (fun (fd : string * string * N * N * N) rest =>
                  let '(ft, fname, cnt, off, sz) := fd in
                  if f =? fname then Some ([fname], ft, cnt, off, sz) else rest) None (wfields_at L T)
  else None.

Definition wforget (pa : wpath) (Z : list wpath) : list wpath := filter (fun q => negb (wprefix pa q)) Z.

Definition wforget_args (L : wstructs) (T : string) (args : list wobj) (Z : list wpath) : list wpath :=
  fold_left (fun Z a => match wlocate L T a with Some (pa, _, _, _, _) => wforget pa Z | None => Z end) args Z.

(* the leaves of the context (of type T) that lie wholly inside [off, off + len) *)
Definition wleaves_within (L : wstructs) (T : string) (off len : N) : list wpath :=
  map (fun lf : wpath * N * N => fst (fst lf))
      (filter (fun lf : wpath * N * N => let '(_, lo, ls) := lf in (off <=? lo)%N && (lo + ls <=? off + len)%N)
              (wleaves_at 8 L T 0%N)).

Definition wstep (callee_zero : string -> list wpath) (L : wstructs) (F : list wfn) (T : string)
                 (Z : list wpath) (st : wstmt) : list wpath :=
  let '(kind, callee, args, size) := st in
  if (kind =? 2)%N then
    match args with
    | [o] =>
      match wlocate L T o, wsize_value L size with
      | Some (_, _, _, off, osz), Some n => app (wleaves_within L T off (N.min n osz)) Z
      | _, _ => Z
      end
    | _ => Z
    end
  else if (kind =? 0)%N then
    let Z1 := wforget_args L T args Z in
    match wlookup_fn callee F with
    | Some ((cT, _, ci), _) =>
      match wlocate L T (nth (N.to_nat ci) args (2%N, "")) with
      | Some (pa, ty, cnt, _, _) =>
        if (ty =? cT) && (cnt =? 1)%N then app (map (app pa) (callee_zero callee)) Z1 else Z1
      | None => Z1
      end
    | None => Z1
    end
  else [].

(* the zero set of the context object of function fname when it returns *)
Fixpoint wzero_after (fuel : nat) (L : wstructs) (F : list wfn) (fname : string) : list wpath :=
  match fuel with
  | O => []
  | Datatypes.S f =>
    match wlookup_fn fname F with
    | None => []
    | Some ((T, _, _), body) => fold_left (wstep (wzero_after f L F) L F T) body []
    end
  end.

Definition wcovered (Z : list wpath) (q : wpath) : bool := existsb (wpath_eqb q) Z.

(* every leaf of fname's context struct, as laid out in the header, is zero on return *)
Definition wipes_whole_ctx (L : wstructs) (F : list wfn) (fname : string) : bool :=
  match wlookup_fn fname F with
  | None => false
  | Some ((T, _, _), _) =>
    negb (N.of_nat (List.length (wleaves L T)) =? 0)%N &&
    forallb (wcovered (wzero_after 8 L F fname)) (wleaves L T)
  end.

(* ---- applying a zero set to the model's context records (pre = path of the record inside the
   object the zero set is about: [] for XXX_Final, ["ictx"] / ["octx"] for HMAC_XXX_Final) ---- *)
Definition wzeros (l : list N) : list N := map (fun _ => 0%N) l.

Definition mask256 (Z : list wpath) (pre : wpath) (c : ctx256) : ctx256 :=
  mk256 (if wcovered Z (app pre ["state"]) then wzeros (c256_state c) else c256_state c)
        (if wcovered Z (app pre ["count"]) then 0%N else c256_count c)
        (if wcovered Z (app pre ["buf"]) then wzeros (c256_buf c) else c256_buf c).

(* SHA1_CTX / MD5_CTX: uint32_t count[2] is ONE field *)
Definition mask32 (Z : list wpath) (pre : wpath) (c : ctx32) : ctx32 :=
  mk32 (if wcovered Z (app pre ["state"]) then wzeros (c32_state c) else c32_state c)
       (if wcovered Z (app pre ["count"]) then 0%N else c32_count0 c)
       (if wcovered Z (app pre ["count"]) then 0%N else c32_count1 c)
       (if wcovered Z (app pre ["buf"]) then wzeros (c32_buf c) else c32_buf c).
