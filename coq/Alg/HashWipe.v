(* C20, hash part: INTERPRETER of the statement lists the translator regenerates from the bodies of
   the *_Final* functions of alg/sha256.c, alg/sha1.c, alg/md5.c (Gen/Repo_hash.v: hash_final_fns)
   and of the struct layouts regenerated from the headers (hash_structs).

   The interpreter computes, for one function, which LEAF FIELDS of its context object are known
   to hold only zero bytes when the function returns (the "zero set", a list of field paths):
     - nothing is known on entry;
     - a statement that is not a plain call (conditional, loop, assignment, return ...) forgets
       everything (the model cannot know what it did, nor whether later statements are reached);
     - insecure_memzero(O, SZ): if O denotes the context object or one of its fields (texts
       `ctx`, `&ctx->f`, `ctx->f` for the function's own parameter name) AND SZ is textually
       sizeof(<the struct / element type of that object>) for a single element, or sizeof( *ctx )
       for the whole object, every leaf under O becomes zero.  Any other size text (a literal, the
       size of the POINTER sizeof(ctx), another type) zeroes nothing: the model cannot know how much
       of the object it covers;
     - a call of another function of the regenerated table (an inner XXX_Final / XXX_Final_internal)
       on a sub-object of the right struct type: the sub-object first loses what was known about it
       (the callee computes in it), then gains the callee's own zero set (computed recursively);
     - any other call (XXX_Pad, XXX_Update, be32enc_vect ...): every argument that denotes the
       context or one of its fields loses what was known about it.
   The final functions of the models (HashRepo.v) zero a field of the context the computation left
   behind exactly when its path is in the zero set of the corresponding C function.
   Definitions only. *)
From Coq Require Import NArith List Bool String.
From LCP Require Import Alg.Words Alg.Sha256Model Alg.MD32Model.
Import ListNotations.
Local Open Scope string_scope.

Definition wfield : Type := (string * string * N)%type.          (* element type, name, element count *)
Definition wstructs : Type := list (string * list wfield).
Definition wstmt : Type := (N * string * list string)%type.      (* 0 = plain call f(args); else opaque *)
Definition wfn : Type := (string * (string * string * N) * list wstmt)%type.
                                                                  (* name, (ctx struct, ctx parameter, its position), body *)
Definition wpath : Type := list string.                           (* field names from the context object down *)

Fixpoint wlookup {A : Type} (k : string) (l : list (string * A)) : option A :=
  match l with
  | [] => None
  | (k', v) :: r => if k =? k' then Some v else wlookup k r
  end.

Definition wlookup_fn (k : string) (F : list wfn) : option ((string * string * N) * list wstmt) :=
  wlookup k (map (fun f : wfn => let '(n, sg, body) := f in (n, (sg, body))) F).

Fixpoint wpath_eqb (a b : wpath) : bool :=
  match a, b with
  | [], [] => true
  | x :: a', y :: b' => (x =? y) && wpath_eqb a' b'
  | _, _ => false
  end.

(* p is a prefix of q *)
Fixpoint wprefix (p q : wpath) : bool :=
  match p, q with
  | [], _ => true
  | x :: p', y :: q' => (x =? y) && wprefix p' q'
  | _ :: _, [] => false
  end.

(* the leaf fields of an object of type T (a type that is not a listed struct is a leaf) *)
Fixpoint wleaves (fuel : nat) (L : wstructs) (T : string) : list wpath :=
  match fuel with
  | O => [[]]
  | Datatypes.S f =>
    match wlookup T L with
    | None => [[]]
    | Some fs => flat_map (fun fd : wfield => let '(ft, fname, _) := fd in map (cons fname) (wleaves f L ft)) fs
    end
  end.

(* what the argument text e denotes in a function whose context parameter is  T * p :
   (path, element type, element count) *)
Definition wresolve (L : wstructs) (T p e : string) : option (wpath * string * N) :=
  if e =? p then Some ([], T, 1%N)
  else
    match wlookup T L with
    | None => None
    | Some fs =>
      fold_right (fun (fd : wfield) (rest : option (wpath * string * N)) =>
                    let '(ft, fname, cnt) := fd in
                    if (e =? "&" ++ p ++ "->" ++ fname) || (e =? p ++ "->" ++ fname)
                    then Some ([fname], ft, cnt) else rest) None fs
    end.

(* does the size text cover the whole of the object (e : ty[cnt]) ? *)
Definition wsize_covers (p e ty : string) (cnt : N) (sz : string) : bool :=
  ((cnt =? 1)%N && (sz =? "sizeof(" ++ ty ++ ")")) || ((e =? p) && (sz =? "sizeof(*" ++ p ++ ")")).

Definition wforget (pa : wpath) (Z : list wpath) : list wpath := filter (fun q => negb (wprefix pa q)) Z.

Definition wforget_args (L : wstructs) (T p : string) (args : list string) (Z : list wpath) : list wpath :=
  fold_left (fun Z a => match wresolve L T p a with Some (pa, _, _) => wforget pa Z | None => Z end) args Z.

Definition wstep (callee_zero : string -> list wpath) (L : wstructs) (F : list wfn) (T p : string)
                 (Z : list wpath) (st : wstmt) : list wpath :=
  let '(kind, callee, args) := st in
  if negb (kind =? 0)%N then []
  else if callee =? "insecure_memzero" then
    match args with
    | [o; sz] =>
      match wresolve L T p o with
      | Some (pa, ty, cnt) =>
        if wsize_covers p o ty cnt sz then app (map (app pa) (wleaves 8 L ty)) Z else Z
      | None => Z
      end
    | _ => Z
    end
  else
    let Z1 := wforget_args L T p args Z in
    match wlookup_fn callee F with
    | Some ((cT, _, ci), _) =>
      match wresolve L T p (nth (N.to_nat ci) args "") with
      | Some (pa, ty, cnt) =>
        if (ty =? cT) && (cnt =? 1)%N then app (map (app pa) (callee_zero callee)) Z1 else Z1
      | None => Z1
      end
    | None => Z1
    end.

(* the zero set of the context object of function fname when it returns *)
Fixpoint wzero_after (fuel : nat) (L : wstructs) (F : list wfn) (fname : string) : list wpath :=
  match fuel with
  | O => []
  | Datatypes.S f =>
    match wlookup_fn fname F with
    | None => []
    | Some ((T, p, _), body) => fold_left (wstep (wzero_after f L F) L F T p) body []
    end
  end.

Definition wcovered (Z : list wpath) (q : wpath) : bool := existsb (wpath_eqb q) Z.

(* every leaf of fname's context struct, as laid out in the header, is zero on return *)
Definition wipes_whole_ctx (L : wstructs) (F : list wfn) (fname : string) : bool :=
  match wlookup_fn fname F with
  | None => false
  | Some ((T, _, _), _) => forallb (wcovered (wzero_after 8 L F fname)) (wleaves 8 L T)
  end.

(* ---- applying a zero set to the model's context records (pre = path of the record inside the
   object the zero set is about: [] for XXX_Final, ["ictx"] / ["octx"] for HMAC_XXX_Final) ---- *)
Definition wzeros (l : list N) : list N := map (fun _ => 0%N) l.

Definition mask256 (Z : list wpath) (pre : wpath) (c : ctx256) : ctx256 :=
  mk256 (if wcovered Z (app pre ["state"]) then wzeros (c256_state c) else c256_state c)
        (if wcovered Z (app pre ["count"]) then 0%N else c256_count c)
        (if wcovered Z (app pre ["buf"]) then wzeros (c256_buf c) else c256_buf c).

(* SHA1_CTX / MD5_CTX: uint32_t count[2] is ONE field *)
Definition mask32 (Z : list wpath) (pre : wpath) (c : ctx32) : ctx32 :=
  mk32 (if wcovered Z (app pre ["state"]) then wzeros (c32_state c) else c32_state c)
       (if wcovered Z (app pre ["count"]) then 0%N else c32_count0 c)
       (if wcovered Z (app pre ["count"]) then 0%N else c32_count1 c)
       (if wcovered Z (app pre ["buf"]) then wzeros (c32_buf c) else c32_buf c).
