(* The HMAC model (HmacModel.v, the text shared by sha256.c / sha1.c / md5.c) equals RFC 2104,
   for every key length (both sides of the 64-byte block, hashed-key branch included) and every
   partition of the message - generic in a hash whose streaming interface is proved equal to a
   function H on whole messages. *)
From Coq Require Import Arith NArith ZArith List Lia ZifyNat ZifyN.
From LCP Require Import Alg.Words Alg.WordsProofs Alg.HmacSpec Alg.HmacModel.
Import ListNotations.
Local Open Scope N_scope.

Lemma xor_prefix_repeat v n : forall K, (length K <= n)%nat ->
  xor_prefix (repeat v n) K = map (fun b => N.lxor b v) (K ++ repeat 0 (n - length K)).
Proof.
  induction n as [|n IH]; intros K H.
  - destruct K; [reflexivity|simpl in H; lia].
  - destruct K as [|k K].
    + cbn [xor_prefix repeat app length Nat.sub map]. rewrite N.lxor_0_l. f_equal.
      clear. induction n as [|n IH]; [reflexivity|]. cbn [repeat map]. rewrite N.lxor_0_l. f_equal. exact IH.
    + cbn [xor_prefix repeat app length Nat.sub map]. rewrite N.lxor_comm. f_equal.
      apply IH. simpl in H. lia.
Qed.

Section HmacProofs.
  Variable ctxT : Type.
  Variable h_init : ctxT.
  Variable h_update : ctxT -> list N -> ctxT.
  Variable h_final : ctxT -> list N * ctxT.
  Variables h_wipe_i h_wipe_o : ctxT -> ctxT.
  Variable H : list N -> list N.
  Variable dlen : nat.
  Hypothesis Hstream : forall parts, fst (h_final (fold_left h_update parts h_init)) = H (concat parts).
  Hypothesis Hlen : forall m, length (H m) = dlen.
  Hypothesis Hdlen : (dlen <= 64)%nat.

  Let hinit := hmac_init ctxT h_init h_update h_final 64 (N.of_nat dlen) 54 92.
  Let hupdate := hmac_update ctxT h_update.
  Let hfinal_internal := hmac_final_internal ctxT h_update h_final (N.of_nat dlen).
  Let hfinal := hmac_final ctxT h_update h_final h_wipe_i h_wipe_o (N.of_nat dlen).
  Let hbuf := hmac_buf ctxT h_init h_update h_final 64 (N.of_nat dlen) 54 92 (N.of_nat dlen).

  Definition K0pad (v : N) (K : list N) : list N := map (fun b => N.lxor b v) (hmac_K0 H K).

  Lemma hash_one m : fst (h_final (h_update h_init m)) = H m.
  Proof.
    pose proof (Hstream [m]) as E. cbn [fold_left concat] in E. rewrite app_nil_r in E. exact E.
  Qed.

  Lemma firstn_dlen m : firstn dlen (H m) = H m.
  Proof. rewrite <- (Hlen m). apply firstn_all. Qed.

  Lemma hmac_init_eq K :
    hinit K = mkhmac ctxT (h_update h_init (K0pad 54 K)) (h_update h_init (K0pad 92 K)).
  Proof.
    unfold hinit, hmac_init, K0pad, hmac_K0, hmac_pad.
    change (N.to_nat 64) with 64%nat.
    destruct (N.ltb_spec 64 (N.of_nat (length K))) as [Hlong|Hshort];
      destruct (Nat.ltb_spec 64 (length K)) as [Hl|Hs]; try lia.
    - rewrite hash_one. rewrite Nat2N.id.
      rewrite firstn_dlen.
      rewrite !xor_prefix_repeat by (rewrite Hlen; exact Hdlen). reflexivity.
    - rewrite Nat2N.id, firstn_all.
      rewrite !xor_prefix_repeat by exact Hs. reflexivity.
  Qed.

  Lemma hmac_updates_ictx parts : forall c,
    hm_ictx ctxT (fold_left hupdate parts c) = fold_left h_update parts (hm_ictx ctxT c).
  Proof. induction parts as [|p ps IH]; intros c; [reflexivity|]. cbn [fold_left]. rewrite IH. reflexivity. Qed.
  Lemma hmac_updates_octx parts : forall c,
    hm_octx ctxT (fold_left hupdate parts c) = hm_octx ctxT c.
  Proof. induction parts as [|p ps IH]; intros c; [reflexivity|]. cbn [fold_left]. rewrite IH. reflexivity. Qed.

  Lemma hmac_final_internal_fst c :
    fst (hfinal_internal c) =
    fst (h_final (h_update (hm_octx ctxT c) (firstn dlen (fst (h_final (hm_ictx ctxT c)))))).
  Proof.
    unfold hfinal_internal, hmac_final_internal. rewrite Nat2N.id.
    destruct (h_final (hm_ictx ctxT c)) as [ihash ic]. cbn [fst].
    destruct (h_final (h_update (hm_octx ctxT c) (firstn dlen ihash))) as [dg oc]. reflexivity.
  Qed.

  (* M4, on the internal Final (the one PBKDF2 and HMAC_XXX_Buf use) *)
  Theorem hmac_internal_correct K parts :
    fst (hfinal_internal (fold_left hupdate parts (hinit K))) = HMAC_spec H K (concat parts).
  Proof.
    rewrite hmac_final_internal_fst, hmac_updates_ictx, hmac_updates_octx, hmac_init_eq.
    cbn [hm_ictx hm_octx].
    change (fold_left h_update parts (h_update h_init (K0pad 54 K)))
      with (fold_left h_update (K0pad 54 K :: parts) h_init).
    rewrite Hstream. cbn [concat].
    rewrite firstn_dlen.
    change (h_update (h_update h_init (K0pad 92 K)) (H (K0pad 54 K ++ concat parts)))
      with (fold_left h_update [K0pad 92 K; H (K0pad 54 K ++ concat parts)] h_init).
    rewrite Hstream. cbn [concat]. rewrite app_nil_r. reflexivity.
  Qed.

  (* M4 *)
  Theorem hmac_correct K parts :
    fst (hfinal (fold_left hupdate parts (hinit K))) = HMAC_spec H K (concat parts).
  Proof.
    unfold hfinal, hmac_final. rewrite <- hmac_internal_correct. unfold hfinal_internal.
    destruct (hmac_final_internal ctxT h_update h_final (N.of_nat dlen) (fold_left hupdate parts (hinit K))).
    reflexivity.
  Qed.

  Theorem hmac_buf_correct K m : hbuf K m = HMAC_spec H K m.
  Proof.
    unfold hbuf, hmac_buf.
    pose proof (hmac_internal_correct K [m]) as E. cbn [fold_left concat] in E.
    rewrite app_nil_r in E. exact E.
  Qed.

  Lemma hmac_final_snd c :
    snd (hfinal c) = mkhmac ctxT (h_wipe_i (snd (h_final (hm_ictx ctxT c))))
                            (h_wipe_o (snd (h_final (h_update (hm_octx ctxT c)
                                     (firstn dlen (fst (h_final (hm_ictx ctxT c)))))))).
  Proof.
    unfold hfinal, hmac_final, hmac_final_internal. rewrite Nat2N.id.
    destruct (h_final (hm_ictx ctxT c)) as [ihash ic]. cbn [fst snd].
    destruct (h_final (h_update (hm_octx ctxT c) (firstn dlen ihash))) as [dg oc]. reflexivity.
  Qed.

  Lemma HMAC_spec_length K m : length (HMAC_spec H K m) = dlen.
  Proof. unfold HMAC_spec. apply Hlen. Qed.
End HmacProofs.
