(* GF(2) polynomial algebra behind CRC32C: long division as a Horner fold, linearity, and the
   link between the normal-order remainder and the reflected shift register. *)
From Coq Require Import Arith NArith List Lia Bool Btauto.
From LCP Require Import Base.Sweep Alg.GF2Poly Alg.Crc32c.
Import ListNotations.
Local Open Scope N_scope.

(* ------------------------------------------------------------------ *)
(* bit-level helpers                                                   *)
(* ------------------------------------------------------------------ *)
Ltac xor_solve :=
  apply N.bits_inj; intro; repeat rewrite N.lxor_spec;
  repeat match goal with |- context [N.testbit 0 ?i] => rewrite (N.bits_0 i) end; btauto.

Lemma fold_left_cons {A B} (f : A -> B -> A) b l a : fold_left f (b :: l) a = fold_left f l (f a b).
Proof. reflexivity. Qed.
Lemma fold_left_nil {A B} (f : A -> B -> A) a : fold_left f [] a = a.
Proof. reflexivity. Qed.
Lemma length_cons {A} (b : A) l : length (b :: l) = S (length l).
Proof. reflexivity. Qed.

Lemma lt_pow2_of_bits x n : (forall i, n <= i -> N.testbit x i = false) -> x < 2 ^ n.
Proof.
  intros H. assert (x = x mod 2 ^ n) as E.
  { apply N.bits_inj. intro i. destruct (N.lt_ge_cases i n) as [L|G].
    - rewrite N.mod_pow2_bits_low by exact L. reflexivity.
    - rewrite N.mod_pow2_bits_high by exact G. apply H, G. }
  rewrite E. apply N.mod_lt. apply N.pow_nonzero. discriminate.
Qed.

Lemma bits_of_lt_pow2 x n i : x < 2 ^ n -> n <= i -> N.testbit x i = false.
Proof.
  intros H G. destruct (N.eq_dec x 0) as [->|Hx]; [apply N.bits_0|].
  apply N.bits_above_log2. apply N.lt_le_trans with n; [|exact G].
  apply N.log2_lt_pow2; [lia|exact H].
Qed.

Lemma lxor_lt_pow2 a b n : a < 2 ^ n -> b < 2 ^ n -> N.lxor a b < 2 ^ n.
Proof.
  intros Ha Hb. apply lt_pow2_of_bits. intros i Hi.
  rewrite N.lxor_spec, (bits_of_lt_pow2 a n i Ha Hi), (bits_of_lt_pow2 b n i Hb Hi). reflexivity.
Qed.

Lemma double_shiftl a : N.double a = N.shiftl a 1.
Proof. destruct a; reflexivity. Qed.

Lemma double_lxor a b : N.double (N.lxor a b) = N.lxor (N.double a) (N.double b).
Proof. rewrite !double_shiftl. apply N.shiftl_lxor. Qed.

Lemma testbit_double_0 a : N.testbit (N.double a) 0 = false.
Proof. rewrite N.double_spec. apply N.testbit_even_0. Qed.

Lemma testbit_double_succ a i : N.testbit (N.double a) (N.succ i) = N.testbit a i.
Proof. rewrite N.double_spec. apply N.testbit_even_succ. lia. Qed.

Lemma b2n_xorb x y : N.b2n (xorb x y) = N.lxor (N.b2n x) (N.b2n y).
Proof. destruct x, y; reflexivity. Qed.

Lemma pshift_in_lxor a b : pshift_in a b = N.lxor (N.double a) (N.b2n b).
Proof. destruct a, b; reflexivity. Qed.

Lemma pshift_in_xor a1 a2 b1 b2 :
  pshift_in (N.lxor a1 a2) (xorb b1 b2) = N.lxor (pshift_in a1 b1) (pshift_in a2 b2).
Proof. rewrite !pshift_in_lxor, double_lxor, b2n_xorb. xor_solve. Qed.

Lemma pshift_in_lt a b n : a < 2 ^ n -> pshift_in a b < 2 ^ N.succ n.
Proof.
  intros H. rewrite N.pow_succ_r'. unfold pshift_in.
  destruct b; [rewrite N.succ_double_spec | rewrite N.double_spec]; lia.
Qed.

Lemma pshift_in_div2 a : a = pshift_in (N.div2 a) (N.odd a).
Proof.
  pose proof (N.div2_odd a) as H. unfold pshift_in.
  destruct (N.odd a); [rewrite N.succ_double_spec | rewrite N.double_spec]; simpl N.b2n in H; lia.
Qed.

(* ------------------------------------------------------------------ *)
(* linear maps on bit masks                                            *)
(* ------------------------------------------------------------------ *)
Definition linear (f : N -> N) : Prop := forall a b, f (N.lxor a b) = N.lxor (f a) (f b).

Lemma linear_0 f : linear f -> f 0 = 0.
Proof.
  intros L. pose proof (L 0 0) as H. rewrite N.lxor_0_l in H.
  rewrite H at 1. apply N.lxor_nilpotent.
Qed.

Lemma linear_compose f g : linear f -> linear g -> linear (fun x => f (g x)).
Proof. intros Lf Lg a b. rewrite Lg, Lf. reflexivity. Qed.

Lemma linear_lxor f g : linear f -> linear g -> linear (fun x => N.lxor (f x) (g x)).
Proof. intros Lf Lg a b. rewrite Lf, Lg. xor_solve. Qed.

(* n-fold application *)
Fixpoint iter_n {A} (n : nat) (f : A -> A) (x : A) : A :=
  match n with O => x | S k => f (iter_n k f x) end.

Lemma linear_iter f n : linear f -> linear (iter_n n f).
Proof.
  intros L. induction n as [|n IH]; intros a b; [reflexivity|].
  cbn [iter_n]. rewrite IH, L. reflexivity.
Qed.

Lemma linear_shiftr k : linear (fun x => N.shiftr x k).
Proof. intros a b. apply N.shiftr_lxor. Qed.

Lemma linear_shiftl k : linear (fun x => N.shiftl x k).
Proof. intros a b. apply N.shiftl_lxor. Qed.

Lemma linear_land m : linear (fun x => N.land x m).
Proof.
  intros a b. apply N.bits_inj. intro i.
  rewrite N.lxor_spec, !N.land_spec, N.lxor_spec. btauto.
Qed.

Lemma iter_comm {A} (f : A -> A) n x : iter_n n f (f x) = f (iter_n n f x).
Proof. induction n as [|n IH]; [reflexivity|]. cbn [iter_n]. rewrite IH. reflexivity. Qed.

Lemma iter_add {A} (f : A -> A) n m x : iter_n (n + m) f x = iter_n n f (iter_n m f x).
Proof. induction n as [|n IH]; [reflexivity|]. cbn [iter_n Nat.add]. rewrite IH. reflexivity. Qed.

(* a number below 2^(n+1) is its low n bits plus, possibly, bit n *)
Lemma split_top_bit x n : x < 2 ^ N.succ n ->
  x = N.lxor (x mod 2 ^ n) (if N.testbit x n then 2 ^ n else 0).
Proof.
  intros H. apply N.bits_inj. intro i. rewrite N.lxor_spec.
  destruct (N.lt_trichotomy i n) as [L|[->|G]].
  - rewrite N.mod_pow2_bits_low by exact L.
    destruct (N.testbit x n); [rewrite N.pow2_bits_false by lia | rewrite N.bits_0]; btauto.
  - rewrite N.mod_pow2_bits_high by lia.
    destruct (N.testbit x n); [rewrite N.pow2_bits_true | rewrite N.bits_0]; reflexivity.
  - rewrite N.mod_pow2_bits_high by lia. rewrite (bits_of_lt_pow2 x (N.succ n) i H) by lia.
    destruct (N.testbit x n); [rewrite N.pow2_bits_false by lia | rewrite N.bits_0]; reflexivity.
Qed.

(* two linear maps that agree on the unit vectors 2^i, i < n, agree below 2^n *)
Lemma linear_ext f g (n : nat) :
  linear f -> linear g ->
  (forall i, i < N.of_nat n -> f (2 ^ i) = g (2 ^ i)) ->
  forall x, x < 2 ^ N.of_nat n -> f x = g x.
Proof.
  intros Lf Lg. induction n as [|n IH]; intros Hb x Hx.
  - simpl in Hx. assert (x = 0) as -> by lia. rewrite (linear_0 f Lf), (linear_0 g Lg). reflexivity.
  - rewrite Nat2N.inj_succ in Hx, Hb.
    rewrite (split_top_bit x (N.of_nat n) Hx). rewrite Lf, Lg. f_equal.
    + apply IH; [intros i Hi; apply Hb; lia|]. apply N.mod_lt, N.pow_nonzero. discriminate.
    + destruct (N.testbit x (N.of_nat n)).
      * apply Hb. lia.
      * rewrite (linear_0 f Lf), (linear_0 g Lg). reflexivity.
Qed.

Lemma linear_ext_sweep f g (n : nat) :
  linear f -> linear g ->
  forallb (fun i => f (2 ^ i) =? g (2 ^ i)) (N_range n) = true ->
  forall x, x < 2 ^ N.of_nat n -> f x = g x.
Proof.
  intros Lf Lg H. apply linear_ext; try assumption.
  intros i Hi. apply N.eqb_eq. exact (sweep_N _ n H i Hi).
Qed.

(* ------------------------------------------------------------------ *)
(* long division as a Horner fold (any modulus)                        *)
(* ------------------------------------------------------------------ *)
Lemma pmod_pshift_in a b m : pmod (pshift_in a b) m = pstep m (pmod a m) b.
Proof.
  destruct a as [|p], b; reflexivity.
Qed.

Lemma pmod_poly_of_bits_from acc bits m :
  pmod (poly_of_bits_from acc bits) m = fold_left (pstep m) bits (pmod acc m).
Proof.
  revert acc. induction bits as [|b r IH]; intros acc; [reflexivity|].
  unfold poly_of_bits_from in *. cbn [fold_left]. rewrite IH, pmod_pshift_in. reflexivity.
Qed.

Lemma poly_of_bits_from_app acc l1 l2 :
  poly_of_bits_from acc (l1 ++ l2) = poly_of_bits_from (poly_of_bits_from acc l1) l2.
Proof. unfold poly_of_bits_from. apply fold_left_app. Qed.

Lemma poly_of_bits_from_zeros acc k :
  poly_of_bits_from acc (repeat false k) = N.shiftl acc (N.of_nat k).
Proof.
  revert acc. induction k as [|k IH]; intros acc.
  - simpl. rewrite N.shiftl_0_r. reflexivity.
  - cbn [repeat]. unfold poly_of_bits_from in *. cbn [fold_left]. rewrite IH.
    cbn [pshift_in]. rewrite double_shiftl, N.shiftl_shiftl. f_equal. lia.
Qed.

Lemma poly_of_bits_from_lt acc bits n :
  acc < 2 ^ n -> poly_of_bits_from acc bits < 2 ^ (n + N.of_nat (length bits)).
Proof.
  revert acc n. induction bits as [|b r IH]; intros acc n H.
  - simpl. rewrite N.add_0_r. exact H.
  - unfold poly_of_bits_from in *. cbn [fold_left length].
    replace (n + N.of_nat (S (length r))) with (N.succ n + N.of_nat (length r)) by lia.
    apply IH. apply pshift_in_lt, H.
Qed.

Lemma poly_of_bits_lt bits : poly_of_bits bits < 2 ^ N.of_nat (length bits).
Proof.
  pose proof (poly_of_bits_from_lt 0 bits 0) as H. rewrite N.add_0_l in H. apply H. simpl. lia.
Qed.

(* xor of two bit strings given over the same index list *)
Lemma poly_of_bits_from_xor {A} (f g : A -> bool) idx a1 a2 :
  poly_of_bits_from (N.lxor a1 a2) (map (fun i => xorb (f i) (g i)) idx) =
  N.lxor (poly_of_bits_from a1 (map f idx)) (poly_of_bits_from a2 (map g idx)).
Proof.
  revert a1 a2. induction idx as [|i r IH]; intros a1 a2; [reflexivity|].
  unfold poly_of_bits_from in *. cbn [map fold_left]. rewrite pshift_in_xor. apply IH.
Qed.

Lemma reflect_linear n : linear (reflect n).
Proof.
  intros a b. unfold reflect, poly_of_bits, nbits_lsb.
  rewrite <- (N.lxor_0_l 0) at 1.
  rewrite <- (poly_of_bits_from_xor (fun i => N.testbit a (N.of_nat i)) (fun i => N.testbit b (N.of_nat i))).
  f_equal. apply map_ext. intros i. apply N.lxor_spec.
Qed.

Lemma nbits_lsb_length n x : length (nbits_lsb n x) = n.
Proof. unfold nbits_lsb. rewrite map_length, seq_length. reflexivity. Qed.

Lemma reflect_lt n x : reflect n x < 2 ^ N.of_nat n.
Proof.
  unfold reflect. pose proof (poly_of_bits_lt (nbits_lsb n x)) as H.
  rewrite nbits_lsb_length in H. exact H.
Qed.

(* ------------------------------------------------------------------ *)
(* division by the Castagnoli polynomial                               *)
(* ------------------------------------------------------------------ *)
Notation P := castagnoli.

(* r * x mod P *)
Definition xtimes (r : N) : N := pstep P r false.
Definition xpow (k : nat) : N -> N := iter_n k xtimes.
Definition poly32 : N := 0x1EDC6F41.

Lemma xtimes_unfold r :
  xtimes r = if N.testbit (N.double r) 32 then N.lxor (N.double r) P else N.double r.
Proof. reflexivity. Qed.

Lemma xpow_O r : xpow 0 r = r.
Proof. reflexivity. Qed.

Lemma xpow_S k r : xpow (S k) r = xtimes (xpow k r).
Proof. reflexivity. Qed.

Lemma xpow_succ_r k r : xpow (S k) r = xpow k (xtimes r).
Proof. unfold xpow. cbn [iter_n]. symmetry. apply iter_comm. Qed.

Lemma xpow_linear_pre : linear xtimes -> forall k, linear (xpow k).
Proof. intros L k. apply linear_iter, L. Qed.

Lemma fold_pstep_zeros k r : fold_left (pstep P) (repeat false k) r = xpow k r.
Proof.
  revert r. induction k as [|k IH]; intros r; [reflexivity|].
  cbn [repeat fold_left]. rewrite IH. fold (xtimes r). rewrite xpow_succ_r. reflexivity.
Qed.

(* keep tactic-level unification from unfolding 32 nested division steps *)
Global Opaque xtimes xpow.

Lemma xtimes_linear : linear xtimes.
Proof.
  intros a b. rewrite !xtimes_unfold, double_lxor, N.lxor_spec.
  destruct (N.testbit (N.double a) 32), (N.testbit (N.double b) 32); cbn [xorb]; xor_solve.
Qed.

Lemma xpow_linear k : linear (xpow k).
Proof. apply xpow_linear_pre, xtimes_linear. Qed.

Lemma pstep_lin r b : pstep P r b = N.lxor (xtimes r) (N.b2n b).
Proof.
  rewrite xtimes_unfold. unfold pstep. change (pdeg P) with 32.
  rewrite pshift_in_lxor, N.lxor_spec.
  replace (N.testbit (N.b2n b) 32) with false by (destruct b; reflexivity).
  rewrite xorb_false_r. destruct (N.testbit (N.double r) 32); xor_solve.
Qed.

Lemma castagnoli_bits_high i : 32 < i -> N.testbit P i = false.
Proof. intros H. apply (bits_of_lt_pow2 P 33); [reflexivity | lia]. Qed.

Lemma xtimes_lt r : r < 2 ^ 32 -> xtimes r < 2 ^ 32.
Proof.
  intros H. apply lt_pow2_of_bits. intros i Hi. rewrite xtimes_unfold.
  assert (forall j, 32 < j -> N.testbit (N.double r) j = false) as Hd.
  { intros j Hj. replace j with (N.succ (N.pred j)) by lia. rewrite testbit_double_succ.
    apply (bits_of_lt_pow2 r 32); [exact H | lia]. }
  destruct (N.testbit (N.double r) 32) eqn:E.
  - rewrite N.lxor_spec. destruct (N.eq_dec i 32) as [->|Hne].
    + rewrite E. reflexivity.
    + rewrite Hd by lia. rewrite castagnoli_bits_high by lia. reflexivity.
  - destruct (N.eq_dec i 32) as [->|Hne]; [exact E | apply Hd; lia].
Qed.

Lemma xtimes_small r : r < 2 ^ 31 -> xtimes r = N.double r.
Proof.
  intros H. rewrite xtimes_unfold. replace 32 with (N.succ 31) at 1 by reflexivity.
  rewrite testbit_double_succ. rewrite (bits_of_lt_pow2 r 31 31 H) by lia. reflexivity.
Qed.

Lemma b2n_lt b : N.b2n b < 2 ^ 32.
Proof. destruct b; reflexivity. Qed.

Lemma pstep_lt r b : r < 2 ^ 32 -> pstep P r b < 2 ^ 32.
Proof. intros H. rewrite pstep_lin. apply lxor_lt_pow2; [apply xtimes_lt, H | apply b2n_lt]. Qed.

Lemma xpow_lt k r : r < 2 ^ 32 -> xpow k r < 2 ^ 32.
Proof. intros H. induction k as [|k IH]; [rewrite xpow_O; exact H|]. rewrite xpow_S. apply xtimes_lt, IH. Qed.

Lemma xpow_0 k : xpow k 0 = 0.
Proof. apply linear_0, xpow_linear. Qed.

Lemma pmod_pos_lt p : pmod_pos p P < 2 ^ 32.
Proof.
  induction p as [q IH|q IH|]; cbn [pmod_pos].
  - apply pstep_lt, IH.
  - apply pstep_lt, IH.
  - reflexivity.
Qed.

Lemma pmod_lt a : pmod a P < 2 ^ 32.
Proof. destruct a as [|p]; [reflexivity | apply pmod_pos_lt]. Qed.

Lemma fold_pstep_lt bits r : r < 2 ^ 32 -> fold_left (pstep P) bits r < 2 ^ 32.
Proof.
  revert r. induction bits as [|b l IH]; intros r H; [exact H|]. cbn [fold_left]. apply IH, pstep_lt, H.
Qed.

Lemma div2_lt a n : a < 2 ^ N.succ n -> N.div2 a < 2 ^ n.
Proof.
  intros H. rewrite N.div2_div. apply N.div_lt_upper_bound; [lia|].
  rewrite N.pow_succ_r' in H. exact H.
Qed.

Lemma pmod_small_n (n : nat) : (n <= 32)%nat -> forall a, a < 2 ^ N.of_nat n -> pmod a P = a.
Proof.
  induction n as [|n IH]; intros Hn a Ha.
  - simpl in Ha. assert (a = 0) as -> by lia. reflexivity.
  - rewrite Nat2N.inj_succ in Ha. pose proof (div2_lt a _ Ha) as Hh.
    pose proof (pshift_in_div2 a) as E. set (h := N.div2 a) in *. set (o := N.odd a) in *.
    rewrite E at 1. rewrite pmod_pshift_in, (IH ltac:(lia) h Hh), pstep_lin, xtimes_small.
    + rewrite <- pshift_in_lxor. symmetry. exact E.
    + apply N.lt_le_trans with (2 ^ N.of_nat n); [exact Hh|]. apply N.pow_le_mono_r; lia.
Qed.

Lemma pmod_small a : a < 2 ^ 32 -> pmod a P = a.
Proof. apply (pmod_small_n 32). lia. Qed.

Lemma pmod_lxor_n (n : nat) : forall a b, a < 2 ^ N.of_nat n -> b < 2 ^ N.of_nat n ->
  pmod (N.lxor a b) P = N.lxor (pmod a P) (pmod b P).
Proof.
  induction n as [|n IH]; intros a b Ha Hb.
  - simpl in Ha, Hb. assert (a = 0) as -> by lia. assert (b = 0) as -> by lia. reflexivity.
  - rewrite Nat2N.inj_succ in Ha, Hb.
    pose proof (div2_lt a _ Ha) as Hha. pose proof (div2_lt b _ Hb) as Hhb.
    pose proof (pshift_in_div2 a) as Ea. pose proof (pshift_in_div2 b) as Eb.
    set (ha := N.div2 a) in *. set (oa := N.odd a) in *.
    set (hb := N.div2 b) in *. set (ob := N.odd b) in *.
    rewrite Ea, Eb. rewrite <- pshift_in_xor. rewrite !pmod_pshift_in, (IH ha hb Hha Hhb).
    rewrite !pstep_lin, xtimes_linear, b2n_xorb. xor_solve.
Qed.

Lemma pmod_lxor a b : pmod (N.lxor a b) P = N.lxor (pmod a P) (pmod b P).
Proof.
  set (n := N.to_nat (N.succ (N.max (N.log2 a) (N.log2 b)))).
  assert (forall x, N.log2 x <= N.max (N.log2 a) (N.log2 b) -> x < 2 ^ N.of_nat n) as Hb.
  { intros x Hx. unfold n. rewrite N2Nat.id. destruct (N.eq_dec x 0) as [->|Hne].
    - apply N.neq_0_lt_0, N.pow_nonzero. discriminate.
    - apply N.log2_lt_pow2; lia. }
  apply (pmod_lxor_n n); apply Hb; lia.
Qed.

Lemma pmod_shiftl x k : pmod (N.shiftl x (N.of_nat k)) P = xpow k (pmod x P).
Proof. rewrite <- poly_of_bits_from_zeros, pmod_poly_of_bits_from. apply fold_pstep_zeros. Qed.

(* feeding the bit b after R, seen 32 places further up *)
Definition astep (T : N) (b : bool) : N := N.lxor (xtimes T) (if b then poly32 else 0).

Lemma xpow32_1 : xpow 32 1 = poly32.
Proof. vm_compute. reflexivity. Qed.

Lemma xpow_b2n b : xpow 32 (N.b2n b) = if b then poly32 else 0.
Proof. destruct b; [apply xpow32_1 | apply xpow_0]. Qed.

(* x^32 * (R * x^n + bits) + S * x^n, reduced, is what the augmented register computes *)
Lemma astep_eq R Sx b :
  astep (N.lxor (xpow 32 R) Sx) b = N.lxor (xpow 32 (pstep P R b)) (xtimes Sx).
Proof.
  unfold astep. rewrite pstep_lin, (xpow_linear 32), xpow_b2n, xtimes_linear.
  rewrite <- (xpow_S 32 R), <- (xpow_succ_r 32 R).
  xor_solve.
Qed.

Lemma horner_shift32 bits : forall R Sx,
  N.lxor (xpow 32 (fold_left (pstep P) bits R)) (xpow (length bits) Sx) =
  fold_left astep bits (N.lxor (xpow 32 R) Sx).
Proof.
  induction bits as [|b l IH]; intros R Sx.
  { rewrite !fold_left_nil. change (length (@nil bool)) with 0%nat. rewrite xpow_O. reflexivity. }
  rewrite !fold_left_cons, length_cons, (xpow_succ_r (length l)), IH. f_equal. symmetry. apply astep_eq.
Qed.

(* at most 32 coefficients fed after R: no reduction touches them *)
Lemma poly_of_bits_snoc l b : poly_of_bits (l ++ [b]) = pshift_in (poly_of_bits l) b.
Proof. unfold poly_of_bits. rewrite poly_of_bits_from_app. reflexivity. Qed.

Lemma feed_short bits : forall R, (length bits <= 32)%nat ->
  fold_left (pstep P) bits R = N.lxor (xpow (length bits) R) (poly_of_bits bits).
Proof.
  induction bits as [|b l IH] using rev_ind; intros R Hl.
  - rewrite fold_left_nil. change (length (@nil bool)) with 0%nat. rewrite xpow_O.
    change (poly_of_bits []) with 0. rewrite N.lxor_0_r. reflexivity.
  - rewrite app_length in Hl. change (length [b]) with 1%nat in Hl.
    rewrite fold_left_app, fold_left_cons, fold_left_nil. rewrite IH by lia.
    rewrite pstep_lin, xtimes_linear, poly_of_bits_snoc, pshift_in_lxor, app_length.
    change (length [b]) with 1%nat.
    replace (length l + 1)%nat with (S (length l)) by lia. rewrite xpow_S.
    rewrite (xtimes_small (poly_of_bits l)).
    + xor_solve.
    + apply N.lt_le_trans with (2 ^ N.of_nat (length l)); [apply poly_of_bits_lt|].
      apply N.pow_le_mono_r; lia.
Qed.

(* ------------------------------------------------------------------ *)
(* the reflected register                                              *)
(* ------------------------------------------------------------------ *)
Lemma rshift1_unfold s :
  rshift1 s = N.lxor (N.shiftr s 1) (if N.testbit s 0 then castagnoli_reflected else 0).
Proof. unfold rshift1. destruct (N.testbit s 0); [reflexivity | rewrite N.lxor_0_r; reflexivity]. Qed.

Lemma rshift1_linear : linear rshift1.
Proof.
  intros a b. rewrite !rshift1_unfold, N.shiftr_lxor, N.lxor_spec.
  destruct (N.testbit a 0), (N.testbit b 0); cbn [xorb]; xor_solve.
Qed.

Lemma rstep_lin s b : rstep s b = N.lxor (rshift1 s) (if b then castagnoli_reflected else 0).
Proof.
  unfold rstep. rewrite rshift1_linear. f_equal. destruct b; reflexivity.
Qed.

Lemma shiftr_lt s k n : s < 2 ^ n -> N.shiftr s k < 2 ^ n.
Proof.
  intros H. apply lt_pow2_of_bits. intros i Hi. rewrite N.shiftr_spec'.
  apply (bits_of_lt_pow2 s n); [exact H | lia].
Qed.

Lemma rshift1_lt s : s < 2 ^ 32 -> rshift1 s < 2 ^ 32.
Proof.
  intros H. rewrite rshift1_unfold. apply lxor_lt_pow2; [apply shiftr_lt, H|].
  destruct (N.testbit s 0); reflexivity.
Qed.

Lemma rstep_lt s b : s < 2 ^ 32 -> rstep s b < 2 ^ 32.
Proof.
  intros H. rewrite rstep_lin. apply lxor_lt_pow2; [apply rshift1_lt, H | destruct b; reflexivity].
Qed.

Lemma crc_bits_lt bits s : s < 2 ^ 32 -> crc_bits s bits < 2 ^ 32.
Proof.
  revert s. unfold crc_bits. induction bits as [|b l IH]; intros s H; [exact H|].
  cbn [fold_left]. apply IH, rstep_lt, H.
Qed.

Lemma reflect32_xtimes T : T < 2 ^ 32 -> reflect 32 (xtimes T) = rshift1 (reflect 32 T).
Proof.
  apply (linear_ext_sweep (fun x => reflect 32 (xtimes x)) (fun x => rshift1 (reflect 32 x)) 32).
  - apply (linear_compose (reflect 32) xtimes); [apply reflect_linear | apply xtimes_linear].
  - apply (linear_compose rshift1 (reflect 32)); [apply rshift1_linear | apply reflect_linear].
  - vm_compute. reflexivity.
Qed.

Lemma reflect32_invol s : s < 2 ^ 32 -> reflect 32 (reflect 32 s) = s.
Proof.
  apply (linear_ext_sweep (fun x => reflect 32 (reflect 32 x)) (fun x => x) 32).
  - apply (linear_compose (reflect 32) (reflect 32)); apply reflect_linear.
  - intros a b. reflexivity.
  - vm_compute. reflexivity.
Qed.

Lemma reflect32_poly32 : reflect 32 poly32 = castagnoli_reflected.
Proof. vm_compute. reflexivity. Qed.

Lemma astep_lt T b : T < 2 ^ 32 -> astep T b < 2 ^ 32.
Proof.
  intros H. unfold astep. apply lxor_lt_pow2; [apply xtimes_lt, H | destruct b; reflexivity].
Qed.

Lemma reflect32_astep T b : T < 2 ^ 32 -> reflect 32 (astep T b) = rstep (reflect 32 T) b.
Proof.
  intros H. unfold astep. rewrite reflect_linear, (reflect32_xtimes T H), rstep_lin. f_equal.
  destruct b; [apply reflect32_poly32 | reflexivity].
Qed.

Lemma reflect32_fold_astep bits : forall T, T < 2 ^ 32 ->
  reflect 32 (fold_left astep bits T) = crc_bits (reflect 32 T) bits.
Proof.
  unfold crc_bits. induction bits as [|b l IH]; intros T H; [reflexivity|].
  cbn [fold_left]. rewrite IH by (apply astep_lt, H). rewrite reflect32_astep by exact H. reflexivity.
Qed.

(* THE LINK: the reflected register run over [bits] from reflect(x^32 R + S) holds
   reflect(x^32 * (R x^n + bits) + S x^n  mod P) *)
Theorem crc_bits_algebra bits R Sx : R < 2 ^ 32 -> Sx < 2 ^ 32 ->
  crc_bits (reflect 32 (N.lxor (xpow 32 R) Sx)) bits =
  reflect 32 (N.lxor (xpow 32 (fold_left (pstep P) bits R)) (xpow (length bits) Sx)).
Proof.
  intros HR HS. rewrite horner_shift32. symmetry. apply reflect32_fold_astep.
  apply lxor_lt_pow2; [apply xpow_lt, HR | exact HS].
Qed.
