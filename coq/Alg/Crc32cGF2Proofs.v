(* GF(2) polynomial algebra behind CRC32C: long division as a Horner fold, linearity, and the
   link between the normal-order remainder and the reflected shift register. *)
From Coq Require Import Arith NArith List Lia Bool Btauto.
From LCP Require Import Base.Sweep Alg.GF2Poly Alg.Crc32c.
Import ListNotations.
Local Open Scope N_scope.

(* ------------------------------------------------------------------ *)
(* bit-level helpers                                                   *)
(* ------------------------------------------------------------------ *)
Ltac xor_solve :=
  apply N.bits_inj; intro; repeat rewrite N.lxor_spec; repeat rewrite N.bits_0; btauto.

Lemma lt_pow2_of_bits x n : (forall i, n <= i -> N.testbit x i = false) -> x < 2 ^ n.
Proof.
  intros H. assert (x = x mod 2 ^ n) as E.
  { apply N.bits_inj. intro i. destruct (N.lt_ge_cases i n) as [L|G].
    - rewrite N.mod_pow2_bits_low by exact L. reflexivity.
    - rewrite N.mod_pow2_bits_high by exact G. apply H, G. }
  rewrite E. apply N.mod_lt. apply N.pow_nonzero. discriminate.
Qed.

Lemma bits_of_lt_pow2 x n i : x < 2 ^ n -> n <= i -> N.testbit x i = false.
Proof.
  intros H G. destruct (N.eq_dec x 0) as [->|Hx]; [apply N.bits_0|].
  apply N.bits_above_log2. apply N.lt_le_trans with n; [|exact G].
  apply N.log2_lt_pow2; [lia|exact H].
Qed.

Lemma lxor_lt_pow2 a b n : a < 2 ^ n -> b < 2 ^ n -> N.lxor a b < 2 ^ n.
Proof.
  intros Ha Hb. apply lt_pow2_of_bits. intros i Hi.
  rewrite N.lxor_spec, (bits_of_lt_pow2 a n i Ha Hi), (bits_of_lt_pow2 b n i Hb Hi). reflexivity.
Qed.

Lemma double_shiftl a : N.double a = N.shiftl a 1.
Proof. destruct a; reflexivity. Qed.

Lemma double_lxor a b : N.double (N.lxor a b) = N.lxor (N.double a) (N.double b).
Proof. rewrite !double_shiftl. apply N.shiftl_lxor. Qed.

Lemma testbit_double_0 a : N.testbit (N.double a) 0 = false.
Proof. rewrite N.double_spec. apply N.testbit_even_0. Qed.

Lemma testbit_double_succ a i : N.testbit (N.double a) (N.succ i) = N.testbit a i.
Proof. rewrite N.double_spec. apply N.testbit_even_succ. lia. Qed.

Lemma b2n_xorb x y : N.b2n (xorb x y) = N.lxor (N.b2n x) (N.b2n y).
Proof. destruct x, y; reflexivity. Qed.

Lemma pshift_in_lxor a b : pshift_in a b = N.lxor (N.double a) (N.b2n b).
Proof. destruct a, b; reflexivity. Qed.

Lemma pshift_in_xor a1 a2 b1 b2 :
  pshift_in (N.lxor a1 a2) (xorb b1 b2) = N.lxor (pshift_in a1 b1) (pshift_in a2 b2).
Proof. rewrite !pshift_in_lxor, double_lxor, b2n_xorb. xor_solve. Qed.

Lemma pshift_in_lt a b n : a < 2 ^ n -> pshift_in a b < 2 ^ N.succ n.
Proof.
  intros H. rewrite N.pow_succ_r'. unfold pshift_in.
  destruct b; [rewrite N.succ_double_spec | rewrite N.double_spec]; lia.
Qed.

Lemma pshift_in_div2 a : a = pshift_in (N.div2 a) (N.odd a).
Proof.
  pose proof (N.div2_odd a) as H. unfold pshift_in.
  destruct (N.odd a); [rewrite N.succ_double_spec | rewrite N.double_spec]; simpl N.b2n in H; lia.
Qed.

(* ------------------------------------------------------------------ *)
(* linear maps on bit masks                                            *)
(* ------------------------------------------------------------------ *)
Definition linear (f : N -> N) : Prop := forall a b, f (N.lxor a b) = N.lxor (f a) (f b).

Lemma linear_0 f : linear f -> f 0 = 0.
Proof.
  intros L. pose proof (L 0 0) as H. rewrite N.lxor_0_l in H.
  rewrite H at 1. apply N.lxor_nilpotent.
Qed.

Lemma linear_compose f g : linear f -> linear g -> linear (fun x => f (g x)).
Proof. intros Lf Lg a b. rewrite Lg, Lf. reflexivity. Qed.

Lemma linear_lxor f g : linear f -> linear g -> linear (fun x => N.lxor (f x) (g x)).
Proof. intros Lf Lg a b. rewrite Lf, Lg. xor_solve. Qed.

(* n-fold application *)
Fixpoint iter_n {A} (n : nat) (f : A -> A) (x : A) : A :=
  match n with O => x | S k => f (iter_n k f x) end.

Lemma linear_iter f n : linear f -> linear (iter_n n f).
Proof.
  intros L. induction n as [|n IH]; intros a b; [reflexivity|].
  cbn [iter_n]. rewrite IH, L. reflexivity.
Qed.

Lemma linear_shiftr k : linear (fun x => N.shiftr x k).
Proof. intros a b. apply N.shiftr_lxor. Qed.

Lemma linear_shiftl k : linear (fun x => N.shiftl x k).
Proof. intros a b. apply N.shiftl_lxor. Qed.

Lemma linear_land m : linear (fun x => N.land x m).
Proof.
  intros a b. apply N.bits_inj. intro i.
  rewrite N.lxor_spec, !N.land_spec, N.lxor_spec. btauto.
Qed.

Lemma iter_comm {A} (f : A -> A) n x : iter_n n f (f x) = f (iter_n n f x).
Proof. induction n as [|n IH]; [reflexivity|]. cbn [iter_n]. rewrite IH. reflexivity. Qed.

Lemma iter_add {A} (f : A -> A) n m x : iter_n (n + m) f x = iter_n n f (iter_n m f x).
Proof. induction n as [|n IH]; [reflexivity|]. cbn [iter_n Nat.add]. rewrite IH. reflexivity. Qed.

(* a number below 2^(n+1) is its low n bits plus, possibly, bit n *)
Lemma split_top_bit x n : x < 2 ^ N.succ n ->
  x = N.lxor (x mod 2 ^ n) (if N.testbit x n then 2 ^ n else 0).
Proof.
  intros H. apply N.bits_inj. intro i. rewrite N.lxor_spec.
  destruct (N.lt_trichotomy i n) as [L|[->|G]].
  - rewrite N.mod_pow2_bits_low by exact L.
    destruct (N.testbit x n); [rewrite N.pow2_bits_false by lia | rewrite N.bits_0]; btauto.
  - rewrite N.mod_pow2_bits_high by lia.
    destruct (N.testbit x n); [rewrite N.pow2_bits_true | rewrite N.bits_0]; reflexivity.
  - rewrite N.mod_pow2_bits_high by lia. rewrite (bits_of_lt_pow2 x (N.succ n) i H) by lia.
    destruct (N.testbit x n); [rewrite N.pow2_bits_false by lia | rewrite N.bits_0]; reflexivity.
Qed.

(* two linear maps that agree on the unit vectors 2^i, i < n, agree below 2^n *)
Lemma linear_ext f g (n : nat) :
  linear f -> linear g ->
  (forall i, i < N.of_nat n -> f (2 ^ i) = g (2 ^ i)) ->
  forall x, x < 2 ^ N.of_nat n -> f x = g x.
Proof.
  intros Lf Lg. induction n as [|n IH]; intros Hb x Hx.
  - simpl in Hx. assert (x = 0) as -> by lia. rewrite (linear_0 f Lf), (linear_0 g Lg). reflexivity.
  - rewrite Nat2N.inj_succ in Hx, Hb.
    rewrite (split_top_bit x (N.of_nat n) Hx). rewrite Lf, Lg. f_equal.
    + apply IH; [intros i Hi; apply Hb; lia|]. apply N.mod_lt, N.pow_nonzero. discriminate.
    + destruct (N.testbit x (N.of_nat n)).
      * apply Hb. lia.
      * rewrite (linear_0 f Lf), (linear_0 g Lg). reflexivity.
Qed.

Lemma linear_ext_sweep f g (n : nat) :
  linear f -> linear g ->
  forallb (fun i => f (2 ^ i) =? g (2 ^ i)) (N_range n) = true ->
  forall x, x < 2 ^ N.of_nat n -> f x = g x.
Proof.
  intros Lf Lg H. apply linear_ext; try assumption.
  intros i Hi. apply N.eqb_eq. exact (sweep_N _ n H i Hi).
Qed.

(* ------------------------------------------------------------------ *)
(* long division as a Horner fold (any modulus)                        *)
(* ------------------------------------------------------------------ *)
Lemma pmod_pshift_in a b m : pmod (pshift_in a b) m = pstep m (pmod a m) b.
Proof.
  destruct a as [|p], b; try reflexivity.
  cbn [pshift_in N.double pmod]. unfold pstep. cbn [pshift_in N.double].
  rewrite N.bits_0. reflexivity.
Qed.

Lemma pmod_poly_of_bits_from acc bits m :
  pmod (poly_of_bits_from acc bits) m = fold_left (pstep m) bits (pmod acc m).
Proof.
  revert acc. induction bits as [|b r IH]; intros acc; [reflexivity|].
  unfold poly_of_bits_from in *. cbn [fold_left]. rewrite IH, pmod_pshift_in. reflexivity.
Qed.

Lemma poly_of_bits_from_app acc l1 l2 :
  poly_of_bits_from acc (l1 ++ l2) = poly_of_bits_from (poly_of_bits_from acc l1) l2.
Proof. unfold poly_of_bits_from. apply fold_left_app. Qed.

Lemma poly_of_bits_from_zeros acc k :
  poly_of_bits_from acc (repeat false k) = N.shiftl acc (N.of_nat k).
Proof.
  revert acc. induction k as [|k IH]; intros acc.
  - simpl. rewrite N.shiftl_0_r. reflexivity.
  - cbn [repeat]. unfold poly_of_bits_from in *. cbn [fold_left]. rewrite IH.
    cbn [pshift_in]. rewrite double_shiftl, N.shiftl_shiftl. f_equal. lia.
Qed.

Lemma poly_of_bits_from_lt acc bits n :
  acc < 2 ^ n -> poly_of_bits_from acc bits < 2 ^ (n + N.of_nat (length bits)).
Proof.
  revert acc n. induction bits as [|b r IH]; intros acc n H.
  - simpl. rewrite N.add_0_r. exact H.
  - unfold poly_of_bits_from in *. cbn [fold_left length].
    replace (n + N.of_nat (S (length r))) with (N.succ n + N.of_nat (length r)) by lia.
    apply IH. apply pshift_in_lt, H.
Qed.

Lemma poly_of_bits_lt bits : poly_of_bits bits < 2 ^ N.of_nat (length bits).
Proof.
  pose proof (poly_of_bits_from_lt 0 bits 0) as H. rewrite N.add_0_l in H. apply H. simpl. lia.
Qed.

(* xor of two bit strings given over the same index list *)
Lemma poly_of_bits_from_xor {A} (f g : A -> bool) idx a1 a2 :
  poly_of_bits_from (N.lxor a1 a2) (map (fun i => xorb (f i) (g i)) idx) =
  N.lxor (poly_of_bits_from a1 (map f idx)) (poly_of_bits_from a2 (map g idx)).
Proof.
  revert a1 a2. induction idx as [|i r IH]; intros a1 a2; [reflexivity|].
  unfold poly_of_bits_from in *. cbn [map fold_left]. rewrite pshift_in_xor. apply IH.
Qed.

Lemma reflect_linear n : linear (reflect n).
Proof.
  intros a b. unfold reflect, poly_of_bits, nbits_lsb.
  rewrite <- (N.lxor_0_l 0) at 1.
  rewrite <- (poly_of_bits_from_xor (fun i => N.testbit a (N.of_nat i)) (fun i => N.testbit b (N.of_nat i))).
  f_equal. apply map_ext. intros i. apply N.lxor_spec.
Qed.

Lemma nbits_lsb_length n x : length (nbits_lsb n x) = n.
Proof. unfold nbits_lsb. rewrite map_length, seq_length. reflexivity. Qed.

Lemma reflect_lt n x : reflect n x < 2 ^ N.of_nat n.
Proof.
  unfold reflect. pose proof (poly_of_bits_lt (nbits_lsb n x)) as H.
  rewrite nbits_lsb_length in H. exact H.
Qed.
