(* Merkle-Damgard hashing as the standards state it (FIPS 180-4 5.1.1 / 5.2.1 / 6.x, RFC 1321
   3.1-3.4): pad the WHOLE message, cut it into 64-byte blocks, fold the compression function
   over the blocks.  Independent of the C; definitions only. *)
From Coq Require Import Arith NArith List.
From LCP Require Import Alg.Words.
Import ListNotations.

(* number of zero bytes k >= 0, minimal, with len + 1 + k = 56 (mod 64) *)
Definition md_zeros (len : nat) : nat := (119 - len mod 64) mod 64.

(* message || 0x80 || 0^k || <64-bit bit length, encoded by enc_len>.  The length field holds the
   bit length reduced modulo 2^64 (FIPS 180-4 restricts its domain to lengths below 2^64 bits;
   RFC 1321 3.2 prescribes the low-order 64 bits). *)
Definition md_pad (enc_len : N -> list N) (m : list N) : list N :=
  m ++ [128%N] ++ repeat 0%N (md_zeros (length m))
    ++ enc_len (N.modulo (8 * N.of_nat (length m)) 18446744073709551616).

(* The same padding when the message is the continuation of a stream of which [bits] bits
   (a multiple of 512) were absorbed before: only the length field changes. *)
Definition md_pad_from (enc_len : N -> list N) (bits : N) (m : list N) : list N :=
  m ++ [128%N] ++ repeat 0%N (md_zeros (length m))
    ++ enc_len (N.modulo (bits + 8 * N.of_nat (length m)) 18446744073709551616).

(* the first k consecutive 64-byte blocks of l *)
Fixpoint chunks (k : nat) (l : list N) {struct k} : list (list N) :=
  match k with
  | O => []
  | S k' => firstn 64 l :: chunks k' (skipn 64 l)
  end.
Definition blocks (l : list N) : list (list N) := chunks (length l / 64) l.

Definition md_hash (compress : list N -> list N -> list N) (iv : list N)
           (enc_len : N -> list N) (m : list N) : list N :=
  fold_left compress (blocks (md_pad enc_len m)) iv.

(* Continuing from an arbitrary chaining value: [st] is the chaining value after the whole
   blocks of a stream of [bits] bits so far, the last (bits / 8) mod 64 bytes of which are still
   pending in [buf]; the stream goes on with [d] and ends. *)
Definition md_resume (compress : list N -> list N -> list N) (enc_len : N -> list N)
           (st : list N) (bits : N) (buf d : list N) : list N :=
  let r := N.to_nat (N.modulo (N.div bits 8) 64) in
  fold_left compress (blocks (md_pad_from enc_len (bits - 8 * N.of_nat r) (firstn r buf ++ d))) st.

(* the running bit count (mod 2^64) after each part *)
Fixpoint md_counts (bits : N) (parts : list (list N)) : list N :=
  match parts with
  | [] => []
  | p :: r =>
    let b := N.modulo (bits + 8 * N.of_nat (length p)) 18446744073709551616 in
    b :: md_counts b r
  end.
