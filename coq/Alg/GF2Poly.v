(* Polynomials over GF(2) as N bit masks: bit i of the number is the coefficient of x^i.
   Addition is [N.lxor].  Definitions only (this file is extracted); the algebra is in
   Alg/Crc32cGF2Proofs.v. *)
From Coq Require Import NArith List Bool.
Import ListNotations.
Local Open Scope N_scope.

Definition padd (a b : N) : N := N.lxor a b.

(* degree of a non-zero polynomial *)
Definition pdeg (m : N) : N := N.log2 m.

(* a * x + b  (b a single coefficient) *)
Definition pshift_in (a : N) (b : bool) : N := if b then N.succ_double a else N.double a.

(* One step of long division by m (of degree d = pdeg m): the running remainder r (degree < d)
   takes in the next lower coefficient b; if the result reaches degree d, m is subtracted. *)
Definition pstep (m : N) (r : N) (b : bool) : N :=
  let t := pshift_in r b in
  if N.testbit t (pdeg m) then N.lxor t m else t.

(* remainder of a modulo m: long division, most significant coefficient first *)
Fixpoint pmod_pos (p : positive) (m : N) : N :=
  match p with
  | xH => pstep m 0 true
  | xO q => pstep m (pmod_pos q m) false
  | xI q => pstep m (pmod_pos q m) true
  end.

Definition pmod (a m : N) : N :=
  match a with
  | N0 => 0
  | Npos p => pmod_pos p m
  end.

(* product (used only to state that pmod is the remainder) *)
Fixpoint pmul_pos (p : positive) (b : N) : N :=
  match p with
  | xH => b
  | xO q => N.double (pmul_pos q b)
  | xI q => N.lxor (N.double (pmul_pos q b)) b
  end.

Definition pmul (a b : N) : N :=
  match a with
  | N0 => 0
  | Npos p => pmul_pos p b
  end.

(* A bit string, first bit = coefficient of the highest power, as a polynomial. *)
Definition poly_of_bits_from (acc : N) (bits : list bool) : N :=
  fold_left pshift_in bits acc.
Definition poly_of_bits (bits : list bool) : N := poly_of_bits_from 0 bits.

(* the n low bits of x, least significant first *)
Definition nbits_lsb (n : nat) (x : N) : list bool :=
  map (fun i => N.testbit x (N.of_nat i)) (seq 0 n).

(* a byte string as a bit string, each byte least significant bit first *)
Definition bits_lsb (bytes : list N) : list bool := flat_map (nbits_lsb 8) bytes.

(* BIT_REFLECT over n bits: the lsb-first bit string of x read msb-first *)
Definition reflect (n : nat) (x : N) : N := poly_of_bits (nbits_lsb n x).
