(* Proofs about the model of alg/crc32c.c:
   - the generated tables are what the file's comment says (tie to the regenerated constants),
   - M6: table-driven byte step = eight bit-serial steps; slice-by-4 step = four byte steps,
   - CRC32C_Update = fold of the byte step, hence streaming = one-shot for every partition,
   - G7: 1 || data || crc (lsb first) is a multiple of the Castagnoli polynomial. *)
From Coq Require Import Arith NArith List Lia Bool Btauto.
From LCP Require Import Base.CheckedMem Base.Sweep Gen.Repo_crc Alg.GF2Poly Alg.Crc32c Alg.Crc32cRepo Alg.Crc32cGF2Proofs.
Import ListNotations.
Local Open Scope N_scope.

(* ------------------------------------------------------------------ *)
(* the regenerated constants are the standard ones                     *)
(* ------------------------------------------------------------------ *)
Lemma repo_poly_eq_spec : N.lor (2 ^ 32) crc_poly = castagnoli.
Proof. vm_compute. reflexivity. Qed.

Lemma repo_init_eq_spec : crc_init = crc_ref_init.
Proof. vm_compute. reflexivity. Qed.

Lemma repo_init_value : crc_init = castagnoli_reflected.
Proof. vm_compute. reflexivity. Qed.

Lemma repo_slice_width : crc_slice_width = 4.
Proof. reflexivity. Qed.

(* reverse(), times256() and the fill loop produce the documented tables *)
Lemma repo_tables_eq_spec : crc_tables = map crc_table_ref [0; 1; 2; 3].
Proof. vm_compute. reflexivity. Qed.

(* the assert at the end of init() holds *)
Lemma repo_init_tables_ok : crc_init_tables = Ok crc_tables.
Proof. vm_compute. reflexivity. Qed.

(* ------------------------------------------------------------------ *)
(* powers of the reflected shift                                       *)
(* ------------------------------------------------------------------ *)
Definition rpow (k : nat) : N -> N := iter_n k rshift1.

Lemma rpow_O s : rpow 0 s = s.
Proof. reflexivity. Qed.
Lemma rpow_S k s : rpow (S k) s = rshift1 (rpow k s).
Proof. reflexivity. Qed.
Lemma rpow_succ_r k s : rpow (S k) s = rpow k (rshift1 s).
Proof. unfold rpow. cbn [iter_n]. symmetry. apply iter_comm. Qed.
Lemma rpow_add n m s : rpow (n + m) s = rpow n (rpow m s).
Proof. apply iter_add. Qed.
Lemma rpow_linear k : linear (rpow k).
Proof. apply linear_iter, rshift1_linear. Qed.

(* the tables, entry by entry (256-entry sweeps over the regenerated tables) *)
Definition tbl_ok (t : N) (k : nat) (i : N) : bool := tbl crc_tables t i =? rpow k i.

Lemma tbl0_sweep : forallb (tbl_ok 0 8) (N_range 256) = true.
Proof. vm_compute. reflexivity. Qed.
Lemma tbl1_sweep : forallb (tbl_ok 1 16) (N_range 256) = true.
Proof. vm_compute. reflexivity. Qed.
Lemma tbl2_sweep : forallb (tbl_ok 2 24) (N_range 256) = true.
Proof. vm_compute. reflexivity. Qed.
Lemma tbl3_sweep : forallb (tbl_ok 3 32) (N_range 256) = true.
Proof. vm_compute. reflexivity. Qed.

(* eight bit steps from a zero register, for every byte value *)
Lemma byte_bits_sweep : forallb (fun b => crc_byte_bits 0 b =? rpow 8 b) (N_range 256) = true.
Proof. vm_compute. reflexivity. Qed.

(* r^32 over a 32-bit register, byte by byte *)
Definition rpow32_split (s : N) : N :=
  N.lxor (N.lxor (N.lxor (rpow 8 (N.land (N.shiftr s 24) 255)) (rpow 16 (N.land (N.shiftr s 16) 255)))
                 (rpow 24 (N.land (N.shiftr s 8) 255)))
         (rpow 32 (N.land (N.shiftr s 0) 255)).

Lemma rpow32_split_sweep : forallb (fun i => rpow 32 (2 ^ i) =? rpow32_split (2 ^ i)) (N_range 32) = true.
Proof. vm_compute. reflexivity. Qed.

Global Opaque rpow.

Lemma tbl0 i : i < 256 -> tbl crc_tables 0 i = rpow 8 i.
Proof. intros H. apply N.eqb_eq. exact (sweep_byte _ tbl0_sweep i H). Qed.
Lemma tbl1 i : i < 256 -> tbl crc_tables 1 i = rpow 16 i.
Proof. intros H. apply N.eqb_eq. exact (sweep_byte _ tbl1_sweep i H). Qed.
Lemma tbl2 i : i < 256 -> tbl crc_tables 2 i = rpow 24 i.
Proof. intros H. apply N.eqb_eq. exact (sweep_byte _ tbl2_sweep i H). Qed.
Lemma tbl3 i : i < 256 -> tbl crc_tables 3 i = rpow 32 i.
Proof. intros H. apply N.eqb_eq. exact (sweep_byte _ tbl3_sweep i H). Qed.

Lemma byte_bits_0 b : b < 256 -> crc_byte_bits 0 b = rpow 8 b.
Proof. intros H. apply N.eqb_eq. exact (sweep_byte _ byte_bits_sweep b H). Qed.

(* ------------------------------------------------------------------ *)
(* bit steps are affine in the register                                *)
(* ------------------------------------------------------------------ *)
Lemma crc_byte_bits_unfold s b : crc_byte_bits s b = crc_bits s (nbits_lsb 8 b).
Proof. reflexivity. Qed.
Lemma bits_lsb_unfold r : bits_lsb r = flat_map (nbits_lsb 8) r.
Proof. reflexivity. Qed.
Lemma reflect_unfold n x : reflect n x = poly_of_bits (nbits_lsb n x).
Proof. reflexivity. Qed.

Lemma crc_bits_cons s b l : crc_bits s (b :: l) = crc_bits (rstep s b) l.
Proof. reflexivity. Qed.

Lemma crc_bits_app s l1 l2 : crc_bits s (l1 ++ l2) = crc_bits (crc_bits s l1) l2.
Proof. unfold crc_bits. apply fold_left_app. Qed.

Lemma rstep_0 b : rstep 0 b = if b then castagnoli_reflected else 0.
Proof. destruct b; reflexivity. Qed.

Lemma crc_bits_affine bits : forall s,
  crc_bits s bits = N.lxor (rpow (length bits) s) (crc_bits 0 bits).
Proof.
  induction bits as [|b l IH]; intros s.
  - change (length (@nil bool)) with 0%nat. rewrite rpow_O. change (crc_bits 0 []) with 0.
    change (crc_bits s []) with s. rewrite N.lxor_0_r. reflexivity.
  - rewrite length_cons, !crc_bits_cons, (IH (rstep s b)), (IH (rstep 0 b)), rpow_succ_r.
    rewrite rstep_lin, rstep_0, (rpow_linear (length l)). xor_solve.
Qed.

Lemma crc_byte_bits_lin s b : b < 256 -> crc_byte_bits s b = rpow 8 (N.lxor s b).
Proof.
  intros H. unfold crc_byte_bits. rewrite crc_bits_affine, nbits_lsb_length.
  rewrite <- (crc_byte_bits_unfold 0 b).
  rewrite byte_bits_0 by exact H. symmetry. apply rpow_linear.
Qed.

Lemma crc_byte_bits_lt s b : s < 2 ^ 32 -> crc_byte_bits s b < 2 ^ 32.
Proof. intros H. apply crc_bits_lt, H. Qed.

(* ------------------------------------------------------------------ *)
(* M6a: the table-driven byte step                                      *)
(* ------------------------------------------------------------------ *)
Lemma crc_byte_step_unfold s b :
  crc_byte_step s b = N.lxor (N.shiftr s 8) (tbl crc_tables 0 (N.lxor (N.land s 255) b)).
Proof. reflexivity. Qed.

Lemma rshift1_double y : rshift1 (N.double y) = y.
Proof.
  unfold rshift1. rewrite testbit_double_0. rewrite <- N.div2_spec. apply N.div2_double.
Qed.

Lemma rpow_shiftl k h : rpow k (N.shiftl h (N.of_nat k)) = h.
Proof.
  induction k as [|k IH].
  - rewrite rpow_O. apply N.shiftl_0_r.
  - rewrite Nat2N.inj_succ, N.shiftl_succ_r, rpow_succ_r, rshift1_double. exact IH.
Qed.

Lemma split_low8 s : s = N.lxor (N.shiftl (N.shiftr s 8) 8) (N.land s 255).
Proof.
  apply N.bits_inj. intro i. rewrite N.lxor_spec, N.land_spec. change 255 with (N.ones 8).
  destruct (N.lt_ge_cases i 8) as [L|G].
  - rewrite N.shiftl_spec_low by exact L. rewrite N.ones_spec_low by exact L. btauto.
  - rewrite N.shiftl_spec_high' by exact G. rewrite N.shiftr_spec'. rewrite N.ones_spec_high by exact G.
    replace (i - 8 + 8) with i by lia. btauto.
Qed.

Lemma split_low8_b s b :
  N.lxor s b = N.lxor (N.shiftl (N.shiftr s 8) (N.of_nat 8)) (N.lxor (N.land s 255) b).
Proof. change (N.of_nat 8) with 8. rewrite <- N.lxor_assoc, <- split_low8. reflexivity. Qed.

Lemma land255_lt s : N.land s 255 < 256.
Proof. change 255 with (N.ones 8). rewrite N.land_ones. apply N.mod_lt. discriminate. Qed.

Lemma idx_lt s b : b < 256 -> N.lxor (N.land s 255) b < 256.
Proof. intros H. apply (lxor_lt_pow2 _ _ 8); [apply land255_lt | exact H]. Qed.

(* M6 (first half): for every register value and every byte, one table step is eight
   bit-serial reflected steps *)
Theorem crc_table_step_eq_bits_proof s b : b < 256 -> crc_byte_step s b = crc_byte_bits s b.
Proof.
  intros H. rewrite crc_byte_step_unfold, crc_byte_bits_lin by exact H.
  rewrite tbl0 by (apply idx_lt, H).
  rewrite (split_low8_b s b), (rpow_linear 8 (N.shiftl (N.shiftr s 8) (N.of_nat 8))).
  rewrite (rpow_shiftl 8 (N.shiftr s 8)). reflexivity.
Qed.

Lemma crc_byte_step_lt s b : s < 2 ^ 32 -> b < 256 -> crc_byte_step s b < 2 ^ 32.
Proof. intros Hs Hb. rewrite crc_table_step_eq_bits_proof by exact Hb. apply crc_byte_bits_lt, Hs. Qed.

Lemma fold_byte_step_lt data : forall s, s < 2 ^ 32 -> bytes_ok data ->
  fold_left crc_byte_step data s < 2 ^ 32.
Proof.
  induction data as [|b r IH]; intros s Hs Hd; [exact Hs|].
  inversion Hd as [|? ? Hb Hr]; subst. cbn [fold_left]. apply IH; [|exact Hr]. apply crc_byte_step_lt; assumption.
Qed.

Lemma fold_byte_step_eq_bits data : forall s, bytes_ok data ->
  fold_left crc_byte_step data s = crc_bits s (bits_lsb data).
Proof.
  induction data as [|b r IH]; intros s Hd; [reflexivity|].
  inversion Hd as [|? ? Hb Hr]; subst. cbn [fold_left bits_lsb flat_map].
  rewrite crc_bits_app, <- (bits_lsb_unfold r), <- (crc_byte_bits_unfold s b).
  rewrite <- crc_table_step_eq_bits_proof by exact Hb. apply IH, Hr.
Qed.

(* ------------------------------------------------------------------ *)
(* M6b: the slice-by-4 step                                             *)
(* ------------------------------------------------------------------ *)
Lemma crc_slice4_unfold s b0 b1 b2 b3 :
  crc_slice4 s b0 b1 b2 b3 =
  N.lxor (N.lxor (N.lxor (N.lxor 0
    (tbl crc_tables 0 (N.lxor (N.land (N.shiftr s 24) 255) b3)))
    (tbl crc_tables 1 (N.lxor (N.land (N.shiftr s 16) 255) b2)))
    (tbl crc_tables 2 (N.lxor (N.land (N.shiftr s 8) 255) b1)))
    (tbl crc_tables 3 (N.lxor (N.land (N.shiftr s 0) 255) b0)).
Proof. reflexivity. Qed.

Lemma rpow32_split_linear : linear rpow32_split.
Proof.
  unfold rpow32_split.
  repeat apply linear_lxor;
    match goal with
    | |- linear (fun x => rpow ?k (N.land (N.shiftr x ?sh) 255)) =>
      apply (linear_compose (rpow k) (fun x => N.land (N.shiftr x sh) 255)); [apply rpow_linear|];
      apply (linear_compose (fun y => N.land y 255) (fun x => N.shiftr x sh)); [apply linear_land | apply linear_shiftr]
    end.
Qed.

Lemma rpow32_split_eq s : s < 2 ^ 32 -> rpow 32 s = rpow32_split s.
Proof.
  apply (linear_ext_sweep (rpow 32) rpow32_split 32).
  - apply rpow_linear.
  - apply rpow32_split_linear.
  - exact rpow32_split_sweep.
Qed.

(* M6 (second half): one slice-by-4 step is four byte steps *)
Theorem crc_slice4_eq_bytes_proof s b0 b1 b2 b3 :
  s < 2 ^ 32 -> b0 < 256 -> b1 < 256 -> b2 < 256 -> b3 < 256 ->
  crc_slice4 s b0 b1 b2 b3 = fold_left crc_byte_step [b0; b1; b2; b3] s.
Proof.
  intros Hs H0 H1 H2 H3. cbn [fold_left].
  rewrite !crc_table_step_eq_bits_proof by assumption.
  rewrite !crc_byte_bits_lin by assumption.
  rewrite !(rpow_linear 8). rewrite <- !rpow_add. cbn [Nat.add].
  rewrite (rpow32_split_eq s Hs). unfold rpow32_split.
  rewrite crc_slice4_unfold.
  rewrite tbl0, tbl1, tbl2, tbl3 by (apply idx_lt; assumption).
  rewrite (rpow_linear 8), (rpow_linear 16), (rpow_linear 24), (rpow_linear 32).
  xor_solve.
Qed.

(* ------------------------------------------------------------------ *)
(* CRC32C_Update (portable loops) = fold of the byte step               *)
(* ------------------------------------------------------------------ *)
Lemma crc_update_c_small st buf : (length buf < 4)%nat ->
  crc_update_c st buf = fold_left crc_byte_step buf st.
Proof.
  intros H. destruct buf as [|b0 [|b1 [|b2 [|b3 r]]]]; try reflexivity. cbn [length] in H. lia.
Qed.

Lemma crc_update_c_cons4 st b0 b1 b2 b3 r :
  crc_update_c st (b0 :: b1 :: b2 :: b3 :: r) = crc_update_c (crc_slice4 st b0 b1 b2 b3) r.
Proof. reflexivity. Qed.

Lemma crc_update_c_eq_n (n : nat) : forall st buf, (length buf <= n)%nat ->
  st < 2 ^ 32 -> bytes_ok buf -> crc_update_c st buf = fold_left crc_byte_step buf st.
Proof.
  induction n as [|n IH]; intros st buf Hl Hs Hb.
  - apply crc_update_c_small. lia.
  - destruct buf as [|b0 [|b1 [|b2 [|b3 r]]]]; try (apply crc_update_c_small; cbn [length]; lia).
    inversion Hb as [|? ? H0 Hb1]; subst. inversion Hb1 as [|? ? H1 Hb2]; subst.
    inversion Hb2 as [|? ? H2 Hb3]; subst. inversion Hb3 as [|? ? H3 Hr]; subst.
    unfold is_byte in *.
    rewrite crc_update_c_cons4, crc_slice4_eq_bytes_proof by assumption.
    change (fold_left crc_byte_step (b0 :: b1 :: b2 :: b3 :: r) st)
      with (fold_left crc_byte_step r (fold_left crc_byte_step [b0; b1; b2; b3] st)).
    apply IH.
    + cbn [length] in Hl. lia.
    + apply fold_byte_step_lt; [exact Hs|]. repeat constructor; assumption.
    + exact Hr.
Qed.

Theorem crc_update_c_eq_bytes st buf : st < 2 ^ 32 -> bytes_ok buf ->
  crc_update_c st buf = fold_left crc_byte_step buf st.
Proof. apply (crc_update_c_eq_n (length buf)). lia. Qed.

Lemma crc_update_c_lt st buf : st < 2 ^ 32 -> bytes_ok buf -> crc_update_c st buf < 2 ^ 32.
Proof. intros Hs Hb. rewrite crc_update_c_eq_bytes by assumption. apply fold_byte_step_lt; assumption. Qed.

Lemma crc_init_lt : crc_init < 2 ^ 32.
Proof. vm_compute. reflexivity. Qed.

Lemma bytes_ok_app a b : bytes_ok a -> bytes_ok b -> bytes_ok (a ++ b).
Proof. unfold bytes_ok. intros. apply Forall_app. split; assumption. Qed.

Lemma bytes_ok_concat parts : Forall bytes_ok parts -> bytes_ok (concat parts).
Proof.
  induction parts as [|p r IH]; intros H; [constructor|].
  inversion H; subst. cbn [concat]. apply bytes_ok_app; [assumption | apply IH; assumption].
Qed.

(* every partition into Update calls gives the state of the single call *)
Theorem crc_update_c_partition parts : forall st, st < 2 ^ 32 -> Forall bytes_ok parts ->
  fold_left crc_update_c parts st = crc_update_c st (concat parts).
Proof.
  induction parts as [|p r IH]; intros st Hs Hp.
  - reflexivity.
  - inversion Hp as [|? ? Hb Hr]; subst. cbn [fold_left concat].
    pose proof (crc_update_c_lt st p Hs Hb) as Hs'.
    pose proof (bytes_ok_concat r Hr) as Hc.
    rewrite (IH _ Hs' Hr).
    rewrite (crc_update_c_eq_bytes _ _ Hs' Hc), (crc_update_c_eq_bytes _ _ Hs Hb).
    rewrite (crc_update_c_eq_bytes _ _ Hs (bytes_ok_app _ _ Hb Hc)).
    rewrite fold_left_app. reflexivity.
Qed.

Theorem crc_streaming_eq_oneshot parts : Forall bytes_ok parts ->
  crc_stream_c parts = crc_stream_c [concat parts].
Proof.
  intros H. unfold crc_stream_c. cbn [fold_left]. rewrite crc_update_c_partition; [reflexivity | apply crc_init_lt | exact H].
Qed.

(* ------------------------------------------------------------------ *)
(* G7: the algebraic meaning                                            *)
(* ------------------------------------------------------------------ *)
Lemma map_seq_shift {A} len k : forall (f : nat -> A),
  map f (seq k len) = map (fun i => f (i + k)%nat) (seq 0 len).
Proof.
  induction k as [|k IH]; intros f.
  - apply map_ext. intros i. f_equal. lia.
  - rewrite <- seq_shift, map_map, IH. apply map_ext. intros i. f_equal. lia.
Qed.

Lemma nbits_byte_of st k :
  nbits_lsb 8 (N.land (N.shiftr st (N.of_nat k)) 255) =
  map (fun i => N.testbit st (N.of_nat i)) (seq k 8).
Proof.
  rewrite map_seq_shift. unfold nbits_lsb. apply map_ext_in. intros i Hi. apply in_seq in Hi.
  rewrite N.land_spec, N.shiftr_spec', Nat2N.inj_add. change 255 with (N.ones 8).
  rewrite N.ones_spec_low by lia. apply andb_true_r.
Qed.

Lemma crc_final_unfold st :
  crc_final st = [N.land (N.shiftr st 0) 255; N.land (N.shiftr st 8) 255;
                  N.land (N.shiftr st 16) 255; N.land (N.shiftr st 24) 255].
Proof. reflexivity. Qed.

(* CRC32C_Final writes the register least significant bit first *)
Lemma bits_lsb_crc_final st : bits_lsb (crc_final st) = nbits_lsb 32 st.
Proof.
  rewrite crc_final_unfold. unfold bits_lsb. cbn [flat_map].
  change 0 with (N.of_nat 0) at 1. change 8 with (N.of_nat 8) at 1.
  change 16 with (N.of_nat 16). change 24 with (N.of_nat 24).
  rewrite !nbits_byte_of, app_nil_r, <- !map_app. reflexivity.
Qed.

Lemma crc_final_bytes_ok st : bytes_ok (crc_final st).
Proof. rewrite crc_final_unfold. repeat constructor; apply land255_lt. Qed.

Lemma crc_final_length st : length (crc_final st) = 4%nat.
Proof. reflexivity. Qed.

(* The invariant: after the bits [bits], the register is reflect((x^32 * M) mod P), where
   M = the polynomial of 1 || bits. *)
Theorem crc_state_invariant bits :
  crc_bits crc_init bits = reflect 32 (xpow 32 (pmod (poly_of_bits (true :: bits)) castagnoli)).
Proof.
  pose proof (crc_bits_algebra bits 1 0 ltac:(reflexivity) ltac:(reflexivity)) as H.
  rewrite xpow_0, !N.lxor_0_r, xpow32_1, reflect32_poly32 in H.
  rewrite repo_init_value, H. f_equal. f_equal.
  change (poly_of_bits (true :: bits)) with (poly_of_bits_from 1 bits).
  rewrite pmod_poly_of_bits_from. reflexivity.
Qed.

Theorem crc32c_algebraic_proof data :
  bytes_ok data -> crc_spec_ok data (crc_final (crc_update_c crc_init data)).
Proof.
  intros Hd. unfold crc_spec_ok, crc_codeword.
  rewrite crc_update_c_eq_bytes by (try exact Hd; apply crc_init_lt).
  rewrite fold_byte_step_eq_bits by exact Hd.
  rewrite bits_lsb_crc_final.
  set (bits := bits_lsb data).
  change (poly_of_bits (true :: bits ++ nbits_lsb 32 (crc_bits crc_init bits)))
    with (poly_of_bits_from 1 (bits ++ nbits_lsb 32 (crc_bits crc_init bits))).
  rewrite pmod_poly_of_bits_from, fold_left_app.
  change (pmod 1 castagnoli) with 1.
  rewrite feed_short by (rewrite nbits_lsb_length; lia).
  rewrite nbits_lsb_length.
  rewrite <- (reflect_unfold 32 (crc_bits crc_init bits)).
  rewrite crc_state_invariant.
  change (poly_of_bits (true :: bits)) with (poly_of_bits_from 1 bits).
  rewrite pmod_poly_of_bits_from. change (pmod 1 castagnoli) with 1.
  rewrite reflect32_invol by (apply xpow_lt, fold_pstep_lt; reflexivity).
  apply N.lxor_nilpotent.
Qed.

(* streaming interface, every partition *)
Theorem crc32c_algebraic_stream parts :
  Forall bytes_ok parts -> crc_spec_ok (concat parts) (crc_stream_c parts).
Proof.
  intros H. unfold crc_stream_c. rewrite crc_update_c_partition by (try exact H; apply crc_init_lt).
  apply crc32c_algebraic_proof, bytes_ok_concat, H.
Qed.

(* the bit-serial reference of the spec computes the same value *)
Theorem crc_model_eq_ref data : bytes_ok data -> crc_stream_c [data] = crc_ref data.
Proof.
  intros Hd. unfold crc_stream_c, crc_ref, crc_ref_state. cbn [fold_left].
  rewrite crc_update_c_eq_bytes by (try exact Hd; apply crc_init_lt).
  rewrite crc_final_unfold. unfold le32_bytes.
  assert (fold_left crc_byte_step data crc_init = fold_left crc_byte_bits data crc_ref_init) as ->.
  { rewrite <- repo_init_eq_spec. generalize crc_init. induction data as [|b r IH]; intros s; [reflexivity|].
    inversion Hd as [|? ? Hb Hr]; subst. cbn [fold_left].
    rewrite crc_table_step_eq_bits_proof by exact Hb. apply IH, Hr. }
  set (s := fold_left crc_byte_bits data crc_ref_init).
  rewrite N.shiftr_0_r. change 255 with (N.ones 8). rewrite !N.land_ones, !N.shiftr_div_pow2.
  reflexivity.
Qed.

(* ------------------------------------------------------------------ *)
(* the spec's pmod really is the polynomial remainder (sanity of the spec) *)
(* ------------------------------------------------------------------ *)
Lemma pmul_pshift_in q b m : pmul (pshift_in q b) m = N.lxor (N.double (pmul q m)) (if b then m else 0).
Proof.
  destruct q as [|p], b; cbn [pshift_in N.succ_double N.double pmul pmul_pos]; try reflexivity.
  - rewrite N.lxor_0_r. reflexivity.
Qed.

Theorem pmod_is_remainder a :
  exists q, a = N.lxor (pmul q castagnoli) (pmod a castagnoli) /\ pmod a castagnoli < 2 ^ 32.
Proof.
  assert (forall n : nat, forall a, a < 2 ^ N.of_nat n ->
            exists q, a = N.lxor (pmul q castagnoli) (pmod a castagnoli)) as H.
  { induction n as [|n IH]; intros x Hx.
    - simpl in Hx. assert (x = 0) as -> by lia. exists 0. reflexivity.
    - rewrite Nat2N.inj_succ in Hx. pose proof (div2_lt x _ Hx) as Hh.
      destruct (IH _ Hh) as [q Hq]. pose proof (pshift_in_div2 x) as E.
      set (h := N.div2 x) in *. set (o := N.odd x) in *.
      rewrite E. rewrite pmod_pshift_in.
      unfold pstep. change (pdeg castagnoli) with 32.
      destruct (N.testbit (pshift_in (pmod h castagnoli) o) 32).
      + exists (pshift_in q true). rewrite pmul_pshift_in.
        rewrite Hq at 1. rewrite <- (xorb_false_l o) at 1. rewrite pshift_in_xor.
        rewrite (pshift_in_lxor (pmul q castagnoli) false). cbn [N.b2n]. xor_solve.
      + exists (pshift_in q false). rewrite pmul_pshift_in.
        rewrite Hq at 1. rewrite <- (xorb_false_l o) at 1. rewrite pshift_in_xor.
        rewrite (pshift_in_lxor (pmul q castagnoli) false). cbn [N.b2n]. xor_solve. }
  destruct (H (N.to_nat (N.succ (N.log2 a))) a) as [q Hq].
  { rewrite N2Nat.id. destruct (N.eq_dec a 0) as [->|Hne]; [reflexivity|]. apply N.log2_lt_pow2; lia. }
  exists q. split; [exact Hq | apply pmod_lt].
Qed.

(* ------------------------------------------------------------------ *)
(* non-vacuity / sanity examples                                        *)
(* ------------------------------------------------------------------ *)
(* RFC 3720 B.4 style check value: CRC-32C("123456789") = 0xE3069283 (with the usual pre/post
   inversion); in this library's convention the same register arithmetic starts from the CRC of a
   leading 1 bit and does no final inversion, so we only pin the library's own test vector. *)
Example crc_hello_world : crc_stream_c [crc_hwtest_buf] = crc_hwtest_crc.
Proof. vm_compute. reflexivity. Qed.
Example crc_ref_hello_world : crc_ref crc_hwtest_buf = crc_hwtest_crc.
Proof. vm_compute. reflexivity. Qed.
Example crc_spec_ok_example : crc_spec_okb [1; 2; 3] (crc_stream_c [[1]; []; [2; 3]]) = true.
Proof. vm_compute. reflexivity. Qed.
Example crc_spec_rejects_wrong : crc_spec_okb [1; 2; 3] [0; 0; 0; 0] = false.
Proof. vm_compute. reflexivity. Qed.
(* a wrong last bit is always rejected *)
Example crc_spec_rejects_flip : crc_spec_okb crc_hwtest_buf [202; 19; 11; 171] = false.
Proof. vm_compute. reflexivity. Qed.
Example slice4_example :
  crc_slice4 305419896 1 2 3 4 = fold_left crc_byte_step [1; 2; 3; 4] 305419896.
Proof. vm_compute. reflexivity. Qed.
(* the multiplication used in pmod_is_remainder is the carry-less product *)
Example pmul_example : pmul 7 5 = 27 /\ pmul 3 3 = 5.
Proof. split; reflexivity. Qed.
