(* Generic Merkle-Damgard streaming theory for 64-byte blocks, parametric in the compression
   function and the chaining value the stream starts from.  [Inv st buf m] says that (st, buf) is
   what absorbing the byte string m leaves behind: st is the fold of compress over the whole
   blocks of m and the first |m| mod 64 bytes of buf are the pending residue.  The shared update
   body (MDModel.update_body) preserves it (M2); padding lemmas for both padding styles. *)
From Coq Require Import Arith NArith ZArith List Lia ZifyNat ZifyN.
From LCP Require Import Alg.Words Alg.WordsProofs Alg.MDSpec Alg.MDModel.
Import ListNotations.
Ltac Zify.zify_post_hook ::= Z.to_euclidean_division_equations.

(* ---------------- blocks ---------------- *)
Lemma chunks_app k : forall a b j, length a = (64 * k)%nat ->
  chunks (k + j) (a ++ b) = chunks k a ++ chunks j b.
Proof.
  induction k as [|k IH]; intros a b j H.
  - destruct a; [reflexivity|discriminate].
  - cbn [Nat.add chunks app]. 
    rewrite firstn_app, skipn_app.
    replace (64 - length a)%nat with 0%nat by lia.
    change (firstn 0 b) with (@nil N). change (skipn 0 b) with b. rewrite app_nil_r.
    f_equal. apply IH. rewrite skipn_length. lia.
Qed.

Lemma chunks_firstn k : forall l, chunks k (firstn (64 * k) l) = chunks k l.
Proof.
  induction k as [|k IH]; intros l; [reflexivity|]. cbn [chunks].
  rewrite firstn_firstn. replace (Nat.min 64 (64 * S k)) with 64%nat by lia. f_equal.
  replace (64 * S k)%nat with (64 + 64 * k)%nat by lia.
  rewrite <- (IH (skipn 64 l)). f_equal.
  rewrite skipn_firstn_comm. f_equal. lia.
Qed.

Lemma chunks_short k : forall a b, (64 * k <= length a)%nat -> chunks k (a ++ b) = chunks k a.
Proof.
  induction k as [|k IH]; intros a b H; [reflexivity|]. cbn [chunks].
  rewrite firstn_app, skipn_app.
  replace (64 - length a)%nat with 0%nat by lia.
  change (firstn 0 b) with (@nil N). change (skipn 0 b) with b. rewrite app_nil_r. f_equal.
  apply IH. rewrite skipn_length. lia.
Qed.

Lemma blocks_app a b k : length a = (64 * k)%nat -> blocks (a ++ b) = blocks a ++ blocks b.
Proof.
  intros H. unfold blocks. rewrite app_length.
  replace ((length a + length b) / 64)%nat with (k + length b / 64)%nat by lia.
  replace (length a / 64)%nat with k by lia.
  apply chunks_app. exact H.
Qed.

Lemma blocks_one b : length b = 64%nat -> blocks b = [b].
Proof.
  intros H. unfold blocks. rewrite H. change (64 / 64)%nat with 1%nat. cbn [chunks].
  rewrite firstn_all2 by lia. reflexivity.
Qed.

Lemma blocks_small b : (length b < 64)%nat -> blocks b = [].
Proof. intros H. unfold blocks. replace (length b / 64)%nat with 0%nat by lia. reflexivity. Qed.

Lemma blocks_residue a r : (length r < 64)%nat -> (exists k, length a = (64 * k)%nat) ->
  blocks (a ++ r) = blocks a.
Proof.
  intros Hr [k Hk]. rewrite (blocks_app a r k Hk), (blocks_small r) by exact Hr. apply app_nil_r.
Qed.

Lemma skipn_add (A : Type) y : forall x (l : list A), skipn x (skipn y l) = skipn (y + x) l.
Proof.
  induction y as [|y IH]; intros x l; [reflexivity|].
  destruct l as [|a l]; [rewrite !skipn_nil; reflexivity|]. cbn [skipn Nat.add]. apply IH.
Qed.

Lemma firstn_repeat (x : N) n k : (k <= n)%nat -> firstn k (repeat x n) = repeat x k.
Proof.
  revert n. induction k as [|k IH]; intros n H; [reflexivity|].
  destruct n; [lia|]. cbn [repeat firstn]. f_equal. apply IH. lia.
Qed.

Lemma repeat_app_plus (x : N) a b : repeat x (a + b) = repeat x a ++ repeat x b.
Proof. induction a as [|a IH]; [reflexivity|]. cbn [Nat.add repeat app]. f_equal. exact IH. Qed.

Section MD.
  Variable compress : list N -> list N -> list N.
  Variable st0 : list N.

  Definition Inv (st buf m : list N) : Prop :=
    exists F R, m = F ++ R /\ (exists q, length F = (64 * q)%nat) /\ (length R < 64)%nat /\
      st = fold_left compress (blocks F) st0 /\ length buf = 64%nat /\ firstn (length R) buf = R.

  Lemma Inv_init buf : length buf = 64%nat -> Inv st0 buf [].
  Proof.
    intros H. exists [], []. repeat split; try reflexivity; auto.
    - exists 0%nat. reflexivity.
    - simpl. lia.
  Qed.

  Lemma Inv_residue st buf m : Inv st buf m ->
    exists F R, m = F ++ R /\ (exists q, length F = (64 * q)%nat) /\ length R = (length m mod 64)%nat /\
      st = fold_left compress (blocks F) st0 /\ length buf = 64%nat /\ firstn (length R) buf = R.
  Proof.
    intros (F & R & -> & [q HF] & HR & Hst & Hb & HbR). exists F, R.
    repeat split; auto; [exists q; exact HF|]. rewrite app_length. lia.
  Qed.

  (* all of m absorbed when |m| is a multiple of 64 *)
  Lemma Inv_full st buf m : Inv st buf m -> (length m mod 64 = 0)%nat ->
    st = fold_left compress (blocks m) st0.
  Proof.
    intros H Hm. apply Inv_residue in H. destruct H as (F & R & -> & _ & HR & Hst & _).
    rewrite Hm in HR. destruct R; [|discriminate]. rewrite app_nil_r. exact Hst.
  Qed.

  Lemma whole_blocks_spec : forall fuel st src, (length src / 64 <= fuel)%nat ->
    whole_blocks compress 64 fuel st src (length src) =
    (fold_left compress (blocks src) st, skipn (64 * (length src / 64)) src).
  Proof.
    induction fuel as [|fuel IH]; intros st src Hf.
    - cbn [whole_blocks]. rewrite blocks_small by lia.
      replace (length src / 64)%nat with 0%nat by lia. reflexivity.
    - cbn [whole_blocks]. destruct (Nat.leb_spec 64 (length src)) as [Hge|Hlt].
      + replace (length src - 64)%nat with (length (skipn 64 src)) by (rewrite skipn_length; reflexivity).
        rewrite IH by (rewrite skipn_length; lia).
        rewrite skipn_length.
        assert (length src / 64 = S ((length src - 64) / 64))%nat as Hq by lia.
        unfold blocks at 2. rewrite Hq. cbn [chunks fold_left].
        unfold blocks. rewrite skipn_length. f_equal.
        rewrite skipn_add. f_equal. lia.
      + rewrite blocks_small by lia.
        replace (length src / 64)%nat with 0%nat by lia. reflexivity.
  Qed.

  (* M2: the shared update body preserves the invariant *)
  Theorem update_body_inv st buf m d :
    Inv st buf m ->
    Inv (fst (update_body compress 64 st buf (length m mod 64) d))
        (snd (update_body compress 64 st buf (length m mod 64) d)) (m ++ d).
  Proof.
    intros H. apply Inv_residue in H.
    destruct H as (F & R & Hm & [q HF] & HR & Hst & Hb & HbR).
    rewrite <- HR. assert (HR64 : (length R < 64)%nat) by lia.
    unfold update_body. destruct (Nat.ltb_spec (length d) (64 - length R)) as [Hlt|Hge].
    - (* copy only *)
      cbn [fst snd]. exists F, (R ++ d). subst m.
      assert (HL : length (buf_write buf (length R) d) = 64%nat).
      { unfold buf_write. rewrite !app_length, firstn_length, skipn_length. lia. }
      repeat split; auto.
      + rewrite app_assoc. reflexivity.
      + exists q; exact HF.
      + rewrite app_length. lia.
      + unfold buf_write. rewrite HbR. rewrite app_assoc.
        rewrite firstn_app. rewrite firstn_all. rewrite Nat.sub_diag. cbn [firstn]. apply app_nil_r.
    - (* finish the block, whole blocks from the source, left-over *)
      set (d1 := firstn (64 - length R) d). set (d2 := skipn (64 - length R) d).
      assert (Hd1 : length d1 = (64 - length R)%nat) by (unfold d1; rewrite firstn_length; lia).
      assert (Hd2 : length d2 = (length d - (64 - length R))%nat) by (unfold d2; apply skipn_length).
      assert (Hd : d = d1 ++ d2) by (unfold d1, d2; symmetry; apply firstn_skipn).
      assert (Hb1 : buf_write buf (length R) d1 = R ++ d1).
      { unfold buf_write. rewrite HbR. rewrite skipn_all2 by lia. rewrite app_nil_r. reflexivity. }
      rewrite Hb1. rewrite <- Hd2.
      rewrite whole_blocks_spec by lia.
      cbn [fst snd].
      set (k := (length d2 / 64)%nat).
      set (tl := skipn (64 * k) d2).
      assert (Htl : (length tl < 64)%nat) by (unfold tl; rewrite skipn_length; unfold k; lia).
      assert (HRd1 : length (R ++ d1) = 64%nat) by (rewrite app_length; lia).
      exists (F ++ (R ++ d1) ++ firstn (64 * k) d2), tl.
      assert (HL : length (buf_write (R ++ d1) 0 tl) = 64%nat).
      { unfold buf_write. cbn [firstn app Nat.add]. rewrite app_length, skipn_length. lia. }
      repeat split; auto.
      + subst m. rewrite Hd. unfold tl. rewrite <- !app_assoc. do 3 f_equal.
        symmetry. apply firstn_skipn.
      + exists (q + 1 + k)%nat. rewrite !app_length, firstn_length. unfold k. lia.
      + rewrite (blocks_app F _ q HF), (blocks_app (R ++ d1) _ 1) by lia.
        rewrite !fold_left_app. rewrite (blocks_one (R ++ d1) HRd1). cbn [fold_left].
        rewrite Hst. f_equal.
        unfold blocks. rewrite firstn_length.
        replace (Nat.min (64 * k) (length d2) / 64)%nat with k by (unfold k; lia).
        fold k. symmetry. apply chunks_firstn.
      + unfold buf_write. cbn [firstn app Nat.add].
        rewrite firstn_app, firstn_all, Nat.sub_diag. cbn [firstn]. apply app_nil_r.
  Qed.
End MD.
