(* alg/md5.c model = RFC 1321.  MD5_Transform (64 macro invocations on a rotating array of 4
   words, taken from the source by the translator) equals the RFC's 64 operations on (A,B,C,D),
   by a per-step simulation; then the streaming theorems by instantiating MD32Proofs. *)
From Coq Require Import Arith NArith ZArith List Lia ZifyNat ZifyN.
From LCP Require Import Alg.Words Alg.WordsProofs Alg.MDSpec Alg.MDModel Alg.MDStreaming Alg.MD32Model Alg.MD32Proofs Alg.Md5Spec Alg.Md5Model.
Import ListNotations.
Local Open Scope N_scope.
Ltac Zify.zify_post_hook ::= Z.to_euclidean_division_equations.

(* what the translator must find in alg/md5.c, stated from the RFC *)
Definition md5_formulas_spec : list (N * N * N) := [(1, 0, 16); (5, 1, 16); (3, 5, 16); (7, 0, 16)].
Definition md5_op_spec (t : nat) : N * N * N * N := (N.of_nat (t / 16), N.of_nat t, r5_s t, nth t T_md5 0).
Definition md5_ops_spec : list (N * N * N * N) := map md5_op_spec (seq 0 64).

Lemma c5_F_eq x y z : c5_F x y z = r5_F x y z.
Proof. unfold c5_F, r5_F. bitwise. Qed.
Lemma c5_G_eq x y z : c5_G x y z = r5_G x y z.
Proof. unfold c5_G, r5_G. bitwise. Qed.
Lemma c5_H_eq x y z : c5_H x y z = r5_H x y z.
Proof. reflexivity. Qed.
Lemma c5_I_eq x y z : c5_I x y z = r5_I x y z.
Proof. unfold c5_I, r5_I. apply N.lxor_comm. Qed.

Definition rotv4 (r : nat) (v : list N) : list N := skipn r v ++ firstn r v.

Arguments add32 : simpl never.
Arguments rotl32 : simpl never.
Arguments c5_F : simpl never.
Arguments c5_G : simpl never.
Arguments c5_H : simpl never.
Arguments c5_I : simpl never.
Arguments r5_F : simpl never.
Arguments r5_G : simpl never.
Arguments r5_H : simpl never.
Arguments r5_I : simpl never.

Lemma c5_rnd_sim X t a b c d : (t < 64)%nat ->
  c5_rnd md5_formulas_spec X (rotv4 (t mod 4) [a; b; c; d]) (md5_op_spec t) =
  rotv4 ((t + 1) mod 4) (r5_step X [a; b; c; d] t).
Proof.
  intros Ht.
  do 64 (destruct t as [|t];
         [ cbv -[add32 rotl32 c5_F c5_G c5_H c5_I r5_F r5_G r5_H r5_I nth];
           rewrite ?c5_F_eq, ?c5_G_eq, ?c5_H_eq, ?c5_I_eq; reflexivity | ]).
  lia.
Qed.

Lemma rotv4_0 v : rotv4 0 v = v.
Proof. unfold rotv4. cbn [skipn firstn]. apply app_nil_r. Qed.

Lemma r5_step_length X v t : length v = 4%nat -> length (r5_step X v t) = 4%nat.
Proof.
  intros H. do 4 (destruct v as [|? v]; [discriminate|]). destruct v; [|discriminate]. reflexivity.
Qed.

Lemma md5_rounds_sim X : forall n i v, (i + n <= 64)%nat -> length v = 4%nat ->
  fold_left (fun s t => c5_rnd md5_formulas_spec X s (md5_op_spec t)) (seq i n) (rotv4 (i mod 4) v) =
  rotv4 ((i + n) mod 4) (fold_left (r5_step X) (seq i n) v).
Proof.
  induction n as [|n IH]; intros i v Hin Hv.
  - cbn [seq fold_left]. rewrite Nat.add_0_r. reflexivity.
  - cbn [seq fold_left]. assert (Hv' := Hv).
    do 4 (destruct v as [|? v]; [discriminate|]). destruct v; [|discriminate].
    rewrite c5_rnd_sim by lia.
    replace (i + S n)%nat with (S i + n)%nat by lia.
    replace (i + 1)%nat with (S i) by lia.
    apply IH; [lia|]. apply r5_step_length. exact Hv'.
Qed.

Definition T_md5x := c5_transform md5_formulas_spec md5_ops_spec.

Lemma fold_left_map_5 (A B C : Type) (f : A -> B -> A) (g : C -> B) l : forall a,
  fold_left f (map g l) a = fold_left (fun a x => f a (g x)) l a.
Proof. induction l as [|x l IH]; intros a; [reflexivity|]. cbn [map fold_left]. apply IH. Qed.

(* M1 for MD5 *)
Theorem md5_transform_eq_compress st block :
  length st = 4%nat -> length block = 64%nat -> T_md5x st block = r5_compress st block.
Proof.
  intros Hst Hb. unfold T_md5x, c5_transform, r5_compress. f_equal.
  unfold md5_ops_spec. rewrite fold_left_map_5.
  pose proof (md5_rounds_sim (le32dec_vect block) 64 0 st (le_n _) Hst) as H.
  change (0 mod 4)%nat with 0%nat in H. change ((0 + 64) mod 4)%nat with 0%nat in H.
  rewrite !rotv4_0 in H. exact H.
Qed.

(* ================= streaming ================= *)
Lemma r5_compress_length st block : length st = 4%nat -> length (r5_compress st block) = 4%nat.
Proof.
  intros H. unfold r5_compress. rewrite map2_length.
  assert (forall n i v, length v = 4%nat ->
            length (fold_left (r5_step (le32dec_vect block)) (seq i n) v) = 4%nat) as HL.
  { induction n as [|n IH]; intros i v Hv; cbn [seq fold_left]; [exact Hv|].
    apply IH, r5_step_length, Hv. }
  rewrite HL by exact H. rewrite H. reflexivity.
Qed.

Lemma md5_enc hi lo : hi < M32 -> lo < M32 ->
  le32enc_vect (if false then [hi; lo] else [lo; hi]) = le64enc_spec (hi * M32 + lo).
Proof.
  intros _ Hlo. unfold le64enc_spec. rewrite le64enc_halves by exact Hlo.
  unfold le32enc_vect. cbn [flat_map]. rewrite app_nil_r. reflexivity.
Qed.
Lemma le64enc_spec_length x : length (le64enc_spec x) = 8%nat.
Proof. reflexivity. Qed.

Definition upd5 := c32_update T_md5x false 3 29 63 64.
Definition fin5 (wipe : ctx32 -> ctx32) := c32_final T_md5x le32enc_vect PAD_spec32 false 56 120 3 29 63 64 wipe.
Definition init5 := c32_init IV_md5 false.
Definition buf5 := c32_buf_oneshot T_md5x le32enc_vect IV_md5 PAD_spec32 false 56 120 3 29 63 64.

Definition MD5_resume (st : list N) (bits : N) (buf d : list N) : list N :=
  le32enc_vect (md_resume r5_compress le64enc_spec st bits buf d).

(* streaming from ANY well-formed context *)
Theorem md5_resume_correct wipe c parts : wf32 4 false c ->
  fst (fin5 wipe (fold_left upd5 parts c)) =
  MD5_resume (c32_state c) (c32_count1 c * M32 + c32_count0 c) (c32_buf c) (concat parts).
Proof.
  intros H. unfold fin5, upd5, MD5_resume.
  apply (md32_resume_correct T_md5x r5_compress 4 le32enc_vect le64enc_spec IV_md5 false
           md5_enc le64enc_spec_length md5_transform_eq_compress r5_compress_length wipe c parts H).
Qed.

Lemma wf32_init5 : wf32 4 false init5.
Proof. repeat split; try reflexivity. Qed.

(* M3 for MD5 (RFC 1321 itself takes the bit length modulo 2^64: no length hypothesis) *)
Theorem md5_streaming_correct wipe parts :
  fst (fin5 wipe (fold_left upd5 parts init5)) = MD5_spec (concat parts).
Proof. rewrite md5_resume_correct by apply wf32_init5. reflexivity. Qed.

Theorem md5_oneshot_correct m : buf5 m = MD5_spec m.
Proof.
  unfold buf5, c32_buf_oneshot. fold (fin5 (fun c => c)) init5.
  change (c32_update T_md5x false 3 29 63 64 init5 m) with (fold_left upd5 [m] init5).
  rewrite md5_streaming_correct. cbn [concat]. rewrite app_nil_r. reflexivity.
Qed.

(* the digest does not depend on what Final does to the context afterwards *)
Lemma fin5_fst wipe c : fst (fin5 wipe c) = fst (fin5 (fun c => c) c).
Proof. reflexivity. Qed.
Lemma fin5_snd wipe c : snd (fin5 wipe c) = wipe (snd (fin5 (fun c => c) c)).
Proof. reflexivity. Qed.

Lemma MD5_spec_length m : length (MD5_spec m) = 16%nat.
Proof.
  unfold MD5_spec, md_hash. rewrite le32enc_vect_length.
  assert (forall bs st, length st = 4%nat -> length (fold_left r5_compress bs st) = 4%nat) as H.
  { induction bs as [|b bs IH]; intros st Hst; [exact Hst|]. cbn [fold_left].
    apply IH, r5_compress_length, Hst. }
  rewrite H by reflexivity. reflexivity.
Qed.
