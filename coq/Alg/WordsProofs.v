(* Facts about the word vocabulary of Words.v: truncation is reduction modulo 2^32 / 2^64,
   a reflective normaliser for nested add32 sums, a bitwise-identity tactic, list-update and
   length lemmas, and the bit-count / residue arithmetic used by the streaming proofs. *)
From Coq Require Import Arith NArith ZArith List Lia ZifyNat ZifyN Bool.
From LCP Require Import Alg.Words.
Import ListNotations.
Local Open Scope N_scope.

Ltac Zify.zify_post_hook ::= Z.to_euclidean_division_equations.

Definition M32 : N := 4294967296.
Definition M64 : N := 18446744073709551616.

Lemma w32_mod x : w32 x = x mod M32.
Proof. unfold w32, mask32, M32. change 4294967295 with (N.ones 32). rewrite N.land_ones. reflexivity. Qed.
Lemma w64_mod x : w64 x = x mod M64.
Proof. unfold w64, mask64, M64. change 18446744073709551615 with (N.ones 64). rewrite N.land_ones. reflexivity. Qed.
Lemma add32_mod a b : add32 a b = (a + b) mod M32.
Proof. unfold add32. apply w32_mod. Qed.
Lemma add32_lt a b : add32 a b < M32.
Proof. rewrite add32_mod. apply N.mod_lt. discriminate. Qed.

(* ---- reflective normalisation of nested add32 ---- *)
Inductive aexp : Type := Atom (n : N) | Add (a b : aexp).
Fixpoint eval32 (e : aexp) : N :=
  match e with Atom n => n | Add a b => add32 (eval32 a) (eval32 b) end.
Fixpoint evalsum (e : aexp) : N :=
  match e with Atom n => n | Add a b => evalsum a + evalsum b end.

Lemma eval32_mod e : eval32 e mod M32 = evalsum e mod M32.
Proof.
  induction e as [n|a IHa b IHb]; [reflexivity|]. cbn [eval32 evalsum].
  rewrite add32_mod, N.mod_mod by discriminate.
  rewrite (N.add_mod (eval32 a)), (N.add_mod (evalsum a)) by discriminate.
  rewrite IHa, IHb. reflexivity.
Qed.

Lemma eval32_add a b : eval32 (Add a b) = (evalsum a + evalsum b) mod M32.
Proof.
  cbn [eval32]. rewrite add32_mod.
  rewrite (N.add_mod (eval32 a)), (N.add_mod (evalsum a)) by discriminate.
  rewrite !eval32_mod. reflexivity.
Qed.

Ltac reify32 e :=
  lazymatch e with
  | add32 ?a ?b => let ra := reify32 a in let rb := reify32 b in constr:(Add ra rb)
  | _ => constr:(Atom e)
  end.
(* closes goals  <nested add32 sum> = <nested add32 sum>  whose atoms agree up to permutation *)
Ltac add32_ac :=
  lazymatch goal with
  | |- ?L = ?R =>
    let l := reify32 L in let r := reify32 R in
    change (eval32 l = eval32 r); rewrite !eval32_add; cbn [evalsum]; f_equal; lia
  end.

(* ---- bitwise identities ---- *)
Ltac bitwise :=
  let n := fresh "n" in
  apply N.bits_inj; intro n;
  repeat rewrite ?N.lxor_spec, ?N.land_spec, ?N.lor_spec, ?N.ldiff_spec;
  repeat match goal with |- context [N.testbit ?x n] => destruct (N.testbit x n) end;
  reflexivity.

(* ---- list update ---- *)
Lemma upd_length l i v : length (upd l i v) = length l.
Proof. revert i. induction l as [|x r IH]; intros [|i]; simpl; auto. Qed.
Lemma nth_upd_eq l i v d : (i < length l)%nat -> nth i (upd l i v) d = v.
Proof. revert i. induction l as [|x r IH]; intros [|i] H; simpl in *; try lia; auto. apply IH. lia. Qed.
Lemma nth_upd_neq l i j v d : i <> j -> nth j (upd l i v) d = nth j l d.
Proof.
  revert i j. induction l as [|x r IH]; intros [|i] [|j] H; simpl; auto; try congruence.
Qed.
Lemma upd_upd l i v w : upd (upd l i v) i w = upd l i w.
Proof. revert i. induction l as [|x r IH]; intros [|i]; simpl; auto. f_equal. apply IH. Qed.

Lemma map2_length f a b : length (map2 f a b) = Nat.min (length a) (length b).
Proof. revert b. induction a as [|x a IH]; intros [|y b]; simpl; auto. Qed.

(* ---- lengths of the codecs ---- *)
Lemma be32enc_vect_length ws : length (be32enc_vect ws) = (4 * length ws)%nat.
Proof. induction ws as [|w r IH]; simpl; lia. Qed.
Lemma le32enc_vect_length ws : length (le32enc_vect ws) = (4 * length ws)%nat.
Proof. induction ws as [|w r IH]; simpl; lia. Qed.
Lemma be64enc_length x : length (be64enc x) = 8%nat.
Proof. reflexivity. Qed.

(* ---- byte range of the encoders ---- *)
Lemma byte0_lt x : byte0 x < 256.
Proof. unfold byte0. change 255 with (N.ones 8). rewrite N.land_ones. apply N.mod_lt. discriminate. Qed.

(* ---- the two 32-bit halves of a 64-bit value, big- and little-endian ---- *)
Lemma shiftr_low hi lo k : lo < M32 -> (k = 0 \/ k = 8 \/ k = 16 \/ k = 24) ->
  byte0 (N.shiftr (hi * M32 + lo) k) = byte0 (N.shiftr lo k).
Proof.
  intros Hlo Hk. unfold byte0. change 255 with (N.ones 8). rewrite !N.land_ones.
  rewrite !N.shiftr_div_pow2. unfold M32 in *.
  destruct Hk as [-> | [-> | [-> | ->]]].
  - change (2 ^ 0) with 1. change (2 ^ 8) with 256. lia.
  - change (2 ^ 8) with 256. lia.
  - change (2 ^ 16) with 65536. change (2 ^ 8) with 256. lia.
  - change (2 ^ 24) with 16777216. change (2 ^ 8) with 256. lia.
Qed.

Lemma shiftr_high hi lo k : lo < M32 -> (k = 0 \/ k = 8 \/ k = 16 \/ k = 24) ->
  byte0 (N.shiftr (hi * M32 + lo) (32 + k)) = byte0 (N.shiftr hi k).
Proof.
  intros Hlo Hk. unfold byte0. change 255 with (N.ones 8). rewrite !N.land_ones.
  rewrite !N.shiftr_div_pow2. unfold M32 in *.
  destruct Hk as [-> | [-> | [-> | ->]]]; cbn [N.add Pos.add Pos.succ].
  - change (2 ^ 32) with 4294967296. change (2 ^ 0) with 1. change (2 ^ 8) with 256. lia.
  - change (2 ^ 40) with 1099511627776. change (2 ^ 8) with 256. lia.
  - change (2 ^ 48) with 281474976710656. change (2 ^ 16) with 65536. change (2 ^ 8) with 256. lia.
  - change (2 ^ 56) with 72057594037927936. change (2 ^ 24) with 16777216. change (2 ^ 8) with 256. lia.
Qed.

Lemma be64enc_halves hi lo : lo < M32 ->
  be64enc (hi * M32 + lo) = be32enc hi ++ be32enc lo.
Proof.
  intros H. unfold be64enc, be32enc. cbn [app].
  change 56 with (32 + 24). change 48 with (32 + 16). change 40 with (32 + 8).
  change (N.shiftr (hi * M32 + lo) 32) with (N.shiftr (hi * M32 + lo) (32 + 0)).
  rewrite !shiftr_high by (auto; tauto).
  rewrite (shiftr_low hi lo 24), (shiftr_low hi lo 16), (shiftr_low hi lo 8) by (auto; tauto).
  pose proof (shiftr_low hi lo 0 H (or_introl eq_refl)) as H0. rewrite !N.shiftr_0_r in *.
  rewrite H0. reflexivity.
Qed.

Lemma le64enc_halves hi lo : lo < M32 ->
  rev (be64enc (hi * M32 + lo)) = le32enc lo ++ le32enc hi.
Proof. intros H. rewrite be64enc_halves by exact H. reflexivity. Qed.

(* ---- residue and bit count ---- *)
(* r = (count >> 3) & 0x3f with count = 8 * n mod 2^64 is n mod 64 *)
Lemma residue_of_count n : N.land (N.shiftr ((8 * n) mod M64) 3) 63 = n mod 64.
Proof.
  change 63 with (N.ones 6). rewrite N.land_ones, N.shiftr_div_pow2.
  change (2 ^ 3) with 8. change (2 ^ 6) with 64. unfold M64. lia.
Qed.
(* the same from the low 32-bit word *)
Lemma residue_of_count32 n : N.land (N.shiftr ((8 * n) mod M32) 3) 63 = n mod 64.
Proof.
  change 63 with (N.ones 6). rewrite N.land_ones, N.shiftr_div_pow2.
  change (2 ^ 3) with 8. change (2 ^ 6) with 64. unfold M32. lia.
Qed.

(* ctx->count += (uint64_t)(len) << 3 *)
Lemma count_step n len :
  w64 ((8 * n) mod M64 + w64 (N.shiftl len 3)) = (8 * (n + len)) mod M64.
Proof.
  rewrite !w64_mod, N.shiftl_mul_pow2. change (2 ^ 3) with 8. unfold M64. lia.
Qed.

(* the same when the stream started at a bit offset that is a multiple of 512 *)
Lemma residue_of_count_base base n : base mod 512 = 0 ->
  N.land (N.shiftr ((base + 8 * n) mod M64) 3) 63 = n mod 64.
Proof.
  intros Hb. change 63 with (N.ones 6). rewrite N.land_ones, N.shiftr_div_pow2.
  change (2 ^ 3) with 8. change (2 ^ 6) with 64. unfold M64. lia.
Qed.
Lemma count_step_base base n len :
  w64 ((base + 8 * n) mod M64 + w64 (N.shiftl len 3)) = (base + 8 * (n + len)) mod M64.
Proof.
  rewrite !w64_mod, N.shiftl_mul_pow2. change (2 ^ 3) with 8. unfold M64. lia.
Qed.

(* ---- the arithmetic meaning of the byte decoders and rotations (the vocabulary shared by the
        models and the specs), on bytes / 32-bit words ---- *)
Lemma testbit_small lo k n : lo < 2 ^ k -> k <= n -> N.testbit lo n = false.
Proof.
  intros Hlo Hkn. destruct (N.eq_dec lo 0) as [->|Hnz]; [apply N.bits_0|].
  apply N.bits_above_log2. apply N.log2_lt_pow2; [lia|].
  apply N.lt_le_trans with (2 ^ k); [exact Hlo|]. apply N.pow_le_mono_r; lia.
Qed.

Lemma lor_shiftl_add lo hi k : lo < 2 ^ k -> N.lor lo (N.shiftl hi k) = lo + hi * 2 ^ k.
Proof.
  intros Hlo. rewrite N.shiftl_mul_pow2.
  assert (Hd : N.land lo (hi * 2 ^ k) = 0).
  { apply N.bits_inj. intros n. rewrite N.land_spec, N.bits_0.
    destruct (N.lt_ge_cases n k) as [Hn|Hn].
    - rewrite N.mul_pow2_bits_low by exact Hn. apply andb_false_r.
    - rewrite (testbit_small lo k n Hlo Hn). reflexivity. }
  rewrite <- N.lxor_lor by exact Hd. symmetry. apply N.add_nocarry_lxor. exact Hd.
Qed.

Lemma be32dec4_arith p0 p1 p2 p3 : p0 < 256 -> p1 < 256 -> p2 < 256 -> p3 < 256 ->
  be32dec4 p0 p1 p2 p3 = p0 * 16777216 + p1 * 65536 + p2 * 256 + p3.
Proof.
  intros H0 H1 H2 H3. unfold be32dec4.
  rewrite (lor_shiftl_add p3 p2 8) by (change (2 ^ 8) with 256; exact H3).
  rewrite (lor_shiftl_add _ p1 16) by (change (2 ^ 8) with 256; change (2 ^ 16) with 65536; lia).
  rewrite (lor_shiftl_add _ p0 24) by (change (2 ^ 8) with 256; change (2 ^ 16) with 65536; change (2 ^ 24) with 16777216; lia).
  change (2 ^ 8) with 256; change (2 ^ 16) with 65536; change (2 ^ 24) with 16777216. lia.
Qed.

Lemma le32dec4_arith p0 p1 p2 p3 : p0 < 256 -> p1 < 256 -> p2 < 256 -> p3 < 256 ->
  le32dec4 p0 p1 p2 p3 = p0 + p1 * 256 + p2 * 65536 + p3 * 16777216.
Proof.
  intros H0 H1 H2 H3. unfold le32dec4.
  rewrite (lor_shiftl_add p0 p1 8) by (change (2 ^ 8) with 256; exact H0).
  rewrite (lor_shiftl_add _ p2 16) by (change (2 ^ 8) with 256; change (2 ^ 16) with 65536; lia).
  rewrite (lor_shiftl_add _ p3 24) by (change (2 ^ 8) with 256; change (2 ^ 16) with 65536; change (2 ^ 24) with 16777216; lia).
  change (2 ^ 8) with 256; change (2 ^ 16) with 65536; change (2 ^ 24) with 16777216. lia.
Qed.

(* rotations of a 32-bit word, arithmetically *)
Lemma rotr32_arith x n : x < M32 -> 0 < n < 32 ->
  rotr32 x n = x / 2 ^ n + (x mod 2 ^ n) * 2 ^ (32 - n).
Proof.
  intros Hx Hn. unfold rotr32. rewrite w32_mod, N.shiftr_div_pow2, N.shiftl_mul_pow2.
  assert (E : (x * 2 ^ (32 - n)) mod M32 = (x mod 2 ^ n) * 2 ^ (32 - n)).
  { unfold M32. replace 4294967296 with (2 ^ n * 2 ^ (32 - n)) by (rewrite <- N.pow_add_r; replace (n + (32 - n)) with 32 by lia; reflexivity).
    rewrite N.mul_mod_distr_r; [reflexivity| |]; apply N.pow_nonzero; discriminate. }
  rewrite E.
  replace ((x mod 2 ^ n) * 2 ^ (32 - n)) with (N.shiftl (x mod 2 ^ n) (32 - n)) by apply N.shiftl_mul_pow2.
  rewrite lor_shiftl_add; [rewrite N.shiftl_mul_pow2; reflexivity|].
  apply N.div_lt_upper_bound; [apply N.pow_nonzero; discriminate|].
  rewrite <- N.pow_add_r. replace (n + (32 - n)) with 32 by lia. exact Hx.
Qed.

Lemma rotl32_arith x n : x < M32 -> 0 < n < 32 ->
  rotl32 x n = x / 2 ^ (32 - n) + (x mod 2 ^ (32 - n)) * 2 ^ n.
Proof.
  intros Hx Hn. unfold rotl32. rewrite N.lor_comm, w32_mod, N.shiftr_div_pow2, N.shiftl_mul_pow2.
  assert (E : (x * 2 ^ n) mod M32 = (x mod 2 ^ (32 - n)) * 2 ^ n).
  { unfold M32. replace 4294967296 with (2 ^ (32 - n) * 2 ^ n)
      by (rewrite <- N.pow_add_r; replace (32 - n + n) with 32 by lia; reflexivity).
    rewrite N.mul_mod_distr_r; [reflexivity| |]; apply N.pow_nonzero; discriminate. }
  rewrite E.
  replace ((x mod 2 ^ (32 - n)) * 2 ^ n) with (N.shiftl (x mod 2 ^ (32 - n)) n) by apply N.shiftl_mul_pow2.
  rewrite lor_shiftl_add; [rewrite N.shiftl_mul_pow2; reflexivity|].
  apply N.div_lt_upper_bound; [apply N.pow_nonzero; discriminate|].
  rewrite <- N.pow_add_r. replace (32 - n + n) with 32 by lia. exact Hx.
Qed.
