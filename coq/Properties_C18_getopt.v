(* C18: util/getopt.c follows the option grammar documented in util/getopt.h for every argv.
   Only statements, each closed by [exact], with Print Assumptions.
   run_model t miss argv = the statics as initialised by the C, then one complete use of the parser:
   first getopt call (reset, GETOPT_DUMMY), the registration pass of the GETOPT_SWITCH
   (getopt_setrange, getopt_register_opt per label in line order, getopt_register_missing),
   then the loop  while ((ch = getopt()) != NULL) { getopt_lookup(ch) -> label }.
   run_switch lay argv = the same with the registration pass as the macros of getopt.h perform it
   on a switch statement whose labels are laid out over source lines as [lay] says (line offset 0
   = the GETOPT_SWITCH line itself = dispatch slot 0; first probe on the line before it).
   spec = reference parser written from the header comment (Util/Getopt.v, section SPEC).

   TABLE RESTRICTION of the main theorem (C18_getopt_eq_spec, C18_switch_eq_spec and M2):
   wf_table t = every name is "-x" or "--long", NUL-free, NO '=' INSIDE A LONG NAME, and the
   names are pairwise DISTINCT.  getopt_register_opt enforces the shape and the distinctness (it
   DIEs otherwise: C18_registration_enforces_wf) but it does NOT refuse '=' inside a long name.
   For such tables -- and for every table the registration pass accepts, [reg_accepts], spelled out
   in C18_reg_accepts_meaning -- the parse follows searchopt's rule instead of the documented one:
   the FIRST label in line order whose name is a prefix of the word followed by the end of the word
   or '=' wins (C18_getopt_eq_coded_spec; example ex_eq_in_name in Util/GetoptProofs.v: with
   labels "--a=b" then "--a", the word --a=b is the option "--a=b", not --a with value b).
   A table that is not accepted never parses anything: the registration pass aborts. *)
From Coq Require Import NArith List.
From LCP Require Import Base.CheckedMem Util.Getopt Util.GetoptSearch Util.GetoptSteps Util.GetoptProofs.
Import ListNotations.

(* M1: for every well-formed table (names "-x" / "--long" without '=', pairwise distinct; with or
   without a missing-argument label on a free slot) and every argv of terminated strings, the
   model reports exactly the events of the reference parser, in order, with the same final optind *)
Theorem C18_getopt_eq_spec :
  forall (t : table) (miss : option nat) (argv : list str),
    wf_table t -> wf_miss t miss -> Forall no_nul argv ->
    run_model t miss argv = Ok (spec t (is_some miss) argv).
Proof. exact getopt_eq_spec. Qed.
Print Assumptions C18_getopt_eq_spec.

(* the same for every table of NUL-free names, with the abort case stated exactly: if the
   registration pass accepts the table (names may contain '=', need not be distinct up to '=') the
   run equals the reference parser with searchopt's first-prefix-match resolution; if it does not,
   the run aborts in the registration pass (DIE) -- and these are the only two outcomes *)
Theorem C18_getopt_eq_coded_spec :
  forall s0 (t : table) (miss : option nat) (argv : list str),
    g_optreset s0 = true -> names_nn t -> wf_miss t miss -> Forall no_nul argv ->
    (reg_accepts t ->
     exists s', run_from s0 t miss argv = Ok (spec_coded t (is_some miss) argv, s')) /\
    (~ reg_accepts t -> run_from s0 t miss argv = AssertFail).
Proof. exact run_coded_exact. Qed.
Print Assumptions C18_getopt_eq_coded_spec.

(* what "accepted" means (reg_accepts is the computable acceptb [] t = true): every name is "-x" or
   "--long", and for every label searchopt's first-prefix-match finds nothing among the labels
   before it *)
Theorem C18_reg_accepts_meaning :
  forall (t : table),
    reg_accepts t <->
    (names_valid t /\
     forall pre os h rest, t = pre ++ Some (os, h) :: rest -> first_match pre os = None).
Proof. exact reg_accepts_spec. Qed.
Print Assumptions C18_reg_accepts_meaning.

(* well-formed tables are accepted; among tables without '=' in long names nothing else is *)
Theorem C18_wf_table_accepted :
  forall (t : table), wf_table t -> reg_accepts t.
Proof. exact wf_table_accepted. Qed.
Print Assumptions C18_wf_table_accepted.

Theorem C18_accepted_is_wf_without_eq :
  forall (t : table), names_nn t -> Forall eq_free (names t) -> (reg_accepts t <-> wf_table t).
Proof. exact reg_accepts_wf. Qed.
Print Assumptions C18_accepted_is_wf_without_eq.

(* on well-formed tables the two resolutions coincide *)
Theorem C18_coded_spec_is_documented_spec :
  forall (t : table) (m : bool) (argv : list str),
    Forall name_ok (names t) -> spec_coded t m argv = spec t m argv.
Proof. exact spec_coded_eq_spec. Qed.
Print Assumptions C18_coded_spec_is_documented_spec.

(* M2: parsing stops at the first non-option (incl. "" and a lone "-"), which is not consumed, or
   after "--", which is consumed, or at the end of argv; the final optind is the index of the
   first operand *)
Theorem C18_getopt_stops :
  forall (t : table) (miss : option nat) (argv : list str),
    wf_table t -> wf_miss t miss -> Forall no_nul argv ->
    exists evs k, run_model t miss argv = Ok (evs, k) /\
      stop_reason (tl argv) 1 k /\
      k = first_operand (doc_short t) (doc_long t) (tl argv) 1.
Proof. exact getopt_stops. Qed.
Print Assumptions C18_getopt_stops.

Theorem C18_getopt_stops_at_operand :
  forall (t : table) (miss : option nat) (a0 w : str) (rest : list str),
    wf_table t -> wf_miss t miss -> Forall no_nul (a0 :: w :: rest) -> classify w = WOperand ->
    run_model t miss (a0 :: w :: rest) = Ok ([], 1).
Proof. exact getopt_stops_operand. Qed.
Print Assumptions C18_getopt_stops_at_operand.

Theorem C18_getopt_consumes_dashdash :
  forall (t : table) (miss : option nat) (a0 : str) (rest : list str),
    wf_table t -> wf_miss t miss -> Forall no_nul (a0 :: [DASH; DASH] :: rest) ->
    run_model t miss (a0 :: [DASH; DASH] :: rest) = Ok ([], 2).
Proof. exact getopt_stops_dashdash. Qed.
Print Assumptions C18_getopt_consumes_dashdash.

(* M3: setting optreset in ANY state of the statics (e.g. in the middle of a pack, other table
   registered) and parsing gives the result, and the final statics, of a fresh parse *)
Theorem C18_reset_fresh :
  forall s (t : table) (miss : option nat) (argv : list str),
    run_from (set_optreset true s) t miss argv = run_from init_state t miss argv.
Proof. exact reset_fresh. Qed.
Print Assumptions C18_reset_fresh.

(* wf_table is exactly what getopt_register_opt enforces: among tables whose long names contain
   no '=', the registration pass (setrange + register_opt per label) succeeds iff wf_table *)
Theorem C18_registration_enforces_wf :
  forall s0 (t : table) (miss : option nat) (argv : list str),
    g_optreset s0 = true -> Forall no_nul argv -> names_nn t -> Forall eq_free (names t) ->
    ((exists s', start s0 t miss argv = Ok s') <-> wf_table t).
Proof. exact registration_enforces_wf. Qed.
Print Assumptions C18_registration_enforces_wf.

(* ---- compiled GETOPT_SWITCH statements: the result does not depend on the source layout ---- *)
(* the indexing pass of the macros (probe of the line before the switch -> getopt_setrange, then
   one probe per source line, GETOPT_DEFAULT's line ends it), for EVERY layout -- a label on the
   GETOPT_SWITCH line itself (slot 0), blank lines, multi-line bodies, GETOPT_MISSING_ARG anywhere
   or absent -- is getopt_setrange + one registration per label in line order *)
Theorem C18_switch_pass_is_registration :
  forall s (lay : layout), index_pass s lay = setup s (table_of lay) (miss_of lay).
Proof. exact index_pass_eq_setup. Qed.
Print Assumptions C18_switch_pass_is_registration.

(* M1 for switch statements: no hypothesis on the layout beyond its label set being well-formed
   (GETOPT_MISSING_ARG's slot is free by construction) *)
Theorem C18_switch_eq_spec :
  forall (lay : layout) (argv : list str),
    wf_table (table_of lay) -> Forall no_nul argv ->
    run_switch lay argv = Ok (spec (table_of lay) (is_some (miss_of lay)) argv).
Proof. exact switch_eq_spec. Qed.
Print Assumptions C18_switch_eq_spec.

(* two layouts of the same option set (same name -> takes-an-argument map, GETOPT_MISSING_ARG present
   in both or in neither) give the same events and the same final optind on every argv *)
Theorem C18_switch_layout_independent :
  forall (l1 l2 : layout) (argv : list str),
    wf_table (table_of l1) -> wf_table (table_of l2) ->
    (forall n, lookup (table_of l1) n = lookup (table_of l2) n) ->
    is_some (miss_of l1) = is_some (miss_of l2) -> Forall no_nul argv ->
    run_switch l1 argv = run_switch l2 argv.
Proof. exact switch_layout_independent. Qed.
Print Assumptions C18_switch_layout_independent.

(* the first probe is what this rests on: a pass started on the GETOPT_SWITCH line itself registers
   a label on that line before getopt_setrange has allocated the table (assert(opts != NULL)) *)
Theorem C18_switch_first_probe_needed :
  forall s os h (lay : layout), g_opts s = None ->
    index_pass_gen false s (LOpt os h :: lay) = AssertFail.
Proof. exact first_probe_needed. Qed.
Print Assumptions C18_switch_first_probe_needed.
