(* C18: util/getopt.c follows the option grammar documented in util/getopt.h for every argv.
   Only statements, each closed by [exact], with Print Assumptions.
   run_model t miss argv = the statics as initialised by the C, then one complete use of the parser:
   first getopt call (reset, GETOPT_DUMMY), the registration pass of the GETOPT_SWITCH
   (getopt_setrange, getopt_register_opt per label in line order, getopt_register_missing),
   then the loop  while ((ch = getopt()) != NULL) { getopt_lookup(ch) -> label }.
   spec = reference parser written from the header comment (Util/Getopt.v, section SPEC). *)
From Coq Require Import NArith List.
From LCP Require Import Base.CheckedMem Util.Getopt Util.GetoptSearch Util.GetoptSteps Util.GetoptProofs.
Import ListNotations.

(* M1: for every well-formed table (names "-x" / "--long" without '=', pairwise distinct; with or
   without a missing-argument label on a free slot) and every argv of terminated strings, the
   model reports exactly the events of the reference parser, in order, with the same final optind *)
Theorem C18_getopt_eq_spec :
  forall (t : table) (miss : option nat) (argv : list str),
    wf_table t -> wf_miss t miss -> Forall no_nul argv ->
    run_model t miss argv = Ok (spec t (is_some miss) argv).
Proof. exact getopt_eq_spec. Qed.
Print Assumptions C18_getopt_eq_spec.

(* the same for every table getopt_register_opt accepts (names may contain '=', need not be
   distinct up to '='): either registration is refused (DIE -> AssertFail) or the run equals the
   reference parser with searchopt's first-prefix-match resolution *)
Theorem C18_getopt_eq_coded_spec :
  forall s0 (t : table) (miss : option nat) (argv : list str),
    g_optreset s0 = true -> names_nn t -> wf_miss t miss -> Forall no_nul argv ->
    run_from s0 t miss argv = AssertFail \/
    exists s', run_from s0 t miss argv = Ok (spec_coded t (is_some miss) argv, s').
Proof. exact run_coded. Qed.
Print Assumptions C18_getopt_eq_coded_spec.

(* on well-formed tables the two resolutions coincide *)
Theorem C18_coded_spec_is_documented_spec :
  forall (t : table) (m : bool) (argv : list str),
    Forall name_ok (names t) -> spec_coded t m argv = spec t m argv.
Proof. exact spec_coded_eq_spec. Qed.
Print Assumptions C18_coded_spec_is_documented_spec.

(* M2: parsing stops at the first non-option (incl. "" and a lone "-"), which is not consumed, or
   after "--", which is consumed, or at the end of argv; the final optind is the index of the
   first operand *)
Theorem C18_getopt_stops :
  forall (t : table) (miss : option nat) (argv : list str),
    wf_table t -> wf_miss t miss -> Forall no_nul argv ->
    exists evs k, run_model t miss argv = Ok (evs, k) /\
      stop_reason (tl argv) 1 k /\
      k = first_operand (doc_short t) (doc_long t) (tl argv) 1.
Proof. exact getopt_stops. Qed.
Print Assumptions C18_getopt_stops.

Theorem C18_getopt_stops_at_operand :
  forall (t : table) (miss : option nat) (a0 w : str) (rest : list str),
    wf_table t -> wf_miss t miss -> Forall no_nul (a0 :: w :: rest) -> classify w = WOperand ->
    run_model t miss (a0 :: w :: rest) = Ok ([], 1).
Proof. exact getopt_stops_operand. Qed.
Print Assumptions C18_getopt_stops_at_operand.

Theorem C18_getopt_consumes_dashdash :
  forall (t : table) (miss : option nat) (a0 : str) (rest : list str),
    wf_table t -> wf_miss t miss -> Forall no_nul (a0 :: [DASH; DASH] :: rest) ->
    run_model t miss (a0 :: [DASH; DASH] :: rest) = Ok ([], 2).
Proof. exact getopt_stops_dashdash. Qed.
Print Assumptions C18_getopt_consumes_dashdash.

(* M3: setting optreset in ANY state of the statics (e.g. in the middle of a pack, other table
   registered) and parsing gives the result, and the final statics, of a fresh parse *)
Theorem C18_reset_fresh :
  forall s (t : table) (miss : option nat) (argv : list str),
    run_from (set_optreset true s) t miss argv = run_from init_state t miss argv.
Proof. exact reset_fresh. Qed.
Print Assumptions C18_reset_fresh.

(* wf_table is exactly what getopt_register_opt enforces: among tables whose long names contain
   no '=', the registration pass (setrange + register_opt per label) succeeds iff wf_table *)
Theorem C18_registration_enforces_wf :
  forall s0 (t : table) (miss : option nat) (argv : list str),
    g_optreset s0 = true -> Forall no_nul argv -> names_nn t -> Forall eq_free (names t) ->
    ((exists s', start s0 t miss argv = Ok s') <-> wf_table t).
Proof. exact registration_enforces_wf. Qed.
Print Assumptions C18_registration_enforces_wf.
