(* C10 - Diffie-Hellman: exact group-14 exponentiation, agreement, blinding independence,
   sanity check = numeric comparison with p.  Only statements, each closed by [exact].
   Model: Crypto/DhModel.v (mirrors crypto/crypto_dh.c over Z, constants regenerated from the C
   into Gen/Repo_dhdrbg.v).  Spec: Crypto/DhSpec.v (RFC 3526 literal, a^(2^258+x) mod p).
   [modexp_Z a e m = a^e mod m] and [bn_mod_mul a b m = a*b mod m] are OpenSSL's BN_mod_exp and
   BN_mod_mul at their documented meaning. *)
From Coq Require Import ZArith NArith List.
From LCP Require Import Gen.Repo_dhdrbg Crypto.DhModel Crypto.DhSpec Crypto.DhProofs.
From LCP Require Import Crypto.DhEval Crypto.DhEvalProofs.
Import ListNotations.
Local Open Scope Z_scope.

(* M1: for EVERY peer/base value a, every 32-byte private value, every 32-byte blinding value
   delivered by the entropy source and every prior content of the 256-byte output buffer,
   blinded_modexp returns 0 and leaves the 256-byte big-endian encoding of
   a^(2^258 + priv) mod p, p the RFC 3526 prime.  (Includes: the blinded exponent stays
   positive, the result is independent of the blinding, the left padding and length.) *)
Theorem C10_blinded_modexp_correct :
  forall (r0 : list N) (a : Z) (priv blinding : list N),
  length r0 = 256%nat -> bytes_ok priv -> length priv = 32%nat -> bytes_ok blinding ->
  blinded_modexp repo_params modexp_Z bn_mod_mul r0 a priv (Some blinding) =
  Some (be_encode 256 ((a ^ (2 ^ 258 + be_decode priv)) mod rfc3526_group14)).
Proof. exact blinded_modexp_correct. Qed.
Print Assumptions C10_blinded_modexp_correct.

(* the exponent split: both exponents handed to BN_mod_exp are positive and add up to 2^258 + priv *)
Theorem C10_exponent_split :
  forall priv blinding, bytes_ok priv -> length priv = 32%nat -> bytes_ok blinding ->
  let '(e1, e2) := blinded_exponents repo_params priv blinding in
  0 < e1 /\ 0 < e2 /\ e1 + e2 = 2 ^ 258 + be_decode priv.
Proof. exact blinded_exponents_split. Qed.
Print Assumptions C10_exponent_split.

(* the same over integers: all x, r in [0, 2^256) *)
Theorem C10_blinded_modexp_correct_Z :
  forall (r0 : list N) (a x r : Z),
  length r0 = 256%nat -> 0 <= x < 2 ^ 256 -> 0 <= r < 2 ^ 256 ->
  blinded_modexp repo_params modexp_Z bn_mod_mul r0 a (be_encode 32 x) (Some (be_encode 32 r)) =
  Some (be_encode 256 ((a ^ (2 ^ 258 + x)) mod rfc3526_group14)).
Proof. exact blinded_modexp_correct_Z. Qed.
Print Assumptions C10_blinded_modexp_correct_Z.

(* the 256-byte output decodes to the residue: padding and length are right *)
Theorem C10_result_shape :
  forall v, 0 <= v < rfc3526_group14 ->
  length (be_encode 256 v) = 256%nat /\ be_decode (be_encode 256 v) = v /\ bytes_ok (be_encode 256 v).
Proof. exact result_shape. Qed.
Print Assumptions C10_result_shape.

Theorem C10_blinding_independent :
  forall r0 r0' a priv b1 b2,
  length r0 = 256%nat -> length r0' = 256%nat -> bytes_ok priv -> length priv = 32%nat ->
  bytes_ok b1 -> bytes_ok b2 ->
  blinded_modexp repo_params modexp_Z bn_mod_mul r0 a priv (Some b1) =
  blinded_modexp repo_params modexp_Z bn_mod_mul r0' a priv (Some b2).
Proof. exact blinding_independent. Qed.
Print Assumptions C10_blinding_independent.

(* a failing entropy source makes the call fail *)
Theorem C10_entropy_failure_reported :
  forall r0 a priv, blinded_modexp repo_params modexp_Z bn_mod_mul r0 a priv None = None.
Proof. exact (blinded_modexp_entropy_failure repo_params). Qed.
Print Assumptions C10_entropy_failure_reported.

(* M2 *)
Theorem C10_generate_pub_correct :
  forall pub0 priv blinding,
  length pub0 = 256%nat -> bytes_ok priv -> length priv = 32%nat -> bytes_ok blinding ->
  dh_generate_pub repo_params modexp_Z bn_mod_mul pub0 priv (Some blinding) =
  Some (be_encode 256 ((2 ^ (2 ^ 258 + be_decode priv)) mod rfc3526_group14)).
Proof. exact generate_pub_correct. Qed.
Print Assumptions C10_generate_pub_correct.

Theorem C10_compute_correct :
  forall key0 pub priv blinding,
  length key0 = 256%nat -> length pub = 256%nat -> bytes_ok priv -> length priv = 32%nat -> bytes_ok blinding ->
  dh_compute repo_params modexp_Z bn_mod_mul key0 pub priv (Some blinding) =
  Some (be_encode 256 ((be_decode pub ^ (2 ^ 258 + be_decode priv)) mod rfc3526_group14)).
Proof. exact compute_correct. Qed.
Print Assumptions C10_compute_correct.

Theorem C10_generate_correct :
  forall pub0 priv blinding rest,
  length pub0 = 256%nat -> bytes_ok priv -> length priv = 32%nat -> bytes_ok blinding ->
  dh_generate repo_params modexp_Z bn_mod_mul pub0 (Some priv :: Some blinding :: rest) =
  Some (be_encode 256 ((2 ^ (2 ^ 258 + be_decode priv)) mod rfc3526_group14), priv).
Proof. exact generate_correct. Qed.
Print Assumptions C10_generate_correct.

(* two parties always derive the same key, whatever the four blinding values *)
Theorem C10_agreement :
  forall pubA0 pubB0 keyA0 keyB0 privA privB bA bB bA' bB' pubA pubB,
  length pubA0 = 256%nat -> length pubB0 = 256%nat -> length keyA0 = 256%nat -> length keyB0 = 256%nat ->
  bytes_ok privA -> length privA = 32%nat -> bytes_ok privB -> length privB = 32%nat ->
  bytes_ok bA -> bytes_ok bB -> bytes_ok bA' -> bytes_ok bB' ->
  dh_generate_pub repo_params modexp_Z bn_mod_mul pubA0 privA (Some bA) = Some pubA ->
  dh_generate_pub repo_params modexp_Z bn_mod_mul pubB0 privB (Some bB) = Some pubB ->
  exists key,
    dh_compute repo_params modexp_Z bn_mod_mul keyA0 pubB privA (Some bA') = Some key /\
    dh_compute repo_params modexp_Z bn_mod_mul keyB0 pubA privB (Some bB') = Some key.
Proof. exact agreement. Qed.
Print Assumptions C10_agreement.

(* M3: the sanity check accepts exactly the values numerically below p *)
Theorem C10_sanitycheck_iff :
  forall pub, length pub = 256%nat -> bytes_ok pub ->
  (dh_sanitycheck repo_params pub = 0 <-> be_decode pub < rfc3526_group14) /\
  (dh_sanitycheck repo_params pub = -1 <-> rfc3526_group14 <= be_decode pub).
Proof. exact sanitycheck_iff. Qed.
Print Assumptions C10_sanitycheck_iff.

(* lexicographic memcmp on equal-length big-endian strings = numeric order *)
Theorem C10_memcmp_is_numeric_order :
  forall a b, length a = length b -> bytes_ok a -> bytes_ok b ->
  (memcmp_m a b < 0 <-> be_decode a < be_decode b) /\
  (memcmp_m a b = 0 <-> be_decode a = be_decode b).
Proof. exact memcmp_sign. Qed.
Print Assumptions C10_memcmp_is_numeric_order.

(* M4: the table now in crypto/crypto_dh_group14.c is the RFC 3526 group-14 prime *)
Theorem C10_repo_group14_eq_rfc3526 :
  be_decode dh_group14 = rfc3526_group14 /\ length dh_group14 = 256%nat.
Proof. exact repo_group14_eq_rfc3526. Qed.
Print Assumptions C10_repo_group14_eq_rfc3526.

(* Bridge for the correspondence evaluator (BigN under vm_compute): what build/.../cases.v
   evaluates is the model above.  These three rest on Bignums and the standard library's
   primitive 63-bit integers, whose axioms Print Assumptions lists; the theorems above do not. *)
Theorem C10_bridge_fast_modexp : forall a e m, fast_modexp a e m = modexp_Z a e m.
Proof. exact fast_modexp_correct. Qed.
Print Assumptions C10_bridge_fast_modexp.

Theorem C10_bridge_fast_modmul : forall a b m, fast_modmul a b m = bn_mod_mul a b m.
Proof. exact fast_modmul_correct. Qed.
Print Assumptions C10_bridge_fast_modmul.

Theorem C10_bridge_eval_is_model :
  forall r0 a priv ent,
  blinded_modexp repo_params fast_modexp fast_modmul r0 a priv ent =
  blinded_modexp repo_params modexp_Z bn_mod_mul r0 a priv ent.
Proof. exact eval_blinded_modexp_is_model. Qed.
Print Assumptions C10_bridge_eval_is_model.
