(* C17, codec2 part: base-64 (M1), endian stores/loads (M3), socket addresses (M4).
   Only statements, each closed by [exact], with Print Assumptions.
   Hypotheses about pton6 / ntop6 (inet_pton / inet_ntop for AF_INET6) are the ASSUMED laws of
   the libc conversions, written out as premises; everything else is proved.

   WHAT THE SOCKET-ADDRESS THEOREMS (M4) TRUST.  util/sock.c and util/sock_util.c call libc for
   every text <-> number conversion.  Those calls are NOT verified code; the theorems are about
   the model of the library's own glue around them, with these hand-written stand-ins for libc
   (Util/SockText.v), each sampled against the real libc by the correspondence run:
     - pton4   : inet_pton(AF_INET, ...) as glibc's inet_pton4 (dotted quad, no leading zeros);
     - ntop4   : inet_ntop(AF_INET, ...) as "%u.%u.%u.%u";
     - dec_digits (through fmt_interp): the %d of the port printer (asprintf "[%s]:%d");
     - inet_pton / inet_ntop for AF_INET6: not modelled in the theorems at all; pton6 / ntop6 are
       universally quantified and the laws used are PREMISES of each theorem (pton6 fills 16
       bytes; pton6 (ntop6 a) = Some a; ntop6 a contains ':' and no NUL).  The executable
       ntop6_glibc / pton6_glibc of SockText.v only run the extracted model; no theorem mentions
       them, and nothing proves that they satisfy the premised laws;
     - parse_port: PARSENUM_EX(&p, ports, 1, 65535, 10, 0).  This one is no longer a separate
       trusted model: C17_parse_port_is_parsenum_spec / C17_parse_port_is_parsenum_model below
       prove it equal, on every string, to the parsenum area's grammar-level spec and to its model
       of the macro (strtoimax of Util/Strto.v, itself a model of glibc 2.36's, trusted there).
   strlen / strchr / strrchr / strdup / memcpy / calloc are modelled on checked memory in Sock.v.
   Host-name forms stop at the point where getaddrinfo would be called (RHost).

   SCOPE OF THE ROUND TRIPS.  resolve (prettyprint sa) = sa is stated for CANONICAL structures
   only, i.e. the ones sock_resolve itself builds (sa_ipv4 / sa_ipv6 / sa_unix of Sock.v):
   sockaddr_in with zero sin_zero, sockaddr_in6 with zero flowinfo and scope id, sockaddr_un of
   full size with sun_path zero-padded after the path; SOCK_STREAM; ports 1..65535 (port 0 prints
   but is rejected by the parser); and ABSOLUTE Unix paths (first character '/', shorter than
   sun_path) - a relative path prints as itself but resolves as a host name.  An address with
   non-zero padding, flow label or scope prints to the same text as the canonical one and so does
   NOT come back.  prettyprint of an AF_UNIX address gives the bytes of sun_path up to the first
   NUL or the end of the name (repaired, F14; C15_sock_addr_prettyprint_no_fault): a name without
   terminator or shorter than a full sockaddr_un prints, but resolves to the canonical full-size
   structure, not to itself. *)
From Coq Require Import NArith ZArith List.
From LCP Require Import Base.CheckedMem Gen.Repo_codec Gen.Repo_codec2 Util.EndianMem Util.Endian Util.EndianProofs Util.B64 Util.B64Proofs Util.SockText Util.Sock Util.SockProofs.
From LCP Require Util.ParsenumSpec Util.Parsenum Util.SockTextParsenum.
Import ListNotations.
Local Open Scope N_scope.

(* ---------------- M1: base-64 ---------------- *)
(* the table now in util/b64encode.c is the RFC 4648 alphabet followed by '=' *)
Theorem C17_repo_b64chars_eq_rfc : b64chars = rfc4648_alphabet ++ [pad_char].
Proof. exact repo_b64chars_eq_rfc. Qed.
Print Assumptions C17_repo_b64chars_eq_rfc.

(* for every byte string and every output object of exactly b64len(len)+1 bytes, the model of
   b64encode leaves the RFC 4648 encoding (6-bit regrouping, '=' padding) and a NUL in it *)
Theorem C17_b64encode_eq_rfc4648 :
  forall bs out, bytes_ok bs -> length out = S (b64len (length bs)) ->
  b64encode_m b64chars bs out (length bs) = Ok (b64_spec bs ++ [0]).
Proof. exact b64encode_eq_rfc4648. Qed.
Print Assumptions C17_b64encode_eq_rfc4648.

(* the model of b64decode equals the spec decoder on every input: rejects exactly when the spec
   rejects; otherwise outlen is the number of decoded bytes and they are the first outlen bytes
   of the (inlen/4)*3-byte output object *)
Theorem C17_b64decode_exact :
  forall s out, bytes_ok s -> N.of_nat (length s) < 2 ^ 64 -> length out = b64declen (length s) ->
  match b64decode_spec s with
  | None => b64decode_m b64chars s (length s) out = Ok None
  | Some bs =>
    exists out', b64decode_m b64chars s (length s) out = Ok (Some (out', N.of_nat (length bs))) /\
                 length out' = length out /\ firstn (length bs) out' = bs /\ (length bs <= length out)%nat
  end.
Proof. exact b64decode_model_spec. Qed.
Print Assumptions C17_b64decode_exact.

(* the decoder accepts exactly the well-formed encodings: length a multiple of 4, alphabet
   characters, '=' only as the last one or two characters (non-zero trailing bits accepted) *)
Theorem C17_b64decode_accepts_iff :
  forall s out, bytes_ok s -> N.of_nat (length s) < 2 ^ 64 -> length out = b64declen (length s) ->
  ((exists r, b64decode_m b64chars s (length s) out = Ok (Some r)) <-> wf_b64 s).
Proof. exact b64decode_accepts_iff. Qed.
Print Assumptions C17_b64decode_accepts_iff.

(* decoding the encoding gives the original bytes back: spec level ... *)
Theorem C17_b64decode_spec_encode :
  forall bs, bytes_ok bs -> b64decode_spec (b64_spec bs) = Some bs.
Proof. exact b64decode_spec_encode. Qed.
Print Assumptions C17_b64decode_spec_encode.

(* ... and on the models of the two C routines run one after the other *)
Theorem C17_b64decode_encode :
  forall bs out1 out2,
  bytes_ok bs -> N.of_nat (b64len (length bs)) < 2 ^ 64 ->
  length out1 = S (b64len (length bs)) -> length out2 = b64declen (b64len (length bs)) ->
  exists enc out',
    b64encode_m b64chars bs out1 (length bs) = Ok (enc ++ [0]) /\ no_nul enc /\
    b64decode_m b64chars enc (length enc) out2 = Ok (Some (out', N.of_nat (length bs))) /\
    firstn (length bs) out' = bs.
Proof. exact b64decode_encode. Qed.
Print Assumptions C17_b64decode_encode.

(* ---------------- M3: endian stores and loads (tables regenerated from sysendian.h) ---------------- *)
(* a store at any offset (= any alignment) of any object writes the defined byte order into
   exactly the N/8 target bytes and nothing else *)
Theorem C17_endian_store_defined :
  forall k buf off x, (off + ek_width k <= length buf)%nat ->
  ek_enc k buf off x = Ok (stored buf off (ek_bytes k (ek_width k) x)).
Proof. exact endian_store_defined. Qed.
Print Assumptions C17_endian_store_defined.

Theorem C17_endian_load_defined :
  forall k buf off, (off + ek_width k <= length buf)%nat -> bytes_ok buf ->
  ek_dec k buf off = Ok (ek_val k (loaded buf off (ek_width k))).
Proof. exact endian_load_defined. Qed.
Print Assumptions C17_endian_load_defined.

(* dec (enc x) = x for x < 2^N *)
Theorem C17_endian_dec_enc :
  forall k buf off x,
  (off + ek_width k <= length buf)%nat -> bytes_ok buf -> x < 256 ^ N.of_nat (ek_width k) ->
  exists buf', ek_enc k buf off x = Ok buf' /\ length buf' = length buf /\ ek_dec k buf' off = Ok x.
Proof. exact endian_dec_enc. Qed.
Print Assumptions C17_endian_dec_enc.

(* enc (dec bs) = bs: storing back what was loaded leaves the object unchanged *)
Theorem C17_endian_enc_dec :
  forall k buf off, (off + ek_width k <= length buf)%nat -> bytes_ok buf ->
  exists v, ek_dec k buf off = Ok v /\ v < 256 ^ N.of_nat (ek_width k) /\ ek_enc k buf off v = Ok buf.
Proof. exact endian_enc_dec. Qed.
Print Assumptions C17_endian_enc_dec.

(* the byte-order definitions themselves are inverse *)
Theorem C17_endian_spec_inverse :
  (forall k n x, x < 256 ^ N.of_nat n -> ek_val k (ek_bytes k n x) = x) /\
  (forall k bs, bytes_ok bs -> ek_bytes k (length bs) (ek_val k bs) = bs).
Proof. exact (conj ek_val_bytes ek_bytes_val). Qed.
Print Assumptions C17_endian_spec_inverse.

(* ---------------- M4: socket addresses ---------------- *)
(* serialise writes native int, int, socklen_t, name; deserialise gives the address back *)
Theorem C17_sock_addr_serialize_roundtrip :
  forall sa, wf_sa sa ->
  exists buf, sock_addr_serialize_m sa = Ok buf /\
              buf = native_bytes 4 (sa_family sa) ++ native_bytes 4 (sa_socktype sa) ++
                    native_bytes 4 (N.of_nat (length (sa_name sa))) ++ sa_name sa /\
              sock_addr_deserialize_m buf = Ok (Some sa).
Proof. exact sock_addr_serialize_roundtrip. Qed.
Print Assumptions C17_sock_addr_serialize_roundtrip.

Theorem C17_sock_addr_dup : forall sa, sock_addr_dup_m sa = Ok sa.
Proof. exact sock_addr_dup_ok. Qed.
Print Assumptions C17_sock_addr_dup.

(* cmp returns 0 exactly on equal addresses (and never faults) *)
Theorem C17_sock_addr_cmp :
  forall a b, exists r, sock_addr_cmp_m a b = Ok r /\ (r = 0 <-> a = b) /\ (r = 0 \/ r = 1).
Proof. exact sock_addr_cmp_ok. Qed.
Print Assumptions C17_sock_addr_cmp.

(* printing an IPv4 address with port 1..65535 and resolving the string gives it back *)
Theorem C17_resolve_prettyprint_ipv4 :
  forall (pton6 : list N -> option (list N)) (ntop6 : list N -> list N),
  (forall s a, pton6 s = Some a -> length a = 16%nat) ->
  forall port a0 a1 a2 a3,
  a0 < 256 -> a1 < 256 -> a2 < 256 -> a3 < 256 -> 1 <= port <= 65535 ->
  exists str, sock_addr_prettyprint_m ntop6 (sa_ipv4 port [a0; a1; a2; a3]) = Ok (Some str) /\
              no_nul str /\
              sock_resolve_m pton6 (cstr str) = Ok (RAddrs [sa_ipv4 port [a0; a1; a2; a3]]).
Proof. exact resolve_prettyprint_ipv4. Qed.
Print Assumptions C17_resolve_prettyprint_ipv4.

(* the same for IPv6, the libc text conversion being ASSUMED: pton6 (ntop6 a) = Some a, ntop6 a
   contains ':' and no NUL, pton6 fills 16 bytes (flow label and scope id 0, as resolve makes them) *)
Theorem C17_resolve_prettyprint_ipv6 :
  forall (pton6 : list N -> option (list N)) (ntop6 : list N -> list N),
  (forall s a, pton6 s = Some a -> length a = 16%nat) ->
  (forall a, length a = 16%nat -> bytes_ok a -> pton6 (ntop6 a) = Some a) ->
  (forall a, length a = 16%nat -> bytes_ok a -> In 58 (ntop6 a) /\ no_nul (ntop6 a)) ->
  forall port a, length a = 16%nat -> bytes_ok a -> 1 <= port <= 65535 ->
  exists str, sock_addr_prettyprint_m ntop6 (sa_ipv6 port a) = Ok (Some str) /\
              no_nul str /\
              sock_resolve_m pton6 (cstr str) = Ok (RAddrs [sa_ipv6 port a]).
Proof. exact resolve_prettyprint_ipv6. Qed.
Print Assumptions C17_resolve_prettyprint_ipv6.

(* Unix paths (absolute, shorter than sun_path) *)
Theorem C17_resolve_prettyprint_unix :
  forall (pton6 : list N -> option (list N)) (ntop6 : list N -> list N),
  (forall s a, pton6 s = Some a -> length a = 16%nat) ->
  forall path, no_nul path -> hd 0 path = 47 -> (length path < n_sun_path)%nat ->
  sock_addr_prettyprint_m ntop6 (sa_unix path) = Ok (Some path) /\
  sock_resolve_m pton6 (cstr path) = Ok (RAddrs [sa_unix path]).
Proof. exact resolve_prettyprint_unix. Qed.
Print Assumptions C17_resolve_prettyprint_unix.

(* "[lit]:port" resolves to the address it denotes: the last-colon / bracket / discriminator glue *)
Theorem C17_resolve_ipv4_literal :
  forall (pton6 : list N -> option (list N)),
  (forall s a, pton6 s = Some a -> length a = 16%nat) ->
  forall ip ps p a,
  no_nul ip -> no_nul ps -> ~ In 58 ip -> ~ In 58 ps -> parse_port ps = Some p -> pton4 ip = Some a ->
  sock_resolve_m pton6 (cstr (91 :: ip ++ 93 :: 58 :: ps)) = Ok (RAddrs [sa_ipv4 (p mod 65536) a]).
Proof. exact resolve_ipv4_literal. Qed.
Print Assumptions C17_resolve_ipv4_literal.

Theorem C17_resolve_ipv6_literal :
  forall (pton6 : list N -> option (list N)),
  (forall s a, pton6 s = Some a -> length a = 16%nat) ->
  forall ip ps p a,
  no_nul ip -> no_nul ps -> In 58 ip -> ~ In 58 ps -> parse_port ps = Some p -> pton6 ip = Some a ->
  sock_resolve_m pton6 (cstr (91 :: ip ++ 93 :: 58 :: ps)) = Ok (RAddrs [sa_ipv6 (p mod 65536) a]).
Proof. exact resolve_ipv6_literal. Qed.
Print Assumptions C17_resolve_ipv6_literal.

(* the concrete dotted-quad conversions are inverse *)
Theorem C17_pton4_ntop4 :
  forall a0 a1 a2 a3, a0 < 256 -> a1 < 256 -> a2 < 256 -> a3 < 256 ->
  pton4 (ntop4 [a0; a1; a2; a3]) = Some [a0; a1; a2; a3].
Proof. exact SockTextProofs.pton4_ntop4. Qed.
Print Assumptions C17_pton4_ntop4.

(* ---------------- the port parser is the parsenum area's numeral parser ---------------- *)
(* parse_port (the port parser the two literal theorems above are stated with) gives, on EVERY
   string, what the grammar-level spec of PARSENUM_EX (Util/ParsenumSpec.v, C16) prescribes for a
   signed 64-bit target (long p) with bounds 1..65535, base 10, no trailing characters: the value
   when the spec accepts, nothing when it says EINVAL or ERANGE.  The four arguments are the ones
   regenerated from util/sock.c (the statement type-checks only while they are 1, 65535, 10, 0). *)
Theorem C17_parse_port_is_parsenum_spec :
  forall s,
  parse_port s = match ParsenumSpec.parse_spec ParsenumSpec.KSigned 64 1 65535 10 false s with
                 | ParsenumSpec.OkV v => Some (Z.to_N v)
                 | _ => None
                 end.
Proof. exact SockTextParsenum.parse_port_is_parse_spec. Qed.
Print Assumptions C17_parse_port_is_parsenum_spec.

(* ... and therefore the outcome of the parsenum area's MODEL of the macro on the C string
   (checked memory; sd, strtod's answer, is irrelevant for an integer target), by
   C16_parsenum_signed_exact: one proved numeral parser under the address theorems *)
Theorem C17_parse_port_is_parsenum_model :
  forall s sd, bytes_ok s -> no_nul s ->
  Parsenum.map_res (fun o => match Parsenum.presult_of o with
                             | ParsenumSpec.OkV v => Some (Z.to_N v)
                             | _ => None
                             end)
    (Parsenum.parsenum_ex6 {| Parsenum.ck := ParsenumSpec.KSigned; Parsenum.cw := 64 |} (cstr s)
                           (Z.of_N port_min) (Z.of_N port_max) (Z.of_N port_base)
                           (negb (port_trailing =? 0)) sd)
  = Ok (parse_port s).
Proof. exact SockTextParsenum.parse_port_is_parsenum_ex. Qed.
Print Assumptions C17_parse_port_is_parsenum_model.
