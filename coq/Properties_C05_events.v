(* C05 - event loop: dispatch order, progress, blocking time, status propagation.
   Statements only; proofs are in Events/EventsRun5.v, EventsRun5Frame.v (model), Events/EventsSpec5*.v
   (spec) and Events/EventsC05.v (assembly).

   runs_to5 p xs pl cl fuel tr : the model of events/events*.c (EventsModel.v, constants regenerated
   from the C text in Gen/Repo_events.v) emits the trace tr for the program p (what every callback
   does at each of its invocations: registrations, cancellations, resets, interrupt requests, its
   result), the external call sequence xs (the same calls, events_run, events_spin), the poll
   answers pl (ready sets with ERR/HUP, EINTR with and without an interrupt request) and the clock
   readings cl.  Hypotheses (runs_to5): timer timeouts and clock readings are normalised timevals
   (tv_usec < 1000000), descriptors are C ints (fd < 2^31 = FD_LIMIT, the range of the type; the
   one value INT_MAX is refused by growpollfd's assert(fd < INT_MAX), in the model: AssertFail, so
   no trace - see C05_model_run_or_out_of_fuel), and the clock readings do not decrease
   (monoclock_get) - the last one is what makes "reset only moves a deadline later" true, which
   timerqueue_increase relies on.  The theorems hold for every fuel; when the fuel is too small the
   model returns OutOfFuel and there is no trace (Events/EventsExamples5.v shows two instances that
   return traces in which all clauses are exercised).

   The logical clauses (choice_priority, immediate_order, timer_order, progress_immediate,
   blocking_bound, later_polls, wake_runs, status_returned, stops_dispatch) are defined over traces
   in Events/EventsSpec.v, Part 3b, independently of the model; live_imm / live_tmr / deadline /
   reg_before / is_call / intr_pending / last_rc / min_deadline / timeout_ok are defined there too. *)
From Coq Require Import NArith ZArith List.
From LCP Require Import Base.CheckedMem Events.EventsTrace Events.EventsSpec Events.EventsModel Events.EventsNetInv Events.EventsSpecProofs Events.EventsInv Events.EventsRun5 Events.EventsRun5Frame Events.EventsC05 Events.EventsExamples5 Events.EventsProgress.
Import ListNotations.

(* the inductive invariant (Appendix B: EvInv with I1, T1-T4, N1-N7) in its consequence form: the
   specification's checker, with every clause switched on, accepts every trace of the model *)
Theorem C05_model_traces_accepted :
  forall p xs pl cl fuel tr, runs_to5 p xs pl cl fuel tr -> check_c05 tr = true.
Proof. exact runs_to5_accepted. Qed.
Print Assumptions C05_model_traces_accepted.

(* the checker is sound for the logical statement of C05 (used when it is run on the trace of the
   implementation, together with check_c04) *)
Theorem C05_check_sound : forall t, check_c04 t = true -> check_c05 t = true -> C05_holds t.
Proof. exact check_c05_sound. Qed.
Print Assumptions C05_check_sound.

(* (a) whenever a callback starts: a descriptor or timer callback only when no immediate event is
   pending; a timer callback only directly after a zero-timeout poll that made nothing ready *)
Theorem C05_choice_priority :
  forall p xs pl cl fuel tr, runs_to5 p xs pl cl fuel tr -> choice_priority tr.
Proof. exact runs_to5_choice. Qed.
Print Assumptions C05_choice_priority.

(* (b) the immediate that runs has the lowest priority value among the pending ones and was
   registered before every other pending one with that value *)
Theorem C05_immediate_order :
  forall p xs pl cl fuel tr, runs_to5 p xs pl cl fuel tr -> immediate_order tr.
Proof. exact runs_to5_imm_order. Qed.
Print Assumptions C05_immediate_order.

(* (b) the timer that runs has the earliest deadline (clock at registration or latest reset +
   timeout) among the registered timers; ties in any order *)
Theorem C05_timer_order :
  forall p xs pl cl fuel tr, runs_to5 p xs pl cl fuel tr -> timer_order tr.
Proof. exact runs_to5_timer_order. Qed.
Print Assumptions C05_timer_order.

(* (c) events_run called with an immediate event pending runs at least one callback and never
   polls *)
Theorem C05_progress_immediate :
  forall p xs pl cl fuel tr, runs_to5 p xs pl cl fuel tr -> progress_immediate tr.
Proof. exact runs_to5_progress. Qed.
Print Assumptions C05_progress_immediate.

(* (d) the first poll of events_run: timeout -1 only when no timer is registered; otherwise the
   distance from the clock reading taken just before it to the earliest deadline, rounded up to a
   millisecond - exactly, unless the distance is INT_MAX / 1000 seconds or more, and then not
   beyond it and not negative *)
Theorem C05_blocking_bound :
  forall p xs pl cl fuel tr, runs_to5 p xs pl cl fuel tr -> blocking_bound tr.
Proof. exact runs_to5_blocking. Qed.
Print Assumptions C05_blocking_bound.

(* (d) every later poll of the same events_run has timeout 0, except the repetition of a poll
   that a signal interrupted *)
Theorem C05_later_polls :
  forall p xs pl cl fuel tr, runs_to5 p xs pl cl fuel tr -> later_polls tr.
Proof. exact runs_to5_later_polls. Qed.
Print Assumptions C05_later_polls.

(* (d) the conversion in events_network_select by itself, for every normalised distance (this is
   where `tv_sec >= INT_MAX / 1000`, `(tv_usec + 999) / 1000` and the clamp value enter) *)
Theorem C05_select_timeout_bound :
  forall dist, tv_norm dist = true -> timeout_ok (us dist) (sel_timeout (Some dist)) = true.
Proof. exact select_timeout_bound. Qed.
Print Assumptions C05_select_timeout_bound.

(* (c, d) an events_run that returns without having run a callback: no immediate was pending at
   its start and - unless an interrupt was requested - none of its polls reported anything and
   its latest clock reading is before the earliest deadline (or there is no timer).  Read the
   other way: something runnable at the start, a descriptor reported ready or an expired timer
   make it run a callback before it returns. *)
Theorem C05_wake_runs :
  forall p xs pl cl fuel tr, runs_to5 p xs pl cl fuel tr -> wake_runs tr.
Proof. exact runs_to5_wake. Qed.
Print Assumptions C05_wake_runs.

(* (e) events_run and events_spin return the result of the latest callback that returned (0 when
   none ran) *)
Theorem C05_status_returned :
  forall p xs pl cl fuel tr, runs_to5 p xs pl cl fuel tr -> status_returned tr.
Proof. exact runs_to5_status. Qed.
Print Assumptions C05_status_returned.

(* (e) after a callback returned non-zero, or returned while an interrupt request was pending, no
   further callback starts in that call of events_run / events_spin (so with the theorem above:
   the first non-zero result is returned unchanged; an interrupt gives the result of the current
   callback, 0 if it returned 0) *)
Theorem C05_stops_dispatch :
  forall p xs pl cl fuel tr, runs_to5 p xs pl cl fuel tr -> stops_dispatch tr.
Proof. exact runs_to5_stops. Qed.
Print Assumptions C05_stops_dispatch.

(* (e) events not yet run stay registered.  THIS IS A STATEMENT ABOUT THE MODEL'S FINAL STATE, NOT
   ABOUT THE TRACE: registered_in s r k inspects the internal structures of the state s in which
   the model's run ends (ends_in), which no client of the library - and therefore no trace of the
   implementation - can observe.  It says: every registration that is live in the trace
   (registered, neither cancelled nor invoked) is still held by the model - in the immediate queue
   of its priority, in its descriptor's reader / writer field, or in the timer heap with its
   timeout.  Its observable consequences are the trace clauses above (a live registration is
   invoked later when it becomes due: C05_wake_runs, C05_choice_priority, the order clauses) and
   C04_reregistrable (EEXIST while live); the C is tied to it only through the equality of the
   implementation's and the model's traces on the continuations the correspondence run executes. *)
Theorem C05_pending_stay_registered :
  forall p xs pl cl fuel s, ends_in p xs pl cl fuel s ->
  forall r k, live_in (rev (s_tr s)) r -> kind_of (rev (s_tr s)) r = Some k -> registered_in s r k.
Proof. exact ends_in_registered. Qed.
Print Assumptions C05_pending_stay_registered.

(* ---------------------------------------------------------------- runs that return no trace *)
(* The theorems above are conditional on the model returning a trace / a final state.  The model
   never answers Fault (C04_model_never_faults, for every input, no hypothesis) and answers
   AssertFail only for arguments outside the API's contract (C04_model_asserts_only_outside_contract:
   prog_safe / xop_safe = every events_immediate_register has prio < 32, every
   events_network_register has fd < INT_MAX).  Hence, with the hypotheses of runs_to5 / ends_in and
   that contract, the run satisfies runs_to5 (resp. ends_in) unless the fuel given to the
   dispatcher loops was too small.  Non-vacuity: EventsExamples5.ex5_hyps + ex5_safe. *)
Theorem C05_model_run_or_out_of_fuel :
  forall p xs pl cl fuel,
    prog_norm5 p -> Forall xop_norm5 xs -> Forall (fun t => tv_norm t = true) cl -> clocks_from (0, 0)%N cl ->
    prog_safe p -> Forall xop_safe xs ->
    (exists tr, runs_to5 p xs pl cl fuel tr) \/ run_case p xs pl cl fuel = OutOfFuel.
Proof. exact runs_to5_or_out_of_fuel. Qed.
Print Assumptions C05_model_run_or_out_of_fuel.

Theorem C05_model_ends_or_out_of_fuel :
  forall p xs pl cl fuel,
    prog_norm5 p -> Forall xop_norm5 xs -> Forall (fun t => tv_norm t = true) cl -> clocks_from (0, 0)%N cl ->
    prog_safe p -> Forall xop_safe xs ->
    (exists s, ends_in p xs pl cl fuel s) \/ run_case p xs pl cl fuel = OutOfFuel.
Proof. exact ends_in_or_out_of_fuel. Qed.
Print Assumptions C05_model_ends_or_out_of_fuel.
