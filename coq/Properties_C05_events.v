(* C05 - event loop: dispatch order, progress, blocking time, status propagation.
   Statements only; proofs are in Events/EventsRun5.v (model) and Events/EventsSpec5*.v (spec). *)
From Coq Require Import NArith ZArith List.
From LCP Require Import Base.CheckedMem Events.EventsTrace Events.EventsSpec Events.EventsModel Events.EventsInv Events.EventsRun5 Events.EventsExamples5.
Import ListNotations.

Theorem C05_model_traces_accepted :
  forall p xs pl cl fuel tr, runs_to5 p xs pl cl fuel tr -> check_c05 tr = true.
Proof. exact model_check_c05. Qed.
Print Assumptions C05_model_traces_accepted.
