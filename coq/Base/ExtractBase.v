(* Forces the four number types into every extracted module so that model/common.ml can refer
   to their constructors. *)
From Coq Require Import NArith ZArith.
Definition force_number_types : nat * positive * N * Z := (0%nat, 1%positive, 0%N, 0%Z).
