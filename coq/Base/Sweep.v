(* Finite sweeps: prove a boolean fact for every n < bound by vm_compute and lift it. *)
From Coq Require Import Arith NArith List Lia.
Import ListNotations.

Fixpoint nat_range (n : nat) : list nat :=
  match n with O => [] | S k => nat_range k ++ [k] end.

Lemma in_nat_range n k : k < n -> In k (nat_range n).
Proof.
  induction n as [|n IH]; intros H; [lia|]. simpl. apply in_or_app.
  destruct (Nat.eq_dec k n) as [->|Hne]; [right; left; reflexivity | left; apply IH; lia].
Qed.

Definition N_range (n : nat) : list N := map N.of_nat (nat_range n).

Lemma in_N_range (n : nat) (x : N) : (x < N.of_nat n)%N -> In x (N_range n).
Proof.
  intros H. unfold N_range. apply in_map_iff. exists (N.to_nat x). split.
  - apply N2Nat.id.
  - apply in_nat_range. lia.
Qed.

Lemma sweep_N (P : N -> bool) (n : nat) :
  forallb P (N_range n) = true -> forall x, (x < N.of_nat n)%N -> P x = true.
Proof. intros H x Hx. rewrite forallb_forall in H. apply H. apply in_N_range. exact Hx. Qed.

Lemma sweep_byte (P : N -> bool) :
  forallb P (N_range 256) = true -> forall x, (x < 256)%N -> P x = true.
Proof. intros H x Hx. apply (sweep_N P 256 H). exact Hx. Qed.
