(* Results of running a model of C code on "checked memory": a read or write outside the
   object is a Fault, a failed assert() is AssertFail, exhausted fuel is OutOfFuel. *)
From Coq Require Import NArith List Lia.
Import ListNotations.

Inductive res (A : Type) : Type :=
| Ok (a : A)
| Fault
| AssertFail
| OutOfFuel.
Arguments Ok {A} a.
Arguments Fault {A}.
Arguments AssertFail {A}.
Arguments OutOfFuel {A}.

Definition bind {A B} (r : res A) (f : A -> res B) : res B :=
  match r with
  | Ok a => f a
  | Fault => Fault
  | AssertFail => AssertFail
  | OutOfFuel => OutOfFuel
  end.

Declare Scope res_scope.
Delimit Scope res_scope with res.
Notation "'let*' x ':=' r 'in' k" := (bind r (fun x => k))
  (at level 200, x pattern, r at level 100, k at level 200, right associativity) : res_scope.

(* checked read: byte i of an object that is exactly the list [buf] *)
Definition rd (buf : list N) (i : nat) : res N :=
  match nth_error buf i with
  | Some b => Ok b
  | None => Fault
  end.

Lemma rd_ok buf i : i < length buf -> exists b, rd buf i = Ok b /\ nth_error buf i = Some b.
Proof.
  intros H. unfold rd. destruct (nth_error buf i) eqn:E.
  - eauto.
  - apply nth_error_None in E. lia.
Qed.

Lemma rd_app_l buf rest i : i < length buf -> rd (buf ++ rest) i = rd buf i.
Proof. intros H. unfold rd. rewrite nth_error_app1; auto. Qed.

Lemma rd_app_r buf rest i : rd (buf ++ rest) (length buf + i) = rd rest i.
Proof.
  unfold rd. rewrite nth_error_app2 by lia.
  replace (length buf + i - length buf) with i by lia. reflexivity.
Qed.

(* a C string: content bytes (all non-zero) followed by its terminator *)
Definition cstr (s : list N) : list N := s ++ [0%N].
Definition no_nul (s : list N) : Prop := Forall (fun b => b <> 0%N) s.
Definition is_byte (b : N) : Prop := (b < 256)%N.
Definition bytes_ok (s : list N) : Prop := Forall is_byte s.
Definition bytes_okb (s : list N) : bool := forallb (fun b => N.ltb b 256) s.

Lemma bytes_okb_spec s : bytes_okb s = true <-> bytes_ok s.
Proof.
  unfold bytes_okb, bytes_ok. rewrite forallb_forall, Forall_forall.
  split; intros H x Hx; specialize (H x Hx); unfold is_byte in *;
    [apply N.ltb_lt | apply N.ltb_lt]; assumption.
Qed.

(* index of first occurrence (strchr on a table) *)
Fixpoint find_idx (c : N) (tbl : list N) : option nat :=
  match tbl with
  | [] => None
  | x :: r => if N.eqb x c then Some 0 else option_map S (find_idx c r)
  end.
