(* C20-M3 - Diffie-Hellman: secrets are cleared before they are freed, on every path.
   Only statements, each closed by [exact].
   The program of crypto_dh.c:blinded_modexp (its fallible steps with their error labels, the
   release ladder, the success-path releases) is REGENERATED from the C text into
   Gen/Repo_dhwipe.v and interpreted by Crypto/DhWipeModel.v under a failure oracle (one entry per
   fallible OpenSSL call / entropy read / result test; list bool, exhausted = success).
   Secrecy is a taint from priv and blinding through bin2bn / add / sub / mod_exp / mod_mul.
   [secrets_cleared evs]: every BnFree with secret = true has cleared = true.
   [balanced evs]: every allocated bignum and the BN_CTX is released exactly once, after its
   allocation; nothing is allocated twice; nothing is live at the end. *)
From Coq Require Import List Bool.
From LCP Require Import Crypto.DhWipeDefs Gen.Repo_dhwipe Crypto.DhWipeModel Crypto.DhWipeProofs.
Import ListNotations.

Theorem C20_dh_compute_secrets_cleared :
  forall oracle : list bool,
  secrets_cleared (snd (compute_w oracle)) = true /\ balanced (snd (compute_w oracle)) = true.
Proof. exact compute_w_ok. Qed.
Print Assumptions C20_dh_compute_secrets_cleared.

Theorem C20_dh_generate_pub_secrets_cleared :
  forall oracle : list bool,
  secrets_cleared (snd (generate_pub_w oracle)) = true /\ balanced (snd (generate_pub_w oracle)) = true.
Proof. exact generate_pub_w_ok. Qed.
Print Assumptions C20_dh_generate_pub_secrets_cleared.

(* also when the base a itself is secret *)
Theorem C20_dh_blinded_modexp_secrets_cleared :
  forall (a_secret : bool) (oracle : list bool),
  secrets_cleared (snd (fst (repo_blinded_modexp_w a_secret oracle))) = true.
Proof. exact blinded_modexp_w_secrets_cleared. Qed.
Print Assumptions C20_dh_blinded_modexp_secrets_cleared.
