(* C15, JSON part: json_find (util/json.c, as modelled in Util/Json.v on checked memory with
   the tables regenerated from the C text) never touches memory outside its input, terminates
   and returns a pointer inside [buf, end] - for EVERY byte string and EVERY key string.
   Only statements, each closed by [exact].

   Scope: the theorems are about INDEX SAFETY (every read inside the buffer / the key string, no
   pointer formed above end), TERMINATION (the remaining-length fuel always suffices, at every
   nesting depth) and RANGE (the returned offset is in [0, length buf]).  The Gallina model has no
   stack: the C functions skip_value <-> skip_array / skip_object recurse once per nesting level
   without a depth limit, and what that recursion costs in machine stack is outside the model.
   On the real code ~262,000 unclosed brackets exhaust an 8 MiB stack (known finding F11,
   signature json-nesting-depth-stack-exhaustion); areas/json.py check_json_depth probes the
   compiled code for it. *)
From Coq Require Import NArith List.
From LCP Require Import Base.CheckedMem Gen.Repo_json Util.Json Util.JsonRepo Util.JsonSafe.
Import ListNotations.

(* json_find_c buf key = model of json_find(buf, buf + |buf|, key); a read at an offset >= |buf|,
   forming a pointer above end, or reading past the key's terminator would be Fault; running out
   of the remaining-length fuel would be OutOfFuel.  The result is the offset of the returned
   pointer from buf.  No hypothesis on buf or key (key may be empty; it is NUL-terminated by cstr). *)
Theorem C15_json_find_total :
  forall buf key, exists q, json_find_c buf key = Ok q /\ q <= length buf.
Proof. exact json_find_total. Qed.
Print Assumptions C15_json_find_total.

Theorem C15_json_find_no_fault :
  forall buf key, json_find_c buf key <> Fault /\ json_find_c buf key <> OutOfFuel /\
                  json_find_c buf key <> AssertFail.
Proof. exact json_find_no_fault. Qed.
Print Assumptions C15_json_find_no_fault.

(* the value skipper alone, started at any offset of any buffer *)
Theorem C15_json_skip_value_total :
  forall buf p, p <= length buf ->
  exists q, skip_value_c buf p = Ok q /\ p <= q <= length buf.
Proof. exact skip_value_total. Qed.
Print Assumptions C15_json_skip_value_total.

(* the property is not vacuous of the model: the code before the repair of skip_object is
   refuted by the same model with the repaired statement switched off *)
Theorem C15_json_old_code_overread :
  json_find_old f1_witness [121%N] = Fault /\ json_find_c f1_witness [121%N] = Ok 12.
Proof. exact (conj old_skip_object_overread now_no_overread). Qed.
Print Assumptions C15_json_old_code_overread.
