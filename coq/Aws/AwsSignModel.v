(* Model of aws/aws_sign.c.  The four public functions are modelled as INTERPRETATIONS of the
   asprintf format strings, argument lists, strftime formats and buffer sizes, time() error value,
   SHA256_Buf / hexify / strdup argument lists and HMAC chain that the translator regenerates from the
   C text (Gen/Repo_aws.v); locals are known by the names the source gives them.  Written by hand:
   the order of the steps (the translator refuses a source whose steps come in another order), the
   parameter names, and the meaning given to the accepted length expressions (len_expr_ok,
   sha_hex_ok).  Result None = the C function returns -1 / NULL. *)
From Coq Require Import NArith ZArith List Bool String.
From LCP Require Import Base.CheckedMem Gen.Repo_codec Gen.Repo_aws Util.Hex Aws.AwsBase Aws.SigV4Spec.
Import ListNotations.
Local Open Scope N_scope.

Definition arg_val (e : env) (a : farg) : option bytes :=
  match a with
  | AVar n => lookup e n
  | ALit l => Some l
  end.

(* one asprintf(&dest, fmt, args...) call *)
Definition run_asprintf (e : env) (call : bytes * bytes * list farg) : option env :=
  let '(dest, fmt, args) := call in
  match mapM (arg_val e) args with
  | Some vals =>
    match sprintf fmt vals with
    | Some s => Some ((dest, s) :: e)
    | None => None
    end
  | None => None
  end.

(* hexify(in, out, n) with the repository's table; out without its NUL *)
Definition hexify_str (bs : bytes) : option bytes :=
  match hexify_m hexchars bs with
  | Ok l => Some (removelast l)
  | _ => None
  end.

(* a length expression is acceptable when it denotes the whole object: strlen(x) for the string x
   itself, or the declared size of a uint8_t array that holds a 32-byte HMAC-SHA256 output *)
Definition len_expr_ok (a : farg) (lenexpr : bytes) : bool :=
  match a with
  | AVar n =>
    beq_bytes lenexpr (b "strlen(" ++ n ++ b ")")
    || existsb (fun nk => beq_bytes (fst nk) n && beq_bytes lenexpr (dec_of_N (snd nk)) && (snd nk =? 32))
               arrays_aws_sign
  | ALit l => beq_bytes lenexpr (b "strlen(""" ++ l ++ b """)")
  end.

(* SHA256_Buf(data, len, out); hexify(out, hexname, 32): the hash of the expected object is
   converted to hex.  The accepted length expressions denote the whole object: strlen(creq) for the
   string creq, and `body ? bodylen : 0` for the (body, bodylen) pair (the body, or nothing when
   body is NULL); hexify must read the 32 bytes the hash wrote.  Answers the name that receives
   the hex string. *)
Definition sha_hex_ok (sha : bytes * bytes * bytes) (hex : bytes * bytes * N)
           (data lenexpr : bytes) : option bytes :=
  let '(d, l, o) := sha in
  let '(hi, ho, hn) := hex in
  if beq_bytes d data && beq_bytes l lenexpr && beq_bytes hi o && (hn =? 32) then Some ho else None.

Section Hashes.
  Variable sha256 : bytes -> bytes.
  Variable hmac : bytes -> bytes -> bytes.

  (* one HMAC_SHA256_Buf(key, keylen, data, datalen, out) call *)
  Definition run_hmac (e : env) (st : farg * bytes * farg * bytes * bytes) : option env :=
    let '(k, klen, d, dlen, out) := st in
    match arg_val e k, arg_val e d with
    | Some kv, Some dv =>
      if len_expr_ok k klen && len_expr_ok d dlen
      then Some ((out, hmac kv dv) :: e) else None
    | _, _ => None
    end.

  Fixpoint run_hmacs (e : env) (l : list (farg * bytes * farg * bytes * bytes)) : option env :=
    match l with
    | [] => Some e
    | st :: r => match run_hmac e st with Some e' => run_hmacs e' r | None => None end
    end.

  (* static int aws_sign(key_secret, date, datetime, region, service, creq, sigbuf) *)
  Definition aws_sign_m (key_secret date datetime region service creq : bytes) : option bytes :=
    let e0 : env := [(b "key_secret", key_secret); (b "date", date); (b "datetime", datetime);
                     (b "region", region); (b "service", service); (b "creq", creq)] in
    match fmts_aws_sign, hmac_chain, sha_calls_aws_sign, hexify_calls_aws_sign with
    | [f_key; f_sts], [h1; h2; h3; h4; h5], [sh], [x1; (x2i, x2o, x2n)] =>
      match run_asprintf e0 f_key with
      | Some e1 =>
        match run_hmacs e1 [h1; h2; h3; h4] with
        | Some e2 =>
          match sha_hex_ok sh x1 (b "creq") (b "strlen(creq)") with
          | Some hexname =>
            match hexify_str (sha256 creq) with
            | Some hh =>
              match run_asprintf ((hexname, hh) :: e2) f_sts with
              | Some e3 =>
                match run_hmac e3 h5 with
                | Some e4 =>
                  (* hexify(mac, sigbuf, 32): the caller's buffer receives the hex of the last HMAC *)
                  if beq_bytes x2o (b "sigbuf") && (x2n =? 32) then
                    match lookup e4 x2i with
                    | Some mac => hexify_str mac
                    | None => None
                    end
                  else None
                | None => None
                end
              | None => None
              end
            | None => None
            end
          | None => None
          end
        | None => None
        end
      | None => None
      end
    | _, _, _, _ => None
    end.

  (* the common prologue: one time() sample (failure when it equals the error value), two strftime
     calls, both fed by gmtime_r (UTC); either strftime returning 0 is a failure.  [yp] prints %Y. *)
  Definition timestamps_core (yp : Z -> bytes) (ncalls : N) (tfns : list bytes)
             (fmts : list (bytes * N * bytes)) (tmv : tm) : option env :=
    if (ncalls =? 1) && forallb (fun f => beq_bytes f (b "gmtime_r")) tfns
       && (N.of_nat (List.length tfns) =? 2) then
      match fmts with
      | [(d1, m1, f1); (d2, m2, f2)] =>
        match strftime_gen yp m1 f1 tmv, strftime_gen yp m2 f2 tmv with
        | Some s1, Some s2 => Some [(d2, s2); (d1, s1)]
        | _, _ => None
        end
      | _ => None
      end
    else None.

  Definition timestamps_gen (yp : Z -> bytes) (ncalls : N) (terr : Z) (tfns : list bytes)
             (fmts : list (bytes * N * bytes)) (t : Z) : option env :=
    if (t =? terr)%Z then None else timestamps_core yp ncalls tfns fmts (gmtime t).

  Definition timestamps := timestamps_gen year_chars.

  (* call aws_sign with the regenerated actual-argument list; binds the 7th argument's name *)
  Definition call_sign (e : env) (sargs : list farg) : option env :=
    match sargs with
    | [a1; a2; a3; a4; a5; a6; AVar out] =>
      match arg_val e a1, arg_val e a2, arg_val e a3, arg_val e a4, arg_val e a5, arg_val e a6 with
      | Some v1, Some v2, Some v3, Some v4, Some v5, Some v6 =>
        match aws_sign_m v1 v2 v3 v4 v5 v6 with
        | Some sig => Some ((out, sig) :: e)
        | None => None
        end
      | _, _, _, _, _, _ => None
      end
    | _ => None
    end.

  (* shape shared by the three *_headers functions: returns (x_amz_content_sha256, x_amz_date, authorization) *)
  Definition headers_variant (fmts : list (bytes * bytes * list farg)) (sargs : list farg)
             (ncalls : N) (terr : Z) (tfns : list bytes) (tfmts : list (bytes * N * bytes))
             (shacalls : list (bytes * bytes * bytes)) (hexcalls : list (bytes * bytes * N))
             (dupcalls : list (bytes * bytes))
             (inputs : env) (body : option bytes) (t : Z) : option (bytes * bytes * bytes) :=
    match timestamps ncalls terr tfns tfmts t, fmts with
    | Some te, [f_creq; f_auth] =>
      match shacalls, hexcalls, dupcalls with
      | [sh], [hx], [(o1, s1); (o2, s2)] =>
        match sha_hex_ok sh hx (b "body") (b "body?bodylen:0") with
        | Some hexname =>
          match hexify_str (sha256 (match body with Some x => x | None => [] end)) with
          | Some ch =>
            let e0 := (hexname, ch) :: te ++ inputs in
            match run_asprintf e0 f_creq with
            | Some e1 =>
              match call_sign e1 sargs with
              | Some e2 =>
                match run_asprintf e2 f_auth with
                | Some e3 =>
                  (* *x_amz_content_sha256 = strdup(s1); *x_amz_date = strdup(s2) *)
                  if beq_bytes o1 (b "x_amz_content_sha256") && beq_bytes o2 (b "x_amz_date") then
                    match lookup e3 s1, lookup e3 s2, lookup e3 (b "authorization") with
                    | Some c, Some dt, Some auth => Some (c, dt, auth)
                    | _, _, _ => None
                    end
                  else None
                | None => None
                end
              | None => None
              end
            | None => None
            end
          | None => None
          end
        | None => None
        end
      | _, _, _ => None
      end
    | _, _ => None
    end.

  Definition aws_sign_s3_headers_m (key_id key_secret region method bucket path : bytes)
             (body : option bytes) (t : Z) : option (bytes * bytes * bytes) :=
    headers_variant fmts_aws_sign_s3_headers signargs_aws_sign_s3_headers
                    time_calls_aws_sign_s3_headers time_err_aws_sign_s3_headers timefns_aws_sign_s3_headers
                    strftime_aws_sign_s3_headers sha_calls_aws_sign_s3_headers hexify_calls_aws_sign_s3_headers
                    strdup_calls_aws_sign_s3_headers
                    [(b "key_id", key_id); (b "key_secret", key_secret); (b "region", region);
                     (b "method", method); (b "bucket", bucket); (b "path", path)] body t.

  Definition aws_sign_svc_headers_m (key_id key_secret region svc : bytes)
             (body : option bytes) (t : Z) : option (bytes * bytes * bytes) :=
    headers_variant fmts_aws_sign_svc_headers signargs_aws_sign_svc_headers
                    time_calls_aws_sign_svc_headers time_err_aws_sign_svc_headers timefns_aws_sign_svc_headers
                    strftime_aws_sign_svc_headers sha_calls_aws_sign_svc_headers hexify_calls_aws_sign_svc_headers
                    strdup_calls_aws_sign_svc_headers
                    [(b "key_id", key_id); (b "key_secret", key_secret); (b "region", region);
                     (b "svc", svc)] body t.

  Definition aws_sign_dynamodb_headers_m (key_id key_secret region op : bytes)
             (body : option bytes) (t : Z) : option (bytes * bytes * bytes) :=
    headers_variant fmts_aws_sign_dynamodb_headers signargs_aws_sign_dynamodb_headers
                    time_calls_aws_sign_dynamodb_headers time_err_aws_sign_dynamodb_headers timefns_aws_sign_dynamodb_headers
                    strftime_aws_sign_dynamodb_headers sha_calls_aws_sign_dynamodb_headers hexify_calls_aws_sign_dynamodb_headers
                    strdup_calls_aws_sign_dynamodb_headers
                    [(b "key_id", key_id); (b "key_secret", key_secret); (b "region", region);
                     (b "op", op)] body t.

  (* char * aws_sign_s3_querystr(key_id, key_secret, region, method, bucket, path, expiry) *)
  Definition aws_sign_s3_querystr_m (key_id key_secret region method bucket path : bytes)
             (expiry : Z) (t : Z) : option bytes :=
    match timestamps time_calls_aws_sign_s3_querystr time_err_aws_sign_s3_querystr
                     timefns_aws_sign_s3_querystr strftime_aws_sign_s3_querystr t,
          fmts_aws_sign_s3_querystr with
    | Some te, [f_creq; f_query] =>
      let e0 := te ++ [(b "key_id", key_id); (b "key_secret", key_secret); (b "region", region);
                       (b "method", method); (b "bucket", bucket); (b "path", path);
                       (b "expiry", dec_of_Z expiry)] in
      match run_asprintf e0 f_creq with
      | Some e1 =>
        match call_sign e1 signargs_aws_sign_s3_querystr with
        | Some e2 =>
          match run_asprintf e2 f_query with
          | Some e3 => lookup e3 (fst (fst f_query))
          | None => None
          end
        | None => None
        end
      | None => None
      end
    | _, _ => None
    end.
End Hashes.
