(* AWS Signature Version 4, transcribed from the published algorithm ("Signature Version 4 signing
   process", AWS General Reference; S3 "Authenticating Requests: Using the Authorization Header /
   Using Query Parameters").  Independent of aws_sign.c.  Generic in the hash functions. *)
From Coq Require Import NArith ZArith List Bool String Ascii.
From LCP Require Import Util.Hex Aws.AwsBase.
Import ListNotations.
Local Open Scope N_scope.

Definition b (s : string) : bytes :=
  map (fun c => N.of_nat (nat_of_ascii c)) (list_ascii_of_string s).

(* ----- byte-level helpers ----- *)
Definition is_alpha (c : N) : bool := ((65 <=? c) && (c <=? 90)) || ((97 <=? c) && (c <=? 122)).
Definition is_digit (c : N) : bool := (48 <=? c) && (c <=? 57).
(* RFC 3986 unreserved: A-Z a-z 0-9 - _ . ~ *)
Definition unreserved (c : N) : bool :=
  is_alpha c || is_digit c || (c =? 45) || (c =? 95) || (c =? 46) || (c =? 126).

Definition hexdigit_upper (v : N) : N := if v <? 10 then 48 + v else 55 + v.
Definition pct (c : N) : bytes := [37; hexdigit_upper (c / 16); hexdigit_upper (c mod 16)].

(* UriEncode(): unreserved characters stay, '/' stays only when encode_slash = false,
   everything else becomes %XX with upper-case hex *)
Definition uri_encode (encode_slash : bool) (s : bytes) : bytes :=
  flat_map (fun c => if unreserved c then [c]
                     else if (c =? 47) && negb encode_slash then [c]
                     else pct c) s.

Definition lower (c : N) : N := if (65 <=? c) && (c <=? 90) then c + 32 else c.
Definition lowercase (s : bytes) : bytes := map lower s.

(* Trim(): remove leading/trailing spaces, convert sequential spaces to a single space *)
Fixpoint drop_spaces (s : bytes) : bytes :=
  match s with
  | c :: r => if c =? 32 then drop_spaces r else s
  | [] => []
  end.
Fixpoint squeeze (s : bytes) : bytes :=
  match s with
  | [] => []
  | c :: r =>
    if c =? 32 then
      match r with
      | [] => []
      | d :: _ => if d =? 32 then squeeze r else 32 :: squeeze r
      end
    else c :: squeeze r
  end.
Definition trimall (s : bytes) : bytes := squeeze (drop_spaces s).

(* byte-wise lexicographic order *)
Fixpoint leb_bytes (x y : bytes) {struct x} : bool :=
  match x, y with
  | [], _ => true
  | _ :: _, [] => false
  | a :: x', c :: y' => if a <? c then true else if c <? a then false else leb_bytes x' y'
  end.

Fixpoint insert_by_key (kv : bytes * bytes) (l : list (bytes * bytes)) : list (bytes * bytes) :=
  match l with
  | [] => [kv]
  | h :: t => if leb_bytes (fst kv) (fst h) then kv :: l else h :: insert_by_key kv t
  end.
Definition sort_by_key (l : list (bytes * bytes)) : list (bytes * bytes) :=
  fold_right insert_by_key [] l.

Fixpoint join (sep : bytes) (l : list bytes) : bytes :=
  match l with
  | [] => []
  | [x] => x
  | x :: r => x ++ sep ++ join sep r
  end.

(* ----- the request being signed ----- *)
Record request := {
  rq_method : bytes;
  rq_path : bytes;                         (* absolute path, not yet encoded *)
  rq_query : list (bytes * bytes);         (* query parameters, not yet encoded *)
  rq_headers : list (bytes * bytes);       (* headers to sign, as sent *)
  rq_payload_hash : bytes                  (* hex SHA-256 of the payload, or UNSIGNED-PAYLOAD *)
}.

Definition canonical_query (q : list (bytes * bytes)) : bytes :=
  join (b "&")
       (map (fun kv => fst kv ++ b "=" ++ snd kv)
            (sort_by_key (map (fun kv => (uri_encode true (fst kv), uri_encode true (snd kv))) q))).

Definition canon_headers (hs : list (bytes * bytes)) : list (bytes * bytes) :=
  sort_by_key (map (fun kv => (lowercase (fst kv), trimall (snd kv))) hs).

Definition canonical_headers (hs : list (bytes * bytes)) : bytes :=
  List.concat (map (fun kv => fst kv ++ b ":" ++ snd kv ++ [10]) (canon_headers hs)).

Definition signed_headers (hs : list (bytes * bytes)) : bytes :=
  join (b ";") (map fst (canon_headers hs)).

(* CanonicalURI: "the URI-encoded version of the absolute path component of the URI ...  If the
   absolute path is empty, use a forward slash (/)."  (S3 rule: the path is encoded once and not
   normalised; '/' is kept.) *)
Definition canonical_uri (path : bytes) : bytes :=
  match path with
  | [] => b "/"
  | _ :: _ => uri_encode false path
  end.

Definition canonical_request (r : request) : bytes :=
  rq_method r ++ [10] ++
  canonical_uri (rq_path r) ++ [10] ++
  canonical_query (rq_query r) ++ [10] ++
  canonical_headers (rq_headers r) ++ [10] ++
  signed_headers (rq_headers r) ++ [10] ++
  rq_payload_hash r.

Definition scope (date region service : bytes) : bytes :=
  date ++ b "/" ++ region ++ b "/" ++ service ++ b "/aws4_request".

Section Hashes.
  Variable sha256 : bytes -> bytes.
  Variable hmac : bytes -> bytes -> bytes.   (* hmac key message *)

  Definition string_to_sign (datetime date region service : bytes) (creq : bytes) : bytes :=
    b "AWS4-HMAC-SHA256" ++ [10] ++ datetime ++ [10] ++ scope date region service ++ [10] ++
    hex_spec (sha256 creq).

  Definition signing_key (secret date region service : bytes) : bytes :=
    hmac (hmac (hmac (hmac (b "AWS4" ++ secret) date) region) service) (b "aws4_request").

  Definition sigv4_signature (secret datetime date region service : bytes) (r : request) : bytes :=
    hex_spec (hmac (signing_key secret date region service)
                   (string_to_sign datetime date region service (canonical_request r))).

  (* Authorization header value *)
  Definition sigv4_authorization (key_id secret datetime date region service : bytes) (r : request) : bytes :=
    b "AWS4-HMAC-SHA256 Credential=" ++ key_id ++ b "/" ++ scope date region service ++
    b ",SignedHeaders=" ++ signed_headers (rq_headers r) ++
    b ",Signature=" ++ sigv4_signature secret datetime date region service r.

  (* presigned URL: the authentication parameters go into the query string *)
  Definition presign_params (key_id datetime date region service : bytes) (expires : Z)
             (hs : list (bytes * bytes)) : list (bytes * bytes) :=
    [(b "X-Amz-Algorithm", b "AWS4-HMAC-SHA256");
     (b "X-Amz-Credential", key_id ++ b "/" ++ scope date region service);
     (b "X-Amz-Date", datetime);
     (b "X-Amz-Expires", dec_of_Z expires);
     (b "X-Amz-SignedHeaders", signed_headers hs)].

  Definition sigv4_presigned_query (key_id secret datetime date region service : bytes) (expires : Z)
             (method path : bytes) (hs : list (bytes * bytes)) : bytes :=
    let params := presign_params key_id datetime date region service expires hs in
    let r := {| rq_method := method; rq_path := path; rq_query := params; rq_headers := hs;
                rq_payload_hash := b "UNSIGNED-PAYLOAD" |} in
    canonical_query params ++ b "&X-Amz-Signature=" ++
    sigv4_signature secret datetime date region service r.
End Hashes.
