(* Small executable models of the libc pieces aws_sign.c uses: the %s %d %% fragment of printf,
   gmtime_r (civil-from-days) and strftime for %Y %m %d %H %M %S, as glibc implements them (in
   particular %Y is not padded, and strftime returns 0 when the text and its NUL do not fit the
   buffer).  Their fidelity is part of the trusted base and is exercised by the correspondence run,
   including instants before year 1000 and after year 9999. *)
From Coq Require Import NArith ZArith List Bool.
Import ListNotations.
Local Open Scope N_scope.

Definition bytes := list N.

(* ---------- decimal printing (for %d) ---------- *)
Fixpoint uint_chars (u : Decimal.uint) : bytes :=
  match u with
  | Decimal.Nil => []
  | Decimal.D0 r => 48 :: uint_chars r
  | Decimal.D1 r => 49 :: uint_chars r
  | Decimal.D2 r => 50 :: uint_chars r
  | Decimal.D3 r => 51 :: uint_chars r
  | Decimal.D4 r => 52 :: uint_chars r
  | Decimal.D5 r => 53 :: uint_chars r
  | Decimal.D6 r => 54 :: uint_chars r
  | Decimal.D7 r => 55 :: uint_chars r
  | Decimal.D8 r => 56 :: uint_chars r
  | Decimal.D9 r => 57 :: uint_chars r
  end.

Definition dec_of_N (n : N) : bytes := uint_chars (N.to_uint n).
Definition dec_of_Z (z : Z) : bytes :=
  match z with
  | Z0 => [48]
  | Zpos p => dec_of_N (Npos p)
  | Zneg p => 45 :: dec_of_N (Npos p)
  end.

(* ---------- sprintf for %s, %d, %% ---------- *)
(* Arguments are already rendered as byte strings (a %d argument by dec_of_Z). *)
Fixpoint sprintf (fmt : bytes) (args : list bytes) {struct fmt} : option bytes :=
  match fmt with
  | [] => match args with [] => Some [] | _ :: _ => None end
  | c :: r =>
    if c =? 37 then
      match r with
      | d :: r' =>
        if d =? 37 then option_map (cons 37) (sprintf r' args)
        else if (d =? 115) || (d =? 100) then
          match args with
          | a :: args' => option_map (app a) (sprintf r' args')
          | [] => None
          end
        else None
      | [] => None
      end
    else option_map (cons c) (sprintf r args)
  end.

(* ---------- environments: C variable name -> current string value ---------- *)
Definition env := list (bytes * bytes).

Fixpoint beq_bytes (a b : bytes) {struct a} : bool :=
  match a, b with
  | [], [] => true
  | x :: a', y :: b' => (x =? y) && beq_bytes a' b'
  | _, _ => false
  end.

Fixpoint lookup (e : env) (name : bytes) : option bytes :=
  match e with
  | [] => None
  | (n, v) :: r => if beq_bytes n name then Some v else lookup r name
  end.

Fixpoint mapM {A B} (f : A -> option B) (l : list A) : option (list B) :=
  match l with
  | [] => Some []
  | x :: r => match f x, mapM f r with Some y, Some ys => Some (y :: ys) | _, _ => None end
  end.

(* ---------- gmtime_r: seconds since the epoch -> broken-down UTC time ---------- *)
Record tm := { tm_year : Z; tm_mon : Z; tm_mday : Z; tm_hour : Z; tm_min : Z; tm_sec : Z }.

Local Open Scope Z_scope.
(* days since 1970-01-01 -> (year, month 1..12, day 1..31); the usual era/doe/yoe computation *)
Definition civil_from_days (z0 : Z) : Z * Z * Z :=
  let z := z0 + 719468 in
  let era := z / 146097 in
  let doe := z - era * 146097 in
  let yoe := (doe - doe / 1460 + doe / 36524 - doe / 146096) / 365 in
  let y := yoe + era * 400 in
  let doy := doe - (365 * yoe + yoe / 4 - yoe / 100) in
  let mp := (5 * doy + 2) / 153 in
  let d := doy - (153 * mp + 2) / 5 + 1 in
  let m := if mp <? 10 then mp + 3 else mp - 9 in
  ((if m <=? 2 then y + 1 else y), m, d).

Definition gmtime (t : Z) : tm :=
  let days := t / 86400 in
  let rem := t mod 86400 in
  let '(y, m, d) := civil_from_days days in
  {| tm_year := y; tm_mon := m; tm_mday := d;
     tm_hour := rem / 3600; tm_min := (rem mod 3600) / 60; tm_sec := rem mod 60 |}.

(* gmtime_r succeeds exactly when the year minus 1900 fits the int field tm_year; outside
   [gmtime_r_min, gmtime_r_max] it returns NULL (EOVERFLOW), which aws_sign.c hands on to strftime
   unchecked.  Those instants are outside the model's domain: no statement is made about them. *)
Definition gmtime_r_min : Z := -67768040609740800.   (* -2147481748-01-01T00:00:00Z *)
Definition gmtime_r_max : Z := 67768036191676799.    (*  2147485547-12-31T23:59:59Z *)

(* ---------- strftime for the conversions used ---------- *)
Definition digit (z : Z) : N := (48 + Z.to_N (z mod 10))%N.
Definition pad2 (z : Z) : bytes := [digit (z / 10); digit z].
Definition pad4 (z : Z) : bytes := [digit (z / 1000); digit (z / 100); digit (z / 10); digit z].

(* %Y as glibc prints it: the year as a plain signed decimal number - NOT padded to four digits
   and not truncated ("999", "10000", "-1").  (For tm_year + 1900 > INT_MAX glibc's int addition
   wraps and an 11-character negative number is printed; the model prints the 10-digit positive
   one.  Neither fits any buffer aws_sign.c uses.) *)
Fixpoint udec_aux (fuel : nat) (z : Z) (acc : bytes) {struct fuel} : bytes :=
  match fuel with
  | O => acc
  | S f => let acc' := digit z :: acc in if z <? 10 then acc' else udec_aux f (z / 10) acc'
  end.
Definition year_chars (y : Z) : bytes :=
  if y <? 0 then 45%N :: udec_aux 20 (- y) [] else udec_aux 20 y [].

Local Open Scope N_scope.
(* [yp] prints the year (year_chars for the C library; the proofs compare with pad4) *)
Fixpoint strftime_body_gen (yp : Z -> bytes) (fmt : bytes) (t : tm) {struct fmt} : option bytes :=
  match fmt with
  | [] => Some []
  | c :: r =>
    if c =? 37 then
      match r with
      | d :: r' =>
        let conv :=
          if d =? 89 then Some (yp (tm_year t))          (* %Y *)
          else if d =? 109 then Some (pad2 (tm_mon t))   (* %m *)
          else if d =? 100 then Some (pad2 (tm_mday t))  (* %d *)
          else if d =? 72 then Some (pad2 (tm_hour t))   (* %H *)
          else if d =? 77 then Some (pad2 (tm_min t))    (* %M *)
          else if d =? 83 then Some (pad2 (tm_sec t))    (* %S *)
          else None in
        match conv, strftime_body_gen yp r' t with
        | Some a, Some b => Some (a ++ b)
        | _, _ => None
        end
      | [] => None
      end
    else option_map (cons c) (strftime_body_gen yp r t)
  end.

(* strftime(buf, max, fmt, tm): fails (returns 0) unless the result and its NUL fit in max bytes *)
Definition strftime_gen (yp : Z -> bytes) (max : N) (fmt : bytes) (t : tm) : option bytes :=
  match strftime_body_gen yp fmt t with
  | Some s => if N.of_nat (length s) <? max then Some s else None
  | None => None
  end.

Definition strftime : N -> bytes -> tm -> option bytes := strftime_gen year_chars.
