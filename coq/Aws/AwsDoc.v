(* The requests described in the interface documentation (aws/aws_sign.h), as SigV4 request
   records, and the value each function is documented to return for a given timestamp. *)
From Coq Require Import NArith ZArith List Bool String.
From LCP Require Import Util.Hex Aws.AwsBase Aws.SigV4Spec.
Import ListNotations.
Local Open Scope N_scope.

Definition s3_request (method bucket path datetime content : bytes) : request :=
  {| rq_method := method; rq_path := path; rq_query := [];
     rq_headers := [(b "Host", bucket ++ b ".s3.amazonaws.com");
                    (b "X-Amz-Date", datetime);
                    (b "X-Amz-Content-SHA256", content)];
     rq_payload_hash := content |}.

Definition svc_request (svc region datetime content : bytes) : request :=
  {| rq_method := b "POST"; rq_path := b "/"; rq_query := [];
     rq_headers := [(b "Host", svc ++ b "." ++ region ++ b ".amazonaws.com");
                    (b "X-Amz-Date", datetime);
                    (b "X-Amz-Content-SHA256", content)];
     rq_payload_hash := content |}.

Definition dynamodb_request (region op datetime content : bytes) : request :=
  {| rq_method := b "POST"; rq_path := b "/"; rq_query := [];
     rq_headers := [(b "Host", b "dynamodb." ++ region ++ b ".amazonaws.com");
                    (b "X-Amz-Date", datetime);
                    (b "X-Amz-Content-SHA256", content);
                    (b "X-Amz-Target", b "DynamoDB_20120810." ++ op)];
     rq_payload_hash := content |}.

Section Hashes.
  Variable sha256 : bytes -> bytes.
  Variable hmac : bytes -> bytes -> bytes.

  Definition body_bytes (body : option bytes) : bytes := match body with Some x => x | None => [] end.
  Definition doc_content (body : option bytes) : bytes := hex_spec (sha256 (body_bytes body)).

  (* what the documentation promises for the returned timestamp [datetime]:
     (x_amz_content_sha256, authorization) *)
  Definition doc_s3_headers (key_id secret region method bucket path : bytes) (body : option bytes)
             (datetime : bytes) : bytes * bytes :=
    let c := doc_content body in
    (c, sigv4_authorization sha256 hmac key_id secret datetime (firstn 8 datetime) region (b "s3")
                            (s3_request method bucket path datetime c)).

  Definition doc_svc_headers (key_id secret region svc : bytes) (body : option bytes)
             (datetime : bytes) : bytes * bytes :=
    let c := doc_content body in
    (c, sigv4_authorization sha256 hmac key_id secret datetime (firstn 8 datetime) region svc
                            (svc_request svc region datetime c)).

  Definition doc_dynamodb_headers (key_id secret region op : bytes) (body : option bytes)
             (datetime : bytes) : bytes * bytes :=
    let c := doc_content body in
    (c, sigv4_authorization sha256 hmac key_id secret datetime (firstn 8 datetime) region (b "dynamodb")
                            (dynamodb_request region op datetime c)).

  Definition doc_s3_querystr (key_id secret region method bucket path : bytes) (expiry : Z)
             (datetime : bytes) : bytes :=
    sigv4_presigned_query sha256 hmac key_id secret datetime (firstn 8 datetime) region (b "s3") expiry
                          method path [(b "Host", bucket ++ b ".s3.amazonaws.com")].
End Hashes.
