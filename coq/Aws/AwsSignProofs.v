(* aws_sign.c's model (interpreting the regenerated format strings) equals the independent SigV4
   spec on the alphabet the interface supports. Generic in the hash functions. *)
From Coq Require Import NArith ZArith List Bool String Lia.
From LCP Require Import Base.CheckedMem Gen.Repo_codec Gen.Repo_aws Util.Hex Util.HexProofs
     Aws.AwsBase Aws.SigV4Spec Aws.AwsDoc Aws.AwsSignModel.
Import ListNotations.
Local Open Scope N_scope.

Lemma hexify_str_ok bs : bytes_ok bs -> hexify_str bs = Some (hex_spec bs).
Proof.
  intros H. unfold hexify_str. rewrite (hexify_correct bs H). f_equal. apply removelast_last.
Qed.

(* ---------- alphabet lemmas ---------- *)
Definition no_space (s : bytes) : bool := forallb (fun c => negb (c =? 32)) s.
Definition unreserved_str (s : bytes) : bool := forallb unreserved s.
Definition path_str (s : bytes) : bool := forallb (fun c => unreserved c || (c =? 47)) s.

Lemma drop_spaces_id s : no_space s = true -> drop_spaces s = s.
Proof.
  destruct s as [|c r]; [reflexivity|]. cbn [no_space forallb drop_spaces]. intros H.
  apply andb_true_iff in H. destruct H as [H _]. apply negb_true_iff in H. rewrite H. reflexivity.
Qed.

Lemma squeeze_id s : no_space s = true -> squeeze s = s.
Proof.
  induction s as [|c r IH]; [reflexivity|]. cbn [no_space forallb squeeze]. intros H.
  apply andb_true_iff in H. destruct H as [H Hr]. apply negb_true_iff in H. rewrite H.
  f_equal. apply IH, Hr.
Qed.

Lemma trimall_id s : no_space s = true -> trimall s = s.
Proof. intros H. unfold trimall. rewrite drop_spaces_id by exact H. apply squeeze_id, H. Qed.

Lemma unreserved_not_space c : unreserved c = true -> negb (c =? 32) = true.
Proof.
  intros H. destruct (N.eqb_spec c 32) as [->|]; [|reflexivity]. vm_compute in H. discriminate.
Qed.

Lemma unreserved_no_space s : unreserved_str s = true -> no_space s = true.
Proof.
  unfold unreserved_str, no_space. rewrite !forallb_forall. intros H x Hx.
  apply unreserved_not_space, H, Hx.
Qed.

Lemma no_space_app x y : no_space x = true -> no_space y = true -> no_space (x ++ y) = true.
Proof. unfold no_space. rewrite forallb_app. intros -> ->. reflexivity. Qed.

Lemma uri_encode_app e x y : uri_encode e (x ++ y) = uri_encode e x ++ uri_encode e y.
Proof. unfold uri_encode. apply flat_map_app. Qed.

Lemma uri_encode_unreserved e s : unreserved_str s = true -> uri_encode e s = s.
Proof.
  induction s as [|c r IH]; [reflexivity|]. cbn [unreserved_str forallb]. intros H.
  apply andb_true_iff in H. destruct H as [H Hr]. unfold uri_encode. cbn [flat_map].
  rewrite H. cbn [app]. f_equal. apply IH, Hr.
Qed.

Lemma uri_encode_path s : path_str s = true -> uri_encode false s = s.
Proof.
  induction s as [|c r IH]; [reflexivity|]. cbn [path_str forallb]. intros H.
  apply andb_true_iff in H. destruct H as [H Hr]. unfold uri_encode. cbn [flat_map].
  destruct (unreserved c); cbn [orb] in H.
  - cbn [app]. f_equal. apply IH, Hr.
  - rewrite H. cbn [negb andb app]. f_equal. apply IH, Hr.
Qed.

Lemma digit_not_space z : negb (digit z =? 32) = true.
Proof. unfold digit. apply negb_true_iff, N.eqb_neq. lia. Qed.

Lemma hexdigit_lower_not_space v : negb (hexdigit_lower v =? 32) = true.
Proof. unfold hexdigit_lower. apply negb_true_iff, N.eqb_neq. destruct (v <? 10); lia. Qed.

Lemma hex_spec_no_space bs : no_space (hex_spec bs) = true.
Proof.
  induction bs as [|x r IH]; [reflexivity|]. cbn [hex_spec flat_map]. fold (hex_spec r).
  cbn [app no_space forallb]. rewrite !hexdigit_lower_not_space. exact IH.
Qed.

Lemma digit_range z : 48 <= digit z <= 57.
Proof.
  unfold digit. pose proof (Z.mod_pos_bound z 10 ltac:(lia)) as H.
  assert (Z.to_N (z mod 10) <= 9) by lia. lia.
Qed.

Lemma digit_unreserved z : unreserved (digit z) = true.
Proof.
  pose proof (digit_range z) as [H1 H2]. unfold unreserved, is_digit.
  apply N.leb_le in H1, H2. rewrite H1, H2. cbn [andb]. rewrite orb_true_r. reflexivity.
Qed.

Lemma uint_chars_unreserved u : unreserved_str (uint_chars u) = true.
Proof. induction u; cbn [uint_chars unreserved_str forallb]; try reflexivity; exact IHu. Qed.

Lemma dec_of_Z_unreserved z : unreserved_str (dec_of_Z z) = true.
Proof.
  destruct z; cbn [dec_of_Z]; [reflexivity | apply uint_chars_unreserved |].
  cbn [unreserved_str forallb]. apply uint_chars_unreserved.
Qed.

Lemma unreserved_str_app x y :
  unreserved_str x = true -> unreserved_str y = true -> unreserved_str (x ++ y) = true.
Proof. unfold unreserved_str. rewrite forallb_app. intros -> ->. reflexivity. Qed.

Section Hashes.
  Variable sha256 : bytes -> bytes.
  Variable hmac : bytes -> bytes -> bytes.
  Hypothesis sha_bytes : forall m, bytes_ok (sha256 m).
  Hypothesis hmac_bytes : forall k m, bytes_ok (hmac k m).

  (* abstract the uses of hexify (model) and hex_spec (spec) so that vm_compute can normalise
     around them *)
  Ltac abstract_hex hexf hx Hs Hh :=
    pose (hx := hex_spec); pose (hexf := hexify_str);
    assert (Hs : forall m, hexf (sha256 m) = Some (hx (sha256 m)))
      by (intros; apply hexify_str_ok, sha_bytes);
    assert (Hh : forall k m, hexf (hmac k m) = Some (hx (hmac k m)))
      by (intros; apply hexify_str_ok, hmac_bytes);
    change hexify_str with hexf; change hex_spec with hx; clearbody hexf hx.

  Ltac fold_app :=
    let f := eval cbv delta [app] beta in (@app N) in change f with (@app N).
  Ltac norm_app :=
    fold_app; repeat (progress (rewrite <- ?app_assoc, ?app_nil_r; cbn [app])).

  Lemma aws_sign_m_correct key_secret date datetime region service creq :
    aws_sign_m sha256 hmac key_secret date datetime region service creq =
    Some (hex_spec (hmac (signing_key hmac key_secret date region service)
                         (string_to_sign sha256 datetime date region service creq))).
  Proof.
    unfold aws_sign_m, string_to_sign. abstract_hex hexf hx Hs Hh.
    vm_compute. rewrite Hs. vm_compute. rewrite Hh. 
    Time vm_compute. Time norm_app. 
    reflexivity.
  Qed.

  (* ---------- timestamps ---------- *)
  Definition date_str (tmv : tm) : bytes :=
    pad4 (tm_year tmv) ++ pad2 (tm_mon tmv) ++ pad2 (tm_mday tmv).
  Definition datetime_str (tmv : tm) : bytes :=
    date_str tmv ++ [84] ++ pad2 (tm_hour tmv) ++ pad2 (tm_min tmv) ++ pad2 (tm_sec tmv) ++ [90].

  Lemma timestamps_s3_headers t :
    timestamps time_calls_aws_sign_s3_headers timefns_aws_sign_s3_headers strftime_aws_sign_s3_headers t =
    Some [(b "datetime", datetime_str (gmtime t)); (b "date", date_str (gmtime t))].
  Proof. unfold timestamps. generalize (gmtime t). intros tmv. vm_compute. reflexivity. Qed.

  Lemma date_is_prefix tmv : date_str tmv = firstn 8 (datetime_str tmv).
  Proof. reflexivity. Qed.

  (* ---------- S3, header variant ---------- *)
  Lemma s3_headers_sigv4 key_id key_secret region method bucket path body t :
    unreserved_str bucket = true -> path_str path = true ->
    let datetime := datetime_str (gmtime t) in
    let date := firstn 8 datetime in
    let content := hex_spec (sha256 (match body with Some x => x | None => [] end)) in
    aws_sign_s3_headers_m sha256 hmac key_id key_secret region method bucket path body t =
    Some (content, datetime,
          sigv4_authorization sha256 hmac key_id key_secret datetime date region (b "s3")
                              (s3_request method bucket path datetime content)).
  Proof.
    intros Hb Hp datetime date content.
    unfold aws_sign_s3_headers_m, headers_variant. rewrite timestamps_s3_headers.
    subst content date datetime. rewrite <- date_is_prefix.
    assert (Hdt : no_space (datetime_str (gmtime t)) = true).
    { unfold datetime_str, date_str, pad4, pad2. cbn [app no_space forallb].
      rewrite !digit_not_space. reflexivity. }
    revert Hdt. generalize (date_str (gmtime t)) (datetime_str (gmtime t)). intros d dt Hdt.
    set (bd := match body with Some x => x | None => [] end).
    unfold sigv4_authorization, sigv4_signature, string_to_sign, canonical_request,
      canonical_headers, signed_headers, canon_headers, s3_request.
    cbn [rq_method rq_path rq_query rq_headers rq_payload_hash map fst snd].
    rewrite (uri_encode_path path Hp), (trimall_id dt Hdt), (trimall_id _ (hex_spec_no_space _)).
    rewrite (trimall_id (bucket ++ b ".s3.amazonaws.com"))
      by (apply no_space_app; [apply unreserved_no_space, Hb | reflexivity]).
    unfold call_sign, aws_sign_m. abstract_hex hexf hx Hs Hh.
    vm_compute. rewrite Hs. vm_compute. rewrite Hs. vm_compute. rewrite Hh. vm_compute.
    Time norm_app.
    reflexivity.
  Qed.

  (* ---------- generic service (EC2, SNS, SES, ...) ---------- *)
  Lemma timestamps_svc_headers t :
    timestamps time_calls_aws_sign_svc_headers timefns_aws_sign_svc_headers strftime_aws_sign_svc_headers t =
    Some [(b "datetime", datetime_str (gmtime t)); (b "date", date_str (gmtime t))].
  Proof. unfold timestamps. generalize (gmtime t). intros tmv. vm_compute. reflexivity. Qed.

  Lemma datetime_no_space tmv : no_space (datetime_str tmv) = true.
  Proof.
    unfold datetime_str, date_str, pad4, pad2. cbn [app no_space forallb].
    rewrite !digit_not_space. reflexivity.
  Qed.

  Lemma svc_headers_sigv4 key_id key_secret region svc body t :
    unreserved_str svc = true -> unreserved_str region = true ->
    let datetime := datetime_str (gmtime t) in
    let date := firstn 8 datetime in
    let content := hex_spec (sha256 (match body with Some x => x | None => [] end)) in
    aws_sign_svc_headers_m sha256 hmac key_id key_secret region svc body t =
    Some (content, datetime,
          sigv4_authorization sha256 hmac key_id key_secret datetime date region svc
                              (svc_request svc region datetime content)).
  Proof.
    intros Hsv Hr datetime date content.
    unfold aws_sign_svc_headers_m, headers_variant. rewrite timestamps_svc_headers.
    subst content date datetime. rewrite <- date_is_prefix.
    pose proof (datetime_no_space (gmtime t)) as Hdt.
    revert Hdt. generalize (date_str (gmtime t)) (datetime_str (gmtime t)). intros d dt Hdt.
    set (bd := match body with Some x => x | None => [] end).
    unfold sigv4_authorization, sigv4_signature, string_to_sign, canonical_request,
      canonical_headers, signed_headers, canon_headers, svc_request.
    cbn [rq_method rq_path rq_query rq_headers rq_payload_hash map fst snd].
    rewrite (trimall_id dt Hdt), (trimall_id _ (hex_spec_no_space _)).
    rewrite (trimall_id (svc ++ b "." ++ region ++ b ".amazonaws.com"))
      by (apply no_space_app; [apply unreserved_no_space, Hsv |
          apply no_space_app; [reflexivity |
          apply no_space_app; [apply unreserved_no_space, Hr | reflexivity]]]).
    unfold call_sign, aws_sign_m. abstract_hex hexf hx Hs Hh.
    vm_compute. rewrite Hs. vm_compute. rewrite Hs. vm_compute. rewrite Hh. vm_compute.
    norm_app.
    reflexivity.
  Qed.

  (* ---------- DynamoDB ---------- *)
  Lemma timestamps_dynamodb_headers t :
    timestamps time_calls_aws_sign_dynamodb_headers timefns_aws_sign_dynamodb_headers strftime_aws_sign_dynamodb_headers t =
    Some [(b "datetime", datetime_str (gmtime t)); (b "date", date_str (gmtime t))].
  Proof. unfold timestamps. generalize (gmtime t). intros tmv. vm_compute. reflexivity. Qed.

  Lemma dynamodb_headers_sigv4 key_id key_secret region op body t :
    unreserved_str region = true -> unreserved_str op = true ->
    let datetime := datetime_str (gmtime t) in
    let date := firstn 8 datetime in
    let content := hex_spec (sha256 (match body with Some x => x | None => [] end)) in
    aws_sign_dynamodb_headers_m sha256 hmac key_id key_secret region op body t =
    Some (content, datetime,
          sigv4_authorization sha256 hmac key_id key_secret datetime date region (b "dynamodb")
                              (dynamodb_request region op datetime content)).
  Proof.
    intros Hr Hop datetime date content.
    unfold aws_sign_dynamodb_headers_m, headers_variant. rewrite timestamps_dynamodb_headers.
    subst content date datetime. rewrite <- date_is_prefix.
    pose proof (datetime_no_space (gmtime t)) as Hdt.
    revert Hdt. generalize (date_str (gmtime t)) (datetime_str (gmtime t)). intros d dt Hdt.
    set (bd := match body with Some x => x | None => [] end).
    unfold sigv4_authorization, sigv4_signature, string_to_sign, canonical_request,
      canonical_headers, signed_headers, canon_headers, dynamodb_request.
    cbn [rq_method rq_path rq_query rq_headers rq_payload_hash map fst snd].
    rewrite (trimall_id dt Hdt), (trimall_id _ (hex_spec_no_space _)).
    rewrite (trimall_id (b "dynamodb." ++ region ++ b ".amazonaws.com"))
      by (apply no_space_app; [reflexivity |
          apply no_space_app; [apply unreserved_no_space, Hr | reflexivity]]).
    rewrite (trimall_id (b "DynamoDB_20120810." ++ op))
      by (apply no_space_app; [reflexivity | apply unreserved_no_space, Hop]).
    unfold call_sign, aws_sign_m. abstract_hex hexf hx Hs Hh.
    vm_compute. rewrite Hs. vm_compute. rewrite Hs. vm_compute. rewrite Hh. vm_compute.
    norm_app.
    reflexivity.
  Qed.

  (* ---------- S3, query-string (presigned URL) variant ---------- *)
  Lemma timestamps_s3_querystr t :
    timestamps time_calls_aws_sign_s3_querystr timefns_aws_sign_s3_querystr strftime_aws_sign_s3_querystr t =
    Some [(b "datetime", datetime_str (gmtime t)); (b "date", date_str (gmtime t))].
  Proof. unfold timestamps. generalize (gmtime t). intros tmv. vm_compute. reflexivity. Qed.

  Lemma date_unreserved tmv : unreserved_str (date_str tmv) = true.
  Proof.
    unfold date_str, pad4, pad2. cbn [app unreserved_str forallb].
    rewrite !digit_unreserved. reflexivity.
  Qed.

  Lemma datetime_unreserved tmv : unreserved_str (datetime_str tmv) = true.
  Proof.
    unfold datetime_str, date_str, pad4, pad2. cbn [app unreserved_str forallb].
    rewrite !digit_unreserved. reflexivity.
  Qed.

  Lemma s3_querystr_sigv4 key_id key_secret region method bucket path expiry t :
    unreserved_str key_id = true -> unreserved_str region = true ->
    unreserved_str bucket = true -> path_str path = true ->
    let datetime := datetime_str (gmtime t) in
    let date := firstn 8 datetime in
    aws_sign_s3_querystr_m sha256 hmac key_id key_secret region method bucket path expiry t =
    Some (sigv4_presigned_query sha256 hmac key_id key_secret datetime date region (b "s3") expiry
                                method path [(b "Host", bucket ++ b ".s3.amazonaws.com")]).
  Proof.
    intros Hk Hr Hb Hp datetime date.
    unfold aws_sign_s3_querystr_m. rewrite timestamps_s3_querystr.
    subst date datetime. rewrite <- date_is_prefix.
    pose proof (datetime_unreserved (gmtime t)) as Hdt.
    pose proof (date_unreserved (gmtime t)) as Hd.
    revert Hd Hdt. generalize (date_str (gmtime t)) (datetime_str (gmtime t)). intros d dt Hd Hdt.
    pose proof (dec_of_Z_unreserved expiry) as He.
    unfold sigv4_presigned_query, presign_params, sigv4_signature, string_to_sign,
      canonical_request, canonical_query, canonical_headers, signed_headers, canon_headers, scope.
    cbn [rq_method rq_path rq_query rq_headers rq_payload_hash map fst snd].
    revert He. generalize (dec_of_Z expiry) as ex. intros ex He.
    rewrite !uri_encode_app.
    rewrite (uri_encode_unreserved true key_id Hk), (uri_encode_unreserved true region Hr),
      (uri_encode_unreserved true d Hd), (uri_encode_unreserved true dt Hdt),
      (uri_encode_unreserved true ex He), (uri_encode_path path Hp).
    rewrite (trimall_id (bucket ++ b ".s3.amazonaws.com"))
      by (apply no_space_app; [apply unreserved_no_space, Hb | reflexivity]).
    unfold call_sign, aws_sign_m. abstract_hex hexf hx Hs Hh.
    vm_compute. rewrite Hs. vm_compute. rewrite Hh. vm_compute.
    norm_app.
    reflexivity.
  Qed.

  (* ---------- the same four results, stated through the documented-request functions ---------- *)
  Theorem s3_headers_doc key_id key_secret region method bucket path body t :
    unreserved_str bucket = true -> path_str path = true ->
    aws_sign_s3_headers_m sha256 hmac key_id key_secret region method bucket path body t =
    let dt := datetime_str (gmtime t) in
    let ca := doc_s3_headers sha256 hmac key_id key_secret region method bucket path body dt in
    Some (fst ca, dt, snd ca).
  Proof. intros Hb Hp. rewrite (s3_headers_sigv4 _ _ _ _ _ _ _ _ Hb Hp). reflexivity. Qed.

  Theorem svc_headers_doc key_id key_secret region svc body t :
    unreserved_str svc = true -> unreserved_str region = true ->
    aws_sign_svc_headers_m sha256 hmac key_id key_secret region svc body t =
    let dt := datetime_str (gmtime t) in
    let ca := doc_svc_headers sha256 hmac key_id key_secret region svc body dt in
    Some (fst ca, dt, snd ca).
  Proof. intros H1 H2. rewrite (svc_headers_sigv4 _ _ _ _ _ _ H1 H2). reflexivity. Qed.

  Theorem dynamodb_headers_doc key_id key_secret region op body t :
    unreserved_str region = true -> unreserved_str op = true ->
    aws_sign_dynamodb_headers_m sha256 hmac key_id key_secret region op body t =
    let dt := datetime_str (gmtime t) in
    let ca := doc_dynamodb_headers sha256 hmac key_id key_secret region op body dt in
    Some (fst ca, dt, snd ca).
  Proof. intros H1 H2. rewrite (dynamodb_headers_sigv4 _ _ _ _ _ _ H1 H2). reflexivity. Qed.

  Theorem s3_querystr_doc key_id key_secret region method bucket path expiry t :
    unreserved_str key_id = true -> unreserved_str region = true ->
    unreserved_str bucket = true -> path_str path = true ->
    aws_sign_s3_querystr_m sha256 hmac key_id key_secret region method bucket path expiry t =
    Some (doc_s3_querystr sha256 hmac key_id key_secret region method bucket path expiry
                          (datetime_str (gmtime t))).
  Proof. intros H1 H2 H3 H4. rewrite (s3_querystr_sigv4 _ _ _ _ _ _ _ _ H1 H2 H3 H4). reflexivity. Qed.
End Hashes.

(* non-vacuity: the alphabet hypotheses are satisfiable by ordinary inputs, and the model really
   produces an answer (here with a dummy 32-byte "hash") *)
Example aws_hypotheses_satisfiable :
  unreserved_str (b "my-bucket.example_1~") = true /\ path_str (b "/dir/file-1.txt") = true /\
  unreserved_str (b "us-east-1") = true /\
  (exists r, aws_sign_s3_headers_m (fun _ => repeat 7 32) (fun _ _ => repeat 9 32)
               (b "AKID") (b "secret/+") (b "us-east-1") (b "GET") (b "my-bucket") (b "/k")
               None 1700000000%Z = Some r).
Proof. repeat split; try reflexivity. eexists. vm_compute. reflexivity. Qed.

Example gmtime_examples :
  datetime_str (gmtime 0) = b "19700101T000000Z" /\
  datetime_str (gmtime 951782399) = b "20000228T235959Z" /\
  datetime_str (gmtime 951868800) = b "20000301T000000Z" /\
  datetime_str (gmtime 253402300799) = b "99991231T235959Z".
Proof. vm_compute. repeat split; reflexivity. Qed.
