(* aws_sign.c's model (interpreting the regenerated format strings) equals the independent SigV4
   spec on the alphabet the interface supports. Generic in the hash functions. *)
From Coq Require Import NArith ZArith List Bool String Lia.
From LCP Require Import Base.CheckedMem Gen.Repo_codec Gen.Repo_aws Util.Hex Util.HexProofs
     Aws.AwsBase Aws.SigV4Spec Aws.AwsDoc Aws.AwsSignModel.
Import ListNotations.
Local Open Scope N_scope.

Lemma hexify_str_ok bs : bytes_ok bs -> hexify_str bs = Some (hex_spec bs).
Proof.
  intros H. unfold hexify_str. rewrite (hexify_correct bs H). f_equal. apply removelast_last.
Qed.

(* ---------- alphabet lemmas ---------- *)
Definition no_space (s : bytes) : bool := forallb (fun c => negb (c =? 32)) s.
Definition unreserved_str (s : bytes) : bool := forallb unreserved s.
Definition path_str (s : bytes) : bool := forallb (fun c => unreserved c || (c =? 47)) s.

Lemma drop_spaces_id s : no_space s = true -> drop_spaces s = s.
Proof.
  destruct s as [|c r]; [reflexivity|]. cbn [no_space forallb drop_spaces]. intros H.
  apply andb_true_iff in H. destruct H as [H _]. apply negb_true_iff in H. rewrite H. reflexivity.
Qed.

Lemma squeeze_id s : no_space s = true -> squeeze s = s.
Proof.
  induction s as [|c r IH]; [reflexivity|]. cbn [no_space forallb squeeze]. intros H.
  apply andb_true_iff in H. destruct H as [H Hr]. apply negb_true_iff in H. rewrite H.
  f_equal. apply IH, Hr.
Qed.

Lemma trimall_id s : no_space s = true -> trimall s = s.
Proof. intros H. unfold trimall. rewrite drop_spaces_id by exact H. apply squeeze_id, H. Qed.

Lemma unreserved_not_space c : unreserved c = true -> negb (c =? 32) = true.
Proof.
  intros H. destruct (N.eqb_spec c 32) as [->|]; [|reflexivity]. vm_compute in H. discriminate.
Qed.

Lemma unreserved_no_space s : unreserved_str s = true -> no_space s = true.
Proof.
  unfold unreserved_str, no_space. rewrite !forallb_forall. intros H x Hx.
  apply unreserved_not_space, H, Hx.
Qed.

Lemma no_space_app x y : no_space x = true -> no_space y = true -> no_space (x ++ y) = true.
Proof. unfold no_space. rewrite forallb_app. intros -> ->. reflexivity. Qed.

Lemma uri_encode_app e x y : uri_encode e (x ++ y) = uri_encode e x ++ uri_encode e y.
Proof. unfold uri_encode. apply flat_map_app. Qed.

Lemma uri_encode_unreserved e s : unreserved_str s = true -> uri_encode e s = s.
Proof.
  induction s as [|c r IH]; [reflexivity|]. cbn [unreserved_str forallb]. intros H.
  apply andb_true_iff in H. destruct H as [H Hr]. unfold uri_encode. cbn [flat_map].
  rewrite H. cbn [app]. f_equal. apply IH, Hr.
Qed.

Lemma uri_encode_path s : path_str s = true -> uri_encode false s = s.
Proof.
  induction s as [|c r IH]; [reflexivity|]. cbn [path_str forallb]. intros H.
  apply andb_true_iff in H. destruct H as [H Hr]. unfold uri_encode. cbn [flat_map].
  destruct (unreserved c); cbn [orb] in H.
  - cbn [app]. f_equal. apply IH, Hr.
  - rewrite H. cbn [negb andb app]. f_equal. apply IH, Hr.
Qed.

(* the request line documented in aws_sign.h is "<method> <path> HTTP/1.1": a path begins with '/' *)
Definition abs_path (s : bytes) : bool := match s with c :: _ => c =? 47 | [] => false end.

Lemma canonical_uri_path s : abs_path s = true -> path_str s = true -> canonical_uri s = s.
Proof.
  destruct s as [|c r]; [discriminate|]. intros _ H. unfold canonical_uri. apply uri_encode_path, H.
Qed.

Lemma digit_not_space z : negb (digit z =? 32) = true.
Proof. unfold digit. apply negb_true_iff, N.eqb_neq. lia. Qed.

Lemma hexdigit_lower_not_space v : negb (hexdigit_lower v =? 32) = true.
Proof. unfold hexdigit_lower. apply negb_true_iff, N.eqb_neq. destruct (v <? 10); lia. Qed.

Lemma hex_spec_no_space bs : no_space (hex_spec bs) = true.
Proof.
  induction bs as [|x r IH]; [reflexivity|]. cbn [hex_spec flat_map]. fold (hex_spec r).
  cbn [app no_space forallb]. rewrite !hexdigit_lower_not_space. exact IH.
Qed.

Lemma digit_range z : 48 <= digit z <= 57.
Proof.
  unfold digit. pose proof (Z.mod_pos_bound z 10 ltac:(lia)) as H.
  assert (Z.to_N (z mod 10) <= 9) by lia. lia.
Qed.

Lemma digit_unreserved z : unreserved (digit z) = true.
Proof.
  pose proof (digit_range z) as [H1 H2]. unfold unreserved, is_digit.
  apply N.leb_le in H1, H2. rewrite H1, H2. cbn [andb]. rewrite orb_true_r. reflexivity.
Qed.

Lemma uint_chars_unreserved u : unreserved_str (uint_chars u) = true.
Proof. induction u; cbn [uint_chars unreserved_str forallb]; try reflexivity; exact IHu. Qed.

Lemma dec_of_Z_unreserved z : unreserved_str (dec_of_Z z) = true.
Proof.
  destruct z; cbn [dec_of_Z]; [reflexivity | apply uint_chars_unreserved |].
  cbn [unreserved_str forallb]. apply uint_chars_unreserved.
Qed.

Lemma unreserved_str_app x y :
  unreserved_str x = true -> unreserved_str y = true -> unreserved_str (x ++ y) = true.
Proof. unfold unreserved_str. rewrite forallb_app. intros -> ->. reflexivity. Qed.

(* ---------- the libc time functions on the instants whose year has four digits ---------- *)
Section Time.
  Local Open Scope Z_scope.
  Ltac Zify.zify_post_hook ::= Z.div_mod_to_equations.

  (* 9999-12-31T23:59:59Z is 253402300799 *)
  Definition t_year10000 : Z := 253402300800.

  Lemma civil_year_range d : 0 <= d <= 2932896 -> 1970 <= fst (fst (civil_from_days d)) <= 9999.
  Proof.
    intros H. unfold civil_from_days.
    set (z := d + 719468).
    set (era := z / 146097).
    set (doe := z - era * 146097).
    set (yoe := (doe - doe / 1460 + doe / 36524 - doe / 146096) / 365).
    set (doy := doe - (365 * yoe + yoe / 4 - yoe / 100)).
    set (mp := (5 * doy + 2) / 153).
    cbn [fst].
    assert (Hz : 719468 <= z <= 3652364) by (subst z; lia).
    assert (He : 4 <= era <= 24) by (subst era; lia).
    assert (Hd : 0 <= doe <= 146096) by (subst doe era; lia).
    assert (Hd24 : era = 24 -> doe <= 146036) by (subst doe; lia).
    assert (Hd4 : era = 4 -> 135080 <= doe) by (subst doe; lia).
    assert (Hy : 0 <= yoe <= 399) by (subst yoe; lia).
    assert (Hdoy : 0 <= doy <= 365) by (subst doy yoe; lia).
    assert (Hmp : 0 <= mp <= 11) by (subst mp; lia).
    destruct (mp <? 10) eqn:Em.
    - apply Z.ltb_lt in Em. replace (mp + 3 <=? 2) with false by (symmetry; apply Z.leb_gt; lia).
      split; [|lia].
      assert (era = 4 -> 370 <= yoe) by (intros E4; specialize (Hd4 E4); subst yoe; lia). lia.
    - apply Z.ltb_ge in Em. replace (mp - 9 <=? 2) with true by (symmetry; apply Z.leb_le; lia).
      split.
      + assert (era = 4 -> 369 <= yoe) by (intros E4; specialize (Hd4 E4); subst yoe; lia). lia.
      + assert (era = 24 -> yoe = 399 -> False).
        { intros E24 E399. specialize (Hd24 E24).
          assert (doy <= 305) by (subst doy; rewrite E399; lia).
          assert (mp <= 9) by (subst mp; lia). lia. }
        lia.
  Qed.

  Lemma civil_year_far d : 2932897 <= d -> 10000 <= fst (fst (civil_from_days d)).
  Proof.
    intros H. unfold civil_from_days.
    set (z := d + 719468).
    set (era := z / 146097).
    set (doe := z - era * 146097).
    set (yoe := (doe - doe / 1460 + doe / 36524 - doe / 146096) / 365).
    set (doy := doe - (365 * yoe + yoe / 4 - yoe / 100)).
    set (mp := (5 * doy + 2) / 153).
    cbn [fst].
    assert (Hz : 3652365 <= z) by (subst z; lia).
    assert (He : 24 <= era) by (subst era; lia).
    assert (Hd : 0 <= doe <= 146096) by (subst doe era; lia).
    assert (Hd24 : era = 24 -> 146037 <= doe) by (subst doe; lia).
    assert (Hy : 0 <= yoe <= 399) by (subst yoe; lia).
    assert (H24 : era = 24 -> yoe = 399 /\ 10 <= mp <= 11).
    { intros E. specialize (Hd24 E). assert (Hy399 : yoe = 399) by (subst yoe; lia).
      split; [assumption|].
      assert (306 <= doy <= 365) by (subst doy; rewrite Hy399; lia). subst mp; lia. }
    destruct (Z.eq_dec era 24) as [E|E].
    - destruct (H24 E) as [Hy399 Hmp].
      replace (mp <? 10) with false by (symmetry; apply Z.ltb_ge; lia).
      replace (mp - 9 <=? 2) with true by (symmetry; apply Z.leb_le; lia). lia.
    - destruct ((if mp <? 10 then mp + 3 else mp - 9) <=? 2); lia.
  Qed.

  Lemma gmtime_year t : tm_year (gmtime t) = fst (fst (civil_from_days (t / 86400))).
  Proof. unfold gmtime. destruct (civil_from_days (t / 86400)) as [[y m] d]. reflexivity. Qed.

  Lemma gmtime_year_range t : 0 <= t < t_year10000 -> 1970 <= tm_year (gmtime t) <= 9999.
  Proof. unfold t_year10000. intros H. rewrite gmtime_year. apply civil_year_range. lia. Qed.

  Lemma gmtime_year_far t : t_year10000 <= t -> 10000 <= tm_year (gmtime t).
  Proof. unfold t_year10000. intros H. rewrite gmtime_year. apply civil_year_far. lia. Qed.

  (* ----- %Y ----- *)
  Lemma udec_ge f z acc : 10 <= z -> udec_aux (S f) z acc = udec_aux f (z / 10) (digit z :: acc).
  Proof. intros H. cbn [udec_aux]. replace (z <? 10) with false by (symmetry; apply Z.ltb_ge; lia). reflexivity. Qed.

  Lemma udec_lt f z acc : z < 10 -> udec_aux (S f) z acc = digit z :: acc.
  Proof. intros H. cbn [udec_aux]. replace (z <? 10) with true by (symmetry; apply Z.ltb_lt; lia). reflexivity. Qed.

  Lemma udec_len f : forall z acc, (List.length acc <= List.length (udec_aux f z acc))%nat.
  Proof.
    induction f as [|f IH]; intros z acc; cbn [udec_aux]; [lia|].
    destruct (z <? 10); [cbn [List.length]; lia|]. specialize (IH (z / 10) (digit z :: acc)). cbn [List.length] in IH. lia.
  Qed.

  Lemma udec_len_S f z acc : (S (List.length acc) <= List.length (udec_aux (S f) z acc))%nat.
  Proof.
    cbn [udec_aux]. destruct (z <? 10); [cbn [List.length]; lia|].
    pose proof (udec_len f (z / 10) (digit z :: acc)) as L. cbn [List.length] in L. exact L.
  Qed.

  (* a four-digit year is printed as its four digits *)
  Lemma year_chars_pad4 y : 1000 <= y <= 9999 -> year_chars y = pad4 y.
  Proof.
    intros H. unfold year_chars. replace (y <? 0) with false by (symmetry; apply Z.ltb_ge; lia).
    rewrite udec_ge by lia. rewrite udec_ge by lia. rewrite udec_ge by lia. rewrite udec_lt by lia.
    unfold pad4. rewrite !Z.div_div by lia. reflexivity.
  Qed.

  (* a year from 10000 on takes at least five characters *)
  Lemma year_chars_long y : 10000 <= y -> (5 <= List.length (year_chars y))%nat.
  Proof.
    intros H. unfold year_chars. replace (y <? 0) with false by (symmetry; apply Z.ltb_ge; lia).
    rewrite udec_ge by lia. rewrite udec_ge by lia. rewrite udec_ge by lia. rewrite udec_ge by lia.
    match goal with |- (_ <= List.length (udec_aux (S ?f) ?z ?acc))%nat => pose proof (udec_len_S f z acc) as L end.
    cbn [List.length] in L. exact L.
  Qed.
End Time.

(* ----- strftime depends on the year printer only through the one year it prints ----- *)
Lemma strftime_body_gen_ext yp yq tmv : yp (tm_year tmv) = yq (tm_year tmv) ->
  forall fmt, strftime_body_gen yp fmt tmv = strftime_body_gen yq fmt tmv.
Proof.
  intros E.
  assert (H : forall fmt, strftime_body_gen yp fmt tmv = strftime_body_gen yq fmt tmv /\
                          forall c, strftime_body_gen yp (c :: fmt) tmv = strftime_body_gen yq (c :: fmt) tmv).
  { induction fmt as [|a fmt [IH1 IH2]].
    - split; [reflexivity|]. intros c. cbn [strftime_body_gen]. reflexivity.
    - split; [apply IH2|]. intros c. pose proof (IH2 a) as IHa.
      cbn [strftime_body_gen] in IHa |- *. destruct (c =? 37).
      + rewrite E, IH1. reflexivity.
      + rewrite IHa. reflexivity. }
  intros fmt. apply H.
Qed.

Lemma strftime_gen_ext yp yq tmv : yp (tm_year tmv) = yq (tm_year tmv) ->
  forall m fmt, strftime_gen yp m fmt tmv = strftime_gen yq m fmt tmv.
Proof. intros E m fmt. unfold strftime_gen. rewrite (strftime_body_gen_ext yp yq tmv E). reflexivity. Qed.

Lemma timestamps_gen_ext yp yq nc terr tf fmts t : yp (tm_year (gmtime t)) = yq (tm_year (gmtime t)) ->
  timestamps_gen yp nc terr tf fmts t = timestamps_gen yq nc terr tf fmts t.
Proof.
  intros E. unfold timestamps_gen, timestamps_core.
  destruct (t =? terr)%Z; [reflexivity|].
  destruct (_ && _); [|reflexivity].
  destruct fmts as [|[[d1 m1] f1] [|[[d2 m2] f2] [|x r]]]; try reflexivity.
  rewrite !(strftime_gen_ext yp yq (gmtime t) E). reflexivity.
Qed.

(* "%Y%m%d" into 9 bytes fails once the year needs five characters *)
Lemma strftime_date_far tmv : (10000 <= tm_year tmv)%Z ->
  strftime_gen year_chars 9 [37; 89; 37; 109; 37; 100] tmv = None.
Proof.
  intros H. unfold strftime_gen.
  change (strftime_body_gen year_chars [37; 89; 37; 109; 37; 100] tmv)
    with (Some (year_chars (tm_year tmv) ++ pad2 (tm_mon tmv) ++ pad2 (tm_mday tmv) ++ [])).
  cbv beta iota. pose proof (year_chars_long _ H) as L.
  rewrite !app_length. cbn [pad2 List.length].
  replace (_ <? 9) with false; [reflexivity|]. symmetry. apply N.ltb_ge. lia.
Qed.

Section Hashes.
  Variable sha256 : bytes -> bytes.
  Variable hmac : bytes -> bytes -> bytes.
  Hypothesis sha_bytes : forall m, bytes_ok (sha256 m).
  Hypothesis hmac_bytes : forall k m, bytes_ok (hmac k m).

  (* abstract the uses of hexify (model) and hex_spec (spec) so that vm_compute can normalise
     around them *)
  Ltac abstract_hex hexf hx Hs Hh :=
    pose (hx := hex_spec); pose (hexf := hexify_str);
    assert (Hs : forall m, hexf (sha256 m) = Some (hx (sha256 m)))
      by (intros; apply hexify_str_ok, sha_bytes);
    assert (Hh : forall k m, hexf (hmac k m) = Some (hx (hmac k m)))
      by (intros; apply hexify_str_ok, hmac_bytes);
    change hexify_str with hexf; change hex_spec with hx; clearbody hexf hx.

  Ltac fold_app :=
    let f := eval cbv delta [app] beta in (@app N) in change f with (@app N).
  Ltac norm_app :=
    fold_app; repeat (progress (rewrite <- ?app_assoc, ?app_nil_r; cbn [app])).

  Lemma aws_sign_m_correct key_secret date datetime region service creq :
    aws_sign_m sha256 hmac key_secret date datetime region service creq =
    Some (hex_spec (hmac (signing_key hmac key_secret date region service)
                         (string_to_sign sha256 datetime date region service creq))).
  Proof.
    unfold aws_sign_m, string_to_sign. abstract_hex hexf hx Hs Hh.
    vm_compute. rewrite Hs. vm_compute. rewrite Hh. 
    Time vm_compute. Time norm_app. 
    reflexivity.
  Qed.

  (* ---------- timestamps ---------- *)
  Definition date_str (tmv : tm) : bytes :=
    pad4 (tm_year tmv) ++ pad2 (tm_mon tmv) ++ pad2 (tm_mday tmv).
  Definition datetime_str (tmv : tm) : bytes :=
    date_str tmv ++ [84] ++ pad2 (tm_hour tmv) ++ pad2 (tm_min tmv) ++ pad2 (tm_sec tmv) ++ [90].

  (* the instants the proofs cover: time() did not return its error value and the UTC year has
     four digits (gmtime_year_range: every t with 0 <= t < 253402300800) *)
  Definition in_domain (t : Z) : Prop := t <> (-1)%Z /\ (1000 <= tm_year (gmtime t) <= 9999)%Z.

  Lemma in_domain_range t : (0 <= t < t_year10000)%Z -> in_domain t.
  Proof. intros H. pose proof (gmtime_year_range t H). split; lia. Qed.

  Lemma timestamps_s3_headers t :
    in_domain t ->
    timestamps time_calls_aws_sign_s3_headers time_err_aws_sign_s3_headers timefns_aws_sign_s3_headers
               strftime_aws_sign_s3_headers t =
    Some [(b "datetime", datetime_str (gmtime t)); (b "date", date_str (gmtime t))].
  Proof.
    intros [Ht Hy]. unfold timestamps.
    rewrite (timestamps_gen_ext year_chars pad4) by (apply year_chars_pad4, Hy).
    unfold timestamps_gen. replace (t =? _)%Z with false by (symmetry; apply Z.eqb_neq; exact Ht).
    generalize (gmtime t). intros tmv. vm_compute. reflexivity.
  Qed.

  Lemma timestamps_s3_headers_far t :
    (10000 <= tm_year (gmtime t))%Z ->
    timestamps time_calls_aws_sign_s3_headers time_err_aws_sign_s3_headers timefns_aws_sign_s3_headers
               strftime_aws_sign_s3_headers t = None.
  Proof.
    intros Hy. unfold timestamps, timestamps_gen, timestamps_core.
    destruct (t =? _)%Z; [reflexivity|]. destruct (_ && _); [|reflexivity].
    unfold strftime_aws_sign_s3_headers. rewrite (strftime_date_far _ Hy). reflexivity.
  Qed.

  Lemma date_is_prefix tmv : date_str tmv = firstn 8 (datetime_str tmv).
  Proof. reflexivity. Qed.

  (* ---------- S3, header variant ---------- *)
  Lemma s3_headers_sigv4 key_id key_secret region method bucket path body t :
    in_domain t ->
    unreserved_str bucket = true -> abs_path path = true -> path_str path = true ->
    let datetime := datetime_str (gmtime t) in
    let date := firstn 8 datetime in
    let content := hex_spec (sha256 (match body with Some x => x | None => [] end)) in
    aws_sign_s3_headers_m sha256 hmac key_id key_secret region method bucket path body t =
    Some (content, datetime,
          sigv4_authorization sha256 hmac key_id key_secret datetime date region (b "s3")
                              (s3_request method bucket path datetime content)).
  Proof.
    intros Ht Hb Ha Hp datetime date content.
    unfold aws_sign_s3_headers_m, headers_variant. rewrite (timestamps_s3_headers t Ht).
    subst content date datetime. rewrite <- date_is_prefix.
    assert (Hdt : no_space (datetime_str (gmtime t)) = true).
    { unfold datetime_str, date_str, pad4, pad2. cbn [app no_space forallb].
      rewrite !digit_not_space. reflexivity. }
    revert Hdt. generalize (date_str (gmtime t)) (datetime_str (gmtime t)). intros d dt Hdt.
    set (bd := match body with Some x => x | None => [] end).
    unfold sigv4_authorization, sigv4_signature, string_to_sign, canonical_request,
      canonical_headers, signed_headers, canon_headers, s3_request.
    cbn [rq_method rq_path rq_query rq_headers rq_payload_hash map fst snd].
    rewrite (canonical_uri_path path Ha Hp), (trimall_id dt Hdt), (trimall_id _ (hex_spec_no_space _)).
    rewrite (trimall_id (bucket ++ b ".s3.amazonaws.com"))
      by (apply no_space_app; [apply unreserved_no_space, Hb | reflexivity]).
    unfold call_sign, aws_sign_m. abstract_hex hexf hx Hs Hh.
    vm_compute. rewrite Hs. vm_compute. rewrite Hs. vm_compute. rewrite Hh. vm_compute.
    Time norm_app.
    reflexivity.
  Qed.

  (* ---------- generic service (EC2, SNS, SES, ...) ---------- *)
  Lemma timestamps_svc_headers t :
    in_domain t ->
    timestamps time_calls_aws_sign_svc_headers time_err_aws_sign_svc_headers timefns_aws_sign_svc_headers
               strftime_aws_sign_svc_headers t =
    Some [(b "datetime", datetime_str (gmtime t)); (b "date", date_str (gmtime t))].
  Proof.
    intros [Ht Hy]. unfold timestamps.
    rewrite (timestamps_gen_ext year_chars pad4) by (apply year_chars_pad4, Hy).
    unfold timestamps_gen. replace (t =? _)%Z with false by (symmetry; apply Z.eqb_neq; exact Ht).
    generalize (gmtime t). intros tmv. vm_compute. reflexivity.
  Qed.

  Lemma timestamps_svc_headers_far t :
    (10000 <= tm_year (gmtime t))%Z ->
    timestamps time_calls_aws_sign_svc_headers time_err_aws_sign_svc_headers timefns_aws_sign_svc_headers
               strftime_aws_sign_svc_headers t = None.
  Proof.
    intros Hy. unfold timestamps, timestamps_gen, timestamps_core.
    destruct (t =? _)%Z; [reflexivity|]. destruct (_ && _); [|reflexivity].
    unfold strftime_aws_sign_svc_headers. rewrite (strftime_date_far _ Hy). reflexivity.
  Qed.

  Lemma datetime_no_space tmv : no_space (datetime_str tmv) = true.
  Proof.
    unfold datetime_str, date_str, pad4, pad2. cbn [app no_space forallb].
    rewrite !digit_not_space. reflexivity.
  Qed.

  Lemma svc_headers_sigv4 key_id key_secret region svc body t :
    in_domain t ->
    unreserved_str svc = true -> unreserved_str region = true ->
    let datetime := datetime_str (gmtime t) in
    let date := firstn 8 datetime in
    let content := hex_spec (sha256 (match body with Some x => x | None => [] end)) in
    aws_sign_svc_headers_m sha256 hmac key_id key_secret region svc body t =
    Some (content, datetime,
          sigv4_authorization sha256 hmac key_id key_secret datetime date region svc
                              (svc_request svc region datetime content)).
  Proof.
    intros Ht Hsv Hr datetime date content.
    unfold aws_sign_svc_headers_m, headers_variant. rewrite (timestamps_svc_headers t Ht).
    subst content date datetime. rewrite <- date_is_prefix.
    pose proof (datetime_no_space (gmtime t)) as Hdt.
    revert Hdt. generalize (date_str (gmtime t)) (datetime_str (gmtime t)). intros d dt Hdt.
    set (bd := match body with Some x => x | None => [] end).
    unfold sigv4_authorization, sigv4_signature, string_to_sign, canonical_request,
      canonical_headers, signed_headers, canon_headers, svc_request.
    cbn [rq_method rq_path rq_query rq_headers rq_payload_hash map fst snd].
    rewrite (trimall_id dt Hdt), (trimall_id _ (hex_spec_no_space _)).
    rewrite (trimall_id (svc ++ b "." ++ region ++ b ".amazonaws.com"))
      by (apply no_space_app; [apply unreserved_no_space, Hsv |
          apply no_space_app; [reflexivity |
          apply no_space_app; [apply unreserved_no_space, Hr | reflexivity]]]).
    unfold call_sign, aws_sign_m. abstract_hex hexf hx Hs Hh.
    vm_compute. rewrite Hs. vm_compute. rewrite Hs. vm_compute. rewrite Hh. vm_compute.
    norm_app.
    reflexivity.
  Qed.

  (* ---------- DynamoDB ---------- *)
  Lemma timestamps_dynamodb_headers t :
    in_domain t ->
    timestamps time_calls_aws_sign_dynamodb_headers time_err_aws_sign_dynamodb_headers timefns_aws_sign_dynamodb_headers
               strftime_aws_sign_dynamodb_headers t =
    Some [(b "datetime", datetime_str (gmtime t)); (b "date", date_str (gmtime t))].
  Proof.
    intros [Ht Hy]. unfold timestamps.
    rewrite (timestamps_gen_ext year_chars pad4) by (apply year_chars_pad4, Hy).
    unfold timestamps_gen. replace (t =? _)%Z with false by (symmetry; apply Z.eqb_neq; exact Ht).
    generalize (gmtime t). intros tmv. vm_compute. reflexivity.
  Qed.

  Lemma timestamps_dynamodb_headers_far t :
    (10000 <= tm_year (gmtime t))%Z ->
    timestamps time_calls_aws_sign_dynamodb_headers time_err_aws_sign_dynamodb_headers timefns_aws_sign_dynamodb_headers
               strftime_aws_sign_dynamodb_headers t = None.
  Proof.
    intros Hy. unfold timestamps, timestamps_gen, timestamps_core.
    destruct (t =? _)%Z; [reflexivity|]. destruct (_ && _); [|reflexivity].
    unfold strftime_aws_sign_dynamodb_headers. rewrite (strftime_date_far _ Hy). reflexivity.
  Qed.

  Lemma dynamodb_headers_sigv4 key_id key_secret region op body t :
    in_domain t ->
    unreserved_str region = true -> unreserved_str op = true ->
    let datetime := datetime_str (gmtime t) in
    let date := firstn 8 datetime in
    let content := hex_spec (sha256 (match body with Some x => x | None => [] end)) in
    aws_sign_dynamodb_headers_m sha256 hmac key_id key_secret region op body t =
    Some (content, datetime,
          sigv4_authorization sha256 hmac key_id key_secret datetime date region (b "dynamodb")
                              (dynamodb_request region op datetime content)).
  Proof.
    intros Ht Hr Hop datetime date content.
    unfold aws_sign_dynamodb_headers_m, headers_variant. rewrite (timestamps_dynamodb_headers t Ht).
    subst content date datetime. rewrite <- date_is_prefix.
    pose proof (datetime_no_space (gmtime t)) as Hdt.
    revert Hdt. generalize (date_str (gmtime t)) (datetime_str (gmtime t)). intros d dt Hdt.
    set (bd := match body with Some x => x | None => [] end).
    unfold sigv4_authorization, sigv4_signature, string_to_sign, canonical_request,
      canonical_headers, signed_headers, canon_headers, dynamodb_request.
    cbn [rq_method rq_path rq_query rq_headers rq_payload_hash map fst snd].
    rewrite (trimall_id dt Hdt), (trimall_id _ (hex_spec_no_space _)).
    rewrite (trimall_id (b "dynamodb." ++ region ++ b ".amazonaws.com"))
      by (apply no_space_app; [reflexivity |
          apply no_space_app; [apply unreserved_no_space, Hr | reflexivity]]).
    rewrite (trimall_id (b "DynamoDB_20120810." ++ op))
      by (apply no_space_app; [reflexivity | apply unreserved_no_space, Hop]).
    unfold call_sign, aws_sign_m. abstract_hex hexf hx Hs Hh.
    vm_compute. rewrite Hs. vm_compute. rewrite Hs. vm_compute. rewrite Hh. vm_compute.
    norm_app.
    reflexivity.
  Qed.

  (* ---------- S3, query-string (presigned URL) variant ---------- *)
  Lemma timestamps_s3_querystr t :
    in_domain t ->
    timestamps time_calls_aws_sign_s3_querystr time_err_aws_sign_s3_querystr timefns_aws_sign_s3_querystr
               strftime_aws_sign_s3_querystr t =
    Some [(b "datetime", datetime_str (gmtime t)); (b "date", date_str (gmtime t))].
  Proof.
    intros [Ht Hy]. unfold timestamps.
    rewrite (timestamps_gen_ext year_chars pad4) by (apply year_chars_pad4, Hy).
    unfold timestamps_gen. replace (t =? _)%Z with false by (symmetry; apply Z.eqb_neq; exact Ht).
    generalize (gmtime t). intros tmv. vm_compute. reflexivity.
  Qed.

  Lemma timestamps_s3_querystr_far t :
    (10000 <= tm_year (gmtime t))%Z ->
    timestamps time_calls_aws_sign_s3_querystr time_err_aws_sign_s3_querystr timefns_aws_sign_s3_querystr
               strftime_aws_sign_s3_querystr t = None.
  Proof.
    intros Hy. unfold timestamps, timestamps_gen, timestamps_core.
    destruct (t =? _)%Z; [reflexivity|]. destruct (_ && _); [|reflexivity].
    unfold strftime_aws_sign_s3_querystr. rewrite (strftime_date_far _ Hy). reflexivity.
  Qed.

  Lemma date_unreserved tmv : unreserved_str (date_str tmv) = true.
  Proof.
    unfold date_str, pad4, pad2. cbn [app unreserved_str forallb].
    rewrite !digit_unreserved. reflexivity.
  Qed.

  Lemma datetime_unreserved tmv : unreserved_str (datetime_str tmv) = true.
  Proof.
    unfold datetime_str, date_str, pad4, pad2. cbn [app unreserved_str forallb].
    rewrite !digit_unreserved. reflexivity.
  Qed.

  Lemma s3_querystr_sigv4 key_id key_secret region method bucket path expiry t :
    in_domain t ->
    unreserved_str key_id = true -> unreserved_str region = true ->
    unreserved_str bucket = true -> abs_path path = true -> path_str path = true ->
    let datetime := datetime_str (gmtime t) in
    let date := firstn 8 datetime in
    aws_sign_s3_querystr_m sha256 hmac key_id key_secret region method bucket path expiry t =
    Some (sigv4_presigned_query sha256 hmac key_id key_secret datetime date region (b "s3") expiry
                                method path [(b "Host", bucket ++ b ".s3.amazonaws.com")]).
  Proof.
    intros Ht Hk Hr Hb Ha Hp datetime date.
    unfold aws_sign_s3_querystr_m. rewrite (timestamps_s3_querystr t Ht).
    subst date datetime. rewrite <- date_is_prefix.
    pose proof (datetime_unreserved (gmtime t)) as Hdt.
    pose proof (date_unreserved (gmtime t)) as Hd.
    revert Hd Hdt. generalize (date_str (gmtime t)) (datetime_str (gmtime t)). intros d dt Hd Hdt.
    pose proof (dec_of_Z_unreserved expiry) as He.
    unfold sigv4_presigned_query, presign_params, sigv4_signature, string_to_sign,
      canonical_request, canonical_query, canonical_headers, signed_headers, canon_headers, scope.
    cbn [rq_method rq_path rq_query rq_headers rq_payload_hash map fst snd].
    revert He. generalize (dec_of_Z expiry) as ex. intros ex He.
    rewrite !uri_encode_app.
    rewrite (uri_encode_unreserved true key_id Hk), (uri_encode_unreserved true region Hr),
      (uri_encode_unreserved true d Hd), (uri_encode_unreserved true dt Hdt),
      (uri_encode_unreserved true ex He), (canonical_uri_path path Ha Hp).
    rewrite (trimall_id (bucket ++ b ".s3.amazonaws.com"))
      by (apply no_space_app; [apply unreserved_no_space, Hb | reflexivity]).
    unfold call_sign, aws_sign_m. abstract_hex hexf hx Hs Hh.
    vm_compute. rewrite Hs. vm_compute. rewrite Hh. vm_compute.
    norm_app.
    reflexivity.
  Qed.

  (* ---------- the same four results, stated through the documented-request functions, for every
     instant from the epoch to the end of year 9999 ---------- *)
  Theorem s3_headers_doc key_id key_secret region method bucket path body t :
    (0 <= t < 253402300800)%Z ->
    unreserved_str bucket = true -> abs_path path = true -> path_str path = true ->
    aws_sign_s3_headers_m sha256 hmac key_id key_secret region method bucket path body t =
    let dt := datetime_str (gmtime t) in
    let ca := doc_s3_headers sha256 hmac key_id key_secret region method bucket path body dt in
    Some (fst ca, dt, snd ca).
  Proof.
    intros Ht Hb Ha Hp. rewrite (s3_headers_sigv4 _ _ _ _ _ _ _ _ (in_domain_range t Ht) Hb Ha Hp).
    reflexivity.
  Qed.

  Theorem svc_headers_doc key_id key_secret region svc body t :
    (0 <= t < 253402300800)%Z ->
    unreserved_str svc = true -> unreserved_str region = true ->
    aws_sign_svc_headers_m sha256 hmac key_id key_secret region svc body t =
    let dt := datetime_str (gmtime t) in
    let ca := doc_svc_headers sha256 hmac key_id key_secret region svc body dt in
    Some (fst ca, dt, snd ca).
  Proof.
    intros Ht H1 H2. rewrite (svc_headers_sigv4 _ _ _ _ _ _ (in_domain_range t Ht) H1 H2). reflexivity.
  Qed.

  Theorem dynamodb_headers_doc key_id key_secret region op body t :
    (0 <= t < 253402300800)%Z ->
    unreserved_str region = true -> unreserved_str op = true ->
    aws_sign_dynamodb_headers_m sha256 hmac key_id key_secret region op body t =
    let dt := datetime_str (gmtime t) in
    let ca := doc_dynamodb_headers sha256 hmac key_id key_secret region op body dt in
    Some (fst ca, dt, snd ca).
  Proof.
    intros Ht H1 H2. rewrite (dynamodb_headers_sigv4 _ _ _ _ _ _ (in_domain_range t Ht) H1 H2). reflexivity.
  Qed.

  Theorem s3_querystr_doc key_id key_secret region method bucket path expiry t :
    (0 <= t < 253402300800)%Z ->
    unreserved_str key_id = true -> unreserved_str region = true ->
    unreserved_str bucket = true -> abs_path path = true -> path_str path = true ->
    aws_sign_s3_querystr_m sha256 hmac key_id key_secret region method bucket path expiry t =
    Some (doc_s3_querystr sha256 hmac key_id key_secret region method bucket path expiry
                          (datetime_str (gmtime t))).
  Proof.
    intros Ht H1 H2 H3 Ha H4.
    rewrite (s3_querystr_sigv4 _ _ _ _ _ _ _ _ (in_domain_range t Ht) H1 H2 H3 Ha H4). reflexivity.
  Qed.

  (* ---------- from year 10000 on, every function fails: "%Y%m%d" no longer fits date[9], strftime
     returns 0 and the function returns -1 / NULL.  (No condition on the other arguments.)  The
     upper bound is the last instant for which gmtime_r returns a result at all. ---------- *)
  Theorem far_future_rejected t :
    (253402300800 <= t <= gmtime_r_max)%Z ->
    (forall key_id key_secret region method bucket path body,
       aws_sign_s3_headers_m sha256 hmac key_id key_secret region method bucket path body t = None) /\
    (forall key_id key_secret region svc body,
       aws_sign_svc_headers_m sha256 hmac key_id key_secret region svc body t = None) /\
    (forall key_id key_secret region op body,
       aws_sign_dynamodb_headers_m sha256 hmac key_id key_secret region op body t = None) /\
    (forall key_id key_secret region method bucket path expiry,
       aws_sign_s3_querystr_m sha256 hmac key_id key_secret region method bucket path expiry t = None).
  Proof.
    intros [Ht _]. pose proof (gmtime_year_far t Ht) as Hy.
    repeat split; intros.
    - unfold aws_sign_s3_headers_m, headers_variant. rewrite (timestamps_s3_headers_far t Hy). reflexivity.
    - unfold aws_sign_svc_headers_m, headers_variant. rewrite (timestamps_svc_headers_far t Hy). reflexivity.
    - unfold aws_sign_dynamodb_headers_m, headers_variant. rewrite (timestamps_dynamodb_headers_far t Hy). reflexivity.
    - unfold aws_sign_s3_querystr_m. rewrite (timestamps_s3_querystr_far t Hy). reflexivity.
  Qed.
End Hashes.

(* non-vacuity: the alphabet and path hypotheses are satisfiable by ordinary inputs (a path with
   several segments; the bare "/"), the empty path and a relative path are excluded, and the model
   really produces an answer (here with a dummy 32-byte "hash") *)
Example aws_hypotheses_satisfiable :
  unreserved_str (b "my-bucket.example_1~") = true /\
  abs_path (b "/dir/sub.dir/file-1_~.txt") = true /\ path_str (b "/dir/sub.dir/file-1_~.txt") = true /\
  abs_path (b "/") = true /\ path_str (b "/") = true /\
  abs_path [] = false /\ abs_path (b "dir/file") = false /\
  unreserved_str (b "us-east-1") = true /\
  (0 <= 1700000000 < 253402300800)%Z /\
  (exists r, aws_sign_s3_headers_m (fun _ => repeat 7 32) (fun _ _ => repeat 9 32)
               (b "AKID") (b "secret/+") (b "us-east-1") (b "GET") (b "my-bucket")
               (b "/dir/sub.dir/file-1_~.txt") None 1700000000%Z = Some r) /\
  (exists q, aws_sign_s3_querystr_m (fun _ => repeat 7 32) (fun _ _ => repeat 9 32)
               (b "AKID") (b "secret/+") (b "us-east-1") (b "GET") (b "my-bucket")
               (b "/dir/sub.dir/file-1_~.txt") 3600%Z 1700000000%Z = Some q).
Proof. repeat split; try reflexivity; try lia; try (eexists; vm_compute; reflexivity). Qed.

(* the published rule for the empty path, and a non-trivial path, in the spec's canonical request *)
Example canonical_uri_examples :
  canonical_uri [] = b "/" /\
  canonical_uri (b "/dir/sub dir/file+1.txt") = b "/dir/sub%20dir/file%2B1.txt" /\
  canonical_uri (b "/dir/sub.dir/file-1_~.txt") = b "/dir/sub.dir/file-1_~.txt".
Proof. vm_compute. repeat split; reflexivity. Qed.

(* the libc model at the edges of the covered range and outside it (glibc: %Y is not padded) *)
Example gmtime_examples :
  datetime_str (gmtime 0) = b "19700101T000000Z" /\
  datetime_str (gmtime 951782399) = b "20000228T235959Z" /\
  datetime_str (gmtime 951868800) = b "20000301T000000Z" /\
  datetime_str (gmtime 253402300799) = b "99991231T235959Z" /\
  strftime 17 (b "%Y%m%dT%H%M%SZ") (gmtime 253402300799) = Some (b "99991231T235959Z") /\
  strftime 9 (b "%Y%m%d") (gmtime 253402300800) = None /\
  strftime 64 (b "%Y%m%dT%H%M%SZ") (gmtime 253402300800) = Some (b "100000101T000000Z") /\
  strftime 17 (b "%Y%m%dT%H%M%SZ") (gmtime (-1)) = Some (b "19691231T235959Z") /\
  strftime 17 (b "%Y%m%dT%H%M%SZ") (gmtime (-30610224000)) = Some (b "10000101T000000Z") /\
  strftime 9 (b "%Y%m%d") (gmtime (-30610224001)) = Some (b "9991231") /\
  strftime 9 (b "%Y%m%d") (gmtime (-62167219201)) = Some (b "-11231") /\
  strftime 9 (b "%Y%m%d") (gmtime (-1000000000000)) = None /\
  strftime 64 (b "%Y%m%d") (gmtime gmtime_r_max) = Some (b "21474855471231") /\
  strftime 64 (b "%Y%m%d") (gmtime gmtime_r_min) = Some (b "-21474817480101").
Proof. vm_compute. repeat split; reflexivity. Qed.
