(* aws_sign.c's model (interpreting the regenerated format strings) equals the independent SigV4
   spec on the alphabet the interface supports. Generic in the hash functions. *)
From Coq Require Import NArith ZArith List Bool String Lia.
From LCP Require Import Base.CheckedMem Gen.Repo_codec Gen.Repo_aws Util.Hex Util.HexProofs
     Aws.AwsBase Aws.SigV4Spec Aws.AwsSignModel.
Import ListNotations.
Local Open Scope N_scope.

Lemma hexify_str_ok bs : bytes_ok bs -> hexify_str bs = Some (hex_spec bs).
Proof.
  intros H. unfold hexify_str. rewrite (hexify_correct bs H). f_equal. apply removelast_last.
Qed.

(* ---------- alphabet lemmas ---------- *)
Definition no_space (s : bytes) : bool := forallb (fun c => negb (c =? 32)) s.
Definition unreserved_str (s : bytes) : bool := forallb unreserved s.
Definition path_str (s : bytes) : bool := forallb (fun c => unreserved c || (c =? 47)) s.

Lemma drop_spaces_id s : no_space s = true -> drop_spaces s = s.
Proof.
  destruct s as [|c r]; [reflexivity|]. cbn [no_space forallb drop_spaces]. intros H.
  apply andb_true_iff in H. destruct H as [H _]. apply negb_true_iff in H. rewrite H. reflexivity.
Qed.

Lemma squeeze_id s : no_space s = true -> squeeze s = s.
Proof.
  induction s as [|c r IH]; [reflexivity|]. cbn [no_space forallb squeeze]. intros H.
  apply andb_true_iff in H. destruct H as [H Hr]. apply negb_true_iff in H. rewrite H.
  f_equal. apply IH, Hr.
Qed.

Lemma trimall_id s : no_space s = true -> trimall s = s.
Proof. intros H. unfold trimall. rewrite drop_spaces_id by exact H. apply squeeze_id, H. Qed.

Lemma unreserved_not_space c : unreserved c = true -> negb (c =? 32) = true.
Proof.
  intros H. destruct (N.eqb_spec c 32) as [->|]; [|reflexivity]. vm_compute in H. discriminate.
Qed.

Lemma unreserved_no_space s : unreserved_str s = true -> no_space s = true.
Proof.
  unfold unreserved_str, no_space. rewrite !forallb_forall. intros H x Hx.
  apply unreserved_not_space, H, Hx.
Qed.

Lemma no_space_app x y : no_space x = true -> no_space y = true -> no_space (x ++ y) = true.
Proof. unfold no_space. rewrite forallb_app. intros -> ->. reflexivity. Qed.

Lemma uri_encode_app e x y : uri_encode e (x ++ y) = uri_encode e x ++ uri_encode e y.
Proof. unfold uri_encode. apply flat_map_app. Qed.

Lemma uri_encode_unreserved e s : unreserved_str s = true -> uri_encode e s = s.
Proof.
  induction s as [|c r IH]; [reflexivity|]. cbn [unreserved_str forallb]. intros H.
  apply andb_true_iff in H. destruct H as [H Hr]. unfold uri_encode. cbn [flat_map].
  rewrite H. cbn [app]. f_equal. apply IH, Hr.
Qed.

Lemma uri_encode_path s : path_str s = true -> uri_encode false s = s.
Proof.
  induction s as [|c r IH]; [reflexivity|]. cbn [path_str forallb]. intros H.
  apply andb_true_iff in H. destruct H as [H Hr]. unfold uri_encode. cbn [flat_map].
  destruct (unreserved c); cbn [orb] in H.
  - cbn [app]. f_equal. apply IH, Hr.
  - rewrite H. cbn [negb andb app]. f_equal. apply IH, Hr.
Qed.

Lemma digit_not_space z : negb (digit z =? 32) = true.
Proof. unfold digit. apply negb_true_iff, N.eqb_neq. lia. Qed.

Lemma hexdigit_lower_not_space v : negb (hexdigit_lower v =? 32) = true.
Proof. unfold hexdigit_lower. apply negb_true_iff, N.eqb_neq. destruct (v <? 10); lia. Qed.

Lemma hex_spec_no_space bs : no_space (hex_spec bs) = true.
Proof.
  induction bs as [|x r IH]; [reflexivity|]. cbn [hex_spec flat_map]. fold (hex_spec r).
  cbn [app no_space forallb]. rewrite !hexdigit_lower_not_space. exact IH.
Qed.

Section Hashes.
  Variable sha256 : bytes -> bytes.
  Variable hmac : bytes -> bytes -> bytes.
  Hypothesis sha_bytes : forall m, bytes_ok (sha256 m).
  Hypothesis hmac_bytes : forall k m, bytes_ok (hmac k m).

  (* abstract the uses of hexify (model) and hex_spec (spec) so that vm_compute can normalise
     around them *)
  Ltac abstract_hex hexf hx Hs Hh :=
    pose (hx := hex_spec); pose (hexf := hexify_str);
    assert (Hs : forall m, hexf (sha256 m) = Some (hx (sha256 m)))
      by (intros; apply hexify_str_ok, sha_bytes);
    assert (Hh : forall k m, hexf (hmac k m) = Some (hx (hmac k m)))
      by (intros; apply hexify_str_ok, hmac_bytes);
    change hexify_str with hexf; change hex_spec with hx; clearbody hexf hx.

  Ltac fold_app :=
    let f := eval cbv delta [app] beta in (@app N) in change f with (@app N).
  Ltac norm_app :=
    fold_app; repeat (progress (rewrite <- ?app_assoc, ?app_nil_r; cbn [app])).

  Lemma aws_sign_m_correct key_secret date datetime region service creq :
    aws_sign_m sha256 hmac key_secret date datetime region service creq =
    Some (hex_spec (hmac (signing_key hmac key_secret date region service)
                         (string_to_sign sha256 datetime date region service creq))).
  Proof.
    unfold aws_sign_m, string_to_sign. abstract_hex hexf hx Hs Hh.
    vm_compute. rewrite Hs. vm_compute. rewrite Hh. 
    Time vm_compute. Time norm_app. 
    reflexivity.
  Qed.

  (* ---------- timestamps ---------- *)
  Definition date_str (tmv : tm) : bytes :=
    pad4 (tm_year tmv) ++ pad2 (tm_mon tmv) ++ pad2 (tm_mday tmv).
  Definition datetime_str (tmv : tm) : bytes :=
    date_str tmv ++ [84] ++ pad2 (tm_hour tmv) ++ pad2 (tm_min tmv) ++ pad2 (tm_sec tmv) ++ [90].

  Lemma timestamps_s3_headers t :
    timestamps time_calls_aws_sign_s3_headers strftime_aws_sign_s3_headers t =
    Some [(b "datetime", datetime_str (gmtime t)); (b "date", date_str (gmtime t))].
  Proof. unfold timestamps. generalize (gmtime t). intros tmv. vm_compute. reflexivity. Qed.

  Lemma date_is_prefix tmv : date_str tmv = firstn 8 (datetime_str tmv).
  Proof. reflexivity. Qed.

  (* ---------- S3, header variant ---------- *)
  Definition s3_request (method bucket path datetime content : bytes) : request :=
    {| rq_method := method; rq_path := path; rq_query := [];
       rq_headers := [(b "Host", bucket ++ b ".s3.amazonaws.com");
                      (b "X-Amz-Date", datetime);
                      (b "X-Amz-Content-SHA256", content)];
       rq_payload_hash := content |}.

  Lemma s3_headers_sigv4 key_id key_secret region method bucket path body t :
    unreserved_str bucket = true -> path_str path = true ->
    let datetime := datetime_str (gmtime t) in
    let date := firstn 8 datetime in
    let content := hex_spec (sha256 (match body with Some x => x | None => [] end)) in
    aws_sign_s3_headers_m sha256 hmac key_id key_secret region method bucket path body t =
    Some (content, datetime,
          sigv4_authorization sha256 hmac key_id key_secret datetime date region (b "s3")
                              (s3_request method bucket path datetime content)).
  Proof.
    intros Hb Hp datetime date content.
    unfold aws_sign_s3_headers_m, headers_variant. rewrite timestamps_s3_headers.
    subst content date datetime. rewrite <- date_is_prefix.
    assert (Hdt : no_space (datetime_str (gmtime t)) = true).
    { unfold datetime_str, date_str, pad4, pad2. cbn [app no_space forallb].
      rewrite !digit_not_space. reflexivity. }
    revert Hdt. generalize (date_str (gmtime t)) (datetime_str (gmtime t)). intros d dt Hdt.
    set (bd := match body with Some x => x | None => [] end).
    unfold sigv4_authorization, sigv4_signature, string_to_sign, canonical_request,
      canonical_headers, signed_headers, canon_headers, s3_request.
    cbn [rq_method rq_path rq_query rq_headers rq_payload_hash map fst snd].
    rewrite (uri_encode_path path Hp), (trimall_id dt Hdt), (trimall_id _ (hex_spec_no_space _)).
    rewrite (trimall_id (bucket ++ b ".s3.amazonaws.com"))
      by (apply no_space_app; [apply unreserved_no_space, Hb | reflexivity]).
    unfold call_sign, aws_sign_m. abstract_hex hexf hx Hs Hh.
    vm_compute. rewrite Hs. vm_compute. rewrite Hs. vm_compute. rewrite Hh. vm_compute.
    Time norm_app.
    reflexivity.
  Qed.

  (* ---------- generic service (EC2, SNS, SES, ...) ---------- *)
  Lemma timestamps_svc_headers t :
    timestamps time_calls_aws_sign_svc_headers strftime_aws_sign_svc_headers t =
    Some [(b "datetime", datetime_str (gmtime t)); (b "date", date_str (gmtime t))].
  Proof. unfold timestamps. generalize (gmtime t). intros tmv. vm_compute. reflexivity. Qed.

  Definition svc_request (svc region datetime content : bytes) : request :=
    {| rq_method := b "POST"; rq_path := b "/"; rq_query := [];
       rq_headers := [(b "Host", svc ++ b "." ++ region ++ b ".amazonaws.com");
                      (b "X-Amz-Date", datetime);
                      (b "X-Amz-Content-SHA256", content)];
       rq_payload_hash := content |}.

  Lemma datetime_no_space tmv : no_space (datetime_str tmv) = true.
  Proof.
    unfold datetime_str, date_str, pad4, pad2. cbn [app no_space forallb].
    rewrite !digit_not_space. reflexivity.
  Qed.

  Lemma svc_headers_sigv4 key_id key_secret region svc body t :
    unreserved_str svc = true -> unreserved_str region = true ->
    let datetime := datetime_str (gmtime t) in
    let date := firstn 8 datetime in
    let content := hex_spec (sha256 (match body with Some x => x | None => [] end)) in
    aws_sign_svc_headers_m sha256 hmac key_id key_secret region svc body t =
    Some (content, datetime,
          sigv4_authorization sha256 hmac key_id key_secret datetime date region svc
                              (svc_request svc region datetime content)).
  Proof.
    intros Hsv Hr datetime date content.
    unfold aws_sign_svc_headers_m, headers_variant. rewrite timestamps_svc_headers.
    subst content date datetime. rewrite <- date_is_prefix.
    pose proof (datetime_no_space (gmtime t)) as Hdt.
    revert Hdt. generalize (date_str (gmtime t)) (datetime_str (gmtime t)). intros d dt Hdt.
    set (bd := match body with Some x => x | None => [] end).
    unfold sigv4_authorization, sigv4_signature, string_to_sign, canonical_request,
      canonical_headers, signed_headers, canon_headers, svc_request.
    cbn [rq_method rq_path rq_query rq_headers rq_payload_hash map fst snd].
    rewrite (trimall_id dt Hdt), (trimall_id _ (hex_spec_no_space _)).
    rewrite (trimall_id (svc ++ b "." ++ region ++ b ".amazonaws.com"))
      by (apply no_space_app; [apply unreserved_no_space, Hsv |
          apply no_space_app; [reflexivity |
          apply no_space_app; [apply unreserved_no_space, Hr | reflexivity]]]).
    unfold call_sign, aws_sign_m. abstract_hex hexf hx Hs Hh.
    vm_compute. rewrite Hs. vm_compute. rewrite Hs. vm_compute. rewrite Hh. vm_compute.
    norm_app.
    reflexivity.
  Qed.

  (* ---------- DynamoDB ---------- *)
  Lemma timestamps_dynamodb_headers t :
    timestamps time_calls_aws_sign_dynamodb_headers strftime_aws_sign_dynamodb_headers t =
    Some [(b "datetime", datetime_str (gmtime t)); (b "date", date_str (gmtime t))].
  Proof. unfold timestamps. generalize (gmtime t). intros tmv. vm_compute. reflexivity. Qed.

  Definition dynamodb_request (region op datetime content : bytes) : request :=
    {| rq_method := b "POST"; rq_path := b "/"; rq_query := [];
       rq_headers := [(b "Host", b "dynamodb." ++ region ++ b ".amazonaws.com");
                      (b "X-Amz-Date", datetime);
                      (b "X-Amz-Content-SHA256", content);
                      (b "X-Amz-Target", b "DynamoDB_20120810." ++ op)];
       rq_payload_hash := content |}.

  Lemma dynamodb_headers_sigv4 key_id key_secret region op body t :
    unreserved_str region = true -> unreserved_str op = true ->
    let datetime := datetime_str (gmtime t) in
    let date := firstn 8 datetime in
    let content := hex_spec (sha256 (match body with Some x => x | None => [] end)) in
    aws_sign_dynamodb_headers_m sha256 hmac key_id key_secret region op body t =
    Some (content, datetime,
          sigv4_authorization sha256 hmac key_id key_secret datetime date region (b "dynamodb")
                              (dynamodb_request region op datetime content)).
  Proof.
    intros Hr Hop datetime date content.
    unfold aws_sign_dynamodb_headers_m, headers_variant. rewrite timestamps_dynamodb_headers.
    subst content date datetime. rewrite <- date_is_prefix.
    pose proof (datetime_no_space (gmtime t)) as Hdt.
    revert Hdt. generalize (date_str (gmtime t)) (datetime_str (gmtime t)). intros d dt Hdt.
    set (bd := match body with Some x => x | None => [] end).
    unfold sigv4_authorization, sigv4_signature, string_to_sign, canonical_request,
      canonical_headers, signed_headers, canon_headers, dynamodb_request.
    cbn [rq_method rq_path rq_query rq_headers rq_payload_hash map fst snd].
    rewrite (trimall_id dt Hdt), (trimall_id _ (hex_spec_no_space _)).
    rewrite (trimall_id (b "dynamodb." ++ region ++ b ".amazonaws.com"))
      by (apply no_space_app; [reflexivity |
          apply no_space_app; [apply unreserved_no_space, Hr | reflexivity]]).
    rewrite (trimall_id (b "DynamoDB_20120810." ++ op))
      by (apply no_space_app; [reflexivity | apply unreserved_no_space, Hop]).
    unfold call_sign, aws_sign_m. abstract_hex hexf hx Hs Hh.
    vm_compute. rewrite Hs. vm_compute. rewrite Hs. vm_compute. rewrite Hh. vm_compute.
    norm_app.
    reflexivity.
  Qed.
End Hashes.
