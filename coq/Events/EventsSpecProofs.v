(* Soundness of the C04 trace checker: check_c04 t = true -> C04_holds t.
   Pure trace reasoning; nothing here depends on the model of the C. *)
From Coq Require Import NArith ZArith List Bool Arith Lia.
From LCP Require Import Events.EventsTrace Events.EventsSpec.
Import ListNotations.

(* ---------------------------------------------------------------- traces as snoc lists *)
Lemma registered_app a b : registered (a ++ b) = registered a ++ registered b.
Proof. unfold registered. apply flat_map_app. Qed.
Lemma cancelled_app a b : cancelled (a ++ b) = cancelled a ++ cancelled b.
Proof. unfold cancelled. apply flat_map_app. Qed.
Lemma invoked_app a b : invoked (a ++ b) = invoked a ++ invoked b.
Proof. unfold invoked. apply flat_map_app. Qed.

Lemma registered_snoc t e : registered (t ++ [e]) = registered t ++ ev_registered e.
Proof. rewrite registered_app. simpl. rewrite app_nil_r. reflexivity. Qed.
Lemma cancelled_snoc t e : cancelled (t ++ [e]) = cancelled t ++ ev_cancelled e.
Proof. rewrite cancelled_app. simpl. rewrite app_nil_r. reflexivity. Qed.
Lemma invoked_snoc t e : invoked (t ++ [e]) = invoked t ++ ev_invoked e.
Proof. rewrite invoked_app. simpl. rewrite app_nil_r. reflexivity. Qed.

Lemma kind_of_app t1 t2 r :
  kind_of (t1 ++ t2) r = match kind_of t1 r with Some k => Some k | None => kind_of t2 r end.
Proof.
  induction t1 as [|e t1 IH]; simpl; [reflexivity|].
  destruct e; try apply IH. destruct (Nat.eqb r0 r); [reflexivity | apply IH].
Qed.

Lemma kind_of_none_not_registered t r : kind_of t r = None <-> ~ In r (registered t).
Proof.
  induction t as [|e t IH]; simpl.
  - split; [intros _ [] | reflexivity].
  - unfold registered in *. simpl. destruct e; simpl; try apply IH.
    destruct (Nat.eqb r0 r) eqn:E.
    + apply Nat.eqb_eq in E. subst. split; [discriminate | intros H; exfalso; apply H; left; reflexivity].
    + apply Nat.eqb_neq in E. rewrite IH. split; intros H; [intros [X|X]; [congruence | auto] | intros X; apply H; right; exact X].
Qed.

Lemma last_poll_aux_snoc acc t e :
  last_poll_aux acc (t ++ [e]) =
  match e with EPoll _ _ a => Some a | _ => last_poll_aux acc t end.
Proof.
  revert acc. induction t as [|x t IH]; intros acc; simpl.
  - destruct e; reflexivity.
  - destruct x; apply IH.
Qed.
Lemma last_poll_snoc t e :
  last_poll (t ++ [e]) = match e with EPoll _ _ a => Some a | _ => last_poll t end.
Proof. apply last_poll_aux_snoc. Qed.

Lemma last_clock_aux_snoc acc t e :
  last_clock_aux acc (t ++ [e]) =
  match e with EClock c => Some c | _ => last_clock_aux acc t end.
Proof.
  revert acc. induction t as [|x t IH]; intros acc; simpl.
  - destruct e; reflexivity.
  - destruct x; apply IH.
Qed.
Lemma last_clock_snoc t e :
  last_clock (t ++ [e]) = match e with EClock c => Some c | _ => last_clock t end.
Proof. apply last_clock_aux_snoc. Qed.

(* armed_aux returns both components of its running state when run over a prefix *)
Fixpoint armed_state (r : nat) (clk arm : option tv) (t : trace) : option tv * option tv :=
  match t with
  | [] => (clk, arm)
  | EClock c :: t' => armed_state r (Some c) arm t'
  | ERegister r' _ :: t' => if Nat.eqb r' r then armed_state r clk clk t' else armed_state r clk arm t'
  | EReset r' :: t' => if Nat.eqb r' r then armed_state r clk clk t' else armed_state r clk arm t'
  | _ :: t' => armed_state r clk arm t'
  end.

Lemma armed_aux_state r clk arm t : armed_aux r clk arm t = snd (armed_state r clk arm t).
Proof.
  revert clk arm. induction t as [|e t IH]; intros; simpl; [reflexivity|].
  destruct e; try apply IH; destruct (Nat.eqb _ r); apply IH.
Qed.

Lemma armed_state_clock r clk arm t :
  fst (armed_state r clk arm t) = last_clock_aux clk t.
Proof.
  revert clk arm. induction t as [|e t IH]; intros; simpl; [reflexivity|].
  destruct e; try apply IH; destruct (Nat.eqb _ r); apply IH.
Qed.

Lemma armed_state_snoc r clk arm t e :
  armed_state r clk arm (t ++ [e]) =
  let (c, a) := armed_state r clk arm t in
  match e with
  | EClock x => (Some x, a)
  | ERegister r' _ => if Nat.eqb r' r then (c, c) else (c, a)
  | EReset r' => if Nat.eqb r' r then (c, c) else (c, a)
  | _ => (c, a)
  end.
Proof.
  revert clk arm. induction t as [|x t IH]; intros; simpl.
  - destruct e; try reflexivity; destruct (Nat.eqb _ r); reflexivity.
  - destruct x; try apply IH; destruct (Nat.eqb _ r); apply IH.
Qed.

Lemma armed_clock_snoc t e r :
  armed_clock (t ++ [e]) r =
  match e with
  | ERegister r' _ => if Nat.eqb r' r then last_clock t else armed_clock t r
  | EReset r' => if Nat.eqb r' r then last_clock t else armed_clock t r
  | _ => armed_clock t r
  end.
Proof.
  unfold armed_clock, last_clock. rewrite !armed_aux_state, armed_state_snoc.
  pose proof (armed_state_clock r None None t) as Hc.
  destruct (armed_state r None None t) as [c a]. simpl in Hc. subst c.
  destruct e; simpl; try reflexivity; destruct (Nat.eqb _ r); reflexivity.
Qed.

(* decomposing  t ++ [e] = t1 ++ x :: t2 *)
Lemma snoc_split {A} (t : list A) e t1 x t2 :
  t ++ [e] = t1 ++ x :: t2 ->
  (t2 = [] /\ t1 = t /\ x = e) \/ (exists t2', t2 = t2' ++ [e] /\ t = t1 ++ x :: t2').
Proof.
  revert t. induction t1 as [|a t1 IH]; intros t H.
  - destruct t as [|b t]; simpl in H.
    + inversion H; subst. left. auto.
    + inversion H; subst. right. exists t. auto.
  - destruct t as [|b t]; simpl in H.
    + inversion H as [[Ha Hb]]. exfalso. destruct t1; discriminate.
    + inversion H as [[Ha Hb]]. subst b. apply IH in Hb.
      destruct Hb as [[X1 [X2 X3]] | [t2' [X1 X2]]].
      * left. subst. auto.
      * right. exists t2'. subst. auto.
Qed.

(* ---------------------------------------------------------------- checker-state lemmas *)
Lemma find_reg_some r l g : find_reg r l = Some g -> In g l /\ g_rid g = r.
Proof.
  unfold find_reg. intros H. apply find_some in H. destruct H as [H1 H2].
  apply Nat.eqb_eq in H2. auto.
Qed.

Lemma find_reg_none r l : find_reg r l = None -> forall g, In g l -> g_rid g <> r.
Proof.
  unfold find_reg. intros H g Hg E. pose proof (find_none _ _ H g Hg) as X. simpl in X.
  apply Nat.eqb_neq in X. auto.
Qed.

Lemma in_remove_reg r l g : In g (remove_reg r l) <-> In g l /\ g_rid g <> r.
Proof.
  unfold remove_reg. rewrite filter_In. rewrite negb_true_iff, Nat.eqb_neq. tauto.
Qed.

Lemma mem_nat_true r l : mem_nat r l = true <-> In r l.
Proof.
  unfold mem_nat. rewrite existsb_exists. split.
  - intros [x [H1 H2]]. apply Nat.eqb_eq in H2. subst. exact H1.
  - intros H. exists r. split; [exact H | apply Nat.eqb_refl].
Qed.

Lemma net_live_true fd dir l :
  net_live fd dir l = true <-> exists g, In g l /\ g_kind g = KNet fd dir.
Proof.
  unfold net_live. rewrite existsb_exists. split.
  - intros [g [H1 H2]]. exists g. split; [exact H1|]. unfold kind_net_eqb in H2.
    destruct (g_kind g); try discriminate. apply andb_true_iff in H2. destruct H2 as [A B].
    apply Nat.eqb_eq in A. apply eqb_prop in B. subst. reflexivity.
  - intros [g [H1 H2]]. exists g. split; [exact H1|]. unfold kind_net_eqb. rewrite H2.
    rewrite Nat.eqb_refl, eqb_reflx. reflexivity.
Qed.

(* ---------------------------------------------------------------- the invariant *)
(* cancelled / invoked ids were registered: needed to know a fresh id is not among them *)
Definition wf_hist (t : trace) : Prop :=
  (forall r, In r (cancelled t) -> In r (registered t)) /\
  (forall r, In r (invoked t) -> In r (registered t)).

(* what the checker state c knows after having accepted the history t *)
Record J (t : trace) (c : c4) : Prop := {
  j_used : forall r, In r (c_used c) <-> In r (registered t);
  j_nodup_reg : NoDup (registered t);
  j_nodup_live : NoDup (map g_rid (c_live c));
  j_live : forall r, (exists g, In g (c_live c) /\ g_rid g = r) <-> live_in t r;
  j_kind : forall g, In g (c_live c) -> kind_of t (g_rid g) = Some (g_kind g);
  j_lastpoll : c_lastpoll c = match last_poll t with Some (PReady l) => l | _ => [] end;
  j_clock : c_clock c = last_clock t;
  j_ready : forall g fd dir, In g (c_live c) -> g_kind g = KNet fd dir -> g_ready g = true ->
            exists ta tb tmo fs l, t = ta ++ ERegister (g_rid g) (KNet fd dir) :: tb /\
              In (EPoll tmo fs (PReady l)) tb /\ answers fd dir l = true;
  j_due : forall g tmo, In g (c_live c) -> g_kind g = KTimer tmo ->
            exists t0, armed_clock t (g_rid g) = Some t0 /\ g_due g = (us t0 + us tmo)%N;
  j_wf : wf_hist t;
  j_holds : C04_holds t
}.

Lemma live_in_nil r : ~ live_in [] r.
Proof. intros [H _]. exact H. Qed.

Lemma C04_holds_nil : C04_holds [].
Proof.
  unfold C04_holds, invoke_at_most_once, invoke_only_while_registered, reregistrable,
    socket_invoke_justified, timer_not_early. simpl.
  split; [constructor|]. split; [|split; [|split]].
  - split; [constructor|]. split; [intros []|].
    intros t1 r t2 H. exfalso. eapply app_cons_not_nil. exact H.
  - split; [|split].
    + intros t1 fd op t2 H. exfalso. eapply app_cons_not_nil. exact H.
    + intros t1 fd op e t2 r d H. exfalso. eapply app_cons_not_nil. exact H.
    + intros fd op [].
  - intros t1 r t2 fd dir H. exfalso. eapply app_cons_not_nil. exact H.
  - intros t1 r t2 tmo H. exfalso. eapply app_cons_not_nil. exact H.
Qed.

Lemma J_init : J [] c4_init.
Proof.
  constructor.
  - intros r. simpl. tauto.
  - constructor.
  - constructor.
  - intros r. split; [intros [g [[] _]] | intros H; exfalso; exact (live_in_nil r H)].
  - intros g [].
  - reflexivity.
  - reflexivity.
  - intros g fd dir [].
  - intros g tmo [].
  - split; intros r [].
  - exact C04_holds_nil.
Qed.

(* lifting the "forall decompositions" clauses from t to t ++ [e] *)
Section Lift.
  Variable t : trace.
  Variable e : event.

  Lemma lift_invoke (P : trace -> nat -> Prop) :
    (forall t1 r t2, t = t1 ++ EInvoke r :: t2 -> P t1 r) ->
    (forall r, e = EInvoke r -> P t r) ->
    forall t1 r t2, t ++ [e] = t1 ++ EInvoke r :: t2 -> P t1 r.
  Proof.
    intros Hold Hnew t1 r t2 H. apply snoc_split in H.
    destruct H as [[_ [-> He]] | [t2' [_ Ht]]].
    - apply Hnew. symmetry. exact He.
    - eapply Hold. exact Ht.
  Qed.
End Lift.

Lemma live_in_snoc_other t e r :
  ev_registered e = [] -> ev_cancelled e = [] -> ev_invoked e = [] ->
  (live_in (t ++ [e]) r <-> live_in t r).
Proof.
  intros A B C. unfold live_in. rewrite registered_snoc, cancelled_snoc, invoked_snoc, A, B, C.
  rewrite !app_nil_r. tauto.
Qed.

Lemma kind_of_snoc_other t e r :
  ev_registered e = [] -> kind_of (t ++ [e]) r = kind_of t r.
Proof.
  intros A. rewrite kind_of_app. destruct (kind_of t r); [reflexivity|].
  destruct e; simpl in *; try reflexivity. discriminate.
Qed.

(* a neutral event: not a registration, cancellation, invocation, poll, clock reading, reset,
   failure report the checker inspects *)
Definition neutral (e : event) : Prop :=
  match e with
  | ERegFailImm _ _ | ERegFailTimer _ _ | ECbEnd _ | EInterrupt | EDone | ERunStart | ERunEnd _
  | ESpinStart | ESpinEnd _ => True
  | ERegFailNet _ _ x => x <> EEXIST
  | _ => False
  end.

(* the parts of C04_holds that only look at EInvoke positions and list membership *)
Lemma holds_snoc_noninvoke t e :
  C04_holds t ->
  ev_invoked e = [] -> e <> EInvokeBogus ->
  NoDup (registered (t ++ [e])) ->
  (forall t1 fd op t2, t ++ [e] = t1 ++ ERegFailNet fd op EEXIST :: t2 ->
     exists r d, (0 <= fd)%Z /\ op_dir op = Some d /\ live_in t1 r /\
                 kind_of t1 r = Some (KNet (Z.to_nat fd) d)) ->
  (forall t1 fd op x t2 r d, t ++ [e] = t1 ++ ECancelFail fd op x :: t2 ->
     (0 <= fd)%Z -> op_dir op = Some d -> live_in t1 r ->
     kind_of t1 r <> Some (KNet (Z.to_nat fd) d)) ->
  (forall fd op, e <> ECancelBogus fd op) ->
  C04_holds (t ++ [e]).
Proof.
  intros [H1 [[H2a [H2b H2c]] [[H3a [H3b H3c]] [H4 H5]]]] Hinv Hbog Hnd Hre1 Hre2 Hcb.
  unfold C04_holds.
  refine (conj _ (conj (conj _ (conj _ _)) (conj (conj _ (conj _ _)) (conj _ _)))).
  - unfold invoke_at_most_once. rewrite invoked_snoc, Hinv, app_nil_r. exact H1.
  - exact Hnd.
  - intros Hin. apply in_app_or in Hin. destruct Hin as [Hin | [Hin | []]]; [auto | congruence].
  - apply (lift_invoke t e live_in); [exact H2c|]. intros r He. subst e. discriminate.
  - exact Hre1.
  - exact Hre2.
  - intros fd op Hin. apply in_app_or in Hin. destruct Hin as [Hin | [Hin | []]].
    + exact (H3c fd op Hin).
    + exact (Hcb fd op Hin).
  - unfold socket_invoke_justified.
    intros t1 r t2 fd dir Heq. revert fd dir.
    apply (lift_invoke t e (fun t1 r => forall fd dir, kind_of t1 r = Some (KNet fd dir) ->
      (exists ta tb tmo fs l, t1 = ta ++ ERegister r (KNet fd dir) :: tb /\
         In (EPoll tmo fs (PReady l)) tb /\ answers fd dir l = true)
      \/ (exists l, last_poll t1 = Some (PReady l) /\ errhup_for fd l = true))) with (t2 := t2);
      [| | exact Heq].
    + intros t1' r' t2' Ht fd dir Hk. eapply H4; eassumption.
    + intros r0 He. subst e. discriminate.
  - unfold timer_not_early.
    intros t1 r t2 tmo Heq. revert tmo.
    apply (lift_invoke t e (fun t1 r => forall tmo, kind_of t1 r = Some (KTimer tmo) ->
      exists now t0, last_clock t1 = Some now /\ armed_clock t1 r = Some t0 /\
                     (us t0 + us tmo <= us now)%N)) with (t2 := t2); [| | exact Heq].
    + intros t1' r' t2' Ht tmo Hk. eapply H5; eassumption.
    + intros r0 He. subst e. discriminate.
Qed.

(* the EEXIST / ECancelFail clauses are inherited when e is neither *)
Lemma rereg_inherit t e :
  C04_holds t ->
  (forall fd op, e <> ERegFailNet fd op EEXIST) ->
  (forall t1 fd op t2, t ++ [e] = t1 ++ ERegFailNet fd op EEXIST :: t2 ->
     exists r d, (0 <= fd)%Z /\ op_dir op = Some d /\ live_in t1 r /\
                 kind_of t1 r = Some (KNet (Z.to_nat fd) d)).
Proof.
  intros [_ [_ [[H3a _] _]]] Hne t1 fd op t2 H. apply snoc_split in H.
  destruct H as [[_ [_ He]] | [t2' [_ Ht]]].
  - exfalso. eapply Hne. symmetry. exact He.
  - eapply H3a. exact Ht.
Qed.

Lemma cfail_inherit t e :
  C04_holds t ->
  (forall fd op x, e <> ECancelFail fd op x) ->
  (forall t1 fd op x t2 r d, t ++ [e] = t1 ++ ECancelFail fd op x :: t2 ->
     (0 <= fd)%Z -> op_dir op = Some d -> live_in t1 r ->
     kind_of t1 r <> Some (KNet (Z.to_nat fd) d)).
Proof.
  intros [_ [_ [[_ [H3b _]] _]]] Hne t1 fd op x t2 r d H. apply snoc_split in H.
  destruct H as [[_ [_ He]] | [t2' [_ Ht]]].
  - exfalso. eapply Hne. symmetry. exact He.
  - eapply H3b. exact Ht.
Qed.

Lemma ready_extend t e g fd dir :
  (exists ta tb tmo fs l, t = ta ++ ERegister (g_rid g) (KNet fd dir) :: tb /\
      In (EPoll tmo fs (PReady l)) tb /\ answers fd dir l = true) ->
  exists ta tb tmo fs l, t ++ [e] = ta ++ ERegister (g_rid g) (KNet fd dir) :: tb /\
      In (EPoll tmo fs (PReady l)) tb /\ answers fd dir l = true.
Proof.
  intros [ta [tb [tmo [fs [l [H1 [H2 H3]]]]]]]. exists ta, (tb ++ [e]), tmo, fs, l.
  split; [|split].
  - rewrite H1. rewrite <- app_assoc. reflexivity.
  - apply in_or_app. left. exact H2.
  - exact H3.
Qed.

(* ---------------------------------------------------------------- the step lemma *)
Ltac inv_some :=
  match goal with
  | H : Some _ = Some _ |- _ => inversion H; subst; clear H
  | H : None = Some _ |- _ => discriminate H
  end.

Lemma J_step_neutral t c e :
  J t c -> neutral e -> J (t ++ [e]) c.
Proof.
  intros HJ Hn.
  assert (Hr : ev_registered e = []) by (destruct e; simpl in *; tauto || reflexivity).
  assert (Hc : ev_cancelled e = []) by (destruct e; simpl in *; tauto || reflexivity).
  assert (Hi : ev_invoked e = []) by (destruct e; simpl in *; tauto || reflexivity).
  destruct HJ. constructor.
  - intros r. rewrite registered_snoc, Hr, app_nil_r. auto.
  - rewrite registered_snoc, Hr, app_nil_r. auto.
  - auto.
  - intros r. rewrite live_in_snoc_other by assumption. auto.
  - intros g Hg. rewrite kind_of_snoc_other by assumption. auto.
  - rewrite last_poll_snoc. destruct e; simpl in Hn; try tauto; assumption.
  - rewrite last_clock_snoc. destruct e; simpl in Hn; try tauto; assumption.
  - intros g fd dir Hg Hk Hrd. apply ready_extend. eauto.
  - intros g tmo Hg Hk. rewrite armed_clock_snoc. destruct e; simpl in Hn; try tauto; eauto.
  - unfold wf_hist. rewrite registered_snoc, cancelled_snoc, invoked_snoc, Hr, Hc, Hi, !app_nil_r. auto.
  - apply holds_snoc_noninvoke; auto.
    + destruct e; simpl in Hn; try tauto; discriminate.
    + rewrite registered_snoc, Hr, app_nil_r. auto.
    + apply rereg_inherit; auto. intros fd op E. subst e. simpl in Hn. congruence.
    + apply cfail_inherit; auto. intros fd op x E. subst e. simpl in Hn. tauto.
    + intros fd op E. subst e. simpl in Hn. tauto.
Qed.




(* ---------------------------------------------------------------- auxiliary facts *)
Lemma nodup_snoc {A} (l : list A) x : NoDup l -> ~ In x l -> NoDup (l ++ [x]).
Proof.
  induction l as [|a l IH]; intros Hn Hx; simpl.
  - constructor; [intros [] | constructor].
  - inversion Hn; subst. constructor.
    + intros Hin. apply in_app_or in Hin. destruct Hin as [Hin | [Hin | []]]; [auto|].
      subst. apply Hx. left. reflexivity.
    + apply IH; [assumption|]. intros Hin. apply Hx. right. exact Hin.
Qed.

Lemma nodup_map_filter {A B} (f : A -> B) (p : A -> bool) l :
  NoDup (map f l) -> NoDup (map f (filter p l)).
Proof.
  induction l as [|a l IH]; simpl; intros H; [constructor|].
  inversion H; subst. destruct (p a); simpl; [|auto].
  constructor; [|auto]. intros Hin. apply H2. apply in_map_iff in Hin.
  destruct Hin as [x [E Hx]]. apply filter_In in Hx. apply in_map_iff. exists x. tauto.
Qed.

Lemma kind_of_some_split t r k :
  kind_of t r = Some k -> exists ta tb, t = ta ++ ERegister r k :: tb.
Proof.
  induction t as [|e t IH]; simpl; [discriminate|].
  intros H.
  assert (Hrec : kind_of t r = Some k -> exists ta tb, e :: t = ta ++ ERegister r k :: tb).
  { intros X. destruct (IH X) as [ta [tb E]]. exists (e :: ta), tb. rewrite E. reflexivity. }
  destruct e; auto.
  destruct (Nat.eqb r0 r) eqn:E; [|auto].
  apply Nat.eqb_eq in E. subst. inversion H; subst. exists [], t. reflexivity.
Qed.

Lemma live_in_registered t r : live_in t r -> In r (registered t).
Proof. intros [H _]. exact H. Qed.

(* the structural fields of J for an event that registers, cancels and invokes nothing and a
   new live list with the same ids and kinds *)
Definition same_ids (l l' : list reg) : Prop :=
  map g_rid l' = map g_rid l /\
  (forall g', In g' l' -> exists g, In g l /\ g_rid g = g_rid g' /\ g_kind g = g_kind g').

Lemma same_ids_refl l : same_ids l l.
Proof. split; [reflexivity|]. intros g Hg. exists g. auto. Qed.

Lemma same_ids_map (f : reg -> reg) l :
  (forall g, g_rid (f g) = g_rid g /\ g_kind (f g) = g_kind g) -> same_ids l (map f l).
Proof.
  intros Hf. split.
  - rewrite map_map. apply map_ext. intros g. apply Hf.
  - intros g' Hg'. apply in_map_iff in Hg'. destruct Hg' as [g [E Hg]]. subst.
    exists g. destruct (Hf g). auto.
Qed.

Lemma same_ids_exists l l' r :
  same_ids l l' -> ((exists g, In g l' /\ g_rid g = r) <-> (exists g, In g l /\ g_rid g = r)).
Proof.
  intros [Hm Hk]. split.
  - intros [g' [Hg' E]]. destruct (Hk g' Hg') as [g [A [B C]]]. exists g. split; [auto | congruence].
  - intros [g [Hg E]]. assert (In r (map g_rid l')).
    { rewrite Hm. apply in_map_iff. exists g. auto. }
    apply in_map_iff in H. destruct H as [g' [A B]]. exists g'. auto.
Qed.

Lemma J_passive t c e c' :
  J t c ->
  ev_registered e = [] -> ev_cancelled e = [] -> ev_invoked e = [] ->
  c_used c' = c_used c -> same_ids (c_live c) (c_live c') ->
  c_lastpoll c' = match last_poll (t ++ [e]) with Some (PReady l) => l | _ => [] end ->
  c_clock c' = last_clock (t ++ [e]) ->
  (forall g fd dir, In g (c_live c') -> g_kind g = KNet fd dir -> g_ready g = true ->
     exists ta tb tmo fs l, t ++ [e] = ta ++ ERegister (g_rid g) (KNet fd dir) :: tb /\
       In (EPoll tmo fs (PReady l)) tb /\ answers fd dir l = true) ->
  (forall g tmo, In g (c_live c') -> g_kind g = KTimer tmo ->
     exists t0, armed_clock (t ++ [e]) (g_rid g) = Some t0 /\ g_due g = (us t0 + us tmo)%N) ->
  C04_holds (t ++ [e]) ->
  J (t ++ [e]) c'.
Proof.
  intros HJ Hr Hc Hi Hu Hs Hlp Hck Hrd Hdue Hh. destruct HJ.
  constructor; auto.
  - intros r. rewrite Hu, registered_snoc, Hr, app_nil_r. auto.
  - rewrite registered_snoc, Hr, app_nil_r. auto.
  - destruct Hs as [Hm _]. rewrite Hm. auto.
  - intros r. rewrite (same_ids_exists _ _ r Hs). rewrite live_in_snoc_other by assumption. auto.
  - intros g' Hg'. destruct Hs as [_ Hk]. destruct (Hk g' Hg') as [g [A [B C]]].
    rewrite kind_of_snoc_other by assumption. rewrite <- B, <- C. auto.
  - unfold wf_hist. rewrite registered_snoc, cancelled_snoc, invoked_snoc, Hr, Hc, Hi, !app_nil_r. auto.
Qed.

(* C04_holds for a passive event that is neither an EEXIST report nor a failed cancel *)
Lemma holds_passive t e :
  C04_holds t -> NoDup (registered t) ->
  ev_registered e = [] -> ev_invoked e = [] -> e <> EInvokeBogus ->
  (forall fd op, e <> ERegFailNet fd op EEXIST) ->
  (forall fd op x, e <> ECancelFail fd op x) ->
  (forall fd op, e <> ECancelBogus fd op) ->
  C04_holds (t ++ [e]).
Proof.
  intros Hh Hnd Hr Hi Hb H1 H2 H3. apply holds_snoc_noninvoke; auto.
  - rewrite registered_snoc, Hr, app_nil_r. exact Hnd.
  - apply rereg_inherit; auto.
  - apply cfail_inherit; auto.
Qed.

(* ---------------------------------------------------------------- one lemma per event *)
Lemma J_clock t c x :
  J t c ->
  J (t ++ [EClock x])
    {| c_live := c_live c; c_used := c_used c; c_lastpoll := c_lastpoll c; c_clock := Some x |}.
Proof.
  intros HJ. apply J_passive with (c := c); auto; simpl.
  - apply same_ids_refl.
  - rewrite last_poll_snoc. apply (j_lastpoll _ _ HJ).
  - rewrite last_clock_snoc. reflexivity.
  - intros g fd dir Hg Hk Hrd. apply ready_extend. eapply (j_ready _ _ HJ); eauto.
  - intros g tmo Hg Hk. rewrite armed_clock_snoc. eapply (j_due _ _ HJ); eauto.
  - apply holds_passive; try discriminate; try reflexivity; destruct HJ; auto.
Qed.

Lemma mark_ready_ids l g : g_rid (mark_ready l g) = g_rid g /\ g_kind (mark_ready l g) = g_kind g.
Proof.
  unfold mark_ready. destruct (g_kind g) eqn:E; auto. destruct (answers fd dir l); simpl; auto.
Qed.

Lemma J_poll_ready t c tmo fs l :
  J t c ->
  J (t ++ [EPoll tmo fs (PReady l)])
    {| c_live := map (mark_ready l) (c_live c); c_used := c_used c; c_lastpoll := l; c_clock := c_clock c |}.
Proof.
  intros HJ. apply J_passive with (c := c); auto; simpl.
  - apply same_ids_map. apply mark_ready_ids.
  - rewrite last_poll_snoc. reflexivity.
  - rewrite last_clock_snoc. apply (j_clock _ _ HJ).
  - intros g' fd dir Hg' Hk Hrd. apply in_map_iff in Hg'. destruct Hg' as [g [E Hg]]. subst g'.
    destruct (mark_ready_ids l g) as [Ei Ek]. rewrite Ei. rewrite Ek in Hk.
    destruct (g_ready g) eqn:Eg.
    + apply ready_extend. eapply (j_ready _ _ HJ); eauto.
    + (* newly marked by this poll *)
      unfold mark_ready in Hrd. rewrite Hk in Hrd. destruct (answers fd dir l) eqn:Ea; [|congruence].
      pose proof (j_kind _ _ HJ g Hg) as Hko. rewrite Hk in Hko.
      destruct (kind_of_some_split _ _ _ Hko) as [ta [tb Ht]].
      exists ta, (tb ++ [EPoll tmo fs (PReady l)]), tmo, fs, l. split; [|split].
      * rewrite Ht. rewrite <- app_assoc. reflexivity.
      * apply in_or_app. right. left. reflexivity.
      * exact Ea.
  - intros g' tm Hg' Hk. apply in_map_iff in Hg'. destruct Hg' as [g [E Hg]]. subst g'.
    destruct (mark_ready_ids l g) as [Ei Ek]. rewrite Ei. rewrite Ek in Hk.
    rewrite armed_clock_snoc.
    assert (g_due (mark_ready l g) = g_due g).
    { unfold mark_ready. destruct (g_kind g); auto. destruct (answers fd dir l); auto. }
    rewrite H. eapply (j_due _ _ HJ); eauto.
  - apply holds_passive; try discriminate; try reflexivity; destruct HJ; auto.
Qed.

Lemma J_poll_eintr t c tmo fs b :
  J t c ->
  J (t ++ [EPoll tmo fs (PEintr b)])
    {| c_live := c_live c; c_used := c_used c; c_lastpoll := []; c_clock := c_clock c |}.
Proof.
  intros HJ. apply J_passive with (c := c); auto; simpl.
  - apply same_ids_refl.
  - rewrite last_poll_snoc. reflexivity.
  - rewrite last_clock_snoc. apply (j_clock _ _ HJ).
  - intros g fd dir Hg Hk Hrd. apply ready_extend. eapply (j_ready _ _ HJ); eauto.
  - intros g tm Hg Hk. rewrite armed_clock_snoc. eapply (j_due _ _ HJ); eauto.
  - apply holds_passive; try discriminate; try reflexivity; destruct HJ; auto.
Qed.

Lemma set_due_ids r b g : g_rid (set_due r b g) = g_rid g /\ g_kind (set_due r b g) = g_kind g.
Proof.
  unfold set_due. destruct (Nat.eqb (g_rid g) r); auto. destruct (g_kind g) eqn:E; simpl; auto.
Qed.

Lemma J_reset t c r g now :
  J t c -> find_reg r (c_live c) = Some g -> c_clock c = Some now ->
  J (t ++ [EReset r])
    {| c_live := map (set_due r (us now)) (c_live c); c_used := c_used c;
       c_lastpoll := c_lastpoll c; c_clock := Some now |}.
Proof.
  intros HJ Hf Hnow. apply J_passive with (c := c); auto; simpl.
  - apply same_ids_map. apply set_due_ids.
  - rewrite last_poll_snoc. apply (j_lastpoll _ _ HJ).
  - rewrite last_clock_snoc. rewrite <- (j_clock _ _ HJ). symmetry. exact Hnow.
  - intros g' fd dir Hg' Hk Hrd. apply in_map_iff in Hg'. destruct Hg' as [g0 [E Hg0]]. subst g'.
    destruct (set_due_ids r (us now) g0) as [Ei Ek]. rewrite Ei. rewrite Ek in Hk.
    assert (set_due r (us now) g0 = g0).
    { unfold set_due. destruct (Nat.eqb (g_rid g0) r); auto. rewrite Hk. reflexivity. }
    rewrite H in Hrd. apply ready_extend. eapply (j_ready _ _ HJ); eauto.
  - intros g' tm Hg' Hk. apply in_map_iff in Hg'. destruct Hg' as [g0 [E Hg0]]. subst g'.
    destruct (set_due_ids r (us now) g0) as [Ei Ek]. rewrite Ei. rewrite Ek in Hk.
    rewrite armed_clock_snoc. unfold set_due. rewrite (Nat.eqb_sym r (g_rid g0)).
    destruct (Nat.eqb (g_rid g0) r) eqn:E.
    + rewrite Hk. simpl. exists now. split; [|reflexivity].
      rewrite <- (j_clock _ _ HJ). exact Hnow.
    + eapply (j_due _ _ HJ); eauto.
  - apply holds_passive; try discriminate; try reflexivity; destruct HJ; auto.
Qed.

Lemma J_eexist t c fd op :
  J t c -> net_slot_live fd op (c_live c) = Some true ->
  J (t ++ [ERegFailNet fd op EEXIST]) c.
Proof.
  intros HJ Hs. apply J_passive with (c := c); auto; simpl.
  - apply same_ids_refl.
  - rewrite last_poll_snoc. apply (j_lastpoll _ _ HJ).
  - rewrite last_clock_snoc. apply (j_clock _ _ HJ).
  - intros g fd' dir Hg Hk Hrd. apply ready_extend. eapply (j_ready _ _ HJ); eauto.
  - intros g tm Hg Hk. rewrite armed_clock_snoc. eapply (j_due _ _ HJ); eauto.
  - apply holds_snoc_noninvoke; try discriminate; try reflexivity.
    + apply (j_holds _ _ HJ).
    + rewrite registered_snoc. simpl. rewrite app_nil_r. apply (j_nodup_reg _ _ HJ).
    + intros t1 fd' op' t2 H. apply snoc_split in H.
      destruct H as [[_ [-> He]] | [t2' [_ Ht]]].
      * inversion He; subst fd' op'. unfold net_slot_live in Hs.
        destruct (0 <=? fd)%Z eqn:E0; [|discriminate]. destruct (op_dir op) as [d|] eqn:Ed; [|discriminate].
        inversion Hs as [Hl]. apply net_live_true in Hl. destruct Hl as [g [Hg Hk]].
        exists (g_rid g), d. split; [apply Z.leb_le; exact E0|]. split; [reflexivity|]. split.
        -- apply (j_live _ _ HJ). exists g. auto.
        -- rewrite (j_kind _ _ HJ g Hg). rewrite Hk. reflexivity.
      * destruct (j_holds _ _ HJ) as [_ [_ [[H3a _] _]]]. eapply H3a. exact Ht.
    + apply cfail_inherit; [apply (j_holds _ _ HJ)|]. discriminate.
Qed.

Lemma J_cancelfail t c fd op x :
  J t c -> net_slot_live fd op (c_live c) <> Some true ->
  J (t ++ [ECancelFail fd op x]) c.
Proof.
  intros HJ Hs. apply J_passive with (c := c); auto; simpl.
  - apply same_ids_refl.
  - rewrite last_poll_snoc. apply (j_lastpoll _ _ HJ).
  - rewrite last_clock_snoc. apply (j_clock _ _ HJ).
  - intros g fd' dir Hg Hk Hrd. apply ready_extend. eapply (j_ready _ _ HJ); eauto.
  - intros g tm Hg Hk. rewrite armed_clock_snoc. eapply (j_due _ _ HJ); eauto.
  - apply holds_snoc_noninvoke; try discriminate; try reflexivity.
    + apply (j_holds _ _ HJ).
    + rewrite registered_snoc. simpl. rewrite app_nil_r. apply (j_nodup_reg _ _ HJ).
    + apply rereg_inherit; [apply (j_holds _ _ HJ)|]. discriminate.
    + intros t1 fd' op' x' t2 r d H Hfd Hd Hlive Hkind. apply snoc_split in H.
      destruct H as [[_ [-> He]] | [t2' [_ Ht]]].
      * inversion He; subst fd' op' x'. apply Hs. unfold net_slot_live.
        apply Z.leb_le in Hfd. rewrite Hfd, Hd. f_equal. apply net_live_true.
        apply (j_live _ _ HJ) in Hlive. destruct Hlive as [g [Hg Er]]. exists g. split; [exact Hg|].
        pose proof (j_kind _ _ HJ g Hg) as Hk. rewrite Er, Hkind in Hk. inversion Hk. reflexivity.
      * destruct (j_holds _ _ HJ) as [_ [_ [[_ [H3b _]] _]]]. eapply H3b; eauto.
Qed.

Lemma J_register t c r k :
  J t c -> mem_nat r (c_used c) = false ->
  (match k with
   | KNet fd dir => negb (net_live fd dir (c_live c))
   | KTimer _ => match c_clock c with Some _ => true | None => false end
   | KImm _ => true
   end) = true ->
  J (t ++ [ERegister r k])
    {| c_live := {| g_rid := r; g_kind := k; g_ready := false;
                    g_due := match k, c_clock c with
                             | KTimer tmo, Some now => (us now + us tmo)%N
                             | _, _ => 0%N
                             end |} :: c_live c;
       c_used := r :: c_used c; c_lastpoll := c_lastpoll c; c_clock := c_clock c |}.
Proof.
  intros HJ Hfresh Hok.
  assert (Hnr : ~ In r (registered t)).
  { intros X. apply (j_used _ _ HJ) in X. apply mem_nat_true in X. congruence. }
  assert (Hnc : ~ In r (cancelled t)) by (intros X; apply Hnr; destruct (j_wf _ _ HJ) as [W1 W2]; apply W1; exact X).
  assert (Hni : ~ In r (invoked t)) by (intros X; apply Hnr; destruct (j_wf _ _ HJ) as [W1 W2]; apply W2; exact X).
  assert (Hnl : forall g, In g (c_live c) -> g_rid g <> r).
  { intros g Hg E. apply Hnr. apply live_in_registered. apply (j_live _ _ HJ). exists g. auto. }
  constructor; simpl.
  - intros x. rewrite registered_snoc. simpl. rewrite in_app_iff. simpl.
    rewrite (j_used _ _ HJ x). intuition.
  - rewrite registered_snoc. simpl. apply nodup_snoc; [apply (j_nodup_reg _ _ HJ) | exact Hnr].
  - constructor; [|apply (j_nodup_live _ _ HJ)].
    intros X. apply in_map_iff in X. destruct X as [g [E Hg]]. exact (Hnl g Hg E).
  - intros x. unfold live_in. rewrite registered_snoc, cancelled_snoc, invoked_snoc. simpl.
    rewrite !app_nil_r, in_app_iff. simpl. split.
    + intros [g [[Hg | Hg] E]].
      * subst g. simpl in E. subst x. auto.
      * assert (L : live_in t x) by (apply (j_live _ _ HJ); exists g; auto).
        destruct L as [L1 [L2 L3]]. auto.
    + intros [[H1 | [H1 | []]] [H2 H3]].
      * assert (L : live_in t x) by (split; auto).
        apply (j_live _ _ HJ) in L. destruct L as [g [Hg E]]. exists g. auto.
      * subst x. eexists. split; [left; reflexivity | reflexivity].
  - intros g [Hg | Hg].
    + subst g. simpl. rewrite kind_of_app.
      assert (kind_of t r = None) by (apply kind_of_none_not_registered; exact Hnr).
      rewrite H. simpl. rewrite Nat.eqb_refl. reflexivity.
    + rewrite kind_of_app. rewrite (j_kind _ _ HJ g Hg). reflexivity.
  - rewrite last_poll_snoc. apply (j_lastpoll _ _ HJ).
  - rewrite last_clock_snoc. apply (j_clock _ _ HJ).
  - intros g fd dir [Hg | Hg] Hk Hrd.
    + subst g. simpl in Hrd. discriminate.
    + apply ready_extend. eapply (j_ready _ _ HJ); eauto.
  - intros g tmo [Hg | Hg] Hk.
    + subst g. simpl in *. subst k. rewrite armed_clock_snoc, Nat.eqb_refl.
      rewrite <- (j_clock _ _ HJ). destruct (c_clock c) as [now|]; [|discriminate].
      exists now. auto.
    + rewrite armed_clock_snoc.
      assert (Nat.eqb r (g_rid g) = false).
      { apply Nat.eqb_neq. intros E. apply (Hnl g Hg). auto. }
      rewrite H. eapply (j_due _ _ HJ); eauto.
  - unfold wf_hist. rewrite registered_snoc, cancelled_snoc, invoked_snoc. simpl. rewrite !app_nil_r.
    destruct (j_wf _ _ HJ) as [W1 W2]. split; intros x Hx; apply in_or_app; left; auto.
  - apply holds_snoc_noninvoke; try discriminate; try reflexivity.
    + apply (j_holds _ _ HJ).
    + rewrite registered_snoc. simpl. apply nodup_snoc; [apply (j_nodup_reg _ _ HJ) | exact Hnr].
    + apply rereg_inherit; [apply (j_holds _ _ HJ)|]. discriminate.
    + apply cfail_inherit; [apply (j_holds _ _ HJ)|]. discriminate.
Qed.

(* removing r from the live list: shared by ECancel and EInvoke *)
Lemma J_remove_fields t c r e :
  J t c -> live_in t r ->
  ev_registered e = [] ->
  ((ev_cancelled e = [r] /\ ev_invoked e = []) \/ (ev_cancelled e = [] /\ ev_invoked e = [r])) ->
  (match e with EPoll _ _ _ | EClock _ | EReset _ => False | _ => True end) ->
  C04_holds (t ++ [e]) ->
  J (t ++ [e])
    {| c_live := remove_reg r (c_live c); c_used := c_used c; c_lastpoll := c_lastpoll c;
       c_clock := c_clock c |}.
Proof.
  intros HJ Hlive Hr Hci Hshape Hh.
  constructor; simpl.
  - intros x. rewrite registered_snoc, Hr, app_nil_r. apply (j_used _ _ HJ).
  - rewrite registered_snoc, Hr, app_nil_r. apply (j_nodup_reg _ _ HJ).
  - apply nodup_map_filter. apply (j_nodup_live _ _ HJ).
  - intros x. unfold live_in. rewrite registered_snoc, cancelled_snoc, invoked_snoc, Hr, app_nil_r.
    split.
    + intros [g [Hg E]]. apply in_remove_reg in Hg. destruct Hg as [Hg Hne].
      assert (L : live_in t x) by (apply (j_live _ _ HJ); exists g; auto).
      destruct L as [L1 [L2 L3]]. split; [exact L1|].
      destruct Hci as [[A B] | [A B]]; rewrite A, B, ?app_nil_r; split; auto;
        intros X; apply in_app_or in X; destruct X as [X | [X | []]]; auto; congruence.
    + intros [L1 [L2 L3]].
      assert (Hxr : x <> r).
      { intros ->. destruct Hci as [[A B] | [A B]]; rewrite A, B in *.
        - apply L2. apply in_or_app. right. left. reflexivity.
        - apply L3. apply in_or_app. right. left. reflexivity. }
      assert (L : live_in t x).
      { split; [exact L1|]. split; intros X; [apply L2 | apply L3]; apply in_or_app; left; exact X. }
      apply (j_live _ _ HJ) in L. destruct L as [g [Hg E]]. exists g. split; [|exact E].
      apply in_remove_reg. split; [exact Hg | congruence].
  - intros g Hg. apply in_remove_reg in Hg. destruct Hg as [Hg _].
    rewrite kind_of_snoc_other by assumption. apply (j_kind _ _ HJ g Hg).
  - rewrite last_poll_snoc. destruct e; try tauto; apply (j_lastpoll _ _ HJ).
  - rewrite last_clock_snoc. destruct e; try tauto; apply (j_clock _ _ HJ).
  - intros g fd dir Hg Hk Hrd. apply in_remove_reg in Hg. destruct Hg as [Hg _].
    apply ready_extend. eapply (j_ready _ _ HJ); eauto.
  - intros g tmo Hg Hk. apply in_remove_reg in Hg. destruct Hg as [Hg _].
    rewrite armed_clock_snoc. destruct e; try tauto; try (eapply (j_due _ _ HJ); eauto); discriminate.
  - unfold wf_hist. rewrite registered_snoc, cancelled_snoc, invoked_snoc, Hr, app_nil_r.
    destruct (j_wf _ _ HJ) as [W1 W2].
    destruct Hci as [[A B] | [A B]]; rewrite A, B, ?app_nil_r; split; intros x Hx; auto;
      apply in_app_or in Hx; destruct Hx as [Hx | [Hx | []]]; auto; subst x; apply live_in_registered; exact Hlive.
  - exact Hh.
Qed.

Lemma J_cancel t c r g :
  J t c -> find_reg r (c_live c) = Some g ->
  J (t ++ [ECancel r])
    {| c_live := remove_reg r (c_live c); c_used := c_used c; c_lastpoll := c_lastpoll c;
       c_clock := c_clock c |}.
Proof.
  intros HJ Hf. apply find_reg_some in Hf. destruct Hf as [Hg Er].
  assert (Hlive : live_in t r) by (apply (j_live _ _ HJ); exists g; auto).
  apply J_remove_fields; auto; simpl; auto.
  apply holds_passive; try discriminate; try reflexivity; destruct HJ; auto.
Qed.

Lemma J_invoke t c r g :
  J t c -> find_reg r (c_live c) = Some g ->
  (match g_kind g with
   | KImm _ => true
   | KNet fd dir => g_ready g || errhup_for fd (c_lastpoll c)
   | KTimer _ => match c_clock c with Some now => (g_due g <=? us now)%N | None => false end
   end) = true ->
  J (t ++ [EInvoke r])
    {| c_live := remove_reg r (c_live c); c_used := c_used c; c_lastpoll := c_lastpoll c;
       c_clock := c_clock c |}.
Proof.
  intros HJ Hf Hok. apply find_reg_some in Hf. destruct Hf as [Hg Er].
  assert (Hlive : live_in t r) by (apply (j_live _ _ HJ); exists g; auto).
  assert (Hkind : kind_of t r = Some (g_kind g)) by (rewrite <- Er; apply (j_kind _ _ HJ g Hg)).
  apply J_remove_fields; auto; simpl; auto.
  destruct (j_holds _ _ HJ) as [H1 [[H2a [H2b H2c]] [[H3a [H3b H3c]] [H4 H5]]]].
  unfold C04_holds.
  refine (conj _ (conj (conj _ (conj _ _)) (conj (conj _ (conj _ _)) (conj _ _)))).
  - unfold invoke_at_most_once. rewrite invoked_snoc. simpl. apply nodup_snoc; [exact H1|].
    destruct Hlive as [_ [_ L3]]. exact L3.
  - rewrite registered_snoc. simpl. rewrite app_nil_r. exact H2a.
  - intros Hin. apply in_app_or in Hin. destruct Hin as [Hin | [Hin | []]]; [auto | discriminate].
  - apply (lift_invoke t (EInvoke r) live_in); [exact H2c|]. intros r0 He. inversion He; subst. exact Hlive.
  - apply rereg_inherit; [apply (j_holds _ _ HJ)|]. discriminate.
  - apply cfail_inherit; [apply (j_holds _ _ HJ)|]. discriminate.
  - intros fd op Hin. apply in_app_or in Hin. destruct Hin as [Hin | [Hin | []]]; [exact (H3c fd op Hin) | discriminate].
  - unfold socket_invoke_justified. intros t1 r1 t2 fd dir Heq. revert fd dir.
    apply (lift_invoke t (EInvoke r) (fun t1 r => forall fd dir, kind_of t1 r = Some (KNet fd dir) ->
      (exists ta tb tmo fs l, t1 = ta ++ ERegister r (KNet fd dir) :: tb /\
         In (EPoll tmo fs (PReady l)) tb /\ answers fd dir l = true)
      \/ (exists l, last_poll t1 = Some (PReady l) /\ errhup_for fd l = true))) with (t2 := t2);
      [| | exact Heq].
    + intros t1' r' t2' Ht fd dir Hk. eapply H4; eassumption.
    + intros r0 He fd dir Hk. inversion He; subst r0.
      assert (Hk' : g_kind g = KNet fd dir) by congruence.
      rewrite Hk' in Hok. apply orb_true_iff in Hok. destruct Hok as [Hrd | Heh].
      * left. rewrite <- Er. eapply (j_ready _ _ HJ); eauto.
      * right. rewrite (j_lastpoll _ _ HJ) in Heh.
        destruct (last_poll t) as [[l | b] |]; try (unfold errhup_for in Heh; simpl in Heh; discriminate).
        exists l. auto.
  - unfold timer_not_early. intros t1 r1 t2 tmo Heq. revert tmo.
    apply (lift_invoke t (EInvoke r) (fun t1 r => forall tmo, kind_of t1 r = Some (KTimer tmo) ->
      exists now t0, last_clock t1 = Some now /\ armed_clock t1 r = Some t0 /\
                     (us t0 + us tmo <= us now)%N)) with (t2 := t2); [| | exact Heq].
    + intros t1' r' t2' Ht tmo Hk. eapply H5; eassumption.
    + intros r0 He tmo Hk. inversion He; subst r0.
      assert (Hk' : g_kind g = KTimer tmo) by congruence.
      rewrite Hk' in Hok. rewrite (j_clock _ _ HJ) in Hok.
      destruct (last_clock t) as [now|]; [|discriminate].
      destruct (j_due _ _ HJ g tmo Hg Hk') as [t0 [Ha Hd]].
      exists now, t0. split; [reflexivity|]. split; [rewrite <- Er; exact Ha|].
      apply N.leb_le in Hok. rewrite <- Hd. exact Hok.
Qed.

(* ---------------------------------------------------------------- soundness *)
Lemma J_step t c e c' : J t c -> cstep4 c e = Some c' -> J (t ++ [e]) c'.
Proof.
  intros HJ Hs. destruct e; simpl in Hs.
  - (* ERegister *)
    destruct (mem_nat r (c_used c)) eqn:Em; [discriminate|].
    match type of Hs with (if ?b then _ else _) = _ => destruct b eqn:Eok; [|discriminate] end.
    inversion Hs; subst c'. apply J_register; auto.
  - inversion Hs; subst. apply J_step_neutral; simpl; auto.
  - (* ERegFailNet *)
    destruct e.
    + inversion Hs; subst. apply J_step_neutral; simpl; auto. discriminate.
    + destruct (net_slot_live fd op (c_live c)) as [[|]|] eqn:En; try discriminate.
      inversion Hs; subst. apply J_eexist; auto.
    + inversion Hs; subst. apply J_step_neutral; simpl; auto. discriminate.
    + inversion Hs; subst. apply J_step_neutral; simpl; auto. discriminate.
    + inversion Hs; subst. apply J_step_neutral; simpl; auto. discriminate.
  - inversion Hs; subst. apply J_step_neutral; simpl; auto.
  - (* ECancel *)
    destruct (find_reg r (c_live c)) as [g|] eqn:Ef; [|discriminate].
    inversion Hs; subst. eapply J_cancel; eauto.
  - (* ECancelFail *)
    destruct (net_slot_live fd op (c_live c)) as [[|]|] eqn:En; try discriminate;
      inversion Hs; subst; apply J_cancelfail; auto; rewrite En; discriminate.
  - discriminate.
  - (* EReset *)
    destruct (find_reg r (c_live c)) as [g|] eqn:Ef; [|discriminate].
    destruct (c_clock c) as [now|] eqn:Ec; [|discriminate].
    destruct (is_timer (g_kind g)); [|discriminate].
    inversion Hs; subst. eapply J_reset; eauto.
  - inversion Hs; subst. apply J_clock; auto.
  - (* EPoll *)
    destruct ans; inversion Hs; subst; [apply J_poll_ready | apply J_poll_eintr]; auto.
  - (* EInvoke *)
    destruct (find_reg r (c_live c)) as [g|] eqn:Ef; [|discriminate].
    match type of Hs with (if ?b then _ else _) = _ => destruct b eqn:Eok; [|discriminate] end.
    inversion Hs; subst. eapply J_invoke; eauto.
  - discriminate.
  - inversion Hs; subst. apply J_step_neutral; simpl; auto.
  - inversion Hs; subst. apply J_step_neutral; simpl; auto.
  - inversion Hs; subst. apply J_step_neutral; simpl; auto.
  - inversion Hs; subst. apply J_step_neutral; simpl; auto.
  - inversion Hs; subst. apply J_step_neutral; simpl; auto.
  - inversion Hs; subst. apply J_step_neutral; simpl; auto.
  - inversion Hs; subst. apply J_step_neutral; simpl; auto.
Qed.

Lemma J_steps t c t' c' : J t c -> csteps4 c t' = Some c' -> J (t ++ t') c'.
Proof.
  revert t c. induction t' as [|e t' IH]; intros t c HJ Hs; simpl in Hs.
  - inversion Hs; subst. rewrite app_nil_r. exact HJ.
  - destruct (cstep4 c e) as [c1|] eqn:E; [|discriminate].
    replace (t ++ e :: t') with ((t ++ [e]) ++ t') by (rewrite <- app_assoc; reflexivity).
    eapply IH; [|exact Hs]. eapply J_step; eauto.
Qed.

(* the checker accepts only traces for which C04 holds *)
Theorem check_c04_sound : forall t, check_c04 t = true -> C04_holds t.
Proof.
  intros t H. unfold check_c04 in H. destruct (csteps4 c4_init t) as [c|] eqn:E; [|discriminate].
  pose proof (J_steps [] c4_init t c J_init E) as HJ. simpl in HJ. apply (j_holds _ _ HJ).
Qed.

(* Non-vacuity: a trace in which an immediate, both directions of one descriptor and a timer
   fire, and a callback cancels a registration, is accepted; a double invocation, an early
   timer and an unjustified socket callback are rejected. *)
Definition rb (i o e h : bool) : rbits := {| b_in := i; b_out := o; b_err := e; b_hup := h |}.
Definition ex_trace : trace :=
  [ ERegister 0 (KImm 5); ERegister 1 (KNet 3 false); ERegister 2 (KNet 3 true);
    EClock (1, 0)%N; ERegister 3 (KTimer (0, 500)%N); ERegister 4 (KNet 4 false);
    ERunStart; EInvoke 0; ECbEnd 0; ERunEnd 0;
    ERunStart; EClock (1, 100)%N;
    EPoll 1 [(3, (true, true)); (4, (true, false))] (PReady [(3, rb true true false false); (4, rb true false false false)]);
    EInvoke 4; ECancel 1; ECbEnd 0;
    EInvoke 2; ECbEnd 0;
    EPoll 0 [] (PReady []); EClock (1, 600)%N; EInvoke 3; ECbEnd 0;
    EPoll 0 [] (PReady []); EClock (1, 600)%N; ERunEnd 0 ].
Example ex_trace_accepted : check_c04 ex_trace = true.
Proof. vm_compute. reflexivity. Qed.
Example ex_trace_c05_accepted : check_c05 ex_trace = true.
Proof. vm_compute. reflexivity. Qed.
Example ex_double_invoke_rejected :
  check_c04 [ERegister 0 (KImm 1); ERunStart; EInvoke 0; ECbEnd 0; EInvoke 0] = false.
Proof. vm_compute. reflexivity. Qed.
Example ex_after_cancel_rejected :
  check_c04 [ERegister 0 (KImm 1); ECancel 0; ERunStart; EInvoke 0] = false.
Proof. vm_compute. reflexivity. Qed.
Example ex_early_timer_rejected :
  check_c04 [EClock (1, 0)%N; ERegister 0 (KTimer (0, 500)%N); ERunStart; EClock (1, 499)%N; EInvoke 0] = false.
Proof. vm_compute. reflexivity. Qed.
Example ex_unjustified_socket_rejected :
  check_c04 [ERegister 0 (KNet 3 false); ERunStart;
             EPoll (-1) [(3, (true, false))] (PReady [(3, rb false true false false)]); EInvoke 0] = false.
Proof. vm_compute. reflexivity. Qed.
Example ex_hup_justifies :
  check_c04 [ERegister 0 (KNet 3 false); ERunStart;
             EPoll (-1) [(3, (true, false))] (PReady [(3, rb false false false true)]); EInvoke 0] = true.
Proof. vm_compute. reflexivity. Qed.
