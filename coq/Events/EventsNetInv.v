(* The invariants 1-5 of the comment block in events_network.c (Appendix B: N1-N5), proved
   preserved by every operation of the network part of the model, together with a per-descriptor
   view (field / rev_at) of what each operation does.  scanpos does not occur: nothing here
   depends on where the scan cursor is (that is what makes "cancel or re-register the descriptor
   under the cursor" harmless for safety). *)
From Coq Require Import NArith ZArith List Bool Arith Lia.
From LCP Require Import Base.CheckedMem Events.EventsTrace Events.EventsModel Events.EventsLemmas.
Import ListNotations.
Local Open Scope res_scope.

Record NetInv (n : net_st) : Prop := {
  (* N2: j < nfds -> S[fds[j].fd].pollpos = j *)
  n_slot_sock : forall j p, nth_error (fds n) j = Some p ->
      exists k, nth_error (socks n) (p_fd p) = Some k /\ pollpos k = Some j;
  (* N1: S[i].pollpos = j -> j < nfds /\ fds[j].fd = i *)
  n_sock_slot : forall i k j, nth_error (socks n) i = Some k -> pollpos k = Some j ->
      exists p, nth_error (fds n) j = Some p /\ p_fd p = i;
  (* N3: no pollfd entry -> no events registered *)
  n_nopos : forall i k, nth_error (socks n) i = Some k -> pollpos k = None ->
      reader k = None /\ writer k = None;
  (* N4: the event mask says exactly which directions are registered *)
  n_events : forall j p k dir, nth_error (fds n) j = Some p -> nth_error (socks n) (p_fd p) = Some k ->
      (pf_ev dir p = true <-> sk_get dir k <> None);
  (* N5: nothing ready that is not wanted *)
  n_revents : forall j p dir, nth_error (fds n) j = Some p -> rb_dir (p_rev p) dir = true ->
      pf_ev dir p = true;
  (* before init() ran there is nothing *)
  n_uninit : net_inited n = false -> socks n = [] /\ fds n = []
}.

(* ---------------------------------------------------------------- per-descriptor views *)
Definition field (n : net_st) (fd : nat) (dir : bool) : option rec :=
  match nth_error (socks n) fd with Some k => sk_get dir k | None => None end.

Definition slot (n : net_st) (fd : nat) : option pollfd :=
  match nth_error (socks n) fd with
  | Some k => match pollpos k with Some j => nth_error (fds n) j | None => None end
  | None => None
  end.

Definition rev_at (n : net_st) (fd : nat) : rbits :=
  match slot n fd with Some p => p_rev p | None => rb_none end.

Lemma slot_fd n fd p : NetInv n -> slot n fd = Some p -> p_fd p = fd.
Proof.
  intros HI. unfold slot. destruct (nth_error (socks n) fd) as [k|] eqn:Ek; [|discriminate].
  destruct (pollpos k) as [j|] eqn:Ej; [|discriminate]. intros Hp.
  destruct (n_sock_slot n HI fd k j Ek Ej) as [p' [A B]]. congruence.
Qed.

Lemma slot_of_nth n j p : NetInv n -> nth_error (fds n) j = Some p -> slot n (p_fd p) = Some p.
Proof.
  intros HI Hp. destruct (n_slot_sock n HI j p Hp) as [k [A B]]. unfold slot. rewrite A, B. exact Hp.
Qed.

Lemma slot_in n fd p : slot n fd = Some p -> exists j, nth_error (fds n) j = Some p.
Proof.
  unfold slot. destruct (nth_error (socks n) fd) as [k|]; [|discriminate].
  destruct (pollpos k) as [j|]; [|discriminate]. eauto.
Qed.

(* N4/N5 in per-descriptor form: an empty field has no pending revents bit *)
Lemma rev_at_field n fd dir :
  NetInv n -> rb_dir (rev_at n fd) dir = true -> field n fd dir <> None.
Proof.
  intros HI. unfold rev_at. destruct (slot n fd) as [p|] eqn:Es.
  - intros Hr. pose proof (slot_fd n fd p HI Es) as Hfd.
    destruct (slot_in n fd p Es) as [j Hj].
    pose proof (n_revents n HI j p dir Hj Hr) as Hev.
    destruct (n_slot_sock n HI j p Hj) as [k [A B]].
    unfold field. rewrite <- Hfd, A. apply (n_events n HI j p k dir Hj A). exact Hev.
  - destruct dir; simpl; discriminate.
Qed.

Definition net_empty (n : net_st) : Prop := socks n = [] /\ fds n = [].

Lemma NetInv_empty n : socks n = [] -> fds n = [] -> NetInv n.
Proof.
  intros Hs Hf. constructor; rewrite ?Hs, ?Hf.
  - intros j p H. destruct j; discriminate.
  - intros i k j H. destruct i; discriminate.
  - intros i k H. destruct i; discriminate.
  - intros j p k dir H. destruct j; discriminate.
  - intros j p dir H. destruct j; discriminate.
  - auto.
Qed.

(* ---------------------------------------------------------------- init() *)
Lemma net_init_inv n : NetInv n -> NetInv (net_init n).
Proof.
  intros HI. unfold net_init. destruct (net_inited n) eqn:E; [exact HI|].
  apply NetInv_empty; reflexivity.
Qed.

Lemma net_init_field n fd dir : NetInv n -> field (net_init n) fd dir = field n fd dir.
Proof.
  intros HI. unfold net_init. destruct (net_inited n) eqn:E; [reflexivity|].
  destruct (n_uninit n HI E) as [A B]. unfold field. simpl. rewrite A. destruct fd; reflexivity.
Qed.

Lemma net_init_slot n fd : NetInv n -> slot (net_init n) fd = slot n fd.
Proof.
  intros HI. unfold net_init. destruct (net_inited n) eqn:E; [reflexivity|].
  destruct (n_uninit n HI E) as [A B]. unfold slot. simpl. rewrite A. destruct fd; reflexivity.
Qed.

Lemma net_init_inited n : net_inited (net_init n) = true.
Proof. unfold net_init. destruct (net_inited n) eqn:E; [exact E | reflexivity]. Qed.

(* ---------------------------------------------------------------- growsocketlist *)
Lemma grow_nth n m i k :
  nth_error (socks (growsocketlist m n)) i = Some k ->
  nth_error (socks n) i = Some k \/ (length (socks n) <= i /\ k = sock_empty).
Proof. unfold growsocketlist. simpl. apply nth_error_repeat_app. Qed.

Lemma grow_nth_old n m i k :
  nth_error (socks n) i = Some k -> nth_error (socks (growsocketlist m n)) i = Some k.
Proof.
  intros H. unfold growsocketlist. simpl. rewrite nth_error_app1; [exact H|].
  apply nth_error_Some. congruence.
Qed.

Lemma grow_inv n m : NetInv n -> net_inited n = true -> NetInv (growsocketlist m n).
Proof.
  intros HI Hin. constructor.
  - intros j p Hp. simpl in Hp. destruct (n_slot_sock n HI j p Hp) as [k [A B]].
    exists k. split; [apply grow_nth_old; exact A | exact B].
  - intros i k j Hk Hj. apply grow_nth in Hk. destruct Hk as [Hk | [_ ->]]; [|discriminate].
    simpl. eapply (n_sock_slot n HI); eauto.
  - intros i k Hk Hj. apply grow_nth in Hk. destruct Hk as [Hk | [_ ->]]; [|simpl; auto].
    eapply (n_nopos n HI); eauto.
  - intros j p k dir Hp Hk. simpl in Hp. apply grow_nth in Hk. destruct Hk as [Hk | [Hlen ->]].
    + eapply (n_events n HI); eauto.
    + exfalso. destruct (n_slot_sock n HI j p Hp) as [k' [A B]].
      assert (p_fd p < length (socks n)) by (apply nth_error_Some; congruence). lia.
  - intros j p dir Hp. simpl in Hp. eapply (n_revents n HI); eauto.
  - simpl. intros X. congruence.
Qed.

Lemma grow_field n m fd dir : field (growsocketlist m n) fd dir = field n fd dir.
Proof.
  unfold field. destruct (nth_error (socks (growsocketlist m n)) fd) as [k|] eqn:E.
  - apply grow_nth in E. destruct E as [E | [Hlen ->]].
    + rewrite E. reflexivity.
    + assert (nth_error (socks n) fd = None) by (apply nth_error_None; exact Hlen).
      rewrite H. destruct dir; reflexivity.
  - destruct (nth_error (socks n) fd) as [k|] eqn:E2; [|reflexivity].
    rewrite (grow_nth_old n m fd k E2) in E. discriminate.
Qed.

Lemma grow_slot n m fd : slot (growsocketlist m n) fd = slot n fd.
Proof.
  unfold slot. destruct (nth_error (socks (growsocketlist m n)) fd) as [k|] eqn:E.
  - apply grow_nth in E. destruct E as [E | [Hlen ->]].
    + rewrite E. reflexivity.
    + assert (nth_error (socks n) fd = None) by (apply nth_error_None; exact Hlen).
      rewrite H. reflexivity.
  - destruct (nth_error (socks n) fd) as [k|] eqn:E2; [|reflexivity].
    rewrite (grow_nth_old n m fd k E2) in E. discriminate.
Qed.

Lemma grow_len n m : m <= length (socks (growsocketlist m n)) \/ length (socks n) >= m.
Proof. unfold growsocketlist. simpl. rewrite app_length, repeat_length. lia. Qed.

(* ---------------------------------------------------------------- field / mask algebra *)
Lemma sk_get_set_same d v k : sk_get d (sk_set d v k) = v.
Proof. destruct d; reflexivity. Qed.
Lemma sk_get_set_other d d' v k : d <> d' -> sk_get d' (sk_set d v k) = sk_get d' k.
Proof. destruct d, d'; simpl; congruence. Qed.
Lemma pollpos_sk_set d v k : pollpos (sk_set d v k) = pollpos k.
Proof. destruct d; reflexivity. Qed.
Lemma sk_get_setpos d p k : sk_get d (sk_setpos p k) = sk_get d k.
Proof. destruct d; reflexivity. Qed.
Lemma pollpos_setpos p k : pollpos (sk_setpos p k) = p.
Proof. reflexivity. Qed.

Lemma p_fd_set_ev d p : p_fd (pf_set_ev d p) = p_fd p.
Proof. destruct d; reflexivity. Qed.
Lemma p_rev_set_ev d p : p_rev (pf_set_ev d p) = p_rev p.
Proof. destruct d; reflexivity. Qed.
Lemma pf_ev_set_same d p : pf_ev d (pf_set_ev d p) = true.
Proof. destruct d; reflexivity. Qed.
Lemma pf_ev_set_other d d' p : d <> d' -> pf_ev d' (pf_set_ev d p) = pf_ev d' p.
Proof. destruct d, d'; simpl; congruence. Qed.

Lemma p_fd_clear d p : p_fd (pf_clear d p) = p_fd p.
Proof. destruct d; reflexivity. Qed.
Lemma pf_ev_clear_same d p : pf_ev d (pf_clear d p) = false.
Proof. destruct d; reflexivity. Qed.
Lemma pf_ev_clear_other d d' p : d <> d' -> pf_ev d' (pf_clear d p) = pf_ev d' p.
Proof. destruct d, d'; simpl; congruence. Qed.
Lemma rb_dir_clear_same d p : rb_dir (p_rev (pf_clear d p)) d = false.
Proof. destruct d; reflexivity. Qed.
Lemma rb_dir_clear_other d d' p : d <> d' -> rb_dir (p_rev (pf_clear d p)) d' = rb_dir (p_rev p) d'.
Proof. destruct d, d'; simpl; congruence. Qed.
Lemma errhup_clear d p : rb_errhup (p_rev (pf_clear d p)) = rb_errhup (p_rev p).
Proof. destruct d; reflexivity. Qed.
Lemma p_fd_set_rev r p : p_fd (pf_set_rev r p) = p_fd p.
Proof. reflexivity. Qed.
Lemma pf_ev_set_rev d r p : pf_ev d (pf_set_rev r p) = pf_ev d p.
Proof. destruct d; reflexivity. Qed.

Lemma bool_neq_cases (d d' : bool) : d = d' \/ d <> d'.
Proof. destruct d, d'; auto; right; discriminate. Qed.

(* ---------------------------------------------------------------- register: the descriptor
   already has a pollfd entry *)
Lemma reg_existing_inv n s k dir rc pp p :
  NetInv n -> net_inited n = true ->
  nth_error (socks n) s = Some k -> sk_get dir k = None -> pollpos k = Some pp ->
  nth_error (fds n) pp = Some p ->
  NetInv (net_with n (upd_nth s (sk_set dir (Some rc) k) (socks n))
                     (upd_nth pp (pf_set_ev dir p) (fds n))).
Proof.
  intros HI Hin Hk Hnone Hpp Hp.
  assert (Hs : s < length (socks n)) by (eapply nth_error_lt; eauto).
  assert (Hppl : pp < length (fds n)) by (eapply nth_error_lt; eauto).
  assert (Hpfd : p_fd p = s).
  { destruct (n_sock_slot n HI s k pp Hk Hpp) as [p' [A B]]. congruence. }
  (* a slot other than pp does not belong to descriptor s *)
  assert (Hother : forall j q, j <> pp -> nth_error (fds n) j = Some q -> p_fd q <> s).
  { intros j q Hj Hq E. destruct (n_slot_sock n HI j q Hq) as [k0 [A B]]. rewrite E in A.
    assert (k0 = k) by congruence. subst k0. congruence. }
  constructor; simpl.
  - intros j q Hq. apply nth_error_upd_nth in Hq. destruct Hq as [[<- [-> _]] | [Hj Hq]].
    + rewrite p_fd_set_ev, Hpfd. exists (sk_set dir (Some rc) k). split.
      * apply nth_error_upd_nth_eq. exact Hs.
      * rewrite pollpos_sk_set. exact Hpp.
    + destruct (n_slot_sock n HI j q Hq) as [k0 [A B]]. exists k0. split; [|exact B].
      rewrite nth_error_upd_nth_neq; [exact A|]. intros E. apply (Hother j q); auto.
  - intros i k0 j Hk0 Hj. apply nth_error_upd_nth in Hk0. destruct Hk0 as [[<- [-> _]] | [Hi Hk0]].
    + rewrite pollpos_sk_set in Hj. assert (j = pp) by congruence. subst j.
      exists (pf_set_ev dir p). split; [apply nth_error_upd_nth_eq; exact Hppl | rewrite p_fd_set_ev; exact Hpfd].
    + destruct (n_sock_slot n HI i k0 j Hk0 Hj) as [q [A B]]. exists q. split; [|exact B].
      rewrite nth_error_upd_nth_neq; [exact A|]. intros E. subst j. congruence.
  - intros i k0 Hk0 Hj. apply nth_error_upd_nth in Hk0. destruct Hk0 as [[<- [-> _]] | [Hi Hk0]].
    + rewrite pollpos_sk_set in Hj. congruence.
    + eapply (n_nopos n HI); eauto.
  - intros j q k0 d Hq Hk0. apply nth_error_upd_nth in Hq. destruct Hq as [[<- [-> _]] | [Hj Hq]].
    + rewrite p_fd_set_ev, Hpfd in Hk0. rewrite nth_error_upd_nth_eq in Hk0 by exact Hs.
      inversion Hk0; subst k0. destruct (bool_neq_cases dir d) as [<- | Hd].
      * rewrite pf_ev_set_same, sk_get_set_same. split; [discriminate | reflexivity].
      * rewrite pf_ev_set_other, sk_get_set_other by assumption.
        apply (n_events n HI pp p k d Hp). rewrite Hpfd. exact Hk.
    + rewrite nth_error_upd_nth_neq in Hk0.
      * eapply (n_events n HI); eauto.
      * intros E. apply (Hother j q); auto.
  - intros j q d Hq Hr. apply nth_error_upd_nth in Hq. destruct Hq as [[<- [-> _]] | [Hj Hq]].
    + rewrite p_rev_set_ev in Hr. pose proof (n_revents n HI pp p d Hp Hr) as Hev.
      destruct (bool_neq_cases dir d) as [<- | Hd]; [apply pf_ev_set_same|].
      rewrite pf_ev_set_other by assumption. exact Hev.
    + eapply (n_revents n HI); eauto.
  - intros X. congruence.
Qed.

(* ---------------------------------------------------------------- register: a new pollfd
   entry is appended *)
Lemma reg_new_inv n s k dir rc alloc :
  NetInv n -> net_inited n = true ->
  nth_error (socks n) s = Some k -> sk_get dir k = None -> pollpos k = None ->
  NetInv {| net_inited := net_inited n;
            socks := upd_nth s (sk_setpos (Some (length (fds n))) (sk_set dir (Some rc) k)) (socks n);
            fds := fds n ++ [pf_set_ev dir {| p_fd := s; p_ein := false; p_eout := false; p_rev := rb_none |}];
            fds_alloc := alloc; scanpos := scanpos n |}.
Proof.
  intros HI Hin Hk Hnone Hpp.
  assert (Hs : s < length (socks n)) by (eapply nth_error_lt; eauto).
  set (p0 := {| p_fd := s; p_ein := false; p_eout := false; p_rev := rb_none |}).
  set (k2 := sk_setpos (Some (length (fds n))) (sk_set dir (Some rc) k)).
  assert (Hk2pos : pollpos k2 = Some (length (fds n))) by reflexivity.
  (* no existing slot belongs to s *)
  assert (Hother : forall j q, nth_error (fds n) j = Some q -> p_fd q <> s).
  { intros j q Hq E. destruct (n_slot_sock n HI j q Hq) as [k0 [A B]]. rewrite E in A.
    assert (k0 = k) by congruence. subst k0. congruence. }
  destruct (n_nopos n HI s k Hk Hpp) as [Hrd Hwr].
  constructor; simpl.
  - intros j q Hq. apply nth_error_snoc in Hq. destruct Hq as [[Hj Hq] | [-> ->]].
    + destruct (n_slot_sock n HI j q Hq) as [k0 [A B]]. exists k0. split; [|exact B].
      rewrite nth_error_upd_nth_neq; [exact A|]. intros E. apply (Hother j q); auto.
    + rewrite p_fd_set_ev. simpl. exists k2. split; [apply nth_error_upd_nth_eq; exact Hs | exact Hk2pos].
  - intros i k0 j Hk0 Hj. apply nth_error_upd_nth in Hk0. destruct Hk0 as [[<- [-> _]] | [Hi Hk0]].
    + rewrite Hk2pos in Hj. inversion Hj; subst j. exists (pf_set_ev dir p0).
      split; [apply nth_error_snoc_last | rewrite p_fd_set_ev; reflexivity].
    + destruct (n_sock_slot n HI i k0 j Hk0 Hj) as [q [A B]]. exists q. split; [|exact B].
      rewrite nth_error_app1; [exact A | eapply nth_error_lt; eauto].
  - intros i k0 Hk0 Hj. apply nth_error_upd_nth in Hk0. destruct Hk0 as [[<- [-> _]] | [Hi Hk0]].
    + rewrite Hk2pos in Hj. discriminate.
    + eapply (n_nopos n HI); eauto.
  - intros j q k0 d Hq Hk0. apply nth_error_snoc in Hq. destruct Hq as [[Hj Hq] | [-> ->]].
    + rewrite nth_error_upd_nth_neq in Hk0.
      * eapply (n_events n HI); eauto.
      * intros E. apply (Hother j q); auto.
    + rewrite p_fd_set_ev in Hk0. simpl in Hk0. rewrite nth_error_upd_nth_eq in Hk0 by exact Hs.
      inversion Hk0; subst k0. unfold k2. rewrite sk_get_setpos.
      destruct (bool_neq_cases dir d) as [<- | Hd].
      * rewrite pf_ev_set_same, sk_get_set_same. split; [discriminate | reflexivity].
      * rewrite pf_ev_set_other, sk_get_set_other by assumption.
        split; [destruct d; simpl; discriminate|]. intros X. exfalso. apply X.
        destruct d; simpl; assumption.
  - intros j q d Hq Hr. apply nth_error_snoc in Hq. destruct Hq as [[Hj Hq] | [-> ->]].
    + eapply (n_revents n HI); eauto.
    + rewrite p_rev_set_ev in Hr. simpl in Hr. destruct d; discriminate.
  - intros X. congruence.
Qed.

Lemma field_upd n f' s k2 f d :
  nth_error (socks n) s <> None ->
  field (net_with n (upd_nth s k2 (socks n)) f') f d =
  if Nat.eqb f s then sk_get d k2 else field n f d.
Proof.
  intros Hs. unfold field. simpl. destruct (Nat.eqb f s) eqn:E.
  - apply Nat.eqb_eq in E. subst. rewrite nth_error_upd_nth_eq; [reflexivity|].
    apply nth_error_Some. exact Hs.
  - apply Nat.eqb_neq in E. rewrite nth_error_upd_nth_neq by congruence. reflexivity.
Qed.

Lemma reg_existing_field n s k dir rc pp p f d :
  nth_error (socks n) s = Some k ->
  field (net_with n (upd_nth s (sk_set dir (Some rc) k) (socks n)) (upd_nth pp (pf_set_ev dir p) (fds n))) f d =
  if Nat.eqb f s && Bool.eqb d dir then Some rc else field n f d.
Proof.
  intros Hk. rewrite field_upd by congruence. destruct (Nat.eqb f s) eqn:E; simpl; [|reflexivity].
  apply Nat.eqb_eq in E. subst f. destruct (bool_neq_cases dir d) as [<- | Hd].
  - rewrite eqb_reflx, sk_get_set_same. reflexivity.
  - rewrite sk_get_set_other by assumption.
    assert (Bool.eqb d dir = false) by (destruct d, dir; simpl; congruence).
    rewrite H. unfold field. rewrite Hk. reflexivity.
Qed.

Lemma reg_existing_rev n s k dir rc pp p f :
  NetInv n -> nth_error (socks n) s = Some k -> pollpos k = Some pp -> nth_error (fds n) pp = Some p ->
  rev_at (net_with n (upd_nth s (sk_set dir (Some rc) k) (socks n)) (upd_nth pp (pf_set_ev dir p) (fds n))) f =
  rev_at n f.
Proof.
  intros HI Hk Hpp Hp. unfold rev_at, slot. simpl.
  assert (Hs : s < length (socks n)) by (eapply nth_error_lt; eauto).
  assert (Hppl : pp < length (fds n)) by (eapply nth_error_lt; eauto).
  destruct (Nat.eq_dec f s) as [-> | Hne].
  - rewrite nth_error_upd_nth_eq by exact Hs. rewrite pollpos_sk_set, Hk, Hpp.
    rewrite nth_error_upd_nth_eq by exact Hppl. rewrite Hp, p_rev_set_ev. reflexivity.
  - rewrite nth_error_upd_nth_neq by congruence.
    destruct (nth_error (socks n) f) as [k0|] eqn:Ek0; [|reflexivity].
    destruct (pollpos k0) as [j|] eqn:Ej; [|reflexivity].
    destruct (n_sock_slot n HI f k0 j Ek0 Ej) as [q [A B]].
    assert (j <> pp).
    { intros ->. destruct (n_sock_slot n HI s k pp Hk Hpp) as [q' [A' B']]. congruence. }
    rewrite nth_error_upd_nth_neq by congruence. reflexivity.
Qed.

Lemma reg_new_field n s k dir rc alloc f d :
  nth_error (socks n) s = Some k ->
  field {| net_inited := net_inited n;
           socks := upd_nth s (sk_setpos (Some (length (fds n))) (sk_set dir (Some rc) k)) (socks n);
           fds := fds n ++ [pf_set_ev dir {| p_fd := s; p_ein := false; p_eout := false; p_rev := rb_none |}];
           fds_alloc := alloc; scanpos := scanpos n |} f d =
  if Nat.eqb f s && Bool.eqb d dir then Some rc else field n f d.
Proof.
  intros Hk. unfold field at 1. simpl.
  assert (Hs : s < length (socks n)) by (eapply nth_error_lt; eauto).
  destruct (Nat.eqb f s) eqn:E; simpl.
  - apply Nat.eqb_eq in E. subst f. rewrite nth_error_upd_nth_eq by exact Hs. rewrite sk_get_setpos.
    destruct (bool_neq_cases dir d) as [<- | Hd].
    + rewrite eqb_reflx, sk_get_set_same. reflexivity.
    + rewrite sk_get_set_other by assumption.
      assert (Bool.eqb d dir = false) by (destruct d, dir; simpl; congruence).
      rewrite H. unfold field. rewrite Hk. reflexivity.
  - apply Nat.eqb_neq in E. rewrite nth_error_upd_nth_neq by congruence. reflexivity.
Qed.

Lemma reg_new_rev n s k dir rc alloc f :
  NetInv n -> nth_error (socks n) s = Some k -> pollpos k = None ->
  rev_at {| net_inited := net_inited n;
            socks := upd_nth s (sk_setpos (Some (length (fds n))) (sk_set dir (Some rc) k)) (socks n);
            fds := fds n ++ [pf_set_ev dir {| p_fd := s; p_ein := false; p_eout := false; p_rev := rb_none |}];
            fds_alloc := alloc; scanpos := scanpos n |} f =
  rev_at n f.
Proof.
  intros HI Hk Hpp. unfold rev_at, slot. simpl.
  assert (Hs : s < length (socks n)) by (eapply nth_error_lt; eauto).
  destruct (Nat.eq_dec f s) as [-> | Hne].
  - rewrite nth_error_upd_nth_eq by exact Hs. rewrite pollpos_setpos, Hk, Hpp.
    rewrite nth_error_snoc_last, p_rev_set_ev. reflexivity.
  - rewrite nth_error_upd_nth_neq by congruence.
    destruct (nth_error (socks n) f) as [k0|] eqn:Ek0; [|reflexivity].
    destruct (pollpos k0) as [j|] eqn:Ej; [|reflexivity].
    destruct (n_sock_slot n HI f k0 j Ek0 Ej) as [q [A B]].
    rewrite nth_error_app1 by (eapply nth_error_lt; eauto). reflexivity.
Qed.

Lemma net_with_with n a b c d : net_with (net_with n a b) c d = net_with n c d.
Proof. reflexivity. Qed.

(* ---------------------------------------------------------------- events_network_register *)
Definition the_rec (cb rid : nat) : rec := {| r_cb := cb; r_rid := rid |}.

Lemma net_register_spec cb fd op rid n0 e n' :
  NetInv n0 -> net_register cb fd op rid n0 = Ok (e, n') ->
  NetInv n' /\ net_inited n' = true /\
  match e with
  | Some err =>
    (forall f d, field n' f d = field n0 f d) /\ (forall f, rev_at n' f = rev_at n0 f) /\
    (err = EEXIST -> exists dir rc, (0 <= fd)%Z /\ op_dir op = Some dir /\
                                    field n0 (Z.to_nat fd) dir = Some rc)
  | None =>
    exists dir, (0 <= fd)%Z /\ op_dir op = Some dir /\ field n0 (Z.to_nat fd) dir = None /\
      (forall f d, field n' f d =
                   if Nat.eqb f (Z.to_nat fd) && Bool.eqb d dir then Some (the_rec cb rid) else field n0 f d) /\
      (forall f, rev_at n' f = rev_at n0 f)
  end.
Proof.
  intros HI0 H. unfold net_register in H. unfold the_rec.
  set (rc := {| r_cb := cb; r_rid := rid |}) in *.
  pose proof (net_init_inv n0 HI0) as HI. pose proof (net_init_inited n0) as Hin.
  assert (Hf0 : forall f d, field (net_init n0) f d = field n0 f d) by (intros; apply net_init_field; auto).
  assert (Hr0 : forall f, rev_at (net_init n0) f = rev_at n0 f).
  { intros f. unfold rev_at. rewrite net_init_slot by assumption. reflexivity. }
  set (n := net_init n0) in *.
  destruct (fd <? 0)%Z eqn:Efd.
  { inversion H; subst. split; [exact HI|]. split; [exact Hin|]. split; [exact Hf0|]. split; [exact Hr0|].
    intros X; discriminate X. }
  apply Z.ltb_ge in Efd.
  destruct (op_dir op) as [dir|] eqn:Eop.
  2:{ inversion H; subst. split; [exact HI|]. split; [exact Hin|]. split; [exact Hf0|]. split; [exact Hr0|].
      intros X; discriminate X. }
  set (s := Z.to_nat fd) in *.
  (* after the optional growth *)
  set (n1 := if length (socks n) <=? s then growsocketlist (S s) n else n) in *.
  assert (HI1 : NetInv n1).
  { unfold n1. destruct (length (socks n) <=? s); [apply grow_inv; auto | exact HI]. }
  assert (Hin1 : net_inited n1 = true).
  { unfold n1. destruct (length (socks n) <=? s); [simpl|]; exact Hin. }
  assert (Hf1 : forall f d, field n1 f d = field n0 f d).
  { intros f d. unfold n1. destruct (length (socks n) <=? s); [rewrite grow_field|]; apply Hf0. }
  assert (Hr1 : forall f, rev_at n1 f = rev_at n0 f).
  { intros f. unfold n1. destruct (length (socks n) <=? s); [|apply Hr0].
    unfold rev_at. rewrite grow_slot. apply Hr0. }
  destruct (rdn (socks n1) s) as [k| | |] eqn:Ek; simpl in H; try discriminate.
  apply rdn_ok in Ek.
  destruct (sk_get dir k) as [rc0|] eqn:Eget.
  { inversion H; subst. split; [exact HI1|]. split; [exact Hin1|]. split; [exact Hf1|]. split; [exact Hr1|].
    intros _. exists dir, rc0. split; [exact Efd|]. split; [reflexivity|].
    rewrite <- Hf1. unfold field. rewrite Ek. exact Eget. }
  assert (Hnone : field n0 s dir = None).
  { rewrite <- Hf1. unfold field. rewrite Ek. exact Eget. }
  destruct (pollpos k) as [pp|] eqn:Epp.
  - (* existing entry *)
    simpl in H.
    assert (Hs : s < length (socks n1)) by (eapply nth_error_lt; eauto).
    unfold rdn in H. simpl in H. rewrite nth_error_upd_nth_eq in H by exact Hs. simpl in H.
    rewrite pollpos_sk_set, Epp in H.
    destruct (n_sock_slot n1 HI1 s k pp Ek Epp) as [p [Hp Hpfd]].
    rewrite Hp in H. simpl in H. rewrite net_with_with in H. inversion H; subst e n'.
    split; [eapply reg_existing_inv; eauto|]. split; [exact Hin1|].
    exists dir. repeat split; auto.
    + intros f d. rewrite (reg_existing_field n1 s k dir rc pp p f d Ek).
      destruct (Nat.eqb f s && Bool.eqb d dir); [reflexivity | apply Hf1].
    + intros f. rewrite (reg_existing_rev n1 s k dir rc pp p f HI1 Ek Epp Hp). apply Hr1.
  - (* growpollfd *)
    assert (Hs : s < length (socks n1)) by (eapply nth_error_lt; eauto).
    unfold growpollfd in H. simpl in H.
    unfold rdn in H at 1. simpl in H. rewrite nth_error_upd_nth_eq in H by exact Hs. simpl in H.
    rewrite pollpos_sk_set, Epp in H.
    match type of H with
    | context [if (N.of_nat (length (fds n1)) <? ?a)%N then _ else _] => set (alloc := a) in *
    end.
    destruct (N.of_nat (length (fds n1)) <? alloc)%N; [|discriminate].
    match type of H with context [(Z.of_nat ?a <? ?b)%Z] => destruct (Z.of_nat a <? b)%Z end; [|discriminate].
    cbn [bind] in H.
    unfold rdn in H. simpl in H. rewrite upd_nth_twice in H.
    rewrite nth_error_upd_nth_eq in H by exact Hs. simpl in H.
    rewrite nth_error_snoc_last in H. simpl in H. rewrite upd_nth_app_last in H.
    inversion H; subst e n'.
    match goal with |- context [net_with ?r ?a ?b] =>
      change (net_with r a b) with {| net_inited := net_inited n1; socks := a; fds := b; fds_alloc := alloc; scanpos := scanpos n1 |} end.
    split; [apply reg_new_inv; auto|]. split; [exact Hin1|].
    exists dir. repeat split; auto.
    + intros f d. rewrite (reg_new_field n1 s k dir rc alloc f d Ek).
      destruct (Nat.eqb f s && Bool.eqb d dir); [reflexivity | apply Hf1].
    + intros f. rewrite (reg_new_rev n1 s k dir rc alloc f HI1 Ek Epp). apply Hr1.
Qed.

(* ---------------------------------------------------------------- events_network_register
   refused for lack of memory: whatever the point of the refusal, the state left behind is the
   old one, or the old one after init(), or that with the socket list grown by empty records
   (err1 takes the stored record out again) *)
Lemma sk_set_back dir rc k : sk_get dir k = None -> sk_set dir None (sk_set dir (Some rc) k) = k.
Proof. destruct dir, k; simpl; intros ->; reflexivity. Qed.

Lemma upd_nth_same {A} (l : list A) i x : nth_error l i = Some x -> upd_nth i x l = l.
Proof.
  revert i. induction l as [|a l IH]; intros [|i] H; simpl in *; try discriminate.
  - inversion H; reflexivity.
  - f_equal. apply IH. exact H.
Qed.

Lemma net_with_self n : net_with n (socks n) (fds n) = n.
Proof. destruct n; reflexivity. Qed.

Definition net_grown (fd : Z) (n0 : net_st) : net_st :=
  if length (socks (net_init n0)) <=? Z.to_nat fd then growsocketlist (S (Z.to_nat fd)) (net_init n0)
  else net_init n0.

Lemma net_register_refused_cases stage cb fd op rid n0 :
  net_register_refused stage cb fd op rid n0 = n0 \/
  net_register_refused stage cb fd op rid n0 = net_init n0 \/
  ((0 <= fd)%Z /\ net_register_refused stage cb fd op rid n0 = net_grown fd n0).
Proof.
  unfold net_register_refused, net_grown.
  destruct (stage <=? 1); [auto|]. destruct (stage =? 2); [auto|].
  destruct (fd <? 0)%Z eqn:Efd; [auto|]. apply Z.ltb_ge in Efd.
  destruct (op_dir op) as [dir|]; [|auto].
  right; right. split; [exact Efd|].
  set (n1 := if length (socks (net_init n0)) <=? Z.to_nat fd
             then growsocketlist (S (Z.to_nat fd)) (net_init n0) else net_init n0).
  destruct (stage =? 3); [reflexivity|].
  destruct (nth_error (socks n1) (Z.to_nat fd)) as [k|] eqn:Ek; [|reflexivity].
  destruct (sk_get dir k) eqn:Eg; [reflexivity|].
  rewrite upd_nth_twice, sk_set_back by exact Eg. rewrite upd_nth_same by exact Ek. apply net_with_self.
Qed.

Lemma net_init_fds n : NetInv n -> fds (net_init n) = fds n.
Proof.
  intros HI. unfold net_init. destruct (net_inited n) eqn:E; [reflexivity|].
  destruct (n_uninit n HI E) as [_ B]. rewrite B. reflexivity.
Qed.

Lemma net_register_refused_spec stage cb fd op rid n0 :
  NetInv n0 ->
  NetInv (net_register_refused stage cb fd op rid n0) /\
  (forall f d, field (net_register_refused stage cb fd op rid n0) f d = field n0 f d) /\
  (forall f, rev_at (net_register_refused stage cb fd op rid n0) f = rev_at n0 f) /\
  fds (net_register_refused stage cb fd op rid n0) = fds n0.
Proof.
  intros HI.
  assert (Hinit : NetInv (net_init n0) /\ (forall f d, field (net_init n0) f d = field n0 f d) /\
                  (forall f, rev_at (net_init n0) f = rev_at n0 f) /\ fds (net_init n0) = fds n0).
  { split; [apply net_init_inv; exact HI|]. split; [intros; apply net_init_field; exact HI|].
    split; [|apply net_init_fds; exact HI]. intros f. unfold rev_at. rewrite net_init_slot by exact HI. reflexivity. }
  destruct (net_register_refused_cases stage cb fd op rid n0) as [-> | [-> | [Hfd ->]]]; [auto | exact Hinit |].
  destruct Hinit as [A [B [C D]]]. unfold net_grown.
  destruct (length (socks (net_init n0)) <=? Z.to_nat fd); [|auto].
  split; [apply grow_inv; [exact A | apply net_init_inited]|].
  split; [intros f d; rewrite grow_field; apply B|].
  split; [|exact D]. intros f. unfold rev_at. rewrite grow_slot. apply C.
Qed.

(* ================================================================ removing a registration:
   the field (s, dir) is emptied and clearbit(pollpos, bit) runs.  Used by
   events_network_cancel and by the dispatch in events_network_get. *)

(* facts shared by the three outcomes of clearbit *)
Section Remove.
  Variables (n : net_st) (s : nat) (k : sockrec) (pos : nat) (p : pollfd) (dir : bool).
  Hypothesis HI : NetInv n.
  Hypothesis Hin : net_inited n = true.
  Hypothesis Hk : nth_error (socks n) s = Some k.
  Hypothesis Hpos : pollpos k = Some pos.
  Hypothesis Hp : nth_error (fds n) pos = Some p.

  Let k1 := sk_set dir None k.
  Let p' := pf_clear dir p.

  Lemma rm_pfd : p_fd p = s.
  Proof. destruct (n_sock_slot n HI s k pos Hk Hpos) as [q [A B]]. congruence. Qed.

  Lemma rm_s_lt : s < length (socks n).
  Proof. eapply nth_error_lt; eauto. Qed.
  Lemma rm_pos_lt : pos < length (fds n).
  Proof. eapply nth_error_lt; eauto. Qed.

  (* any other slot belongs to another descriptor *)
  Lemma rm_other j q : j <> pos -> nth_error (fds n) j = Some q -> p_fd q <> s.
  Proof.
    intros Hj Hq E. destruct (n_slot_sock n HI j q Hq) as [k0 [A B]]. rewrite E in A.
    assert (k0 = k) by congruence. subst k0. congruence.
  Qed.

  (* two slots of the same descriptor are the same slot *)
  Lemma rm_inj j1 q1 j2 q2 :
    nth_error (fds n) j1 = Some q1 -> nth_error (fds n) j2 = Some q2 -> p_fd q1 = p_fd q2 -> j1 = j2.
  Proof.
    intros H1 H2 E. destruct (n_slot_sock n HI j1 q1 H1) as [a [A1 B1]].
    destruct (n_slot_sock n HI j2 q2 H2) as [b [A2 B2]]. rewrite E in A1. congruence.
  Qed.

  (* ---- outcome 1: the other direction is still registered, the entry stays *)
  Lemma rm_keep_inv :
    p_ein p' || p_eout p' = true ->
    NetInv (net_with n (upd_nth s k1 (socks n)) (upd_nth pos p' (fds n))).
  Proof.
    intros Hev. pose proof rm_pfd as Hpfd. pose proof rm_s_lt as Hs. pose proof rm_pos_lt as Hpl.
    constructor; simpl.
    - intros j q Hq. apply nth_error_upd_nth in Hq. destruct Hq as [[<- [-> _]] | [Hj Hq]].
      + unfold p'. rewrite p_fd_clear, Hpfd. exists k1. split; [apply nth_error_upd_nth_eq; exact Hs|].
        unfold k1. rewrite pollpos_sk_set. exact Hpos.
      + destruct (n_slot_sock n HI j q Hq) as [k0 [A B]]. exists k0. split; [|exact B].
        rewrite nth_error_upd_nth_neq; [exact A|]. intros E. apply (rm_other j q); auto.
    - intros i k0 j Hk0 Hj. apply nth_error_upd_nth in Hk0. destruct Hk0 as [[<- [-> _]] | [Hi Hk0]].
      + unfold k1 in Hj. rewrite pollpos_sk_set in Hj. assert (j = pos) by congruence. subst j.
        exists p'. split; [apply nth_error_upd_nth_eq; exact Hpl | unfold p'; rewrite p_fd_clear; exact Hpfd].
      + destruct (n_sock_slot n HI i k0 j Hk0 Hj) as [q [A B]]. exists q. split; [|exact B].
        rewrite nth_error_upd_nth_neq; [exact A|]. intros E. subst j. congruence.
    - intros i k0 Hk0 Hj. apply nth_error_upd_nth in Hk0. destruct Hk0 as [[<- [-> _]] | [Hi Hk0]].
      + unfold k1 in Hj. rewrite pollpos_sk_set in Hj. congruence.
      + eapply (n_nopos n HI); eauto.
    - intros j q k0 d Hq Hk0. apply nth_error_upd_nth in Hq. destruct Hq as [[<- [-> _]] | [Hj Hq]].
      + unfold p' in Hk0. rewrite p_fd_clear, Hpfd in Hk0. rewrite nth_error_upd_nth_eq in Hk0 by exact Hs.
        inversion Hk0; subst k0. unfold p', k1. destruct (bool_neq_cases dir d) as [<- | Hd].
        * rewrite pf_ev_clear_same, sk_get_set_same. split; [discriminate | intros X; exfalso; apply X; reflexivity].
        * rewrite pf_ev_clear_other, sk_get_set_other by assumption.
          apply (n_events n HI pos p k d Hp). rewrite Hpfd. exact Hk.
      + rewrite nth_error_upd_nth_neq in Hk0.
        * eapply (n_events n HI); eauto.
        * intros E. apply (rm_other j q); auto.
    - intros j q d Hq Hr. apply nth_error_upd_nth in Hq. destruct Hq as [[<- [-> _]] | [Hj Hq]].
      + unfold p' in *. destruct (bool_neq_cases dir d) as [<- | Hd].
        * rewrite rb_dir_clear_same in Hr. discriminate.
        * rewrite rb_dir_clear_other in Hr by assumption. rewrite pf_ev_clear_other by assumption.
          eapply (n_revents n HI); eauto.
      + eapply (n_revents n HI); eauto.
    - intros X. congruence.
  Qed.

  (* when no direction is left, the other field is empty too *)
  Lemma rm_fields_empty :
    p_ein p' || p_eout p' = false -> reader k1 = None /\ writer k1 = None.
  Proof.
    intros Hev. apply orb_false_iff in Hev. destruct Hev as [He1 He2].
    assert (Hd : forall d, d <> dir -> sk_get d k = None).
    { intros d Hd. destruct (sk_get d k) eqn:E; [|reflexivity]. exfalso.
      assert (pf_ev d p = true).
      { apply (n_events n HI pos p k d Hp); [rewrite rm_pfd; exact Hk | congruence]. }
      assert (pf_ev d p' = true).
      { unfold p'. rewrite pf_ev_clear_other; auto. }
      destruct d; simpl in H0; congruence. }
    unfold k1. destruct dir; simpl.
    - split; [apply (Hd false); discriminate | reflexivity].
    - split; [reflexivity | apply (Hd true); discriminate].
  Qed.

  (* ---- outcome 2: the entry was the last one *)
  Lemma rm_last_inv :
    p_ein p' || p_eout p' = false -> pos = length (fds n) - 1 ->
    NetInv (net_with n (upd_nth s (sk_setpos None k1) (socks n)) (removelast (fds n))).
  Proof.
    intros Hev Hlast. pose proof rm_pfd as Hpfd. pose proof rm_s_lt as Hs. pose proof rm_pos_lt as Hpl.
    destruct (rm_fields_empty Hev) as [Hrd Hwr].
    constructor; simpl.
    - intros j q Hq. rewrite nth_error_removelast in Hq.
      destruct (j <? length (fds n) - 1) eqn:Ej; [|discriminate]. apply Nat.ltb_lt in Ej.
      destruct (n_slot_sock n HI j q Hq) as [k0 [A B]]. exists k0. split; [|exact B].
      rewrite nth_error_upd_nth_neq; [exact A|]. intros E. apply (rm_other j q); auto. lia.
    - intros i k0 j Hk0 Hj. apply nth_error_upd_nth in Hk0. destruct Hk0 as [[<- [-> _]] | [Hi Hk0]].
      + rewrite pollpos_setpos in Hj. discriminate.
      + destruct (n_sock_slot n HI i k0 j Hk0 Hj) as [q [A B]]. exists q. split; [|exact B].
        rewrite nth_error_removelast.
        assert (j <> pos) by (intros ->; congruence).
        assert (j < length (fds n)) by (eapply nth_error_lt; eauto).
        assert (E : (j <? length (fds n) - 1) = true) by (apply Nat.ltb_lt; lia).
        rewrite E. exact A.
    - intros i k0 Hk0 Hj. apply nth_error_upd_nth in Hk0. destruct Hk0 as [[<- [-> _]] | [Hi Hk0]].
      + simpl. auto.
      + eapply (n_nopos n HI); eauto.
    - intros j q k0 d Hq Hk0. rewrite nth_error_removelast in Hq.
      destruct (j <? length (fds n) - 1) eqn:Ej; [|discriminate]. apply Nat.ltb_lt in Ej.
      rewrite nth_error_upd_nth_neq in Hk0.
      + eapply (n_events n HI); eauto.
      + intros E. apply (rm_other j q); auto. lia.
    - intros j q d Hq Hr. rewrite nth_error_removelast in Hq.
      destruct (j <? length (fds n) - 1) eqn:Ej; [|discriminate].
      eapply (n_revents n HI); eauto.
    - intros X. congruence.
  Qed.

  (* ---- outcome 3: the last entry is moved into the hole *)
  Lemma rm_move_inv pl kl :
    p_ein p' || p_eout p' = false -> pos <> length (fds n) - 1 ->
    nth_error (fds n) (length (fds n) - 1) = Some pl ->
    nth_error (socks n) (p_fd pl) = Some kl ->
    NetInv (net_with n (upd_nth (p_fd pl) (sk_setpos (Some pos) kl) (upd_nth s (sk_setpos None k1) (socks n)))
                       (removelast (upd_nth pos pl (fds n)))).
  Proof.
    intros Hev Hnl Hpl Hkl. pose proof rm_pfd as Hpfd. pose proof rm_s_lt as Hs. pose proof rm_pos_lt as Hposl.
    destruct (rm_fields_empty Hev) as [Hrd Hwr].
    set (last := length (fds n) - 1) in *.
    assert (Hfl : p_fd pl <> s) by (apply (rm_other last pl); auto).
    assert (Hfll : p_fd pl < length (socks n)) by (eapply nth_error_lt; eauto).
    assert (Hklpos : pollpos kl = Some last).
    { destruct (n_slot_sock n HI last pl Hpl) as [k0 [A B]]. congruence. }
    (* reading the new pollfd array *)
    assert (Hrd' : forall j q, nth_error (removelast (upd_nth pos pl (fds n))) j = Some q ->
              j < last /\ ((j = pos /\ q = pl) \/ (j <> pos /\ nth_error (fds n) j = Some q))).
    { intros j q Hq. rewrite nth_error_removelast, length_upd_nth in Hq. fold last in Hq.
      destruct (j <? last) eqn:Ej; [|discriminate]. apply Nat.ltb_lt in Ej. split; [exact Ej|].
      apply nth_error_upd_nth in Hq. destruct Hq as [[<- [-> _]] | [Hj Hq]]; auto. }
    assert (Hwr' : forall j q, j < last -> j <> pos -> nth_error (fds n) j = Some q ->
              nth_error (removelast (upd_nth pos pl (fds n))) j = Some q).
    { intros j q Hj Hne Hq. rewrite nth_error_removelast, length_upd_nth. fold last.
      assert (E : (j <? last) = true) by (apply Nat.ltb_lt; exact Hj). rewrite E.
      rewrite nth_error_upd_nth_neq by congruence. exact Hq. }
    assert (Hwrpos : nth_error (removelast (upd_nth pos pl (fds n))) pos = Some pl).
    { rewrite nth_error_removelast, length_upd_nth. fold last.
      assert (E : (pos <? last) = true) by (apply Nat.ltb_lt; unfold last in *; lia). rewrite E.
      apply nth_error_upd_nth_eq. exact Hposl. }
    (* reading the new socket list *)
    assert (Hsk : forall i, i <> s -> i <> p_fd pl ->
              nth_error (upd_nth (p_fd pl) (sk_setpos (Some pos) kl) (upd_nth s (sk_setpos None k1) (socks n))) i =
              nth_error (socks n) i).
    { intros i H1 H2. rewrite !nth_error_upd_nth_neq by congruence. reflexivity. }
    assert (Hskl : nth_error (upd_nth (p_fd pl) (sk_setpos (Some pos) kl) (upd_nth s (sk_setpos None k1) (socks n))) (p_fd pl) =
              Some (sk_setpos (Some pos) kl)).
    { apply nth_error_upd_nth_eq. rewrite length_upd_nth. exact Hfll. }
    assert (Hsks : nth_error (upd_nth (p_fd pl) (sk_setpos (Some pos) kl) (upd_nth s (sk_setpos None k1) (socks n))) s =
              Some (sk_setpos None k1)).
    { rewrite nth_error_upd_nth_neq by congruence. apply nth_error_upd_nth_eq. exact Hs. }
    constructor; simpl.
    - intros j q Hq. destruct (Hrd' j q Hq) as [Hj [[-> ->] | [Hne Hq0]]].
      + exists (sk_setpos (Some pos) kl). split; [exact Hskl | reflexivity].
      + destruct (n_slot_sock n HI j q Hq0) as [k0 [A B]]. exists k0. split; [|exact B].
        rewrite Hsk; [exact A | |].
        * apply (rm_other j q); auto.
        * intros E. assert (j = last) by (eapply rm_inj; eauto). lia.
    - intros i k0 j Hk0 Hj.
      destruct (Nat.eq_dec i (p_fd pl)) as [-> | Hi1].
      + rewrite Hskl in Hk0. inversion Hk0; subst k0. rewrite pollpos_setpos in Hj. inversion Hj; subst j.
        exists pl. split; [exact Hwrpos | reflexivity].
      + destruct (Nat.eq_dec i s) as [-> | Hi2].
        * rewrite Hsks in Hk0. inversion Hk0; subst k0. rewrite pollpos_setpos in Hj. discriminate.
        * rewrite Hsk in Hk0 by assumption.
          destruct (n_sock_slot n HI i k0 j Hk0 Hj) as [q [A B]]. exists q. split; [|exact B].
          assert (j <> pos) by (intros ->; congruence).
          assert (j <> last) by (intros ->; congruence).
          assert (j < length (fds n)) by (eapply nth_error_lt; eauto).
          apply Hwr'; auto. unfold last in *. lia.
    - intros i k0 Hk0 Hj.
      destruct (Nat.eq_dec i (p_fd pl)) as [-> | Hi1].
      + rewrite Hskl in Hk0. inversion Hk0; subst k0. rewrite pollpos_setpos in Hj. discriminate.
      + destruct (Nat.eq_dec i s) as [-> | Hi2].
        * rewrite Hsks in Hk0. inversion Hk0; subst k0. simpl. auto.
        * rewrite Hsk in Hk0 by assumption. eapply (n_nopos n HI); eauto.
    - intros j q k0 d Hq Hk0. destruct (Hrd' j q Hq) as [Hj [[-> ->] | [Hne Hq0]]].
      + rewrite Hskl in Hk0. inversion Hk0; subst k0. rewrite sk_get_setpos.
        eapply (n_events n HI); eauto.
      + rewrite Hsk in Hk0.
        * eapply (n_events n HI); eauto.
        * apply (rm_other j q); auto.
        * intros E. assert (j = last) by (eapply rm_inj; eauto). lia.
    - intros j q d Hq Hr. destruct (Hrd' j q Hq) as [Hj [[-> ->] | [Hne Hq0]]].
      + eapply (n_revents n HI); eauto.
      + eapply (n_revents n HI); eauto.
    - intros X. congruence.
  Qed.
End Remove.

Section RemoveViews.
  Variables (n : net_st) (s : nat) (k : sockrec) (pos : nat) (p : pollfd) (dir : bool).
  Hypothesis HI : NetInv n.
  Hypothesis Hk : nth_error (socks n) s = Some k.
  Hypothesis Hpos : pollpos k = Some pos.
  Hypothesis Hp : nth_error (fds n) pos = Some p.

  Let k1 := sk_set dir None k.
  Let p' := pf_clear dir p.

  Lemma rm_slot_s : slot n s = Some p.
  Proof. unfold slot. rewrite Hk, Hpos. exact Hp. Qed.

  Lemma rm_get_k1 d : sk_get d k1 = if Bool.eqb d dir then None else field n s d.
  Proof.
    unfold k1, field. rewrite Hk. destruct (bool_neq_cases dir d) as [<- | Hd].
    - rewrite eqb_reflx, sk_get_set_same. reflexivity.
    - rewrite sk_get_set_other by assumption.
      assert (Bool.eqb d dir = false) by (destruct d, dir; simpl; congruence). rewrite H. reflexivity.
  Qed.

  Lemma rm_field_keep X f d :
    field (net_with n (upd_nth s k1 (socks n)) X) f d =
    if Nat.eqb f s && Bool.eqb d dir then None else field n f d.
  Proof.
    rewrite field_upd by congruence. destruct (Nat.eqb f s) eqn:E; simpl; [|reflexivity].
    apply Nat.eqb_eq in E. subst f. apply rm_get_k1.
  Qed.

  Lemma rm_field_last X f d :
    field (net_with n (upd_nth s (sk_setpos None k1) (socks n)) X) f d =
    if Nat.eqb f s && Bool.eqb d dir then None else field n f d.
  Proof.
    rewrite field_upd by congruence. destruct (Nat.eqb f s) eqn:E; simpl; [|reflexivity].
    apply Nat.eqb_eq in E. subst f. rewrite sk_get_setpos. apply rm_get_k1.
  Qed.

  Lemma rm_field_move X fl kl f d :
    fl <> s -> nth_error (socks n) fl = Some kl ->
    field (net_with n (upd_nth fl (sk_setpos (Some pos) kl) (upd_nth s (sk_setpos None k1) (socks n))) X) f d =
    if Nat.eqb f s && Bool.eqb d dir then None else field n f d.
  Proof.
    intros Hfl Hkl. unfold field at 1. simpl.
    assert (Hs : s < length (socks n)) by (eapply nth_error_lt; eauto).
    assert (Hfll : fl < length (socks n)) by (eapply nth_error_lt; eauto).
    destruct (Nat.eq_dec f fl) as [-> | Hne1].
    - rewrite nth_error_upd_nth_eq by (rewrite length_upd_nth; exact Hfll).
      rewrite sk_get_setpos. assert (E : Nat.eqb fl s = false) by (apply Nat.eqb_neq; exact Hfl).
      rewrite E. simpl. unfold field. rewrite Hkl. reflexivity.
    - rewrite nth_error_upd_nth_neq by congruence.
      destruct (Nat.eq_dec f s) as [-> | Hne2].
      + rewrite nth_error_upd_nth_eq by exact Hs. rewrite Nat.eqb_refl. simpl.
        rewrite sk_get_setpos. apply rm_get_k1.
      + rewrite nth_error_upd_nth_neq by congruence.
        assert (E : Nat.eqb f s = false) by (apply Nat.eqb_neq; exact Hne2). rewrite E. reflexivity.
  Qed.

  Lemma rm_rev_keep f :
    rev_at (net_with n (upd_nth s k1 (socks n)) (upd_nth pos p' (fds n))) f =
    if Nat.eqb f s then p_rev p' else rev_at n f.
  Proof.
    unfold rev_at, slot. simpl.
    assert (Hs : s < length (socks n)) by (eapply nth_error_lt; eauto).
    assert (Hpl : pos < length (fds n)) by (eapply nth_error_lt; eauto).
    destruct (Nat.eqb f s) eqn:E.
    - apply Nat.eqb_eq in E. subst f. rewrite nth_error_upd_nth_eq by exact Hs.
      unfold k1. rewrite pollpos_sk_set, Hpos. rewrite nth_error_upd_nth_eq by exact Hpl. reflexivity.
    - apply Nat.eqb_neq in E. rewrite nth_error_upd_nth_neq by congruence.
      destruct (nth_error (socks n) f) as [k0|] eqn:Ek0; [|reflexivity].
      destruct (pollpos k0) as [j|] eqn:Ej; [|reflexivity].
      destruct (n_sock_slot n HI f k0 j Ek0 Ej) as [q [A B]].
      assert (j <> pos) by (intros ->; rewrite Hp in A; inversion A; subst q; rewrite (rm_pfd n s k pos p HI Hk Hpos Hp) in B; congruence).
      rewrite nth_error_upd_nth_neq by congruence. reflexivity.
  Qed.

  Lemma rm_rev_last f :
    pos = length (fds n) - 1 ->
    rev_at (net_with n (upd_nth s (sk_setpos None k1) (socks n)) (removelast (fds n))) f =
    if Nat.eqb f s then rb_none else rev_at n f.
  Proof.
    intros Hlast. unfold rev_at, slot. simpl.
    assert (Hs : s < length (socks n)) by (eapply nth_error_lt; eauto).
    assert (Hpl : pos < length (fds n)) by (eapply nth_error_lt; eauto).
    destruct (Nat.eqb f s) eqn:E.
    - apply Nat.eqb_eq in E. subst f. rewrite nth_error_upd_nth_eq by exact Hs. reflexivity.
    - apply Nat.eqb_neq in E. rewrite nth_error_upd_nth_neq by congruence.
      destruct (nth_error (socks n) f) as [k0|] eqn:Ek0; [|reflexivity].
      destruct (pollpos k0) as [j|] eqn:Ej; [|reflexivity].
      destruct (n_sock_slot n HI f k0 j Ek0 Ej) as [q [A B]].
      assert (j <> pos) by (intros ->; rewrite Hp in A; inversion A; subst q; rewrite (rm_pfd n s k pos p HI Hk Hpos Hp) in B; congruence).
      assert (j < length (fds n)) by (eapply nth_error_lt; eauto).
      rewrite nth_error_removelast.
      assert (X : (j <? length (fds n) - 1) = true) by (apply Nat.ltb_lt; lia). rewrite X. reflexivity.
  Qed.

  Lemma rm_rev_move pl kl f :
    pos <> length (fds n) - 1 ->
    nth_error (fds n) (length (fds n) - 1) = Some pl ->
    nth_error (socks n) (p_fd pl) = Some kl ->
    rev_at (net_with n (upd_nth (p_fd pl) (sk_setpos (Some pos) kl) (upd_nth s (sk_setpos None k1) (socks n)))
                       (removelast (upd_nth pos pl (fds n)))) f =
    if Nat.eqb f s then rb_none else rev_at n f.
  Proof.
    intros Hnl Hpl Hkl. unfold rev_at, slot. simpl.
    assert (Hs : s < length (socks n)) by (eapply nth_error_lt; eauto).
    assert (Hposl : pos < length (fds n)) by (eapply nth_error_lt; eauto).
    assert (Hfll : p_fd pl < length (socks n)) by (eapply nth_error_lt; eauto).
    pose proof (rm_pfd n s k pos p HI Hk Hpos Hp) as Hpfd.
    set (last := length (fds n) - 1) in *.
    assert (Hfl : p_fd pl <> s) by (apply (rm_other n s k pos HI Hk Hpos last pl); auto).
    assert (Hklpos : pollpos kl = Some last).
    { destruct (n_slot_sock n HI last pl Hpl) as [k0 [A B]]. congruence. }
    destruct (Nat.eq_dec f (p_fd pl)) as [-> | Hne1].
    - rewrite nth_error_upd_nth_eq by (rewrite length_upd_nth; exact Hfll).
      rewrite pollpos_setpos. rewrite nth_error_removelast, length_upd_nth. fold last.
      assert (E : (pos <? last) = true) by (apply Nat.ltb_lt; unfold last in *; lia). rewrite E.
      rewrite nth_error_upd_nth_eq by exact Hposl.
      assert (E2 : Nat.eqb (p_fd pl) s = false) by (apply Nat.eqb_neq; exact Hfl). rewrite E2.
      rewrite Hkl, Hklpos, Hpl. reflexivity.
    - rewrite nth_error_upd_nth_neq by congruence.
      destruct (Nat.eqb f s) eqn:E.
      + apply Nat.eqb_eq in E. subst f. rewrite nth_error_upd_nth_eq by exact Hs. reflexivity.
      + apply Nat.eqb_neq in E. rewrite nth_error_upd_nth_neq by congruence.
        destruct (nth_error (socks n) f) as [k0|] eqn:Ek0; [|reflexivity].
        destruct (pollpos k0) as [j|] eqn:Ej; [|reflexivity].
        destruct (n_sock_slot n HI f k0 j Ek0 Ej) as [q [A B]].
        assert (j <> pos) by (intros ->; rewrite Hp in A; inversion A; subst q; congruence).
        assert (j <> last) by (intros ->; rewrite Hpl in A; inversion A; subst q; congruence).
        assert (j < length (fds n)) by (eapply nth_error_lt; eauto).
        rewrite nth_error_removelast, length_upd_nth. fold last.
        assert (X : (j <? last) = true) by (apply Nat.ltb_lt; unfold last in *; lia). rewrite X.
        rewrite nth_error_upd_nth_neq by congruence. reflexivity.
  Qed.
End RemoveViews.

(* the combined statement about  "field := NULL; clearbit(pollpos, bit)" *)
Lemma net_remove_spec n s k pos p dir n2 :
  NetInv n -> net_inited n = true ->
  nth_error (socks n) s = Some k -> pollpos k = Some pos -> nth_error (fds n) pos = Some p ->
  clearbit pos dir (net_with n (upd_nth s (sk_set dir None k) (socks n)) (fds n)) = Ok n2 ->
  NetInv n2 /\ net_inited n2 = true /\
  (forall f d, field n2 f d = if Nat.eqb f s && Bool.eqb d dir then None else field n f d) /\
  (forall f, rev_at n2 f = if Nat.eqb f s
                           then (if p_ein (pf_clear dir p) || p_eout (pf_clear dir p)
                                 then p_rev (pf_clear dir p) else rb_none)
                           else rev_at n f).
Proof.
  intros HI Hin Hk Hpos Hp H.
  assert (Hs : s < length (socks n)) by (eapply nth_error_lt; eauto).
  pose proof (rm_pfd n s k pos p HI Hk Hpos Hp) as Hpfd.
  unfold clearbit in H. simpl in H. unfold rdn in H at 1. rewrite Hp in H. simpl in H.
  destruct (p_ein (pf_clear dir p) || p_eout (pf_clear dir p)) eqn:Hev.
  - inversion H; subst n2. rewrite net_with_with.
    split; [apply (rm_keep_inv n s k pos p dir); auto|]. split; [exact Hin|]. split.
    + intros f d. apply (rm_field_keep n s k p dir); auto.
    + intros f. apply (rm_rev_keep n s k pos p dir); auto.
  - rewrite p_fd_clear, Hpfd in H. unfold rdn in H at 1. rewrite nth_error_upd_nth_eq in H by exact Hs.
    simpl in H. rewrite upd_nth_twice in H.
    destruct (pos =? length (fds n) - 1) eqn:El.
    + apply Nat.eqb_eq in El. inversion H; subst n2. rewrite net_with_with.
      split; [apply (rm_last_inv n s k pos p dir); auto|]. split; [exact Hin|]. split.
      * intros f d. apply (rm_field_last n s k p dir); auto.
      * intros f. apply (rm_rev_last n s k pos p dir); auto.
    + apply Nat.eqb_neq in El.
      destruct (rdn (fds n) (length (fds n) - 1)) as [pl| | |] eqn:Epl; simpl in H; try discriminate.
      apply rdn_ok in Epl.
      assert (Hfl : p_fd pl <> s) by (apply (rm_other n s k pos HI Hk Hpos (length (fds n) - 1) pl); auto).
      unfold rdn in H. rewrite nth_error_upd_nth_neq in H by congruence.
      destruct (nth_error (socks n) (p_fd pl)) as [kl|] eqn:Ekl; simpl in H; [|discriminate].
      inversion H; subst n2. rewrite net_with_with.
      split; [apply (rm_move_inv n s k pos p dir); auto|]. split; [exact Hin|]. split.
      * intros f d. apply (rm_field_move n s k pos p dir); auto.
      * intros f. apply (rm_rev_move n s k pos p dir); auto.
Qed.

(* what the client-visible readiness state may do across an operation: bits only disappear,
   and the bit of the removed registration is gone *)
Definition rev_shrinks (n n2 : net_st) (s : nat) (dir : bool) : Prop :=
  (forall f d, rb_dir (rev_at n2 f) d = true -> rb_dir (rev_at n f) d = true /\ ~ (f = s /\ d = dir)) /\
  (forall f, rb_errhup (rev_at n2 f) = true -> rb_errhup (rev_at n f) = true).

Lemma net_remove_shrinks n s k pos p dir n2 :
  NetInv n -> net_inited n = true ->
  nth_error (socks n) s = Some k -> pollpos k = Some pos -> nth_error (fds n) pos = Some p ->
  clearbit pos dir (net_with n (upd_nth s (sk_set dir None k) (socks n)) (fds n)) = Ok n2 ->
  rev_shrinks n n2 s dir.
Proof.
  intros HI Hin Hk Hpos Hp H.
  destruct (net_remove_spec n s k pos p dir n2 HI Hin Hk Hpos Hp H) as [_ [_ [_ Hrev]]].
  assert (Hs : rev_at n s = p_rev p).
  { unfold rev_at. rewrite (rm_slot_s n s k pos p Hk Hpos Hp). reflexivity. }
  split.
  - intros f d Hr. rewrite Hrev in Hr. destruct (Nat.eqb f s) eqn:E.
    + apply Nat.eqb_eq in E. subst f. rewrite Hs.
      destruct (p_ein (pf_clear dir p) || p_eout (pf_clear dir p)).
      * destruct (bool_neq_cases dir d) as [<- | Hd].
        -- rewrite rb_dir_clear_same in Hr. discriminate.
        -- rewrite rb_dir_clear_other in Hr by assumption. split; [exact Hr|]. intros [_ X]. congruence.
      * destruct d; discriminate.
    + apply Nat.eqb_neq in E. split; [exact Hr|]. intros [X _]. congruence.
  - intros f Hr. rewrite Hrev in Hr. destruct (Nat.eqb f s) eqn:E.
    + apply Nat.eqb_eq in E. subst f. rewrite Hs.
      destruct (p_ein (pf_clear dir p) || p_eout (pf_clear dir p)).
      * rewrite errhup_clear in Hr. exact Hr.
      * discriminate.
    + exact Hr.
Qed.

(* ---------------------------------------------------------------- events_network_cancel *)
Lemma net_cancel_spec fd op n0 x n' :
  NetInv n0 -> net_cancel fd op n0 = Ok (x, n') ->
  NetInv n' /\ net_inited n' = true /\
  match x with
  | inr err =>
    (forall f d, field n' f d = field n0 f d) /\ (forall f, rev_at n' f = rev_at n0 f) /\
    (forall dir, (0 <= fd)%Z -> op_dir op = Some dir -> field n0 (Z.to_nat fd) dir = None)
  | inl rc =>
    exists dir, (0 <= fd)%Z /\ op_dir op = Some dir /\ field n0 (Z.to_nat fd) dir = Some rc /\
      (forall f d, field n' f d =
                   if Nat.eqb f (Z.to_nat fd) && Bool.eqb d dir then None else field n0 f d) /\
      rev_shrinks n0 n' (Z.to_nat fd) dir
  end.
Proof.
  intros HI0 H. unfold net_cancel in H.
  pose proof (net_init_inv n0 HI0) as HI. pose proof (net_init_inited n0) as Hin.
  assert (Hf0 : forall f d, field (net_init n0) f d = field n0 f d) by (intros; apply net_init_field; auto).
  assert (Hr0 : forall f, rev_at (net_init n0) f = rev_at n0 f).
  { intros f. unfold rev_at. rewrite net_init_slot by assumption. reflexivity. }
  set (n := net_init n0) in *.
  destruct (fd <? 0)%Z eqn:Efd.
  { inversion H; subst. split; [exact HI|]. split; [exact Hin|]. split; [exact Hf0|]. split; [exact Hr0|].
    intros dir X. apply Z.ltb_lt in Efd. lia. }
  apply Z.ltb_ge in Efd.
  destruct (op_dir op) as [dir|] eqn:Eop.
  2:{ inversion H; subst. split; [exact HI|]. split; [exact Hin|]. split; [exact Hf0|]. split; [exact Hr0|].
      intros dir _ X. discriminate X. }
  set (s := Z.to_nat fd) in *.
  destruct (length (socks n) <=? s) eqn:Elen.
  { inversion H; subst. split; [exact HI|]. split; [exact Hin|]. split; [exact Hf0|]. split; [exact Hr0|].
    intros d _ X. inversion X; subst d. rewrite <- Hf0. unfold field.
    apply Nat.leb_le in Elen. assert (E : nth_error (socks n) s = None) by (apply nth_error_None; exact Elen).
    rewrite E. reflexivity. }
  destruct (rdn (socks n) s) as [k| | |] eqn:Ek; simpl in H; try discriminate.
  apply rdn_ok in Ek.
  destruct (sk_get dir k) as [rc|] eqn:Eget.
  2:{ inversion H; subst. split; [exact HI|]. split; [exact Hin|]. split; [exact Hf0|]. split; [exact Hr0|].
      intros d _ X. inversion X; subst d. rewrite <- Hf0. unfold field. rewrite Ek. exact Eget. }
  destruct (pollpos k) as [pp|] eqn:Epp; [|discriminate].
  destruct (clearbit pp dir (net_with n (upd_nth s (sk_set dir None k) (socks n)) (fds n))) as [n2| | |] eqn:Ecb;
    simpl in H; try discriminate.
  inversion H; subst x n'.
  destruct (n_sock_slot n HI s k pp Ek Epp) as [p [Hp Hpfd]].
  destruct (net_remove_spec n s k pp p dir n2 HI Hin Ek Epp Hp Ecb) as [HI2 [Hin2 [Hf2 _]]].
  pose proof (net_remove_shrinks n s k pp p dir n2 HI Hin Ek Epp Hp Ecb) as [Hs1 Hs2].
  split; [exact HI2|]. split; [exact Hin2|].
  exists dir. split; [exact Efd|]. split; [reflexivity|]. split.
  { rewrite <- Hf0. unfold field. rewrite Ek. exact Eget. }
  split.
  - intros f d. rewrite Hf2. destruct (Nat.eqb f s && Bool.eqb d dir); [reflexivity | apply Hf0].
  - split.
    + intros f d Hr. destruct (Hs1 f d Hr) as [A B]. rewrite Hr0 in A. auto.
    + intros f Hr. rewrite <- Hr0. apply Hs2. exact Hr.
Qed.

(* ---------------------------------------------------------------- operations that only write
   revents: poll() (every entry) and the POLLERR/POLLHUP folding (one entry) *)
Definition rev_only (g : pollfd -> pollfd) : Prop :=
  forall p, p_fd (g p) = p_fd p /\ p_ein (g p) = p_ein p /\ p_eout (g p) = p_eout p /\
            (forall d, rb_dir (p_rev (g p)) d = true -> pf_ev d p = true).

Lemma pf_ev_same p q d : p_ein q = p_ein p -> p_eout q = p_eout p -> pf_ev d q = pf_ev d p.
Proof. intros A B. destruct d; simpl; congruence. Qed.

Lemma map_rev_inv n g :
  NetInv n -> rev_only g -> NetInv (net_with n (socks n) (map g (fds n))).
Proof.
  intros HI Hg. constructor; simpl.
  - intros j q Hq. rewrite nth_error_map in Hq. destruct (nth_error (fds n) j) as [p|] eqn:Ep; [|discriminate].
    inversion Hq; subst q. destruct (Hg p) as [A _]. rewrite A. eapply (n_slot_sock n HI); eauto.
  - intros i k j Hk Hj. destruct (n_sock_slot n HI i k j Hk Hj) as [p [A B]].
    exists (g p). split; [rewrite nth_error_map, A; reflexivity|]. destruct (Hg p) as [X _]. congruence.
  - apply (n_nopos n HI).
  - intros j q k d Hq Hk. rewrite nth_error_map in Hq. destruct (nth_error (fds n) j) as [p|] eqn:Ep; [|discriminate].
    inversion Hq; subst q. destruct (Hg p) as [A [B [C _]]]. rewrite A in Hk.
    rewrite (pf_ev_same p (g p) d B C). eapply (n_events n HI); eauto.
  - intros j q d Hq Hr. rewrite nth_error_map in Hq. destruct (nth_error (fds n) j) as [p|] eqn:Ep; [|discriminate].
    inversion Hq; subst q. destruct (Hg p) as [A [B [C D]]].
    rewrite (pf_ev_same p (g p) d B C). apply D. exact Hr.
  - intros X. destruct (n_uninit n HI X) as [A B]. rewrite B. auto.
Qed.

Lemma map_rev_field n g f d : field (net_with n (socks n) (map g (fds n))) f d = field n f d.
Proof. reflexivity. Qed.

Lemma map_rev_slot n g f :
  slot (net_with n (socks n) (map g (fds n))) f = option_map g (slot n f).
Proof.
  unfold slot. simpl. destruct (nth_error (socks n) f) as [k|]; [|reflexivity].
  destruct (pollpos k) as [j|]; [|reflexivity]. rewrite nth_error_map. reflexivity.
Qed.

Lemma upd_rev_inv n pos p0 q :
  NetInv n -> nth_error (fds n) pos = Some p0 ->
  p_fd q = p_fd p0 -> p_ein q = p_ein p0 -> p_eout q = p_eout p0 ->
  (forall d, rb_dir (p_rev q) d = true -> pf_ev d p0 = true) ->
  NetInv (net_with n (socks n) (upd_nth pos q (fds n))).
Proof.
  intros HI Hp0 Hfd He1 He2 Hrev. constructor; simpl.
  - intros j x Hx. apply nth_error_upd_nth in Hx. destruct Hx as [[<- [-> _]] | [Hj Hx]].
    + rewrite Hfd. eapply (n_slot_sock n HI); eauto.
    + eapply (n_slot_sock n HI); eauto.
  - intros i k j Hk Hj. destruct (n_sock_slot n HI i k j Hk Hj) as [p [A B]].
    destruct (Nat.eq_dec pos j) as [<- | Hne].
    + exists q. split; [apply nth_error_upd_nth_eq; eapply nth_error_lt; eauto | congruence].
    + exists p. split; [rewrite nth_error_upd_nth_neq by exact Hne; exact A | exact B].
  - apply (n_nopos n HI).
  - intros j x k d Hx Hk. apply nth_error_upd_nth in Hx. destruct Hx as [[<- [-> _]] | [Hj Hx]].
    + rewrite Hfd in Hk. rewrite (pf_ev_same p0 q d He1 He2). eapply (n_events n HI); eauto.
    + eapply (n_events n HI); eauto.
  - intros j x d Hx Hr. apply nth_error_upd_nth in Hx. destruct Hx as [[<- [-> _]] | [Hj Hx]].
    + rewrite (pf_ev_same p0 q d He1 He2). apply Hrev. exact Hr.
    + eapply (n_revents n HI); eauto.
  - intros X. destruct (n_uninit n HI X) as [A B]. rewrite B in Hp0. destruct pos; discriminate.
Qed.

Lemma upd_rev_slot n pos p0 q f :
  NetInv n -> nth_error (fds n) pos = Some p0 ->
  slot (net_with n (socks n) (upd_nth pos q (fds n))) f =
  if Nat.eqb f (p_fd p0) then Some q else slot n f.
Proof.
  intros HI Hp0. unfold slot. simpl.
  destruct (n_slot_sock n HI pos p0 Hp0) as [k0 [A0 B0]].
  destruct (Nat.eqb f (p_fd p0)) eqn:E.
  - apply Nat.eqb_eq in E. subst f. rewrite A0, B0. apply nth_error_upd_nth_eq. eapply nth_error_lt; eauto.
  - apply Nat.eqb_neq in E. destruct (nth_error (socks n) f) as [k|] eqn:Ek; [|reflexivity].
    destruct (pollpos k) as [j|] eqn:Ej; [|reflexivity].
    destruct (n_sock_slot n HI f k j Ek Ej) as [x [A B]].
    assert (pos <> j) by (intros <-; congruence).
    rewrite nth_error_upd_nth_neq by assumption. reflexivity.
Qed.

(* the two instances for poll *)
Lemma apply_poll_rev_only raw : rev_only (apply_poll raw).
Proof.
  intros p. unfold apply_poll. simpl. repeat split; auto.
  intros d. destruct (lookup_fd (p_fd p) raw) as [a|]; destruct d; simpl;
    try discriminate; intros H; apply andb_true_iff in H; tauto.
Qed.

Lemma zero_rev_only : rev_only (pf_set_rev rb_none).
Proof. intros p. simpl. repeat split; auto. intros d. destruct d; discriminate. Qed.

(* and the one for the fold *)
Lemma pf_fold_fd p : p_fd (pf_fold p) = p_fd p.
Proof. unfold pf_fold. destruct (rb_errhup (p_rev p)); reflexivity. Qed.
Lemma pf_fold_ein p : p_ein (pf_fold p) = p_ein p.
Proof. unfold pf_fold. destruct (rb_errhup (p_rev p)); reflexivity. Qed.
Lemma pf_fold_eout p : p_eout (pf_fold p) = p_eout p.
Proof. unfold pf_fold. destruct (rb_errhup (p_rev p)); reflexivity. Qed.

Lemma pf_fold_rev_dir p d :
  rb_dir (p_rev (pf_fold p)) d = true ->
  rb_dir (p_rev p) d = true \/ (rb_errhup (p_rev p) = true /\ pf_ev d p = true).
Proof.
  unfold pf_fold. destruct (rb_errhup (p_rev p)) eqn:E; [|auto].
  destruct d; simpl; intros H; apply orb_true_iff in H; tauto.
Qed.

Lemma pf_fold_errhup p : rb_errhup (p_rev (pf_fold p)) = true -> rb_errhup (p_rev p) = true.
Proof. unfold pf_fold. destruct (rb_errhup (p_rev p)) eqn:E; [reflexivity | rewrite E; auto]. Qed.

Lemma fold_inv n pos p0 :
  NetInv n -> nth_error (fds n) pos = Some p0 ->
  NetInv (net_with n (socks n) (upd_nth pos (pf_fold p0) (fds n))).
Proof.
  intros HI Hp0. eapply upd_rev_inv; eauto using pf_fold_fd, pf_fold_ein, pf_fold_eout.
  intros d Hr. apply pf_fold_rev_dir in Hr. destruct Hr as [Hr | [_ Hr]]; [|exact Hr].
  eapply (n_revents n HI); eauto.
Qed.

(* ---------------------------------------------------------------- events_network_get *)
(* readiness bits after the scan come from bits before it, or from a pending ERR/HUP *)
Definition get_rel (n n' : net_st) : Prop :=
  (forall f d, rb_dir (rev_at n' f) d = true ->
               rb_dir (rev_at n f) d = true \/ rb_errhup (rev_at n f) = true) /\
  (forall f, rb_errhup (rev_at n' f) = true -> rb_errhup (rev_at n f) = true).

Lemma get_rel_refl n : get_rel n n.
Proof. split; auto. Qed.

Lemma get_rel_trans a b c : get_rel a b -> get_rel b c -> get_rel a c.
Proof.
  intros [A1 A2] [B1 B2]. split.
  - intros f d H. destruct (B1 f d H) as [X | X]; [apply A1; exact X | right; apply A2; exact X].
  - intros f H. apply A2, B2. exact H.
Qed.

Definition get_result (n n' : net_st) (ro : option rec) : Prop :=
  match ro with
  | None => forall f d, field n' f d = field n f d
  | Some rc => exists s dir, field n s dir = Some rc /\
      (forall f d, field n' f d = if Nat.eqb f s && Bool.eqb d dir then None else field n f d) /\
      (rb_dir (rev_at n s) dir = true \/ rb_errhup (rev_at n s) = true)
  end.

Lemma net_set_scan_inv n x : NetInv n -> NetInv (net_set_scan n x).
Proof. intros HI. destruct HI. constructor; simpl; auto. Qed.

Lemma fold_get_rel n pos p0 :
  NetInv n -> nth_error (fds n) pos = Some p0 ->
  get_rel n (net_with n (socks n) (upd_nth pos (pf_fold p0) (fds n))) /\
  rev_at n (p_fd p0) = p_rev p0 /\
  (forall f, rev_at (net_with n (socks n) (upd_nth pos (pf_fold p0) (fds n))) f =
             if Nat.eqb f (p_fd p0) then p_rev (pf_fold p0) else rev_at n f).
Proof.
  intros HI Hp0.
  assert (Hs : rev_at n (p_fd p0) = p_rev p0).
  { unfold rev_at. rewrite (slot_of_nth n pos p0 HI Hp0). reflexivity. }
  assert (Hv : forall f, rev_at (net_with n (socks n) (upd_nth pos (pf_fold p0) (fds n))) f =
             if Nat.eqb f (p_fd p0) then p_rev (pf_fold p0) else rev_at n f).
  { intros f. unfold rev_at at 1. rewrite (upd_rev_slot n pos p0 (pf_fold p0) f HI Hp0).
    destruct (Nat.eqb f (p_fd p0)); reflexivity. }
  split; [|split; assumption]. split.
  - intros f d H. rewrite Hv in H. destruct (Nat.eqb f (p_fd p0)) eqn:E; [|auto].
    apply Nat.eqb_eq in E. subst f. rewrite Hs. apply pf_fold_rev_dir in H. tauto.
  - intros f H. rewrite Hv in H. destruct (Nat.eqb f (p_fd p0)) eqn:E; [|auto].
    apply Nat.eqb_eq in E. subst f. rewrite Hs. apply pf_fold_errhup. exact H.
Qed.

Lemma inited_of_sock n i k : NetInv n -> nth_error (socks n) i = Some k -> net_inited n = true.
Proof.
  intros HI Hk. destruct (net_inited n) eqn:E; [reflexivity|].
  destruct (n_uninit n HI E) as [A _]. rewrite A in Hk. destruct i; discriminate.
Qed.

(* one dispatch: the entry at pos (already folded) has the bit for dir *)
Lemma get_dispatch n pos p0 dir k n3 :
  NetInv n -> nth_error (fds n) pos = Some p0 ->
  rb_dir (p_rev (pf_fold p0)) dir = true ->
  nth_error (socks n) (p_fd p0) = Some k ->
  clearbit pos dir
    (net_with (net_with n (socks n) (upd_nth pos (pf_fold p0) (fds n)))
              (upd_nth (p_fd p0) (sk_set dir None k) (socks n))
              (upd_nth pos (pf_fold p0) (fds n))) = Ok n3 ->
  NetInv n3 /\ get_rel n n3 /\ get_result n n3 (sk_get dir k).
Proof.
  intros HI Hp0 Hbit Hk Hcb.
  pose proof (inited_of_sock n _ _ HI Hk) as Hin.
  set (p := pf_fold p0) in *.
  set (n1 := net_with n (socks n) (upd_nth pos p (fds n))) in *.
  assert (HI1 : NetInv n1) by (apply fold_inv; auto).
  destruct (fold_get_rel n pos p0 HI Hp0) as [Hrel1 [Hs0 Hv1]]. fold p in Hrel1, Hv1. fold n1 in Hrel1, Hv1.
  assert (Hp1 : nth_error (fds n1) pos = Some p).
  { unfold n1. simpl. apply nth_error_upd_nth_eq. eapply nth_error_lt; eauto. }
  assert (Hpos : pollpos k = Some pos).
  { destruct (n_slot_sock n HI pos p0 Hp0) as [k0 [A B]]. congruence. }
  assert (Hk1 : nth_error (socks n1) (p_fd p0) = Some k) by exact Hk.
  change (net_with n1 (upd_nth (p_fd p0) (sk_set dir None k) (socks n)) (upd_nth pos p (fds n)))
    with (net_with n1 (upd_nth (p_fd p0) (sk_set dir None k) (socks n1)) (fds n1)) in Hcb.
  destruct (net_remove_spec n1 (p_fd p0) k pos p dir n3 HI1 Hin Hk1 Hpos Hp1 Hcb) as [HI3 [Hin3 [Hf3 Hr3]]].
  pose proof (net_remove_shrinks n1 (p_fd p0) k pos p dir n3 HI1 Hin Hk1 Hpos Hp1 Hcb) as [Hsh1 Hsh2].
  split; [exact HI3|]. split.
  - apply get_rel_trans with (b := n1); [exact Hrel1|]. split.
    + intros f d H. left. apply (Hsh1 f d H).
    + intros f H. apply Hsh2. exact H.
  - unfold get_result. destruct (sk_get dir k) as [rc|] eqn:Eget.
    + exists (p_fd p0), dir. split; [unfold field; rewrite Hk; exact Eget|]. split.
      * intros f d. rewrite Hf3. reflexivity.
      * rewrite Hs0. apply pf_fold_rev_dir in Hbit. tauto.
    + intros f d. rewrite Hf3. destruct (Nat.eqb f (p_fd p0) && Bool.eqb d dir) eqn:E; [|reflexivity].
      apply andb_true_iff in E. destruct E as [E1 E2]. apply Nat.eqb_eq in E1. apply eqb_prop in E2. subst.
      unfold field. change (socks n1) with (socks n). rewrite Hk. symmetry. exact Eget.
Qed.

Lemma get_result_trans n n1 n' ro :
  (forall f d, field n1 f d = field n f d) -> get_rel n n1 -> get_result n1 n' ro -> get_result n n' ro.
Proof.
  intros Hf [R1 R2] H. destruct ro as [rc|]; simpl in *.
  - destruct H as [s [dir [A [B C]]]]. exists s, dir. split; [rewrite <- Hf; exact A|]. split.
    + intros f d. rewrite B. destruct (Nat.eqb f s && Bool.eqb d dir); [reflexivity | apply Hf].
    + destruct C as [C | C]; [apply R1; exact C | right; apply R2; exact C].
  - intros f d. rewrite H. apply Hf.
Qed.

Lemma net_get_loop_spec fuel : forall n ro n',
  NetInv n -> net_get_loop fuel n = Ok (ro, n') ->
  NetInv n' /\ get_rel n n' /\ get_result n n' ro.
Proof.
  induction fuel as [|fuel IH]; intros n ro n' HI H; simpl in H; [discriminate|].
  destruct (scanpos n <? N.of_nat (length (fds n)))%N eqn:Escan.
  2:{ inversion H; subst. split; [exact HI|]. split; [apply get_rel_refl|].
      simpl. auto. }
  destruct (rdn (fds n) (N.to_nat (scanpos n))) as [p0| | |] eqn:Ep0; simpl in H; try discriminate.
  apply rdn_ok in Ep0. set (pos := N.to_nat (scanpos n)) in *.
  destruct (b_in (p_rev (pf_fold p0))) eqn:Ein.
  { rewrite pf_fold_fd in H.
    destruct (rdn (socks n) (p_fd p0)) as [k| | |] eqn:Ek; simpl in H; try discriminate. apply rdn_ok in Ek.
    match type of H with context [clearbit pos false ?st] => destruct (clearbit pos false st) as [n3| | |] eqn:Ecb end;
      simpl in H; try discriminate.
    inversion H; subst ro n'.
    apply (get_dispatch n pos p0 false k n3 HI Ep0 Ein Ek Ecb). }
  destruct (b_out (p_rev (pf_fold p0))) eqn:Eout.
  { rewrite pf_fold_fd in H.
    destruct (rdn (socks n) (p_fd p0)) as [k| | |] eqn:Ek; simpl in H; try discriminate. apply rdn_ok in Ek.
    match type of H with context [clearbit pos true ?st] => destruct (clearbit pos true st) as [n3| | |] eqn:Ecb end;
      simpl in H; try discriminate.
    inversion H; subst ro n'.
    apply (get_dispatch n pos p0 true k n3 HI Ep0 Eout Ek Ecb). }
  (* nothing at this position: move on *)
  set (n1 := net_with n (socks n) (upd_nth pos (pf_fold p0) (fds n))) in *.
  assert (HI1 : NetInv n1) by (apply fold_inv; auto).
  destruct (fold_get_rel n pos p0 HI Ep0) as [Hrel1 _]. fold n1 in Hrel1.
  apply IH in H; [|apply net_set_scan_inv; exact HI1].
  destruct H as [HI' [Hrel' Hres']].
  split; [exact HI'|]. split.
  - apply get_rel_trans with (b := n1); [exact Hrel1 | exact Hrel'].
  - apply (get_result_trans n n1 n' ro); auto.
Qed.

Lemma net_get_spec n ro n' :
  NetInv n -> net_get n = Ok (ro, n') ->
  NetInv n' /\ get_rel n n' /\ get_result n n' ro.
Proof. unfold net_get. apply net_get_loop_spec. Qed.

(* ---------------------------------------------------------------- the answer a poll reports *)
Lemma netinv_nodup n : NetInv n -> NoDup (map p_fd (fds n)).
Proof.
  intros HI. apply NoDup_nth_error. intros i j Hi E. rewrite map_length in Hi.
  rewrite !nth_error_map in E.
  destruct (nth_error (fds n) i) as [p|] eqn:Ep; [|apply nth_error_None in Ep; lia].
  destruct (nth_error (fds n) j) as [q|] eqn:Eq; simpl in E; [|discriminate].
  inversion E as [Efd].
  destruct (n_slot_sock n HI i p Ep) as [k1 [A1 B1]]. destruct (n_slot_sock n HI j q Eq) as [k2 [A2 B2]].
  rewrite Efd in A1. congruence.
Qed.

Lemma answer_lookup n f p :
  NetInv n -> slot n f = Some p -> rb_is_none (p_rev p) = false ->
  lookup_fd f (answer_of (fds n)) = Some (p_rev p).
Proof.
  intros HI Hs Hnz. unfold answer_of.
  set (nz := fun p0 : pollfd => negb (rb_is_none (p_rev p0))).
  set (L := map (fun p0 => (p_fd p0, p_rev p0)) (filter nz (fds n))).
  assert (Hnd : NoDup (map fst L)).
  { unfold L. rewrite map_map. simpl.
    assert (NoDup (map p_fd (fds n))) by (apply netinv_nodup; exact HI).
    clear -H. induction (fds n) as [|a l IH]; simpl; [constructor|].
    inversion H; subst. destruct (nz a); simpl; [|auto]. constructor; [|auto].
    intros X. apply H2. apply in_map_iff in X. destruct X as [x [E Hx]]. apply filter_In in Hx.
    apply in_map_iff. exists x. tauto. }
  rewrite lookup_fd_sort by exact Hnd. apply lookup_fd_in; [exact Hnd|].
  pose proof (slot_fd n f p HI Hs) as Hfd. destruct (slot_in n f p Hs) as [j Hj].
  unfold L. apply in_map_iff. exists p. split; [rewrite Hfd; reflexivity|].
  apply filter_In. split; [eapply nth_error_In; eauto|]. unfold nz. rewrite Hnz. reflexivity.
Qed.

Lemma rb_dir_nonzero b d : rb_dir b d = true -> rb_is_none b = false.
Proof. unfold rb_is_none. destruct b as [i o e h]. destruct d; simpl; intros ->; simpl; auto. rewrite orb_true_r. reflexivity. Qed.

Lemma rb_errhup_nonzero b : rb_errhup b = true -> rb_is_none b = false.
Proof.
  unfold rb_is_none, rb_errhup. destruct b as [i o e h]. simpl. intros H.
  apply orb_true_iff in H. destruct H as [-> | ->]; rewrite ?orb_true_r; reflexivity.
Qed.
