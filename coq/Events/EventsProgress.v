(* Progress of the event-loop model: no run ever returns Fault, and AssertFail is returned only
   where the C itself asserts on its arguments.

   The other theorems about the model are conditional on `run_case ... = Ok tr`; the model can
   also answer Fault (an index outside an array: net_cancel with pollpos = None, timer_cancel of
   an id that is not in the heap, imm_get on an empty queue, rdn out of range ...) or AssertFail
   (growpollfd's three asserts, events_immediate_register's priority assert).  Here a structural
   invariant [Shape] of the model state is shown to hold initially, to be preserved by every
   operation, and to exclude each of these outcomes:
     - heads[] has 32 entries, minq <= 32, every handle variable of an immediate carries a
       priority < 32;
     - invariants N1-N5 of events_network.c (NetInv) and nfds <= fds_alloc;
     - every timer handle the client still believes live is in the heap;
     - handle ids are below the next id.
   No normalisation hypothesis is needed (timevals and clock readings play no role in memory
   safety).  The partial states a refused registration leaves behind (net_register_refused,
   timer_register_refused) satisfy the invariant too, so continuations from them are covered.  AssertFail is possible in exactly two places, both argument checks of the C:
   events_immediate_register with prio >= 32 (assert((prio >= 0) && (prio < 32))) and
   growpollfd for a descriptor >= INT_MAX (assert(fd < INT_MAX)); the other two asserts of
   growpollfd (pollpos == -1, nfds < fds_alloc) cannot fail. *)
From Coq Require Import NArith ZArith List Bool Arith Lia Permutation.
From LCP Require Import Base.CheckedMem Gen.Repo_events Events.EventsTrace Events.EventsSpec Events.EventsModel Events.EventsLemmas Events.EventsNetInv Events.EventsHeap Events.EventsSpecProofs Events.EventsInv Events.EventsOrder Events.EventsExamples.
Import ListNotations.
Local Open Scope res_scope.
Unset Lia Cache.

(* ---------------------------------------------------------------- outcomes *)
(* [nfp strict P r]: r is not Fault; it is AssertFail only when strict = false; when it is a
   value the value satisfies P *)
Definition nfp (strict : bool) {A} (P : A -> Prop) (r : res A) : Prop :=
  match r with
  | Ok x => P x
  | OutOfFuel => True
  | Fault => False
  | AssertFail => strict = false
  end.

Lemma nfp_bind b {A B} (Q : A -> Prop) (P : B -> Prop) (a : res A) (f : A -> res B) :
  nfp b Q a -> (forall x, Q x -> nfp b P (f x)) -> nfp b P (let* x := a in f x).
Proof. destruct a; simpl; auto. Qed.

Lemma nfp_weaken b {A} (P Q : A -> Prop) (r : res A) :
  nfp b P r -> (forall x, P x -> Q x) -> nfp b Q r.
Proof. destruct r; simpl; auto. Qed.

Lemma nfp_and b {A} (P Q : A -> Prop) (r : res A) :
  nfp b P r -> (forall x, r = Ok x -> Q x) -> nfp b (fun x => P x /\ Q x) r.
Proof. destruct r; simpl; auto. Qed.

Lemma nfp_strict b {A} (P : A -> Prop) (r : res A) : nfp true P r -> nfp b P r.
Proof. destruct r; simpl; auto. discriminate. Qed.

Lemma nfp_ok b {A} (P : A -> Prop) (x : A) : P x -> nfp b P (Ok x).
Proof. auto. Qed.

Lemma rdn_lt {A} (l : list A) i : i < length l -> exists x, rdn l i = Ok x /\ nth_error l i = Some x.
Proof.
  intros H. unfold rdn. destruct (nth_error l i) as [x|] eqn:E; [eauto|].
  apply nth_error_None in E. lia.
Qed.

Lemma rdn_some {A} (l : list A) i x : nth_error l i = Some x -> rdn l i = Ok x.
Proof. unfold rdn. intros ->. reflexivity. Qed.

(* ================================================================ the timer heap *)
Lemma swap_nth_total {A} (l : list A) i j :
  i < length l -> j < length l -> exists l', swap_nth i j l = Ok l' /\ length l' = length l.
Proof.
  intros Hi Hj. unfold swap_nth.
  destruct (rdn_lt l i Hi) as [a [Ea _]]. destruct (rdn_lt l j Hj) as [b [Eb _]].
  rewrite Ea, Eb. cbn [bind]. eexists. split; [reflexivity|]. rewrite !length_upd_nth. reflexivity.
Qed.

Lemma heapifyup_nf fuel : forall i h, i < length h ->
  nfp true (fun h' => length h' = length h) (heapifyup fuel i h).
Proof.
  induction fuel as [|fuel IH]; intros i h Hi; cbn [heapifyup]; [exact I|].
  destruct (i =? 0) eqn:E0; [reflexivity|]. apply Nat.eqb_neq in E0.
  assert (Hp : (i - 1) / 2 < i) by (apply Nat.div_lt_upper_bound; lia).
  destruct (rdn_lt h i Hi) as [a [Ea _]]. rewrite Ea. cbn [bind].
  destruct (rdn_lt h ((i - 1) / 2)) as [b [Eb _]]; [lia|]. rewrite Eb. cbn [bind].
  destruct (tv_cmp (t_deadline a) (t_deadline b)); try reflexivity.
  destruct (swap_nth_total h i ((i - 1) / 2)) as [h1 [Es Hl]]; [lia | lia |].
  rewrite Es. cbn [bind]. eapply nfp_weaken; [apply IH; lia|]. intros h' H. simpl in H. lia.
Qed.

Lemma heapify_nf fuel : forall i n h, i < length h -> n <= length h ->
  nfp true (fun h' => length h' = length h) (heapify fuel i n h).
Proof.
  induction fuel as [|fuel IH]; intros i n h Hi Hn; cbn [heapify]; [exact I|].
  destruct (rdn_lt h i Hi) as [x [Ex _]]. rewrite Ex. cbn [bind].
  match goal with |- nfp _ _ (let* m1 := ?e in _) =>
    assert (H1 : exists m1, e = Ok m1 /\ m1 < length h) end.
  { destruct (2 * i + 1 <? n) eqn:L; [|eauto]. apply Nat.ltb_lt in L.
    destruct (rdn_lt h (2 * i + 1)) as [c [Ec _]]; [lia|]. rewrite Ec. cbn [bind].
    destruct (tv_cmp (t_deadline x) (t_deadline c)); eexists; (split; [reflexivity | lia]). }
  destruct H1 as [m1 [E1 Hm1]]. rewrite E1. cbn [bind].
  destruct (rdn_lt h m1 Hm1) as [xm [Exm _]]. rewrite Exm. cbn [bind].
  match goal with |- nfp _ _ (let* m2 := ?e in _) =>
    assert (H2 : exists m2, e = Ok m2 /\ m2 < length h) end.
  { destruct (2 * i + 2 <? n) eqn:L; [|eauto]. apply Nat.ltb_lt in L.
    destruct (rdn_lt h (2 * i + 2)) as [c [Ec _]]; [lia|]. rewrite Ec. cbn [bind].
    destruct (tv_cmp (t_deadline xm) (t_deadline c)); eexists; (split; [reflexivity | lia]). }
  destruct H2 as [m2 [E2 Hm2]]. rewrite E2. cbn [bind].
  destruct (m2 =? i); [reflexivity|].
  destruct (swap_nth_total h m2 i Hm2 Hi) as [h1 [Es Hl]]. rewrite Es. cbn [bind].
  eapply nfp_weaken; [apply IH; lia|]. intros h' H. simpl in H. lia.
Qed.

Lemma heap_add_nf x h : nfp true (fun h' => Permutation (x :: h) h') (heap_add x h).
Proof.
  apply nfp_weaken with (P := fun h' => length h' = length (h ++ [x]) /\ Permutation (x :: h) h'); [|tauto].
  apply nfp_and.
  - unfold heap_add. apply heapifyup_nf. rewrite app_length. simpl. lia.
  - intros h' E. apply heap_add_perm. exact E.
Qed.

Lemma heap_delete_nf rc h : rc < length h ->
  nfp true (fun h' => exists x, nth_error h rc = Some x /\ Permutation h (x :: h')) (heap_delete rc h).
Proof.
  intros Hrc.
  apply nfp_weaken with (P := fun h' => True /\ exists x, nth_error h rc = Some x /\ Permutation h (x :: h')); [|tauto].
  apply nfp_and; [|intros h' E; eapply heap_delete_perm; eauto].
  unfold heap_delete. set (n := length h) in *.
  destruct (n =? 0) eqn:En; [apply Nat.eqb_eq in En; lia|].
  eapply nfp_bind with (Q := fun _ => True); [|intros; exact I].
  destruct (rc =? n - 1) eqn:Erc; [exact I|]. apply Nat.eqb_neq in Erc.
  destruct (rdn_lt h (n - 1)) as [l [El _]]; [unfold n; lia|]. rewrite El. cbn [bind].
  destruct (rdn_lt h rc Hrc) as [x [Ex _]]. rewrite Ex. cbn [bind].
  set (h1 := upd_nth rc l h).
  assert (Hl1 : length h1 = n) by (unfold h1; apply length_upd_nth).
  destruct (0 <? rc) eqn:E0.
  - apply Nat.ltb_lt in E0.
    assert (Hp : (rc - 1) / 2 < rc) by (apply Nat.div_lt_upper_bound; lia).
    destruct (rdn_lt h1 rc) as [a [Ea _]]; [lia|]. rewrite Ea. cbn [bind].
    destruct (rdn_lt h1 ((rc - 1) / 2)) as [b [Eb _]]; [lia|]. rewrite Eb. cbn [bind].
    destruct (tv_cmp (t_deadline a) (t_deadline b)).
    + eapply nfp_weaken; [apply heapify_nf; lia | auto].
    + destruct (swap_nth_total h1 rc ((rc - 1) / 2)) as [h2 [Es Hl2]]; [lia | lia |].
      rewrite Es. cbn [bind]. eapply nfp_weaken; [apply heapifyup_nf; lia | auto].
    + eapply nfp_weaken; [apply heapify_nf; lia | auto].
  - cbn [bind]. eapply nfp_weaken; [apply heapify_nf; lia | auto].
Qed.

Lemma heap_index_in rid h : In rid (map trid h) -> exists i, heap_index rid h = Some i.
Proof.
  induction h as [|y t IH]; simpl; [intros []|].
  destruct (Nat.eqb (r_rid (t_rec y)) rid) eqn:E; [eauto|].
  intros [H | H]; [unfold trid in H; apply Nat.eqb_neq in E; congruence|].
  destruct (IH H) as [i Ei]. rewrite Ei. simpl. eauto.
Qed.

(* ================================================================ immediates *)
Lemma consts_32 : NPRIO = 32 /\ PRIO_LIMIT = 32 /\ ADV_LIMIT = 32 /\ EMPTY_MARK = 32 /\ MINQ_INIT = 32.
Proof. repeat split; reflexivity. Qed.

Definition imm_shape (im : imm_st) : Prop := length (heads im) = NPRIO /\ minq im <= NPRIO.

Lemma imm_register_nf strict cb prio rid im :
  imm_shape im -> (strict = true -> prio < PRIO_LIMIT) ->
  nfp strict (fun im' => imm_shape im' /\ prio < NPRIO) (imm_register cb prio rid im).
Proof.
  intros [Hl Hm] Hs. unfold imm_register.
  destruct (prio <? PRIO_LIMIT) eqn:E.
  - apply Nat.ltb_lt in E. change PRIO_LIMIT with NPRIO in E.
    destruct (rdn_lt (heads im) prio) as [q [Eq _]]; [lia|]. rewrite Eq. cbn [bind nfp].
    split; [|exact E]. split; cbn [heads minq].
    + rewrite length_upd_nth. exact Hl.
    + destruct (prio <? minq im); lia.
  - cbn [nfp]. destruct strict; [|reflexivity]. specialize (Hs eq_refl). apply Nat.ltb_ge in E. lia.
Qed.

Lemma imm_cancel_nf rid prio im :
  imm_shape im -> prio < NPRIO -> nfp true imm_shape (imm_cancel rid prio im).
Proof.
  intros [Hl Hm] Hp. unfold imm_cancel.
  destruct (rdn_lt (heads im) prio) as [q [Eq _]]; [lia|]. rewrite Eq. cbn [bind nfp].
  split; cbn [heads minq]; [rewrite length_upd_nth; exact Hl | exact Hm].
Qed.

Lemma imm_get_nf im : imm_shape im -> nfp true (fun x => imm_shape (snd x)) (imm_get im).
Proof.
  intros [Hl Hm]. unfold imm_get.
  destruct (imm_advance_spec (heads im) (S ADV_LIMIT) (minq im)) as [A1 [A2 [A3 A4]]];
    [change ADV_LIMIT with NPRIO; exact Hm | lia |].
  set (m := imm_advance (heads im) (minq im) (S ADV_LIMIT)) in *.
  change ADV_LIMIT with NPRIO in A2, A4.
  destruct (m =? EMPTY_MARK) eqn:Em.
  - cbn [nfp snd]. split; cbn [heads minq]; [exact Hl | exact A2].
  - apply Nat.eqb_neq in Em. change EMPTY_MARK with NPRIO in Em.
    assert (Hlt : m < NPRIO) by lia.
    destruct (rdn_lt (heads im) m) as [q [Eq Hq]]; [lia|]. rewrite Eq. cbn [bind].
    assert (Hnth : nth m (heads im) [] = q) by (apply nth_error_nth; exact Hq).
    destruct q as [|r q']; [exfalso; apply (A4 Hlt); exact Hnth|].
    cbn [nfp snd]. split; cbn [heads minq]; [rewrite length_upd_nth; exact Hl | exact A2].
Qed.

(* ================================================================ descriptors *)
Definition alloc_ok (n : net_st) : Prop := (N.of_nat (length (fds n)) <= fds_alloc n)%N.

Lemma alloc_ok_init n : alloc_ok n -> alloc_ok (net_init n).
Proof.
  unfold net_init. destruct (net_inited n); [auto|]. intros _. unfold alloc_ok. cbn [fds fds_alloc length]. lia.
Qed.

(* "field := NULL; clearbit(pollpos, bit)" always succeeds on a state that satisfies N1-N5 *)
Lemma net_remove_total n s k pos p dir :
  NetInv n -> nth_error (socks n) s = Some k -> pollpos k = Some pos -> nth_error (fds n) pos = Some p ->
  exists n2, clearbit pos dir (net_with n (upd_nth s (sk_set dir None k) (socks n)) (fds n)) = Ok n2 /\
             fds_alloc n2 = fds_alloc n /\ length (fds n2) <= length (fds n).
Proof.
  intros HI Hk Hpos Hp.
  assert (Hs : s < length (socks n)) by (eapply nth_error_lt; eauto).
  assert (Hpl : pos < length (fds n)) by (eapply nth_error_lt; eauto).
  pose proof (rm_pfd n s k pos p HI Hk Hpos Hp) as Hpfd.
  unfold clearbit. cbn [fds socks net_with]. rewrite (rdn_some _ _ _ Hp). cbn [bind].
  destruct (p_ein (pf_clear dir p) || p_eout (pf_clear dir p)).
  - eexists. split; [reflexivity|]. cbn [fds fds_alloc net_with]. rewrite length_upd_nth. split; [reflexivity | lia].
  - rewrite p_fd_clear, Hpfd. rewrite (rdn_some _ _ _ (nth_error_upd_nth_eq s _ _ Hs)). cbn [bind].
    destruct (pos =? length (fds n) - 1) eqn:El.
    + eexists. split; [reflexivity|]. cbn [fds fds_alloc net_with]. rewrite length_removelast. split; [reflexivity | lia].
    + apply Nat.eqb_neq in El.
      destruct (rdn_lt (fds n) (length (fds n) - 1)) as [pl [Epl Hpl']]; [lia|]. rewrite Epl. cbn [bind].
      destruct (n_slot_sock n HI _ pl Hpl') as [kl [Hkl _]].
      assert (Hfl : p_fd pl < length (socks n)) by (eapply nth_error_lt; eauto).
      match goal with |- context [rdn ?l (p_fd pl)] =>
        destruct (rdn_lt l (p_fd pl)) as [kl' [Ekl' _]]; [rewrite !length_upd_nth; exact Hfl|]; rewrite Ekl' end.
      cbn [bind]. eexists. split; [reflexivity|]. cbn [fds fds_alloc net_with].
      rewrite length_removelast, length_upd_nth. split; [reflexivity | lia].
Qed.

Definition net_ok (n : net_st) : Prop := NetInv n /\ alloc_ok n.

Lemma refused_alloc_ok stage cb fd op rid n0 :
  alloc_ok n0 -> alloc_ok (net_register_refused stage cb fd op rid n0).
Proof.
  intros HA. pose proof (alloc_ok_init n0 HA) as HA1.
  destruct (net_register_refused_cases stage cb fd op rid n0) as [-> | [-> | [_ ->]]]; [exact HA | exact HA1 |].
  unfold net_grown. destruct (length (socks (net_init n0)) <=? Z.to_nat fd); exact HA1.
Qed.

Lemma net_cancel_nf fd op n0 :
  net_ok n0 -> nfp true (fun x => net_ok (snd x)) (net_cancel fd op n0).
Proof.
  intros [HI0 HA0].
  apply nfp_weaken with (P := fun x => alloc_ok (snd x) /\ NetInv (snd x)); [|unfold net_ok; tauto].
  apply nfp_and; [|intros [x n'] E; exact (proj1 (net_cancel_spec fd op n0 x n' HI0 E))].
  unfold net_cancel.
  pose proof (net_init_inv n0 HI0) as HI. pose proof (alloc_ok_init n0 HA0) as HA.
  set (n := net_init n0) in *.
  destruct (fd <? 0)%Z; [exact HA|].
  destruct (op_dir op) as [dir|]; [|exact HA].
  set (s := Z.to_nat fd).
  destruct (length (socks n) <=? s) eqn:El; [exact HA|]. apply Nat.leb_gt in El.
  destruct (rdn_lt (socks n) s El) as [k [Ek Hk]]. rewrite Ek. cbn [bind].
  destruct (sk_get dir k) as [r|] eqn:Eg; [|exact HA].
  destruct (pollpos k) as [pp|] eqn:Epp.
  - destruct (n_sock_slot n HI s k pp Hk Epp) as [p [Hp _]].
    destruct (net_remove_total n s k pp p dir HI Hk Epp Hp) as [n2 [E2 [A2 L2]]].
    rewrite E2. cbn [bind nfp snd]. unfold alloc_ok in *. rewrite A2. lia.
  - exfalso. destruct (n_nopos n HI s k Hk Epp) as [A B]. destruct dir; simpl in Eg; congruence.
Qed.

Lemma net_register_nf strict cb fd op rid n0 :
  net_ok n0 -> (strict = true -> (fd < C_INT_MAX)%Z) ->
  nfp strict (fun x => net_ok (snd x) /\ (fst x = None -> exists dir, op_dir op = Some dir))
             (net_register cb fd op rid n0).
Proof.
  intros [HI0 HA0] Hfd.
  apply nfp_weaken with (P := fun x => alloc_ok (snd x) /\
            (NetInv (snd x) /\ (fst x = None -> exists dir, op_dir op = Some dir))); [|unfold net_ok; tauto].
  apply nfp_and.
  2:{ intros [e n'] E. destruct (net_register_spec cb fd op rid n0 e n' HI0 E) as [A [_ B]].
      split; [exact A|]. cbn [fst]. intros ->. destruct B as [dir [_ [B _]]]. eauto. }
  unfold net_register.
  pose proof (net_init_inv n0 HI0) as HI. pose proof (alloc_ok_init n0 HA0) as HA.
  pose proof (net_init_inited n0) as Hin.
  set (n := net_init n0) in *.
  destruct (fd <? 0)%Z eqn:Efd; [exact HA|]. apply Z.ltb_ge in Efd.
  destruct (op_dir op) as [dir|]; [|exact HA].
  set (s := Z.to_nat fd).
  set (n1 := if length (socks n) <=? s then growsocketlist (S s) n else n).
  assert (HI1 : NetInv n1) by (unfold n1; destruct (length (socks n) <=? s); [apply grow_inv; auto | exact HI]).
  assert (HA1 : alloc_ok n1) by (unfold n1; destruct (length (socks n) <=? s); exact HA).
  assert (Hs : s < length (socks n1)).
  { unfold n1. destruct (length (socks n) <=? s) eqn:El.
    - unfold growsocketlist. cbn [socks net_with]. rewrite app_length, repeat_length. apply Nat.leb_le in El. lia.
    - apply Nat.leb_gt in El. exact El. }
  destruct (rdn_lt (socks n1) s Hs) as [k [Ek Hk]]. rewrite Ek. cbn [bind].
  destruct (sk_get dir k) as [r0|] eqn:Eg; [exact HA1|].
  set (rc := {| r_cb := cb; r_rid := rid |}).
  set (k2 := sk_set dir (Some rc) k).
  assert (Hk2 : nth_error (upd_nth s k2 (socks n1)) s = Some k2) by (apply nth_error_upd_nth_eq; exact Hs).
  destruct (pollpos k) as [pp|] eqn:Epp.
  - cbn [bind socks fds net_with]. rewrite (rdn_some _ _ _ Hk2). cbn [bind].
    unfold k2 at 1. rewrite pollpos_sk_set, Epp.
    destruct (n_sock_slot n1 HI1 s k pp Hk Epp) as [p [Hp _]]. rewrite (rdn_some _ _ _ Hp). cbn [bind nfp snd].
    unfold alloc_ok in *. cbn [fds fds_alloc net_with]. rewrite length_upd_nth. exact HA1.
  - unfold growpollfd. cbn [socks fds fds_alloc net_with]. rewrite (rdn_some _ _ _ Hk2). cbn [bind].
    unfold k2 at 1. rewrite pollpos_sk_set, Epp.
    set (nfds := length (fds n1)).
    match goal with |- context [(N.of_nat nfds <? ?a)%N] => set (alloc := a) end.
    assert (Hal : (N.of_nat nfds <? alloc)%N = true).
    { apply N.ltb_lt. unfold alloc. unfold alloc_ok in HA1. fold nfds in HA1.
      destruct (fds_alloc n1 =? N.of_nat nfds)%N eqn:E1.
      - apply N.eqb_eq in E1. destruct (fds_alloc n1 =? 0)%N eqn:E2.
        + apply N.eqb_eq in E2. change net_fds_initial with 16%N. lia.
        + apply N.eqb_neq in E2. change net_fds_factor with 2%N. lia.
      - apply N.eqb_neq in E1. lia. }
    rewrite Hal.
    destruct (Z.of_nat s <? C_INT_MAX)%Z eqn:Elim.
    + cbn [bind socks fds net_with]. rewrite upd_nth_twice.
      rewrite (rdn_some _ _ _ (nth_error_upd_nth_eq s _ _ Hs)). cbn [bind pollpos sk_setpos].
      rewrite (rdn_some _ _ _ (nth_error_snoc_last (fds n1) _)). cbn [bind nfp snd].
      unfold alloc_ok. cbn [fds fds_alloc net_with]. rewrite length_upd_nth, app_length. cbn [length].
      apply N.ltb_lt in Hal. fold nfds. lia.
    + cbn [bind nfp]. destruct strict; [|reflexivity]. specialize (Hfd eq_refl).
      apply Z.ltb_ge in Elim. unfold s in Elim. rewrite Z2Nat.id in Elim by lia. lia.
Qed.

Lemma net_get_loop_nf fuel : forall n, net_ok n -> nfp true (fun x => net_ok (snd x)) (net_get_loop fuel n).
Proof.
  induction fuel as [|fuel IH]; intros n [HI HA]; cbn [net_get_loop]; [exact I|].
  destruct (scanpos n <? N.of_nat (length (fds n)))%N eqn:Escan; [|split; assumption].
  apply N.ltb_lt in Escan. set (pos := N.to_nat (scanpos n)).
  assert (Hpos : pos < length (fds n)) by (unfold pos; lia).
  destruct (rdn_lt (fds n) pos Hpos) as [p0 [Ep0 Hp0]]. rewrite Ep0. cbn [bind].
  set (p := pf_fold p0). set (n1 := net_with n (socks n) (upd_nth pos p (fds n))).
  assert (HI1 : NetInv n1) by (apply fold_inv; auto).
  assert (Hp1 : nth_error (fds n1) pos = Some p).
  { unfold n1. cbn [fds net_with]. apply nth_error_upd_nth_eq. exact Hpos. }
  destruct (n_slot_sock n HI pos p0 Hp0) as [k [Hk Hkpos]].
  assert (Hk1 : nth_error (socks n1) (p_fd p) = Some k) by (unfold p; rewrite pf_fold_fd; exact Hk).
  assert (Hdisp : forall dir, nfp true net_ok
            (clearbit pos dir (net_with n1 (upd_nth (p_fd p) (sk_set dir None k) (socks n1)) (fds n1)))).
  { intros dir. destruct (net_remove_total n1 (p_fd p) k pos p dir HI1 Hk1 Hkpos Hp1) as [n3 [E3 [A3 L3]]].
    rewrite E3. cbn [nfp]. split.
    - apply (net_remove_spec n1 (p_fd p) k pos p dir n3 HI1 (inited_of_sock n1 _ _ HI1 Hk1) Hk1 Hkpos Hp1 E3).
    - unfold alloc_ok in *. rewrite A3. unfold n1 in L3 |- *. cbn [fds fds_alloc net_with] in *.
      rewrite length_upd_nth in L3. lia. }
  destruct (b_in (p_rev p)).
  - rewrite (rdn_some _ _ _ Hk1). cbn [bind]. eapply nfp_bind; [apply (Hdisp false)|]. intros n3 H3. exact H3.
  - destruct (b_out (p_rev p)).
    + rewrite (rdn_some _ _ _ Hk1). cbn [bind]. eapply nfp_bind; [apply (Hdisp true)|]. intros n3 H3. exact H3.
    + apply IH. split; [apply net_set_scan_inv; exact HI1|].
      unfold alloc_ok in *. cbn [fds fds_alloc net_set_scan net_with n1]. unfold n1. cbn [fds fds_alloc net_with].
      rewrite length_upd_nth. exact HA.
Qed.

Lemma net_get_nf n : net_ok n -> nfp true (fun x => net_ok (snd x)) (net_get n).
Proof. unfold net_get. apply net_get_loop_nf. Qed.

(* ================================================================ the structural invariant *)
Record Shape (s : st) : Prop := {
  sh_imm : imm_shape (s_imm s);
  sh_vimm : forall v r p, get_var v (vars (s_cl s)) = Some {| h_rid := r; h_kind := HImm p |} -> p < NPRIO;
  sh_vfresh : forall v h, get_var v (vars (s_cl s)) = Some h -> h_rid h < next_rid (s_cl s);
  sh_vtmr : forall v r, get_var v (vars (s_cl s)) = Some {| h_rid := r; h_kind := HTimer |} ->
      In r (cl_live (s_cl s)) -> In r (map trid (heap (s_tmr s)));
  sh_net : net_ok (s_net s)
}.

(* nothing new is believed live, no handle changes, timers the client believes live stay *)
Lemma Shape_step s s' :
  Shape s ->
  imm_shape (s_imm s') ->
  vars (s_cl s') = vars (s_cl s) -> next_rid (s_cl s') = next_rid (s_cl s) ->
  (forall r, In r (cl_live (s_cl s')) -> In r (cl_live (s_cl s))) ->
  (forall r, In r (cl_live (s_cl s')) -> In r (map trid (heap (s_tmr s))) -> In r (map trid (heap (s_tmr s')))) ->
  net_ok (s_net s') -> Shape s'.
Proof.
  intros H Hi Hv Hn Hl Ht Hnet. destruct H as [A B C D E]. constructor; rewrite ?Hv, ?Hn; auto.
  intros v r Hg Hr. apply Ht; [exact Hr|]. apply (D v r Hg). apply Hl. exact Hr.
Qed.

Lemma Shape_same s s' :
  Shape s -> s_imm s' = s_imm s -> s_cl s' = s_cl s -> s_tmr s' = s_tmr s -> s_net s' = s_net s -> Shape s'.
Proof.
  intros H E1 E2 E3 E4. apply (Shape_step s s' H); rewrite ?E1, ?E2, ?E3, ?E4; auto; apply H.
Qed.

Lemma Shape_emit e s : Shape s -> Shape (emit e s).
Proof. intros H. apply (Shape_same s); auto. Qed.

Lemma Shape_set_net s n' : Shape s -> net_ok n' -> Shape (set_net s n').
Proof. intros H Hn. apply (Shape_step s); auto; apply H. Qed.

Lemma Shape_set_intr b s : Shape s -> Shape (set_intr s b).
Proof. intros H. apply (Shape_same s); auto. Qed.

Lemma Shape_fire r s : Shape s -> Shape (fire_cl r s).
Proof.
  intros H. apply (Shape_step s); auto; try apply H.
  cbn. intros x Hx. apply in_remove_nat in Hx. tauto.
Qed.

Lemma Shape_dead r s : Shape s -> Shape (cl_dead r s).
Proof.
  intros H. apply (Shape_step s); auto; try apply H.
  cbn. intros x Hx. apply in_remove_nat in Hx. tauto.
Qed.

(* a register call returned success *)
Lemma Shape_registered s s0 var :
  Shape s -> s_cl s0 = s_cl s ->
  imm_shape (s_imm s0) -> net_ok (s_net s0) ->
  (forall r, In r (map trid (heap (s_tmr s))) -> In r (map trid (heap (s_tmr s0)))) ->
  (forall v p, var = Some (v, HImm p) -> p < NPRIO) ->
  (forall v, var = Some (v, HTimer) -> In (next_rid (s_cl s)) (map trid (heap (s_tmr s0)))) ->
  Shape (cl_registered (next_rid (s_cl s)) var s0).
Proof.
  intros H Ecl Hi Hnet Ht Hvi Hvt. set (rid := next_rid (s_cl s)) in *.
  unfold cl_registered. rewrite Ecl.
  assert (Hget : forall v h,
    get_var v (match var with Some (v0, hk) => (v0, {| h_rid := rid; h_kind := hk |}) :: vars (s_cl s) | None => vars (s_cl s) end) = Some h ->
    (exists v0 hk, var = Some (v0, hk) /\ h = {| h_rid := rid; h_kind := hk |}) \/ get_var v (vars (s_cl s)) = Some h).
  { intros v h Hg. destruct var as [[v0 hk]|]; [|auto]. simpl in Hg. destruct (Nat.eqb v0 v); [|auto].
    inversion Hg; subst h. left. eauto. }
  constructor; cbn [s_imm s_cl s_tmr s_net set_cl cl_with vars cl_live next_rid]; auto.
  - intros v r p Hg. apply Hget in Hg. destruct Hg as [[v0 [hk [Ev Eh]]] | Hg].
    + inversion Eh; subst. eapply Hvi; eauto.
    + eapply (sh_vimm s H); eauto.
  - intros v h Hg. apply Hget in Hg. destruct Hg as [[v0 [hk [Ev Eh]]] | Hg].
    + subst h. cbn. lia.
    + pose proof (sh_vfresh s H v h Hg). fold rid in H0. lia.
  - intros v r Hg Hr. apply Hget in Hg. destruct Hg as [[v0 [hk [Ev Eh]]] | Hg].
    + inversion Eh; subst. eapply Hvt; eauto.
    + apply Ht. apply (sh_vtmr s H v r Hg). destruct Hr as [<- | Hr]; [|exact Hr].
      pose proof (sh_vfresh s H v _ Hg) as X. cbn in X. fold rid in X. lia.
Qed.

Lemma read_clock_same s now s1 :
  read_clock s = (now, s1) ->
  s_imm s1 = s_imm s /\ s_cl s1 = s_cl s /\ s_tmr s1 = s_tmr s /\ s_net s1 = s_net s.
Proof.
  unfold read_clock. destruct (clocks (s_env s)); intros H; inversion H; subst; auto.
Qed.

Lemma Shape_read_clock s now s1 : Shape s -> read_clock s = (now, s1) -> Shape s1.
Proof. intros H E. destruct (read_clock_same s now s1 E) as [A [B [C D]]]. apply (Shape_same s); auto. Qed.

Lemma perm_trid h h' r : Permutation h h' -> In r (map trid h) -> In r (map trid h').
Proof. intros P. apply Permutation_in. apply Permutation_map. exact P. Qed.

(* ================================================================ one API call *)
Definition op_safe (o : op) : Prop :=
  match o with
  | OImmReg _ prio _ _ => prio < PRIO_LIMIT
  | ONetReg _ fd _ _ => (fd < C_INT_MAX)%Z
  | _ => True
  end.
Definition op_ok (strict : bool) (o : op) : Prop := strict = true -> op_safe o.

Lemma exec_op_nf strict o s : Shape s -> op_ok strict o -> nfp strict Shape (exec_op o s).
Proof.
  intros H Hok. destruct o; unfold exec_op.
  - (* OImmReg *)
    destruct (prio <? PRIO_LIMIT) eqn:Ep.
    + destruct (negb (af =? 0)); [apply Shape_emit; exact H|].
      eapply nfp_bind.
      * apply (imm_register_nf strict cb prio (next_rid (s_cl s)) (s_imm s) (sh_imm s H)).
        intros _. apply Nat.ltb_lt. exact Ep.
      * intros im [Him Hp]. cbn [nfp]. apply Shape_emit.
        apply (Shape_registered s (set_imm s im)); auto; try apply H.
        -- intros v p E. inversion E; subst. exact Hp.
        -- intros v E. discriminate E.
    + cbn [nfp]. destruct strict; [|reflexivity]. specialize (Hok eq_refl). simpl in Hok.
      apply Nat.ltb_ge in Ep. lia.
  - (* OImmCancel *)
    destruct (get_var var (vars (s_cl s))) as [[r [prio|]]|] eqn:Ev; try exact H.
    destruct (EventsModel.mem_nat r (cl_live (s_cl s))); [|exact H].
    eapply nfp_bind.
    + apply nfp_strict. apply (imm_cancel_nf r prio (s_imm s) (sh_imm s H)). eapply (sh_vimm s H); eauto.
    + intros im Him. cbn [nfp]. apply Shape_emit. apply Shape_dead.
      apply (Shape_step s); auto; apply H.
  - (* ONetReg *)
    destruct (negb (af =? 0)).
    { cbn [nfp]. apply Shape_emit. apply Shape_set_net; [exact H|]. destruct (sh_net s H) as [HI HA].
      split; [apply (net_register_refused_spec af cb fd opn (next_rid (s_cl s)) (s_net s) HI) | apply refused_alloc_ok; exact HA]. }
    eapply nfp_bind.
    + apply (net_register_nf strict cb fd opn (next_rid (s_cl s)) (s_net s) (sh_net s H)). exact Hok.
    + intros [e n] [Hn Hdir]. cbn [snd fst] in Hn, Hdir. destruct e as [err|].
      * cbn [nfp]. apply Shape_emit. apply (Shape_step s); auto; apply H.
      * destruct (op_dir opn) as [dir|] eqn:Eop.
        -- cbn [nfp]. apply Shape_emit. apply (Shape_registered s (set_net s n)); auto; try apply H.
           ++ intros v p E. discriminate E.
           ++ intros v E. discriminate E.
        -- (* net_register succeeded, so the direction was valid *)
           destruct (Hdir eq_refl) as [dir E]. discriminate E.
  - (* ONetCancel *)
    eapply nfp_bind.
    + apply nfp_strict. apply (net_cancel_nf fd opn (s_net s) (sh_net s H)).
    + intros [x n] Hn. cbn [snd] in Hn. destruct x as [r | err]; cbn [nfp]; apply Shape_emit.
      * apply Shape_dead. apply (Shape_step s); auto; apply H.
      * apply (Shape_step s); auto; apply H.
  - (* OTimerReg *)
    destruct (af =? 0).
    2:{ assert (H0 : Shape (timer_register_refused af s)).
        { unfold timer_register_refused. destruct (3 <=? af); [|exact H].
          apply (Shape_step s); auto; apply H. }
        destruct (Nat.odd af); [apply Shape_emit; exact H0|].
        destruct (read_clock (timer_register_refused af s)) as [now s1] eqn:Ec. cbn [nfp].
        apply Shape_emit. eapply Shape_read_clock; eauto. }
    + unfold timer_register. destruct (read_clock s) as [now s1] eqn:Ec.
      destruct (read_clock_same s now s1 Ec) as [A [B [C D]]].
      pose proof (Shape_read_clock s now s1 H Ec) as H1.
      set (x := {| t_deadline := add_timeout now t; t_orig := t; t_rec := {| r_cb := cb; r_rid := next_rid (s_cl s) |} |}).
      eapply nfp_bind with (Q := fun s2 => exists h, s2 = tmr_with s1 h /\ Permutation (x :: heap (s_tmr s1)) h).
      * eapply nfp_bind; [apply nfp_strict; apply (heap_add_nf x (heap (s_tmr s1)))|].
        intros h Hp. cbn [nfp]. eauto.
      * intros s2 [h [-> Hp]]. cbn [nfp]. apply Shape_emit.
        apply (Shape_registered s (tmr_with s1 h)); auto.
        -- cbn. rewrite A. apply H.
        -- cbn. rewrite D. apply H.
        -- intros r Hr. cbn. eapply perm_trid; [exact Hp|]. right. rewrite C. exact Hr.
        -- intros v p E. discriminate E.
        -- intros v _. cbn. eapply perm_trid; [exact Hp|]. left. reflexivity.
  - (* OTimerCancel *)
    destruct (get_var var (vars (s_cl s))) as [[r [prio|]]|] eqn:Ev; try exact H.
    destruct (EventsModel.mem_nat r (cl_live (s_cl s))) eqn:Em; [|exact H].
    apply model_mem_nat in Em.
    destruct (heap_index_in r (heap (s_tmr s)) (sh_vtmr s H var r Ev Em)) as [i Ei].
    unfold timer_cancel. rewrite Ei.
    destruct (heap_index_some _ _ _ Ei) as [x [Hx Hxr]].
    eapply nfp_bind with (Q := fun s1 => exists h, s1 = tmr_with s h /\ Permutation (heap (s_tmr s)) (x :: h)).
    + eapply nfp_bind; [apply nfp_strict; apply (heap_delete_nf i (heap (s_tmr s))); eapply nth_error_lt; eauto|].
      intros h [x' [Hx' Hp]]. cbn [nfp]. exists h. split; [reflexivity|]. congruence.
    + intros s1 [h [-> Hp]]. cbn [nfp]. apply Shape_emit.
      apply (Shape_step s); auto; try apply H.
      * cbn. intros y Hy. apply in_remove_nat in Hy. tauto.
      * cbn. intros y Hy Hin. apply in_remove_nat in Hy. destruct Hy as [_ Hne].
        apply (perm_trid _ _ y Hp) in Hin. destruct Hin as [E | Hin]; [|exact Hin].
        unfold trid in E. congruence.
  - (* OTimerReset *)
    destruct (get_var var (vars (s_cl s))) as [[r [prio|]]|] eqn:Ev; try exact H.
    destruct (EventsModel.mem_nat r (cl_live (s_cl s))) eqn:Em; [|exact H].
    apply model_mem_nat in Em.
    destruct (heap_index_in r (heap (s_tmr s)) (sh_vtmr s H var r Ev Em)) as [i Ei].
    unfold timer_reset. rewrite Ei.
    destruct (heap_index_some _ _ _ Ei) as [x [Hx Hxr]].
    rewrite (rdn_some _ _ _ Hx). cbn [bind].
    destruct (read_clock s) as [now s1] eqn:Ec.
    destruct (read_clock_same s now s1 Ec) as [A [B [C D]]].
    pose proof (Shape_read_clock s now s1 H Ec) as H1.
    set (x' := {| t_deadline := add_timeout now (t_orig x); t_orig := t_orig x; t_rec := t_rec x |}).
    rewrite C. set (h1 := upd_nth i x' (heap (s_tmr s))).
    assert (Hi : i < length (heap (s_tmr s))) by (eapply nth_error_lt; eauto).
    eapply nfp_bind with (Q := fun s2 => exists h, s2 = tmr_with s1 h /\ Permutation h1 h).
    + eapply nfp_bind with (Q := fun h => length h = length h1 /\ Permutation h1 h).
      * apply nfp_strict. apply nfp_and.
        -- apply heapify_nf; unfold h1; rewrite length_upd_nth; [exact Hi | lia].
        -- intros h E. eapply heapify_perm; eauto.
      * intros h [_ Hp]. cbn [nfp]. eauto.
    + intros s2 [h [-> Hp]]. cbn [nfp]. apply Shape_emit.
      apply (Shape_step s1 _ H1); [apply H1 | reflexivity | reflexivity | auto | | apply H1].
      cbn. intros y _ Hin. rewrite C in Hin. eapply perm_trid; [exact Hp|].
      destruct (upd_nth_split _ _ _ Hx) as [rest [P1 P2]].
      apply (perm_trid _ _ y P1) in Hin. eapply perm_trid; [symmetry; apply (P2 x')|].
      exact Hin.
  - (* OInterrupt *) cbn [nfp]. apply Shape_emit. apply Shape_set_intr. exact H.
  - (* ODone *) cbn [nfp]. apply Shape_emit. apply (Shape_step s); auto; apply H.
Qed.

Lemma exec_ops_nf strict l : forall s, Shape s -> Forall (op_ok strict) l -> nfp strict Shape (exec_ops l s).
Proof.
  induction l as [|o l IH]; intros s H Hl; cbn [exec_ops]; [exact H|].
  inversion Hl; subst. eapply nfp_bind; [apply exec_op_nf; eauto|]. intros s1 H1. apply IH; auto.
Qed.

(* ================================================================ poll, select, timers *)
Lemma Shape_set_polls s pl : Shape s -> Shape (set_polls s pl).
Proof. intros H. apply (Shape_same s); auto. Qed.

Lemma Shape_map_rev s g : Shape s -> rev_only g -> Shape (net_set_fds s (map g (fds (s_net s)))).
Proof.
  intros H Hg. unfold net_set_fds. apply Shape_set_net; [exact H|].
  destruct (sh_net s H) as [HI HA]. split; [apply map_rev_inv; auto|].
  unfold alloc_ok in *. cbn [fds fds_alloc net_with]. rewrite map_length. exact HA.
Qed.

Lemma Shape_poll_loop timeout pl : forall s, Shape s -> Shape (poll_loop timeout pl s).
Proof.
  induction pl as [|a rest IH]; intros s H; cbn [poll_loop].
  - apply Shape_emit, Shape_set_intr, Shape_set_polls, Shape_map_rev; [exact H | apply zero_rev_only].
  - destruct a as [raw | [|]].
    + apply Shape_emit, Shape_set_polls, Shape_map_rev; [exact H | apply apply_poll_rev_only].
    + apply Shape_emit, Shape_set_intr, Shape_set_polls, Shape_map_rev; [exact H | apply zero_rev_only].
    + assert (H1 : Shape (emit (EPoll timeout (fdset_of (fds (s_net s))) (PEintr false))
                (set_polls (net_set_fds s (map (pf_set_rev rb_none) (fds (s_net s)))) rest))).
      { apply Shape_emit, Shape_set_polls, Shape_map_rev; [exact H | apply zero_rev_only]. }
      destruct (s_intr s); [exact H1 | apply IH; exact H1].
Qed.

Lemma Shape_net_select tvo s : Shape s -> Shape (net_select tvo s).
Proof.
  intros H. unfold net_select.
  assert (H0 : Shape (set_net s (net_init (s_net s)))).
  { apply Shape_set_net; [exact H|]. destruct (sh_net s H) as [HI HA].
    split; [apply net_init_inv; exact HI | apply alloc_ok_init; exact HA]. }
  set (s0 := set_net s (net_init (s_net s))) in *.
  pose proof (Shape_poll_loop (sel_timeout tvo) (polls (s_env s0)) s0 H0) as H1.
  set (s1 := poll_loop (sel_timeout tvo) (polls (s_env s0)) s0) in *.
  apply Shape_set_net; [exact H1|]. destruct (sh_net s1 H1) as [HI HA].
  split; [|exact HA]. destruct HI. constructor; cbn [socks fds net_inited]; auto.
Qed.

Lemma Shape_timer_min s : Shape s -> Shape (snd (timer_min s)).
Proof.
  intros H. unfold timer_min.
  destruct (tq_inited (s_tmr s)); [|exact H].
  destruct (heap (s_tmr s)) as [|m rest]; [exact H|].
  destruct (read_clock s) as [now s1] eqn:Ec. pose proof (Shape_read_clock s now s1 H Ec) as H1.
  destruct ((fst (t_deadline m) <? fst now)%N || ((fst (t_deadline m) =? fst now)%N && (snd (t_deadline m) <? snd now)%N));
    [exact H1|].
  destruct (snd (t_deadline m) <? snd now)%N; exact H1.
Qed.

(* the record an events_*_get call hands to the dispatcher is about to be entered *)
Definition Fired (x : option rec * st) : Prop :=
  match fst x with Some r => Shape (fire_cl r (snd x)) | None => Shape (snd x) end.

Lemma Fired_of_Shape ro s : Shape s -> Fired (ro, s).
Proof. intros H. unfold Fired. cbn [fst snd]. destruct ro; [apply Shape_fire|]; exact H. Qed.

Lemma imm_get_s_nf s : Shape s -> nfp true Fired (imm_get_s s).
Proof.
  intros H. unfold imm_get_s. eapply nfp_bind; [apply imm_get_nf; apply H|].
  intros [ro im] Him. cbn [snd] in Him. cbn [nfp]. apply Fired_of_Shape.
  apply (Shape_step s); auto; apply H.
Qed.

Lemma net_get_s_nf s : Shape s -> nfp true Fired (net_get_s s).
Proof.
  intros H. unfold net_get_s. eapply nfp_bind; [apply net_get_nf; apply H|].
  intros [ro n] Hn. cbn [snd] in Hn. cbn [nfp]. apply Fired_of_Shape. apply Shape_set_net; auto.
Qed.

Lemma timer_get_nf s : Shape s -> nfp true Fired (timer_get s).
Proof.
  intros H. unfold timer_get.
  destruct (tq_inited (s_tmr s)); [|exact H].
  destruct (read_clock s) as [now s1] eqn:Ec. pose proof (Shape_read_clock s now s1 H Ec) as H1.
  destruct (heap (s_tmr s1)) as [|m rest] eqn:Eh; [exact H1|].
  assert (Hdel : nfp true Fired
            (let* h := heap_delete 0 (m :: rest) in Ok (Some (t_rec m), tmr_with s1 h))).
  { eapply nfp_bind; [apply heap_delete_nf; cbn [length]; lia|].
    intros h [x [Hx Hp]]. cbn [nth_error] in Hx. inversion Hx; subst x.
    cbn [nfp]. unfold Fired. cbn [fst snd].
    apply (Shape_step s1 _ H1); [apply H1 | reflexivity | reflexivity | | | apply H1].
    - cbn. intros y Hy. apply in_remove_nat in Hy. tauto.
    - cbn. intros y Hy Hin. apply in_remove_nat in Hy. destruct Hy as [_ Hne].
      rewrite Eh in Hin. apply (perm_trid _ _ y Hp) in Hin. destruct Hin as [E | Hin]; [|exact Hin].
      unfold trid in E. congruence. }
  destruct (tv_cmp (t_deadline m) now); [exact Hdel | exact Hdel | exact H1].
Qed.

(* ================================================================ events.c: the dispatcher *)
Definition script_ok (strict : bool) (sc : script) : Prop := Forall (op_ok strict) (fst sc).
Definition prog_ok (strict : bool) (p : program) : Prop := Forall (Forall (script_ok strict)) p.
Definition xop_ok (strict : bool) (x : xop) : Prop := match x with XOp o => op_ok strict o | _ => True end.

Lemma get_script_ok strict p cb k : prog_ok strict p -> script_ok strict (get_script p cb k).
Proof.
  intros Hp. unfold get_script.
  assert (Hs : Forall (script_ok strict) (nth cb p [])).
  { destruct (nth_in_or_default cb p []) as [H | ->]; [|constructor].
    unfold prog_ok in Hp. rewrite Forall_forall in Hp. apply Hp. exact H. }
  destruct (nth_in_or_default k (nth cb p []) ([], 0%Z)) as [H | ->].
  - rewrite Forall_forall in Hs. apply Hs. exact H.
  - constructor.
Qed.

Section Dispatch.
  Variables (strict : bool) (prog : program).
  Hypothesis Hprog : prog_ok strict prog.

  Definition PS (x : Z * st) : Prop := Shape (snd x).

  Lemma doevent_nf r s : Shape (fire_cl r s) -> nfp strict PS (doevent prog r s).
  Proof.
    intros H. unfold doevent. eapply nfp_bind.
    - apply exec_ops_nf; [|apply get_script_ok; exact Hprog]. apply Shape_emit. exact H.
    - intros s2 H2. cbn [nfp]. unfold PS. cbn [snd]. apply Shape_emit. exact H2.
  Qed.

  Lemma drain_nf fuel : forall r s, Shape (fire_cl r s) -> nfp strict PS (drain_loop prog fuel r s).
  Proof.
    induction fuel as [|fuel IH]; intros r s H; cbn [drain_loop]; [exact I|].
    eapply nfp_bind; [apply doevent_nf; exact H|]. intros [rc s1] H1. unfold PS in H1. cbn [snd] in H1.
    destruct (negb (rc =? 0)%Z); [exact H1|]. destruct (s_intr s1); [exact H1|].
    eapply nfp_bind; [apply nfp_strict; apply imm_get_s_nf; exact H1|].
    intros [ro s2] H2. unfold Fired in H2. cbn [fst snd] in H2.
    destruct ro as [r'|]; [apply IH; exact H2 | exact H2].
  Qed.

  (* "run the callback; stop on a non-zero result, otherwise go round again" *)
  Lemma fire_then_nf r s (k : st -> res (Z * st)) :
    Shape (fire_cl r s) -> (forall s', Shape s' -> nfp strict PS (k s')) ->
    nfp strict PS (let* (rc, s2) := doevent prog r s in if negb (Z.eqb rc 0) then Ok (rc, s2) else k s2).
  Proof.
    intros H Hk. eapply nfp_bind; [apply doevent_nf; exact H|]. intros [rc s2] H2.
    unfold PS in H2. cbn [snd] in H2. destruct (negb (rc =? 0)%Z); [exact H2 | apply Hk; exact H2].
  Qed.

  Lemma main_nf fuel : forall s, Shape s -> nfp strict PS (main_loop prog fuel s).
  Proof.
    induction fuel as [|fuel IH]; intros s H; cbn [main_loop]; [exact I|].
    destruct (s_intr s); [exact H|].
    eapply nfp_bind; [apply nfp_strict; apply imm_get_s_nf; exact H|].
    intros [ro s1] H1. unfold Fired in H1. cbn [fst snd] in H1.
    destruct ro as [r|]; [apply fire_then_nf; auto|].
    eapply nfp_bind; [apply nfp_strict; apply net_get_s_nf; exact H1|].
    intros [ro s2] H2. unfold Fired in H2. cbn [fst snd] in H2.
    destruct ro as [r|]; [apply fire_then_nf; auto|].
    pose proof (Shape_net_select (Some (0, 0)%N) s2 H2) as H3.
    eapply nfp_bind; [apply nfp_strict; apply net_get_s_nf; exact H3|].
    intros [ro s4] H4. unfold Fired in H4. cbn [fst snd] in H4.
    destruct ro as [r|]; [apply fire_then_nf; auto|].
    eapply nfp_bind; [apply nfp_strict; apply timer_get_nf; exact H4|].
    intros [ro s5] H5. unfold Fired in H5. cbn [fst snd] in H5.
    destruct ro as [r|]; [apply fire_then_nf; auto | exact H5].
  Qed.

  Lemma run_internal_nf fuel s : Shape s -> nfp strict PS (run_internal prog fuel s).
  Proof.
    intros H. unfold run_internal.
    eapply nfp_bind; [apply nfp_strict; apply imm_get_s_nf; exact H|].
    intros [ro s1] H1. unfold Fired in H1. cbn [fst snd] in H1.
    destruct ro as [r|]; [apply drain_nf; exact H1|].
    pose proof (Shape_timer_min s1 H1) as H2. destruct (timer_min s1) as [tvo s2]. cbn [snd] in H2.
    apply main_nf. apply Shape_net_select. exact H2.
  Qed.

  Lemma events_run_nf fuel s : Shape s -> nfp strict Shape (events_run prog fuel s).
  Proof.
    intros H. unfold events_run.
    eapply nfp_bind; [apply run_internal_nf; apply Shape_emit; exact H|].
    intros [rc s1] H1. unfold PS in H1. cbn [snd] in H1. cbn [nfp]. apply Shape_emit, Shape_set_intr. exact H1.
  Qed.

  Lemma spin_nf fuel : forall rc s, Shape s -> nfp strict PS (spin_loop prog fuel rc s).
  Proof.
    induction fuel as [|fuel IH]; intros rc s H; cbn [spin_loop]; [exact I|].
    destruct (negb (cl_done (s_cl s)) && (rc =? 0)%Z && negb (s_intr s)); [|exact H].
    eapply nfp_bind; [apply run_internal_nf; exact H|].
    intros [rc1 s1] H1. unfold PS in H1. cbn [snd] in H1. apply IH. exact H1.
  Qed.

  Lemma events_spin_nf fuel s : Shape s -> nfp strict Shape (events_spin prog fuel s).
  Proof.
    intros H. unfold events_spin.
    eapply nfp_bind; [apply spin_nf; apply Shape_emit; exact H|].
    intros [rc s1] H1. unfold PS in H1. cbn [snd] in H1. cbn [nfp]. apply Shape_emit, Shape_set_intr. exact H1.
  Qed.

  Lemma exec_xop_nf fuel x s : Shape s -> xop_ok strict x -> nfp strict Shape (exec_xop prog fuel x s).
  Proof.
    intros H Hx. destruct x; cbn [exec_xop].
    - apply exec_op_nf; assumption.
    - apply events_run_nf; exact H.
    - apply events_spin_nf; exact H.
  Qed.

  Lemma exec_xops_nf fuel l : forall s, Shape s -> Forall (xop_ok strict) l ->
    nfp strict Shape (exec_xops prog fuel l s).
  Proof.
    induction l as [|x l IH]; intros s H Hl; cbn [exec_xops]; [exact H|].
    inversion Hl; subst. eapply nfp_bind; [apply exec_xop_nf; eauto|]. intros s1 H1. apply IH; auto.
  Qed.
End Dispatch.

(* ================================================================ the initial state, the result *)
Lemma Shape_init pl cl : Shape (st_init pl cl).
Proof.
  constructor; unfold st_init; cbn [s_imm s_cl s_tmr s_net vars cl_live next_rid heads minq heap].
  - split; [apply repeat_length | exact (le_n NPRIO)].
  - intros v r p E. discriminate E.
  - intros v h E. discriminate E.
  - intros v r E. discriminate E.
  - split; [apply NetInv_empty; reflexivity|]. unfold alloc_ok. cbn [fds fds_alloc length]. lia.
Qed.

Theorem run_case_nf strict p xs pl cl fuel :
  prog_ok strict p -> Forall (xop_ok strict) xs ->
  nfp strict (fun _ => True) (run_case p xs pl cl fuel).
Proof.
  intros Hp Hx. unfold run_case.
  eapply nfp_bind; [apply (exec_xops_nf strict p Hp fuel xs); [apply Shape_init | exact Hx]|].
  intros s _. exact I.
Qed.

Lemma prog_ok_false p : prog_ok false p.
Proof.
  unfold prog_ok, script_ok, op_ok. apply Forall_forall. intros l _. apply Forall_forall. intros sc _.
  apply Forall_forall. intros o _ X. discriminate X.
Qed.

Lemma xops_ok_false xs : Forall (xop_ok false) xs.
Proof. apply Forall_forall. intros x _. destruct x; cbn; auto. intros X. discriminate X. Qed.

(* for every program, external call sequence, poll schedule, clock script and fuel *)
Theorem model_never_faults p xs pl cl fuel : run_case p xs pl cl fuel <> Fault.
Proof.
  intros E. pose proof (run_case_nf false p xs pl cl fuel (prog_ok_false p) (xops_ok_false xs)) as H.
  rewrite E in H. exact H.
Qed.

(* the contract of the API on its arguments: priorities 0..31, descriptors below INT_MAX *)
Definition script_safe (sc : script) : Prop := Forall op_safe (fst sc).
Definition prog_safe (p : program) : Prop := Forall (Forall script_safe) p.
Definition xop_safe (x : xop) : Prop := match x with XOp o => op_safe o | _ => True end.

Lemma prog_ok_true p : prog_safe p -> prog_ok true p.
Proof.
  unfold prog_safe, prog_ok. intros H. eapply Forall_impl; [|exact H]. intros l Hl.
  eapply Forall_impl; [|exact Hl]. intros sc Hsc. unfold script_ok, script_safe in *.
  eapply Forall_impl; [|exact Hsc]. intros o Ho _. exact Ho.
Qed.

Lemma xops_ok_true xs : Forall xop_safe xs -> Forall (xop_ok true) xs.
Proof. intros H. eapply Forall_impl; [|exact H]. intros x Hx. destruct x; cbn in *; auto. intros _. exact Hx. Qed.

Theorem model_no_assert p xs pl cl fuel :
  prog_safe p -> Forall xop_safe xs ->
  (exists tr, run_case p xs pl cl fuel = Ok tr) \/ run_case p xs pl cl fuel = OutOfFuel.
Proof.
  intros Hp Hx.
  pose proof (run_case_nf true p xs pl cl fuel (prog_ok_true p Hp) (xops_ok_true xs Hx)) as H.
  destruct (run_case p xs pl cl fuel) as [tr| | |]; cbn in H; eauto; try contradiction; discriminate.
Qed.

(* the descriptor limit is exactly INT_MAX: growpollfd asserts for every descriptor at or above it *)
Lemma growpollfd_int_max fd n k :
  nth_error (socks n) fd = Some k -> pollpos k = None -> alloc_ok n ->
  (C_INT_MAX <= Z.of_nat fd)%Z -> growpollfd fd n = AssertFail.
Proof.
  intros Hk Hp HA Hfd. unfold growpollfd. rewrite (rdn_some _ _ _ Hk). cbn [bind]. rewrite Hp.
  destruct (N.of_nat (length (fds n)) <? _)%N; [|reflexivity].
  apply Z.ltb_ge in Hfd. rewrite Hfd. reflexivity.
Qed.

(* the two assertions are real: both outcomes exist *)
Example ex_assert_prio :
  run_case [] [XOp (OImmReg 0 32 0 0)] [] [] 5 = AssertFail /\
  run_case [] [XOp (OImmReg 0 32 0 1)] [] [] 5 = AssertFail /\
  exists tr, run_case [] [XOp (OImmReg 0 31 0 0)] [] [] 5 = Ok tr.
Proof. split; [vm_compute; reflexivity|]. split; [vm_compute; reflexivity|]. eexists. vm_compute. reflexivity. Qed.

(* with the hypotheses of the C04 theorems and the argument contract: the run returns a trace the
   theorems speak about, unless the fuel given to the dispatcher loops was too small *)
Theorem runs_to_or_out_of_fuel p xs pl cl fuel :
  prog_norm p -> Forall xop_norm xs -> Forall (fun t => tv_norm t = true) cl ->
  prog_safe p -> Forall xop_safe xs ->
  (exists tr, runs_to p xs pl cl fuel tr) \/ run_case p xs pl cl fuel = OutOfFuel.
Proof.
  intros A B C D E. destruct (model_no_assert p xs pl cl fuel D E) as [[tr H] | H]; [left | right; exact H].
  exists tr. unfold runs_to. auto.
Qed.

(* non-vacuity of prog_safe / xop_safe: the program of EventsExamples.v (all three kinds fire) *)
Ltac safe_tac :=
  repeat match goal with
         | |- _ /\ _ => split
         | |- Forall _ _ => constructor
         | |- script_safe _ => unfold script_safe; simpl fst
         | |- xop_safe _ => cbn [xop_safe]
         | |- op_safe _ => cbn [op_safe]
         | |- True => exact I
         | |- (_ < _)%Z => reflexivity
         | |- _ < PRIO_LIMIT => apply Nat.ltb_lt; reflexivity
         end.

Example ex_safe : prog_safe ex_prog /\ Forall xop_safe ex_xops.
Proof. unfold prog_safe, ex_prog, ex_xops. safe_tac. Qed.

