(* The event-loop invariant EvInv (DESIGN.md Appendix B), C04 part: a simulation between the
   model state and the state of the SPEC's checker after it has read the trace emitted so far.
     ghost `live` set                = the checker's c_live (ids registered, not cancelled/invoked)
     G1 (records <-> live ids)       = sm_imm / sm_net1 / sm_net2 / sm_tmr (+ the NoDup clauses)
     G2, G3 (why a revents bit is set) = sm_net3 / sm_net4
     N1-N5                           = sm_net (NetInv)
     T3 (deadline = clock + timeout) = sm_tmr
   Every operation of the model is shown to keep the checker accepting and to re-establish the
   relation; hence check_c04 accepts every trace the model can emit, for all programs,
   schedules and fuels (EventsOrder.v / Properties_C04_events.v draw the conclusions). *)
From Coq Require Import NArith ZArith List Bool Arith Lia Permutation.
From LCP Require Import Base.CheckedMem Events.EventsTrace Events.EventsSpec Events.EventsModel
  Events.EventsLemmas Events.EventsNetInv Events.EventsSpecProofs.
Import ListNotations.
Local Open Scope res_scope.

Definition live_rid (c : c4) (r : nat) (k : kind) : Prop :=
  exists g, In g (c_live c) /\ g_rid g = r /\ g_kind g = k.

Record Sim (s : st) (c : c4) : Prop := {
  sm_nodup : NoDup (map g_rid (c_live c));
  sm_used : forall g, In g (c_live c) -> In (g_rid g) (c_used c);
  sm_fresh : forall r, In r (c_used c) -> r < next_rid (s_cl s);
  sm_cl : forall r, In r (cl_live (s_cl s)) <-> exists g, In g (c_live c) /\ g_rid g = r;
  sm_vars : forall v r p, get_var v (vars (s_cl s)) = Some {| h_rid := r; h_kind := HImm p |} ->
      forall g, In g (c_live c) -> g_rid g = r -> g_kind g = KImm p;
  sm_vars_fresh : forall v h, get_var v (vars (s_cl s)) = Some h -> h_rid h < next_rid (s_cl s);
  (* immediates *)
  sm_imm : forall p q r, nth_error (heads (s_imm s)) p = Some q -> In r q -> live_rid c (r_rid r) (KImm p);
  sm_imm_nodup : forall p q, nth_error (heads (s_imm s)) p = Some q -> NoDup (map r_rid q);
  (* descriptors *)
  sm_net : NetInv (s_net s);
  sm_net1 : forall fd dir rc, field (s_net s) fd dir = Some rc -> live_rid c (r_rid rc) (KNet fd dir);
  sm_net2 : forall g fd dir, In g (c_live c) -> g_kind g = KNet fd dir ->
      exists rc, field (s_net s) fd dir = Some rc /\ r_rid rc = g_rid g;
  sm_net3 : forall fd dir rc g, rb_dir (rev_at (s_net s) fd) dir = true ->
      field (s_net s) fd dir = Some rc -> In g (c_live c) -> g_rid g = r_rid rc ->
      g_ready g = true \/ errhup_for fd (c_lastpoll c) = true;
  sm_net4 : forall fd, rb_errhup (rev_at (s_net s) fd) = true -> errhup_for fd (c_lastpoll c) = true;
  (* timers *)
  sm_tmr : forall x, In x (heap (s_tmr s)) ->
      exists g, In g (c_live c) /\ g_rid g = r_rid (t_rec x) /\ g_kind g = KTimer (t_orig x) /\
                g_due g = us (t_deadline x) /\ tv_norm (t_deadline x) = true /\ tv_norm (t_orig x) = true;
  sm_tmr_nodup : NoDup (map (fun x => r_rid (t_rec x)) (heap (s_tmr s)));
  (* the clock script *)
  sm_env : Forall (fun t => tv_norm t = true) (clocks (s_env s)) /\ tv_norm (lastclock (s_env s)) = true
}.

(* the checker has accepted the trace so far and its state is related to the model state *)
Definition Good (s : st) : Prop :=
  exists c, csteps4 c4_init (rev (s_tr s)) = Some c /\ Sim s c.

Lemma csteps4_app c t1 t2 :
  csteps4 c (t1 ++ t2) = match csteps4 c t1 with Some c1 => csteps4 c1 t2 | None => None end.
Proof.
  revert c. induction t1 as [|e t1 IH]; intros c; simpl; [reflexivity|].
  destruct (cstep4 c e); [apply IH | reflexivity].
Qed.

(* emitting one event that the checker accepts *)
Lemma Good_emit s e c c' s' :
  csteps4 c4_init (rev (s_tr s)) = Some c -> cstep4 c e = Some c' ->
  s_tr s' = e :: s_tr s -> Sim s' c' -> Good s'.
Proof.
  intros Hc He Htr Hsim. exists c'. split; [|exact Hsim].
  rewrite Htr. simpl. rewrite csteps4_app, Hc. simpl. rewrite He. reflexivity.
Qed.

(* ---------------------------------------------------------------- unique ids *)
Lemma nodup_rid_eq (l : list reg) g1 g2 :
  NoDup (map g_rid l) -> In g1 l -> In g2 l -> g_rid g1 = g_rid g2 -> g1 = g2.
Proof.
  induction l as [|a l IH]; simpl; intros Hn H1 H2 E; [destruct H1|].
  inversion Hn; subst. destruct H1 as [-> | H1], H2 as [-> | H2]; auto.
  - exfalso. apply H3. apply in_map_iff. exists g2. auto.
  - exfalso. apply H3. apply in_map_iff. exists g1. auto.
Qed.

Lemma live_rid_kind_unique c r k1 k2 :
  NoDup (map g_rid (c_live c)) -> live_rid c r k1 -> live_rid c r k2 -> k1 = k2.
Proof.
  intros Hn [g1 [A1 [B1 C1]]] [g2 [A2 [B2 C2]]].
  assert (g1 = g2) by (eapply nodup_rid_eq; eauto; congruence). subst. congruence.
Qed.

Lemma find_reg_in l g : NoDup (map g_rid l) -> In g l -> find_reg (g_rid g) l = Some g.
Proof.
  intros Hn Hg. destruct (find_reg (g_rid g) l) as [g'|] eqn:E.
  - apply find_reg_some in E. destruct E as [A B]. f_equal. eapply nodup_rid_eq; eauto.
  - exfalso. eapply find_reg_none; eauto.
Qed.
