(* The event-loop invariant EvInv (DESIGN.md Appendix B), C04 part: a simulation between the
   model state and the state of the SPEC's checker after it has read the trace emitted so far.
     ghost `live` set                = the checker's c_live (ids registered, not cancelled/invoked)
     G1 (records <-> live ids)       = sm_imm / sm_net1 / sm_net2 / sm_tmr (+ the NoDup clauses)
     G2, G3 (why a revents bit is set) = sm_net3 / sm_net4
     N1-N5                           = sm_net (NetInv)
     T3 (deadline = clock + timeout) = sm_tmr
   Every operation of the model is shown to keep the checker accepting and to re-establish the
   relation; hence check_c04 accepts every trace the model can emit, for all programs,
   schedules and fuels (EventsOrder.v / Properties_C04_events.v draw the conclusions). *)
From Coq Require Import NArith ZArith List Bool Arith Lia Permutation.
From LCP Require Import Base.CheckedMem Events.EventsTrace Events.EventsSpec Events.EventsModel Events.EventsLemmas Events.EventsNetInv Events.EventsHeap Events.EventsSpecProofs.
Import ListNotations.
Local Open Scope res_scope.
Unset Lia Cache.

Definition live_rid (c : c4) (r : nat) (k : kind) : Prop :=
  exists g, In g (c_live c) /\ g_rid g = r /\ g_kind g = k.

Record Sim (s : st) (c : c4) : Prop := {
  sm_nodup : NoDup (map g_rid (c_live c));
  sm_used : forall g, In g (c_live c) -> In (g_rid g) (c_used c);
  sm_fresh : forall r, In r (c_used c) -> r < next_rid (s_cl s);
  sm_cl : forall r, In r (cl_live (s_cl s)) <-> exists g, In g (c_live c) /\ g_rid g = r;
  sm_vars : forall v r p, get_var v (vars (s_cl s)) = Some {| h_rid := r; h_kind := HImm p |} ->
      forall g, In g (c_live c) -> g_rid g = r -> g_kind g = KImm p;
  sm_vars_fresh : forall v h, get_var v (vars (s_cl s)) = Some h -> h_rid h < next_rid (s_cl s);
  (* immediates *)
  sm_imm : forall p q r, nth_error (heads (s_imm s)) p = Some q -> In r q -> live_rid c (r_rid r) (KImm p);
  sm_imm_nodup : forall p q, nth_error (heads (s_imm s)) p = Some q -> NoDup (map r_rid q);
  (* descriptors *)
  sm_net : NetInv (s_net s);
  sm_net1 : forall fd dir rc, field (s_net s) fd dir = Some rc -> live_rid c (r_rid rc) (KNet fd dir);
  sm_net2 : forall g fd dir, In g (c_live c) -> g_kind g = KNet fd dir ->
      exists rc, field (s_net s) fd dir = Some rc /\ r_rid rc = g_rid g;
  sm_net3 : forall fd dir rc g, rb_dir (rev_at (s_net s) fd) dir = true ->
      field (s_net s) fd dir = Some rc -> In g (c_live c) -> g_rid g = r_rid rc ->
      g_ready g = true \/ errhup_for fd (c_lastpoll c) = true;
  sm_net4 : forall fd, rb_errhup (rev_at (s_net s) fd) = true -> errhup_for fd (c_lastpoll c) = true;
  (* timers *)
  sm_tmr : forall x, In x (heap (s_tmr s)) ->
      exists g, In g (c_live c) /\ g_rid g = r_rid (t_rec x) /\ g_kind g = KTimer (t_orig x) /\
                g_due g = us (t_deadline x) /\ tv_norm (t_deadline x) = true /\ tv_norm (t_orig x) = true;
  sm_tmr_nodup : NoDup (map (fun x => r_rid (t_rec x)) (heap (s_tmr s)));
  (* the clock script *)
  sm_env : Forall (fun t => tv_norm t = true) (clocks (s_env s)) /\ tv_norm (lastclock (s_env s)) = true
}.

(* the checker has accepted the trace so far and its state is related to the model state *)
Definition Good (s : st) : Prop :=
  exists c, csteps4 c4_init (rev (s_tr s)) = Some c /\ Sim s c.

Lemma csteps4_app c t1 t2 :
  csteps4 c (t1 ++ t2) = match csteps4 c t1 with Some c1 => csteps4 c1 t2 | None => None end.
Proof.
  revert c. induction t1 as [|e t1 IH]; intros c; simpl; [reflexivity|].
  destruct (cstep4 c e); [apply IH | reflexivity].
Qed.

(* emitting one event that the checker accepts *)
Lemma Good_emit s e c c' s' :
  csteps4 c4_init (rev (s_tr s)) = Some c -> cstep4 c e = Some c' ->
  s_tr s' = e :: s_tr s -> Sim s' c' -> Good s'.
Proof.
  intros Hc He Htr Hsim. exists c'. split; [|exact Hsim].
  rewrite Htr. simpl. rewrite csteps4_app, Hc. simpl. rewrite He. reflexivity.
Qed.

(* ---------------------------------------------------------------- unique ids *)
Lemma nodup_rid_eq (l : list reg) g1 g2 :
  NoDup (map g_rid l) -> In g1 l -> In g2 l -> g_rid g1 = g_rid g2 -> g1 = g2.
Proof.
  induction l as [|a l IH]; simpl; intros Hn H1 H2 E; [destruct H1|].
  inversion Hn; subst. destruct H1 as [-> | H1], H2 as [-> | H2]; auto.
  - exfalso. apply H3. apply in_map_iff. exists g2. auto.
  - exfalso. apply H3. apply in_map_iff. exists g1. auto.
Qed.

Lemma live_rid_kind_unique c r k1 k2 :
  NoDup (map g_rid (c_live c)) -> live_rid c r k1 -> live_rid c r k2 -> k1 = k2.
Proof.
  intros Hn [g1 [A1 [B1 C1]]] [g2 [A2 [B2 C2]]].
  assert (g1 = g2) by (eapply nodup_rid_eq; eauto; congruence). subst. congruence.
Qed.

Lemma find_reg_in l g : NoDup (map g_rid l) -> In g l -> find_reg (g_rid g) l = Some g.
Proof.
  intros Hn Hg. destruct (find_reg (g_rid g) l) as [g'|] eqn:E.
  - apply find_reg_some in E. destruct E as [A B]. f_equal. eapply nodup_rid_eq; eauto.
  - exfalso. eapply find_reg_none; eauto.
Qed.

(* ---------------------------------------------------------------- basic consequences *)
Lemma sim_rid_lt s c r k : Sim s c -> live_rid c r k -> r < next_rid (s_cl s).
Proof.
  intros HS [g [A [B C]]]. subst r. apply (sm_fresh s c HS). apply (sm_used s c HS). exact A.
Qed.

Lemma sim_in_lt s c g : Sim s c -> In g (c_live c) -> g_rid g < next_rid (s_cl s).
Proof. intros HS Hg. apply (sm_fresh s c HS). apply (sm_used s c HS). exact Hg. Qed.

Lemma sim_next_unused s c : Sim s c -> EventsSpec.mem_nat (next_rid (s_cl s)) (c_used c) = false.
Proof.
  intros HS. destruct (EventsSpec.mem_nat (next_rid (s_cl s)) (c_used c)) eqn:E; [|reflexivity].
  apply mem_nat_true in E. apply (sm_fresh s c HS) in E. lia.
Qed.

Lemma live_rid_cons c c' g0 r k :
  c_live c' = g0 :: c_live c -> live_rid c r k -> live_rid c' r k.
Proof. intros E [g [A B]]. exists g. rewrite E. split; [right; exact A | exact B]. Qed.

Lemma live_rid_remove c c' r x k :
  c_live c' = remove_reg r (c_live c) -> x <> r -> live_rid c x k -> live_rid c' x k.
Proof.
  intros E Hne [g [A [B C]]]. exists g. rewrite E. split; [|auto].
  apply in_remove_reg. split; [exact A | congruence].
Qed.

Lemma model_mem_nat r l : EventsModel.mem_nat r l = true <-> In r l.
Proof.
  unfold EventsModel.mem_nat. rewrite existsb_exists. split.
  - intros [x [H1 H2]]. apply Nat.eqb_eq in H2. subst. exact H1.
  - intros H. exists r. split; [exact H | apply Nat.eqb_refl].
Qed.

Lemma in_remove_nat r l x : In x (remove_nat r l) <-> In x l /\ x <> r.
Proof.
  unfold remove_nat. rewrite filter_In, negb_true_iff, Nat.eqb_neq. tauto.
Qed.

(* ---------------------------------------------------------------- the generic "a fresh
   registration was added" step.  The caller supplies what happened to the one subsystem that
   received the record; everything else is framed here. *)
Section AddFresh.
  Variables (s s' : st) (c : c4) (k0 : kind) (due0 : N).
  Hypothesis HS : Sim s c.
  Let r0 := next_rid (s_cl s).
  Let g0 := {| g_rid := r0; g_kind := k0; g_ready := false; g_due := due0 |}.
  Let c' := {| c_live := g0 :: c_live c; c_used := r0 :: c_used c; c_lastpoll := c_lastpoll c;
               c_clock := c_clock c |}.
  Variable var : option (nat * hkind).
  Hypothesis Hcl : s_cl s' =
    cl_with (s_cl s)
      (match var with Some (v, hk) => (v, {| h_rid := r0; h_kind := hk |}) :: vars (s_cl s) | None => vars (s_cl s) end)
      (r0 :: cl_live (s_cl s)) (S r0).
  Hypothesis Hvarkind : forall v p, var = Some (v, HImm p) -> k0 = KImm p.
  Hypothesis Hclocks : clocks (s_env s') = clocks (s_env s).
  Hypothesis Hlastclock : lastclock (s_env s') = lastclock (s_env s).

  Lemma add_not_in g : In g (c_live c) -> g_rid g <> r0.
  Proof. intros Hg E. pose proof (sim_in_lt s c g HS Hg). unfold r0 in *. lia. Qed.

  Lemma add_live_rid r k : live_rid c r k -> live_rid c' r k.
  Proof. apply (live_rid_cons c c' g0). reflexivity. Qed.

  Lemma add_in_inv g : In g (c_live c') -> g = g0 \/ In g (c_live c).
  Proof. simpl. intros [H|H]; auto. Qed.

  (* clauses that do not depend on which subsystem was touched *)
  Lemma add_common :
    NoDup (map g_rid (c_live c')) /\
    (forall g, In g (c_live c') -> In (g_rid g) (c_used c')) /\
    (forall r, In r (c_used c') -> r < next_rid (s_cl s')) /\
    (forall r, In r (cl_live (s_cl s')) <-> exists g, In g (c_live c') /\ g_rid g = r) /\
    (forall v r p, get_var v (vars (s_cl s')) = Some {| h_rid := r; h_kind := HImm p |} ->
        forall g, In g (c_live c') -> g_rid g = r -> g_kind g = KImm p) /\
    (forall v h, get_var v (vars (s_cl s')) = Some h -> h_rid h < next_rid (s_cl s')) /\
    (Forall (fun t => tv_norm t = true) (clocks (s_env s')) /\ tv_norm (lastclock (s_env s')) = true).
  Proof.
    rewrite Hcl, Hclocks, Hlastclock. simpl.
    refine (conj _ (conj _ (conj _ (conj _ (conj _ (conj _ _)))))).
    - constructor; [|apply (sm_nodup s c HS)]. intros X. apply in_map_iff in X.
      destruct X as [g [E Hg]]. exact (add_not_in g Hg E).
    - intros g [<- | Hg]; [left; reflexivity | right; apply (sm_used s c HS); exact Hg].
    - intros r [<- | Hr]; [lia|]. pose proof (sm_fresh s c HS r Hr). unfold r0. lia.
    - intros r. split.
      + intros [<- | Hr].
        * exists g0. split; [left; reflexivity | reflexivity].
        * apply (sm_cl s c HS) in Hr. destruct Hr as [g [A B]]. exists g. split; [right; exact A | exact B].
      + intros [g [[<- | Hg] E]]; [left; exact E | right]. apply (sm_cl s c HS). exists g. auto.
    - intros v r p Hv g Hg Er.
      assert (Hold : get_var v (vars (s_cl s)) = Some {| h_rid := r; h_kind := HImm p |} -> g_kind g = KImm p).
      { intros Hv0. destruct Hg as [<- | Hg].
        - exfalso. simpl in Er. pose proof (sm_vars_fresh s c HS v _ Hv0) as X. simpl in X. unfold r0 in *. lia.
        - eapply (sm_vars s c HS); eauto. }
      destruct var as [[v0 hk]|]; [|auto]. simpl in Hv. destruct (Nat.eqb v0 v) eqn:Ev; [|auto].
      inversion Hv as [[Hr0 Hhk]]. rewrite <- Hr0 in Er. destruct Hg as [<- | Hg].
      + simpl. eapply Hvarkind. rewrite Hhk. reflexivity.
      + exfalso. exact (add_not_in g Hg Er).
    - intros v h Hv.
      assert (Hold : get_var v (vars (s_cl s)) = Some h -> h_rid h < S r0).
      { intros Hv0. pose proof (sm_vars_fresh s c HS v h Hv0). unfold r0. lia. }
      destruct var as [[v0 hk]|]; [|auto]. simpl in Hv. destruct (Nat.eqb v0 v); [|auto].
      inversion Hv; subst h. simpl. lia.
    - apply (sm_env s c HS).
  Qed.

  (* frames: a subsystem that was not touched *)
  Lemma add_frame_imm :
    s_imm s' = s_imm s ->
    (forall p q r, nth_error (heads (s_imm s')) p = Some q -> In r q -> live_rid c' (r_rid r) (KImm p)) /\
    (forall p q, nth_error (heads (s_imm s')) p = Some q -> NoDup (map r_rid q)).
  Proof.
    intros E. rewrite E. split.
    - intros p q r Hq Hr. apply add_live_rid. eapply (sm_imm s c HS); eauto.
    - apply (sm_imm_nodup s c HS).
  Qed.

  Lemma add_frame_tmr :
    s_tmr s' = s_tmr s ->
    (forall x, In x (heap (s_tmr s')) ->
      exists g, In g (c_live c') /\ g_rid g = r_rid (t_rec x) /\ g_kind g = KTimer (t_orig x) /\
                g_due g = us (t_deadline x) /\ tv_norm (t_deadline x) = true /\ tv_norm (t_orig x) = true) /\
    NoDup (map (fun x => r_rid (t_rec x)) (heap (s_tmr s'))).
  Proof.
    intros E. rewrite E. split; [|apply (sm_tmr_nodup s c HS)].
    intros x Hx. destruct (sm_tmr s c HS x Hx) as [g [A B]]. exists g. split; [right; exact A | exact B].
  Qed.

  Lemma add_frame_net :
    s_net s' = s_net s -> is_net k0 = false ->
    NetInv (s_net s') /\
    (forall fd dir rc, field (s_net s') fd dir = Some rc -> live_rid c' (r_rid rc) (KNet fd dir)) /\
    (forall g fd dir, In g (c_live c') -> g_kind g = KNet fd dir ->
        exists rc, field (s_net s') fd dir = Some rc /\ r_rid rc = g_rid g) /\
    (forall fd dir rc g, rb_dir (rev_at (s_net s') fd) dir = true ->
        field (s_net s') fd dir = Some rc -> In g (c_live c') -> g_rid g = r_rid rc ->
        g_ready g = true \/ errhup_for fd (c_lastpoll c') = true) /\
    (forall fd, rb_errhup (rev_at (s_net s') fd) = true -> errhup_for fd (c_lastpoll c') = true).
  Proof.
    intros E Hk0. rewrite E. split; [apply (sm_net s c HS)|]. split; [|split; [|split]].
    - intros fd dir rc Hf. apply add_live_rid. eapply (sm_net1 s c HS); eauto.
    - intros g fd dir [<- | Hg] Hk.
      + simpl in Hk. subst k0. discriminate.
      + eapply (sm_net2 s c HS); eauto.
    - intros fd dir rc g Hr Hf [<- | Hg] Er.
      + exfalso. simpl in Er. pose proof (sim_rid_lt s c _ _ HS (sm_net1 s c HS fd dir rc Hf)). unfold r0 in *. lia.
      + eapply (sm_net3 s c HS); eauto.
    - apply (sm_net4 s c HS).
  Qed.
End AddFresh.

(* ---------------------------------------------------------------- the generic "registration r
   is gone" step (cancelled, or its callback is being entered) *)
Section RemoveLive.
  Variables (s s' : st) (c : c4) (r : nat) (kr : kind).
  Hypothesis HS : Sim s c.
  Hypothesis Hr : live_rid c r kr.
  Let c' := {| c_live := remove_reg r (c_live c); c_used := c_used c; c_lastpoll := c_lastpoll c;
               c_clock := c_clock c |}.
  Hypothesis Hvars : vars (s_cl s') = vars (s_cl s).
  Hypothesis Hlive : cl_live (s_cl s') = remove_nat r (cl_live (s_cl s)).
  Hypothesis Hnext : next_rid (s_cl s') = next_rid (s_cl s).
  Hypothesis Hclocks : clocks (s_env s') = clocks (s_env s).
  Hypothesis Hlastclock : lastclock (s_env s') = lastclock (s_env s).

  Lemma rm_live_rid x k : x <> r -> live_rid c x k -> live_rid c' x k.
  Proof. apply (live_rid_remove c c' r). reflexivity. Qed.

  Lemma rm_in g : In g (c_live c') -> In g (c_live c) /\ g_rid g <> r.
  Proof. simpl. apply in_remove_reg. Qed.

  (* an element of another kind is not r *)
  Lemma rm_other_kind x k : live_rid c x k -> k <> kr -> x <> r.
  Proof.
    intros Hx Hk E. subst x. apply Hk. eapply live_rid_kind_unique; eauto. apply (sm_nodup s c HS).
  Qed.

  Lemma rm_common :
    NoDup (map g_rid (c_live c')) /\
    (forall g, In g (c_live c') -> In (g_rid g) (c_used c')) /\
    (forall x, In x (c_used c') -> x < next_rid (s_cl s')) /\
    (forall x, In x (cl_live (s_cl s')) <-> exists g, In g (c_live c') /\ g_rid g = x) /\
    (forall v x p, get_var v (vars (s_cl s')) = Some {| h_rid := x; h_kind := HImm p |} ->
        forall g, In g (c_live c') -> g_rid g = x -> g_kind g = KImm p) /\
    (forall v h, get_var v (vars (s_cl s')) = Some h -> h_rid h < next_rid (s_cl s')) /\
    (Forall (fun t => tv_norm t = true) (clocks (s_env s')) /\ tv_norm (lastclock (s_env s')) = true).
  Proof.
    rewrite Hvars, Hlive, Hnext, Hclocks, Hlastclock.
    refine (conj _ (conj _ (conj _ (conj _ (conj _ (conj _ _)))))).
    - simpl. apply nodup_map_filter. apply (sm_nodup s c HS).
    - intros g Hg. apply rm_in in Hg. apply (sm_used s c HS). tauto.
    - apply (sm_fresh s c HS).
    - intros x. rewrite in_remove_nat. split.
      + intros [Hx Hne]. apply (sm_cl s c HS) in Hx. destruct Hx as [g [A B]]. exists g. split; [|exact B].
        simpl. apply in_remove_reg. split; [exact A | congruence].
      + intros [g [Hg E]]. apply rm_in in Hg. destruct Hg as [A B]. split; [|congruence].
        apply (sm_cl s c HS). exists g. auto.
    - intros v x p Hv g Hg Ex. apply rm_in in Hg. eapply (sm_vars s c HS); eauto. tauto.
    - apply (sm_vars_fresh s c HS).
    - apply (sm_env s c HS).
  Qed.

  Lemma rm_frame_imm :
    s_imm s' = s_imm s -> is_imm kr = false ->
    (forall p q x, nth_error (heads (s_imm s')) p = Some q -> In x q -> live_rid c' (r_rid x) (KImm p)) /\
    (forall p q, nth_error (heads (s_imm s')) p = Some q -> NoDup (map r_rid q)).
  Proof.
    intros E Hk. rewrite E. split; [|apply (sm_imm_nodup s c HS)].
    intros p q x Hq Hx. pose proof (sm_imm s c HS p q x Hq Hx) as L. apply rm_live_rid; [|exact L].
    eapply rm_other_kind; [exact L|]. intros X. rewrite <- X in Hk. discriminate.
  Qed.

  Lemma rm_frame_tmr :
    s_tmr s' = s_tmr s -> is_timer kr = false ->
    (forall x, In x (heap (s_tmr s')) ->
      exists g, In g (c_live c') /\ g_rid g = r_rid (t_rec x) /\ g_kind g = KTimer (t_orig x) /\
                g_due g = us (t_deadline x) /\ tv_norm (t_deadline x) = true /\ tv_norm (t_orig x) = true) /\
    NoDup (map (fun x => r_rid (t_rec x)) (heap (s_tmr s'))).
  Proof.
    intros E Hk. rewrite E. split; [|apply (sm_tmr_nodup s c HS)].
    intros x Hx. destruct (sm_tmr s c HS x Hx) as [g [A [B [C D]]]]. exists g. split; [|auto].
    simpl. apply in_remove_reg. split; [exact A|]. rewrite B.
    apply (rm_other_kind _ (KTimer (t_orig x))).
    - exists g. auto.
    - intros X. rewrite <- X in Hk. discriminate.
  Qed.

  Lemma rm_frame_net :
    s_net s' = s_net s -> is_net kr = false ->
    NetInv (s_net s') /\
    (forall fd dir rc, field (s_net s') fd dir = Some rc -> live_rid c' (r_rid rc) (KNet fd dir)) /\
    (forall g fd dir, In g (c_live c') -> g_kind g = KNet fd dir ->
        exists rc, field (s_net s') fd dir = Some rc /\ r_rid rc = g_rid g) /\
    (forall fd dir rc g, rb_dir (rev_at (s_net s') fd) dir = true ->
        field (s_net s') fd dir = Some rc -> In g (c_live c') -> g_rid g = r_rid rc ->
        g_ready g = true \/ errhup_for fd (c_lastpoll c') = true) /\
    (forall fd, rb_errhup (rev_at (s_net s') fd) = true -> errhup_for fd (c_lastpoll c') = true).
  Proof.
    intros E Hk. rewrite E. split; [apply (sm_net s c HS)|]. split; [|split; [|split]].
    - intros fd dir rc Hf. pose proof (sm_net1 s c HS fd dir rc Hf) as L. apply rm_live_rid; [|exact L].
      eapply rm_other_kind; [exact L|]. intros X. rewrite <- X in Hk. discriminate.
    - intros g fd dir Hg Hkd. apply rm_in in Hg. eapply (sm_net2 s c HS); eauto. tauto.
    - intros fd dir rc g Hrv Hf Hg Er. apply rm_in in Hg. eapply (sm_net3 s c HS); eauto. tauto.
    - apply (sm_net4 s c HS).
  Qed.
End RemoveLive.

(* ---------------------------------------------------------------- time arithmetic *)
Lemma us_add_timeout now t : us (add_timeout now t) = (us now + us t)%N.
Proof.
  destruct now as [s1 u1], t as [s2 u2].
  unfold add_timeout, us. change Gen.Repo_events.tmr_usec_per_sec with 1000000%N.
  change Gen.Repo_events.tmr_carry with 1%N. cbn [fst snd].
  destruct (1000000 <=? u1 + u2)%N eqn:E; cbn [fst snd].
  - apply N.leb_le in E. lia.
  - lia.
Qed.

Lemma norm_add_timeout now t :
  tv_norm now = true -> tv_norm t = true -> tv_norm (add_timeout now t) = true.
Proof.
  destruct now as [s1 u1], t as [s2 u2].
  unfold tv_norm, add_timeout. change Gen.Repo_events.tmr_usec_per_sec with 1000000%N. cbn [fst snd].
  intros A B. apply N.ltb_lt in A. apply N.ltb_lt in B.
  destruct (1000000 <=? u1 + u2)%N eqn:E; cbn [fst snd]; apply N.ltb_lt.
  - apply N.leb_le in E. lia.
  - apply N.leb_gt in E. exact E.
Qed.

Lemma tv_cmp_not_gt_us a b : tv_norm a = true -> tv_cmp a b <> Gt -> (us a <= us b)%N.
Proof.
  destruct a as [s1 u1], b as [s2 u2].
  unfold tv_norm, tv_cmp, us. cbn [fst snd]. intros A H. apply N.ltb_lt in A.
  destruct (N.compare s1 s2) eqn:C1.
  - apply N.compare_eq in C1. subst s2.
    destruct (N.compare u1 u2) eqn:C2; try congruence.
    + apply N.compare_eq in C2. subst u2. apply N.le_refl.
    + assert (u1 < u2)%N by (apply N.compare_lt_iff; exact C2). lia.
  - assert (s1 < s2)%N by (apply N.compare_lt_iff; exact C1). lia.
  - congruence.
Qed.

(* ---------------------------------------------------------------- states that differ only in
   components the relation does not mention *)
Lemma Sim_congr s c s' c' :
  Sim s c ->
  vars (s_cl s') = vars (s_cl s) -> cl_live (s_cl s') = cl_live (s_cl s) ->
  next_rid (s_cl s') = next_rid (s_cl s) ->
  s_imm s' = s_imm s -> s_net s' = s_net s -> s_tmr s' = s_tmr s ->
  s_env s' = s_env s ->
  c_live c' = c_live c -> c_used c' = c_used c -> c_lastpoll c' = c_lastpoll c ->
  Sim s' c'.
Proof.
  intros HS E1a E1b E1c E2 E3 E4 E5 F1 F2 F3. destruct HS.
  constructor; unfold live_rid in *; rewrite ?E1a, ?E1b, ?E1c, ?E2, ?E3, ?E4, ?E5, ?F1, ?F2, ?F3; auto.
Qed.

Lemma Good_neutral s e :
  Good s -> neutral e -> Good (emit e s).
Proof.
  intros [c [Hc HS]] Hn.
  assert (Hstep : cstep4 c e = Some c).
  { destruct e; simpl in Hn; try tauto; try reflexivity. destruct e; try reflexivity. congruence. }
  eapply Good_emit; eauto. eapply Sim_congr; eauto.
Qed.

(* reading the clock *)
Lemma read_clock_good s now s1 :
  Good s -> read_clock s = (now, s1) ->
  tv_norm now = true /\
  s_cl s1 = s_cl s /\ s_imm s1 = s_imm s /\ s_net s1 = s_net s /\ s_tmr s1 = s_tmr s /\ s_intr s1 = s_intr s /\
  exists c, csteps4 c4_init (rev (s_tr s)) = Some c /\ Sim s c /\
    csteps4 c4_init (rev (s_tr s1)) =
      Some {| c_live := c_live c; c_used := c_used c; c_lastpoll := c_lastpoll c; c_clock := Some now |} /\
    Sim s1 {| c_live := c_live c; c_used := c_used c; c_lastpoll := c_lastpoll c; c_clock := Some now |}.
Proof.
  intros [c [Hc HS]] H. unfold read_clock in H.
  destruct (sm_env s c HS) as [Hcl Hlast].
  destruct (clocks (s_env s)) as [|x r] eqn:Ec.
  - inversion H; subst now s1. split; [exact Hlast|]. repeat split; try reflexivity.
    exists c. split; [exact Hc|]. split; [exact HS|]. split.
    + simpl. rewrite csteps4_app, Hc. reflexivity.
    + eapply Sim_congr; eauto.
  - inversion H; subst now s1. inversion Hcl; subst. split; [assumption|]. repeat split; try reflexivity.
    exists c. split; [exact Hc|]. split; [exact HS|]. split.
    + simpl. rewrite csteps4_app, Hc. reflexivity.
    + destruct HS. constructor; simpl; auto.
Qed.

(* assembling the relation from the parts the generic lemmas produce *)
Lemma Sim_build s c :
  (NoDup (map g_rid (c_live c)) /\
   (forall g, In g (c_live c) -> In (g_rid g) (c_used c)) /\
   (forall r, In r (c_used c) -> r < next_rid (s_cl s)) /\
   (forall r, In r (cl_live (s_cl s)) <-> exists g, In g (c_live c) /\ g_rid g = r) /\
   (forall v r p, get_var v (vars (s_cl s)) = Some {| h_rid := r; h_kind := HImm p |} ->
       forall g, In g (c_live c) -> g_rid g = r -> g_kind g = KImm p) /\
   (forall v h, get_var v (vars (s_cl s)) = Some h -> h_rid h < next_rid (s_cl s)) /\
   (Forall (fun t => tv_norm t = true) (clocks (s_env s)) /\ tv_norm (lastclock (s_env s)) = true)) ->
  ((forall p q r, nth_error (heads (s_imm s)) p = Some q -> In r q -> live_rid c (r_rid r) (KImm p)) /\
   (forall p q, nth_error (heads (s_imm s)) p = Some q -> NoDup (map r_rid q))) ->
  (NetInv (s_net s) /\
   (forall fd dir rc, field (s_net s) fd dir = Some rc -> live_rid c (r_rid rc) (KNet fd dir)) /\
   (forall g fd dir, In g (c_live c) -> g_kind g = KNet fd dir ->
       exists rc, field (s_net s) fd dir = Some rc /\ r_rid rc = g_rid g) /\
   (forall fd dir rc g, rb_dir (rev_at (s_net s) fd) dir = true ->
       field (s_net s) fd dir = Some rc -> In g (c_live c) -> g_rid g = r_rid rc ->
       g_ready g = true \/ errhup_for fd (c_lastpoll c) = true) /\
   (forall fd, rb_errhup (rev_at (s_net s) fd) = true -> errhup_for fd (c_lastpoll c) = true)) ->
  ((forall x, In x (heap (s_tmr s)) ->
      exists g, In g (c_live c) /\ g_rid g = r_rid (t_rec x) /\ g_kind g = KTimer (t_orig x) /\
                g_due g = us (t_deadline x) /\ tv_norm (t_deadline x) = true /\ tv_norm (t_orig x) = true) /\
   NoDup (map (fun x => r_rid (t_rec x)) (heap (s_tmr s)))) ->
  Sim s c.
Proof.
  intros [A1 [A2 [A3 [A4 [A5 [A6 A7]]]]]] [B1 B2] [C1 [C2 [C3 [C4 C5]]]] [D1 D2].
  constructor; assumption.
Qed.

(* what the checker does with the events the model emits *)
Lemma cstep4_reg_imm c r p :
  EventsSpec.mem_nat r (c_used c) = false ->
  cstep4 c (ERegister r (KImm p)) =
  Some {| c_live := {| g_rid := r; g_kind := KImm p; g_ready := false; g_due := 0%N |} :: c_live c;
          c_used := r :: c_used c; c_lastpoll := c_lastpoll c; c_clock := c_clock c |}.
Proof. intros H. unfold cstep4. rewrite H. reflexivity. Qed.

Lemma cstep4_reg_net c r fd dir :
  EventsSpec.mem_nat r (c_used c) = false -> net_live fd dir (c_live c) = false ->
  cstep4 c (ERegister r (KNet fd dir)) =
  Some {| c_live := {| g_rid := r; g_kind := KNet fd dir; g_ready := false; g_due := 0%N |} :: c_live c;
          c_used := r :: c_used c; c_lastpoll := c_lastpoll c; c_clock := c_clock c |}.
Proof. intros H1 H2. unfold cstep4. rewrite H1, H2. reflexivity. Qed.

Lemma cstep4_reg_timer c r t now :
  EventsSpec.mem_nat r (c_used c) = false -> c_clock c = Some now ->
  cstep4 c (ERegister r (KTimer t)) =
  Some {| c_live := {| g_rid := r; g_kind := KTimer t; g_ready := false; g_due := (us now + us t)%N |} :: c_live c;
          c_used := r :: c_used c; c_lastpoll := c_lastpoll c; c_clock := c_clock c |}.
Proof. intros H1 H2. unfold cstep4. rewrite H1, H2. reflexivity. Qed.

Lemma cstep4_cancel c r g :
  find_reg r (c_live c) = Some g ->
  cstep4 c (ECancel r) =
  Some {| c_live := remove_reg r (c_live c); c_used := c_used c; c_lastpoll := c_lastpoll c;
          c_clock := c_clock c |}.
Proof. intros H. unfold cstep4. rewrite H. reflexivity. Qed.

Lemma cstep4_invoke c r g :
  find_reg r (c_live c) = Some g ->
  (match g_kind g with
   | KImm _ => true
   | KNet fd dir => g_ready g || errhup_for fd (c_lastpoll c)
   | KTimer _ => match c_clock c with Some now => (g_due g <=? us now)%N | None => false end
   end) = true ->
  cstep4 c (EInvoke r) =
  Some {| c_live := remove_reg r (c_live c); c_used := c_used c; c_lastpoll := c_lastpoll c;
          c_clock := c_clock c |}.
Proof. intros H1 H2. unfold cstep4. rewrite H1, H2. reflexivity. Qed.

(* ================================================================ immediates *)
Lemma good_imm_reg s cb prio var s' :
  Good s -> exec_op (OImmReg cb prio var 0) s = Ok s' -> Good s'.
Proof.
  intros [c [Hc HS]] H. unfold exec_op in H. cbn [Nat.eqb negb] in H.
  destruct (prio <? PRIO_LIMIT) eqn:Eprio; [|discriminate].
  destruct (imm_register cb prio (next_rid (s_cl s)) (s_imm s)) as [im| | |] eqn:Ei; cbn [bind] in H; try discriminate.
  inversion H; subst s'. clear H.
  unfold imm_register in Ei. rewrite Eprio in Ei.
  destruct (rdn (heads (s_imm s)) prio) as [q| | |] eqn:Eq; cbn [bind] in Ei; try discriminate.
  apply rdn_ok in Eq. inversion Ei; subst im. clear Ei.
  set (rid := next_rid (s_cl s)) in *.
  eapply Good_emit; [exact Hc | | reflexivity |].
  { apply cstep4_reg_imm. apply (sim_next_unused s c HS). }
  apply Sim_build.
  - eapply (add_common s _ c (KImm prio) 0%N HS (Some (var, HImm prio))); try reflexivity.
    intros v p E. inversion E. reflexivity.
  - (* the queue that received the record *)
    simpl. split.
    + intros p q0 r Hq0 Hr. apply nth_error_upd_nth in Hq0. destruct Hq0 as [[<- [-> _]] | [Hne Hq0]].
      * apply in_app_or in Hr. destruct Hr as [Hr | [<- | []]].
        -- eapply (live_rid_cons c); [reflexivity|]. eapply (sm_imm s c HS); eauto.
        -- eexists. split; [left; reflexivity|]. split; reflexivity.
      * eapply (live_rid_cons c); [reflexivity|]. eapply (sm_imm s c HS); eauto.
    + intros p q0 Hq0. apply nth_error_upd_nth in Hq0. destruct Hq0 as [[<- [-> _]] | [Hne Hq0]].
      * rewrite map_app. simpl. apply nodup_snoc; [eapply (sm_imm_nodup s c HS); eauto|].
        intros X. apply in_map_iff in X. destruct X as [r [Er Hr]].
        pose proof (sim_rid_lt s c _ _ HS (sm_imm s c HS prio q r Eq Hr)) as L. rewrite Er in L. unfold rid in L. lia.
      * eapply (sm_imm_nodup s c HS); eauto.
  - apply (add_frame_net s _ c (KImm prio) 0%N HS None); [intros v p X; discriminate X | reflexivity | reflexivity].
  - apply (add_frame_tmr s _ c (KImm prio) 0%N HS); reflexivity.
Qed.

Lemma cl_live_find s c r :
  Sim s c -> In r (cl_live (s_cl s)) -> exists g, In g (c_live c) /\ g_rid g = r /\ find_reg r (c_live c) = Some g.
Proof.
  intros HS Hr. apply (sm_cl s c HS) in Hr. destruct Hr as [g [A B]]. exists g. split; [exact A|]. split; [exact B|].
  rewrite <- B. apply find_reg_in; [apply (sm_nodup s c HS) | exact A].
Qed.

Lemma good_imm_cancel s var s' :
  Good s -> exec_op (OImmCancel var) s = Ok s' -> Good s'.
Proof.
  intros HG H. unfold exec_op in H.
  destruct (get_var var (vars (s_cl s))) as [[r [prio|]]|] eqn:Ev; try (inversion H; subst; exact HG).
  destruct (EventsModel.mem_nat r (cl_live (s_cl s))) eqn:Em; [|inversion H; subst; exact HG].
  destruct HG as [c [Hc HS]].
  apply model_mem_nat in Em.
  destruct (cl_live_find s c r HS Em) as [g [Hg [Er Hfind]]].
  assert (Hkind : g_kind g = KImm prio) by (eapply (sm_vars s c HS); eauto).
  assert (Hlr : live_rid c r (KImm prio)) by (exists g; auto).
  destruct (imm_cancel r prio (s_imm s)) as [im| | |] eqn:Ei; cbn [bind] in H; try discriminate.
  inversion H; subst s'. clear H.
  unfold imm_cancel in Ei.
  destruct (rdn (heads (s_imm s)) prio) as [q| | |] eqn:Eq; cbn [bind] in Ei; try discriminate.
  apply rdn_ok in Eq. inversion Ei; subst im. clear Ei.
  eapply Good_emit; [exact Hc | eapply cstep4_cancel; eauto | reflexivity |].
  apply Sim_build.
  - apply (rm_common s _ c r HS); reflexivity.
  - simpl. split.
    + intros p q0 x Hq0 Hx. apply nth_error_upd_nth in Hq0. destruct Hq0 as [[<- [-> _]] | [Hne Hq0]].
      * apply filter_In in Hx. destruct Hx as [Hx Hnr]. unfold rid_neqb in Hnr.
        apply negb_true_iff, Nat.eqb_neq in Hnr.
        eapply (live_rid_remove c); [reflexivity | exact Hnr |]. eapply (sm_imm s c HS); eauto.
      * pose proof (sm_imm s c HS p q0 x Hq0 Hx) as L.
        eapply (live_rid_remove c); [reflexivity | | exact L].
        apply (rm_other_kind s c r (KImm prio) HS Hlr _ (KImm p) L). congruence.
    + intros p q0 Hq0. apply nth_error_upd_nth in Hq0. destruct Hq0 as [[<- [-> _]] | [Hne Hq0]].
      * apply nodup_map_filter. eapply (sm_imm_nodup s c HS); eauto.
      * eapply (sm_imm_nodup s c HS); eauto.
  - apply (rm_frame_net s _ c r (KImm prio) HS Hlr); reflexivity.
  - apply (rm_frame_tmr s _ c r (KImm prio) HS Hlr); reflexivity.
Qed.

(* events_immediate_get followed by the entry of the callback *)
Definition fire_cl (r : rec) (s : st) : st :=
  let c := s_cl s in
  set_cl s {| vars := vars c; cl_live := remove_nat (r_rid r) (cl_live c); runs := r_cb r :: runs c;
              cl_done := cl_done c; next_rid := next_rid c |}.

Lemma imm_get_some im r im' :
  imm_get im = Ok (Some r, im') ->
  exists m q, nth_error (heads im) m = Some (r :: q) /\ heads im' = upd_nth m q (heads im).
Proof.
  unfold imm_get. set (m := imm_advance (heads im) (minq im) (S ADV_LIMIT)).
  destruct (m =? EMPTY_MARK); [discriminate|].
  destruct (rdn (heads im) m) as [q| | |] eqn:Eq; cbn [bind]; try discriminate.
  destruct q as [|r0 q]; [discriminate|]. intros H. inversion H; subst. apply rdn_ok in Eq.
  exists m, q. auto.
Qed.

Lemma imm_get_none im im' : imm_get im = Ok (None, im') -> heads im' = heads im.
Proof.
  unfold imm_get. set (m := imm_advance (heads im) (minq im) (S ADV_LIMIT)).
  destruct (m =? EMPTY_MARK); [intros H; inversion H; reflexivity|].
  destruct (rdn (heads im) m) as [q| | |]; cbn [bind]; try discriminate.
  destruct q; discriminate.
Qed.

Lemma good_imm_get_none s s1 : Good s -> imm_get_s s = Ok (None, s1) -> Good s1.
Proof.
  intros [c [Hc HS]] H. unfold imm_get_s in H.
  destruct (imm_get (s_imm s)) as [[ro im]| | |] eqn:E; cbn [bind] in H; try discriminate.
  inversion H; subst ro s1. apply imm_get_none in E.
  exists c. split; [exact Hc|]. destruct HS. constructor; simpl; unfold live_rid in *; rewrite ?E; auto.
Qed.

Lemma good_imm_get_some s r s1 :
  Good s -> imm_get_s s = Ok (Some r, s1) -> Good (emit (EInvoke (r_rid r)) (fire_cl r s1)).
Proof.
  intros [c [Hc HS]] H. unfold imm_get_s in H.
  destruct (imm_get (s_imm s)) as [[ro im]| | |] eqn:E; cbn [bind] in H; try discriminate.
  inversion H; subst ro s1. apply imm_get_some in E. destruct E as [m [q [Hm Hheads]]].
  assert (Hlr : live_rid c (r_rid r) (KImm m)) by (eapply (sm_imm s c HS); [exact Hm | left; reflexivity]).
  destruct Hlr as [g [Hg [Er Hk]]].
  assert (Hfind : find_reg (r_rid r) (c_live c) = Some g).
  { rewrite <- Er. apply find_reg_in; [apply (sm_nodup s c HS) | exact Hg]. }
  assert (Hlr : live_rid c (r_rid r) (KImm m)) by (exists g; auto).
  eapply Good_emit; [exact Hc | eapply cstep4_invoke; [exact Hfind | rewrite Hk; reflexivity] | reflexivity |].
  pose proof (sm_imm_nodup s c HS m (r :: q) Hm) as Hnd. simpl in Hnd. inversion Hnd as [|? ? Hnotin Hndq]. subst.
  apply Sim_build.
  - apply (rm_common s _ c (r_rid r) HS); reflexivity.
  - simpl. rewrite Hheads. split.
    + intros p q0 x Hq0 Hx. apply nth_error_upd_nth in Hq0. destruct Hq0 as [[<- [-> _]] | [Hne Hq0]].
      * eapply (live_rid_remove c); [reflexivity | | eapply (sm_imm s c HS); [exact Hm | right; exact Hx]].
        intros E. apply Hnotin. rewrite <- E. apply in_map. exact Hx.
      * pose proof (sm_imm s c HS p q0 x Hq0 Hx) as L.
        eapply (live_rid_remove c); [reflexivity | | exact L].
        apply (rm_other_kind s c (r_rid r) (KImm m) HS Hlr _ (KImm p) L). congruence.
    + intros p q0 Hq0. apply nth_error_upd_nth in Hq0. destruct Hq0 as [[<- [-> _]] | [Hne Hq0]].
      * exact Hndq.
      * eapply (sm_imm_nodup s c HS); eauto.
  - apply (rm_frame_net s _ c (r_rid r) (KImm m) HS Hlr); reflexivity.
  - apply (rm_frame_tmr s _ c (r_rid r) (KImm m) HS Hlr); reflexivity.
Qed.

Lemma Sim_emit s c e : Sim s c -> Sim (emit e s) c.
Proof. intros HS. eapply Sim_congr; eauto. Qed.

(* ================================================================ descriptors *)
(* the network part of the relation only reads the per-descriptor views *)
Lemma sim_net_views s c n' :
  Sim s c -> NetInv n' ->
  (forall f d, field n' f d = field (s_net s) f d) ->
  (forall f, rev_at n' f = rev_at (s_net s) f) ->
  Sim (set_net s n') c.
Proof.
  intros HS HI Hf Hr. destruct HS. constructor; simpl; auto.
  - intros fd dir rc. rewrite Hf. auto.
  - intros g fd dir Hg Hk. rewrite Hf. eauto.
  - intros fd dir rc g. rewrite Hf, Hr. eauto.
  - intros fd. rewrite Hr. auto.
Qed.

Lemma net_live_false_iff fd dir l :
  net_live fd dir l = false <-> forall g, In g l -> g_kind g <> KNet fd dir.
Proof.
  split.
  - intros H g Hg Hk. assert (net_live fd dir l = true) by (apply net_live_true; exists g; auto). congruence.
  - intros H. destruct (net_live fd dir l) eqn:E; [|reflexivity].
    apply net_live_true in E. destruct E as [g [A B]]. exfalso. exact (H g A B).
Qed.

Lemma good_net_reg s cb fd opn s' :
  Good s -> exec_op (ONetReg cb fd opn 0) s = Ok s' -> Good s'.
Proof.
  intros [c [Hc HS]] H. unfold exec_op in H. cbn [Nat.eqb negb] in H.
  destruct (net_register cb fd opn (next_rid (s_cl s)) (s_net s)) as [[e n]| | |] eqn:En; cbn [bind] in H; try discriminate.
  destruct (net_register_spec cb fd opn _ (s_net s) e n (sm_net s c HS) En) as [HIn [Hinit Hspec]].
  destruct e as [err|].
  - (* the call failed *)
    destruct Hspec as [Hf [Hr Hex]]. inversion H; subst s'. clear H.
    assert (Hstep : cstep4 c (ERegFailNet fd opn err) = Some c).
    { destruct err; try reflexivity. destruct (Hex eq_refl) as [dir [rc [Hfd [Hop Hfield]]]].
      unfold cstep4, net_slot_live. apply Z.leb_le in Hfd. rewrite Hfd, Hop.
      destruct (sm_net1 s c HS _ _ _ Hfield) as [g [A [B C]]].
      assert (net_live (Z.to_nat fd) dir (c_live c) = true) by (apply net_live_true; exists g; auto).
      rewrite H. reflexivity. }
    eapply Good_emit; [exact Hc | exact Hstep | reflexivity |].
    apply Sim_emit. apply sim_net_views; auto.
  - (* a new registration *)
    destruct Hspec as [dir [Hfd [Hop [Hnone [Hf Hr]]]]].
    rewrite Hop in H. inversion H; subst s'. clear H.
    set (rid := next_rid (s_cl s)) in *. set (fdn := Z.to_nat fd) in *.
    assert (Hnl : net_live fdn dir (c_live c) = false).
    { apply net_live_false_iff. intros g Hg Hk. destruct (sm_net2 s c HS g fdn dir Hg Hk) as [rc [A B]]. congruence. }
    eapply Good_emit; [exact Hc | apply cstep4_reg_net; [apply (sim_next_unused s c HS) | exact Hnl] | reflexivity |].
    apply Sim_build.
    + eapply (add_common s _ c (KNet fdn dir) 0%N HS None); try reflexivity. intros v p X. discriminate X.
    + apply (add_frame_imm s _ c (KNet fdn dir) 0%N HS). reflexivity.
    + simpl. split; [exact HIn|]. split; [|split; [|split]].
      * intros f d rc Hfield. rewrite Hf in Hfield.
        destruct (Nat.eqb f fdn && Bool.eqb d dir) eqn:E.
        -- apply andb_true_iff in E. destruct E as [E1 E2]. apply Nat.eqb_eq in E1. apply eqb_prop in E2. subst f d.
           inversion Hfield; subst rc. eexists. split; [left; reflexivity|]. split; reflexivity.
        -- eapply (live_rid_cons c); [reflexivity|]. eapply (sm_net1 s c HS); eauto.
      * intros g f d [<- | Hg] Hk.
        -- simpl in Hk. inversion Hk; subst f d. exists (the_rec cb rid). rewrite Hf.
           rewrite Nat.eqb_refl, eqb_reflx. simpl. split; reflexivity.
        -- destruct (sm_net2 s c HS g f d Hg Hk) as [rc [A B]]. exists rc. split; [|exact B].
           rewrite Hf. destruct (Nat.eqb f fdn && Bool.eqb d dir) eqn:E; [|exact A].
           apply andb_true_iff in E. destruct E as [E1 E2]. apply Nat.eqb_eq in E1. apply eqb_prop in E2. subst f d.
           congruence.
      * intros f d rc g Hrv Hfield Hg Er. rewrite Hr in Hrv. rewrite Hf in Hfield.
        destruct (Nat.eqb f fdn && Bool.eqb d dir) eqn:E.
        -- exfalso. apply andb_true_iff in E. destruct E as [E1 E2]. apply Nat.eqb_eq in E1. apply eqb_prop in E2. subst f d.
           apply (rev_at_field (s_net s) fdn dir (sm_net s c HS) Hrv). exact Hnone.
        -- destruct Hg as [<- | Hg].
           ++ exfalso. simpl in Er. pose proof (sim_rid_lt s c _ _ HS (sm_net1 s c HS f d rc Hfield)) as L.
              rewrite <- Er in L. unfold rid in L. lia.
           ++ eapply (sm_net3 s c HS); eauto.
      * intros f Hrv. rewrite Hr in Hrv. apply (sm_net4 s c HS). exact Hrv.
    + apply (add_frame_tmr s _ c (KNet fdn dir) 0%N HS). reflexivity.
Qed.

(* the network clauses after the registration in field (s0, dir0) has been removed *)
Lemma sim_net_removed s c n' s0 dir0 rc :
  Sim s c -> NetInv n' ->
  field (s_net s) s0 dir0 = Some rc ->
  (forall f d, field n' f d = if Nat.eqb f s0 && Bool.eqb d dir0 then None else field (s_net s) f d) ->
  get_rel (s_net s) n' ->
  let c' := {| c_live := remove_reg (r_rid rc) (c_live c); c_used := c_used c; c_lastpoll := c_lastpoll c;
               c_clock := c_clock c |} in
  NetInv n' /\
  (forall fd dir rc', field n' fd dir = Some rc' -> live_rid c' (r_rid rc') (KNet fd dir)) /\
  (forall g fd dir, In g (c_live c') -> g_kind g = KNet fd dir ->
      exists rc', field n' fd dir = Some rc' /\ r_rid rc' = g_rid g) /\
  (forall fd dir rc' g, rb_dir (rev_at n' fd) dir = true ->
      field n' fd dir = Some rc' -> In g (c_live c') -> g_rid g = r_rid rc' ->
      g_ready g = true \/ errhup_for fd (c_lastpoll c') = true) /\
  (forall fd, rb_errhup (rev_at n' fd) = true -> errhup_for fd (c_lastpoll c') = true).
Proof.
  intros HS HI Hrc Hf [G1 G2] c'.
  pose proof (sm_net1 s c HS s0 dir0 rc Hrc) as Hlr.
  assert (Hsplit : forall f d rc', field n' f d = Some rc' ->
            field (s_net s) f d = Some rc' /\ ~ (f = s0 /\ d = dir0)).
  { intros f d rc' H. rewrite Hf in H. destruct (Nat.eqb f s0 && Bool.eqb d dir0) eqn:E; [discriminate|].
    split; [exact H|]. intros [-> ->]. rewrite Nat.eqb_refl, eqb_reflx in E. discriminate. }
  split; [exact HI|]. split; [|split; [|split]].
  - intros f d rc' H. destruct (Hsplit f d rc' H) as [Hold Hne].
    pose proof (sm_net1 s c HS f d rc' Hold) as L.
    eapply (live_rid_remove c); [reflexivity | | exact L].
    apply (rm_other_kind s c (r_rid rc) (KNet s0 dir0) HS Hlr _ (KNet f d) L).
    intros X. inversion X; subst. apply Hne. auto.
  - intros g f d Hg Hk. apply in_remove_reg in Hg. destruct Hg as [Hg Hne].
    destruct (sm_net2 s c HS g f d Hg Hk) as [rc' [A B]]. exists rc'. split; [|exact B].
    rewrite Hf. destruct (Nat.eqb f s0 && Bool.eqb d dir0) eqn:E; [|exact A].
    exfalso. apply andb_true_iff in E. destruct E as [E1 E2]. apply Nat.eqb_eq in E1. apply eqb_prop in E2. subst f d.
    apply Hne. rewrite <- B. congruence.
  - intros f d rc' g Hrv H Hg Er. destruct (Hsplit f d rc' H) as [Hold Hne].
    apply in_remove_reg in Hg. destruct Hg as [Hg _]. simpl.
    destruct (G1 f d Hrv) as [Hb | He].
    + eapply (sm_net3 s c HS); eauto.
    + right. apply (sm_net4 s c HS). exact He.
  - intros f Hrv. simpl. apply (sm_net4 s c HS). apply G2. exact Hrv.
Qed.

Lemma rev_shrinks_get_rel n n' s0 d0 : rev_shrinks n n' s0 d0 -> get_rel n n'.
Proof.
  intros [A B]. split; [|exact B]. intros f d H. left. apply (A f d H).
Qed.

Lemma good_net_cancel s fd opn s' :
  Good s -> exec_op (ONetCancel fd opn) s = Ok s' -> Good s'.
Proof.
  intros [c [Hc HS]] H. unfold exec_op in H.
  destruct (net_cancel fd opn (s_net s)) as [[x n]| | |] eqn:En; cbn [bind] in H; try discriminate.
  destruct (net_cancel_spec fd opn (s_net s) x n (sm_net s c HS) En) as [HIn [Hinit Hspec]].
  destruct x as [rc | err].
  - destruct Hspec as [dir [Hfd [Hop [Hrc [Hf Hsh]]]]]. inversion H; subst s'. clear H.
    pose proof (sm_net1 s c HS _ _ _ Hrc) as Hlr. destruct Hlr as [g [Hg [Er Hk]]].
    assert (Hfind : find_reg (r_rid rc) (c_live c) = Some g).
    { rewrite <- Er. apply find_reg_in; [apply (sm_nodup s c HS) | exact Hg]. }
    assert (Hlr : live_rid c (r_rid rc) (KNet (Z.to_nat fd) dir)) by (exists g; auto).
    eapply Good_emit; [exact Hc | eapply cstep4_cancel; eauto | reflexivity |].
    apply Sim_build.
    + apply (rm_common s _ c (r_rid rc) HS); reflexivity.
    + apply (rm_frame_imm s _ c (r_rid rc) _ HS Hlr); reflexivity.
    + apply (sim_net_removed s c n (Z.to_nat fd) dir rc HS HIn Hrc Hf). eapply rev_shrinks_get_rel; eauto.
    + apply (rm_frame_tmr s _ c (r_rid rc) _ HS Hlr); reflexivity.
  - destruct Hspec as [Hf [Hr Hnone]]. inversion H; subst s'. clear H.
    assert (Hstep : cstep4 c (ECancelFail fd opn err) = Some c).
    { unfold cstep4, net_slot_live. destruct (0 <=? fd)%Z eqn:E0; [|reflexivity].
      destruct (op_dir opn) as [d|] eqn:Eop; [|reflexivity].
      apply Z.leb_le in E0.
      assert (net_live (Z.to_nat fd) d (c_live c) = false).
      { apply net_live_false_iff. intros g Hg Hk. destruct (sm_net2 s c HS g _ _ Hg Hk) as [rc [A B]].
        rewrite (Hnone d E0 eq_refl) in A. discriminate. }
      rewrite H. reflexivity. }
    eapply Good_emit; [exact Hc | exact Hstep | reflexivity |].
    apply Sim_emit. apply sim_net_views; auto.
Qed.

(* events_network_get *)
Lemma good_net_get_none s s1 : Good s -> net_get_s s = Ok (None, s1) -> Good s1.
Proof.
  intros [c [Hc HS]] H. unfold net_get_s in H.
  destruct (net_get (s_net s)) as [[ro n]| | |] eqn:E; cbn [bind] in H; try discriminate.
  inversion H; subst ro s1.
  destruct (net_get_spec (s_net s) None n (sm_net s c HS) E) as [HIn [[G1 G2] Hres]]. simpl in Hres.
  exists c. split; [exact Hc|].
  apply Sim_build.
  - exact (conj (sm_nodup _ _ HS) (conj (sm_used _ _ HS) (conj (sm_fresh _ _ HS) (conj (sm_cl _ _ HS)
      (conj (sm_vars _ _ HS) (conj (sm_vars_fresh _ _ HS) (sm_env _ _ HS))))))).
  - exact (conj (sm_imm _ _ HS) (sm_imm_nodup _ _ HS)).
  - simpl. split; [exact HIn|]. split; [|split; [|split]].
    + intros fd dir rc. rewrite Hres. apply (sm_net1 s c HS).
    + intros g fd dir Hg Hk. rewrite Hres. eapply (sm_net2 s c HS); eauto.
    + intros fd dir rc g Hrv Hfield Hg Er. rewrite Hres in Hfield. destruct (G1 fd dir Hrv) as [Hb | He].
      * eapply (sm_net3 s c HS); eauto.
      * right. apply (sm_net4 s c HS). exact He.
    + intros fd Hrv. apply (sm_net4 s c HS). apply G2. exact Hrv.
  - exact (conj (sm_tmr _ _ HS) (sm_tmr_nodup _ _ HS)).
Qed.

Lemma good_net_get_some s r s1 :
  Good s -> net_get_s s = Ok (Some r, s1) ->
  Good (emit (EInvoke (r_rid r)) (fire_cl r s1)).
Proof.
  intros [c [Hc HS]] H. unfold net_get_s in H.
  destruct (net_get (s_net s)) as [[ro n]| | |] eqn:E; cbn [bind] in H; try discriminate.
  inversion H; subst ro s1.
  destruct (net_get_spec (s_net s) (Some r) n (sm_net s c HS) E) as [HIn [Hrel Hres]].
  destruct Hres as [s0 [dir [Hrc [Hf Hjust]]]].
  pose proof (sm_net1 s c HS _ _ _ Hrc) as Hlr. destruct Hlr as [g [Hg [Er Hk]]].
  assert (Hfind : find_reg (r_rid r) (c_live c) = Some g).
  { rewrite <- Er. apply find_reg_in; [apply (sm_nodup s c HS) | exact Hg]. }
  assert (Hlr : live_rid c (r_rid r) (KNet s0 dir)) by (exists g; auto).
  assert (Hok : g_ready g || errhup_for s0 (c_lastpoll c) = true).
  { apply orb_true_iff. destruct Hjust as [Hb | He].
    - eapply (sm_net3 s c HS); eauto.
    - right. apply (sm_net4 s c HS). exact He. }
  eapply Good_emit; [exact Hc | eapply cstep4_invoke; [exact Hfind | rewrite Hk; exact Hok] | reflexivity |].
  apply Sim_build.
  - apply (rm_common s _ c (r_rid r) HS); reflexivity.
  - apply (rm_frame_imm s _ c (r_rid r) _ HS Hlr); reflexivity.
  - apply (sim_net_removed s c n s0 dir r HS HIn Hrc Hf Hrel).
  - apply (rm_frame_tmr s _ c (r_rid r) _ HS Hlr); reflexivity.
Qed.

(* ---------------------------------------------------------------- the generic "the checker
   rewrote its live entries in place" step (a poll marks entries ready, a reset moves a
   deadline): ids and kinds are unchanged *)
Section MapLive.
  Variables (s s' : st) (c : c4) (f : reg -> reg) (lp : list (nat * rbits)) (clk : option tv).
  Hypothesis HS : Sim s c.
  Hypothesis Hf : forall g, g_rid (f g) = g_rid g /\ g_kind (f g) = g_kind g.
  Let c' := {| c_live := map f (c_live c); c_used := c_used c; c_lastpoll := lp; c_clock := clk |}.
  Hypothesis Hcl : s_cl s' = s_cl s.
  Hypothesis Hclocks : clocks (s_env s') = clocks (s_env s).
  Hypothesis Hlastclock : lastclock (s_env s') = lastclock (s_env s).

  Lemma map_in g' : In g' (c_live c') -> exists g, In g (c_live c) /\ g' = f g.
  Proof. simpl. intros H. apply in_map_iff in H. destruct H as [g [A B]]. exists g. auto. Qed.

  Lemma map_live_rid r k : live_rid c r k -> live_rid c' r k.
  Proof.
    intros [g [A [B C]]]. exists (f g). split; [simpl; apply in_map; exact A|].
    destruct (Hf g) as [X Y]. split; congruence.
  Qed.

  Lemma map_common :
    NoDup (map g_rid (c_live c')) /\
    (forall g, In g (c_live c') -> In (g_rid g) (c_used c')) /\
    (forall r, In r (c_used c') -> r < next_rid (s_cl s')) /\
    (forall r, In r (cl_live (s_cl s')) <-> exists g, In g (c_live c') /\ g_rid g = r) /\
    (forall v r p, get_var v (vars (s_cl s')) = Some {| h_rid := r; h_kind := HImm p |} ->
        forall g, In g (c_live c') -> g_rid g = r -> g_kind g = KImm p) /\
    (forall v h, get_var v (vars (s_cl s')) = Some h -> h_rid h < next_rid (s_cl s')) /\
    (Forall (fun t => tv_norm t = true) (clocks (s_env s')) /\ tv_norm (lastclock (s_env s')) = true).
  Proof.
    rewrite Hcl, Hclocks, Hlastclock.
    refine (conj _ (conj _ (conj _ (conj _ (conj _ (conj _ _)))))).
    - simpl. rewrite map_map. rewrite (map_ext (fun g => g_rid (f g)) g_rid); [apply (sm_nodup s c HS)|].
      intros g. apply Hf.
    - intros g' Hg'. apply map_in in Hg'. destruct Hg' as [g [A ->]]. destruct (Hf g) as [X _]. rewrite X.
      apply (sm_used s c HS). exact A.
    - apply (sm_fresh s c HS).
    - intros r. rewrite (sm_cl s c HS r). split.
      + intros [g [A B]]. exists (f g). split; [simpl; apply in_map; exact A|]. destruct (Hf g). congruence.
      + intros [g' [Hg' B]]. apply map_in in Hg'. destruct Hg' as [g [A ->]]. exists g. destruct (Hf g). split; congruence.
    - intros v r p Hv g' Hg' Er. apply map_in in Hg'. destruct Hg' as [g [A ->]]. destruct (Hf g) as [X Y].
      rewrite Y. eapply (sm_vars s c HS); eauto. congruence.
    - apply (sm_vars_fresh s c HS).
    - apply (sm_env s c HS).
  Qed.

  Lemma map_frame_imm :
    s_imm s' = s_imm s ->
    (forall p q r, nth_error (heads (s_imm s')) p = Some q -> In r q -> live_rid c' (r_rid r) (KImm p)) /\
    (forall p q, nth_error (heads (s_imm s')) p = Some q -> NoDup (map r_rid q)).
  Proof.
    intros E. rewrite E. split; [|apply (sm_imm_nodup s c HS)].
    intros p q r Hq Hr. apply map_live_rid. eapply (sm_imm s c HS); eauto.
  Qed.

  Lemma map_frame_tmr :
    s_tmr s' = s_tmr s -> (forall g, g_due (f g) = g_due g) ->
    (forall x, In x (heap (s_tmr s')) ->
      exists g, In g (c_live c') /\ g_rid g = r_rid (t_rec x) /\ g_kind g = KTimer (t_orig x) /\
                g_due g = us (t_deadline x) /\ tv_norm (t_deadline x) = true /\ tv_norm (t_orig x) = true) /\
    NoDup (map (fun x => r_rid (t_rec x)) (heap (s_tmr s'))).
  Proof.
    intros E Hdue. rewrite E. split; [|apply (sm_tmr_nodup s c HS)].
    intros x Hx. destruct (sm_tmr s c HS x Hx) as [g [A [B [C [D F]]]]]. exists (f g).
    split; [simpl; apply in_map; exact A|]. destruct (Hf g) as [X Y]. rewrite X, Y, Hdue. auto.
  Qed.

  (* the network clauses when the descriptors were not touched and readiness marks only grow *)
  Lemma map_frame_net :
    s_net s' = s_net s -> lp = c_lastpoll c -> (forall g, g_ready g = true -> g_ready (f g) = true) ->
    NetInv (s_net s') /\
    (forall fd dir rc, field (s_net s') fd dir = Some rc -> live_rid c' (r_rid rc) (KNet fd dir)) /\
    (forall g fd dir, In g (c_live c') -> g_kind g = KNet fd dir ->
        exists rc, field (s_net s') fd dir = Some rc /\ r_rid rc = g_rid g) /\
    (forall fd dir rc g, rb_dir (rev_at (s_net s') fd) dir = true ->
        field (s_net s') fd dir = Some rc -> In g (c_live c') -> g_rid g = r_rid rc ->
        g_ready g = true \/ errhup_for fd (c_lastpoll c') = true) /\
    (forall fd, rb_errhup (rev_at (s_net s') fd) = true -> errhup_for fd (c_lastpoll c') = true).
  Proof.
    intros E Hlp Hready. rewrite E. split; [apply (sm_net s c HS)|]. split; [|split; [|split]].
    - intros fd dir rc H. apply map_live_rid. eapply (sm_net1 s c HS); eauto.
    - intros g' fd dir Hg' Hk. apply map_in in Hg'. destruct Hg' as [g [A ->]]. destruct (Hf g) as [X Y].
      rewrite X. eapply (sm_net2 s c HS); eauto. congruence.
    - intros fd dir rc g' Hrv H Hg' Er. apply map_in in Hg'. destruct Hg' as [g [A ->]]. destruct (Hf g) as [X Y].
      simpl. rewrite Hlp. destruct (sm_net3 s c HS fd dir rc g Hrv H A) as [R | R]; [congruence | left; auto | right; exact R].
    - intros fd Hrv. simpl. rewrite Hlp. apply (sm_net4 s c HS). exact Hrv.
  Qed.
End MapLive.

Lemma Good_emit2 s X e c c' :
  csteps4 c4_init (rev (s_tr s)) = Some c -> s_tr X = s_tr s -> cstep4 c e = Some c' ->
  Sim (emit e X) c' -> Good (emit e X).
Proof.
  intros Hc Htr He HS. eapply Good_emit; eauto. simpl. rewrite Htr. reflexivity.
Qed.

(* ---------------------------------------------------------------- poll *)
Lemma mark_ready_due l g : g_due (mark_ready l g) = g_due g.
Proof. unfold mark_ready. destruct (g_kind g); auto. destruct (answers fd dir l); auto. Qed.

Lemma mark_ready_set l g fd dir :
  g_kind g = KNet fd dir -> answers fd dir l = true -> g_ready (mark_ready l g) = true.
Proof. intros Hk Ha. unfold mark_ready. rewrite Hk, Ha. reflexivity. Qed.

Lemma good_poll_ready s timeout raw rest :
  Good s ->
  Good (emit (EPoll timeout (fdset_of (fds (s_net s)))
                (PReady (answer_of (map (apply_poll raw) (fds (s_net s))))))
          (set_polls (net_set_fds s (map (apply_poll raw) (fds (s_net s)))) rest)).
Proof.
  intros [c [Hc HS]].
  set (n := s_net s). set (f' := map (apply_poll raw) (fds n)). set (l := answer_of f').
  set (n' := net_with n (socks n) f').
  assert (HIn' : NetInv n') by (apply map_rev_inv; [apply (sm_net s c HS) | apply apply_poll_rev_only]).
  apply (Good_emit2 s _ _ c {| c_live := map (mark_ready l) (c_live c); c_used := c_used c; c_lastpoll := l;
                               c_clock := c_clock c |}); [exact Hc | reflexivity | reflexivity |].
  assert (Hlook : forall fd, rb_is_none (rev_at n' fd) = false -> lookup_fd fd l = Some (rev_at n' fd)).
  { intros fd Hnz. unfold rev_at in *. destruct (slot n' fd) as [p|] eqn:Es; [|discriminate].
    unfold l. change f' with (fds n'). apply answer_lookup; auto. }
  apply Sim_build.
  - apply (map_common s _ c (mark_ready l) l (c_clock c) HS (mark_ready_ids l)); reflexivity.
  - apply (map_frame_imm s _ c (mark_ready l) l (c_clock c) HS (mark_ready_ids l)); reflexivity.
  - simpl. fold n. fold f'. fold n'. split; [exact HIn'|]. split; [|split; [|split]].
    + intros fd dir rc H. apply (map_live_rid c (mark_ready l) l (c_clock c) (mark_ready_ids l)).
      eapply (sm_net1 s c HS); eauto.
    + intros g' fd dir Hg' Hk. apply in_map_iff in Hg'. destruct Hg' as [g [<- A]].
      destruct (mark_ready_ids l g) as [X Y]. rewrite X. eapply (sm_net2 s c HS); eauto. congruence.
    + intros fd dir rc g' Hrv H Hg' Er. left. apply in_map_iff in Hg'. destruct Hg' as [g [<- A]].
      destruct (mark_ready_ids l g) as [X Y]. rewrite X in Er.
      (* g is the entry of this descriptor and direction *)
      destruct (sm_net1 s c HS fd dir rc H) as [g1 [A1 [B1 C1]]].
      assert (g1 = g) by (eapply nodup_rid_eq; [apply (sm_nodup s c HS) | | | ]; eauto; congruence). subst g1.
      apply (mark_ready_set l g fd dir C1). unfold answers.
      rewrite (Hlook fd (rb_dir_nonzero _ _ Hrv)). exact Hrv.
    + intros fd Hrv. unfold errhup_for. rewrite (Hlook fd (rb_errhup_nonzero _ Hrv)). exact Hrv.
  - apply (map_frame_tmr s _ c (mark_ready l) l (c_clock c) HS (mark_ready_ids l)); [reflexivity|].
    apply mark_ready_due.
Qed.

Lemma rev_at_zero n fd : rev_at (net_with n (socks n) (map (pf_set_rev rb_none) (fds n))) fd = rb_none.
Proof.
  unfold rev_at. rewrite map_rev_slot. destruct (slot n fd); reflexivity.
Qed.

Lemma good_poll_eintr s timeout b rest :
  Good s ->
  Good (emit (EPoll timeout (fdset_of (fds (s_net s))) (PEintr b))
          (set_polls (net_set_fds s (map (pf_set_rev rb_none) (fds (s_net s)))) rest)).
Proof.
  intros [c [Hc HS]].
  set (n := s_net s). set (n' := net_with n (socks n) (map (pf_set_rev rb_none) (fds n))).
  assert (HIn' : NetInv n') by (apply map_rev_inv; [apply (sm_net s c HS) | apply zero_rev_only]).
  apply (Good_emit2 s _ _ c {| c_live := c_live c; c_used := c_used c; c_lastpoll := [];
                               c_clock := c_clock c |}); [exact Hc | reflexivity | reflexivity |].
  apply Sim_build.
  - exact (conj (sm_nodup _ _ HS) (conj (sm_used _ _ HS) (conj (sm_fresh _ _ HS) (conj (sm_cl _ _ HS)
      (conj (sm_vars _ _ HS) (conj (sm_vars_fresh _ _ HS) (sm_env _ _ HS))))))).
  - exact (conj (sm_imm _ _ HS) (sm_imm_nodup _ _ HS)).
  - simpl. fold n. fold n'. split; [exact HIn'|]. split; [|split; [|split]].
    + intros fd dir rc H. eapply (sm_net1 s c HS); eauto.
    + intros g fd dir Hg Hk. eapply (sm_net2 s c HS); eauto.
    + intros fd dir rc g Hrv. unfold n' in Hrv. rewrite rev_at_zero in Hrv. destruct dir; discriminate.
    + intros fd Hrv. unfold n' in Hrv. rewrite rev_at_zero in Hrv. discriminate.
  - exact (conj (sm_tmr _ _ HS) (sm_tmr_nodup _ _ HS)).
Qed.

Lemma Good_congr s s' :
  Good s -> s_tr s' = s_tr s ->
  vars (s_cl s') = vars (s_cl s) -> cl_live (s_cl s') = cl_live (s_cl s) ->
  next_rid (s_cl s') = next_rid (s_cl s) ->
  s_imm s' = s_imm s -> s_net s' = s_net s -> s_tmr s' = s_tmr s -> s_env s' = s_env s ->
  Good s'.
Proof.
  intros [c [Hc HS]] E0 E1a E1b E1c E2 E3 E4 E5. exists c. split; [rewrite E0; exact Hc|].
  eapply Sim_congr; eauto.
Qed.

Lemma good_poll_loop timeout pl : forall s, Good s -> Good (poll_loop timeout pl s).
Proof.
  induction pl as [|a rest IH]; intros s HG; cbn [poll_loop].
  - eapply Good_congr; [apply (good_poll_eintr s timeout true []); exact HG | | | | | | | |]; reflexivity.
  - destruct a as [raw | [|]].
    + apply good_poll_ready. exact HG.
    + eapply Good_congr; [apply (good_poll_eintr s timeout true rest); exact HG | | | | | | | |]; reflexivity.
    + destruct (s_intr s).
      * apply good_poll_eintr. exact HG.
      * apply IH. apply good_poll_eintr. exact HG.
Qed.

Lemma poll_loop_inited timeout pl : forall s,
  net_inited (s_net (poll_loop timeout pl s)) = net_inited (s_net s).
Proof.
  induction pl as [|a rest IH]; intros s; cbn [poll_loop]; [reflexivity|].
  destruct a as [raw | [|]]; try reflexivity.
  destruct (s_intr s); [reflexivity|]. rewrite IH. reflexivity.
Qed.

Lemma good_set_net_views s n' :
  Good s -> NetInv n' ->
  (forall f d, field n' f d = field (s_net s) f d) ->
  (forall f, rev_at n' f = rev_at (s_net s) f) ->
  Good (set_net s n').
Proof.
  intros [c [Hc HS]] HI Hf Hr. exists c. split; [exact Hc|]. apply sim_net_views; auto.
Qed.

Lemma good_net_select tvo s : Good s -> Good (net_select tvo s).
Proof.
  intros HG. unfold net_select.
  assert (HG1 : Good (set_net s (net_init (s_net s)))).
  { destruct HG as [c [Hc HS]]. pose proof (sm_net s c HS) as HI.
    apply good_set_net_views; [exists c; auto | apply net_init_inv; exact HI | |].
    - intros f d. apply net_init_field. exact HI.
    - intros f. unfold rev_at. rewrite net_init_slot by exact HI. reflexivity. }
  set (s0 := set_net s (net_init (s_net s))) in *.
  pose proof (good_poll_loop (sel_timeout tvo) (polls (s_env s0)) s0 HG1) as HG2.
  set (s1 := poll_loop (sel_timeout tvo) (polls (s_env s0)) s0) in *.
  destruct HG2 as [c [Hc HS]]. apply good_set_net_views; [exists c; auto | | |].
  - pose proof (sm_net s1 c HS) as HI. destruct HI. constructor; simpl; auto.
  - intros f d. reflexivity.
  - intros f. reflexivity.
Qed.

(* ================================================================ timers *)
Lemma cstep4_reset c r g now :
  find_reg r (c_live c) = Some g -> c_clock c = Some now -> is_timer (g_kind g) = true ->
  cstep4 c (EReset r) =
  Some {| c_live := map (set_due r (us now)) (c_live c); c_used := c_used c;
          c_lastpoll := c_lastpoll c; c_clock := Some now |}.
Proof. intros H1 H2 H3. unfold cstep4. rewrite H1, H2, H3. reflexivity. Qed.

Definition trid (x : timer) : nat := r_rid (t_rec x).

(* the timer clauses for a heap that is the old one without the element carrying id r *)
Lemma sim_tmr_removed s c r x h :
  Sim s c -> Permutation (heap (s_tmr s)) (x :: h) -> trid x = r ->
  let c' := {| c_live := remove_reg r (c_live c); c_used := c_used c; c_lastpoll := c_lastpoll c;
               c_clock := c_clock c |} in
  (forall y, In y h ->
      exists g, In g (c_live c') /\ g_rid g = r_rid (t_rec y) /\ g_kind g = KTimer (t_orig y) /\
                g_due g = us (t_deadline y) /\ tv_norm (t_deadline y) = true /\ tv_norm (t_orig y) = true) /\
  NoDup (map (fun y => r_rid (t_rec y)) h).
Proof.
  intros HS Hp Hr c'.
  assert (Hnd : NoDup (map trid (x :: h))).
  { eapply Permutation_NoDup; [apply Permutation_map; exact Hp | apply (sm_tmr_nodup s c HS)]. }
  simpl in Hnd. inversion Hnd as [|? ? Hnotin Hndh]. subst.
  split; [|exact Hndh].
  intros y Hy. assert (Hyh : In y (heap (s_tmr s))).
  { eapply Permutation_in; [symmetry; exact Hp | right; exact Hy]. }
  destruct (sm_tmr s c HS y Hyh) as [g [A [B C]]]. exists g. split; [|auto].
  simpl. apply in_remove_reg. split; [exact A|]. rewrite B. intros E. apply Hnotin.
  rewrite <- E. change (In (trid y) (map trid h)). apply in_map. exact Hy.
Qed.

Lemma good_timer_reg s cb t var s' :
  Good s -> tv_norm t = true -> exec_op (OTimerReg cb t var 0) s = Ok s' -> Good s'.
Proof.
  intros HG Ht H. unfold exec_op in H. cbn [Nat.eqb negb] in H.
  destruct (timer_register cb t (next_rid (s_cl s)) s) as [s1| | |] eqn:Er; cbn [bind] in H; try discriminate.
  inversion H; subst s'. clear H.
  unfold timer_register in Er. destruct (read_clock s) as [now s0] eqn:Ec.
  destruct (read_clock_good s now s0 HG Ec) as [Hnow [Ecl [Eimm [Enet [Etmr [_ [c [Hc [HS [Hc0 HS0]]]]]]]]]].
  set (c0 := {| c_live := c_live c; c_used := c_used c; c_lastpoll := c_lastpoll c; c_clock := Some now |}) in *.
  set (x := {| t_deadline := add_timeout now t; t_orig := t; t_rec := {| r_cb := cb; r_rid := next_rid (s_cl s) |} |}) in *.
  destruct (heap_add x (heap (s_tmr s0))) as [h| | |] eqn:Eh; cbn [bind] in Er; try discriminate.
  inversion Er; subst s1. clear Er. apply heap_add_perm in Eh.
  rewrite <- Ecl in *. set (rid := next_rid (s_cl s0)) in *.
  eapply Good_emit; [exact Hc0 | apply (cstep4_reg_timer c0 rid t now); [apply (sim_next_unused s0 c0 HS0) | reflexivity] | reflexivity |].
  apply Sim_build.
  - eapply (add_common s0 _ c0 (KTimer t) (us now + us t)%N HS0 (Some (var, HTimer))); try reflexivity.
    intros v p X. discriminate X.
  - apply (add_frame_imm s0 _ c0 (KTimer t) (us now + us t)%N HS0). reflexivity.
  - apply (add_frame_net s0 _ c0 (KTimer t) (us now + us t)%N HS0 None); [intros v p X; discriminate X | reflexivity | reflexivity].
  - simpl. split.
    + intros y Hy. assert (Hy' : In y (x :: heap (s_tmr s0))) by (eapply Permutation_in; [symmetry; exact Eh | exact Hy]).
      destruct Hy' as [<- | Hy'].
      * eexists. split; [left; reflexivity|]. simpl.
        split; [unfold rid; rewrite Ecl; reflexivity|]. split; [reflexivity|].
        split; [symmetry; apply us_add_timeout|]. split; [apply norm_add_timeout; assumption | exact Ht].
      * destruct (sm_tmr s0 c0 HS0 y Hy') as [g [A B]]. exists g. split; [right; exact A | exact B].
    + eapply Permutation_NoDup; [apply Permutation_map; exact Eh|]. simpl. constructor; [|apply (sm_tmr_nodup s0 c0 HS0)].
      intros X. apply in_map_iff in X. destruct X as [y [E Hy]].
      destruct (sm_tmr s0 c0 HS0 y Hy) as [g [A [B _]]]. pose proof (sim_in_lt s0 c0 g HS0 A) as L.
      simpl in E. rewrite <- Ecl in E. rewrite B, E in L. lia.
Qed.

Lemma good_timer_cancel s var s' :
  Good s -> exec_op (OTimerCancel var) s = Ok s' -> Good s'.
Proof.
  intros HG H. unfold exec_op in H.
  destruct (get_var var (vars (s_cl s))) as [[r [prio|]]|] eqn:Ev; try (inversion H; subst; exact HG).
  destruct (EventsModel.mem_nat r (cl_live (s_cl s))) eqn:Em; [|inversion H; subst; exact HG].
  destruct (timer_cancel r s) as [s1| | |] eqn:Et; cbn [bind] in H; try discriminate.
  inversion H; subst s'. clear H.
  destruct HG as [c [Hc HS]]. apply model_mem_nat in Em.
  unfold timer_cancel in Et. destruct (heap_index r (heap (s_tmr s))) as [i|] eqn:Ei; [|discriminate].
  destruct (heap_delete i (heap (s_tmr s))) as [h| | |] eqn:Ed; cbn [bind] in Et; try discriminate.
  inversion Et; subst s1. clear Et.
  destruct (heap_index_some _ _ _ Ei) as [x [Hx Hxr]].
  destruct (heap_delete_perm _ _ _ Ed) as [x' [Hx' Hp]]. assert (x' = x) by congruence. subst x'.
  destruct (sm_tmr s c HS x (nth_error_In _ _ Hx)) as [g [Hg [Er [Hk _]]]]. rewrite Hxr in Er.
  assert (Hfind : find_reg r (c_live c) = Some g).
  { rewrite <- Er. apply find_reg_in; [apply (sm_nodup s c HS) | exact Hg]. }
  assert (Hlr : live_rid c r (KTimer (t_orig x))) by (exists g; auto).
  eapply Good_emit; [exact Hc | eapply cstep4_cancel; eauto | reflexivity |].
  apply Sim_build.
  - apply (rm_common s _ c r HS); reflexivity.
  - apply (rm_frame_imm s _ c r _ HS Hlr); reflexivity.
  - apply (rm_frame_net s _ c r _ HS Hlr); reflexivity.
  - simpl. apply (sim_tmr_removed s c r x h HS Hp Hxr).
Qed.

Lemma set_due_ready r b g : g_ready (set_due r b g) = g_ready g.
Proof. unfold set_due. destruct (Nat.eqb (g_rid g) r); auto. destruct (g_kind g); auto. Qed.

Lemma good_timer_reset s var s' :
  Good s -> exec_op (OTimerReset var) s = Ok s' -> Good s'.
Proof.
  intros HG H. unfold exec_op in H.
  destruct (get_var var (vars (s_cl s))) as [[r [prio|]]|] eqn:Ev; try (inversion H; subst; exact HG).
  destruct (EventsModel.mem_nat r (cl_live (s_cl s))) eqn:Em; [|inversion H; subst; exact HG].
  destruct (timer_reset r s) as [s1| | |] eqn:Et; cbn [bind] in H; try discriminate.
  inversion H; subst s'. clear H.
  unfold timer_reset in Et. destruct (heap_index r (heap (s_tmr s))) as [i|] eqn:Ei; [|discriminate].
  destruct (rdn (heap (s_tmr s)) i) as [x| | |] eqn:Ex; cbn [bind] in Et; try discriminate. apply rdn_ok in Ex.
  destruct (read_clock s) as [now s0] eqn:Ec.
  destruct (read_clock_good s now s0 HG Ec) as [Hnow [Ecl [Eimm [Enet [Etmr [_ [c [Hc [HS [Hc0 HS0]]]]]]]]]].
  set (c0 := {| c_live := c_live c; c_used := c_used c; c_lastpoll := c_lastpoll c; c_clock := Some now |}) in *.
  set (x' := {| t_deadline := add_timeout now (t_orig x); t_orig := t_orig x; t_rec := t_rec x |}) in *.
  rewrite Etmr in Et.
  match type of Et with (let* h := ?e in _) = _ => destruct e as [h| | |] eqn:Eh end; cbn [bind] in Et; try discriminate.
  inversion Et; subst s1. clear Et. apply heapify_perm in Eh.
  destruct (heap_index_some _ _ _ Ei) as [x0 [Hx0 Hxr]]. assert (x0 = x) by congruence. subst x0.
  rewrite <- Etmr in Ex, Eh.
  destruct (sm_tmr s0 c0 HS0 x (nth_error_In _ _ Ex)) as [g [Hg [Er [Hk [_ [_ Horig]]]]]]. rewrite Hxr in Er.
  assert (Hfind : find_reg r (c_live c0) = Some g).
  { rewrite <- Er. apply find_reg_in; [apply (sm_nodup s0 c0 HS0) | exact Hg]. }
  eapply Good_emit; [exact Hc0 | apply (cstep4_reset c0 r g now Hfind eq_refl); rewrite Hk; reflexivity | reflexivity |].
  destruct (upd_nth_split _ _ _ Ex) as [rest [P1 P2]].
  assert (Hnd : NoDup (map trid (x :: rest))).
  { eapply Permutation_NoDup; [apply Permutation_map; exact P1 | apply (sm_tmr_nodup s0 c0 HS0)]. }
  simpl in Hnd. apply NoDup_cons_iff in Hnd. destruct Hnd as [Hnotin Hndr].
  apply Sim_build.
  - apply (map_common s0 _ c0 (set_due r (us now)) (c_lastpoll c0) (Some now) HS0 (set_due_ids r (us now))); reflexivity.
  - apply (map_frame_imm s0 _ c0 (set_due r (us now)) (c_lastpoll c0) (Some now) HS0 (set_due_ids r (us now))); reflexivity.
  - apply (map_frame_net s0 _ c0 (set_due r (us now)) (c_lastpoll c0) (Some now) HS0 (set_due_ids r (us now)));
      try reflexivity. intros g0 Hg0. rewrite set_due_ready. exact Hg0.
  - simpl. split.
    + intros y Hy.
      assert (Hy' : In y (x' :: rest)).
      { eapply Permutation_in; [apply P2|]. eapply Permutation_in; [symmetry; exact Eh | exact Hy]. }
      destruct Hy' as [<- | Hy'].
      * exists (set_due r (us now) g). split; [apply in_map; exact Hg|].
        destruct (set_due_ids r (us now) g) as [X Y]. rewrite X, Y. simpl.
        split; [rewrite Er; symmetry; exact Hxr|]. split; [exact Hk|]. split.
        -- unfold set_due. rewrite Er, Nat.eqb_refl, Hk. simpl. symmetry. apply us_add_timeout.
        -- split; [apply norm_add_timeout; assumption | exact Horig].
      * assert (Hyh : In y (heap (s_tmr s0))) by (eapply Permutation_in; [symmetry; exact P1 | right; exact Hy']).
        destruct (sm_tmr s0 c0 HS0 y Hyh) as [g1 [A [B C]]].
        exists (set_due r (us now) g1). split; [apply in_map; exact A|].
        assert (Hne : Nat.eqb (g_rid g1) r = false).
        { apply Nat.eqb_neq. rewrite B. intros E. apply Hnotin. unfold trid at 1. rewrite Hxr, <- E. apply (in_map trid). exact Hy'. }
        unfold set_due. rewrite Hne. auto.
    + eapply Permutation_NoDup; [apply Permutation_map; exact Eh|].
      eapply Permutation_NoDup; [apply Permutation_map; symmetry; apply P2|]. simpl. constructor; assumption.
Qed.

Lemma read_clock_Good s now s1 : Good s -> read_clock s = (now, s1) -> Good s1.
Proof.
  intros HG H. destruct (read_clock_good s now s1 HG H) as [_ [_ [_ [_ [_ [_ [c [_ [_ [Hc0 HS0]]]]]]]]]].
  eexists. split; [exact Hc0 | exact HS0].
Qed.

Lemma good_timer_min s tvo s1 : Good s -> timer_min s = (tvo, s1) -> Good s1 /\ s_net s1 = s_net s.
Proof.
  intros HG H. unfold timer_min in H.
  destruct (tq_inited (s_tmr s)); [|inversion H; subst; auto].
  destruct (heap (s_tmr s)) as [|m rest]; [inversion H; subst; auto|].
  destruct (read_clock s) as [now s0] eqn:Ec.
  assert (Good s0 /\ s_net s0 = s_net s).
  { split; [eapply read_clock_Good; eauto|]. destruct (read_clock_good s now s0 HG Ec) as [_ [_ [_ [E _]]]]. exact E. }
  destruct ((fst (t_deadline m) <? fst now)%N || ((fst (t_deadline m) =? fst now)%N && (snd (t_deadline m) <? snd now)%N));
    [inversion H; subst; exact H0|].
  destruct (snd (t_deadline m) <? snd now)%N; inversion H; subst; exact H0.
Qed.

Lemma good_timer_get_none s s1 : Good s -> timer_get s = Ok (None, s1) -> Good s1.
Proof.
  intros HG H. unfold timer_get in H.
  destruct (tq_inited (s_tmr s)); [|inversion H; subst; exact HG].
  destruct (read_clock s) as [now s0] eqn:Ec. pose proof (read_clock_Good s now s0 HG Ec) as HG0.
  destruct (heap (s_tmr s0)) as [|m rest]; [inversion H; subst; exact HG0|].
  destruct (tv_cmp (t_deadline m) now); try (inversion H; subst; exact HG0);
    destruct (heap_delete 0 (m :: rest)) as [h| | |]; cbn [bind] in H; discriminate.
Qed.

Lemma good_timer_get_some s r s1 :
  Good s -> timer_get s = Ok (Some r, s1) -> Good (emit (EInvoke (r_rid r)) (fire_cl r s1)).
Proof.
  intros HG H. unfold timer_get in H.
  destruct (tq_inited (s_tmr s)); [|discriminate].
  destruct (read_clock s) as [now s0] eqn:Ec.
  destruct (read_clock_good s now s0 HG Ec) as [Hnow [Ecl [Eimm [Enet [Etmr [_ [c [Hc [HS [Hc0 HS0]]]]]]]]]].
  set (c0 := {| c_live := c_live c; c_used := c_used c; c_lastpoll := c_lastpoll c; c_clock := Some now |}) in *.
  destruct (heap (s_tmr s0)) as [|m rest] eqn:Eheap; [discriminate|].
  destruct (tv_cmp (t_deadline m) now) eqn:Ecmp; try discriminate;
    (destruct (heap_delete 0 (m :: rest)) as [h| | |] eqn:Ed; cbn [bind] in H; try discriminate;
     inversion H; subst r s1; clear H;
     destruct (heap_delete_perm _ _ _ Ed) as [x [Hx Hp]]; simpl in Hx; inversion Hx; subst x;
     assert (Hin : In m (heap (s_tmr s0))) by (rewrite Eheap; left; reflexivity);
     destruct (sm_tmr s0 c0 HS0 m Hin) as [g [Hg [Er [Hk [Hdue [Hnorm _]]]]]];
     assert (Hfind : find_reg (r_rid (t_rec m)) (c_live c0) = Some g)
       by (rewrite <- Er; apply find_reg_in; [apply (sm_nodup s0 c0 HS0) | exact Hg]);
     assert (Hlr : live_rid c0 (r_rid (t_rec m)) (KTimer (t_orig m))) by (exists g; auto);
     assert (Hle : (g_due g <=? us now)%N = true)
       by (apply N.leb_le; rewrite Hdue; apply tv_cmp_not_gt_us; [exact Hnorm | rewrite Ecmp; discriminate]);
     eapply Good_emit; [exact Hc0 | eapply cstep4_invoke; [exact Hfind | rewrite Hk; exact Hle] | reflexivity |];
     apply Sim_build;
     [ apply (rm_common s0 _ c0 (r_rid (t_rec m)) HS0); reflexivity
     | apply (rm_frame_imm s0 _ c0 (r_rid (t_rec m)) _ HS0 Hlr); reflexivity
     | apply (rm_frame_net s0 _ c0 (r_rid (t_rec m)) _ HS0 Hlr); reflexivity
     | simpl; apply (sim_tmr_removed s0 c0 (r_rid (t_rec m)) m h HS0); [rewrite Eheap; exact Hp | reflexivity] ]).
Qed.

(* a timer queue that stays initialised after a refused first registration: same heap *)
Lemma Good_tmr_inited s : Good s -> Good (tmr_with s (heap (s_tmr s))).
Proof.
  intros [c [Hc HS]]. exists c. split; [exact Hc|]. destruct HS. constructor; simpl; auto.
Qed.

(* ================================================================ one API call *)
Definition op_norm (o : op) : Prop :=
  match o with OTimerReg _ t _ _ => tv_norm t = true | _ => True end.

Lemma good_exec_op o s s' : Good s -> op_norm o -> exec_op o s = Ok s' -> Good s'.
Proof.
  intros HG Hn H. destruct o.
  - (* OImmReg *) destruct af as [|af].
    + eapply good_imm_reg; eauto.
    + unfold exec_op in H. cbn [Nat.eqb negb] in H. destruct (prio <? PRIO_LIMIT); [|discriminate].
      inversion H; subst. apply Good_neutral; simpl; auto.
  - eapply good_imm_cancel; eauto.
  - (* ONetReg *) destruct af as [|af].
    + eapply good_net_reg; eauto.
    + (* refused: the state the unwinding leaves has the same registrations and readiness bits *)
      unfold exec_op in H. cbn [Nat.eqb negb] in H. inversion H; subst.
      apply Good_neutral; [|simpl; auto; discriminate].
      destruct HG as [c [Hc HS]].
      destruct (net_register_refused_spec (S af) cb fd opn (next_rid (s_cl s)) (s_net s) (sm_net s c HS)) as [A [B [C _]]].
      apply good_set_net_views; auto. exists c; auto.
  - eapply good_net_cancel; eauto.
  - (* OTimerReg *) destruct af as [|af].
    + eapply good_timer_reg; eauto.
    + unfold exec_op in H. cbn [Nat.eqb] in H.
      assert (HG0 : Good (timer_register_refused (S af) s)).
      { unfold timer_register_refused. destruct (3 <=? S af); [apply Good_tmr_inited|]; exact HG. }
      destruct (Nat.odd (S af)).
      * inversion H; subst. apply Good_neutral; simpl; auto.
      * destruct (read_clock (timer_register_refused (S af) s)) as [now s1] eqn:Ec.
        inversion H; subst. apply Good_neutral; simpl; auto. eapply read_clock_Good; eauto.
  - eapply good_timer_cancel; eauto.
  - eapply good_timer_reset; eauto.
  - unfold exec_op in H. inversion H; subst. apply Good_neutral; [|exact I].
    eapply Good_congr; [exact HG | | | | | | | |]; reflexivity.
  - unfold exec_op in H. inversion H; subst. apply Good_neutral; [|exact I].
    eapply Good_congr; [exact HG | | | | | | | |]; reflexivity.
Qed.

Lemma good_exec_ops l : forall s s', Good s -> Forall op_norm l -> exec_ops l s = Ok s' -> Good s'.
Proof.
  induction l as [|o l IH]; intros s s' HG Hn H; simpl in H.
  - inversion H; subst. exact HG.
  - destruct (exec_op o s) as [s1| | |] eqn:E; cbn [bind] in H; try discriminate.
    inversion Hn; subst. eapply IH; [|eassumption|exact H]. eapply good_exec_op; eauto.
Qed.

(* ================================================================ events.c: the dispatcher *)
Definition script_norm (sc : script) : Prop := Forall op_norm (fst sc).
Definition prog_norm (p : program) : Prop := Forall (Forall script_norm) p.
Definition xop_norm (x : xop) : Prop := match x with XOp o => op_norm o | _ => True end.

Lemma get_script_norm p cb k : prog_norm p -> script_norm (get_script p cb k).
Proof.
  intros Hp. unfold get_script.
  assert (Hs : Forall script_norm (nth cb p [])).
  { destruct (nth_in_or_default cb p []) as [H | ->]; [|constructor].
    unfold prog_norm in Hp. rewrite Forall_forall in Hp. apply Hp. exact H. }
  destruct (nth_in_or_default k (nth cb p []) ([], 0%Z)) as [H | ->].
  - rewrite Forall_forall in Hs. apply Hs. exact H.
  - constructor.
Qed.

Section DispatcherProofs.
  Variable prog : program.
  Hypothesis Hprog : prog_norm prog.

  (* the callback of r is being entered *)
  Definition Entering (r : rec) (s : st) : Prop := Good (emit (EInvoke (r_rid r)) (fire_cl r s)).

  Lemma good_doevent r s rc s' : Entering r s -> doevent prog r s = Ok (rc, s') -> Good s'.
  Proof.
    intros HE H. unfold doevent in H.
    match type of H with (let* s2 := exec_ops ?l ?st in _) = _ =>
      destruct (exec_ops l st) as [s2| | |] eqn:E end; cbn [bind] in H; try discriminate.
    inversion H; subst rc s'. apply Good_neutral; [|exact I].
    eapply good_exec_ops; [exact HE | apply get_script_norm; exact Hprog | exact E].
  Qed.

  Lemma good_drain fuel : forall r s rc s', Entering r s -> drain_loop prog fuel r s = Ok (rc, s') -> Good s'.
  Proof.
    induction fuel as [|fuel IH]; intros r s rc s' HE H; cbn [drain_loop] in H; [discriminate|].
    destruct (doevent prog r s) as [[rc1 s1]| | |] eqn:Ed; cbn [bind] in H; try discriminate.
    pose proof (good_doevent r s rc1 s1 HE Ed) as HG1.
    destruct (negb (rc1 =? 0)%Z); [inversion H; subst; exact HG1|].
    destruct (s_intr s1); [inversion H; subst; exact HG1|].
    destruct (imm_get_s s1) as [[ro s2]| | |] eqn:Ei; cbn [bind] in H; try discriminate.
    destruct ro as [r'|].
    - eapply IH; [|exact H]. eapply good_imm_get_some; eauto.
    - inversion H; subst. eapply good_imm_get_none; eauto.
  Qed.

  Lemma good_main fuel : forall s rc s', Good s -> main_loop prog fuel s = Ok (rc, s') -> Good s'.
  Proof.
    induction fuel as [|fuel IH]; intros s rc s' HG H; cbn [main_loop] in H; [discriminate|].
    destruct (s_intr s); [inversion H; subst; exact HG|].
    destruct (imm_get_s s) as [[ro s1]| | |] eqn:E1; cbn [bind] in H; try discriminate.
    destruct ro as [r|].
    { destruct (doevent prog r s1) as [[rc1 s2]| | |] eqn:Ed; cbn [bind] in H; try discriminate.
      assert (HG2 : Good s2) by (eapply good_doevent; [eapply good_imm_get_some; eauto | exact Ed]).
      destruct (negb (rc1 =? 0)%Z); [inversion H; subst; exact HG2 | eapply IH; eauto]. }
    assert (HG1 : Good s1) by (eapply good_imm_get_none; eauto).
    destruct (net_get_s s1) as [[ro s2]| | |] eqn:E2; cbn [bind] in H; try discriminate.
    destruct ro as [r|].
    { destruct (doevent prog r s2) as [[rc1 s3]| | |] eqn:Ed; cbn [bind] in H; try discriminate.
      assert (HG3 : Good s3) by (eapply good_doevent; [eapply good_net_get_some; eauto | exact Ed]).
      destruct (negb (rc1 =? 0)%Z); [inversion H; subst; exact HG3 | eapply IH; eauto]. }
    assert (HG2 : Good s2) by (eapply good_net_get_none; eauto).
    pose proof (good_net_select (Some (0, 0)%N) s2 HG2) as HG3.
    set (s3 := net_select (Some (0, 0)%N) s2) in *.
    destruct (net_get_s s3) as [[ro s4]| | |] eqn:E4; cbn [bind] in H; try discriminate.
    destruct ro as [r|].
    { destruct (doevent prog r s4) as [[rc1 s5]| | |] eqn:Ed; cbn [bind] in H; try discriminate.
      assert (HG5 : Good s5) by (eapply good_doevent; [eapply good_net_get_some; eauto | exact Ed]).
      destruct (negb (rc1 =? 0)%Z); [inversion H; subst; exact HG5 | eapply IH; eauto]. }
    assert (HG4 : Good s4) by (eapply good_net_get_none; eauto).
    destruct (timer_get s4) as [[ro s5]| | |] eqn:E5; cbn [bind] in H; try discriminate.
    destruct ro as [r|].
    { destruct (doevent prog r s5) as [[rc1 s6]| | |] eqn:Ed; cbn [bind] in H; try discriminate.
      assert (HG6 : Good s6) by (eapply good_doevent; [eapply good_timer_get_some; eauto | exact Ed]).
      destruct (negb (rc1 =? 0)%Z); [inversion H; subst; exact HG6 | eapply IH; eauto]. }
    inversion H; subst. eapply good_timer_get_none; eauto.
  Qed.

  Lemma good_run_internal fuel s rc s' : Good s -> run_internal prog fuel s = Ok (rc, s') -> Good s'.
  Proof.
    intros HG H. unfold run_internal in H.
    destruct (imm_get_s s) as [[ro s1]| | |] eqn:E1; cbn [bind] in H; try discriminate.
    destruct ro as [r|].
    - eapply good_drain; [|exact H]. eapply good_imm_get_some; eauto.
    - assert (HG1 : Good s1) by (eapply good_imm_get_none; eauto).
      destruct (timer_min s1) as [tvo s2] eqn:Em. destruct (good_timer_min s1 tvo s2 HG1 Em) as [HG2 _].
      eapply good_main; [|exact H]. apply good_net_select. exact HG2.
  Qed.

  Lemma Good_set_intr s b : Good s -> Good (set_intr s b).
  Proof. intros HG. eapply Good_congr; [exact HG | | | | | | | |]; reflexivity. Qed.

  Lemma good_events_run fuel s s' : Good s -> events_run prog fuel s = Ok s' -> Good s'.
  Proof.
    intros HG H. unfold events_run in H.
    destruct (run_internal prog fuel (emit ERunStart s)) as [[rc s1]| | |] eqn:E; cbn [bind] in H; try discriminate.
    inversion H; subst. apply Good_neutral; [|exact I]. apply Good_set_intr.
    eapply good_run_internal; [|exact E]. apply Good_neutral; [exact HG | exact I].
  Qed.

  Lemma good_spin_loop fuel : forall rc s rc' s',
    Good s -> spin_loop prog fuel rc s = Ok (rc', s') -> Good s'.
  Proof.
    induction fuel as [|fuel IH]; intros rc s rc' s' HG H; cbn [spin_loop] in H; [discriminate|].
    destruct (negb (cl_done (s_cl s)) && (rc =? 0)%Z && negb (s_intr s)); [|inversion H; subst; exact HG].
    destruct (run_internal prog (S fuel) s) as [[rc1 s1]| | |] eqn:E; cbn [bind] in H; try discriminate.
    eapply IH; [|exact H]. eapply good_run_internal; eauto.
  Qed.

  Lemma good_events_spin fuel s s' : Good s -> events_spin prog fuel s = Ok s' -> Good s'.
  Proof.
    intros HG H. unfold events_spin in H.
    destruct (spin_loop prog fuel 0%Z (emit ESpinStart s)) as [[rc s1]| | |] eqn:E; cbn [bind] in H; try discriminate.
    inversion H; subst. apply Good_neutral; [|exact I]. apply Good_set_intr.
    eapply good_spin_loop; [|exact E]. apply Good_neutral; [exact HG | exact I].
  Qed.

  Lemma good_exec_xop fuel x s s' : Good s -> xop_norm x -> exec_xop prog fuel x s = Ok s' -> Good s'.
  Proof.
    intros HG Hn H. destruct x; simpl in H.
    - eapply good_exec_op; eauto.
    - eapply good_events_run; eauto.
    - eapply good_events_spin; eauto.
  Qed.

  Lemma good_exec_xops fuel l : forall s s',
    Good s -> Forall xop_norm l -> exec_xops prog fuel l s = Ok s' -> Good s'.
  Proof.
    induction l as [|x l IH]; intros s s' HG Hn H; simpl in H.
    - inversion H; subst. exact HG.
    - destruct (exec_xop prog fuel x s) as [s1| | |] eqn:E; cbn [bind] in H; try discriminate.
      inversion Hn; subst. eapply IH; [|eassumption|exact H]. eapply good_exec_xop; eauto.
  Qed.
End DispatcherProofs.

(* ================================================================ the initial state *)
Lemma nth_error_repeat_nil {A} (n p : nat) (q : list A) : nth_error (repeat [] n) p = Some q -> q = [].
Proof. intros H. apply nth_error_In in H. apply repeat_spec in H. exact H. Qed.

Lemma Good_init pl cl : Forall (fun t => tv_norm t = true) cl -> Good (st_init pl cl).
Proof.
  intros Hcl. exists c4_init. split; [reflexivity|].
  apply Sim_build; unfold st_init;
    cbn [s_cl s_imm s_net s_tmr s_env vars cl_live next_rid heads clocks lastclock heap c4_init c_live c_used c_lastpoll].
  - refine (conj _ (conj _ (conj _ (conj _ (conj _ (conj _ (conj Hcl eq_refl))))))).
    + constructor.
    + intros g [].
    + intros r [].
    + intros r. split; [intros [] | intros [g [[] _]]].
    + intros v r p H. discriminate H.
    + intros v h H. discriminate H.
  - split.
    + intros p q r Hq Hr. apply nth_error_repeat_nil in Hq. subst q. destruct Hr.
    + intros p q Hq. apply nth_error_repeat_nil in Hq. subst q. constructor.
  - split; [apply NetInv_empty; reflexivity|]. split; [|split; [|split]].
    + intros fd dir rc H. unfold field in H. simpl in H. destruct fd; discriminate.
    + intros g fd dir [].
    + intros fd dir rc g H. unfold rev_at, slot in H. simpl in H. destruct fd; destruct dir; discriminate.
    + intros fd H. unfold rev_at, slot in H. simpl in H. destruct fd; discriminate.
  - split; [intros x [] | constructor].
Qed.

(* ================================================================ the result *)
(* Every trace the model can emit - for every program whose timer timeouts are normalised
   (0 <= tv_usec < 1000000), every external call sequence, every schedule of poll answers,
   every script of normalised clock readings and every fuel - is accepted by the C04 checker
   of the specification. *)
Theorem model_trace_accepted p xs pl cl fuel tr :
  prog_norm p -> Forall xop_norm xs -> Forall (fun t => tv_norm t = true) cl ->
  run_case p xs pl cl fuel = Ok tr -> check_c04 tr = true.
Proof.
  intros Hp Hx Hcl H. unfold run_case in H.
  destruct (exec_xops p fuel xs (st_init pl cl)) as [s| | |] eqn:E; cbn [bind] in H; try discriminate.
  inversion H; subst tr.
  destruct (good_exec_xops p Hp fuel xs _ _ (Good_init pl cl Hcl) Hx E) as [c [Hc _]].
  unfold check_c04. rewrite Hc. reflexivity.
Qed.

Corollary model_C04_holds p xs pl cl fuel tr :
  prog_norm p -> Forall xop_norm xs -> Forall (fun t => tv_norm t = true) cl ->
  run_case p xs pl cl fuel = Ok tr -> C04_holds tr.
Proof. intros. apply check_c04_sound. eapply model_trace_accepted; eauto. Qed.

(* the statements in the form used by Properties_C04_events.v *)
Definition runs_to (p : program) (xs : list xop) (pl : list pollraw) (cl : list tv) (fuel : nat)
  (tr : trace) : Prop :=
  prog_norm p /\ Forall xop_norm xs /\ Forall (fun t => tv_norm t = true) cl /\
  run_case p xs pl cl fuel = Ok tr.

Lemma runs_to_accepted p xs pl cl fuel tr : runs_to p xs pl cl fuel tr -> check_c04 tr = true.
Proof. intros [A [B [C D]]]. exact (model_trace_accepted p xs pl cl fuel tr A B C D). Qed.

Lemma runs_to_holds p xs pl cl fuel tr : runs_to p xs pl cl fuel tr -> C04_holds tr.
Proof. intros H. apply check_c04_sound. eapply runs_to_accepted; eauto. Qed.

Lemma runs_to_once : forall p xs pl cl fuel tr, runs_to p xs pl cl fuel tr -> invoke_at_most_once tr.
Proof. intros p xs pl cl fuel tr H. exact (proj1 (runs_to_holds _ _ _ _ _ _ H)). Qed.
Lemma runs_to_registered : forall p xs pl cl fuel tr, runs_to p xs pl cl fuel tr -> invoke_only_while_registered tr.
Proof. intros p xs pl cl fuel tr H. exact (proj1 (proj2 (runs_to_holds _ _ _ _ _ _ H))). Qed.
Lemma runs_to_rereg : forall p xs pl cl fuel tr, runs_to p xs pl cl fuel tr -> reregistrable tr.
Proof. intros p xs pl cl fuel tr H. exact (proj1 (proj2 (proj2 (runs_to_holds _ _ _ _ _ _ H)))). Qed.
Lemma runs_to_socket : forall p xs pl cl fuel tr, runs_to p xs pl cl fuel tr -> socket_invoke_justified tr.
Proof. intros p xs pl cl fuel tr H. exact (proj1 (proj2 (proj2 (proj2 (runs_to_holds _ _ _ _ _ _ H))))). Qed.
Lemma runs_to_timer : forall p xs pl cl fuel tr, runs_to p xs pl cl fuel tr -> timer_not_early tr.
Proof. intros p xs pl cl fuel tr H. exact (proj2 (proj2 (proj2 (proj2 (runs_to_holds _ _ _ _ _ _ H))))). Qed.
Lemma runs_to_accepted_all : forall p xs pl cl fuel tr, runs_to p xs pl cl fuel tr -> check_c04 tr = true.
Proof. intros. eapply runs_to_accepted; eauto. Qed.
