(* Non-vacuity for C05: concrete programs on which the hypotheses of the C05 theorems (runs_to5:
   normalised timeouts and clock readings, descriptors that are C ints, a clock that does not go
   backwards) hold, the model returns a trace, and the behaviours the property talks about occur. *)
From Coq Require Import NArith ZArith List Bool Arith.
From LCP Require Import Base.CheckedMem Events.EventsTrace Events.EventsSpec Events.EventsModel Events.EventsInv Events.EventsExamples Events.EventsRun5 Events.EventsRun5Frame Events.EventsC05 Events.EventsProgress.
Import ListNotations.

Ltac norm5 :=
  repeat match goal with
         | |- _ /\ _ => split
         | |- Forall _ _ => constructor
         | |- script_norm5 _ => unfold script_norm5; simpl fst
         | |- xop_norm5 _ => simpl
         | |- op_norm5 _ => unfold op_norm5; simpl
         | |- True => exact I
         | |- _ = true => reflexivity
         | |- (_ < _)%Z => reflexivity
         | |- (_ <= _)%N => discriminate
         end.

(* the example of EventsExamples.v: all three kinds fire in one run, one descriptor carries both
   directions, a callback cancels the descriptor under the scan cursor *)
Example ex_hyps5 :
  prog_norm5 ex_prog /\ Forall xop_norm5 ex_xops /\ Forall (fun t => tv_norm t = true) ex_clocks /\
  clocks_from (0, 0)%N ex_clocks.
Proof. unfold prog_norm5, ex_prog, ex_xops, ex_clocks, clocks_from. norm5. Qed.

Example ex_runs_to5 : exists tr, runs_to5 ex_prog ex_xops ex_polls ex_clocks 100 tr /\ In (EInvoke 3) tr.
Proof.
  eexists. split; [|].
  - destruct ex_hyps5 as [A [B [C D]]]. split; [exact A|]. split; [exact B|]. split; [exact C|]. split; [exact D|].
    vm_compute. reflexivity.
  - vm_compute. tauto.
Qed.

(* order and status: immediates of priorities 5, 1, 1 and 0 registered in that order run as
   0, 1 (first registered), 1, 5; the callback of the second priority-1 event registers a further
   priority-0 immediate, which runs before the priority-5 one; a timer reset from outside keeps
   its place behind an earlier deadline; the priority-5 callback returns 7, which stops the
   second run and is returned; a callback that calls events_interrupt stops the third run with 0
   while a ready descriptor and an expired timer stay registered and run in the fourth. *)
Definition ex5_prog : program :=
  [ [([], 0%Z)];                                   (* 0: prio 5: returns 0 the first time ... *)
    [([], 0%Z)];                                   (* 1: prio 1, first *)
    [([OImmReg 4 0 3 0], 0%Z)];                    (* 2: prio 1, second: registers cb 4 at prio 0 *)
    [([], 0%Z)];                                   (* 3: prio 0 *)
    [([], 0%Z)];                                   (* 4: prio 0, registered from inside *)
    [([], 7%Z)];                                   (* 5: immediate returning 7 *)
    [([OInterrupt], 0%Z)];                         (* 6: immediate that requests an interrupt *)
    [([], 0%Z)];                                   (* 7: reader of fd 2 *)
    [([], 0%Z)];                                   (* 8: timer A *)
    [([], 0%Z)] ].                                 (* 9: timer B *)
Definition ex5_xops : list xop :=
  [ XOp (OImmReg 0 5 0 0); XOp (OImmReg 1 1 1 0); XOp (OImmReg 2 1 2 0); XOp (OImmReg 3 0 4 0);
    XRun;
    XOp (OImmReg 5 3 0 0); XOp (OImmReg 0 9 1 0);
    XRun;
    XOp (ONetReg 7 2 0 0); XOp (OTimerReg 8 (0, 300)%N 5 0); XOp (OTimerReg 9 (0, 200)%N 6 0);
    XOp (OTimerReset 5);
    XOp (OImmReg 6 2 2 0);
    XRun;
    XRun; XRun ].
Definition ex5_polls : list pollraw :=
  [ RReady [(2, rbm true false false false)]; RReady []; RReady []; RReady []; RReady []; RReady [] ].
Definition ex5_clocks : list tv :=
  [(2, 0); (2, 10); (2, 50); (2, 900); (2, 900); (2, 900); (2, 900); (2, 900); (2, 900); (2, 900)]%N.

Example ex5_hyps :
  prog_norm5 ex5_prog /\ Forall xop_norm5 ex5_xops /\ Forall (fun t => tv_norm t = true) ex5_clocks /\
  clocks_from (0, 0)%N ex5_clocks.
Proof. unfold prog_norm5, ex5_prog, ex5_xops, ex5_clocks, clocks_from. norm5. Qed.

(* ... and the arguments are inside the API's contract (priorities < 32, descriptors < INT_MAX), so
   by runs_to5_or_out_of_fuel the run returns a trace or runs out of fuel *)
Example ex5_safe : prog_safe ex5_prog /\ Forall xop_safe ex5_xops.
Proof. unfold prog_safe, ex5_prog, ex5_xops. safe_tac. Qed.

Definition ex5_result : res trace := run_case ex5_prog ex5_xops ex5_polls ex5_clocks 100.

Definition invoked_ids (t : trace) : list nat := invoked t.
Definition run_results (t : trace) : list Z :=
  flat_map (fun e => match e with ERunEnd rc => [rc] | _ => [] end) t.

Example ex5_runs_to5 :
  exists tr, runs_to5 ex5_prog ex5_xops ex5_polls ex5_clocks 100 tr /\
    (* ids are handed out in registration order: 0..3 the first immediates, 4 the one registered
       from inside, 5 and 6 the second batch, 7 the reader, 8 and 9 the timers, 10 the
       interrupting immediate *)
    invoked_ids tr = [3; 1; 2; 4; 0;  5;  10;  6; 7; 9; 8] /\
    run_results tr = [0; 7; 0; 0; 0]%Z /\
    check_c04 tr = true /\ check_c05 tr = true.
Proof.
  eexists. split; [|].
  - destruct ex5_hyps as [A [B [C D]]]. split; [exact A|]. split; [exact B|]. split; [exact C|]. split; [exact D|].
    vm_compute. reflexivity.
  - vm_compute. repeat split; reflexivity.
Qed.

(* the frame clause: after the second run (stopped by the result 7 of callback 5) the immediate
   event registered with priority 9 (id 6) has not run and is live *)
Definition ex5_xops_stopped : list xop := firstn 8 ex5_xops.

Example ex5_ends_in :
  exists s, ends_in ex5_prog ex5_xops_stopped ex5_polls ex5_clocks 100 s /\
            live_in (rev (s_tr s)) 6 /\ kind_of (rev (s_tr s)) 6 = Some (KImm 9) /\
            run_results (rev (s_tr s)) = [0; 7]%Z.
Proof.
  eexists. split; [|].
  - destruct ex5_hyps as [A [B [C D]]]. split; [exact A|]. split.
    + unfold ex5_xops_stopped, ex5_xops. simpl firstn. norm5.
    + split; [exact C|]. split; [exact D|]. vm_compute. reflexivity.
  - split; [|split; vm_compute; reflexivity].
    unfold live_in. vm_compute. split; [tauto|]. split; intuition discriminate.
Qed.

(* the conversion of events_network_select at the edges of its three regimes *)
Example ex_select_timeouts :
  tv_norm (0, 1)%N = true /\ sel_timeout (Some (0, 1)%N) = 1%Z /\
  tv_norm (2147482, 999001)%N = true /\ sel_timeout (Some (2147482, 999001)%N) = 2147483000%Z /\
  tv_norm (2147483, 647001)%N = true /\ sel_timeout (Some (2147483, 647001)%N) = 2147483000%Z /\
  timeout_ok (us (2147483, 647001)%N) 2147483000 = true /\ timeout_ok (us (2147483, 647001)%N) (-2147483648) = false.
Proof. vm_compute. repeat split; reflexivity. Qed.
