(* C05, last clause: "events not yet run stay registered".  Whatever the client and the
   dispatcher have done - including a run stopped by a non-zero callback result or by an interrupt
   request - every registration that is live according to the trace (registered, neither cancelled
   nor invoked) is still held by the library: in the immediate queue of its priority, in the
   reader / writer field of its descriptor, or in the timer heap with its timeout. *)
From Coq Require Import NArith ZArith List Bool Arith Lia.
From LCP Require Import Base.CheckedMem Events.EventsTrace Events.EventsSpec Events.EventsModel Events.EventsLemmas Events.EventsNetInv Events.EventsSpecProofs Events.EventsInv Events.EventsOrder Events.EventsRun5.
Import ListNotations.
Local Open Scope res_scope.

Definition registered_in (s : st) (r : nat) (k : kind) : Prop :=
  match k with
  | KImm p => exists x, In x (nth p (heads (s_imm s)) []) /\ r_rid x = r
  | KNet fd dir => exists x, field (s_net s) fd dir = Some x /\ r_rid x = r
  | KTimer tmo => exists x, In x (heap (s_tmr s)) /\ r_rid (t_rec x) = r /\ t_orig x = tmo
  end.

Lemma G5_registered fl s c r k :
  G5 fl s c -> live_in (rev (s_tr s)) r -> kind_of (rev (s_tr s)) r = Some k -> registered_in s r k.
Proof.
  intros HG Hl Hk. destruct (G5_c4 fl s c HG) as [x4 [H4 [HS HR]]].
  pose proof (J_steps [] c4_init (rev (s_tr s)) x4 J_init H4) as HJ. simpl in HJ.
  apply (proj2 (j_live _ _ HJ r)) in Hl. destruct Hl as [g [Hg Er]].
  pose proof (j_kind _ _ HJ g Hg) as Hkg. rewrite Er, Hk in Hkg. assert (Ek : k = g_kind g) by congruence. clear Hkg.
  destruct k as [p | fd dir | tmo]; simpl.
  - (* an immediate: it is in the queue of its priority *)
    pose proof (G5_imm fl s c HG) as HO.
    assert (Hin : In (r, p) (d_imms c)).
    { rewrite (r_imms _ _ HR). apply in_imm_of. exists g. simpl.
      split; [apply in_rev; rewrite rev_involutive; exact Hg | auto]. }
    pose proof (io_prio _ _ _ HO (r, p) Hin) as Hp. simpl in Hp.
    pose proof (io_q _ _ _ HO p Hp) as Hq.
    assert (Hr : In r (map fst (filter (prio_is p) (d_imms c)))).
    { apply in_map_iff. exists (r, p). split; [reflexivity|]. apply filter_In. split; [exact Hin|].
      unfold prio_is. simpl. apply Nat.eqb_refl. }
    rewrite <- Hq in Hr. apply in_map_iff in Hr. destruct Hr as [x [Ex Hx]]. exists x. auto.
  - (* a descriptor registration: it is in the reader / writer field *)
    destruct (sm_net2 s x4 HS g fd dir Hg (eq_sym Ek)) as [rc [Hf Erc]]. exists rc. split; [exact Hf | congruence].
  - (* a timer: it is in the heap *)
    assert (Hin : In (r, (tmo, g_due g)) (d_tmrs c)).
    { rewrite (r_tmrs _ _ HR). apply in_tmr_of. exists g. simpl.
      split; [apply in_rev; rewrite rev_involutive; exact Hg | auto]. }
    destruct (x_cover s c (G5_ext fl s c HG) _ Hin) as [x [Hx Ex]]. exists x. unfold tkey in Ex.
    inversion Ex. auto.
Qed.

Theorem pending_stay_registered p xs pl cl fuel s :
  prog_norm5 p -> Forall xop_norm5 xs -> Forall (fun t => tv_norm t = true) cl -> clocks_from (0, 0)%N cl ->
  exec_xops p fuel xs (st_init pl cl) = Ok s ->
  forall r k, live_in (rev (s_tr s)) r -> kind_of (rev (s_tr s)) r = Some k -> registered_in s r k.
Proof.
  intros Hp Hx Hcl Hmono E r k.
  destruct (g5_exec_xops c5_strict p Hp fuel xs _ _ _ (Outside_init c5_strict pl cl Hcl Hmono) Hx E) as [c [HG _]].
  apply (G5_registered c5_strict s c r k HG).
Qed.
