(* events_network_get, COMPLETENESS of the scan: started at the top of the pollfd array (where
   events_network_select leaves the cursor), a scan that returns NULL has seen every slot, and
   no slot had a non-zero revents.  (Soundness - what a non-NULL result is - is
   EventsNetInv.net_get_spec.)

   NetInv alone does not give this: a slot whose event mask is empty (events = 0) and whose
   revents is POLLERR or POLLHUP only is skipped by the scan (folding ERR/HUP into an empty mask
   sets nothing).  The C never has such a slot: growpollfd is followed at once by
   "fds[pollpos].events |= bit" and clearbit removes a slot whose mask became empty.  That is
   the extra invariant [events_nonzero], proved preserved by every operation of the network
   part of the model (the lemmas whose names start with evnz). *)
From Coq Require Import NArith ZArith List Bool Arith Lia Permutation.
From LCP Require Import Base.CheckedMem Events.EventsTrace Events.EventsSpec Events.EventsModel Events.EventsLemmas Events.EventsNetInv.
Import ListNotations.
Local Open Scope res_scope.
Unset Lia Cache.

Definition fds_pending (f : list pollfd) : bool := existsb (fun p => negb (rb_is_none (p_rev p))) f.

(* ---------------------------------------------------------------- the printed answer *)
Definition nonnil {A} (l : list A) : bool := match l with [] => false | _ :: _ => true end.

Lemma insert_fd_nonnil {A} (x : nat * A) l : nonnil (insert_fd x l) = true.
Proof. destruct l as [|y l]; simpl; [reflexivity|]. destruct (fst x <=? fst y); reflexivity. Qed.

Lemma sort_fd_nonnil {A} (l : list (nat * A)) : nonnil (sort_fd l) = nonnil l.
Proof.
  destruct l as [|x l]; [reflexivity|].
  change (sort_fd (x :: l)) with (insert_fd x (sort_fd l)). apply insert_fd_nonnil.
Qed.

Lemma filter_nonnil {A} (g : A -> bool) l : nonnil (filter g l) = existsb g l.
Proof.
  induction l as [|a l IH]; simpl; [reflexivity|].
  destruct (g a); simpl; [reflexivity | exact IH].
Qed.

Lemma map_nonnil {A B} (g : A -> B) l : nonnil (map g l) = nonnil l.
Proof. destruct l; reflexivity. Qed.

(* the answer printed for a poll is non-empty exactly when some slot has non-zero revents *)
Lemma answer_nonempty f : ans_nonempty (PReady (answer_of f)) = fds_pending f.
Proof.
  change (ans_nonempty (PReady (answer_of f))) with (nonnil (answer_of f)).
  unfold answer_of, fds_pending. rewrite sort_fd_nonnil, map_nonnil. apply filter_nonnil.
Qed.

(* ---------------------------------------------------------------- the extra invariant *)
(* every pollfd slot asks for something: fds[j].events != 0 *)
Definition events_nonzero (n : net_st) : Prop :=
  forall p, In p (fds n) -> p_ein p || p_eout p = true.

(* the scan cursor as events_network_select leaves it: fdscanpos = nfds - 1 (as a size_t) *)
Definition scan_top (n : net_st) : Prop :=
  scanpos n = ((N.of_nat (length (fds n)) + SIZE_WRAP - 1) mod SIZE_WRAP)%N.

(* ---------------------------------------------------------------- size_t arithmetic *)
Lemma size_wrap_nz : SIZE_WRAP <> 0%N.
Proof. unfold SIZE_WRAP. discriminate. Qed.

Lemma wrap_dec x : (0 < x)%N -> (x < SIZE_WRAP)%N -> ((x + SIZE_WRAP - 1) mod SIZE_WRAP = x - 1)%N.
Proof.
  intros H0 H1.
  replace (x + SIZE_WRAP - 1)%N with ((x - 1) + 1 * SIZE_WRAP)%N by lia.
  rewrite N.mod_add by exact size_wrap_nz. apply N.mod_small. lia.
Qed.

(* ---------------------------------------------------------------- one slot *)
(* after the fold neither IN nor OUT is set, and the slot asks for something: revents was 0 *)
Lemma fold_quiet p0 :
  b_in (p_rev (pf_fold p0)) = false -> b_out (p_rev (pf_fold p0)) = false ->
  p_ein p0 || p_eout p0 = true -> rb_is_none (p_rev p0) = true.
Proof.
  destruct p0 as [fd ein eout [i o e h]]. unfold pf_fold, rb_errhup, rb_is_none. simpl.
  destruct e, h, i, o, ein, eout; simpl; intros; try discriminate; reflexivity.
Qed.

(* a set (folded) IN/OUT bit at the cursor means the field is there *)
Lemma fold_bit_field n pos p0 k dir :
  NetInv n -> nth_error (fds n) pos = Some p0 ->
  rb_dir (p_rev (pf_fold p0)) dir = true -> nth_error (socks n) (p_fd p0) = Some k ->
  sk_get dir k <> None.
Proof.
  intros HI Hp0 Hbit Hk.
  pose proof (fold_inv n pos p0 HI Hp0) as HI1.
  set (n1 := net_with n (socks n) (upd_nth pos (pf_fold p0) (fds n))) in *.
  assert (Hp1 : nth_error (fds n1) pos = Some (pf_fold p0)).
  { unfold n1. simpl. apply nth_error_upd_nth_eq. eapply nth_error_lt; eauto. }
  pose proof (n_revents n1 HI1 pos (pf_fold p0) dir Hp1 Hbit) as Hev.
  apply (n_events n1 HI1 pos (pf_fold p0) k dir Hp1); [|exact Hev].
  rewrite pf_fold_fd. exact Hk.
Qed.

Lemma evnz_fold n pos p0 :
  events_nonzero n -> nth_error (fds n) pos = Some p0 ->
  events_nonzero (net_with n (socks n) (upd_nth pos (pf_fold p0) (fds n))).
Proof.
  intros HE Hp0 p Hp. simpl in Hp. apply in_upd_nth in Hp. destruct Hp as [-> | Hp].
  - rewrite pf_fold_ein, pf_fold_eout. apply HE. eapply nth_error_In; eauto.
  - apply HE. exact Hp.
Qed.

Lemma evnz_net_set_scan n x : events_nonzero n -> events_nonzero (net_set_scan n x).
Proof. intros HE p Hp. apply HE. exact Hp. Qed.

(* ---------------------------------------------------------------- the scan *)
Lemma net_get_loop_none_quiet fuel : forall n n',
  NetInv n -> events_nonzero n -> (N.of_nat (length (fds n)) < SIZE_WRAP)%N ->
  net_get_loop fuel n = Ok (None, n') ->
  (scanpos n < N.of_nat (length (fds n)))%N ->
  forall j p, j <= N.to_nat (scanpos n) -> nth_error (fds n) j = Some p -> rb_is_none (p_rev p) = true.
Proof.
  induction fuel as [|fuel IH]; intros n n' HI HE Hlen H Hscan j p Hj Hp; simpl in H; [discriminate|].
  assert (Escan : (scanpos n <? N.of_nat (length (fds n)))%N = true) by (apply N.ltb_lt; exact Hscan).
  rewrite Escan in H.
  destruct (rdn (fds n) (N.to_nat (scanpos n))) as [p0| | |] eqn:Ep0; simpl in H; try discriminate.
  apply rdn_ok in Ep0. set (pos := N.to_nat (scanpos n)) in *.
  destruct (b_in (p_rev (pf_fold p0))) eqn:Ein.
  { exfalso. rewrite pf_fold_fd in H.
    destruct (rdn (socks n) (p_fd p0)) as [k| | |] eqn:Ek; simpl in H; try discriminate. apply rdn_ok in Ek.
    match type of H with context [clearbit pos false ?st] => destruct (clearbit pos false st) as [n3| | |] end;
      simpl in H; try discriminate.
    inversion H as [[Hrd Hn]].
    apply (fold_bit_field n pos p0 k false HI Ep0 Ein Ek). exact Hrd. }
  destruct (b_out (p_rev (pf_fold p0))) eqn:Eout.
  { exfalso. rewrite pf_fold_fd in H.
    destruct (rdn (socks n) (p_fd p0)) as [k| | |] eqn:Ek; simpl in H; try discriminate. apply rdn_ok in Ek.
    match type of H with context [clearbit pos true ?st] => destruct (clearbit pos true st) as [n3| | |] end;
      simpl in H; try discriminate.
    inversion H as [[Hwr Hn]].
    apply (fold_bit_field n pos p0 k true HI Ep0 Eout Ek). exact Hwr. }
  (* nothing at this position *)
  destruct (Nat.eq_dec j pos) as [-> | Hne].
  { assert (p = p0) by congruence. subst p. apply fold_quiet; auto.
    apply HE. eapply nth_error_In; eauto. }
  (* a lower position: the scan moved on *)
  assert (Hpos0 : (0 < scanpos n)%N) by (unfold pos in *; lia).
  set (n1 := net_with n (socks n) (upd_nth pos (pf_fold p0) (fds n))) in *.
  match type of H with net_get_loop _ ?st = _ => set (n2 := st) in * end.
  assert (Hsp : scanpos n2 = (scanpos n - 1)%N).
  { unfold n2. cbn [scanpos net_set_scan n1 net_with]. apply wrap_dec; lia. }
  assert (Hf2 : fds n2 = upd_nth pos (pf_fold p0) (fds n)) by reflexivity.
  assert (Hl2 : length (fds n2) = length (fds n)) by (rewrite Hf2; apply length_upd_nth).
  apply (IH n2 n') with (j := j).
  - unfold n2. apply net_set_scan_inv. apply fold_inv; auto.
  - unfold n2. apply evnz_net_set_scan. apply evnz_fold; auto.
  - rewrite Hl2. exact Hlen.
  - exact H.
  - rewrite Hl2, Hsp. lia.
  - rewrite Hsp. unfold pos in *. lia.
  - rewrite Hf2. rewrite nth_error_upd_nth_neq by congruence. exact Hp.
Qed.

Lemma net_get_none_quiet n n' :
  NetInv n -> events_nonzero n -> scan_top n -> (N.of_nat (length (fds n)) < SIZE_WRAP)%N ->
  net_get n = Ok (None, n') -> fds_pending (fds n) = false.
Proof.
  intros HI HE Htop Hlen H. unfold fds_pending.
  destruct (existsb (fun p => negb (rb_is_none (p_rev p))) (fds n)) eqn:E; [|reflexivity].
  exfalso. apply existsb_exists in E. destruct E as [p [Hin Hp]].
  apply In_nth_error in Hin. destruct Hin as [j Hj].
  assert (Hjl : j < length (fds n)) by (eapply nth_error_lt; eauto).
  assert (Hsp : scanpos n = (N.of_nat (length (fds n)) - 1)%N).
  { rewrite Htop. apply wrap_dec; lia. }
  assert (Hq : rb_is_none (p_rev p) = true).
  { unfold net_get in H.
    apply (net_get_loop_none_quiet _ n n' HI HE Hlen H) with (j := j); [| |exact Hj]; rewrite Hsp; lia. }
  rewrite Hq in Hp. discriminate.
Qed.

(* ================================================================ events_nonzero is kept by
   every operation of the network part *)
Lemma evnz_empty n : fds n = [] -> events_nonzero n.
Proof. intros E p Hp. rewrite E in Hp. destruct Hp. Qed.

Lemma evnz_st_init pl cl : events_nonzero (s_net (st_init pl cl)).
Proof. apply evnz_empty. reflexivity. Qed.

(* only the pollfd array matters *)
Lemma evnz_same_fds n m : fds m = fds n -> events_nonzero n -> events_nonzero m.
Proof. intros E HE p Hp. rewrite E in Hp. apply HE. exact Hp. Qed.

Lemma evnz_net_init n : events_nonzero n -> events_nonzero (net_init n).
Proof.
  intros HE. unfold net_init. destruct (net_inited n); [exact HE|]. apply evnz_empty. reflexivity.
Qed.

Lemma evnz_growsocketlist m n : events_nonzero n -> events_nonzero (growsocketlist m n).
Proof. apply evnz_same_fds. reflexivity. Qed.

Lemma pf_set_ev_nonzero dir p : p_ein (pf_set_ev dir p) || p_eout (pf_set_ev dir p) = true.
Proof. destruct dir; simpl; [apply orb_true_r | reflexivity]. Qed.

(* clearbit(pollpos, bit): the slot keeps a non-empty mask, or it is removed *)
Lemma evnz_clearbit pos dir n n' :
  events_nonzero n -> clearbit pos dir n = Ok n' -> events_nonzero n'.
Proof.
  intros HE H. unfold clearbit in H.
  destruct (rdn (fds n) pos) as [p| | |] eqn:Ep; cbn [bind] in H; try discriminate. apply rdn_ok in Ep.
  destruct (p_ein (pf_clear dir p) || p_eout (pf_clear dir p)) eqn:Hev.
  - inversion H; subst n'. intros q Hq. cbn [fds net_with] in Hq. apply in_upd_nth in Hq.
    destruct Hq as [-> | Hq]; [exact Hev | apply HE; exact Hq].
  - destruct (rdn (socks n) (p_fd (pf_clear dir p))) as [k| | |]; cbn [bind] in H; try discriminate.
    destruct (pos =? length (fds n) - 1).
    + inversion H; subst n'. intros q Hq. cbn [fds net_with] in Hq. apply in_removelast in Hq.
      apply HE. exact Hq.
    + destruct (rdn (fds n) (length (fds n) - 1)) as [pl| | |] eqn:Epl; cbn [bind] in H; try discriminate.
      apply rdn_ok in Epl.
      match type of H with context [rdn ?l (p_fd pl)] => destruct (rdn l (p_fd pl)) as [kl| | |] end;
        cbn [bind] in H; try discriminate.
      inversion H; subst n'. intros q Hq. cbn [fds net_with] in Hq. apply in_removelast in Hq.
      apply in_upd_nth in Hq. destruct Hq as [-> | Hq]; apply HE; [eapply nth_error_In; eauto | exact Hq].
Qed.

(* events_network_register: every outcome (0, and -1 with any errno) *)
Lemma evnz_net_register cb fd op rid n0 e n' :
  events_nonzero n0 -> net_register cb fd op rid n0 = Ok (e, n') -> events_nonzero n'.
Proof.
  intros HE0 H. unfold net_register in H.
  set (rc := {| r_cb := cb; r_rid := rid |}) in *.
  pose proof (evnz_net_init n0 HE0) as HE. set (n := net_init n0) in *.
  destruct (fd <? 0)%Z; [inversion H; subst; exact HE|].
  destruct (op_dir op) as [dir|]; [|inversion H; subst; exact HE].
  set (s := Z.to_nat fd) in *.
  set (n1 := if length (socks n) <=? s then growsocketlist (S s) n else n) in *.
  assert (HE1 : events_nonzero n1).
  { unfold n1. destruct (length (socks n) <=? s); [apply evnz_growsocketlist|]; exact HE. }
  destruct (rdn (socks n1) s) as [k| | |] eqn:Ek; simpl in H; try discriminate.
  apply rdn_ok in Ek.
  destruct (sk_get dir k) as [rc0|]; [inversion H; subst; exact HE1|].
  assert (Hs : s < length (socks n1)) by (eapply nth_error_lt; eauto).
  destruct (pollpos k) as [pp|] eqn:Epp.
  - (* existing entry *)
    simpl in H. unfold rdn in H. simpl in H. rewrite nth_error_upd_nth_eq in H by exact Hs. simpl in H.
    rewrite pollpos_sk_set, Epp in H.
    destruct (nth_error (fds n1) pp) as [p|] eqn:Hp; simpl in H; [|discriminate].
    rewrite net_with_with in H. inversion H; subst e n'.
    intros q Hq. cbn [fds net_with] in Hq. apply in_upd_nth in Hq.
    destruct Hq as [-> | Hq]; [apply pf_set_ev_nonzero | apply HE1; exact Hq].
  - (* growpollfd, then events |= bit on the new entry *)
    unfold growpollfd in H. simpl in H.
    unfold rdn in H at 1. simpl in H. rewrite nth_error_upd_nth_eq in H by exact Hs. simpl in H.
    rewrite pollpos_sk_set, Epp in H.
    match type of H with
    | context [if (N.of_nat (length (fds n1)) <? ?a)%N then _ else _] => set (alloc := a) in *
    end.
    destruct (N.of_nat (length (fds n1)) <? alloc)%N; [|discriminate].
    match type of H with context [(Z.of_nat ?a <? ?b)%Z] => destruct (Z.of_nat a <? b)%Z end; [|discriminate].
    cbn [bind] in H.
    unfold rdn in H. simpl in H. rewrite upd_nth_twice in H.
    rewrite nth_error_upd_nth_eq in H by exact Hs. simpl in H.
    rewrite nth_error_snoc_last in H. simpl in H. rewrite upd_nth_app_last in H.
    inversion H; subst e n'.
    intros q Hq. cbn [fds net_with] in Hq. apply in_app_or in Hq.
    destruct Hq as [Hq | [<- | []]]; [apply HE1; exact Hq | apply pf_set_ev_nonzero].
Qed.

(* events_network_cancel: every outcome *)
Lemma evnz_net_cancel fd op n0 x n' :
  events_nonzero n0 -> net_cancel fd op n0 = Ok (x, n') -> events_nonzero n'.
Proof.
  intros HE0 H. unfold net_cancel in H.
  pose proof (evnz_net_init n0 HE0) as HE. set (n := net_init n0) in *.
  destruct (fd <? 0)%Z; [inversion H; subst; exact HE|].
  destruct (op_dir op) as [dir|]; [|inversion H; subst; exact HE].
  set (s := Z.to_nat fd) in *.
  destruct (length (socks n) <=? s); [inversion H; subst; exact HE|].
  destruct (rdn (socks n) s) as [k| | |]; cbn [bind] in H; try discriminate.
  destruct (sk_get dir k) as [rc|]; [|inversion H; subst; exact HE].
  destruct (pollpos k) as [pp|]; [|discriminate].
  match type of H with context [clearbit pp dir ?st] => destruct (clearbit pp dir st) as [n2| | |] eqn:Ecb end;
    cbn [bind] in H; try discriminate.
  inversion H; subst x n'. eapply evnz_clearbit; [|exact Ecb]. exact HE.
Qed.

(* operations that rewrite every slot but keep the event masks: poll() *)
Lemma evnz_map n sk g :
  (forall p, p_ein (g p) = p_ein p /\ p_eout (g p) = p_eout p) ->
  events_nonzero n -> events_nonzero (net_with n sk (map g (fds n))).
Proof.
  intros Hg HE q Hq. cbn [fds net_with] in Hq. apply in_map_iff in Hq. destruct Hq as [p [<- Hp]].
  destruct (Hg p) as [-> ->]. apply HE. exact Hp.
Qed.

Lemma evnz_map_rev_only n g :
  rev_only g -> events_nonzero n -> events_nonzero (net_with n (socks n) (map g (fds n))).
Proof. intros Hg. apply evnz_map. intros p. destruct (Hg p) as [_ [A [B _]]]. auto. Qed.

Lemma evnz_apply_poll n raw :
  events_nonzero n -> events_nonzero (net_with n (socks n) (map (apply_poll raw) (fds n))).
Proof. apply evnz_map. intros p. split; reflexivity. Qed.

Lemma evnz_set_rev n r :
  events_nonzero n -> events_nonzero (net_with n (socks n) (map (pf_set_rev r) (fds n))).
Proof. apply evnz_map. intros p. split; reflexivity. Qed.

(* the poll loop of events_network_select *)
Lemma evnz_poll_loop timeout pl : forall s,
  events_nonzero (s_net s) -> events_nonzero (s_net (poll_loop timeout pl s)).
Proof.
  induction pl as [|a rest IH]; intros s HE.
  - exact (evnz_set_rev (s_net s) rb_none HE).
  - destruct a as [raw | [|]].
    + exact (evnz_apply_poll (s_net s) raw HE).
    + exact (evnz_set_rev (s_net s) rb_none HE).
    + cbn [poll_loop]. destruct (s_intr s).
      * exact (evnz_set_rev (s_net s) rb_none HE).
      * apply IH. exact (evnz_set_rev (s_net s) rb_none HE).
Qed.

(* events_network_select: init(), the poll loop, and the final fdscanpos = nfds - 1 *)
Lemma evnz_net_select tvo s0 :
  events_nonzero (s_net s0) -> events_nonzero (s_net (net_select tvo s0)).
Proof.
  intros HE p Hp.
  apply (evnz_poll_loop (sel_timeout tvo) (polls (s_env s0)) (set_net s0 (net_init (s_net s0)))
           (evnz_net_init _ HE) p).
  exact Hp.
Qed.

(* ... which leaves the cursor at the top *)
Lemma net_select_scan_top tvo s0 : scan_top (s_net (net_select tvo s0)).
Proof. unfold scan_top. reflexivity. Qed.

(* events_network_get: both outcomes *)
Lemma evnz_net_get_loop fuel : forall n ro n',
  events_nonzero n -> net_get_loop fuel n = Ok (ro, n') -> events_nonzero n'.
Proof.
  induction fuel as [|fuel IH]; intros n ro n' HE H; simpl in H; [discriminate|].
  destruct (scanpos n <? N.of_nat (length (fds n)))%N.
  2:{ inversion H; subst. exact HE. }
  destruct (rdn (fds n) (N.to_nat (scanpos n))) as [p0| | |] eqn:Ep0; simpl in H; try discriminate.
  apply rdn_ok in Ep0. set (pos := N.to_nat (scanpos n)) in *.
  pose proof (evnz_fold n pos p0 HE Ep0) as HE1.
  destruct (b_in (p_rev (pf_fold p0))).
  { rewrite pf_fold_fd in H.
    destruct (rdn (socks n) (p_fd p0)) as [k| | |]; simpl in H; try discriminate.
    match type of H with context [clearbit pos false ?st] => destruct (clearbit pos false st) as [n3| | |] eqn:Ecb end;
      simpl in H; try discriminate.
    inversion H; subst ro n'. eapply evnz_clearbit; [|exact Ecb]. exact HE1. }
  destruct (b_out (p_rev (pf_fold p0))).
  { rewrite pf_fold_fd in H.
    destruct (rdn (socks n) (p_fd p0)) as [k| | |]; simpl in H; try discriminate.
    match type of H with context [clearbit pos true ?st] => destruct (clearbit pos true st) as [n3| | |] eqn:Ecb end;
      simpl in H; try discriminate.
    inversion H; subst ro n'. eapply evnz_clearbit; [|exact Ecb]. exact HE1. }
  eapply IH; [|exact H]. apply evnz_net_set_scan. exact HE1.
Qed.

Lemma evnz_net_get n ro n' : events_nonzero n -> net_get n = Ok (ro, n') -> events_nonzero n'.
Proof. unfold net_get. apply evnz_net_get_loop. Qed.

(* ================================================================ examples *)
(* events_nonzero cannot be dropped *)
Definition bad_net : net_st :=
  {| net_inited := true;
     socks := [{| reader := None; writer := None; pollpos := Some 0 |}];
     fds := [{| p_fd := 0; p_ein := false; p_eout := false;
                p_rev := {| b_in := false; b_out := false; b_err := true; b_hup := false |} |}];
     fds_alloc := 16; scanpos := 0 |}.

Example events_nonzero_needed :
  NetInv bad_net /\ scan_top bad_net /\ (N.of_nat (length (fds bad_net)) < SIZE_WRAP)%N /\
  (exists n', net_get bad_net = Ok (None, n')) /\ fds_pending (fds bad_net) = true.
Proof.
  split.
  { constructor; unfold bad_net; cbn [fds socks net_inited].
    - intros [|[|j]] p Hp; simpl in Hp; try discriminate. inversion Hp; subst p. simpl. eauto.
    - intros [|[|i]] k j Hk Hj; simpl in Hk; try discriminate. inversion Hk; subst k. simpl in Hj.
      inversion Hj; subst j. simpl. eauto.
    - intros [|[|i]] k Hk Hj; simpl in Hk; try discriminate. inversion Hk; subst k. discriminate.
    - intros [|[|j]] p k dir Hp Hk; simpl in Hp; try discriminate. inversion Hp; subst p.
      simpl in Hk. inversion Hk; subst k. destruct dir; simpl; split; [discriminate | congruence | discriminate | congruence].
    - intros [|[|j]] p dir Hp Hr; simpl in Hp; try discriminate. inversion Hp; subst p.
      destruct dir; discriminate.
    - discriminate. }
  split; [vm_compute; reflexivity|]. split; [vm_compute; reflexivity|].
  split; [eexists; vm_compute; reflexivity | reflexivity].
Qed.

(* a non-trivial instance of the hypotheses of net_get_none_quiet: descriptor 3 registered for
   reading, a poll that reports nothing *)
Definition ok_net : net_st :=
  match net_register 7 3 0 0 (s_net (st_init [] [])) with
  | Ok (_, n) => net_set_scan n 0
  | _ => s_net (st_init [] [])
  end.

Example net_get_none_quiet_inst :
  NetInv ok_net /\ events_nonzero ok_net /\ scan_top ok_net /\
  (N.of_nat (length (fds ok_net)) < SIZE_WRAP)%N /\ length (fds ok_net) = 1 /\
  exists n', net_get ok_net = Ok (None, n').
Proof.
  assert (HI0 : NetInv (s_net (st_init [] []))) by (apply NetInv_empty; reflexivity).
  pose proof (evnz_st_init [] []) as HE0.
  unfold ok_net.
  destruct (net_register 7 3 0 0 (s_net (st_init [] []))) as [[e n]| | |] eqn:E;
    try (vm_compute in E; discriminate).
  destruct (net_register_spec _ _ _ _ _ _ _ HI0 E) as [HI _].
  pose proof (evnz_net_register _ _ _ _ _ _ _ HE0 E) as HE.
  split; [apply net_set_scan_inv; exact HI|]. split; [apply evnz_net_set_scan; exact HE|].
  vm_compute in E. inversion E; subst e n.
  split; [vm_compute; reflexivity|]. split; [vm_compute; reflexivity|]. split; [reflexivity|].
  eexists. vm_compute. reflexivity.
Qed.
