(* Non-vacuity: concrete programs on which the hypotheses of the C04/C05 theorems hold and the
   behaviours the properties talk about actually occur. *)
From Coq Require Import NArith ZArith List Bool Arith.
From LCP Require Import Base.CheckedMem Events.EventsTrace Events.EventsSpec Events.EventsModel Events.EventsInv.
Import ListNotations.

Definition rbm (i o e h : bool) : rbits := {| b_in := i; b_out := o; b_err := e; b_hup := h |}.

(* callbacks: 0 immediate; 1 reader of fd 3, cancels the WRITER of fd 3 - the descriptor under
   the scan cursor - from inside its callback; 2 that writer (never runs); 3 timer;
   4, 5 reader and writer of fd 4 (one descriptor carrying both directions, both fire) *)
Definition ex_prog : program :=
  [ [([], 0%Z)];
    [([ONetCancel 3 1], 0%Z)];
    [([], 0%Z)];
    [([], 0%Z)];
    [([], 0%Z)];
    [([], 0%Z)] ].
Definition ex_xops : list xop :=
  [ XOp (OImmReg 0 5 0 0); XOp (ONetReg 1 3 0 0); XOp (ONetReg 2 3 1 0);
    XOp (OTimerReg 3 (0, 500)%N 1 0); XOp (ONetReg 4 4 0 0); XOp (ONetReg 5 4 1 0);
    XRun; XRun ].
Definition ex_polls : list pollraw :=
  [ RReady [(3, rbm true true false false); (4, rbm true true false false)];
    (* fd 4 was the last array entry: its removal ends the scan (cursor >= nfds); the zero-timeout
       re-poll reports fd 3 again *)
    RReady [(3, rbm true true false false)]; RReady []; RReady []; RReady [] ].
Definition ex_clocks : list tv := [(1, 0); (1, 100); (1, 600); (1, 600); (1, 700); (1, 700)]%N.

Definition ex_result : res trace := run_case ex_prog ex_xops ex_polls ex_clocks 100.

Example ex_hyps :
  prog_norm ex_prog /\ Forall xop_norm ex_xops /\ Forall (fun t => tv_norm t = true) ex_clocks.
Proof.
  unfold prog_norm, ex_prog, ex_xops, ex_clocks.
  repeat match goal with
         | |- _ /\ _ => split
         | |- Forall _ _ => constructor
         | |- script_norm _ => unfold script_norm; simpl fst
         | |- xop_norm _ => simpl
         | |- op_norm _ => simpl
         | |- True => exact I
         | |- _ = true => reflexivity
         end.
Qed.

Example ex_runs :
  exists tr, ex_result = Ok tr /\
    (* all three kinds fire; both directions of fd 4 fire; the cancelled writer of fd 3 does not *)
    In (EInvoke 0) tr /\ In (EInvoke 1) tr /\ In (EInvoke 3) tr /\ In (EInvoke 4) tr /\ In (EInvoke 5) tr /\
    In (ECancel 2) tr /\ ~ In (EInvoke 2) tr /\
    check_c04 tr = true /\ check_c05 tr = true.
Proof.
  eexists. split; [vm_compute; reflexivity|].
  repeat split; try (vm_compute; tauto); try (vm_compute; reflexivity).
  vm_compute. intuition discriminate.
Qed.
