(* The timer heap of the event-loop model (ptrheap.c's sift loops as used by timerqueue.c):
   the operations permute the array; ptrheap_delete removes exactly the addressed element
   (the duplicate of the moved last element is never picked by the sift). *)
From Coq Require Import NArith ZArith List Bool Arith Lia Permutation.
From LCP Require Import Base.CheckedMem Events.EventsTrace Events.EventsModel Events.EventsLemmas.
Import ListNotations.
Local Open Scope res_scope.

Lemma upd_perm {A} (l : list A) j a b :
  nth_error l j = Some b -> Permutation (a :: l) (b :: upd_nth j a l).
Proof.
  revert j. induction l as [|y t IH]; intros [|j] H; simpl in *; try discriminate.
  - inversion H; subst. apply perm_swap.
  - apply IH in H. rewrite perm_swap. rewrite H. apply perm_swap.
Qed.

Lemma swap_perm {A} (l : list A) : forall i j a b,
  nth_error l i = Some a -> nth_error l j = Some b ->
  Permutation l (upd_nth j a (upd_nth i b l)).
Proof.
  induction l as [|x t IH]; intros [|i] [|j] a b Hi Hj; simpl in *; try discriminate.
  - inversion Hi; inversion Hj; subst. reflexivity.
  - inversion Hi; subst. apply upd_perm. exact Hj.
  - inversion Hj; subst. apply upd_perm. exact Hi.
  - constructor. apply IH; assumption.
Qed.

Lemma swap_nth_perm {A} (l l' : list A) i j : swap_nth i j l = Ok l' -> Permutation l l'.
Proof.
  unfold swap_nth. destruct (rdn l i) as [a| | |] eqn:Ea; simpl; try discriminate.
  destruct (rdn l j) as [b| | |] eqn:Eb; simpl; try discriminate.
  intros H. inversion H; subst. apply swap_perm; apply rdn_ok; assumption.
Qed.

Lemma swap_nth_other {A} (l l' : list A) i j m :
  swap_nth i j l = Ok l' -> m <> i -> m <> j -> nth_error l' m = nth_error l m.
Proof.
  unfold swap_nth. destruct (rdn l i) as [a| | |] eqn:Ea; simpl; try discriminate.
  destruct (rdn l j) as [b| | |] eqn:Eb; simpl; try discriminate.
  intros H Hi Hj. inversion H; subst. rewrite !nth_error_upd_nth_neq by congruence. reflexivity.
Qed.

Lemma swap_nth_at_j {A} (l l' : list A) i j a :
  swap_nth i j l = Ok l' -> nth_error l i = Some a -> nth_error l' j = Some a.
Proof.
  unfold swap_nth. destruct (rdn l i) as [a'| | |] eqn:Ea; simpl; try discriminate.
  destruct (rdn l j) as [b| | |] eqn:Eb; simpl; try discriminate.
  intros H Hi. inversion H; subst. apply rdn_ok in Ea. apply rdn_ok in Eb.
  rewrite nth_error_upd_nth_eq; [congruence|]. rewrite length_upd_nth. eapply nth_error_lt; eauto.
Qed.

Lemma swap_nth_length {A} (l l' : list A) i j : swap_nth i j l = Ok l' -> length l' = length l.
Proof. intros H. symmetry. apply Permutation_length. eapply swap_nth_perm; eauto. Qed.

(* ---------------------------------------------------------------- heapifyup *)
Lemma heapifyup_perm fuel : forall i h h', heapifyup fuel i h = Ok h' -> Permutation h h'.
Proof.
  induction fuel as [|fuel IH]; intros i h h' H; cbn [heapifyup] in H; [discriminate|].
  destruct (i =? 0); [inversion H; reflexivity|].
  destruct (rdn h i) as [a| | |]; cbn [bind] in H; try discriminate.
  destruct (rdn h ((i - 1) / 2)) as [b| | |]; cbn [bind] in H; try discriminate.
  destruct (tv_cmp (t_deadline a) (t_deadline b)); try (inversion H; reflexivity).
  destruct (swap_nth i ((i - 1) / 2) h) as [h1| | |] eqn:Es; cbn [bind] in H; try discriminate.
  rewrite (swap_nth_perm _ _ _ _ Es). eapply IH; eauto.
Qed.

(* positions above i are not touched *)
Lemma heapifyup_above fuel : forall i h h' m,
  heapifyup fuel i h = Ok h' -> i < m -> nth_error h' m = nth_error h m.
Proof.
  induction fuel as [|fuel IH]; intros i h h' m H Hm; cbn [heapifyup] in H; [discriminate|].
  destruct (i =? 0) eqn:E0; [inversion H; reflexivity|].
  destruct (rdn h i) as [a| | |]; cbn [bind] in H; try discriminate.
  destruct (rdn h ((i - 1) / 2)) as [b| | |]; cbn [bind] in H; try discriminate.
  destruct (tv_cmp (t_deadline a) (t_deadline b)); try (inversion H; reflexivity).
  destruct (swap_nth i ((i - 1) / 2) h) as [h1| | |] eqn:Es; cbn [bind] in H; try discriminate.
  apply Nat.eqb_neq in E0.
  assert ((i - 1) / 2 < i).
  { apply Nat.div_lt_upper_bound; lia. }
  rewrite (IH _ _ _ m H) by lia. eapply swap_nth_other; eauto; lia.
Qed.

(* ---------------------------------------------------------------- heapify *)
Lemma heapify_perm fuel : forall i n h h', heapify fuel i n h = Ok h' -> Permutation h h'.
Proof.
  induction fuel as [|fuel IH]; intros i n h h' H; cbn [heapify] in H; [discriminate|].
  destruct (rdn h i) as [x| | |]; cbn [bind] in H; try discriminate.
  match type of H with (let* m1 := ?e in _) = _ => destruct e as [m1| | |] eqn:E1 end; cbn [bind] in H; try discriminate.
  destruct (rdn h m1) as [xm| | |]; cbn [bind] in H; try discriminate.
  match type of H with (let* m2 := ?e in _) = _ => destruct e as [m2| | |] eqn:E2 end; cbn [bind] in H; try discriminate.
  destruct (m2 =? i); [inversion H; reflexivity|].
  destruct (swap_nth m2 i h) as [h1| | |] eqn:Es; cbn [bind] in H; try discriminate.
  rewrite (swap_nth_perm _ _ _ _ Es). eapply IH; eauto.
Qed.

Lemma tv_cmp_refl a : tv_cmp a a = Eq.
Proof. unfold tv_cmp. rewrite !N.compare_refl. reflexivity. Qed.

Lemma tv_cmp_antisym a b : tv_cmp a b = CompOpp (tv_cmp b a).
Proof.
  unfold tv_cmp. rewrite (N.compare_antisym (fst a) (fst b)).
  destruct (N.compare (fst a) (fst b)); simpl; auto. apply N.compare_antisym.
Qed.

Lemma tv_cmp_gt_not_gt a b : tv_cmp a b = Gt -> tv_cmp b a <> Gt.
Proof. intros H X. rewrite tv_cmp_antisym, X in H. discriminate. Qed.

(* the sift-down of an element whose deadline equals that of the element at the last position
   z = n - 1 never moves position z (z holds the stale copy in ptrheap_delete) *)
Lemma heapify_keeps_dup fuel : forall i n h h' z x y,
  heapify fuel i n h = Ok h' -> i < z -> S z = n ->
  nth_error h i = Some x -> nth_error h z = Some y -> t_deadline x = t_deadline y ->
  nth_error h' z = Some y.
Proof.
  induction fuel as [|fuel IH]; intros i n h h' z x y H Hiz Hzn Hx Hy Hd; cbn [heapify] in H; [discriminate|].
  unfold rdn in H at 1. rewrite Hx in H. cbn [bind] in H.
  (* what the selection of the minimum yields *)
  assert (Hsel : forall m2 : nat,
     (let* m1 :=
        (if 2 * i + 1 <? n
         then let* c := rdn h (2 * i + 1) in
              match tv_cmp (t_deadline x) (t_deadline c) with Gt => Ok (2 * i + 1) | _ => Ok i end
         else Ok i) in
      let* xm := rdn h m1 in
      let* m2' :=
        (if 2 * i + 2 <? n
         then let* c := rdn h (2 * i + 2) in
              match tv_cmp (t_deadline xm) (t_deadline c) with Gt => Ok (2 * i + 2) | _ => Ok m1 end
         else Ok m1) in
      Ok m2') = Ok m2 -> m2 = i \/ (i < m2 /\ m2 < z)).
  { intros m2 E.
    destruct (2 * i + 1 <? n) eqn:L1.
    - apply Nat.ltb_lt in L1.
      destruct (rdn h (2 * i + 1)) as [c1| | |] eqn:Ec1; cbn [bind] in E; try discriminate. apply rdn_ok in Ec1.
      destruct (tv_cmp (t_deadline x) (t_deadline c1)) eqn:C1; cbn [bind] in E.
      + (* m1 = i *)
        unfold rdn in E at 1. rewrite Hx in E. cbn [bind] in E.
        destruct (2 * i + 2 <? n) eqn:L2; [|inversion E; auto].
        apply Nat.ltb_lt in L2.
        destruct (rdn h (2 * i + 2)) as [c2| | |] eqn:Ec2; cbn [bind] in E; try discriminate. apply rdn_ok in Ec2.
        destruct (tv_cmp (t_deadline x) (t_deadline c2)) eqn:C2; inversion E; auto.
        right. split; [lia|]. assert (2 * i + 2 <> z); [|lia].
        intros Ez. rewrite Ez, Hy in Ec2. inversion Ec2; subst c2. rewrite Hd, tv_cmp_refl in C2. discriminate.
      + unfold rdn in E at 1. rewrite Hx in E. cbn [bind] in E.
        destruct (2 * i + 2 <? n) eqn:L2; [|inversion E; auto].
        apply Nat.ltb_lt in L2.
        destruct (rdn h (2 * i + 2)) as [c2| | |] eqn:Ec2; cbn [bind] in E; try discriminate. apply rdn_ok in Ec2.
        destruct (tv_cmp (t_deadline x) (t_deadline c2)) eqn:C2; inversion E; auto.
        right. split; [lia|]. assert (2 * i + 2 <> z); [|lia].
        intros Ez. rewrite Ez, Hy in Ec2. inversion Ec2; subst c2. rewrite Hd, tv_cmp_refl in C2. discriminate.
      + (* m1 = 2i+1 *)
        assert (Hne1 : 2 * i + 1 <> z).
        { intros Ez. rewrite Ez, Hy in Ec1. inversion Ec1; subst c1. rewrite Hd, tv_cmp_refl in C1. discriminate. }
        unfold rdn in E at 1. rewrite Ec1 in E. cbn [bind] in E.
        destruct (2 * i + 2 <? n) eqn:L2; [|inversion E; right; lia].
        apply Nat.ltb_lt in L2.
        destruct (rdn h (2 * i + 2)) as [c2| | |] eqn:Ec2; cbn [bind] in E; try discriminate. apply rdn_ok in Ec2.
        destruct (tv_cmp (t_deadline c1) (t_deadline c2)) eqn:C2; inversion E; try (right; lia).
        right. split; [lia|]. assert (2 * i + 2 <> z); [|lia].
        intros Ez. rewrite Ez, Hy in Ec2. inversion Ec2; subst c2.
        rewrite <- Hd in C2. apply tv_cmp_gt_not_gt in C2. contradiction.
    - cbn [bind] in E. unfold rdn in E at 1. rewrite Hx in E. cbn [bind] in E.
      destruct (2 * i + 2 <? n) eqn:L2; [|inversion E; auto].
      apply Nat.ltb_lt in L2. apply Nat.ltb_ge in L1. lia. }
  match type of H with (let* m1 := ?e in _) = _ => destruct e as [m1| | |] eqn:E1 end; cbn [bind] in H; try discriminate.
  destruct (rdn h m1) as [xm| | |] eqn:Exm; cbn [bind] in H; try discriminate.
  match type of H with (let* m2 := ?e in _) = _ => destruct e as [m2| | |] eqn:E2 end; cbn [bind] in H; try discriminate.
  cbn [bind] in Hsel. specialize (Hsel m2). rewrite Exm in Hsel. cbn [bind] in Hsel.
  rewrite E2 in Hsel. cbn [bind] in Hsel. specialize (Hsel eq_refl).
  destruct (m2 =? i) eqn:Emi; [inversion H; subst; exact Hy|]. apply Nat.eqb_neq in Emi.
  destruct Hsel as [-> | [Him2 Hm2z]]; [congruence|].
  destruct (swap_nth m2 i h) as [h1| | |] eqn:Es; cbn [bind] in H; try discriminate.
  assert (Hz1 : nth_error h1 z = Some y).
  { rewrite (swap_nth_other _ _ _ _ z Es) by lia. exact Hy. }
  assert (Hx1 : nth_error h1 m2 = Some x).
  { unfold swap_nth in Es. destruct (rdn h m2) as [a| | |] eqn:Ea; cbn [bind] in Es; try discriminate.
    unfold rdn in Es. rewrite Hx in Es. cbn [bind] in Es. inversion Es; subst h1.
    apply rdn_ok in Ea. rewrite nth_error_upd_nth_neq by congruence.
    apply nth_error_upd_nth_eq. eapply nth_error_lt; eauto. }
  eapply IH; eauto.
Qed.

(* ---------------------------------------------------------------- ptrheap_add / delete *)
Lemma heap_add_perm x h h' : heap_add x h = Ok h' -> Permutation (x :: h) h'.
Proof.
  unfold heap_add. intros H. apply heapifyup_perm in H. rewrite <- H. apply Permutation_cons_append.
Qed.

Lemma removelast_perm {A} (l : list A) y :
  nth_error l (length l - 1) = Some y -> Permutation l (y :: removelast l).
Proof.
  induction l as [|a l IH]; [simpl; discriminate|].
  destruct l as [|b t].
  - simpl. intros H. inversion H. reflexivity.
  - change (removelast (a :: b :: t)) with (a :: removelast (b :: t)).
    replace (length (a :: b :: t) - 1) with (S (length (b :: t) - 1)) by (simpl; lia).
    simpl nth_error at 1. intros H. apply IH in H.
    eapply perm_trans; [apply perm_skip; exact H | apply perm_swap].
Qed.

Lemma heap_delete_perm rc h h' :
  heap_delete rc h = Ok h' -> exists x, nth_error h rc = Some x /\ Permutation h (x :: h').
Proof.
  unfold heap_delete. intros H.
  destruct (length h =? 0) eqn:En; [discriminate|]. apply Nat.eqb_neq in En.
  set (n := length h) in *.
  destruct (rc =? n - 1) eqn:Erc.
  - apply Nat.eqb_eq in Erc. cbn [bind] in H. inversion H; subst h'.
    destruct (nth_error h rc) as [x|] eqn:Ex.
    + exists x. split; [reflexivity|]. apply removelast_perm. fold n. rewrite <- Erc. exact Ex.
    + exfalso. apply nth_error_None in Ex. fold n in Ex. lia.
  - apply Nat.eqb_neq in Erc.
    destruct (rdn h (n - 1)) as [l| | |] eqn:El; cbn [bind] in H; try discriminate. apply rdn_ok in El.
    destruct (rdn h rc) as [x| | |] eqn:Ex; cbn [bind] in H; try discriminate. apply rdn_ok in Ex.
    exists x. split; [exact Ex|].
    assert (Hrcn : rc < n) by (eapply nth_error_lt; eauto).
    set (h1 := upd_nth rc l h) in *.
    assert (Hh1l : nth_error h1 (n - 1) = Some l).
    { unfold h1. rewrite nth_error_upd_nth_neq by lia. exact El. }
    assert (Hh1rc : nth_error h1 rc = Some l).
    { unfold h1. apply nth_error_upd_nth_eq. exact Hrcn. }
    assert (Hlen1 : length h1 = n) by (unfold h1; apply length_upd_nth).
    (* the two sift branches both yield a permutation of h1 that still ends with l *)
    assert (Hh2 : forall h2,
      (let* u :=
         (if 0 <? rc
          then let* a := rdn h1 rc in
               let* b := rdn h1 ((rc - 1) / 2) in
               Ok match tv_cmp (t_deadline a) (t_deadline b) with Lt => true | _ => false end
          else Ok false) in
       if u then (let* h'0 := swap_nth rc ((rc - 1) / 2) h1 in heapifyup (S n) ((rc - 1) / 2) h'0)
       else heapify (S n) rc n h1) = Ok h2 ->
      Permutation h1 h2 /\ nth_error h2 (n - 1) = Some l).
    { intros h2 E.
      match type of E with (let* u := ?e in _) = _ => destruct e as [u| | |] eqn:Eu end; cbn [bind] in E; try discriminate.
      destruct u.
      - destruct (swap_nth rc ((rc - 1) / 2) h1) as [h1'| | |] eqn:Es; cbn [bind] in E; try discriminate.
        assert (Hp : (rc - 1) / 2 < rc).
        { destruct (0 <? rc) eqn:E0; [|inversion Eu]. apply Nat.ltb_lt in E0.
          apply Nat.div_lt_upper_bound; lia. }
        split.
        + rewrite (swap_nth_perm _ _ _ _ Es). eapply heapifyup_perm; eauto.
        + rewrite (heapifyup_above _ _ _ _ (n - 1) E) by lia.
          rewrite (swap_nth_other _ _ _ _ (n - 1) Es) by lia. exact Hh1l.
      - split; [eapply heapify_perm; eauto|].
        eapply (heapify_keeps_dup (S n) rc n h1 h2 (n - 1) l l); eauto; lia. }
    match type of H with (let* h2 := ?e in _) = _ => destruct e as [h2| | |] eqn:E2 end; cbn [bind] in H; try discriminate.
    inversion H; subst h'.
    destruct (Hh2 h2 eq_refl) as [Hperm Hlast].
    assert (Hlen2 : length h2 = n) by (rewrite <- (Permutation_length Hperm); exact Hlen1).
    assert (Hp2 : Permutation h2 (l :: removelast h2)).
    { apply removelast_perm. rewrite Hlen2. exact Hlast. }
    assert (Hp1 : Permutation (l :: h) (x :: h1)) by (apply upd_perm; exact Ex).
    apply Permutation_cons_inv with (a := l).
    rewrite Hp1. rewrite perm_swap. constructor. rewrite Hperm. exact Hp2.
Qed.

Lemma heap_index_some rid h i :
  heap_index rid h = Some i -> exists x, nth_error h i = Some x /\ r_rid (t_rec x) = rid.
Proof.
  revert i. induction h as [|y t IH]; intros i H; simpl in H; [discriminate|].
  destruct (Nat.eqb (r_rid (t_rec y)) rid) eqn:E.
  - inversion H; subst. exists y. split; [reflexivity | apply Nat.eqb_eq; exact E].
  - destruct (heap_index rid t) as [j|] eqn:Ej; simpl in H; [|discriminate].
    inversion H; subst. apply IH. reflexivity.
Qed.
