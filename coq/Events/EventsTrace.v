(* Event loop (events/events*.c): the vocabulary shared by the model and the spec.
   A TRACE is what a client of the library can observe through its own calls and through the
   link-time interposers (poll, monoclock_get): see DESIGN.md section 5, C04/C05.
   Nothing in this file mentions the library's internal state. *)
From Coq Require Import NArith ZArith List Bool.
Import ListNotations.

(* struct timeval as (tv_sec, tv_usec) *)
Definition tv := (N * N)%type.
Definition us (t : tv) : N := (fst t * 1000000 + snd t)%N.
Definition tv_norm (t : tv) : bool := (snd t <? 1000000)%N.

(* what was registered: immediate with priority; descriptor + direction (false = read,
   true = write); timer with its relative timeout *)
Inductive kind :=
| KImm (prio : nat)
| KNet (fd : nat) (dir : bool)
| KTimer (t : tv).

Inductive errc := E0 | EEXIST | ENOENT | ENOMEM | EOTHER.

(* revents of one descriptor as returned by poll *)
Record rbits := { b_in : bool; b_out : bool; b_err : bool; b_hup : bool }.
Definition rb_none : rbits := {| b_in := false; b_out := false; b_err := false; b_hup := false |}.
Definition rb_is_none (b : rbits) : bool := negb (b_in b || b_out b || b_err b || b_hup b).
Definition rb_dir (b : rbits) (dir : bool) : bool := if dir then b_out b else b_in b.
Definition rb_errhup (b : rbits) : bool := b_err b || b_hup b.

(* result of one poll(2) call: the non-zero revents it stored, by descriptor; or EINTR
   (intr = true: the "signal handler" called events_interrupt before poll returned) *)
Inductive pollans :=
| PReady (l : list (nat * rbits))
| PEintr (intr : bool).

Inductive event :=
| ERegister (r : nat) (k : kind)           (* a register call succeeded; r is fresh *)
| ERegFailImm (prio : nat) (e : errc)
| ERegFailNet (fd op : Z) (e : errc)
| ERegFailTimer (t : tv) (e : errc)
| ECancel (r : nat)                        (* a cancel call for live registration r succeeded *)
| ECancelFail (fd op : Z) (e : errc)       (* events_network_cancel returned -1 *)
| ECancelBogus (fd op : Z)                 (* it returned 0 although the client had nothing there *)
| EReset (r : nat)                         (* events_timer_reset returned 0 *)
| EClock (t : tv)                          (* a monoclock_get reading *)
| EPoll (timeout : Z) (fdset : list (nat * (bool * bool))) (ans : pollans)
| EInvoke (r : nat)                        (* user callback entered with the cookie of r *)
| EInvokeBogus                             (* ... with the cookie of a registration that never succeeded *)
| ECbEnd (rc : Z)                          (* user callback returns rc *)
| EInterrupt                               (* events_interrupt() called by the client *)
| EDone                                    (* the client set the flag events_spin watches *)
| ERunStart | ERunEnd (rc : Z)
| ESpinStart | ESpinEnd (rc : Z).

Definition trace := list event.

(* decidable equalities used by the checkers *)
Definition kind_net_eqb (k : kind) (fd : nat) (dir : bool) : bool :=
  match k with KNet f d => Nat.eqb f fd && Bool.eqb d dir | _ => false end.
Definition is_timer (k : kind) : bool := match k with KTimer _ => true | _ => false end.
Definition is_imm (k : kind) : bool := match k with KImm _ => true | _ => false end.
Definition is_net (k : kind) : bool := match k with KNet _ _ => true | _ => false end.

(* the client's encoding of the direction argument *)
Definition op_dir (op : Z) : option bool :=
  if Z.eqb op 0 then Some false else if Z.eqb op 1 then Some true else None.

Fixpoint lookup_fd {A} (fd : nat) (l : list (nat * A)) : option A :=
  match l with
  | [] => None
  | (f, a) :: r => if Nat.eqb f fd then Some a else lookup_fd fd r
  end.
