(* C14 for event registrations: the model's reading of a refused allocation inside a register
   call, and what the C04 invariant says about it. *)
From Coq Require Import NArith ZArith List Bool Arith.
From LCP Require Import Base.CheckedMem Events.EventsTrace Events.EventsSpec Events.EventsModel Events.EventsSpecProofs Events.EventsInv.
Import ListNotations.

Definition failing_reg (o : op) : bool :=
  match o with
  | OImmReg _ _ _ af | ONetReg _ _ _ af | OTimerReg _ _ _ af => negb (af =? 0)
  | _ => false
  end.

(* new is old preceded by: one failure report, possibly after one clock reading *)
Definition only_failure_events (old new : list event) : bool :=
  match new with
  | (ERegFailImm _ ENOMEM | ERegFailNet _ _ ENOMEM) :: t => Nat.eqb (length t) (length old)
  | ERegFailTimer _ ENOMEM :: EClock _ :: t => Nat.eqb (length t) (length old)
                                               || Nat.eqb (S (length t)) (length old)
  | ERegFailTimer _ ENOMEM :: t => Nat.eqb (length t) (length old)
  | _ => false
  end.

Lemma failed_reg_unchanged o s s' :
  failing_reg o = true -> exec_op o s = Ok s' ->
  s_imm s' = s_imm s /\ s_net s' = s_net s /\ s_tmr s' = s_tmr s /\ s_cl s' = s_cl s /\
  s_intr s' = s_intr s /\ only_failure_events (s_tr s) (s_tr s') = true.
Proof.
  intros Hf H. destruct o; simpl in Hf; try discriminate.
  - unfold exec_op in H. destruct (prio <? PRIO_LIMIT); [|discriminate].
    rewrite Hf in H. inversion H; subst. simpl. rewrite Nat.eqb_refl. auto 10.
  - unfold exec_op in H. rewrite Hf in H. inversion H; subst. simpl. rewrite Nat.eqb_refl. auto 10.
  - unfold exec_op in H. destruct (af =? 1) eqn:E1.
    + inversion H; subst. simpl. destruct (s_tr s); rewrite ?Nat.eqb_refl; auto 10.
      destruct e; simpl; rewrite ?Nat.eqb_refl, ?orb_true_r; auto 10.
    + rewrite Hf in H. unfold read_clock in H.
      destruct (clocks (s_env s)); inversion H; subst; simpl; rewrite Nat.eqb_refl; auto 10.
Qed.

Lemma failed_reg_inert p xs pl cl fuel tr :
  prog_norm p -> Forall xop_norm xs -> Forall (fun t => tv_norm t = true) cl ->
  run_case p xs pl cl fuel = Ok tr ->
  ~ In EInvokeBogus tr /\
  (forall t1 r t2, tr = t1 ++ EInvoke r :: t2 -> live_in t1 r) /\
  reregistrable tr.
Proof.
  intros A B C D. destruct (model_C04_holds p xs pl cl fuel tr A B C D) as [_ [[_ [H1 H2]] [H3 _]]]. auto.
Qed.

(* non-vacuity: a program in which a registration of each kind fails and is retried *)
Example ex_failing_regs :
  let xs := [ XOp (OImmReg 0 3 0 1); XOp (OImmReg 0 3 0 0);
              XOp (ONetReg 0 2 0 1); XOp (ONetReg 0 2 0 0);
              XOp (OTimerReg 0 (0, 10)%N 1 2); XOp (OTimerReg 0 (0, 10)%N 1 0); XRun ] in
  exists tr, run_case [[([], 0%Z)]] xs [RReady []; RReady []] [(1, 0); (1, 5); (1, 6); (1, 7)]%N 50 = Ok tr /\
             check_c14_events tr = true /\ In (EInvoke 0) tr.
Proof.
  eexists. split; [vm_compute; reflexivity|]. split; [vm_compute; reflexivity|]. vm_compute. tauto.
Qed.
