(* C14 for event registrations: the model's reading of a refused allocation inside a register
   call, and what the C04 invariant says about it. *)
From Coq Require Import NArith ZArith List Bool Arith.
From LCP Require Import Base.CheckedMem Events.EventsTrace Events.EventsSpec Events.EventsModel Events.EventsNetInv Events.EventsSpecProofs Events.EventsInv.
Import ListNotations.

Definition failing_reg (o : op) : bool :=
  match o with
  | OImmReg _ _ _ af | ONetReg _ _ _ af | OTimerReg _ _ _ af => negb (af =? 0)
  | _ => false
  end.

(* new is old preceded by: one failure report, possibly after one clock reading *)
Definition only_failure_events (old new : list event) : bool :=
  match new with
  | (ERegFailImm _ ENOMEM | ERegFailNet _ _ ENOMEM) :: t => Nat.eqb (length t) (length old)
  | ERegFailTimer _ ENOMEM :: EClock _ :: t => Nat.eqb (length t) (length old)
                                               || Nat.eqb (S (length t)) (length old)
  | ERegFailTimer _ ENOMEM :: t => Nat.eqb (length t) (length old)
  | _ => false
  end.

(* What a refused registration leaves behind.  exec_op mirrors the unwinding of the C for every
   point at which the call can be refused (EventsModel: net_register_refused - init() done,
   socket list grown, record stored and taken out again by err1; timer_register_refused - the
   timer queue created by the call stays), so this is a statement about those partial states:
   nothing a later call can read has changed, except that an (empty) timer queue may now exist. *)
Lemma failed_reg_unchanged o s s' :
  failing_reg o = true -> NetInv (s_net s) -> exec_op o s = Ok s' ->
  s_imm s' = s_imm s /\ s_cl s' = s_cl s /\ s_intr s' = s_intr s /\
  heap (s_tmr s') = heap (s_tmr s) /\ (tq_inited (s_tmr s) = true -> tq_inited (s_tmr s') = true) /\
  NetInv (s_net s') /\ (forall f d, field (s_net s') f d = field (s_net s) f d) /\
  (forall f, rev_at (s_net s') f = rev_at (s_net s) f) /\ fds (s_net s') = fds (s_net s) /\
  match o with
  | OImmReg _ _ _ _ => s_net s' = s_net s /\ s_tmr s' = s_tmr s
  | ONetReg _ _ _ _ => s_tmr s' = s_tmr s
  | OTimerReg _ _ _ af => s_net s' = s_net s /\ (af <= 2 -> s_tmr s' = s_tmr s)
  | _ => True
  end /\
  only_failure_events (s_tr s) (s_tr s') = true.
Proof.
  intros Hf HI H. destruct o; simpl in Hf; try discriminate.
  - unfold exec_op in H. destruct (prio <? PRIO_LIMIT); [|discriminate].
    rewrite Hf in H. inversion H; subst. simpl. rewrite Nat.eqb_refl. auto 20.
  - unfold exec_op in H. rewrite Hf in H. inversion H; subst. cbn [s_imm s_cl s_intr s_tmr s_net s_tr emit set_net].
    destruct (net_register_refused_spec af cb fd opn (next_rid (s_cl s)) (s_net s) HI) as [A [B [C D]]].
    simpl. rewrite Nat.eqb_refl. auto 20.
  - unfold exec_op in H. apply negb_true_iff in Hf. rewrite Hf in H.
    assert (H0 : s_imm (timer_register_refused af s) = s_imm s /\ s_cl (timer_register_refused af s) = s_cl s /\
                 s_intr (timer_register_refused af s) = s_intr s /\ s_net (timer_register_refused af s) = s_net s /\
                 heap (s_tmr (timer_register_refused af s)) = heap (s_tmr s) /\
                 (tq_inited (s_tmr s) = true -> tq_inited (s_tmr (timer_register_refused af s)) = true) /\
                 (af <= 2 -> s_tmr (timer_register_refused af s) = s_tmr s) /\
                 s_tr (timer_register_refused af s) = s_tr s /\ s_env (timer_register_refused af s) = s_env s).
    { unfold timer_register_refused. destruct (3 <=? af) eqn:E3; [|auto 20].
      apply Nat.leb_le in E3. simpl. repeat split; auto. intros X. exfalso. apply (Nat.lt_irrefl 2). eapply Nat.lt_le_trans; [|exact X]. exact E3. }
    set (s0 := timer_register_refused af s) in *.
    destruct H0 as [A1 [A2 [A3 [A4 [A5 [A6 [A7 [A8 A9]]]]]]]].
    assert (Hviews : NetInv (s_net s0) /\ (forall f d, field (s_net s0) f d = field (s_net s) f d) /\
                     (forall f, rev_at (s_net s0) f = rev_at (s_net s) f) /\ fds (s_net s0) = fds (s_net s)).
    { rewrite A4. auto. }
    destruct Hviews as [V1 [V2 [V3 V4]]].
    destruct (Nat.odd af).
    + inversion H; subst s'. cbn [s_imm s_cl s_intr s_tmr s_net s_tr emit]. rewrite A8.
      refine (conj A1 (conj A2 (conj A3 (conj A5 (conj A6 (conj V1 (conj V2 (conj V3 (conj V4 (conj (conj A4 A7) _)))))))))).
      simpl. destruct (s_tr s) as [|e l]; [reflexivity|]. destruct e; simpl; rewrite ?Nat.eqb_refl, ?orb_true_r; auto.
    + unfold read_clock in H. rewrite A9 in H.
      destruct (clocks (s_env s)); inversion H; subst s'; cbn [s_imm s_cl s_intr s_tmr s_net s_tr emit set_env]; rewrite A8;
        (refine (conj A1 (conj A2 (conj A3 (conj A5 (conj A6 (conj V1 (conj V2 (conj V3 (conj V4 (conj (conj A4 A7) _))))))))));
         simpl; rewrite Nat.eqb_refl; reflexivity).
Qed.

Lemma failed_reg_inert p xs pl cl fuel tr :
  prog_norm p -> Forall xop_norm xs -> Forall (fun t => tv_norm t = true) cl ->
  run_case p xs pl cl fuel = Ok tr ->
  ~ In EInvokeBogus tr /\
  (forall t1 r t2, tr = t1 ++ EInvoke r :: t2 -> live_in t1 r) /\
  reregistrable tr.
Proof.
  intros A B C D. destruct (model_C04_holds p xs pl cl fuel tr A B C D) as [_ [[_ [H1 H2]] [H3 _]]]. auto.
Qed.

(* non-vacuity: a program in which a registration of each kind fails and is retried *)
Example ex_failing_regs :
  let xs := [ XOp (OImmReg 0 3 0 1); XOp (OImmReg 0 3 0 0);
              XOp (ONetReg 0 2 0 1); XOp (ONetReg 0 2 0 0);
              XOp (OTimerReg 0 (0, 10)%N 1 2); XOp (OTimerReg 0 (0, 10)%N 1 0); XRun ] in
  exists tr, run_case [[([], 0%Z)]] xs [RReady []; RReady []] [(1, 0); (1, 5); (1, 6); (1, 7)]%N 50 = Ok tr /\
             check_c14_events tr = true /\ In (EInvoke 0) tr.
Proof.
  eexists. split; [vm_compute; reflexivity|]. split; [vm_compute; reflexivity|]. vm_compute. tauto.
Qed.

(* the partial states are real: a registration of descriptor 2 refused in events_mkrec (stage 3)
   leaves init() done and three empty socket records; refused in growpollfd (stage 4) the record
   stored in the reader field is gone again; and a timer registration refused after it created the
   timer queue makes the next events_run read the clock once more (in events_timer_get) than after
   a refusal that left no queue *)
Definition nclocks (t : trace) : nat :=
  length (filter (fun e => match e with EClock _ => true | _ => false end) t).

Example ex_refused_partial_states :
  (exists s, exec_op (ONetReg 0 2 0 3) (st_init [] []) = Ok s /\
             length (socks (s_net s)) = 3 /\ net_inited (s_net s) = true /\ fds (s_net s) = []) /\
  (exists s, exec_op (ONetReg 0 2 0 4) (st_init [] []) = Ok s /\
             length (socks (s_net s)) = 3 /\ field (s_net s) 2 false = None) /\
  (exists t1 t3,
     run_case [] [XOp (OTimerReg 0 (0, 10)%N 1 1); XRun] [RReady []] [(1, 0)%N] 50 = Ok t1 /\
     run_case [] [XOp (OTimerReg 0 (0, 10)%N 1 3); XRun] [RReady []] [(1, 0)%N] 50 = Ok t3 /\
     nclocks t1 = 0 /\ nclocks t3 = 1 /\ check_c04 t3 = true /\ check_c05 t3 = true).
Proof.
  split; [eexists; split; [vm_compute; reflexivity|]; repeat split; vm_compute; reflexivity|].
  split; [eexists; split; [vm_compute; reflexivity|]; repeat split; vm_compute; reflexivity|].
  eexists. eexists. split; [vm_compute; reflexivity|]. split; [vm_compute; reflexivity|].
  repeat split; vm_compute; reflexivity.
Qed.
