(* The timer heap of the event-loop model keeps the HEAP ORDER: every element is >= its parent
   (ptrheap.c's heapifyup / heapify as used by ptrheap_add, ptrheap_delete and
   timerqueue_increase).  EventsHeap.v shows the operations permute the array; this file
   shows they preserve the order invariant, hence the root is a minimum. *)
From Coq Require Import NArith ZArith List Bool Arith Lia Permutation.
From LCP Require Import Base.CheckedMem Events.EventsTrace Events.EventsModel Events.EventsLemmas Events.EventsHeap.
Import ListNotations.
Local Open Scope res_scope.
From Coq Require Import ZifyNat.
Unset Lia Cache.
Ltac Zify.zify_post_hook ::= Z.div_mod_to_equations.

Definition tv_le (a b : tv) : Prop := tv_cmp a b <> Gt.
Definition tle (a b : timer) : Prop := tv_le (t_deadline a) (t_deadline b).
Definition hparent (i : nat) : nat := (i - 1) / 2.
Definition heap_ord (h : list timer) : Prop :=
  forall i x p, 0 < i -> nth_error h i = Some x -> nth_error h (hparent i) = Some p -> tle p x.

(* ---------------------------------------------------------------- the order on deadlines *)
Lemma tv_le_refl a : tv_le a a.
Proof. unfold tv_le. rewrite tv_cmp_refl. discriminate. Qed.

Lemma tv_le_trans a b c : tv_le a b -> tv_le b c -> tv_le a c.
Proof.
  unfold tv_le, tv_cmp. destruct a as [a1 a2], b as [b1 b2], c as [c1 c2]. cbn [fst snd].
  destruct (N.compare_spec a1 b1); destruct (N.compare_spec b1 c1); destruct (N.compare_spec a1 c1);
    destruct (N.compare_spec a2 b2); destruct (N.compare_spec b2 c2); destruct (N.compare_spec a2 c2);
    intros Hab Hbc; try congruence; try discriminate; exfalso; lia.
Qed.

Lemma tv_le_total a b : tv_le a b \/ tv_le b a.
Proof.
  unfold tv_le. rewrite (tv_cmp_antisym b a). destruct (tv_cmp a b); cbn [CompOpp].
  - left; discriminate.
  - left; discriminate.
  - right; discriminate.
Qed.

Lemma tv_cmp_lt_le a b : tv_cmp a b = Lt -> tv_le a b.
Proof. unfold tv_le. intros ->. discriminate. Qed.

Lemma tv_cmp_not_lt_le a b : tv_cmp a b <> Lt -> tv_le b a.
Proof.
  unfold tv_le. rewrite (tv_cmp_antisym b a). destruct (tv_cmp a b); cbn [CompOpp]; congruence.
Qed.

Lemma tv_cmp_gt_le a b : tv_cmp a b = Gt -> tv_le b a.
Proof. intros H. apply tv_cmp_not_lt_le. congruence. Qed.

(* for normalised values the order is the order of the microsecond count *)
Lemma tv_le_us a b : tv_norm a = true -> tv_norm b = true -> (tv_le a b <-> (us a <= us b)%N).
Proof.
  unfold tv_norm, tv_le, tv_cmp, us. destruct a as [a1 a2], b as [b1 b2]. cbn [fst snd].
  intros Ha Hb. apply N.ltb_lt in Ha. apply N.ltb_lt in Hb.
  destruct (N.compare_spec a1 b1); destruct (N.compare_spec a2 b2); split; intros Hle;
    try congruence; try discriminate; try lia; try (exfalso; lia).
Qed.

Lemma tle_refl a : tle a a.
Proof. apply tv_le_refl. Qed.

Lemma tle_trans a b c : tle a b -> tle b c -> tle a c.
Proof. apply tv_le_trans. Qed.

(* ---------------------------------------------------------------- index arithmetic *)
Lemma hparent_lt j : 0 < j -> hparent j < j.
Proof. unfold hparent. intros H. lia. Qed.

Lemma hparent_children j i : 0 < j -> hparent j = i -> j = 2 * i + 1 \/ j = 2 * i + 2.
Proof. unfold hparent. intros H1 H2. lia. Qed.

Lemma hparent_child1 i : hparent (2 * i + 1) = i.
Proof. unfold hparent. lia. Qed.

Lemma hparent_child2 i : hparent (2 * i + 2) = i.
Proof. unfold hparent. lia. Qed.

(* ---------------------------------------------------------------- swap_nth, pointwise *)
Lemma swap_nth_spec {A} (l l' : list A) i j :
  swap_nth i j l = Ok l' ->
  exists a b, nth_error l i = Some a /\ nth_error l j = Some b /\
    nth_error l' j = Some a /\ (i <> j -> nth_error l' i = Some b) /\
    (forall m, m <> i -> m <> j -> nth_error l' m = nth_error l m) /\ length l' = length l.
Proof.
  intros H. pose proof (swap_nth_length _ _ _ _ H) as Hlen.
  pose proof (fun m => swap_nth_other _ _ _ _ m H) as Hoth.
  pose proof (fun a => swap_nth_at_j _ _ _ _ a H) as Hj.
  unfold swap_nth in H. destruct (rdn l i) as [a| | |] eqn:Ea; cbn [bind] in H; try discriminate.
  destruct (rdn l j) as [b| | |] eqn:Eb; cbn [bind] in H; try discriminate.
  apply rdn_ok in Ea. apply rdn_ok in Eb. inversion H; subst l'.
  exists a, b. repeat split; auto.
  intros Hne. rewrite nth_error_upd_nth_neq by congruence.
  apply nth_error_upd_nth_eq. eapply nth_error_lt; eauto.
Qed.

(* ---------------------------------------------------------------- prefixes *)
Lemma heap_ord_nil : heap_ord [].
Proof. intros i x p _ H. destruct i; discriminate. Qed.

Lemma heap_ord_removelast h : heap_ord h -> heap_ord (removelast h).
Proof.
  intros Hh i x p Hi Hx Hp. rewrite nth_error_removelast in Hx, Hp.
  destruct (i <? length h - 1); [|discriminate].
  destruct (hparent i <? length h - 1); [|discriminate].
  eapply Hh; eauto.
Qed.

(* the root is a minimum *)
Lemma heap_ord_root_nth h m : heap_ord h -> nth_error h 0 = Some m ->
  forall j x, nth_error h j = Some x -> tle m x.
Proof.
  intros Hh Hm j. induction j as [j IH] using lt_wf_ind. intros x Hx.
  destruct (Nat.eq_dec j 0) as [->|Hj].
  - rewrite Hm in Hx. inversion Hx. apply tle_refl.
  - assert (Hlt : hparent j < j) by (apply hparent_lt; lia).
    destruct (nth_error h (hparent j)) as [p|] eqn:Ep.
    + eapply tle_trans; [eapply IH; eauto|]. apply (Hh j x p); auto; lia.
    + apply nth_error_None in Ep. apply nth_error_lt in Hx. lia.
Qed.

Lemma heap_ord_root h m rest x : heap_ord h -> h = m :: rest -> In x h -> tle m x.
Proof.
  intros Hh -> Hin. apply In_nth_error in Hin. destruct Hin as [j Hj].
  eapply heap_ord_root_nth; eauto; reflexivity.
Qed.

(* ---------------------------------------------------------------- sift up *)
(* ordered except possibly at the edge (hparent i, i); the children of i are already
   >= the parent of i *)
Definition up_inv (h : list timer) (i : nat) : Prop :=
  (forall j x p, 0 < j -> j <> i -> nth_error h j = Some x -> nth_error h (hparent j) = Some p -> tle p x) /\
  (forall j x g, 0 < j -> hparent j = i -> 0 < i ->
     nth_error h j = Some x -> nth_error h (hparent i) = Some g -> tle g x).

Lemma up_inv_done h i :
  up_inv h i ->
  (0 < i -> forall a b, nth_error h i = Some a -> nth_error h (hparent i) = Some b -> tle b a) ->
  heap_ord h.
Proof.
  intros [U1 _] He j x p Hj0 Hx Hp. destruct (Nat.eq_dec j i) as [->|Hji].
  - eapply He; eauto.
  - apply (U1 j x p); auto.
Qed.

Lemma up_step h h1 i a b :
  up_inv h i -> 0 < i -> nth_error h i = Some a -> nth_error h (hparent i) = Some b ->
  tle a b -> swap_nth i (hparent i) h = Ok h1 -> up_inv h1 (hparent i).
Proof.
  intros [U1 U2] Hi Ha Hb Hab Hs.
  pose proof (hparent_lt i Hi) as Hpi.
  destruct (swap_nth_spec _ _ _ _ Hs) as (a' & b' & Ha' & Hb' & Hj & Hi' & Hoth & Hlen).
  rewrite Ha in Ha'. inversion Ha'; subst a'. rewrite Hb in Hb'. inversion Hb'; subst b'.
  assert (Hi1 : nth_error h1 i = Some b) by (apply Hi'; lia). clear Hi'.
  split.
  - intros j x q Hj0 Hjp Hx Hq.
    destruct (Nat.eq_dec j i) as [->|Hji].
    + rewrite Hi1 in Hx. rewrite Hj in Hq. inversion Hx; inversion Hq; subst. exact Hab.
    + rewrite Hoth in Hx by assumption.
      destruct (Nat.eq_dec (hparent j) i) as [Ei|Ei].
      * rewrite Ei, Hi1 in Hq. inversion Hq; subst q. apply (U2 j x b); auto.
      * destruct (Nat.eq_dec (hparent j) (hparent i)) as [Ep|Ep].
        -- rewrite Ep, Hj in Hq. inversion Hq; subst q.
           eapply tle_trans; [exact Hab|]. apply (U1 j x b); auto. rewrite Ep. exact Hb.
        -- rewrite Hoth in Hq by assumption. apply (U1 j x q); auto.
  - intros j x g Hj0 Hjp Hp0 Hx Hg.
    pose proof (hparent_lt (hparent i) Hp0). pose proof (hparent_lt j Hj0).
    rewrite Hoth in Hg by lia.
    assert (Hgb : tle g b) by (apply (U1 (hparent i) b g); auto; lia).
    destruct (Nat.eq_dec j i) as [->|Hji].
    + rewrite Hi1 in Hx. inversion Hx; subst x. exact Hgb.
    + rewrite Hoth in Hx by lia. eapply tle_trans; [exact Hgb|].
      apply (U1 j x b); auto. rewrite Hjp. exact Hb.
Qed.

Lemma heapifyup_ord fuel : forall i h h',
  up_inv h i -> heapifyup fuel i h = Ok h' -> heap_ord h'.
Proof.
  induction fuel as [|fuel IH]; intros i h h' Hinv H; cbn [heapifyup] in H; [discriminate|].
  destruct (i =? 0) eqn:E0.
  - apply Nat.eqb_eq in E0. subst i. inversion H; subst h'.
    apply (up_inv_done h 0 Hinv). intros X. inversion X.
  - apply Nat.eqb_neq in E0.
    destruct (rdn h i) as [a| | |] eqn:Ea; cbn [bind] in H; try discriminate.
    destruct (rdn h ((i - 1) / 2)) as [b| | |] eqn:Eb; cbn [bind] in H; try discriminate.
    apply rdn_ok in Ea. apply rdn_ok in Eb. change ((i - 1) / 2) with (hparent i) in *.
    assert (Hdone : tv_cmp (t_deadline a) (t_deadline b) <> Lt -> heap_ord h).
    { intros C. apply (up_inv_done h i Hinv). intros _ a' b' Ha' Hb'.
      rewrite Ea in Ha'. rewrite Eb in Hb'. inversion Ha'; inversion Hb'; subst.
      apply tv_cmp_not_lt_le. exact C. }
    destruct (tv_cmp (t_deadline a) (t_deadline b)) eqn:C.
    + inversion H; subst h'. apply Hdone. discriminate.
    + destruct (swap_nth i (hparent i) h) as [h1| | |] eqn:Es; cbn [bind] in H; try discriminate.
      eapply IH; [|exact H]. eapply (up_step h h1 i a b); eauto; [lia|].
      apply tv_cmp_lt_le. exact C.
    + inversion H; subst h'. apply Hdone. discriminate.
Qed.

(* ---------------------------------------------------------------- sift down *)
(* ordered except possibly at the edges (i, child of i); the children of i are already
   >= the parent of i *)
Definition down_inv (h : list timer) (i : nat) : Prop :=
  (forall j x p, 0 < j -> hparent j <> i ->
     nth_error h j = Some x -> nth_error h (hparent j) = Some p -> tle p x) /\
  (forall j x g, 0 < j -> hparent j = i -> 0 < i ->
     nth_error h j = Some x -> nth_error h (hparent i) = Some g -> tle g x).

(* one "is the child smaller" step of the selection of the minimum *)
Lemma pick_spec (h : list timer) n k m xm m' :
  n = length h -> nth_error h m = Some xm ->
  (if k <? n
   then let* c := rdn h k in
        match tv_cmp (t_deadline xm) (t_deadline c) with Gt => Ok k | _ => Ok m end
   else Ok m) = Ok m' ->
  exists y, nth_error h m' = Some y /\ (m' = m \/ m' = k) /\ tle y xm /\
            (forall c, nth_error h k = Some c -> tle y c).
Proof.
  intros Hn Hm E. destruct (k <? n) eqn:L.
  - destruct (rdn h k) as [c| | |] eqn:Ec; cbn [bind] in E; try discriminate. apply rdn_ok in Ec.
    destruct (tv_cmp (t_deadline xm) (t_deadline c)) eqn:C; inversion E; subst m'.
    + exists xm. split; [exact Hm|]. split; [auto|]. split; [apply tle_refl|].
      intros c' Hc'. rewrite Ec in Hc'. inversion Hc'; subst c'. unfold tle, tv_le. rewrite C. discriminate.
    + exists xm. split; [exact Hm|]. split; [auto|]. split; [apply tle_refl|].
      intros c' Hc'. rewrite Ec in Hc'. inversion Hc'; subst c'. unfold tle, tv_le. rewrite C. discriminate.
    + exists c. split; [exact Ec|]. split; [auto|]. split; [apply tv_cmp_gt_le; exact C|].
      intros c' Hc'. rewrite Ec in Hc'. inversion Hc'; subst c'. apply tle_refl.
  - inversion E; subst m'. apply Nat.ltb_ge in L.
    exists xm. split; [exact Hm|]. split; [auto|]. split; [apply tle_refl|].
    intros c Hc. apply nth_error_lt in Hc. lia.
Qed.

Lemma down_step h h1 i m2 x y :
  down_inv h i -> nth_error h i = Some x -> nth_error h m2 = Some y ->
  (m2 = 2 * i + 1 \/ m2 = 2 * i + 2) -> tle y x ->
  (forall c, nth_error h (2 * i + 1) = Some c -> tle y c) ->
  (forall c, nth_error h (2 * i + 2) = Some c -> tle y c) ->
  swap_nth m2 i h = Ok h1 -> down_inv h1 m2.
Proof.
  intros [D1 D2] Hx Hy Hm2 Hyx Hc1 Hc2 Hs.
  assert (Hpm : hparent m2 = i) by (destruct Hm2 as [-> | ->]; [apply hparent_child1 | apply hparent_child2]).
  assert (Him : i < m2) by lia.
  destruct (swap_nth_spec _ _ _ _ Hs) as (a' & b' & Ha' & Hb' & Hi1 & Hm' & Hoth & Hlen).
  rewrite Hy in Ha'. inversion Ha'; subst a'. rewrite Hx in Hb'. inversion Hb'; subst b'.
  assert (Hm1 : nth_error h1 m2 = Some x) by (apply Hm'; lia). clear Hm'.
  split.
  - intros j xj q Hj0 Hjp Hxj Hq.
    destruct (Nat.eq_dec j m2) as [->|Hjm].
    + rewrite Hm1 in Hxj. rewrite Hpm, Hi1 in Hq. inversion Hxj; inversion Hq; subst. exact Hyx.
    + destruct (Nat.eq_dec j i) as [->|Hji].
      * pose proof (hparent_lt i Hj0).
        rewrite Hi1 in Hxj. inversion Hxj; subst xj. rewrite Hoth in Hq by lia.
        apply (D2 m2 y q); auto. lia.
      * rewrite Hoth in Hxj by assumption.
        destruct (Nat.eq_dec (hparent j) i) as [Ei|Ei].
        -- rewrite Ei, Hi1 in Hq. inversion Hq; subst q.
           destruct (hparent_children j i Hj0 Ei) as [-> | ->]; auto.
        -- rewrite Hoth in Hq by assumption. apply (D1 j xj q); auto.
  - intros j xj g Hj0 Hjp Hm0 Hxj Hg.
    pose proof (hparent_lt j Hj0).
    rewrite Hpm, Hi1 in Hg. inversion Hg; subst g.
    rewrite Hoth in Hxj by lia.
    apply (D1 j xj y); auto; [lia|]. rewrite Hjp. exact Hy.
Qed.

Lemma heapify_ord fuel : forall i n h h',
  n = length h -> down_inv h i -> heapify fuel i n h = Ok h' -> heap_ord h'.
Proof.
  induction fuel as [|fuel IH]; intros i n h h' Hn Hinv H; cbn [heapify] in H; [discriminate|].
  destruct (rdn h i) as [x| | |] eqn:Ex; cbn [bind] in H; try discriminate. apply rdn_ok in Ex.
  match type of H with (let* m1 := ?e in _) = _ => destruct e as [m1| | |] eqn:E1 end; cbn [bind] in H; try discriminate.
  destruct (rdn h m1) as [xm| | |] eqn:Exm; cbn [bind] in H; try discriminate. apply rdn_ok in Exm.
  match type of H with (let* m2 := ?e in _) = _ => destruct e as [m2| | |] eqn:E2 end; cbn [bind] in H; try discriminate.
  apply (pick_spec h n _ _ x m1 Hn Ex) in E1. destruct E1 as (y1 & Hy1 & Hm1 & Hy1x & Hy1c).
  rewrite Exm in Hy1. inversion Hy1; subst y1.
  apply (pick_spec h n _ _ xm m2 Hn Exm) in E2. destruct E2 as (y & Hy & Hm2 & Hyxm & Hyc2).
  assert (Hyx : tle y x) by (eapply tle_trans; eauto).
  assert (Hyc1 : forall c, nth_error h (2 * i + 1) = Some c -> tle y c).
  { intros c Hc. eapply tle_trans; [exact Hyxm | auto]. }
  destruct (m2 =? i) eqn:Emi.
  - apply Nat.eqb_eq in Emi. subst m2. inversion H; subst h'.
    rewrite Ex in Hy. inversion Hy; subst y.
    destruct Hinv as [D1 D2]. intros j xj p Hj0 Hxj Hp.
    destruct (Nat.eq_dec (hparent j) i) as [Ei|Ei].
    + rewrite Ei, Ex in Hp. inversion Hp; subst p.
      destruct (hparent_children j i Hj0 Ei) as [-> | ->]; auto.
    + apply (D1 j xj p); auto.
  - apply Nat.eqb_neq in Emi.
    destruct (swap_nth m2 i h) as [h1| | |] eqn:Es; cbn [bind] in H; try discriminate.
    apply (IH m2 n h1 h'); [|eapply (down_step h h1 i m2 x y); eauto; lia | exact H].
    rewrite (swap_nth_length _ _ _ _ Es). exact Hn.
Qed.

(* ---------------------------------------------------------------- ptrheap_add *)
Lemma heap_add_ord x h h' : heap_ord h -> heap_add x h = Ok h' -> heap_ord h'.
Proof.
  unfold heap_add. intros Hh H. cbv zeta in H. rewrite app_length in H. cbn [length] in H.
  replace (length h + 1 - 1) with (length h) in H by lia.
  eapply heapifyup_ord; [|exact H].
  split.
  - intros j y p Hj0 Hjn Hy Hp. pose proof (hparent_lt j Hj0).
    apply nth_error_snoc in Hy. destruct Hy as [[Hjl Hy]|[Hjl _]]; [|lia].
    apply nth_error_snoc in Hp. destruct Hp as [[_ Hp]|[Hpl _]]; [|lia].
    apply (Hh j y p); auto.
  - intros j y g Hj0 Hjp _ Hy _. pose proof (hparent_lt j Hj0).
    apply nth_error_lt in Hy. rewrite app_length in Hy. cbn [length] in Hy. lia.
Qed.

(* ---------------------------------------------------------------- ptrheap_delete *)
Lemma heap_delete_ord rc h h' : heap_ord h -> heap_delete rc h = Ok h' -> heap_ord h'.
Proof.
  unfold heap_delete. intros Hh H.
  destruct (length h =? 0) eqn:En; [discriminate|]. apply Nat.eqb_neq in En.
  set (n := length h) in *.
  destruct (rc =? n - 1) eqn:Erc.
  - cbn [bind] in H. inversion H; subst h'. apply heap_ord_removelast. exact Hh.
  - apply Nat.eqb_neq in Erc.
    destruct (rdn h (n - 1)) as [l| | |] eqn:El; cbn [bind] in H; try discriminate. apply rdn_ok in El.
    destruct (rdn h rc) as [x| | |] eqn:Ex; cbn [bind] in H; try discriminate. apply rdn_ok in Ex.
    assert (Hrcn : rc < n) by (eapply nth_error_lt; eauto).
    set (h1 := upd_nth rc l h) in *.
    assert (Hh1rc : nth_error h1 rc = Some l) by (unfold h1; apply nth_error_upd_nth_eq; exact Hrcn).
    assert (Hh1o : forall m, m <> rc -> nth_error h1 m = nth_error h m).
    { intros m Hm. unfold h1. apply nth_error_upd_nth_neq. congruence. }
    assert (Hlen1 : length h1 = n) by (unfold h1; apply length_upd_nth).
    match type of H with (let* h2 := ?e in _) = _ => destruct e as [h2| | |] eqn:E2 end; cbn [bind] in H; try discriminate.
    inversion H; subst h'. apply heap_ord_removelast.
    match type of E2 with (let* u := ?e in _) = _ => destruct e as [u| | |] eqn:Eu end; cbn [bind] in E2; try discriminate.
    change ((rc - 1) / 2) with (hparent rc) in *.
    (* the children of rc are >= the parent of rc, in h and hence in h1 *)
    assert (HC : forall j y g, 0 < j -> hparent j = rc -> 0 < rc ->
               nth_error h1 j = Some y -> nth_error h1 (hparent rc) = Some g -> tle g y).
    { intros j y g Hj0 Hjp Hr0 Hy Hg. pose proof (hparent_lt j Hj0). pose proof (hparent_lt rc Hr0).
      rewrite Hh1o in Hy by lia. rewrite Hh1o in Hg by lia.
      eapply tle_trans; [apply (Hh rc x g); auto | apply (Hh j y x); auto; rewrite Hjp; exact Ex]. }
    destruct u.
    + (* the moved element is smaller than its new parent: one inline step, then heapifyup *)
      destruct (0 <? rc) eqn:E0; [|inversion Eu]. apply Nat.ltb_lt in E0.
      pose proof (hparent_lt rc E0) as Hp.
      destruct (rdn h1 rc) as [a| | |] eqn:Ea; cbn [bind] in Eu; try discriminate. apply rdn_ok in Ea.
      destruct (rdn h1 (hparent rc)) as [b| | |] eqn:Eb; cbn [bind] in Eu; try discriminate. apply rdn_ok in Eb.
      rewrite Hh1rc in Ea. inversion Ea; subst a.
      destruct (tv_cmp (t_deadline l) (t_deadline b)) eqn:C; inversion Eu.
      destruct (swap_nth rc (hparent rc) h1) as [h1'| | |] eqn:Es; cbn [bind] in E2; try discriminate.
      eapply heapifyup_ord; [|exact E2].
      apply (up_step h1 h1' rc l b); auto; [|apply tv_cmp_lt_le; exact C].
      split; [|exact HC]. intros j y q Hj0 Hjr Hy Hq. rewrite Hh1o in Hy by assumption.
      destruct (Nat.eq_dec (hparent j) rc) as [Er|Er].
      * rewrite Er, Hh1rc in Hq. inversion Hq; subst q.
        rewrite Hh1o in Eb by lia.
        eapply tle_trans; [apply tv_cmp_lt_le; exact C|].
        eapply tle_trans; [apply (Hh rc x b); auto|].
        apply (Hh j y x); auto. rewrite Er. exact Ex.
      * rewrite Hh1o in Hq by assumption. apply (Hh j y q); auto.
    + (* otherwise sift down *)
      apply (heapify_ord (S n) rc n h1 h2); [symmetry; exact Hlen1| |exact E2].
      split; [|exact HC]. intros j y q Hj0 Hjp Hy Hq.
      destruct (Nat.eq_dec j rc) as [->|Hjr].
      * rewrite Hh1rc in Hy. inversion Hy; subst y.
        assert (E0 : (0 <? rc) = true) by (apply Nat.ltb_lt; exact Hj0).
        rewrite E0 in Eu. unfold rdn in Eu. rewrite Hh1rc, Hq in Eu. cbn [bind] in Eu.
        apply tv_cmp_not_lt_le. intros C. rewrite C in Eu. discriminate.
      * rewrite Hh1o in Hy by assumption. rewrite Hh1o in Hq by assumption. apply (Hh j y q); auto.
Qed.

(* ---------------------------------------------------------------- timerqueue_increase *)
(* timerqueue_increase as used by timer_reset: the key at position i grew, then sift down *)
Lemma heap_increase_ord i x x' h h' :
  heap_ord h -> nth_error h i = Some x -> tle x x' ->
  heapify (S (length (upd_nth i x' h))) i (length (upd_nth i x' h)) (upd_nth i x' h) = Ok h' -> heap_ord h'.
Proof.
  intros Hh Hx Hxx H. eapply heapify_ord; [reflexivity| |exact H].
  assert (Hi : i < length h) by (eapply nth_error_lt; eauto).
  split.
  - intros j y q Hj0 Hjp Hy Hq. rewrite nth_error_upd_nth_neq in Hq by congruence.
    destruct (Nat.eq_dec j i) as [->|Hji].
    + rewrite nth_error_upd_nth_eq in Hy by assumption. inversion Hy; subst y.
      eapply tle_trans; [|exact Hxx]. apply (Hh i x q); auto.
    + rewrite nth_error_upd_nth_neq in Hy by congruence. apply (Hh j y q); auto.
  - intros j y g Hj0 Hjp Hi0 Hy Hg. pose proof (hparent_lt j Hj0). pose proof (hparent_lt i Hi0).
    rewrite nth_error_upd_nth_neq in Hy by lia. rewrite nth_error_upd_nth_neq in Hg by lia.
    eapply tle_trans; [apply (Hh i x g); auto | apply (Hh j y x); auto; rewrite Hjp; exact Hx].
Qed.
