(* C05: the conclusions in the form used by Properties_C05_events.v.
     model side  (EventsRun5.v)      every trace of the model is accepted by check_c05 (all clauses)
                 (EventsInv.v)       ... and by check_c04
     spec side   (EventsSpec5*.v)    a trace accepted by both checkers satisfies the nine logical
                                     clauses of C05 (EventsSpec.v, Part 3b)
   hence every trace of the model satisfies them; the same checkers are run on the traces of the
   implementation. *)
From Coq Require Import NArith ZArith List.
From LCP Require Import Base.CheckedMem Events.EventsTrace Events.EventsSpec Events.EventsModel Events.EventsSpecProofs Events.EventsInv Events.EventsRun5 Events.EventsRun5Frame Events.EventsSpec5Order Events.EventsSpec5Status Events.EventsSpec5Block Events.EventsProgress.
Import ListNotations.

Theorem check_c05_sound : forall t, check_c04 t = true -> check_c05 t = true -> C05_holds t.
Proof.
  intros t H4 H5.
  exact (conj (c05_choice_priority t H4 H5) (conj (c05_immediate_order t H4 H5) (conj (c05_timer_order t H4 H5)
        (conj (c05_progress_immediate t H4 H5) (conj (c05_blocking_bound t H4 H5) (conj (c05_later_polls t H4 H5)
        (conj (c05_wake_runs t H4 H5) (conj (c05_status_returned t H4 H5) (c05_stops_dispatch t H4 H5))))))))).
Qed.

Lemma runs_to5_checks p xs pl cl fuel tr :
  runs_to5 p xs pl cl fuel tr -> check_c04 tr = true /\ check_c05 tr = true.
Proof.
  intros H. split; [|apply (model_check_c05 _ _ _ _ _ _ H)].
  apply (runs_to_accepted p xs pl cl fuel). apply runs_to5_runs_to. exact H.
Qed.

Lemma runs_to5_holds p xs pl cl fuel tr : runs_to5 p xs pl cl fuel tr -> C05_holds tr.
Proof. intros H. destruct (runs_to5_checks _ _ _ _ _ _ H) as [A B]. apply check_c05_sound; assumption. Qed.

Lemma runs_to5_accepted : forall p xs pl cl fuel tr, runs_to5 p xs pl cl fuel tr -> check_c05 tr = true.
Proof. intros p xs pl cl fuel tr H. apply (model_check_c05 _ _ _ _ _ _ H). Qed.

Lemma runs_to5_choice : forall p xs pl cl fuel tr, runs_to5 p xs pl cl fuel tr -> choice_priority tr.
Proof. intros p xs pl cl fuel tr H. apply (runs_to5_holds _ _ _ _ _ _ H). Qed.
Lemma runs_to5_imm_order : forall p xs pl cl fuel tr, runs_to5 p xs pl cl fuel tr -> immediate_order tr.
Proof. intros p xs pl cl fuel tr H. apply (runs_to5_holds _ _ _ _ _ _ H). Qed.
Lemma runs_to5_timer_order : forall p xs pl cl fuel tr, runs_to5 p xs pl cl fuel tr -> timer_order tr.
Proof. intros p xs pl cl fuel tr H. apply (runs_to5_holds _ _ _ _ _ _ H). Qed.
Lemma runs_to5_progress : forall p xs pl cl fuel tr, runs_to5 p xs pl cl fuel tr -> progress_immediate tr.
Proof. intros p xs pl cl fuel tr H. apply (runs_to5_holds _ _ _ _ _ _ H). Qed.
Lemma runs_to5_blocking : forall p xs pl cl fuel tr, runs_to5 p xs pl cl fuel tr -> blocking_bound tr.
Proof. intros p xs pl cl fuel tr H. apply (runs_to5_holds _ _ _ _ _ _ H). Qed.
Lemma runs_to5_later_polls : forall p xs pl cl fuel tr, runs_to5 p xs pl cl fuel tr -> later_polls tr.
Proof. intros p xs pl cl fuel tr H. apply (runs_to5_holds _ _ _ _ _ _ H). Qed.
Lemma runs_to5_wake : forall p xs pl cl fuel tr, runs_to5 p xs pl cl fuel tr -> wake_runs tr.
Proof. intros p xs pl cl fuel tr H. apply (runs_to5_holds _ _ _ _ _ _ H). Qed.
Lemma runs_to5_status : forall p xs pl cl fuel tr, runs_to5 p xs pl cl fuel tr -> status_returned tr.
Proof. intros p xs pl cl fuel tr H. apply (runs_to5_holds _ _ _ _ _ _ H). Qed.
Lemma runs_to5_stops : forall p xs pl cl fuel tr, runs_to5 p xs pl cl fuel tr -> stops_dispatch tr.
Proof. intros p xs pl cl fuel tr H. apply (runs_to5_holds _ _ _ _ _ _ H). Qed.

(* the arithmetic of events_network_select on its own: for every normalised distance the value
   handed to poll meets the specification's bound (this is what the clamp must guarantee) *)
Lemma select_timeout_bound : forall dist, tv_norm dist = true -> timeout_ok (us dist) (sel_timeout (Some dist)) = true.
Proof. exact sel_timeout_ok. Qed.

(* the state at the end, for the frame clause *)
Definition ends_in (p : program) (xs : list xop) (pl : list pollraw) (cl : list tv) (fuel : nat) (s : st) : Prop :=
  prog_norm5 p /\ Forall xop_norm5 xs /\ Forall (fun t => tv_norm t = true) cl /\ clocks_from (0, 0)%N cl /\
  exec_xops p fuel xs (st_init pl cl) = Ok s.

Lemma ends_in_registered : forall p xs pl cl fuel s, ends_in p xs pl cl fuel s ->
  forall r k, live_in (rev (s_tr s)) r -> kind_of (rev (s_tr s)) r = Some k -> registered_in s r k.
Proof. intros p xs pl cl fuel s [A [B [C [D E]]]]. eapply pending_stay_registered; eauto. Qed.

Lemma ends_in_runs_to5 p xs pl cl fuel s : ends_in p xs pl cl fuel s -> runs_to5 p xs pl cl fuel (rev (s_tr s)).
Proof.
  intros [A [B [C [D E]]]]. split; [exact A|]. split; [exact B|]. split; [exact C|]. split; [exact D|].
  unfold run_case. rewrite E. reflexivity.
Qed.

(* the hypotheses of the C05 theorems are met by every run on arguments inside the API's contract
   (EventsProgress.v: the model never faults, asserts only on prio >= 32 or fd >= INT_MAX), unless
   the fuel given to the dispatcher loops was too small *)
Theorem runs_to5_or_out_of_fuel p xs pl cl fuel :
  prog_norm5 p -> Forall xop_norm5 xs -> Forall (fun t => tv_norm t = true) cl -> clocks_from (0, 0)%N cl ->
  prog_safe p -> Forall xop_safe xs ->
  (exists tr, runs_to5 p xs pl cl fuel tr) \/ run_case p xs pl cl fuel = OutOfFuel.
Proof.
  intros A B C D E F. destruct (model_no_assert p xs pl cl fuel E F) as [[tr H] | H]; [left | right; exact H].
  exists tr. unfold runs_to5. auto.
Qed.

Theorem ends_in_or_out_of_fuel p xs pl cl fuel :
  prog_norm5 p -> Forall xop_norm5 xs -> Forall (fun t => tv_norm t = true) cl -> clocks_from (0, 0)%N cl ->
  prog_safe p -> Forall xop_safe xs ->
  (exists s, ends_in p xs pl cl fuel s) \/ run_case p xs pl cl fuel = OutOfFuel.
Proof.
  intros A B C D E F. destruct (model_no_assert p xs pl cl fuel E F) as [[tr H] | H]; [left | right; exact H].
  unfold run_case in H. destruct (exec_xops p fuel xs (st_init pl cl)) as [s| | |] eqn:X; try discriminate H.
  exists s. unfold ends_in. auto.
Qed.
