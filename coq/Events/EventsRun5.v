(* C05, second part: every trace of the model is accepted by the specification's C05 checker with
   ALL its clauses (check_c05 = checks5 c5_strict).  On top of EventsOrder.v (projection relation
   R45, the immediate queues ImmOrd) this file adds
     Ext5   the timer heap is ordered and covers the checker's timer list (so its root is the
            earliest deadline), the clock script is non-decreasing, descriptors are C ints;
     G5     the invariant holding at every point of an execution;
     the dispatcher: events_run_internal / events_run / events_spin against the control state of
            the checker (order of the tests, poll timeouts, progress, status, interrupt). *)
From Coq Require Import NArith ZArith List Bool Arith Lia Permutation.
From LCP Require Import Base.CheckedMem Gen.Repo_events Events.EventsTrace Events.EventsSpec Events.EventsModel Events.EventsLemmas Events.EventsNetInv Events.EventsHeap Events.EventsSpecProofs Events.EventsInv Events.EventsOrder.
From LCP Require Import Events.EventsHeapOrd Events.EventsNetGet.
Import ListNotations.
Local Open Scope res_scope.
Unset Lia Cache.

(* ================================================================ the poll timeout *)
(* the distance computed by events_timer_min *)
Definition tmin_dist (d now : tv) : tv :=
  if (fst d <? fst now)%N || ((fst d =? fst now)%N && (snd d <? snd now)%N) then (0, 0)%N
  else if (snd d <? snd now)%N
       then ((fst d - fst now - tmr_min_borrow_sec)%N, (snd d + tmr_min_borrow - snd now)%N)
       else ((fst d - fst now)%N, (snd d - snd now)%N).

Lemma tmin_dist_spec d now :
  tv_norm d = true -> tv_norm now = true ->
  tv_norm (tmin_dist d now) = true /\ us (tmin_dist d now) = (us d - us now)%N.
Proof.
  unfold tv_norm, tmin_dist, us, tmr_min_borrow_sec, tmr_min_borrow.
  destruct d as [ds du], now as [ns nu]. cbn [fst snd]. intros Hd Hn.
  apply N.ltb_lt in Hd. apply N.ltb_lt in Hn.
  destruct (ds <? ns)%N eqn:E1; cbn [orb].
  { apply N.ltb_lt in E1. cbn [fst snd]. split; [reflexivity|]. lia. }
  apply N.ltb_ge in E1.
  destruct (ds =? ns)%N eqn:E2; cbn [andb].
  - apply N.eqb_eq in E2. subst ns. destruct (du <? nu)%N eqn:E3.
    + apply N.ltb_lt in E3. cbn [fst snd]. split; [reflexivity|]. lia.
    + apply N.ltb_ge in E3. cbn [fst snd]. split; [apply N.ltb_lt; lia | lia].
  - apply N.eqb_neq in E2. destruct (du <? nu)%N eqn:E3.
    + apply N.ltb_lt in E3. cbn [fst snd]. split; [apply N.ltb_lt; lia | lia].
    + apply N.ltb_ge in E3. cbn [fst snd]. split; [apply N.ltb_lt; lia | lia].
Qed.

(* the conversion to poll's millisecond argument (events_network_select) meets the bound of the
   specification: exact round-up below INT_MAX / 1000 seconds, never beyond it above *)
Lemma sel_timeout_ok dist :
  tv_norm dist = true -> timeout_ok (us dist) (sel_timeout (Some dist)) = true.
Proof.
  unfold tv_norm, timeout_ok, sel_timeout, ceil_ms, us, INT_MAX, C_INT_MAX,
    sel_clamp_div, sel_clamp_val_div, sel_clamp_val_mul, sel_ms_per_sec, sel_round_add, sel_us_per_ms.
  destruct dist as [sec usec]. cbn [fst snd]. intros Hn. apply N.ltb_lt in Hn.
  assert (Hq : ((sec * 1000000 + usec) / 1000000 = sec)%N).
  { replace (sec * 1000000 + usec)%N with (usec + sec * 1000000)%N by lia.
    rewrite N.div_add by discriminate. rewrite N.div_small by exact Hn. reflexivity. }
  rewrite Hq.
  assert (Hc : ((sec * 1000000 + usec + 999) / 1000 = sec * 1000 + (usec + 999) / 1000)%N).
  { replace (sec * 1000000 + usec + 999)%N with ((usec + 999) + (sec * 1000) * 1000)%N by lia.
    rewrite N.div_add by discriminate. lia. }
  rewrite Hc.
  change (2147483647 / 1000)%Z with 2147483%Z. change (Z.of_N 1000) with 1000%Z.
  change (2147483647 / 1000)%Z with 2147483%Z.
  destruct (Z.of_N sec <? 2147483)%Z eqn:E.
  - apply Z.ltb_lt in E. assert (X : (2147483 <=? Z.of_N sec)%Z = false) by (apply Z.leb_gt; exact E).
    rewrite X. apply Z.eqb_refl.
  - apply Z.ltb_ge in E. assert (X : (2147483 <=? Z.of_N sec)%Z = true) by (apply Z.leb_le; exact E).
    rewrite X. apply andb_true_iff. split; [reflexivity|]. apply Z.leb_le.
    clear Hq Hc. generalize ((usec + 999) / 1000)%N. intros q. lia.
Qed.

Lemma sel_timeout_none : sel_timeout None = (-1)%Z.
Proof. reflexivity. Qed.
Lemma sel_timeout_zero : sel_timeout (Some (0, 0)%N) = 0%Z.
Proof. reflexivity. Qed.

(* ================================================================ min_due *)
Definition due_of (y : nat * (tv * N)) : N := snd (snd y).

Lemma min_due_le l m : min_due l = Some m -> forall y, In y l -> (m <= due_of y)%N.
Proof.
  revert m. induction l as [|[r [t d]] rest IH]; intros m H y Hy; [destruct Hy|].
  simpl in H. destruct (min_due rest) as [m'|] eqn:E.
  - inversion H; subst m. destruct Hy as [<- | Hy]; [unfold due_of; simpl; lia|].
    specialize (IH m' eq_refl y Hy). lia.
  - inversion H; subst m. destruct Hy as [<- | Hy]; [unfold due_of; simpl; lia|].
    destruct rest; [destruct Hy | simpl in E; destruct p as [? [? ?]]; destruct (min_due rest); discriminate].
Qed.

Lemma min_due_in l m : min_due l = Some m -> exists y, In y l /\ due_of y = m.
Proof.
  revert m. induction l as [|[r [t d]] rest IH]; intros m H; [discriminate|].
  simpl in H. destruct (min_due rest) as [m'|] eqn:E.
  - inversion H; subst m. destruct (N.min_spec d m') as [[_ ->] | [_ ->]].
    + exists (r, (t, d)). split; [left; reflexivity | reflexivity].
    + destruct (IH m' eq_refl) as [y [Hy Ey]]. exists y. split; [right; exact Hy | exact Ey].
  - inversion H; subst m. exists (r, (t, d)). split; [left; reflexivity | reflexivity].
Qed.

Lemma min_due_nonempty l : l <> [] -> exists m, min_due l = Some m.
Proof.
  destruct l as [|[r [t d]] rest]; [congruence|]. intros _. simpl. destruct (min_due rest); eauto.
Qed.

Lemma min_due_is l y :
  In y l -> (forall z, In z l -> (due_of y <= due_of z)%N) -> min_due l = Some (due_of y).
Proof.
  intros Hy Hmin. destruct (min_due_nonempty l) as [m Hm]; [intros ->; destruct Hy|].
  rewrite Hm. f_equal. pose proof (min_due_le l m Hm y Hy) as A.
  destruct (min_due_in l m Hm) as [z [Hz Ez]]. specialize (Hmin z Hz). lia.
Qed.

(* ================================================================ the extended invariant *)
Definition tkey (x : timer) : nat * (tv * N) := (r_rid (t_rec x), (t_orig x, us (t_deadline x))).

Fixpoint clocks_from (last : tv) (l : list tv) : Prop :=
  match l with
  | [] => True
  | c :: r => (us last <= us c)%N /\ clocks_from c r
  end.

(* descriptors are C ints: FD_LIMIT = INT_MAX + 1 is the bound of the TYPE of the argument `int s`
   of events_network_register (used below only to keep the socket list, hence nfds, below 2^64).
   It is deliberately not the stricter bound that growpollfd asserts (assert(fd < INT_MAX)): that
   assert is part of the model (EventsModel.growpollfd answers AssertFail for fd = INT_MAX, so such a
   run has no trace and the theorems here do not speak about it); the contract `fd < INT_MAX`
   under which no assert fails is EventsProgress.op_safe. *)
Definition FD_LIMIT : N := 2147483648.

Record Ext5 (s : st) (c : c5) : Prop := {
  (* every timer the checker knows sits in the heap with that timeout and deadline *)
  x_cover : forall y, In y (d_tmrs c) -> exists x, In x (heap (s_tmr s)) /\ tkey x = y;
  x_heap : heap_ord (heap (s_tmr s));
  x_uninit : tq_inited (s_tmr s) = false -> heap (s_tmr s) = [];
  (* T4: the clock does not go backwards, and no deadline lies further ahead than its timeout *)
  x_clocks : clocks_from (lastclock (s_env s)) (clocks (s_env s));
  x_armed : forall x, In x (heap (s_tmr s)) ->
            (us (t_deadline x) <= us (lastclock (s_env s)) + us (t_orig x))%N;
  x_socks : (N.of_nat (length (socks (s_net s))) <= FD_LIMIT)%N;
  (* every pollfd entry asks for something (N3/N4: a descriptor without registrations has no entry) *)
  x_evnz : events_nonzero (s_net s)
}.

Section Sim5.
  Variable fl : c5flags.

  (* holds at every point of an execution *)
  Definition G5 (s : st) (c : c5) : Prop :=
    Good s /\ csteps5 fl c5_init (rev (s_tr s)) = Some c /\
    ImmOrd (s_imm s) (d_imms c) (next_rid (s_cl s)) /\ d_intr c = s_intr s /\ Ext5 s c.

  Lemma G5_good s c : G5 s c -> Good s. Proof. intros H; apply H. Qed.
  Lemma G5_steps s c : G5 s c -> csteps5 fl c5_init (rev (s_tr s)) = Some c. Proof. intros H; apply H. Qed.
  Lemma G5_imm s c : G5 s c -> ImmOrd (s_imm s) (d_imms c) (next_rid (s_cl s)). Proof. intros H; apply H. Qed.
  Lemma G5_intr s c : G5 s c -> d_intr c = s_intr s. Proof. intros H; apply H. Qed.
  Lemma G5_ext s c : G5 s c -> Ext5 s c. Proof. intros H; apply H. Qed.

  Lemma csteps5_app c t1 t2 :
    csteps5 fl c (t1 ++ t2) = match csteps5 fl c t1 with Some c1 => csteps5 fl c1 t2 | None => None end.
  Proof.
    revert c. induction t1 as [|e t1 IH]; intros c; simpl; [reflexivity|].
    destruct (cstep5 fl c e); [apply IH | reflexivity].
  Qed.

  Lemma csteps5_emit s s' e c c' :
    csteps5 fl c5_init (rev (s_tr s)) = Some c -> s_tr s' = e :: s_tr s -> cstep5 fl c e = Some c' ->
    csteps5 fl c5_init (rev (s_tr s')) = Some c'.
  Proof. intros Hc Ht He. rewrite Ht. simpl. rewrite csteps5_app, Hc. simpl. rewrite He. reflexivity. Qed.

  (* the C04 checker state behind Good, with the projection relation *)
  Lemma G5_c4 s c : G5 s c -> exists x4, csteps4 c4_init (rev (s_tr s)) = Some x4 /\ Sim s x4 /\ R45 x4 c.
  Proof.
    intros [[x4 [H4 HS]] [H5 _]]. exists x4. split; [exact H4|]. split; [exact HS|].
    eapply R45_of_trace; eauto.
  Qed.

  Lemma G5_step s s' e c c' :
    G5 s c -> Good s' -> s_tr s' = e :: s_tr s -> cstep5 fl c e = Some c' ->
    ImmOrd (s_imm s') (d_imms c') (next_rid (s_cl s')) -> d_intr c' = s_intr s' -> Ext5 s' c' ->
    G5 s' c'.
  Proof.
    intros HG HG' Ht He HO' Hi' HX'. split; [exact HG'|].
    split; [eapply csteps5_emit; eauto; apply HG|]. split; [exact HO'|]. split; [exact Hi' | exact HX'].
  Qed.

  (* a refused first timer registration may leave the (empty) timer queue initialised *)
  Lemma G5_tmr_inited s c : G5 s c -> G5 (tmr_with s (heap (s_tmr s))) c.
  Proof.
    intros [HG [Hc [HO [Hi HX]]]]. split; [apply Good_tmr_inited; exact HG|].
    split; [exact Hc|]. split; [exact HO|]. split; [exact Hi|].
    destruct HX as [A B C D E F G]. constructor; simpl; auto. intros X; discriminate X.
  Qed.

  Lemma G5_timer_refused af s c : G5 s c -> G5 (timer_register_refused af s) c.
  Proof. intros H. unfold timer_register_refused. destruct (3 <=? af); [apply G5_tmr_inited|]; exact H. Qed.

  (* an interrupt request is remembered for the whole run *)
  Lemma intr_run_step c e c' :
    (d_intr c = true -> d_intr_run c = true) -> cstep5 fl c e = Some c' ->
    (d_intr c' = true -> d_intr_run c' = true).
  Proof.
    intros Hinv H. destruct e; simpl in H.
    - destruct k; [inversion H; subst; exact Hinv | inversion H; subst; exact Hinv |].
      destruct (d_clock c); [inversion H; subst; exact Hinv | discriminate].
    - inversion H; subst; exact Hinv.
    - inversion H; subst; exact Hinv.
    - inversion H; subst; exact Hinv.
    - inversion H; subst; exact Hinv.
    - inversion H; subst; exact Hinv.
    - inversion H; subst; exact Hinv.
    - destruct (d_clock c); [inversion H; subst; exact Hinv | discriminate].
    - inversion H; subst; exact Hinv.
    - destruct (d_incb c); [discriminate|].
      destruct (d_mode c); try discriminate.
      + destruct (d_drain c); [discriminate|].
        match type of H with (if ?b then _ else _) = _ => destruct b; [|discriminate] end.
        inversion H; subst c'. simpl. destruct ans as [l|[|]]; auto.
      + inversion H; subst c'. simpl. destruct ans as [l|[|]]; auto.
    - destruct (d_incb c || d_stop c); [discriminate|].
      destruct (d_mode c); try discriminate;
        (destruct (find_imm r (d_imms c));
         [ destruct (imm_best (d_imms c)) as [[r' p']|]; [|discriminate];
           destruct (Nat.eqb r' r); [|discriminate]; inversion H; subst c'; exact Hinv
         | destruct (EventsSpec.mem_nat r (d_nets c));
           [ destruct (EventsSpec.is_nil (d_imms c)); [|discriminate]; inversion H; subst c'; exact Hinv
           | destruct (find_tmr r (d_tmrs c)) as [[r0 [t0 due]]|]; [|discriminate];
             destruct (min_due (d_tmrs c)); [|discriminate];
             match type of H with (if ?b then _ else _) = _ => destruct b; [|discriminate] end;
             inversion H; subst c'; exact Hinv ] ]).
    - inversion H; subst; exact Hinv.
    - destruct (d_incb c); [|discriminate]. inversion H; subst; exact Hinv.
    - inversion H; subst c'. simpl. auto.
    - inversion H; subst; exact Hinv.
    - destruct (d_mode c); try discriminate. inversion H; subst c'. simpl. auto.
    - destruct (d_mode c); try discriminate.
      match type of H with (if ?b then _ else _) = _ => destruct b; [|discriminate] end.
      inversion H; subst c'. simpl. discriminate.
    - destruct (d_mode c); try discriminate. inversion H; subst c'. simpl. auto.
    - destruct (d_mode c); try discriminate.
      match type of H with (if ?b then _ else _) = _ => destruct b; [|discriminate] end.
      inversion H; subst c'. simpl. discriminate.
  Qed.

  Lemma intr_run_steps t : forall c c',
    (d_intr c = true -> d_intr_run c = true) -> csteps5 fl c t = Some c' ->
    (d_intr c' = true -> d_intr_run c' = true).
  Proof.
    induction t as [|e t IH]; intros c c' Hinv H; simpl in H.
    - inversion H; subst. exact Hinv.
    - destruct (cstep5 fl c e) as [c1|] eqn:E; [|discriminate].
      eapply IH; [|exact H]. eapply intr_run_step; eauto.
  Qed.

  Lemma G5_intr_run s c : G5 s c -> d_intr c = true -> d_intr_run c = true.
  Proof.
    intros HG. eapply intr_run_steps; [|apply (G5_steps s c HG)]. simpl. discriminate.
  Qed.

  (* ---- the heap root is the earliest deadline the checker knows *)
  Lemma heap_in_tmrs s c x : G5 s c -> In x (heap (s_tmr s)) -> In (tkey x) (d_tmrs c).
  Proof.
    intros HG Hx. destruct (G5_c4 s c HG) as [x4 [_ [HS HR]]].
    destruct (sm_tmr s x4 HS x Hx) as [g [Hg [Er [Hk [Hdue _]]]]].
    rewrite (r_tmrs _ _ HR). apply in_tmr_of. exists g. unfold tkey. simpl.
    split; [apply in_rev; rewrite rev_involutive; exact Hg | auto].
  Qed.

  Lemma heap_norm s c x : G5 s c -> In x (heap (s_tmr s)) -> tv_norm (t_deadline x) = true.
  Proof.
    intros HG Hx. destruct (G5_c4 s c HG) as [x4 [_ [HS _]]].
    destruct (sm_tmr s x4 HS x Hx) as [g [_ [_ [_ [_ [Hn _]]]]]]. exact Hn.
  Qed.

  Lemma min_due_root s c m rest :
    G5 s c -> heap (s_tmr s) = m :: rest -> min_due (d_tmrs c) = Some (us (t_deadline m)).
  Proof.
    intros HG Eh. pose proof (G5_ext s c HG) as HX.
    assert (Hm : In m (heap (s_tmr s))) by (rewrite Eh; left; reflexivity).
    change (us (t_deadline m)) with (due_of (tkey m)).
    apply min_due_is; [apply (heap_in_tmrs s c m HG Hm)|].
    intros z Hz. destruct (x_cover s c HX z Hz) as [x [Hx <-]]. unfold due_of, tkey. simpl.
    apply tv_le_us; [apply (heap_norm s c m HG Hm) | apply (heap_norm s c x HG Hx)|].
    exact (heap_ord_root _ m rest x (x_heap s c HX) Eh Hx).
  Qed.

  Lemma min_due_empty s c : G5 s c -> heap (s_tmr s) = [] -> d_tmrs c = [].
  Proof.
    intros HG Eh. destruct (d_tmrs c) as [|y l] eqn:E; [reflexivity|]. exfalso.
    destruct (x_cover s c (G5_ext s c HG) y) as [x [Hx _]]; [rewrite E; left; reflexivity|].
    rewrite Eh in Hx. destruct Hx.
  Qed.
End Sim5.

(* ================================================================ frame lemmas for Ext5 *)
Lemma nodup_map_inj {A B} (f : A -> B) l a b :
  NoDup (map f l) -> In a l -> In b l -> f a = f b -> a = b.
Proof.
  induction l as [|x l IH]; intros Hnd Ha Hb E; [destruct Ha|].
  simpl in Hnd. inversion Hnd as [|? ? Hnotin Hnd']; subst.
  destruct Ha as [-> | Ha], Hb as [-> | Hb]; auto.
  - exfalso. apply Hnotin. rewrite E. apply in_map. exact Hb.
  - exfalso. apply Hnotin. rewrite <- E. apply in_map. exact Ha.
Qed.

Lemma Ext5_frame s c s' c' :
  Ext5 s c -> s_tmr s' = s_tmr s ->
  clocks (s_env s') = clocks (s_env s) -> lastclock (s_env s') = lastclock (s_env s) ->
  (N.of_nat (length (socks (s_net s'))) <= FD_LIMIT)%N -> events_nonzero (s_net s') ->
  incl (d_tmrs c') (d_tmrs c) -> Ext5 s' c'.
Proof.
  intros [A B C D E F G] Et Ec El Hs Hz Hi. constructor; rewrite ?Et, ?Ec, ?El; auto.
Qed.

Lemma Ext5_same s c s' c' :
  Ext5 s c -> s_tmr s' = s_tmr s -> s_env s' = s_env s -> s_net s' = s_net s ->
  incl (d_tmrs c') (d_tmrs c) -> Ext5 s' c'.
Proof.
  intros HX Et Ee En Hi. eapply Ext5_frame; eauto; rewrite ?Ee, ?En; auto; apply HX.
Qed.

Lemma incl_drop_tmr r l : incl (drop_tmr r l) l.
Proof. unfold drop_tmr. apply incl_filter. Qed.

(* reading the clock: the reading becomes lastclock and is not before the previous one *)
Lemma read_clock_env s now s1 :
  read_clock s = (now, s1) -> clocks_from (lastclock (s_env s)) (clocks (s_env s)) ->
  lastclock (s_env s1) = now /\ (us (lastclock (s_env s)) <= us now)%N /\
  clocks_from now (clocks (s_env s1)) /\ s_tmr s1 = s_tmr s /\ s_net s1 = s_net s.
Proof.
  unfold read_clock. intros H Hc. destruct (clocks (s_env s)) as [|x r] eqn:E.
  - inversion H; subst now s1. simpl. rewrite E. repeat split; auto. lia.
  - inversion H; subst now s1. simpl. simpl in Hc. destruct Hc as [A B]. repeat split; auto.
Qed.

Lemma Ext5_read_clock s c now s1 c1 :
  Ext5 s c -> read_clock s = (now, s1) -> d_tmrs c1 = d_tmrs c ->
  Ext5 s1 c1 /\ lastclock (s_env s1) = now.
Proof.
  intros [A B C D E F G] H Ht. destruct (read_clock_env s now s1 H D) as [E1 [E2 [E3 [E4 E5]]]].
  split; [|exact E1]. constructor; rewrite ?E4, ?E5, ?Ht, ?E1; auto.
  intros x Hx. specialize (E x Hx). lia.
Qed.

(* ---- the descriptor table stays within the range of a C int *)
Lemma growsocketlist_len m n :
  length (socks (growsocketlist m n)) = Nat.max (length (socks n)) m.
Proof. unfold growsocketlist. simpl. rewrite app_length, repeat_length. lia. Qed.

Lemma clearbit_socks_len pos dir n n' :
  clearbit pos dir n = Ok n' -> length (socks n') = length (socks n).
Proof.
  unfold clearbit. intros H.
  destruct (rdn (fds n) pos) as [p| | |]; cbn [bind] in H; try discriminate.
  destruct (p_ein (pf_clear dir p) || p_eout (pf_clear dir p)); [inversion H; reflexivity|].
  destruct (rdn (socks n) (p_fd (pf_clear dir p))) as [k| | |]; cbn [bind] in H; try discriminate.
  destruct (pos =? length (fds n) - 1).
  - inversion H; subst n'. simpl. apply length_upd_nth.
  - destruct (rdn (fds n) (length (fds n) - 1)) as [pl| | |]; cbn [bind] in H; try discriminate.
    match type of H with (let* kl := ?e in _) = _ => destruct e as [kl| | |] end; cbn [bind] in H; try discriminate.
    inversion H; subst n'. simpl. rewrite !length_upd_nth. reflexivity.
Qed.

Lemma growpollfd_socks_len fd n n' : growpollfd fd n = Ok n' -> length (socks n') = length (socks n).
Proof.
  unfold growpollfd. intros H.
  destruct (rdn (socks n) fd) as [k| | |]; cbn [bind] in H; try discriminate.
  destruct (pollpos k); [discriminate|].
  match type of H with (if ?b then _ else _) = _ => destruct b; [|discriminate] end.
  match type of H with (if ?b then _ else _) = _ => destruct b; [|discriminate] end.
  inversion H; subst n'. simpl. apply length_upd_nth.
Qed.

Lemma net_init_socks_len n : length (socks (net_init n)) <= length (socks n).
Proof. unfold net_init. destruct (net_inited n); simpl; lia. Qed.

Lemma net_register_socks cb fd op rid n0 e n' :
  net_register cb fd op rid n0 = Ok (e, n') ->
  (N.of_nat (length (socks n0)) <= FD_LIMIT)%N -> (fd < Z.of_N FD_LIMIT)%Z ->
  (N.of_nat (length (socks n')) <= FD_LIMIT)%N.
Proof.
  intros H Hlen Hfd. unfold net_register in H.
  pose proof (net_init_socks_len n0) as Hi. set (n := net_init n0) in *.
  destruct (fd <? 0)%Z eqn:Efd; [inversion H; subst; lia|]. apply Z.ltb_ge in Efd.
  destruct (op_dir op) as [dir|]; [|inversion H; subst; lia].
  set (s := Z.to_nat fd) in *.
  set (n1 := if length (socks n) <=? s then growsocketlist (S s) n else n) in *.
  assert (H1 : (N.of_nat (length (socks n1)) <= FD_LIMIT)%N).
  { unfold n1. destruct (length (socks n) <=? s); [|lia]. rewrite growsocketlist_len.
    unfold FD_LIMIT in *. unfold s. lia. }
  destruct (rdn (socks n1) s) as [k| | |]; cbn [bind] in H; try discriminate.
  destruct (sk_get dir k); [inversion H; subst; exact H1|].
  match type of H with (let* n3 := ?e in _) = _ => destruct e as [n3| | |] eqn:E3 end; cbn [bind] in H; try discriminate.
  assert (H3 : length (socks n3) = length (socks n1)).
  { destruct (pollpos k).
    - inversion E3; subst n3. simpl. apply length_upd_nth.
    - apply growpollfd_socks_len in E3. rewrite E3. simpl. apply length_upd_nth. }
  destruct (rdn (socks n3) s) as [k3| | |]; cbn [bind] in H; try discriminate.
  destruct (pollpos k3) as [pp|]; [|discriminate].
  destruct (rdn (fds n3) pp) as [p| | |]; cbn [bind] in H; try discriminate.
  inversion H; subst n'. simpl. rewrite H3. exact H1.
Qed.

Lemma net_register_refused_socks stage cb fd op rid n0 :
  (N.of_nat (length (socks n0)) <= FD_LIMIT)%N -> (fd < Z.of_N FD_LIMIT)%Z ->
  (N.of_nat (length (socks (net_register_refused stage cb fd op rid n0))) <= FD_LIMIT)%N.
Proof.
  intros Hlen Hfd. pose proof (net_init_socks_len n0) as Hi.
  destruct (net_register_refused_cases stage cb fd op rid n0) as [-> | [-> | [H0 ->]]]; [exact Hlen | lia |].
  unfold net_grown. destruct (length (socks (net_init n0)) <=? Z.to_nat fd); [|lia].
  rewrite growsocketlist_len. unfold FD_LIMIT in *. lia.
Qed.

Lemma net_cancel_socks fd op n0 x n' :
  net_cancel fd op n0 = Ok (x, n') -> length (socks n') <= length (socks n0).
Proof.
  intros H. unfold net_cancel in H.
  pose proof (net_init_socks_len n0) as Hi. set (n := net_init n0) in *.
  destruct (fd <? 0)%Z; [inversion H; subst; exact Hi|].
  destruct (op_dir op) as [dir|]; [|inversion H; subst; exact Hi].
  destruct (length (socks n) <=? Z.to_nat fd); [inversion H; subst; exact Hi|].
  destruct (rdn (socks n) (Z.to_nat fd)) as [k| | |]; cbn [bind] in H; try discriminate.
  destruct (sk_get dir k); [|inversion H; subst; exact Hi].
  destruct (pollpos k) as [pp|]; [|discriminate].
  match type of H with (let* n2 := ?e in _) = _ => destruct e as [n2| | |] eqn:E2 end; cbn [bind] in H; try discriminate.
  inversion H; subst n'. apply clearbit_socks_len in E2. rewrite E2. simpl. rewrite length_upd_nth. exact Hi.
Qed.

Lemma net_get_loop_socks fuel : forall n ro n',
  net_get_loop fuel n = Ok (ro, n') -> length (socks n') = length (socks n).
Proof.
  induction fuel as [|fuel IH]; intros n ro n' H; simpl in H; [discriminate|].
  destruct (scanpos n <? N.of_nat (length (fds n)))%N; [|inversion H; reflexivity].
  destruct (rdn (fds n) (N.to_nat (scanpos n))) as [p0| | |]; cbn [bind] in H; try discriminate.
  destruct (b_in (p_rev (pf_fold p0))).
  { match type of H with (let* k0 := ?e in _) = _ => destruct e as [k0| | |] end; cbn [bind] in H; try discriminate.
    match type of H with (let* n3 := ?e in _) = _ => destruct e as [n3| | |] eqn:E3 end; cbn [bind] in H; try discriminate.
    inversion H; subst n'. apply clearbit_socks_len in E3. rewrite E3. simpl. apply length_upd_nth. }
  destruct (b_out (p_rev (pf_fold p0))).
  { match type of H with (let* k0 := ?e in _) = _ => destruct e as [k0| | |] end; cbn [bind] in H; try discriminate.
    match type of H with (let* n3 := ?e in _) = _ => destruct e as [n3| | |] eqn:E3 end; cbn [bind] in H; try discriminate.
    inversion H; subst n'. apply clearbit_socks_len in E3. rewrite E3. simpl. apply length_upd_nth. }
  apply IH in H. rewrite H. reflexivity.
Qed.

Lemma net_get_socks n ro n' : net_get n = Ok (ro, n') -> length (socks n') = length (socks n).
Proof. unfold net_get. apply net_get_loop_socks. Qed.

Lemma poll_loop_socks timeout pl : forall s, socks (s_net (poll_loop timeout pl s)) = socks (s_net s).
Proof.
  induction pl as [|a rest IH]; intros s; cbn [poll_loop]; [reflexivity|].
  destruct a as [raw | [|]]; try reflexivity.
  destruct (s_intr s); [reflexivity|]. rewrite IH. reflexivity.
Qed.

Lemma poll_loop_imm timeout pl : forall s, s_imm (poll_loop timeout pl s) = s_imm s.
Proof.
  induction pl as [|a rest IH]; intros s; cbn [poll_loop]; [reflexivity|].
  destruct a as [raw | [|]]; try reflexivity.
  destruct (s_intr s); [reflexivity|]. rewrite IH. reflexivity.
Qed.
Lemma poll_loop_tmr timeout pl : forall s, s_tmr (poll_loop timeout pl s) = s_tmr s.
Proof.
  induction pl as [|a rest IH]; intros s; cbn [poll_loop]; [reflexivity|].
  destruct a as [raw | [|]]; try reflexivity.
  destruct (s_intr s); [reflexivity|]. rewrite IH. reflexivity.
Qed.

Lemma net_select_socks tvo s : length (socks (s_net (net_select tvo s))) <= length (socks (s_net s)).
Proof.
  unfold net_select. cbn [s_net set_net socks]. rewrite poll_loop_socks. simpl. apply net_init_socks_len.
Qed.

(* the pollfd array is no longer than the descriptor table *)
Lemma fds_le_socks n : NetInv n -> length (fds n) <= length (socks n).
Proof.
  intros HI. pose proof (netinv_nodup n HI) as Hnd.
  assert (Hincl : incl (map p_fd (fds n)) (seq 0 (length (socks n)))).
  { intros f Hf. apply in_map_iff in Hf. destruct Hf as [p [<- Hp]].
    apply In_nth_error in Hp. destruct Hp as [j Hj].
    destruct (n_slot_sock n HI j p Hj) as [k [Hk _]]. apply in_seq. split; [lia|]. simpl.
    eapply nth_error_lt; eauto. }
  pose proof (NoDup_incl_length Hnd Hincl) as L. rewrite map_length, seq_length in L. exact L.
Qed.

Lemma nfds_small s c : Sim s c -> (N.of_nat (length (socks (s_net s))) <= FD_LIMIT)%N ->
  (N.of_nat (length (fds (s_net s))) < SIZE_WRAP)%N.
Proof.
  intros HS H. pose proof (fds_le_socks _ (sm_net s c HS)) as L. unfold FD_LIMIT, SIZE_WRAP in *. lia.
Qed.

(* ================================================================ API calls made by the client *)
Definition op_norm5 (o : op) : Prop :=
  op_norm o /\ match o with ONetReg _ fd _ _ => (fd < Z.of_N FD_LIMIT)%Z | _ => True end.
Definition script_norm5 (sc : script) : Prop := Forall op_norm5 (fst sc).
Definition prog_norm5 (p : program) : Prop := Forall (Forall script_norm5) p.
Definition xop_norm5 (x : xop) : Prop := match x with XOp o => op_norm5 o | _ => True end.

Lemma op_norm5_norm o : op_norm5 o -> op_norm o. Proof. intros H; apply H. Qed.
Lemma ops_norm5_norm l : Forall op_norm5 l -> Forall op_norm l.
Proof. intros H. eapply Forall_impl; [|exact H]. apply op_norm5_norm. Qed.
Lemma prog_norm5_norm p : prog_norm5 p -> prog_norm p.
Proof.
  intros H. unfold prog_norm, prog_norm5 in *. eapply Forall_impl; [|exact H].
  intros a Ha. eapply Forall_impl; [|exact Ha]. intros sc. apply ops_norm5_norm.
Qed.

Lemma get_script_norm5 p cb k : prog_norm5 p -> script_norm5 (get_script p cb k).
Proof.
  intros Hp. unfold get_script.
  assert (Hs : Forall script_norm5 (nth cb p [])).
  { destruct (nth_in_or_default cb p []) as [H | ->]; [|constructor].
    unfold prog_norm5 in Hp. rewrite Forall_forall in Hp. apply Hp. exact H. }
  destruct (nth_in_or_default k (nth cb p []) ([], 0%Z)) as [H | ->].
  - rewrite Forall_forall in Hs. apply Hs. exact H.
  - constructor.
Qed.

Section Ops5.
  Variable fl : c5flags.

  (* control fields an API call made by the client leaves alone *)
  Definition ctl_same (c c' : c5) : Prop :=
    d_mode c' = d_mode c /\ d_incb c' = d_incb c /\ d_stop c' = d_stop c /\ d_status c' = d_status c /\
    d_drain c' = d_drain c /\ d_phase c' = d_phase c /\ d_ninv c' = d_ninv c /\
    d_ready_seen c' = d_ready_seen c /\ (d_intr_run c = true -> d_intr_run c' = true).

  Lemma ctl_same_refl c : ctl_same c c.
  Proof. unfold ctl_same. tauto. Qed.
  Lemma ctl_same_trans a b c : ctl_same a b -> ctl_same b c -> ctl_same a c.
  Proof. unfold ctl_same. intros H1 H2. decompose [and] H1. decompose [and] H2. repeat split; try congruence. auto. Qed.

  Lemma upd5_ctl c i n t : ctl_same c (upd5 c i n t).
  Proof. unfold ctl_same. simpl. tauto. Qed.

  Lemma not_imm_id x4 c r k :
    R45 x4 c -> NoDup (map g_rid (c_live x4)) -> live_rid x4 r k -> is_imm k = false ->
    drop_imm r (d_imms c) = d_imms c.
  Proof.
    intros HR Hnd [g [Hg [Er Hk]]] Hnot. apply drop_imm_notin. intros x Hx E.
    rewrite (r_imms _ _ HR) in Hx. apply in_imm_of in Hx. destruct Hx as [g' [Hg' [A B]]].
    assert (g = g') by (apply (nodup_rid_eq (c_live x4)); auto; [apply in_rev; exact Hg' | congruence]).
    subst g'. rewrite B in Hk. subst k. discriminate.
  Qed.

  (* events that leave the immediate list, the interrupt flag and the timers alone *)
  Definition passive5 (c c' : c5) : Prop :=
    d_imms c' = d_imms c /\ d_intr c' = d_intr c /\ ctl_same c c' /\ incl (d_tmrs c') (d_tmrs c).

  Lemma G5_passive s s' e c c' :
    G5 fl s c -> Good s' -> s_tr s' = e :: s_tr s -> cstep5 fl c e = Some c' ->
    passive5 c c' -> s_imm s' = s_imm s -> s_intr s' = s_intr s -> next_rid (s_cl s) <= next_rid (s_cl s') ->
    s_tmr s' = s_tmr s -> s_env s' = s_env s ->
    (N.of_nat (length (socks (s_net s'))) <= FD_LIMIT)%N -> events_nonzero (s_net s') ->
    G5 fl s' c' /\ ctl_same c c'.
  Proof.
    intros HG HG' Ht He [Pi [Pn [Pc Pt]]] Eimm Eintr Hnext Etmr Eenv Hsocks Hz. split; [|exact Pc].
    assert (Ecl : clocks (s_env s') = clocks (s_env s)) by (rewrite Eenv; reflexivity).
    assert (Ela : lastclock (s_env s') = lastclock (s_env s)) by (rewrite Eenv; reflexivity).
    eapply G5_step; eauto.
    - rewrite Pi, Eimm. eapply ImmOrd_bound; [apply (G5_imm fl s c HG) | exact Hnext].
    - rewrite Pn, Eintr. apply (G5_intr fl s c HG).
    - eapply Ext5_frame; eauto. apply (G5_ext fl s c HG).
  Qed.

  Lemma cstep5_clock c t :
    cstep5 fl c (EClock t) =
    Some {| d_imms := d_imms c; d_nets := d_nets c; d_tmrs := d_tmrs c; d_clock := Some t;
            d_prev := match d_prev c with PvPoll0 => PvPoll0Clock | _ => PvClock end;
            d_mode := d_mode c; d_phase := d_phase c; d_drain := d_drain c; d_incb := d_incb c;
            d_intr := d_intr c; d_intr_run := d_intr_run c; d_stop := d_stop c;
            d_status := d_status c; d_ninv := d_ninv c; d_ready_seen := d_ready_seen c |}.
  Proof. reflexivity. Qed.

  (* reading the clock *)
  Lemma g5_read_clock s c now s1 :
    G5 fl s c -> read_clock s = (now, s1) ->
    exists c1, G5 fl s1 c1 /\ ctl_same c c1 /\ d_clock c1 = Some now /\ d_imms c1 = d_imms c /\
               d_nets c1 = d_nets c /\ d_tmrs c1 = d_tmrs c /\
               d_prev c1 = match d_prev c with PvPoll0 => PvPoll0Clock | _ => PvClock end /\
               d_intr_run c1 = d_intr_run c /\
               s_cl s1 = s_cl s /\ s_imm s1 = s_imm s /\ s_net s1 = s_net s /\ s_tmr s1 = s_tmr s /\
               s_intr s1 = s_intr s /\ s_tr s1 = EClock now :: s_tr s /\
               lastclock (s_env s1) = now /\ tv_norm now = true.
  Proof.
    intros HG H. pose proof (G5_good fl s c HG) as HGood.
    destruct (read_clock_good s now s1 HGood H) as [Hnorm [E1 [E2 [E3 [E4 [E5 _]]]]]].
    assert (Htr : s_tr s1 = EClock now :: s_tr s).
    { unfold read_clock in H. destruct (clocks (s_env s)); inversion H; reflexivity. }
    set (c1 := {| d_imms := d_imms c; d_nets := d_nets c; d_tmrs := d_tmrs c; d_clock := Some now;
            d_prev := match d_prev c with PvPoll0 => PvPoll0Clock | _ => PvClock end;
            d_mode := d_mode c; d_phase := d_phase c; d_drain := d_drain c; d_incb := d_incb c;
            d_intr := d_intr c; d_intr_run := d_intr_run c; d_stop := d_stop c;
            d_status := d_status c; d_ninv := d_ninv c; d_ready_seen := d_ready_seen c |}).
    assert (Hctl : ctl_same c c1) by (unfold ctl_same; simpl; tauto).
    destruct (Ext5_read_clock s c now s1 c1 (G5_ext fl s c HG) H eq_refl) as [HX1 Hlast].
    exists c1. split.
    { eapply (G5_step fl s s1 (EClock now) c c1 HG).
      - eapply read_clock_Good; eauto.
      - exact Htr.
      - apply cstep5_clock.
      - simpl. rewrite E2, E1. apply (G5_imm fl s c HG).
      - simpl. rewrite E5. apply (G5_intr fl s c HG).
      - exact HX1. }
    split; [exact Hctl|]. simpl. repeat split; auto.
  Qed.

  Ltac solve_passive :=
    unfold passive5, ctl_same; simpl; repeat split; try tauto; try apply incl_refl; try apply incl_drop_tmr.

  Lemma g5_exec_op o s s' c :
    G5 fl s c -> op_norm5 o -> exec_op o s = Ok s' -> exists c', G5 fl s' c' /\ ctl_same c c'.
  Proof.
    intros HG [Hn Hfd] H. pose proof HG as [HGood [Hc [HO [Hi HX]]]].
    pose proof (good_exec_op o s s' HGood Hn H) as HGood'.
    destruct (G5_c4 fl s c HG) as [x4 [H4 [HS HR]]].
    destruct o.
    - (* OImmReg *)
      unfold exec_op in H. destruct (prio <? PRIO_LIMIT); [|discriminate].
      destruct af as [|af]; cbn [Nat.eqb negb] in H.
      + destruct (imm_register cb prio (next_rid (s_cl s)) (s_imm s)) as [im| | |] eqn:Ei; cbn [bind] in H; try discriminate.
        inversion H; subst s'. clear H.
        eexists. split; [|apply (upd5_ctl c)].
        eapply (G5_step fl s _ _ c); [exact HG | exact HGood' | reflexivity | reflexivity | | |].
        * simpl. eapply ImmOrd_register; eauto.
        * simpl. exact Hi.
        * eapply Ext5_same; [exact HX | | | |]; try reflexivity. simpl. apply incl_refl.
      + inversion H; subst s'.
        eexists. eapply (G5_passive s _ _ c); [exact HG | exact HGood' | reflexivity | reflexivity | solve_passive | | | | | | |];
          try reflexivity; simpl; try lia; apply HX.
    - (* OImmCancel *)
      unfold exec_op in H.
      destruct (get_var var (vars (s_cl s))) as [[r [prio|]]|] eqn:Ev;
        try (inversion H; subst; exists c; split; [exact HG | apply ctl_same_refl]).
      destruct (EventsModel.mem_nat r (cl_live (s_cl s))) eqn:Em;
        [|inversion H; subst; exists c; split; [exact HG | apply ctl_same_refl]].
      destruct (imm_cancel r prio (s_imm s)) as [im| | |] eqn:Ei; cbn [bind] in H; try discriminate.
      inversion H; subst s'. clear H.
      eexists. split; [|apply (upd5_ctl c)].
      eapply (G5_step fl s _ _ c); [exact HG | exact HGood' | reflexivity | reflexivity | | |].
      * simpl. eapply ImmOrd_cancel; eauto. intros x Hx Ex.
        rewrite (r_imms _ _ HR) in Hx. apply in_imm_of in Hx. destruct Hx as [g [Hg [A B]]].
        apply in_rev in Hg. assert (K : g_kind g = KImm prio) by (eapply (sm_vars s x4 HS); eauto; congruence).
        congruence.
      * simpl. exact Hi.
      * eapply Ext5_same; [exact HX | | | |]; try reflexivity. simpl. apply incl_drop_tmr.
    - (* ONetReg *)
      unfold exec_op in H. destruct af as [|af]; cbn [Nat.eqb negb] in H.
      + destruct (net_register cb fd opn (next_rid (s_cl s)) (s_net s)) as [[e n]| | |] eqn:En; cbn [bind] in H; try discriminate.
        pose proof (net_register_socks _ _ _ _ _ _ _ En (x_socks s c HX) Hfd) as Hsk.
        pose proof (evnz_net_register _ _ _ _ _ _ _ (x_evnz s c HX) En) as Hz.
        destruct e as [err|].
        * inversion H; subst s'.
          eexists. eapply (G5_passive s _ _ c); [exact HG | exact HGood' | reflexivity | reflexivity | solve_passive | | | | | | |];
            try reflexivity; simpl; try lia; assumption.
        * destruct (op_dir opn) as [dir|]; [|discriminate]. inversion H; subst s'.
          eexists. eapply (G5_passive s _ _ c); [exact HG | exact HGood' | reflexivity | reflexivity | solve_passive | | | | | | |];
            try reflexivity; simpl; try lia; assumption.
      + inversion H; subst s'.
        destruct (net_register_refused_spec (S af) cb fd opn (next_rid (s_cl s)) (s_net s) (sm_net s x4 HS)) as [_ [_ [_ Hfds]]].
        eexists. eapply (G5_passive s _ _ c); [exact HG | exact HGood' | reflexivity | reflexivity | solve_passive | | | | | | |];
          try reflexivity; simpl; try lia.
        * apply net_register_refused_socks; [apply HX | exact Hfd].
        * eapply evnz_same_fds; [exact Hfds | apply HX].
    - (* ONetCancel *)
      unfold exec_op in H.
      destruct (net_cancel fd opn (s_net s)) as [[x n]| | |] eqn:En; cbn [bind] in H; try discriminate.
      destruct (net_cancel_spec fd opn (s_net s) x n (sm_net s x4 HS) En) as [_ [_ Hspec]].
      assert (Hsk : (N.of_nat (length (socks n)) <= FD_LIMIT)%N).
      { pose proof (net_cancel_socks _ _ _ _ _ En). pose proof (x_socks s c HX). lia. }
      pose proof (evnz_net_cancel _ _ _ _ _ (x_evnz s c HX) En) as Hz.
      destruct x as [rc | err].
      + destruct Hspec as [dir [_ [_ [Hrc _]]]]. inversion H; subst s'.
        pose proof (sm_net1 s x4 HS _ _ _ Hrc) as Hlr.
        eexists. eapply (G5_passive s _ _ c); [exact HG | exact HGood' | reflexivity | reflexivity | | | | | | | |];
          try reflexivity; simpl; try lia; try assumption.
        unfold passive5. simpl. split; [|split; [reflexivity | split; [apply (upd5_ctl c) | apply incl_drop_tmr]]].
        eapply not_imm_id; eauto. apply (sm_nodup s x4 HS).
      + inversion H; subst s'.
        eexists. eapply (G5_passive s _ _ c); [exact HG | exact HGood' | reflexivity | reflexivity | solve_passive | | | | | | |];
          try reflexivity; simpl; try lia; assumption.
    - (* OTimerReg *)
      unfold exec_op in H. destruct af as [|af]; cbn [Nat.eqb negb] in H.
      + destruct (timer_register cb t (next_rid (s_cl s)) s) as [s1| | |] eqn:Er; cbn [bind] in H; try discriminate.
        inversion H; subst s'. clear H.
        unfold timer_register in Er. destruct (read_clock s) as [now s0] eqn:Ec.
        destruct (g5_read_clock s c now s0 HG Ec) as [c1 [HG1 [Hctl1 [Hclk [Hi1 [_ [Ht1 [_ [_ [E1 [E2 [E3 [E4 [E5 [E6 [Elast Hnow]]]]]]]]]]]]]]]].
        match type of Er with (let* h := ?e in _) = _ => destruct e as [h| | |] eqn:Eh end; cbn [bind] in Er; try discriminate.
        inversion Er; subst s1. clear Er.
        pose proof (G5_ext fl s0 c1 HG1) as HX1.
        eexists. split; [|eapply ctl_same_trans; [exact Hctl1 | apply (upd5_ctl c1)]].
        eapply (G5_step fl s0 _ _ c1); [exact HG1 | exact HGood' | reflexivity | simpl; rewrite Hclk; reflexivity | | |].
        * simpl. eapply ImmOrd_bound; [apply (G5_imm fl s0 c1 HG1) | simpl; lia].
        * simpl. apply (G5_intr fl s0 c1 HG1).
        * pose proof (heap_add_perm _ _ _ Eh) as Hperm.
          constructor; simpl.
          -- intros y Hy. apply in_app_or in Hy. destruct Hy as [Hy | [<- | []]].
             ++ destruct (x_cover s0 c1 HX1 y Hy) as [x [Hx Ex]]. exists x. split; [|exact Ex].
                eapply Permutation_in; [exact Hperm | right; exact Hx].
             ++ eexists. split; [eapply Permutation_in; [exact Hperm | left; reflexivity]|].
                unfold tkey. simpl. rewrite us_add_timeout. reflexivity.
          -- eapply heap_add_ord; [apply (x_heap s0 c1 HX1) | exact Eh].
          -- discriminate.
          -- apply (x_clocks s0 c1 HX1).
          -- intros x Hx. apply (Permutation_in _ (Permutation_sym Hperm)) in Hx. destruct Hx as [<- | Hx].
             ++ simpl. rewrite us_add_timeout, Elast. lia.
             ++ apply (x_armed s0 c1 HX1 x Hx).
          -- apply (x_socks s0 c1 HX1).
          -- apply (x_evnz s0 c1 HX1).
      + (* refused: the timer queue may stay initialised (same heap) *)
        pose proof (G5_timer_refused fl (S af) s c HG) as HG0.
        set (s0r := timer_register_refused (S af) s) in *.
        destruct (Nat.odd (S af)).
        * inversion H; subst s'.
          eexists. eapply (G5_passive s0r _ _ c); [exact HG0 | exact HGood' | reflexivity | reflexivity | solve_passive | | | | | | |];
            try reflexivity; simpl; try lia; apply (G5_ext fl s0r c HG0).
        * destruct (read_clock s0r) as [now s0] eqn:Ec. inversion H; subst s'.
          destruct (g5_read_clock s0r c now s0 HG0 Ec) as [c1 [HG1 [Hctl1 _]]].
          pose proof (G5_ext fl s0 c1 HG1) as HX1.
          assert (X : exists c', G5 fl (emit (ERegFailTimer t ENOMEM) s0) c' /\ ctl_same c1 c').
          { eexists. eapply (G5_passive s0 _ _ c1); [exact HG1 | exact HGood' | reflexivity | reflexivity | solve_passive | | | | | | |];
              try reflexivity; simpl; try lia; apply HX1. }
          destruct X as [c' [A B]]. exists c'. split; [exact A | eapply ctl_same_trans; eauto].
    - (* OTimerCancel *)
      unfold exec_op in H.
      destruct (get_var var (vars (s_cl s))) as [[r [prio|]]|] eqn:Ev;
        try (inversion H; subst; exists c; split; [exact HG | apply ctl_same_refl]).
      destruct (EventsModel.mem_nat r (cl_live (s_cl s))) eqn:Em;
        [|inversion H; subst; exists c; split; [exact HG | apply ctl_same_refl]].
      destruct (timer_cancel r s) as [s1| | |] eqn:Et; cbn [bind] in H; try discriminate.
      inversion H; subst s'. clear H.
      unfold timer_cancel in Et. destruct (heap_index r (heap (s_tmr s))) as [i|] eqn:Ei; [|discriminate].
      destruct (heap_delete i (heap (s_tmr s))) as [h| | |] eqn:Eh; cbn [bind] in Et; try discriminate.
      inversion Et; subst s1. clear Et.
      destruct (heap_index_some _ _ _ Ei) as [x [Hx Hxr]].
      destruct (sm_tmr s x4 HS x (nth_error_In _ _ Hx)) as [g [Hg [Er [Hk _]]]]. rewrite Hxr in Er.
      destruct (heap_delete_perm _ _ _ Eh) as [x0 [Hx0 Hperm]]. assert (x0 = x) by congruence. subst x0.
      eexists. split; [|apply (upd5_ctl c)].
      eapply (G5_step fl s _ _ c); [exact HG | exact HGood' | reflexivity | reflexivity | | |].
      * simpl. rewrite (not_imm_id x4 c r (KTimer (t_orig x))); auto; [apply (sm_nodup s x4 HS) | exists g; auto].
      * simpl. exact Hi.
      * constructor; simpl.
        -- intros y Hy. unfold drop_tmr in Hy. apply filter_In in Hy. destruct Hy as [Hy Hne].
           apply negb_true_iff, Nat.eqb_neq in Hne.
           destruct (x_cover s c HX y Hy) as [z [Hz Ez]]. exists z. split; [|exact Ez].
           apply (Permutation_in _ Hperm) in Hz. destruct Hz as [<- | Hz]; [|exact Hz].
           exfalso. apply Hne. rewrite <- Ez. unfold tkey. simpl. exact Hxr.
        -- eapply heap_delete_ord; [apply (x_heap s c HX) | exact Eh].
        -- discriminate.
        -- apply (x_clocks s c HX).
        -- intros z Hz. apply (x_armed s c HX). eapply Permutation_in; [symmetry; exact Hperm | right; exact Hz].
        -- apply (x_socks s c HX).
        -- apply (x_evnz s c HX).
    - (* OTimerReset *)
      unfold exec_op in H.
      destruct (get_var var (vars (s_cl s))) as [[r [prio|]]|] eqn:Ev;
        try (inversion H; subst; exists c; split; [exact HG | apply ctl_same_refl]).
      destruct (EventsModel.mem_nat r (cl_live (s_cl s))) eqn:Em;
        [|inversion H; subst; exists c; split; [exact HG | apply ctl_same_refl]].
      destruct (timer_reset r s) as [s1| | |] eqn:Et; cbn [bind] in H; try discriminate.
      inversion H; subst s'. clear H.
      unfold timer_reset in Et. destruct (heap_index r (heap (s_tmr s))) as [i|] eqn:Ei; [|discriminate].
      destruct (rdn (heap (s_tmr s)) i) as [x| | |] eqn:Ex; cbn [bind] in Et; try discriminate. apply rdn_ok in Ex.
      destruct (read_clock s) as [now s0] eqn:Ec.
      destruct (g5_read_clock s c now s0 HG Ec) as [c1 [HG1 [Hctl1 [Hclk [Hi1 [_ [Ht1 [_ [_ [E1 [E2 [E3 [E4 [E5 [E6 [Elast Hnow]]]]]]]]]]]]]]]].
      match type of Et with (let* h := ?e in _) = _ => destruct e as [h| | |] eqn:Eh end; cbn [bind] in Et; try discriminate.
      inversion Et; subst s1. clear Et.
      pose proof (G5_ext fl s0 c1 HG1) as HX1.
      destruct (heap_index_some _ _ _ Ei) as [x0 [Hx0 Hxr]]. assert (x0 = x) by congruence. subst x0.
      rewrite <- E4 in Ex.
      set (x' := {| t_deadline := add_timeout now (t_orig x); t_orig := t_orig x; t_rec := t_rec x |}) in *.
      pose proof (heapify_perm _ _ _ _ _ Eh) as Hperm.
      destruct (upd_nth_split _ _ _ Ex) as [rest [P1 P2]].
      destruct (G5_c4 fl s0 c1 HG1) as [y4 [_ [HS1 _]]].
      destruct (sm_tmr s0 y4 HS1 x (nth_error_In _ _ Ex)) as [_ [_ [_ [_ [_ [Hnx Hno]]]]]].
      eexists. split; [|eapply ctl_same_trans; [exact Hctl1 | apply (upd5_ctl c1)]].
      eapply (G5_step fl s0 _ _ c1); [exact HG1 | exact HGood' | reflexivity | simpl; rewrite Hclk; reflexivity | | |].
      * simpl. apply (G5_imm fl s0 c1 HG1).
      * simpl. apply (G5_intr fl s0 c1 HG1).
      * constructor; simpl.
        -- intros y' Hy'. apply in_map_iff in Hy'. destruct Hy' as [y [<- Hy]].
           destruct (x_cover s0 c1 HX1 y Hy) as [z [Hz Ez]].
           unfold set_tmr_due. destruct (Nat.eqb (fst y) r) eqn:Efy.
           ++ apply Nat.eqb_eq in Efy.
              assert (z = x).
              { apply (nodup_map_inj trid (heap (s_tmr s0))); [apply (sm_tmr_nodup s0 y4 HS1) | exact Hz | eapply nth_error_In; eauto|].
                unfold trid. rewrite Hxr, <- Efy, <- Ez. reflexivity. }
              subst z. exists x'. split.
              ** eapply Permutation_in; [exact Hperm|]. eapply Permutation_in; [symmetry; apply P2 | left; reflexivity].
              ** unfold tkey, x'. simpl. rewrite us_add_timeout, <- Ez. reflexivity.
           ++ apply Nat.eqb_neq in Efy. exists z. split; [|exact Ez].
              eapply Permutation_in; [exact Hperm|]. eapply Permutation_in; [symmetry; apply P2|]. right.
              apply (Permutation_in _ P1) in Hz. destruct Hz as [<- | Hz]; [|exact Hz].
              exfalso. apply Efy. rewrite <- Ez. unfold tkey. simpl. exact Hxr.
        -- eapply (heap_increase_ord i x x'); [apply (x_heap s0 c1 HX1) | exact Ex | | exact Eh].
           unfold tle, x'. simpl. apply tv_le_us; [exact Hnx | apply norm_add_timeout; assumption|].
           rewrite us_add_timeout. pose proof (x_armed s0 c1 HX1 x (nth_error_In _ _ Ex)) as A. rewrite Elast in A. exact A.
        -- discriminate.
        -- apply (x_clocks s0 c1 HX1).
        -- intros z Hz. apply (Permutation_in _ (Permutation_sym Hperm)) in Hz.
           apply (Permutation_in _ (P2 x')) in Hz. destruct Hz as [<- | Hz].
           ++ unfold x'. simpl. rewrite us_add_timeout, Elast. lia.
           ++ apply (x_armed s0 c1 HX1). eapply Permutation_in; [symmetry; exact P1 | right; exact Hz].
        -- apply (x_socks s0 c1 HX1).
        -- apply (x_evnz s0 c1 HX1).
    - (* OInterrupt *)
      unfold exec_op in H. inversion H; subst s'.
      eexists. split.
      + eapply (G5_step fl s _ _ c); [exact HG | exact HGood' | reflexivity | reflexivity | | |].
        * simpl. exact HO.
        * reflexivity.
        * eapply Ext5_same; [exact HX | | | |]; try reflexivity. simpl. apply incl_refl.
      + unfold ctl_same. simpl. tauto.
    - (* ODone *)
      unfold exec_op in H. inversion H; subst s'.
      eexists. eapply (G5_passive s _ _ c); [exact HG | exact HGood' | reflexivity | reflexivity | solve_passive | | | | | | |];
        try reflexivity; simpl; try lia; apply HX.
  Qed.

  Lemma g5_exec_ops l : forall s s' c,
    G5 fl s c -> Forall op_norm5 l -> exec_ops l s = Ok s' -> exists c', G5 fl s' c' /\ ctl_same c c'.
  Proof.
    induction l as [|o l IH]; intros s s' c HG Hn H; simpl in H.
    - inversion H; subst. exists c. split; [exact HG | apply ctl_same_refl].
    - destruct (exec_op o s) as [s1| | |] eqn:E; cbn [bind] in H; try discriminate.
      inversion Hn; subst. destruct (g5_exec_op o s s1 c HG H2 E) as [c1 [HG1 Hc1]].
      destruct (IH s1 s' c1 HG1 H3 H) as [c' [HG' Hc']]. exists c'. split; [exact HG' | eapply ctl_same_trans; eauto].
  Qed.
End Ops5.

(* ================================================================ the dispatcher *)
Lemma fds_pending_zero f : fds_pending (map (pf_set_rev rb_none) f) = false.
Proof. unfold fds_pending. induction f as [|p f IH]; simpl; [reflexivity | exact IH]. Qed.

Section Dispatch5.
  Variable fl : c5flags.
  Variable prog : program.
  Hypothesis Hprog : prog_norm5 prog.

  (* what a run keeps from one decision point to the next *)
  Definition keeps (c c' : c5) : Prop :=
    d_mode c' = d_mode c /\ d_drain c' = d_drain c /\ d_phase c' = d_phase c.

  Lemma keeps_refl c : keeps c c. Proof. unfold keeps; tauto. Qed.
  Lemma keeps_trans a b c : keeps a b -> keeps b c -> keeps a c.
  Proof. unfold keeps. intros [A1 [A2 A3]] [B1 [B2 B3]]. repeat split; congruence. Qed.
  Lemma ctl_keeps c c' : ctl_same c c' -> keeps c c'.
  Proof. unfold ctl_same, keeps. tauto. Qed.

  Definition fired (c : c5) (imms : list (nat * nat)) (nets : list nat) (tmrs : list (nat * (tv * N))) : c5 :=
    {| d_imms := imms; d_nets := nets; d_tmrs := tmrs; d_clock := d_clock c; d_prev := PvNone;
       d_mode := d_mode c; d_phase := d_phase c; d_drain := d_drain c; d_incb := true;
       d_intr := d_intr c; d_intr_run := d_intr_run c; d_stop := false;
       d_status := d_status c; d_ninv := S (d_ninv c); d_ready_seen := d_ready_seen c |}.

  Lemma cstep5_invoke_imm c r x p :
    d_incb c = false -> d_stop c = false -> d_mode c <> MOut ->
    find_imm r (d_imms c) = Some x -> imm_best (d_imms c) = Some (r, p) ->
    cstep5 fl c (EInvoke r) = Some (fired c (drop_imm r (d_imms c)) (d_nets c) (d_tmrs c)).
  Proof.
    intros Hincb Hstop Hmode Hfind Hbest. unfold cstep5, fired. rewrite Hincb, Hstop. cbn [orb].
    rewrite Hfind, Hbest, Nat.eqb_refl. destruct (d_mode c) eqn:Em; [congruence | reflexivity | reflexivity].
  Qed.

  Lemma cstep5_invoke_net c r :
    d_incb c = false -> d_stop c = false -> d_mode c <> MOut -> d_imms c = [] ->
    EventsSpec.mem_nat r (d_nets c) = true ->
    cstep5 fl c (EInvoke r) = Some (fired c (d_imms c) (drop_net r (d_nets c)) (d_tmrs c)).
  Proof.
    intros Hincb Hstop Hmode Hnil Hmem. unfold cstep5, fired. rewrite Hincb, Hstop. cbn [orb].
    rewrite Hnil. cbn [find_imm find]. rewrite Hmem. cbn [EventsSpec.is_nil].
    destruct (d_mode c) eqn:Em; [congruence | reflexivity | reflexivity].
  Qed.

  (* a timer: no immediate pending, minimal deadline, right after a quiet zero-timeout poll *)
  Lemma cstep5_invoke_tmr c r t0 due0 md :
    d_incb c = false -> d_stop c = false -> d_mode c <> MOut -> d_imms c = [] ->
    EventsSpec.mem_nat r (d_nets c) = false ->
    find_tmr r (d_tmrs c) = Some (r, (t0, due0)) -> min_due (d_tmrs c) = Some md ->
    (due0 <= md)%N -> d_prev c = PvPoll0Clock ->
    cstep5 fl c (EInvoke r) = Some (fired c (d_imms c) (d_nets c) (drop_tmr r (d_tmrs c))).
  Proof.
    intros Hincb Hstop Hmode Hnil Hmem Hft Hmd Hle Hprev. unfold cstep5, fired. rewrite Hincb, Hstop. cbn [orb].
    rewrite Hnil. cbn [find_imm find]. rewrite Hmem, Hft, Hmd, Hprev. cbn [EventsSpec.is_nil andb].
    assert (X : (due0 <=? md)%N = true) by (apply N.leb_le; exact Hle). rewrite X, !orb_true_r. cbn [andb].
    destruct (d_mode c) eqn:Em; [congruence | reflexivity | reflexivity].
  Qed.

  (* ---- the three ways a callback is entered *)
  Definition Entered (c : c5) (s1 : st) (c1 : c5) : Prop :=
    G5 fl s1 c1 /\ d_incb c1 = true /\ keeps c c1 /\ d_ninv c1 <> 0.

  Lemma enter_imm s c r s1 :
    G5 fl s c -> d_incb c = false -> d_stop c = false -> d_mode c <> MOut ->
    imm_get_s s = Ok (Some r, s1) ->
    d_imms c <> [] /\ exists c1, Entered c (emit (EInvoke (r_rid r)) (fire_cl r s1)) c1.
  Proof.
    intros HG Hincb Hstop Hmode H. pose proof HG as [HGood [Hc [HO [Hi HX]]]].
    pose proof (good_imm_get_some s r s1 HGood H) as HGood'.
    unfold imm_get_s in H. destruct (imm_get (s_imm s)) as [[ro im]| | |] eqn:E; cbn [bind] in H; try discriminate.
    inversion H; subst ro s1. clear H.
    destruct (ImmOrd_get_some _ _ _ _ _ HO E) as [m [Hbest HO']].
    assert (Hin : In (r_rid r, m) (d_imms c)) by (apply imm_best_in; exact Hbest).
    split; [intros X; rewrite X in Hin; destruct Hin|].
    assert (Hfind : exists x, find_imm (r_rid r) (d_imms c) = Some x).
    { unfold find_imm.
      destruct (find (fun x : nat * nat => Nat.eqb (fst x) (r_rid r)) (d_imms c)) eqn:Ef; [eauto|].
      exfalso. pose proof (find_none _ _ Ef _ Hin) as X. simpl in X. rewrite Nat.eqb_refl in X. discriminate. }
    destruct Hfind as [x Hfind].
    exists (fired c (drop_imm (r_rid r) (d_imms c)) (d_nets c) (d_tmrs c)). split; [|split; [|split]].
    - eapply (G5_step fl s _ (EInvoke (r_rid r)) c); [exact HG | exact HGood' | reflexivity | | | |].
      + eapply cstep5_invoke_imm; eauto.
      + simpl. exact HO'.
      + simpl. exact Hi.
      + eapply Ext5_same; [exact HX | | | |]; try reflexivity. simpl. apply incl_refl.
    - reflexivity.
    - unfold keeps. simpl. tauto.
    - simpl. discriminate.
  Qed.

  Lemma enter_net s c r s1 :
    G5 fl s c -> d_incb c = false -> d_stop c = false -> d_mode c <> MOut -> d_imms c = [] ->
    net_get_s s = Ok (Some r, s1) ->
    exists c1, Entered c (emit (EInvoke (r_rid r)) (fire_cl r s1)) c1.
  Proof.
    intros HG Hincb Hstop Hmode Hnil H. pose proof HG as [HGood [Hc [HO [Hi HX]]]].
    pose proof (good_net_get_some s r s1 HGood H) as HGood'.
    destruct (G5_c4 fl s c HG) as [x4 [H4 [HS HR]]].
    unfold net_get_s in H. destruct (net_get (s_net s)) as [[ro n]| | |] eqn:E; cbn [bind] in H; try discriminate.
    inversion H; subst ro s1. clear H.
    destruct (net_get_spec (s_net s) (Some r) n (sm_net s x4 HS) E) as [_ [_ [s0 [dir [Hrc _]]]]].
    destruct (sm_net1 s x4 HS _ _ _ Hrc) as [g [Hg [Er Hk]]].
    assert (Hmem : EventsSpec.mem_nat (r_rid r) (d_nets c) = true).
    { apply mem_nat_true. rewrite (r_nets _ _ HR). apply in_net_of. exists g, s0, dir.
      split; [apply in_rev; rewrite rev_involutive; exact Hg | auto]. }
    exists (fired c (d_imms c) (drop_net (r_rid r) (d_nets c)) (d_tmrs c)). split; [|split; [|split]].
    - eapply (G5_step fl s _ (EInvoke (r_rid r)) c); [exact HG | exact HGood' | reflexivity | | | |].
      + eapply cstep5_invoke_net; eauto.
      + simpl. exact HO.
      + simpl. exact Hi.
      + eapply Ext5_frame; [exact HX | | | | | |]; try reflexivity; simpl.
        * rewrite (net_get_socks _ _ _ E). apply (x_socks s c HX).
        * eapply evnz_net_get; [apply (x_evnz s c HX) | exact E].
        * apply incl_refl.
    - reflexivity.
    - unfold keeps. simpl. tauto.
    - simpl. discriminate.
  Qed.

  Lemma tv_cmp_gt_us a b : tv_norm a = true -> tv_norm b = true -> tv_cmp a b = Gt -> (us b < us a)%N.
  Proof.
    intros Ha Hb H. destruct (N.lt_ge_cases (us b) (us a)) as [L | L]; [exact L|]. exfalso.
    apply (proj2 (tv_le_us a b Ha Hb)) in L. apply L. exact H.
  Qed.

  Lemma enter_timer s c r s1 :
    G5 fl s c -> d_incb c = false -> d_stop c = false -> d_mode c <> MOut -> d_imms c = [] ->
    d_prev c = PvPoll0 ->
    timer_get s = Ok (Some r, s1) ->
    exists c0 c1, keeps c c0 /\ Entered c0 (emit (EInvoke (r_rid r)) (fire_cl r s1)) c1.
  Proof.
    intros HG Hincb Hstop Hmode Hnil Hprev H.
    pose proof (good_timer_get_some s r s1 (G5_good fl s c HG) H) as HGood'.
    unfold timer_get in H. destruct (tq_inited (s_tmr s)); [|discriminate].
    destruct (read_clock s) as [now s0] eqn:Ec.
    destruct (g5_read_clock fl s c now s0 HG Ec) as [c0 [HG0 [Hctl0 [Hclk [Hi0 [Hn0 [Ht0 [Hp0 [_ [E1 [E2 [E3 [E4 [E5 [E6 _]]]]]]]]]]]]]]].
    rewrite Hprev in Hp0.
    destruct (G5_c4 fl s0 c0 HG0) as [x4 [H4 [HS HR]]].
    pose proof (G5_ext fl s0 c0 HG0) as HX0.
    destruct (heap (s_tmr s0)) as [|m rest] eqn:Eheap; [discriminate|].
    assert (Hm : In m (heap (s_tmr s0))) by (rewrite Eheap; left; reflexivity).
    destruct (sm_tmr s0 x4 HS m Hm) as [g [Hg [Er [Hk [Hdue _]]]]].
    assert (Hres : r = t_rec m /\ exists h, heap_delete 0 (m :: rest) = Ok h /\ s1 = tmr_with s0 h).
    { destruct (tv_cmp (t_deadline m) now); try discriminate;
        (destruct (heap_delete 0 (m :: rest)) as [h| | |] eqn:Ed; cbn [bind] in H; try discriminate;
         inversion H; subst; split; [reflexivity | exists h; auto]). }
    destruct Hres as [-> [h [Ed ->]]]. rewrite <- Eheap in Ed.
    destruct (heap_delete_perm _ _ _ Ed) as [x0 [Hx0 Hperm]].
    assert (x0 = m) by (rewrite Eheap in Hx0; simpl in Hx0; congruence). subst x0.
    destruct Hctl0 as [C1 [C2 [C3 [C4 [C5 [C6 _]]]]]].
    (* classification of the id *)
    assert (Hnotnet : EventsSpec.mem_nat (r_rid (t_rec m)) (d_nets c0) = false).
    { destruct (EventsSpec.mem_nat (r_rid (t_rec m)) (d_nets c0)) eqn:X; [|reflexivity]. exfalso.
      apply mem_nat_true in X. rewrite (r_nets _ _ HR) in X. apply in_net_of in X.
      destruct X as [g' [fd [dir [Hg' [A B]]]]]. apply in_rev in Hg'.
      assert (g = g') by (apply (nodup_rid_eq (c_live x4)); auto; [apply (sm_nodup s0 x4 HS) | congruence]).
      subst g'. congruence. }
    pose proof (heap_in_tmrs fl s0 c0 m HG0 Hm) as Hintm.
    assert (Hft : exists t0 due0, find_tmr (r_rid (t_rec m)) (d_tmrs c0) = Some (r_rid (t_rec m), (t0, due0)) /\
                                  In (r_rid (t_rec m), (t0, due0)) (d_tmrs c0)).
    { unfold find_tmr. destruct (find (fun x : nat * (tv * N) => Nat.eqb (fst x) (r_rid (t_rec m))) (d_tmrs c0)) as [[r0 [t0 d0]]|] eqn:Ef.
      - apply find_some in Ef. destruct Ef as [Hin Ef]. simpl in Ef. apply Nat.eqb_eq in Ef. subst r0. eauto.
      - exfalso. pose proof (find_none _ _ Ef _ Hintm) as X. simpl in X. rewrite Nat.eqb_refl in X. discriminate. }
    destruct Hft as [t0 [due0 [Hft Hfin]]].
    pose proof (min_due_root fl s0 c0 m rest HG0 Eheap) as Hmd.
    assert (Hdue0 : due0 = us (t_deadline m)).
    { destruct (x_cover s0 c0 HX0 _ Hfin) as [z [Hz Ez]].
      assert (z = m).
      { apply (nodup_map_inj trid (heap (s_tmr s0))); [apply (sm_tmr_nodup s0 x4 HS) | exact Hz | exact Hm|].
        unfold trid. unfold tkey in Ez. inversion Ez. reflexivity. }
      subst z. unfold tkey in Ez. inversion Ez. reflexivity. }
    exists c0, (fired c0 (d_imms c0) (d_nets c0) (drop_tmr (r_rid (t_rec m)) (d_tmrs c0))).
    split; [unfold keeps; tauto|]. split; [|split; [|split]].
    - eapply (G5_step fl s0 _ (EInvoke (r_rid (t_rec m))) c0); [exact HG0 | exact HGood' | reflexivity | | | |].
      + eapply cstep5_invoke_tmr; eauto; try congruence. rewrite Hdue0. lia.
      + simpl. apply (G5_imm fl s0 c0 HG0).
      + simpl. apply (G5_intr fl s0 c0 HG0).
      + constructor; simpl.
        * intros y Hy. unfold drop_tmr in Hy. apply filter_In in Hy. destruct Hy as [Hy Hne].
          apply negb_true_iff, Nat.eqb_neq in Hne.
          destruct (x_cover s0 c0 HX0 y Hy) as [z [Hz Ez]]. exists z. split; [|exact Ez].
          apply (Permutation_in _ Hperm) in Hz. destruct Hz as [<- | Hz]; [|exact Hz].
          exfalso. apply Hne. rewrite <- Ez. reflexivity.
        * eapply heap_delete_ord; [apply (x_heap s0 c0 HX0) | exact Ed].
        * discriminate.
        * apply (x_clocks s0 c0 HX0).
        * intros z Hz. apply (x_armed s0 c0 HX0). eapply Permutation_in; [symmetry; exact Hperm | right; exact Hz].
        * apply (x_socks s0 c0 HX0).
        * apply (x_evnz s0 c0 HX0).
    - reflexivity.
    - unfold keeps. simpl. tauto.
    - simpl. discriminate.
  Qed.

  (* ---- a callback runs and returns *)
  Lemma run_callback c r s s1 c1 rc s' :
    s1 = emit (EInvoke (r_rid r)) (fire_cl r s) -> Entered c s1 c1 ->
    doevent prog r s = Ok (rc, s') ->
    exists c', G5 fl s' c' /\ d_incb c' = false /\ keeps c c' /\ d_status c' = rc /\
               d_stop c' = negb (rc =? 0)%Z || s_intr s' /\ d_ninv c' <> 0.
  Proof.
    intros -> [HG1 [Hincb1 [Hk1 Hn1]]] H. unfold doevent in H.
    match type of H with (let* s2 := exec_ops ?l ?st in _) = _ =>
      destruct (exec_ops l st) as [s2| | |] eqn:E end; cbn [bind] in H; try discriminate.
    inversion H; subst rc s'. clear H.
    destruct (g5_exec_ops fl _ _ _ c1 HG1 (get_script_norm5 prog (r_cb r) _ Hprog) E) as [c2 [HG2 Hctl]].
    pose proof (ctl_keeps _ _ Hctl) as Hk2.
    destruct Hctl as [C1 [C2 [C3 [C4 [C5 [C6 [C7 _]]]]]]].
    pose proof HG2 as [HGood2 [Hc2 [HO2 [Hi2 HX2]]]].
    eexists. split; [|split; [|split; [|split; [|split]]]].
    - eapply (G5_step fl s2 _ (ECbEnd _) c2); [exact HG2 | apply Good_neutral; [exact HGood2 | exact I] | reflexivity | | | |].
      + unfold cstep5. rewrite C2, Hincb1. reflexivity.
      + simpl. exact HO2.
      + simpl. exact Hi2.
      + eapply Ext5_same; [exact HX2 | | | |]; try reflexivity. simpl. apply incl_refl.
    - reflexivity.
    - eapply keeps_trans; [exact Hk1|]. unfold keeps in *. simpl. tauto.
    - reflexivity.
    - simpl. rewrite Hi2. reflexivity.
    - simpl. congruence.
  Qed.

  (* ---- polling *)
  Definition can_poll (c : c5) : Prop :=
    d_incb c = false /\ (d_mode c = MSpin \/ (d_mode c = MRun /\ d_drain c = false)).

  Lemma can_poll_mode c : can_poll c -> d_mode c <> MOut.
  Proof. intros [_ [H | [H _]]]; congruence. Qed.

  (* the timeout is the one the specification wants in the present phase of the run *)
  Definition phase_ok (c : c5) (timeout : Z) : Prop :=
    d_mode c = MRun ->
    match d_phase c with
    | PhStart => first_timeout_ok c timeout = true
    | PhFirst w => w = timeout
    | PhLoop => timeout = 0%Z
    end.

  Definition is_retry (ans : pollans) : bool := match ans with PEintr false => true | _ => false end.

  Definition next_phase (c : c5) (timeout : Z) (ans : pollans) : phase :=
    match d_phase c with
    | PhStart => if is_retry ans then PhFirst timeout else PhLoop
    | PhFirst w => if is_retry ans then PhFirst w else PhLoop
    | PhLoop => PhLoop
    end.

  Record poll_res (c : c5) (timeout : Z) (ans : pollans) (c' : c5) : Prop := {
    pr_incb : d_incb c' = false;
    pr_mode : d_mode c' = d_mode c;
    pr_drain : d_drain c' = d_drain c;
    pr_stop : d_stop c' = d_stop c;
    pr_status : d_status c' = d_status c;
    pr_imms : d_imms c' = d_imms c;
    pr_tmrs : d_tmrs c' = d_tmrs c;
    pr_ninv : d_ninv c' = d_ninv c;
    pr_intr : d_intr c' = match ans with PEintr true => true | _ => d_intr c end;
    pr_prev : d_prev c' = if poll_quiet timeout ans then PvPoll0 else PvNone;
    pr_seen : d_ready_seen c' = d_ready_seen c || ans_nonempty ans;
    pr_phase : d_mode c = MRun -> d_phase c' = next_phase c timeout ans
  }.

  Lemma cstep5_poll c timeout fs ans :
    can_poll c -> phase_ok c timeout ->
    exists c', cstep5 fl c (EPoll timeout fs ans) = Some c' /\ poll_res c timeout ans c'.
  Proof.
    intros [Hincb Hmode] Hph. unfold cstep5. rewrite Hincb.
    destruct Hmode as [Hm | [Hm Hd]]; rewrite Hm.
    - eexists. split; [reflexivity|]. constructor; simpl; auto. congruence.
    - rewrite Hd. specialize (Hph Hm).
      assert (Hok : (match d_phase c with
                     | PhStart => first_timeout_ok c timeout
                     | PhFirst want => (timeout =? want)%Z
                     | PhLoop => (timeout =? 0)%Z
                     end) = true).
      { destruct (d_phase c); [exact Hph | subst; apply Z.eqb_refl | subst; reflexivity]. }
      rewrite Hok, orb_true_r. eexists. split; [reflexivity|].
      constructor; simpl; auto.
  Qed.

  (* the state after one poll: only the net arrays, the script and the interrupt flag move *)
  Lemma g5_poll_one s c timeout f' rest ans (b : list (nat * rbits) * bool) :
    G5 fl s c -> can_poll c -> phase_ok c timeout ->
    (f' = map (apply_poll (fst b)) (fds (s_net s)) \/ f' = map (pf_set_rev rb_none) (fds (s_net s))) ->
    let X := set_polls (net_set_fds s f') rest in
    let s' := emit (EPoll timeout (fdset_of (fds (s_net s))) ans) (if snd b then set_intr X true else X) in
    Good s' -> (snd b = true -> ans = PEintr true) -> (snd b = false -> ans <> PEintr true) ->
    exists c', G5 fl s' c' /\ poll_res c timeout ans c'.
  Proof.
    intros HG Hcp Hph Hf' X s' HGood' Hb1 Hb2. pose proof HG as [HGood [Hc [HO [Hi HX]]]].
    destruct (cstep5_poll c timeout (fdset_of (fds (s_net s))) ans Hcp Hph) as [c' [Hstep Hres]].
    exists c'. split; [|exact Hres].
    eapply (G5_step fl s s' _ c c' HG HGood'); [unfold s'; destruct (snd b); reflexivity | exact Hstep | | |].
    - rewrite (pr_imms _ _ _ _ Hres). unfold s', X. destruct (snd b); exact HO.
    - rewrite (pr_intr _ _ _ _ Hres). unfold s', X. destruct (snd b) eqn:Eb.
      + rewrite (Hb1 eq_refl). reflexivity.
      + specialize (Hb2 eq_refl). simpl. destruct ans as [l|[|]]; try exact Hi. congruence.
    - assert (Ext5 X c').
      { eapply Ext5_frame; [exact HX | | | | | |]; try reflexivity.
        - apply (x_socks s c HX).
        - destruct Hf' as [-> | ->]; [apply evnz_apply_poll | apply evnz_set_rev]; apply (x_evnz s c HX).
        - rewrite (pr_tmrs _ _ _ _ Hres). apply incl_refl. }
      unfold s'. destruct (snd b); [|eapply Ext5_same; eauto; apply incl_refl].
      eapply Ext5_same; [exact H | | | |]; try reflexivity. apply incl_refl.
  Qed.

  (* what a whole poll loop leaves behind *)
  Record polled (s : st) (c : c5) (timeout : Z) (s' : st) (c' : c5) : Prop := {
    po_incb : d_incb c' = false;
    po_mode : d_mode c' = d_mode c;
    po_drain : d_drain c' = d_drain c;
    po_stop : d_stop c' = d_stop c;
    po_status : d_status c' = d_status c;
    po_imms : d_imms c' = d_imms c;
    po_ninv : d_ninv c' = d_ninv c;
    po_phase : s_intr s = false -> d_mode c = MRun -> d_phase c' = PhLoop;
    po_intr : s_intr s = true -> s_intr s' = true;
    po_seen : d_ready_seen c' = true -> d_ready_seen c = true \/ fds_pending (fds (s_net s')) = true;
    po_quiet : s_intr s = false -> timeout = 0%Z -> d_prev c' = PvPoll0 \/ fds_pending (fds (s_net s')) = true
  }.

  Lemma can_poll_res c timeout ans c' : can_poll c -> poll_res c timeout ans c' -> can_poll c'.
  Proof.
    intros [A B] R. split; [apply (pr_incb _ _ _ _ R)|]. rewrite (pr_mode _ _ _ _ R), (pr_drain _ _ _ _ R). exact B.
  Qed.

  Lemma polled_last s c timeout ans s' c' :
    poll_res c timeout ans c' -> is_retry ans = false ->
    (s_intr s = true -> s_intr s' = true) ->
    ans_nonempty ans = fds_pending (fds (s_net s')) ->
    polled s c timeout s' c'.
  Proof.
    intros R Hnr Hint Hne. constructor; try apply R.
    - intros _ Hm. rewrite (pr_phase _ _ _ _ R Hm). unfold next_phase. rewrite Hnr. destruct (d_phase c); reflexivity.
    - exact Hint.
    - rewrite (pr_seen _ _ _ _ R). intros H. apply orb_true_iff in H. destruct H; [left; assumption | right; congruence].
    - intros _ ->. rewrite (pr_prev _ _ _ _ R). unfold poll_quiet. rewrite Z.eqb_refl. cbn [andb].
      destruct ans as [[|x l]|[|]]; [left; reflexivity | right; rewrite <- Hne; reflexivity | left; reflexivity | discriminate].
  Qed.

  Lemma g5_poll_loop timeout pl : forall s c,
    G5 fl s c -> can_poll c -> phase_ok c timeout ->
    exists c', G5 fl (poll_loop timeout pl s) c' /\ polled s c timeout (poll_loop timeout pl s) c'.
  Proof.
    induction pl as [|a rest IH]; intros s c HG Hcp Hph; cbn [poll_loop].
    - destruct (g5_poll_one s c timeout (map (pf_set_rev rb_none) (fds (s_net s))) [] (PEintr true) ([], true)
                  HG Hcp Hph (or_intror eq_refl)) as [c' [HG' R]]; cbn [snd]; auto; try discriminate.
      { eapply Good_congr; [apply (good_poll_eintr s timeout true []); apply HG | | | | | | | |]; reflexivity. }
      exists c'. split; [exact HG'|]. eapply polled_last; [exact R | reflexivity | intros _; reflexivity |].
      simpl. symmetry. apply fds_pending_zero.
    - destruct a as [raw | [|]].
      + destruct (g5_poll_one s c timeout (map (apply_poll raw) (fds (s_net s))) rest
                    (PReady (answer_of (map (apply_poll raw) (fds (s_net s))))) (raw, false)
                    HG Hcp Hph (or_introl eq_refl)) as [c' [HG' R]]; cbn [snd]; auto; try discriminate.
        { apply good_poll_ready. apply HG. }
        exists c'. split; [exact HG'|]. eapply polled_last; [exact R | reflexivity | intros X; exact X |].
        simpl fds. apply answer_nonempty.
      + destruct (g5_poll_one s c timeout (map (pf_set_rev rb_none) (fds (s_net s))) rest (PEintr true) ([], true)
                    HG Hcp Hph (or_intror eq_refl)) as [c' [HG' R]]; cbn [snd]; auto; try discriminate.
        { eapply Good_congr; [apply (good_poll_eintr s timeout true rest); apply HG | | | | | | | |]; reflexivity. }
        exists c'. split; [exact HG'|]. eapply polled_last; [exact R | reflexivity | intros _; reflexivity |].
        simpl. symmetry. apply fds_pending_zero.
      + destruct (g5_poll_one s c timeout (map (pf_set_rev rb_none) (fds (s_net s))) rest (PEintr false) ([], false)
                    HG Hcp Hph (or_intror eq_refl)) as [c1 [HG1 R1]]; cbn [snd]; auto; try discriminate.
        { apply good_poll_eintr. apply HG. }
        cbn [snd] in HG1.
        destruct (s_intr s) eqn:Eintr.
        * exists c1. split; [exact HG1|]. constructor; try apply R1.
          -- intros X. rewrite Eintr in X. discriminate.
          -- intros X. exact X.
          -- rewrite (pr_seen _ _ _ _ R1). simpl. rewrite orb_false_r. auto.
          -- intros X. rewrite Eintr in X. discriminate.
        * assert (Hph1 : phase_ok c1 timeout).
          { intros Hm1. rewrite (pr_mode _ _ _ _ R1) in Hm1. rewrite (pr_phase _ _ _ _ R1 Hm1).
            specialize (Hph Hm1). unfold next_phase. simpl. destruct (d_phase c); auto. }
          destruct (IH _ c1 HG1 (can_poll_res _ _ _ _ Hcp R1) Hph1) as [c2 [HG2 P2]].
          exists c2. split; [exact HG2|].
          constructor.
          -- apply P2.
          -- rewrite (po_mode _ _ _ _ _ P2). apply R1.
          -- rewrite (po_drain _ _ _ _ _ P2). apply R1.
          -- rewrite (po_stop _ _ _ _ _ P2). apply R1.
          -- rewrite (po_status _ _ _ _ _ P2). apply R1.
          -- rewrite (po_imms _ _ _ _ _ P2). apply R1.
          -- rewrite (po_ninv _ _ _ _ _ P2). apply R1.
          -- intros _ Hm. apply (po_phase _ _ _ _ _ P2); [exact Eintr | rewrite (pr_mode _ _ _ _ R1); exact Hm].
          -- intros X. rewrite Eintr in X. discriminate.
          -- intros H. destruct (po_seen _ _ _ _ _ P2 H) as [X | X]; [|right; exact X].
             left. rewrite (pr_seen _ _ _ _ R1) in X. simpl in X. rewrite orb_false_r in X. exact X.
          -- intros _ Ht. apply (po_quiet _ _ _ _ _ P2); [exact Eintr | exact Ht].
  Qed.
  Lemma g5_net_select tvo s c :
    G5 fl s c -> can_poll c -> phase_ok c (sel_timeout tvo) ->
    exists c', G5 fl (net_select tvo s) c' /\ polled s c (sel_timeout tvo) (net_select tvo s) c' /\
               scan_top (s_net (net_select tvo s)) /\
               s_imm (net_select tvo s) = s_imm s /\ s_tmr (net_select tvo s) = s_tmr s.
  Proof.
    intros HG Hcp Hph.
    pose proof HG as [HGood [Hc [HO [Hi HX]]]].
    set (s0 := set_net s (net_init (s_net s))).
    assert (HG0 : G5 fl s0 c).
    { split; [|split; [exact Hc | split; [exact HO | split; [exact Hi|]]]].
      - destruct HGood as [x4 [H4 HS]]. pose proof (sm_net s x4 HS) as HI.
        apply good_set_net_views; [exists x4; auto | apply net_init_inv; exact HI | |].
        + intros f d. apply net_init_field. exact HI.
        + intros f. unfold rev_at. rewrite net_init_slot by exact HI. reflexivity.
      - eapply Ext5_frame; [exact HX | | | | | |]; try reflexivity; simpl.
        + pose proof (net_init_socks_len (s_net s)). pose proof (x_socks s c HX). lia.
        + apply evnz_net_init. apply (x_evnz s c HX).
        + apply incl_refl. }
    destruct (g5_poll_loop (sel_timeout tvo) (polls (s_env s0)) s0 c HG0 Hcp Hph) as [c1 [HG1 Hp1]].
    exists c1.
    assert (HGf : G5 fl (net_select tvo s) c1).
    { destruct HG1 as [HGood1 [Hc1 [HO1 [Hi1 HX1]]]].
      split; [apply good_net_select; exact HGood|].
      split; [exact Hc1 | split; [exact HO1 | split; [exact Hi1|]]].
      eapply Ext5_frame; [exact HX1 | | | | | |]; try reflexivity.
      - apply (x_socks _ _ HX1).
      - apply evnz_net_select. apply (x_evnz s c HX).
      - apply incl_refl. }
    split; [exact HGf|]. split; [|split; [apply net_select_scan_top|]].
    - destruct Hp1. constructor; auto.
    - split; unfold net_select; cbn [s_imm s_tmr set_net]; [rewrite poll_loop_imm | rewrite poll_loop_tmr]; reflexivity.
  Qed.

  (* ---- events_timer_min: the distance to the earliest deadline the checker knows *)
  Lemma g5_timer_min s c tvo s1 :
    G5 fl s c -> timer_min s = (tvo, s1) ->
    exists c1, G5 fl s1 c1 /\ ctl_same c c1 /\ d_imms c1 = d_imms c /\
               first_timeout_ok c1 (sel_timeout tvo) = true /\
               s_intr s1 = s_intr s /\ s_imm s1 = s_imm s.
  Proof.
    intros HG H. pose proof (G5_ext fl s c HG) as HX. unfold timer_min in H.
    assert (Hnone : heap (s_tmr s) = [] -> first_timeout_ok c (sel_timeout None) = true).
    { intros Eh. unfold first_timeout_ok. rewrite (min_due_empty fl s c HG Eh). reflexivity. }
    destruct (tq_inited (s_tmr s)) eqn:Einit.
    2:{ inversion H; subst tvo s1. exists c. split; [exact HG|]. split; [apply ctl_same_refl|].
        split; [reflexivity|]. split; [apply Hnone; apply (x_uninit s c HX Einit) | auto]. }
    destruct (heap (s_tmr s)) as [|m rest] eqn:Eheap.
    { inversion H; subst tvo s1. exists c. split; [exact HG|]. split; [apply ctl_same_refl|].
      split; [reflexivity|]. split; [apply Hnone; reflexivity | auto]. }
    destruct (read_clock s) as [now s0] eqn:Ec.
    destruct (g5_read_clock fl s c now s0 HG Ec) as [c0 [HG0 [Hctl0 [Hclk [Hi0 [_ [Ht0 [Hp0 [_ [E1 [E2 [E3 [E4 [E5 [E6 [_ Hnow]]]]]]]]]]]]]]]].
    assert (Htvo : tvo = Some (tmin_dist (t_deadline m) now) /\ s1 = s0).
    { unfold tmin_dist.
      destruct ((fst (t_deadline m) <? fst now)%N || ((fst (t_deadline m) =? fst now)%N && (snd (t_deadline m) <? snd now)%N));
        [inversion H; auto|].
      destruct (snd (t_deadline m) <? snd now)%N; inversion H; auto. }
    destruct Htvo as [-> ->].
    exists c0. split; [exact HG0|]. split; [exact Hctl0|]. split; [exact Hi0|]. split; [|auto].
    assert (Eheap0 : heap (s_tmr s0) = m :: rest) by (rewrite E4; exact Eheap).
    assert (Hm : In m (heap (s_tmr s0))) by (rewrite Eheap0; left; reflexivity).
    unfold first_timeout_ok. rewrite (min_due_root fl s0 c0 m rest HG0 Eheap0).
    unfold fresh_clock. rewrite Hp0, Hclk.
    destruct (tmin_dist_spec (t_deadline m) now (heap_norm fl s0 c0 m HG0 Hm) Hnow) as [Hn Hus].
    assert (X : match match d_prev c with PvPoll0 => PvPoll0Clock | _ => PvClock end with
                | PvClock | PvPoll0Clock => Some now | _ => None end = Some now) by (destruct (d_prev c); reflexivity).
    rewrite X, <- Hus. apply sel_timeout_ok. exact Hn.
  Qed.

  (* imm_get found nothing: no immediate is pending *)
  Lemma imm_none s c s1 :
    G5 fl s c -> imm_get_s s = Ok (None, s1) ->
    G5 fl s1 c /\ d_imms c = [] /\ s_intr s1 = s_intr s /\ s_net s1 = s_net s.
  Proof.
    intros HG Ei. pose proof HG as [HGood [Hc [HO [Hi HX]]]].
    unfold imm_get_s in Ei. destruct (imm_get (s_imm s)) as [[ro im]| | |] eqn:E; cbn [bind] in Ei; try discriminate.
    inversion Ei; subst ro s1. destruct (ImmOrd_get_none _ _ _ _ HO E) as [Hnil HO'].
    split; [|split; [exact Hnil | split; reflexivity]].
    split; [eapply good_imm_get_none; [exact HGood | unfold imm_get_s; rewrite E; reflexivity]|].
    split; [exact Hc | split; [exact HO' | split; [exact Hi|]]].
    eapply Ext5_same; [exact HX | | | |]; try reflexivity. apply incl_refl.
  Qed.

  (* the scan found nothing: nothing was pending, provided the cursor started at the top *)
  Lemma net_none s c s1 :
    G5 fl s c -> net_get_s s = Ok (None, s1) ->
    G5 fl s1 c /\ s_intr s1 = s_intr s /\ s_imm s1 = s_imm s /\ s_tmr s1 = s_tmr s /\
    (scan_top (s_net s) -> fds_pending (fds (s_net s)) = false).
  Proof.
    intros HG E. pose proof HG as [HGood [Hc [HO [Hi HX]]]].
    pose proof (good_net_get_none s s1 HGood E) as HGood1.
    destruct (G5_c4 fl s c HG) as [x4 [_ [HS _]]].
    unfold net_get_s in E. destruct (net_get (s_net s)) as [[ro n]| | |] eqn:En; cbn [bind] in E; try discriminate.
    inversion E; subst ro s1. split; [|split; [reflexivity | split; [reflexivity | split; [reflexivity|]]]].
    - split; [exact HGood1 | split; [exact Hc | split; [exact HO | split; [exact Hi|]]]].
      eapply Ext5_frame; [exact HX | | | | | |]; try reflexivity; simpl.
      + rewrite (net_get_socks _ _ _ En). apply (x_socks s c HX).
      + eapply evnz_net_get; [apply (x_evnz s c HX) | exact En].
      + apply incl_refl.
    - intros Htop. eapply net_get_none_quiet; [apply (sm_net s x4 HS) | apply (x_evnz s c HX) | exact Htop | | exact En].
      apply (nfds_small s x4 HS). apply (x_socks s c HX).
  Qed.

  Definition clock_early (c : c5) : bool :=
    match min_due (d_tmrs c), d_clock c with
    | Some m, Some now => (us now <? m)%N
    | Some _, None => false
    | None, _ => true
    end.

  Lemma timer_none s c s1 :
    G5 fl s c -> timer_get s = Ok (None, s1) ->
    exists c1, G5 fl s1 c1 /\ ctl_same c c1 /\ clock_early c1 = true /\ s_intr s1 = s_intr s.
  Proof.
    intros HG H. pose proof (G5_ext fl s c HG) as HX. unfold timer_get in H.
    destruct (tq_inited (s_tmr s)) eqn:Einit.
    2:{ inversion H; subst s1. exists c. split; [exact HG|]. split; [apply ctl_same_refl|]. split; [|reflexivity].
        unfold clock_early. rewrite (min_due_empty fl s c HG (x_uninit s c HX Einit)). reflexivity. }
    destruct (read_clock s) as [now s0] eqn:Ec.
    destruct (g5_read_clock fl s c now s0 HG Ec) as [c0 [HG0 [Hctl0 [Hclk [_ [_ [_ [_ [_ [_ [_ [_ [_ [E5 [_ [_ Hnow]]]]]]]]]]]]]]]].
    destruct (heap (s_tmr s0)) as [|m rest] eqn:Eheap.
    { inversion H; subst s1. exists c0. split; [exact HG0|]. split; [exact Hctl0|]. split; [|exact E5].
      unfold clock_early. rewrite (min_due_empty fl s0 c0 HG0 Eheap). reflexivity. }
    assert (Hm : In m (heap (s_tmr s0))) by (rewrite Eheap; left; reflexivity).
    destruct (tv_cmp (t_deadline m) now) eqn:Ecmp;
      try (destruct (heap_delete 0 (m :: rest)) as [h| | |]; cbn [bind] in H; discriminate).
    inversion H; subst s1. exists c0. split; [exact HG0|]. split; [exact Hctl0|]. split; [|exact E5].
    unfold clock_early. rewrite (min_due_root fl s0 c0 m rest HG0 Eheap), Hclk.
    apply N.ltb_lt. apply tv_cmp_gt_us; [apply (heap_norm fl s0 c0 m HG0 Hm) | exact Hnow | exact Ecmp].
  Qed.

  (* ---- the loops *)
  Definition net_pending (s : st) : Prop := scan_top (s_net s) /\ fds_pending (fds (s_net s)) = true.

  (* events_run only: the phase of the timeout rule, and why a run that has not run anything
     yet is still going to *)
  Definition RunHead (s : st) (c : c5) : Prop :=
    d_mode c = MRun ->
    (s_intr s = false -> d_phase c = PhLoop) /\
    (d_ninv c = 0 -> d_ready_seen c = true -> net_pending s).

  (* at a point where the dispatcher decides what to do next *)
  Definition LoopHead (s : st) (c : c5) : Prop :=
    G5 fl s c /\ can_poll c /\ (d_stop c = true -> s_intr s = true) /\ d_status c = 0%Z /\ RunHead s c.

  (* the progress clause of the checker at ERunEnd *)
  Definition RunProg (c : c5) : Prop :=
    d_ninv c = 0 ->
    d_drain c = false /\ (d_intr_run c = true \/ (d_ready_seen c = false /\ clock_early c = true)).

  (* what a loop hands back *)
  Definition Returned (c : c5) (rc : Z) (s' : st) : Prop :=
    exists c', G5 fl s' c' /\ d_incb c' = false /\ d_mode c' = d_mode c /\ d_status c' = rc /\
               (d_stop c' = true -> (rc =? 0)%Z = false \/ s_intr s' = true) /\
               (d_mode c = MRun -> RunProg c').

  Lemma returned_after_callback c c2 rc s' :
    G5 fl s' c2 -> d_incb c2 = false -> keeps c c2 -> d_status c2 = rc ->
    d_stop c2 = negb (rc =? 0)%Z || s_intr s' -> d_ninv c2 <> 0 -> Returned c rc s'.
  Proof.
    intros HG Hincb [Hm _] Hst Hstop Hn. exists c2.
    split; [exact HG|]. split; [exact Hincb|]. split; [exact Hm|]. split; [exact Hst|]. split.
    - rewrite Hstop. intros X. apply orb_true_iff in X. destruct X as [X | X]; [left; apply negb_true_iff; exact X | right; exact X].
    - intros _ X. congruence.
  Qed.

  Lemma returned_mode c0 c rc s' : d_mode c0 = d_mode c -> Returned c0 rc s' -> Returned c rc s'.
  Proof.
    intros E [c' [A [B [C [D [F G]]]]]]. exists c'. rewrite <- E. auto 10.
  Qed.

  Lemma good5_drain fuel : forall r s c c1 rc s',
    Entered c (emit (EInvoke (r_rid r)) (fire_cl r s)) c1 -> d_mode c <> MOut ->
    drain_loop prog fuel r s = Ok (rc, s') -> Returned c rc s'.
  Proof.
    induction fuel as [|fuel IH]; intros r s c c1 rc s' HE Hmode H; cbn [drain_loop] in H; [discriminate|].
    destruct (doevent prog r s) as [[rc1 s1]| | |] eqn:Ed; cbn [bind] in H; try discriminate.
    destruct (run_callback c r s _ c1 rc1 s1 eq_refl HE Ed) as [c2 [HG2 [Hincb2 [Hk2 [Hst2 [Hstop2 Hn2]]]]]].
    destruct (rc1 =? 0)%Z eqn:Erc; cbn [negb] in H.
    2:{ inversion H; subst. eapply returned_after_callback; eauto. rewrite Hstop2, ?Erc; reflexivity. }
    destruct (s_intr s1) eqn:Eintr.
    { inversion H; subst. eapply returned_after_callback; eauto. rewrite Hstop2, ?Erc, ?Eintr; reflexivity. }
    destruct (imm_get_s s1) as [[ro s2]| | |] eqn:Ei; cbn [bind] in H; try discriminate.
    assert (Hstopf : d_stop c2 = false) by (rewrite Hstop2, ?Erc; reflexivity).
    assert (Hmode2 : d_mode c2 <> MOut) by (destruct Hk2 as [X _]; congruence).
    destruct ro as [r'|].
    - destruct (enter_imm s1 c2 r' s2 HG2 Hincb2 Hstopf Hmode2 Ei) as [_ [c3 HE3]].
      apply (returned_mode c2); [apply Hk2|]. eapply IH; eauto.
    - inversion H; subst rc s'.
      destruct (imm_none s1 c2 s2 HG2 Ei) as [HG2' [_ [Ei2 _]]].
      eapply returned_after_callback; eauto. rewrite Hstop2, ?Erc, ?Ei2, ?Eintr; reflexivity.
  Qed.

  Lemma good5_main fuel : forall s c rc s',
    LoopHead s c -> main_loop prog fuel s = Ok (rc, s') -> Returned c rc s'.
  Proof.
    induction fuel as [|fuel IH]; intros s c rc s' HL H; cbn [main_loop] in H; [discriminate|].
    destruct HL as [HG [Hcp [Hstop [Hstat HRH]]]].
    pose proof (can_poll_mode c Hcp) as Hmode. pose proof Hcp as [Hincb Hcpm].
    assert (Hdrain : d_mode c = MRun -> d_drain c = false).
    { intros Hm. destruct Hcpm as [X | [_ X]]; [congruence | exact X]. }
    destruct (s_intr s) eqn:Eintr.
    { inversion H; subst. exists c. split; [exact HG|]. split; [exact Hincb|]. split; [reflexivity|].
      split; [exact Hstat|]. split; [intros _; right; exact Eintr|].
      intros Hm _. split; [apply Hdrain; exact Hm|]. left. apply (G5_intr_run fl s' c HG).
      rewrite (G5_intr fl s' c HG). exact Eintr. }
    assert (Hstopf : d_stop c = false).
    { destruct (d_stop c) eqn:X; [|reflexivity]. specialize (Hstop eq_refl). congruence. }
    assert (Hphase : d_mode c = MRun -> d_phase c = PhLoop).
    { intros Hm. apply (HRH Hm). exact Eintr. }
    (* generic continuation after a callback entered from a state c0 of the same run *)
    assert (Hcont : forall c0 r sx c1 rcx sy,
              d_mode c0 = d_mode c -> d_drain c0 = d_drain c -> (d_mode c = MRun -> d_phase c0 = PhLoop) ->
              Entered c0 (emit (EInvoke (r_rid r)) (fire_cl r sx)) c1 -> doevent prog r sx = Ok (rcx, sy) ->
              (if negb (rcx =? 0)%Z then Ok (rcx, sy) else main_loop prog fuel sy) = Ok (rc, s') ->
              Returned c rc s').
    { intros c0 r sx c1 rcx sy Em Ed Ep HE Hev Hk.
      destruct (run_callback c0 r sx _ c1 rcx sy eq_refl HE Hev) as [c2 [HG2 [Hincb2 [Hk2 [Hst2 [Hstop2 Hn2]]]]]].
      apply (returned_mode c0); [exact Em|].
      destruct (rcx =? 0)%Z eqn:Erc; cbn [negb] in Hk.
      2:{ inversion Hk; subst. eapply returned_after_callback; eauto. rewrite Hstop2, ?Erc; reflexivity. }
      { destruct Hk2 as [K1 [K2 K3]].
        apply (returned_mode c2); [exact K1|]. eapply IH; [|exact Hk].
        split; [exact HG2|]. split; [|split; [|split]].
        + split; [exact Hincb2|]. rewrite K1, K2, Em, Ed. exact Hcpm.
        + rewrite Hstop2, ?Erc. simpl. auto.
        + apply Z.eqb_eq in Erc. congruence.
        + intros Hm2. rewrite K1, Em in Hm2. split; [intros _; rewrite K3; apply Ep; exact Hm2 | intros X; congruence]. } }
    destruct (imm_get_s s) as [[ro s1]| | |] eqn:E1; cbn [bind] in H; try discriminate.
    destruct ro as [r|].
    { destruct (doevent prog r s1) as [[rc1 s2]| | |] eqn:Ed; cbn [bind] in H; try discriminate.
      destruct (enter_imm s c r s1 HG Hincb Hstopf Hmode E1) as [_ [c1 HE]].
      eapply (Hcont c); eauto. }
    destruct (imm_none s c s1 HG E1) as [HG1 [Hnil [Ei1 En1]]].
    destruct (net_get_s s1) as [[ro s2]| | |] eqn:E2; cbn [bind] in H; try discriminate.
    destruct ro as [r|].
    { destruct (doevent prog r s2) as [[rc1 s3]| | |] eqn:Ed; cbn [bind] in H; try discriminate.
      destruct (enter_net s1 c r s2 HG1 Hincb Hstopf Hmode Hnil E2) as [c1 HE]. eapply (Hcont c); eauto. }
    destruct (net_none s1 c s2 HG1 E2) as [HG2 [Ei2 [_ [_ Hq2]]]].
    (* nothing was pending from earlier polls *)
    assert (Hseen : d_mode c = MRun -> d_ninv c = 0 -> d_ready_seen c = false).
    { intros Hm Hn0. destruct (d_ready_seen c) eqn:X; [|reflexivity]. exfalso.
      destruct (proj2 (HRH Hm) Hn0 X) as [Htop Hpend]. rewrite <- En1 in Htop, Hpend.
      rewrite (Hq2 Htop) in Hpend. discriminate. }
    assert (Hph2 : phase_ok c (sel_timeout (Some (0, 0)%N))).
    { intros Hm. rewrite (Hphase Hm). reflexivity. }
    destruct (g5_net_select (Some (0, 0)%N) s2 c HG2 Hcp Hph2) as [c3 [HG3 [Hp3 [Htop3 _]]]].
    set (s3 := net_select (Some (0, 0)%N) s2) in *.
    assert (Ei2' : s_intr s2 = false) by congruence.
    assert (Hmode3 : d_mode c3 <> MOut) by (rewrite (po_mode _ _ _ _ _ Hp3); exact Hmode).
    assert (Hstopf3 : d_stop c3 = false) by (rewrite (po_stop _ _ _ _ _ Hp3); exact Hstopf).
    assert (Hnil3 : d_imms c3 = []) by (rewrite (po_imms _ _ _ _ _ Hp3); exact Hnil).
    assert (Hph3 : d_mode c = MRun -> d_phase c3 = PhLoop).
    { intros Hm. apply (po_phase _ _ _ _ _ Hp3); assumption. }
    destruct (net_get_s s3) as [[ro s4]| | |] eqn:E4; cbn [bind] in H; try discriminate.
    destruct ro as [r|].
    { destruct (doevent prog r s4) as [[rc1 s5]| | |] eqn:Ed; cbn [bind] in H; try discriminate.
      destruct (enter_net s3 c3 r s4 HG3 (po_incb _ _ _ _ _ Hp3) Hstopf3 Hmode3 Hnil3 E4) as [c1 HE].
      eapply (Hcont c3); eauto; [apply Hp3 | apply Hp3]. }
    destruct (net_none s3 c3 s4 HG3 E4) as [HG4 [Ei4 [_ [_ Hq4]]]].
    specialize (Hq4 Htop3).
    assert (Hprev3 : d_prev c3 = PvPoll0).
    { destruct (po_quiet _ _ _ _ _ Hp3 Ei2' eq_refl) as [X | X]; [exact X|]. fold s3 in X. congruence. }
    destruct (timer_get s4) as [[ro s5]| | |] eqn:E5; cbn [bind] in H; try discriminate.
    destruct ro as [r|].
    { destruct (doevent prog r s5) as [[rc1 s6]| | |] eqn:Ed; cbn [bind] in H; try discriminate.
      destruct (enter_timer s4 c3 r s5 HG4 (po_incb _ _ _ _ _ Hp3) Hstopf3 Hmode3 Hnil3 Hprev3 E5) as [c0 [c1 [[K1 [K2 K3]] HE]]].
      eapply (Hcont c0); eauto.
      - rewrite K1. apply Hp3.
      - rewrite K2. apply Hp3.
      - intros Hm. rewrite K3. apply Hph3. exact Hm. }
    inversion H; subst rc s'.
    destruct (timer_none s4 c3 s5 HG4 E5) as [c5' [HG5 [Hctl5 [Hearly Ei5]]]].
    destruct Hctl5 as [C1 [C2 [C3 [C4 [C5 [C6 [C7 [C8 C9]]]]]]]].
    exists c5'. split; [exact HG5|]. split; [rewrite C2; apply Hp3|]. split; [rewrite C1; apply Hp3|].
    split; [rewrite C4, (po_status _ _ _ _ _ Hp3); exact Hstat|]. split.
    - rewrite C3, Hstopf3. discriminate.
    - intros Hm Hn0. rewrite C7, (po_ninv _ _ _ _ _ Hp3) in Hn0.
      split; [rewrite C5, (po_drain _ _ _ _ _ Hp3); apply Hdrain; exact Hm|]. right. split; [|exact Hearly].
      rewrite C8. destruct (d_ready_seen c3) eqn:X; [|reflexivity]. exfalso.
      destruct (po_seen _ _ _ _ _ Hp3 X) as [Y | Y].
      + rewrite (Hseen Hm Hn0) in Y. discriminate.
      + fold s3 in Y. congruence.
  Qed.
  (* events_run_internal *)
  Definition RunPre (s : st) (c : c5) : Prop :=
    G5 fl s c /\ d_incb c = false /\ d_mode c <> MOut /\ d_stop c = false /\ d_status c = 0%Z /\
    (d_mode c = MRun ->
       d_phase c = PhStart /\ d_drain c = negb (EventsSpec.is_nil (d_imms c)) /\ d_ninv c = 0 /\ d_ready_seen c = false).

  Lemma good5_run_internal fuel s c rc s' :
    RunPre s c -> run_internal prog fuel s = Ok (rc, s') -> Returned c rc s'.
  Proof.
    intros [HG [Hincb [Hmode [Hstop [Hstat Hrun]]]]] H. unfold run_internal in H.
    destruct (imm_get_s s) as [[ro s1]| | |] eqn:E1; cbn [bind] in H; try discriminate.
    destruct ro as [r|].
    - destruct (enter_imm s c r s1 HG Hincb Hstop Hmode E1) as [_ [c1 HE]]. eapply good5_drain; eauto.
    - destruct (imm_none s c s1 HG E1) as [HG1 [Hnil [Ei1 En1]]].
      destruct (timer_min s1) as [tvo s2] eqn:Em.
      destruct (g5_timer_min s1 c tvo s2 HG1 Em) as [c2 [HG2 [Hctl2 [Hi2 [Hfirst [Ei2 _]]]]]].
      destruct Hctl2 as [C1 [C2 [C3 [C4 [C5 [C6 [C7 [C8 C9]]]]]]]].
      assert (Hcp2 : can_poll c2).
      { split; [congruence|]. rewrite C1, C5. destruct (d_mode c) eqn:Emode; [congruence | right | left; reflexivity].
        split; [reflexivity|]. destruct (Hrun eq_refl) as [_ [X _]]. rewrite X, Hnil. reflexivity. }
      assert (Hph2 : phase_ok c2 (sel_timeout tvo)).
      { intros Hm. rewrite C1 in Hm. destruct (Hrun Hm) as [X _]. rewrite C6, X. exact Hfirst. }
      destruct (g5_net_select tvo s2 c2 HG2 Hcp2 Hph2) as [c3 [HG3 [Hp3 [Htop3 _]]]].
      apply (returned_mode c3); [rewrite (po_mode _ _ _ _ _ Hp3); exact C1|].
      eapply good5_main; [|exact H].
      split; [exact HG3|]. split; [|split; [|split]].
      + split; [apply Hp3|]. rewrite (po_mode _ _ _ _ _ Hp3), (po_drain _ _ _ _ _ Hp3). apply Hcp2.
      + rewrite (po_stop _ _ _ _ _ Hp3), C3, Hstop. discriminate.
      + rewrite (po_status _ _ _ _ _ Hp3), C4. exact Hstat.
      + intros Hm3. rewrite (po_mode _ _ _ _ _ Hp3) in Hm3. pose proof Hm3 as Hm. rewrite C1 in Hm.
        destruct (Hrun Hm) as [_ [_ [Y Z]]]. split.
        * intros Ei3. apply (po_phase _ _ _ _ _ Hp3); [|exact Hm3].
          destruct (s_intr s2) eqn:X; [|reflexivity]. rewrite (po_intr _ _ _ _ _ Hp3 X) in Ei3. discriminate.
        * intros _ Hseen. destruct (po_seen _ _ _ _ _ Hp3 Hseen) as [W | W]; [congruence|].
          split; [exact Htop3 | exact W].
  Qed.

  (* outside a run *)
  Definition Outside (s : st) (c : c5) : Prop := G5 fl s c /\ d_mode c = MOut /\ d_incb c = false.

  Lemma Ext5_emit s c e c' : Ext5 s c -> d_tmrs c' = d_tmrs c -> Ext5 (emit e s) c'.
  Proof. intros HX E. eapply Ext5_same; [exact HX | | | |]; try reflexivity. rewrite E. apply incl_refl. Qed.

  Lemma g5_events_run fuel s c s' :
    Outside s c -> events_run prog fuel s = Ok s' -> exists c', Outside s' c'.
  Proof.
    intros [HG [Hmode Hincb]] H. unfold events_run in H.
    destruct (run_internal prog fuel (emit ERunStart s)) as [[rc s1]| | |] eqn:E; cbn [bind] in H; try discriminate.
    inversion H; subst s'. clear H.
    pose proof HG as [HGood [Hc [HO [Hi HX]]]].
    set (c0 := {| d_imms := d_imms c; d_nets := d_nets c; d_tmrs := d_tmrs c; d_clock := d_clock c;
                  d_prev := PvNone; d_mode := MRun; d_phase := PhStart;
                  d_drain := negb (EventsSpec.is_nil (d_imms c)); d_incb := false;
                  d_intr := d_intr c; d_intr_run := d_intr c; d_stop := false; d_status := 0%Z;
                  d_ninv := 0; d_ready_seen := false |}).
    assert (Hpre : RunPre (emit ERunStart s) c0).
    { split; [|split; [reflexivity | split; [discriminate | split; [reflexivity | split; [reflexivity|]]]]].
      - eapply (G5_step fl s _ ERunStart c c0 HG); [apply Good_neutral; [exact HGood | exact I] | reflexivity | | | |].
        + unfold cstep5. rewrite Hmode. reflexivity.
        + exact HO.
        + exact Hi.
        + apply (Ext5_emit s c); [exact HX | reflexivity].
      - intros _. simpl. auto. }
    destruct (good5_run_internal fuel _ c0 rc s1 Hpre E) as [c1 [HG1 [Hincb1 [Hm1 [Hst1 [_ Hprog1]]]]]].
    pose proof HG1 as [HGood1 [Hc1 [HO1 [Hi1 HX1]]]].
    specialize (Hprog1 eq_refl).
    set (c2 := {| d_imms := d_imms c1; d_nets := d_nets c1; d_tmrs := d_tmrs c1; d_clock := d_clock c1;
                  d_prev := PvNone; d_mode := MOut; d_phase := PhStart; d_drain := false;
                  d_incb := false; d_intr := false; d_intr_run := false; d_stop := false;
                  d_status := 0%Z; d_ninv := 0; d_ready_seen := false |}).
    exists c2. split; [|split; reflexivity].
    assert (HGood' : Good (emit (ERunEnd rc) (set_intr s1 false))).
    { apply Good_neutral; [|exact I]. eapply Good_congr; [exact HGood1 | | | | | | | |]; reflexivity. }
    split; [exact HGood'|]. split; [|split; [exact HO1 | split; [reflexivity|]]].
    - simpl. rewrite csteps5_app, Hc1. simpl. rewrite Hm1. cbn [d_mode c0].
      rewrite Hincb1, Hst1, Z.eqb_refl. cbn [negb andb].
      assert (Hp : (if Nat.eqb (d_ninv c1) 0
                    then negb (d_drain c1) &&
                         (d_intr_run c1 || negb (d_ready_seen c1) &&
                          match min_due (d_tmrs c1), d_clock c1 with
                          | Some m, Some now => (us now <? m)%N
                          | Some _, None => false
                          | None, _ => true
                          end)
                    else true) = true).
      { destruct (Nat.eqb (d_ninv c1) 0) eqn:En; [|reflexivity]. apply Nat.eqb_eq in En.
        destruct (Hprog1 En) as [Hd [Hr | [Hs He]]].
        - rewrite Hd, Hr. reflexivity.
        - rewrite Hd, Hs. unfold clock_early in He. rewrite He. cbn [negb andb]. apply orb_true_r. }
      rewrite Hp, orb_true_r. reflexivity.
    - eapply Ext5_same; [exact HX1 | | | |]; try reflexivity. apply incl_refl.
  Qed.

  (* events_spin *)
  Definition SpinInv (s : st) (c : c5) (rc : Z) : Prop :=
    G5 fl s c /\ d_incb c = false /\ d_mode c = MSpin /\ d_status c = rc /\
    (d_stop c = true -> (rc =? 0)%Z = false \/ s_intr s = true).

  Lemma g5_spin_loop fuel : forall rc s c rc' s',
    SpinInv s c rc -> spin_loop prog fuel rc s = Ok (rc', s') -> exists c', SpinInv s' c' rc'.
  Proof.
    induction fuel as [|fuel IH]; intros rc s c rc' s' HI H; cbn [spin_loop] in H; [discriminate|].
    destruct (negb (cl_done (s_cl s)) && (rc =? 0)%Z && negb (s_intr s)) eqn:Econd; [|inversion H; subst; exists c; exact HI].
    apply andb_true_iff in Econd. destruct Econd as [Econd Eintr]. apply andb_true_iff in Econd. destruct Econd as [_ Erc].
    apply negb_true_iff in Eintr.
    destruct (run_internal prog (S fuel) s) as [[rc1 s1]| | |] eqn:E; cbn [bind] in H; try discriminate.
    destruct HI as [HG [Hincb [Hmode [Hst Hstop]]]].
    assert (Hpre : RunPre s c).
    { split; [exact HG|]. split; [exact Hincb|]. split; [congruence|]. split; [|split].
      - destruct (d_stop c) eqn:X; [|reflexivity]. destruct (Hstop eq_refl); congruence.
      - apply Z.eqb_eq in Erc. congruence.
      - intros X. congruence. }
    destruct (good5_run_internal (S fuel) s c rc1 s1 Hpre E) as [c1 [HG1 [Hincb1 [Hm1 [Hst1 [Hstop1 _]]]]]].
    eapply (IH rc1 s1 c1); [|exact H]. split; [exact HG1|]. split; [exact Hincb1|]. split; [congruence|]. split; assumption.
  Qed.

  Lemma g5_events_spin fuel s c s' :
    Outside s c -> events_spin prog fuel s = Ok s' -> exists c', Outside s' c'.
  Proof.
    intros [HG [Hmode Hincb]] H. unfold events_spin in H.
    destruct (spin_loop prog fuel 0%Z (emit ESpinStart s)) as [[rc s1]| | |] eqn:E; cbn [bind] in H; try discriminate.
    inversion H; subst s'. clear H.
    pose proof HG as [HGood [Hc [HO [Hi HX]]]].
    set (c0 := {| d_imms := d_imms c; d_nets := d_nets c; d_tmrs := d_tmrs c; d_clock := d_clock c;
                  d_prev := PvNone; d_mode := MSpin; d_phase := PhStart;
                  d_drain := negb (EventsSpec.is_nil (d_imms c)); d_incb := false;
                  d_intr := d_intr c; d_intr_run := d_intr c; d_stop := false; d_status := 0%Z;
                  d_ninv := 0; d_ready_seen := false |}).
    assert (Hinv : SpinInv (emit ESpinStart s) c0 0%Z).
    { split; [|split; [reflexivity | split; [reflexivity | split; [reflexivity | discriminate]]]].
      eapply (G5_step fl s _ ESpinStart c c0 HG); [apply Good_neutral; [exact HGood | exact I] | reflexivity | | | |].
      + unfold cstep5. rewrite Hmode. reflexivity.
      + exact HO.
      + exact Hi.
      + apply (Ext5_emit s c); [exact HX | reflexivity]. }
    destruct (g5_spin_loop fuel 0%Z _ c0 rc s1 Hinv E) as [c1 [HG1 [Hincb1 [Hm1 [Hst1 _]]]]].
    pose proof HG1 as [HGood1 [Hc1 [HO1 [Hi1 HX1]]]].
    set (c2 := {| d_imms := d_imms c1; d_nets := d_nets c1; d_tmrs := d_tmrs c1; d_clock := d_clock c1;
                  d_prev := PvNone; d_mode := MOut; d_phase := PhStart; d_drain := false;
                  d_incb := false; d_intr := false; d_intr_run := false; d_stop := false;
                  d_status := 0%Z; d_ninv := 0; d_ready_seen := false |}).
    exists c2. split; [|split; reflexivity].
    assert (HGood' : Good (emit (ESpinEnd rc) (set_intr s1 false))).
    { apply Good_neutral; [|exact I]. eapply Good_congr; [exact HGood1 | | | | | | | |]; reflexivity. }
    split; [exact HGood'|]. split; [|split; [exact HO1 | split; [reflexivity|]]].
    - simpl. rewrite csteps5_app, Hc1. simpl. rewrite Hm1, Hincb1, Hst1, Z.eqb_refl. reflexivity.
    - eapply Ext5_same; [exact HX1 | | | |]; try reflexivity. apply incl_refl.
  Qed.

  Lemma g5_exec_xop fuel x s c s' :
    Outside s c -> xop_norm5 x -> exec_xop prog fuel x s = Ok s' -> exists c', Outside s' c'.
  Proof.
    intros HO Hn H. destruct x; simpl in H.
    - destruct HO as [HG [Hm Hi]]. destruct (g5_exec_op fl o s s' c HG Hn H) as [c' [HG' Hctl]].
      exists c'. destruct Hctl as [C1 [C2 _]]. split; [exact HG'|]. split; congruence.
    - eapply g5_events_run; eauto.
    - eapply g5_events_spin; eauto.
  Qed.

  Lemma g5_exec_xops fuel l : forall s c s',
    Outside s c -> Forall xop_norm5 l -> exec_xops prog fuel l s = Ok s' -> exists c', Outside s' c'.
  Proof.
    induction l as [|x l IH]; intros s c s' HO Hn H; simpl in H.
    - inversion H; subst. exists c. exact HO.
    - destruct (exec_xop prog fuel x s) as [s1| | |] eqn:E; cbn [bind] in H; try discriminate.
      inversion Hn; subst. destruct (g5_exec_xop fuel x s c s1 HO H2 E) as [c1 HO1]. eapply IH; eauto.
  Qed.
End Dispatch5.

(* ================================================================ the initial state *)
Lemma Outside_init fl pl cl :
  Forall (fun t => tv_norm t = true) cl -> clocks_from (0, 0)%N cl -> Outside fl (st_init pl cl) c5_init.
Proof.
  intros Hn Hm. split; [|split; reflexivity].
  split; [apply Good_init; exact Hn|]. split; [reflexivity|]. split; [apply ImmOrd_init|]. split; [reflexivity|].
  constructor; simpl.
  - intros y [].
  - apply heap_ord_nil.
  - reflexivity.
  - exact Hm.
  - intros x [].
  - unfold FD_LIMIT. lia.
  - apply (evnz_st_init pl cl).
Qed.

(* ================================================================ the result *)
(* the hypotheses under which C05 is stated: timer timeouts and clock readings are normalised
   timevals (as for C04), descriptors are C ints, and the clock (monoclock_get) does not go
   backwards *)
Definition runs_to5 (p : program) (xs : list xop) (pl : list pollraw) (cl : list tv) (fuel : nat)
  (tr : trace) : Prop :=
  prog_norm5 p /\ Forall xop_norm5 xs /\ Forall (fun t => tv_norm t = true) cl /\ clocks_from (0, 0)%N cl /\
  run_case p xs pl cl fuel = Ok tr.

Theorem model_trace_accepted5 fl p xs pl cl fuel tr :
  runs_to5 p xs pl cl fuel tr -> checks5 fl tr = true.
Proof.
  intros [Hp [Hx [Hcl [Hmono H]]]]. unfold run_case in H.
  destruct (exec_xops p fuel xs (st_init pl cl)) as [s| | |] eqn:E; cbn [bind] in H; try discriminate.
  inversion H; subst tr.
  destruct (g5_exec_xops fl p Hp fuel xs _ _ _ (Outside_init fl pl cl Hcl Hmono) Hx E) as [c [HG _]].
  unfold checks5. rewrite (G5_steps fl s c HG). reflexivity.
Qed.

Theorem model_check_c05 p xs pl cl fuel tr :
  runs_to5 p xs pl cl fuel tr -> check_c05 tr = true.
Proof. apply model_trace_accepted5. Qed.

Lemma runs_to5_runs_to p xs pl cl fuel tr : runs_to5 p xs pl cl fuel tr -> runs_to p xs pl cl fuel tr.
Proof.
  intros [Hp [Hx [Hcl [_ H]]]]. split; [apply prog_norm5_norm; exact Hp|]. split; [|split; assumption].
  eapply Forall_impl; [|exact Hx]. intros [o| |]; simpl; auto. apply op_norm5_norm.
Qed.
