(* C05, spec side: acceptance by the two checkers implies the run-level clauses
   status_returned (C05-M5), stops_dispatch and progress_immediate (C05-M4a) of EventsSpec.v
   Part 3b.  One call of events_run / events_spin is cut out of the accepted history
   (call_states); the control fields of the C05 checker state are then followed through the
   body of the call, which contains no run event (step_facts and the seg_* lemmas). *)
From Coq Require Import NArith ZArith List Bool Arith Lia.
From LCP Require Import Events.EventsTrace Events.EventsSpec Events.EventsSpecProofs Events.EventsOrder Events.EventsSpec5Bridge.
Import ListNotations.
Unset Lia Cache.

Lemma csteps5_app fl c t1 t2 :
  csteps5 fl c (t1 ++ t2) =
  match csteps5 fl c t1 with Some c1 => csteps5 fl c1 t2 | None => None end.
Proof.
  revert c. induction t1 as [|e t1 IH]; intros c; simpl; [reflexivity|].
  destruct (cstep5 fl c e); [apply IH | reflexivity].
Qed.

(* case analysis of one accepted step, exactly as cstep5 does it *)
Ltac step_cases H :=
  unfold cstep5 in H;
  repeat match type of H with
         | context [match ?x with _ => _ end] => destruct x eqn:?; try discriminate H
         end;
  try (injection H as H; subst).

Lemma step_facts fl c e c' :
  cstep5 fl c e = Some c' -> run_event e = false ->
  d_mode c' = d_mode c /\ d_drain c' = d_drain c /\
  d_status c' = last_rc (d_status c) [e] /\
  (is_invoke e = false -> d_ninv c' = d_ninv c) /\
  (d_mode c = MRun -> d_drain c = true -> is_poll e = false) /\
  (d_stop c = true -> d_incb c = false -> d_stop c' = true /\ d_incb c' = false /\ is_invoke e = false).
Proof.
  intros H Hr. destruct e; try discriminate Hr; step_cases H.
  all: cbn [d_mode d_drain d_status d_ninv d_stop d_incb upd5 same5 last_rc is_invoke is_poll].
  all: repeat split; intros; try reflexivity; try congruence.
  all: match goal with
       | Hb : d_incb ?c || d_stop ?c = false, H1 : d_stop ?c = true |- _ =>
         rewrite H1, orb_true_r in Hb; discriminate Hb
       end.
Qed.

Definition nonrun (body : trace) : bool := forallb (fun e => negb (run_event e)) body.

Lemma nonrun_cons e body : nonrun (e :: body) = true -> run_event e = false /\ nonrun body = true.
Proof.
  unfold nonrun. simpl. intros H. apply andb_prop in H. destruct H as [A B].
  split; [destruct (run_event e); [discriminate A | reflexivity] | exact B].
Qed.

Lemma nonrun_app b1 b2 : nonrun (b1 ++ b2) = true -> nonrun b1 = true /\ nonrun b2 = true.
Proof. unfold nonrun. rewrite forallb_app. apply andb_prop. Qed.

(* ---- segment invariants: a stretch of accepted events without run events ---- *)

Lemma seg_mode_drain fl body : forall c c',
  csteps5 fl c body = Some c' -> nonrun body = true ->
  d_mode c' = d_mode c /\ d_drain c' = d_drain c.
Proof.
  induction body as [|e body IH]; intros c c' H N; simpl in H.
  - injection H as <-. split; reflexivity.
  - destruct (cstep5 fl c e) as [c1|] eqn:E; [|discriminate H].
    destruct (nonrun_cons _ _ N) as [Ne Nb].
    destruct (step_facts _ _ _ _ E Ne) as [A [B _]].
    destruct (IH _ _ H Nb) as [A' B']. split; congruence.
Qed.

Lemma seg_status fl body : forall c c',
  csteps5 fl c body = Some c' -> nonrun body = true ->
  d_status c' = last_rc (d_status c) body.
Proof.
  induction body as [|e body IH]; intros c c' H N; simpl in H.
  - injection H as <-. reflexivity.
  - destruct (cstep5 fl c e) as [c1|] eqn:E; [|discriminate H].
    destruct (nonrun_cons _ _ N) as [Ne Nb].
    destruct (step_facts _ _ _ _ E Ne) as [_ [_ [A _]]].
    rewrite (IH _ _ H Nb), A. destruct e; reflexivity.
Qed.

Lemma seg_ninv fl body : forall c c',
  csteps5 fl c body = Some c' -> nonrun body = true ->
  existsb is_invoke body = false -> d_ninv c' = d_ninv c.
Proof.
  induction body as [|e body IH]; intros c c' H N X; simpl in H.
  - injection H as <-. reflexivity.
  - destruct (cstep5 fl c e) as [c1|] eqn:E; [|discriminate H].
    destruct (nonrun_cons _ _ N) as [Ne Nb].
    simpl in X. apply orb_false_elim in X. destruct X as [Xe Xb].
    destruct (step_facts _ _ _ _ E Ne) as [_ [_ [_ [A _]]]].
    rewrite (IH _ _ H Nb Xb). apply A. exact Xe.
Qed.

Lemma seg_nopoll fl body : forall c c',
  csteps5 fl c body = Some c' -> nonrun body = true ->
  d_mode c = MRun -> d_drain c = true -> existsb is_poll body = false.
Proof.
  induction body as [|e body IH]; intros c c' H N M D; simpl in H; [reflexivity|].
  destruct (cstep5 fl c e) as [c1|] eqn:E; [|discriminate H].
  destruct (nonrun_cons _ _ N) as [Ne Nb].
  destruct (step_facts _ _ _ _ E Ne) as [A [B [_ [_ [P _]]]]].
  simpl. rewrite (P M D). simpl. apply (IH _ _ H Nb); congruence.
Qed.

Lemma seg_stopped fl body : forall c c',
  csteps5 fl c body = Some c' -> nonrun body = true ->
  d_stop c = true -> d_incb c = false -> existsb is_invoke body = false.
Proof.
  induction body as [|e body IH]; intros c c' H N S I; simpl in H; [reflexivity|].
  destruct (cstep5 fl c e) as [c1|] eqn:E; [|discriminate H].
  destruct (nonrun_cons _ _ N) as [Ne Nb].
  destruct (step_facts _ _ _ _ E Ne) as [_ [_ [_ [_ [_ P]]]]].
  destruct (P S I) as [S1 [I1 X]].
  simpl. rewrite X. simpl. apply (IH _ _ H Nb S1 I1).
Qed.

(* ---- the pending interrupt request ---- *)

Lemma intr_aux_cons acc e t : intr_aux acc (e :: t) = intr_aux (intr_aux acc [e]) t.
Proof. destruct e; try reflexivity. destruct ans as [l|[|]]; reflexivity. Qed.

Lemma intr_aux_app acc t1 t2 : intr_aux acc (t1 ++ t2) = intr_aux (intr_aux acc t1) t2.
Proof.
  revert acc. induction t1 as [|e t1 IH]; intros acc; [reflexivity|].
  rewrite <- app_comm_cons, intr_aux_cons, IH, <- intr_aux_cons. reflexivity.
Qed.

Lemma intr_step fl c e c' : cstep5 fl c e = Some c' -> d_intr c' = intr_aux (d_intr c) [e].
Proof.
  intros H. destruct e; step_cases H; reflexivity.
Qed.

Lemma intr_steps fl t : forall c c', csteps5 fl c t = Some c' -> d_intr c' = intr_aux (d_intr c) t.
Proof.
  induction t as [|e t IH]; intros c c' H; simpl in H.
  - injection H as <-. reflexivity.
  - destruct (cstep5 fl c e) as [c1|] eqn:E; [|discriminate H].
    rewrite intr_aux_cons, <- (intr_step _ _ _ _ E). apply IH. exact H.
Qed.

Lemma intr_of_trace fl t c : csteps5 fl c5_init t = Some c -> d_intr c = intr_pending t.
Proof. intros H. apply (intr_steps _ _ _ _ H). Qed.

(* ---- one call of events_run / events_spin, as the C05 checker sees it ---- *)

Definition ev_start (spin : bool) : event := if spin then ESpinStart else ERunStart.
Definition ev_end (spin : bool) (rc : Z) : event := if spin then ESpinEnd rc else ERunEnd rc.

Lemma call_states fl spin t t1 body rc t2 :
  checks5 fl t = true -> is_call spin t t1 body rc t2 ->
  exists c1 c0 cb ce,
    csteps5 fl c5_init t1 = Some c1 /\
    cstep5 fl c1 (ev_start spin) = Some c0 /\
    csteps5 fl c0 body = Some cb /\
    cstep5 fl cb (ev_end spin rc) = Some ce /\
    nonrun body = true.
Proof.
  unfold checks5. intros H [Et N].
  destruct (csteps5 fl c5_init t) as [cz|] eqn:E; [clear H | discriminate H].
  subst t. fold (ev_start spin) in E. fold (ev_end spin rc) in E.
  destruct (csteps5_split _ _ _ _ _ E) as [c1 [A1 B1]].
  simpl in B1. destruct (cstep5 fl c1 (ev_start spin)) as [c0|] eqn:E0; [|discriminate B1].
  destruct (csteps5_split _ _ _ _ _ B1) as [cb [A2 B2]].
  simpl in B2. destruct (cstep5 fl cb (ev_end spin rc)) as [ce|] eqn:E3; [|discriminate B2].
  exists c1, c0, cb, ce. repeat split; assumption.
Qed.

Lemma start_facts fl spin c1 c0 :
  cstep5 fl c1 (ev_start spin) = Some c0 ->
  d_mode c0 = (if spin then MSpin else MRun) /\
  d_drain c0 = negb (EventsSpec.is_nil (d_imms c1)) /\
  d_incb c0 = false /\ d_intr c0 = d_intr c1 /\ d_stop c0 = false /\
  d_status c0 = 0%Z /\ d_ninv c0 = 0.
Proof.
  intros H. destruct spin; unfold ev_start in H; step_cases H; repeat split; reflexivity.
Qed.

Lemma end_facts spin cb rc ce :
  cstep5 c5_strict cb (ev_end spin rc) = Some ce ->
  rc = d_status cb /\ (spin = false -> d_ninv cb = 0 -> d_drain cb = false).
Proof.
  intros H. destruct spin; unfold ev_end in H; unfold cstep5 in H.
  - destruct (d_mode cb); try discriminate H.
    destruct (negb (d_incb cb) && (rc =? d_status cb)%Z) eqn:X; [|discriminate H].
    apply andb_prop in X. destruct X as [_ X]. apply Z.eqb_eq in X.
    split; [exact X | intros; discriminate].
  - destruct (d_mode cb); try discriminate H.
    cbn [f_progress c5_strict negb orb] in H.
    destruct (negb (d_incb cb) && (rc =? d_status cb)%Z) eqn:X; [|discriminate H].
    apply andb_prop in X. destruct X as [_ X]. apply Z.eqb_eq in X.
    split; [exact X|]. intros _ N0. rewrite N0 in H. cbn [Nat.eqb andb] in H.
    destruct (d_drain cb); [discriminate H | reflexivity].
Qed.

Lemma call_eq spin t t1 body rc t2 :
  is_call spin t t1 body rc t2 -> t = t1 ++ ev_start spin :: body ++ ev_end spin rc :: t2.
Proof. intros [E _]. exact E. Qed.

(* C05-M5 *)
Theorem c05_status_returned t : check_c04 t = true -> check_c05 t = true -> status_returned t.
Proof.
  intros _ H5 spin t1 body rc t2 Hc.
  destruct (call_states _ _ _ _ _ _ _ H5 Hc) as [c1 [c0 [cb [ce [A1 [A0 [Ab [Ae N]]]]]]]].
  destruct (start_facts _ _ _ _ A0) as [_ [_ [_ [_ [_ [S0 _]]]]]].
  destruct (end_facts _ _ _ _ Ae) as [Er _].
  rewrite Er, (seg_status _ _ _ _ Ab N), S0. reflexivity.
Qed.

Theorem c05_stops_dispatch t : check_c04 t = true -> check_c05 t = true -> stops_dispatch t.
Proof.
  intros _ H5 spin t1 body rc t2 b1 rc1 b2 Hc Eb Hstop.
  destruct (call_states _ _ _ _ _ _ _ H5 Hc) as [c1 [c0 [cb [ce [A1 [A0 [Ab [Ae N]]]]]]]].
  subst body.
  destruct (csteps5_split _ _ _ _ _ Ab) as [ca [Aa Ba]].
  destruct (nonrun_app _ _ N) as [N1 N2]. destruct (nonrun_cons _ _ N2) as [_ N3].
  cbn [csteps5] in Ba. destruct (cstep5 c5_strict ca (ECbEnd rc1)) as [cs|] eqn:Es; [|discriminate Ba].
  assert (Hi : d_intr ca = intr_pending (t1 ++ ev_start spin :: b1)).
  { apply (intr_of_trace c5_strict). rewrite csteps5_app, A1. simpl. rewrite A0. exact Aa. }
  assert (Hs : d_stop cs = true /\ d_incb cs = false).
  { unfold cstep5 in Es. destruct (d_incb ca); [|discriminate Es]. injection Es as <-.
    cbn [d_stop d_incb]. split; [|reflexivity]. rewrite Hi.
    destruct Hstop as [X | X].
    - apply Z.eqb_neq in X. rewrite X. reflexivity.
    - unfold ev_start. rewrite X. apply orb_true_r. }
  destruct Hs as [S I]. exact (seg_stopped _ _ _ _ Ba N3 S I).
Qed.

Theorem c05_progress_immediate t : check_c04 t = true -> check_c05 t = true -> progress_immediate t.
Proof.
  intros H4 H5 t1 body rc t2 Hc [r [p Hl]].
  destruct (call_states _ _ _ _ _ _ _ H5 Hc) as [c1 [c0 [cb [ce [A1 [A0 [Ab [Ae N]]]]]]]].
  pose proof (call_eq _ _ _ _ _ _ Hc) as Et. subst t.
  destruct (both_prefix _ _ _ H4 H5) as [x4 [c1' B]].
  assert (c1' = c1) by (pose proof (b_c5 _ _ _ _ _ B) as X; congruence). subst c1'.
  assert (Hne : EventsSpec.is_nil (d_imms c1) = false).
  { destruct (d_imms c1) eqn:E; [|reflexivity]. exfalso.
    apply (proj1 (bridge_imm_nil t1 x4 c1 (b_J _ _ _ _ _ B) (b_R _ _ _ _ _ B)) E r p Hl). }
  destruct (start_facts _ _ _ _ A0) as [M0 [D0 [_ [_ [_ [_ K0]]]]]].
  rewrite Hne in D0. simpl in M0, D0.
  destruct (seg_mode_drain _ _ _ _ Ab N) as [Mb Db].
  destruct (end_facts _ _ _ _ Ae) as [_ P].
  split; [| exact (seg_nopoll _ _ _ _ Ab N M0 D0)].
  destruct (existsb is_invoke body) eqn:X; [reflexivity|]. exfalso.
  pose proof (seg_ninv _ _ _ _ Ab N X) as K. rewrite K0 in K.
  specialize (P eq_refl K). congruence.
Qed.
