(* C05, spec side: the run-level clauses about events_run (blocking_bound, later_polls,
   wake_runs) follow from acceptance by the two checkers.  The checker states at a prefix of the
   trace come from EventsSpec5Bridge.both_prefix; the control fields of the C05 checker state are
   related to the events of the current call by the segment lemmas below. *)
From Coq Require Import NArith ZArith List Bool Arith Lia.
From LCP Require Import Events.EventsTrace Events.EventsSpec Events.EventsSpecProofs Events.EventsOrder Events.EventsSpec5Bridge.
Import ListNotations.
Unset Lia Cache.

(* ---------------------------------------------------------------------------------------- *)
(* one step of the C05 checker                                                              *)
(* ---------------------------------------------------------------------------------------- *)

Ltac crack H :=
  unfold cstep5 in H; cbv beta zeta in H;
  repeat match type of H with
         | context [match ?x with _ => _ end] => destruct x eqn:?
         end;
  try discriminate H.

Ltac proj5 :=
  cbn [d_imms d_nets d_tmrs d_clock d_prev d_mode d_phase d_drain d_incb d_intr d_intr_run d_stop
       d_status d_ninv d_ready_seen upd5 same5].

Definition poll_ready (e : event) : bool :=
  match e with EPoll _ _ a => ans_nonempty a | _ => false end.

Definition no_run (b : trace) : bool := forallb (fun e => negb (run_event e)) b.

(* what an accepted event that is not the start or end of a call does to the control fields *)
Lemma step_seg fl c e c' :
  cstep5 fl c e = Some c' -> run_event e = false ->
  d_mode c' = d_mode c /\ d_drain c' = d_drain c /\
  d_intr_run c' = intr_aux (d_intr_run c) [e] /\
  d_ready_seen c' = d_ready_seen c || poll_ready e /\
  (is_invoke e = false -> d_ninv c' = d_ninv c) /\
  (is_poll e = false -> d_phase c' = d_phase c).
Proof.
  intros H Hr. destruct e; try discriminate Hr; crack H; inversion H; subst c'; proj5;
    cbn [intr_aux poll_ready is_invoke is_poll ans_nonempty];
    rewrite ?orb_false_r; repeat split; auto; try discriminate.
Qed.

(* the pending interrupt request, over every event *)
Lemma step_intr fl c e c' : cstep5 fl c e = Some c' -> d_intr c' = intr_aux (d_intr c) [e].
Proof.
  intros H. destruct e; crack H; inversion H; subst c'; proj5; cbn [intr_aux]; auto.
Qed.

(* only a clock reading leaves a fresh clock behind *)
Lemma step_fresh fl c e c' now : cstep5 fl c e = Some c' -> fresh_clock c' = Some now -> e = EClock now.
Proof.
  intros H F. unfold fresh_clock in F.
  destruct e; crack H; inversion H; subst c'; revert F; proj5; intros F; try discriminate F;
    congruence.
Qed.

(* an accepted poll inside events_run *)
Lemma step_poll_run fl c tmo fs ans c' :
  cstep5 fl c (EPoll tmo fs ans) = Some c' -> d_mode c = MRun -> f_timeout fl = true ->
  d_drain c = false /\
  match d_phase c with
  | PhStart => first_timeout_ok c tmo = true
  | PhFirst w => tmo = w
  | PhLoop => tmo = 0%Z
  end /\
  d_phase c' = match d_phase c with
               | PhStart => match ans with PEintr false => PhFirst tmo | _ => PhLoop end
               | PhFirst w => match ans with PEintr false => PhFirst w | _ => PhLoop end
               | PhLoop => PhLoop
               end.
Proof.
  intros H M F. unfold cstep5 in H. cbv beta zeta in H. rewrite M, F in H.
  destruct (d_incb c); [discriminate|]. destruct (d_drain c); [discriminate|].
  split; [reflexivity|]. cbn [negb orb] in H.
  destruct (d_phase c) as [|w|].
  - destruct (first_timeout_ok c tmo); [|discriminate]. split; [reflexivity|].
    inversion H; subst c'; proj5. destruct ans as [l|[|]]; reflexivity.
  - destruct (Z.eqb_spec tmo w); [|discriminate]. split; [assumption|].
    inversion H; subst c'; proj5. destruct ans as [l|[|]]; reflexivity.
  - destruct (Z.eqb_spec tmo 0); [|discriminate]. split; [assumption|].
    inversion H; subst c'; proj5. reflexivity.
Qed.

(* the start of events_run *)
Lemma step_runstart fl c c' :
  cstep5 fl c ERunStart = Some c' ->
  d_mode c = MOut /\ d_mode c' = MRun /\ d_phase c' = PhStart /\
  d_drain c' = negb (EventsSpec.is_nil (d_imms c)) /\ d_intr_run c' = d_intr c /\
  d_ninv c' = 0 /\ d_ready_seen c' = false.
Proof.
  intros H. crack H. inversion H; subst c'; proj5. repeat split; auto.
Qed.

(* the end of events_run *)
Lemma step_runend c rc c' :
  cstep5 c5_strict c (ERunEnd rc) = Some c' -> d_ninv c = 0 ->
  d_drain c = false /\
  (d_intr_run c = true \/
   (d_ready_seen c = false /\
    match min_due (d_tmrs c), d_clock c with
    | Some m, Some now => (us now < m)%N
    | Some _, None => False
    | None, _ => True
    end)).
Proof.
  intros H N0. unfold cstep5 in H. cbv beta zeta in H. rewrite N0 in H.
  cbn [Nat.eqb f_progress c5_strict negb orb] in H.
  destruct (d_mode c); try discriminate H.
  destruct (negb (d_incb c) && (rc =? d_status c)%Z); [|discriminate H]. cbn [andb] in H.
  destruct (d_drain c); [discriminate H|]. split; [reflexivity|]. cbn [negb andb] in H.
  destruct (d_intr_run c); [left; reflexivity|]. right. cbn [orb] in H.
  destruct (d_ready_seen c); [discriminate H|]. split; [reflexivity|]. cbn [negb andb] in H.
  destruct (min_due (d_tmrs c)) as [m|]; [|exact I].
  destruct (d_clock c) as [now|]; [|discriminate H].
  destruct (N.ltb_spec (us now) m); [assumption | discriminate H].
Qed.

(* ---------------------------------------------------------------------------------------- *)
(* segments                                                                                 *)
(* ---------------------------------------------------------------------------------------- *)

Lemma csteps5_fun fl c t a b : csteps5 fl c t = Some a -> csteps5 fl c t = Some b -> a = b.
Proof. congruence. Qed.

Lemma csteps5_snoc fl c t e c' :
  csteps5 fl c (t ++ [e]) = Some c' -> exists cm, csteps5 fl c t = Some cm /\ cstep5 fl cm e = Some c'.
Proof.
  intros H. destruct (csteps5_split _ _ _ _ _ H) as [cm [A B]]. exists cm. split; [exact A|].
  simpl in B. destruct (cstep5 fl cm e); [exact B | discriminate].
Qed.

Lemma intr_aux_app t1 : forall acc t2, intr_aux acc (t1 ++ t2) = intr_aux (intr_aux acc t1) t2.
Proof.
  induction t1 as [|e t1 IH]; intros acc t2; [reflexivity|].
  destruct e; cbn [app intr_aux]; try apply IH. destruct ans as [l|[|]]; apply IH.
Qed.

Lemma intr_aux_cons acc e t : intr_aux acc (e :: t) = intr_aux (intr_aux acc [e]) t.
Proof. apply (intr_aux_app [e]). Qed.

Lemma steps_intr fl t : forall c c', csteps5 fl c t = Some c' -> d_intr c' = intr_aux (d_intr c) t.
Proof.
  induction t as [|e t IH]; intros c c' H; simpl in H.
  - inversion H. reflexivity.
  - destruct (cstep5 fl c e) as [cm|] eqn:E; [|discriminate].
    rewrite intr_aux_cons, <- (step_intr _ _ _ _ E). apply IH. exact H.
Qed.

(* a segment inside one call *)
Lemma steps_seg fl b : forall c c', csteps5 fl c b = Some c' -> no_run b = true ->
  d_mode c' = d_mode c /\ d_drain c' = d_drain c /\
  d_intr_run c' = intr_aux (d_intr_run c) b /\
  d_ready_seen c' = d_ready_seen c || existsb poll_ready b /\
  (existsb is_invoke b = false -> d_ninv c' = d_ninv c) /\
  (existsb is_poll b = false -> d_phase c' = d_phase c).
Proof.
  induction b as [|e b IH]; intros c c' H Hn.
  - inversion H; subst c'. cbn [existsb intr_aux]. rewrite orb_false_r. repeat split; auto.
  - simpl in H. destruct (cstep5 fl c e) as [cm|] eqn:E; [|discriminate].
    unfold no_run in Hn. cbn [forallb] in Hn. apply andb_true_iff in Hn. destruct Hn as [Hr Hn].
    apply negb_true_iff in Hr.
    destruct (step_seg _ _ _ _ E Hr) as [A1 [A2 [A3 [A4 [A5 A6]]]]].
    destruct (IH cm c' H Hn) as [B1 [B2 [B3 [B4 [B5 B6]]]]].
    split; [congruence|]. split; [congruence|].
    split; [rewrite intr_aux_cons, <- A3; exact B3|].
    split; [cbn [existsb]; rewrite orb_assoc, <- A4; exact B4|].
    split; intros X; cbn [existsb] in X; apply orb_false_iff in X; destruct X as [X1 X2].
    + rewrite (B5 X2). apply A5. exact X1.
    + rewrite (B6 X2). apply A6. exact X1.
Qed.

Lemma no_run_app a b : no_run (a ++ b) = true -> no_run a = true /\ no_run b = true.
Proof. unfold no_run. rewrite forallb_app. apply andb_true_iff. Qed.

(* the phase of a run, against the polls the run has made so far *)
Definition PhInv (ph : phase) (b : trace) : Prop :=
  match ph with
  | PhStart => existsb is_poll b = false
  | PhFirst w => forall e, In e b -> is_poll e = true -> exists fs', e = EPoll w fs' (PEintr false)
  | PhLoop => True
  end.

Lemma steps_phase fl c0 : f_timeout fl = true -> d_mode c0 = MRun -> d_phase c0 = PhStart ->
  forall b c, csteps5 fl c0 b = Some c -> no_run b = true -> PhInv (d_phase c) b.
Proof.
  intros F M0 P0 b. induction b as [|e b IH] using rev_ind; intros c H Hn.
  - inversion H; subst c. rewrite P0. reflexivity.
  - destruct (csteps5_snoc _ _ _ _ _ H) as [cm [A B]].
    destruct (no_run_app _ _ Hn) as [Hb He].
    specialize (IH cm A Hb).
    destruct (steps_seg _ _ _ _ A Hb) as [M _]. rewrite M0 in M.
    unfold no_run in He. cbn [forallb] in He. rewrite andb_true_r in He. apply negb_true_iff in He.
    destruct (is_poll e) eqn:Ep.
    + destruct e; try discriminate Ep.
      destruct (step_poll_run _ _ _ _ _ _ B M F) as [_ [T ->]].
      destruct (d_phase cm) as [|w|].
      * destruct ans as [l|[|]]; try exact I. cbn [PhInv] in IH |- *.
        intros e Hin Hp. apply in_app_or in Hin. destruct Hin as [Hin | [<- | []]].
        -- assert (X : existsb is_poll b = true) by (apply existsb_exists; eauto). congruence.
        -- eauto.
      * destruct ans as [l|[|]]; try exact I. cbn [PhInv] in IH |- *. subst timeout.
        intros e Hin Hp. apply in_app_or in Hin. destruct Hin as [Hin | [<- | []]]; eauto.
      * exact I.
    + destruct (step_seg _ _ _ _ B He) as [_ [_ [_ [_ [_ Ph]]]]]. rewrite (Ph Ep).
      destruct (d_phase cm) as [|w|]; cbn [PhInv] in IH |- *.
      * rewrite existsb_app. cbn [existsb]. rewrite IH, Ep. reflexivity.
      * intros e' Hin Hp. apply in_app_or in Hin. destruct Hin as [Hin | [<- | []]]; [eauto | congruence].
      * exact I.
Qed.

(* a fresh clock reading is the last event *)
Lemma prev_clock fl h c now :
  csteps5 fl c5_init h = Some c -> fresh_clock c = Some now -> exists h0, h = h0 ++ [EClock now].
Proof.
  destruct h as [|e h] using rev_ind; intros H F.
  - inversion H; subst c. discriminate F.
  - destruct (csteps5_snoc _ _ _ _ _ H) as [cm [_ B]]. exists h.
    rewrite (step_fresh _ _ _ _ _ B F). reflexivity.
Qed.

Lemma min_due_none l : min_due l = None -> l = [].
Proof.
  destruct l as [|[r [tm d]] l]; [reflexivity|]. simpl. destruct (min_due l); discriminate.
Qed.

Lemma poll_ready_none b : existsb poll_ready b = false ->
  forall tmo fs l, In (EPoll tmo fs (PReady l)) b -> l = [].
Proof.
  intros H tmo fs l Hin. destruct l as [|x l]; [reflexivity|].
  assert (X : existsb poll_ready b = true) by (apply existsb_exists; eexists; split; [exact Hin | reflexivity]).
  congruence.
Qed.

(* ---------------------------------------------------------------------------------------- *)
(* the two checker states inside a call of events_run                                       *)
(* ---------------------------------------------------------------------------------------- *)

Lemma call_state t t1 b1 rest :
  check_c04 t = true -> check_c05 t = true -> t = t1 ++ ERunStart :: b1 ++ rest -> no_run b1 = true ->
  exists x1 c1 x4 ca,
    J t1 x1 /\ R45 x1 c1 /\ J (t1 ++ ERunStart :: b1) x4 /\ R45 x4 ca /\
    csteps5 c5_strict c5_init (t1 ++ ERunStart :: b1) = Some ca /\
    (exists c', csteps5 c5_strict ca rest = Some c') /\
    d_mode ca = MRun /\ d_drain ca = negb (EventsSpec.is_nil (d_imms c1)) /\
    d_intr_run ca = intr_pending (t1 ++ ERunStart :: b1) /\
    d_ready_seen ca = existsb poll_ready b1 /\
    (existsb is_invoke b1 = false -> d_ninv ca = 0) /\
    (existsb is_poll b1 = false -> d_phase ca = PhStart) /\
    PhInv (d_phase ca) b1.
Proof.
  intros H4 H5 -> Hn. unfold check_c05 in H5.
  destruct (both_prefix c5_strict t1 (ERunStart :: b1 ++ rest) H4 H5) as [x1 [c1 B1]].
  assert (E1 : t1 ++ ERunStart :: b1 ++ rest = (t1 ++ ERunStart :: b1) ++ rest)
    by (rewrite <- app_assoc; reflexivity).
  rewrite E1 in H4, H5.
  destruct (both_prefix c5_strict _ _ H4 H5) as [x4 [ca Ba]].
  destruct (csteps5_split _ _ _ _ _ (b_c5 _ _ _ _ _ Ba)) as [c1' [A1 A2]].
  assert (c1' = c1) by (eapply csteps5_fun; [exact A1 | exact (b_c5 _ _ _ _ _ B1)]). subst c1'.
  cbn [csteps5] in A2. destruct (cstep5 c5_strict c1 ERunStart) as [c0|] eqn:E0; [|discriminate].
  destruct (step_runstart _ _ _ E0) as [M1 [M0 [P0 [D0 [I0 [N0 R0]]]]]].
  destruct (steps_seg _ _ _ _ A2 Hn) as [S1 [S2 [S3 [S4 [S5 S6]]]]].
  exists x1, c1, x4, ca.
  split; [exact (b_J _ _ _ _ _ B1)|]. split; [exact (b_R _ _ _ _ _ B1)|].
  split; [exact (b_J _ _ _ _ _ Ba)|]. split; [exact (b_R _ _ _ _ _ Ba)|].
  split; [exact (b_c5 _ _ _ _ _ Ba)|]. split; [exact (b_rest5 _ _ _ _ _ Ba)|].
  split; [congruence|]. split; [congruence|].
  split.
  { rewrite S3, I0. unfold intr_pending. rewrite intr_aux_app. cbn [intr_aux].
    rewrite (steps_intr _ _ _ _ A1). reflexivity. }
  split; [rewrite S4, R0; reflexivity|].
  split; [intros X; rewrite (S5 X); exact N0|].
  split; [intros X; rewrite (S6 X); exact P0|].
  exact (steps_phase c5_strict c0 eq_refl M0 P0 b1 ca A2 Hn).
Qed.

Lemma call_split t1 b1 e b2 rc t2 :
  t1 ++ ERunStart :: (b1 ++ e :: b2) ++ ERunEnd rc :: t2 =
  t1 ++ ERunStart :: b1 ++ (e :: b2 ++ ERunEnd rc :: t2).
Proof. rewrite <- app_assoc. reflexivity. Qed.

(* ---------------------------------------------------------------------------------------- *)
(* the three clauses                                                                        *)
(* ---------------------------------------------------------------------------------------- *)

Theorem c05_blocking_bound t : check_c04 t = true -> check_c05 t = true -> blocking_bound t.
Proof.
  intros H4 H5 t1 body rc t2 b1 tmo fs ans b2 [Et Hn] Eb Hp h. subst body.
  rewrite call_split in Et. destruct (no_run_app _ _ Hn) as [Hn1 _].
  destruct (call_state t t1 b1 _ H4 H5 Et Hn1)
    as [x1 [c1 [x4 [ca [J1 [R1 [Ja [Ra [Sa [[c' Rest] [M [D [_ [_ [_ [P0 _]]]]]]]]]]]]]]]].
  fold h in Ja, Sa. specialize (P0 Hp).
  cbn [csteps5] in Rest. destruct (cstep5 c5_strict ca (EPoll tmo fs ans)) as [cp|] eqn:Ep; [|discriminate].
  destruct (step_poll_run _ _ _ _ _ _ Ep M eq_refl) as [_ [T _]].
  rewrite P0 in T. unfold first_timeout_ok in T. destruct (min_due (d_tmrs ca)) as [m|] eqn:Em.
  - right. destruct (fresh_clock ca) as [now|] eqn:Ef; [|discriminate T].
    destruct (prev_clock _ _ _ _ Sa Ef) as [h0 Eh].
    assert (X : exists b0, b1 = b0 ++ [EClock now]).
    { unfold h in Eh. destruct b1 as [|y b1'] using rev_ind.
      - apply app_inj_tail in Eh. destruct Eh as [_ Eh]. discriminate Eh.
      - exists b1'. rewrite app_comm_cons, app_assoc in Eh.
        apply app_inj_tail in Eh. destruct Eh as [_ ->]. reflexivity. }
    destruct X as [b0 Eb0]. exists m, b0, now.
    split; [exact (bridge_min_due h x4 ca Ja Ra m Em)|]. split; [exact Eb0 | exact T].
  - left. split; [|apply Z.eqb_eq; exact T].
    apply (bridge_tmr_nil h x4 ca Ja Ra). apply min_due_none. exact Em.
Qed.

Theorem c05_later_polls t : check_c04 t = true -> check_c05 t = true -> later_polls t.
Proof.
  intros H4 H5 t1 body rc t2 b1 tmo fs ans b2 [Et Hn] Eb Hp. subst body.
  rewrite call_split in Et. destruct (no_run_app _ _ Hn) as [Hn1 _].
  destruct (call_state t t1 b1 _ H4 H5 Et Hn1)
    as [x1 [c1 [x4 [ca [J1 [R1 [Ja [Ra [Sa [[c' Rest] [M [D [_ [_ [_ [_ Ph]]]]]]]]]]]]]]]].
  cbn [csteps5] in Rest. destruct (cstep5 c5_strict ca (EPoll tmo fs ans)) as [cp|] eqn:Ep; [|discriminate].
  destruct (step_poll_run _ _ _ _ _ _ Ep M eq_refl) as [_ [T _]].
  destruct (d_phase ca) as [|w|]; cbn [PhInv] in Ph.
  - congruence.
  - right. subst w. exact Ph.
  - left. exact T.
Qed.

Theorem c05_wake_runs t : check_c04 t = true -> check_c05 t = true -> wake_runs t.
Proof.
  intros H4 H5 t1 body rc t2 [Et Hn] Hi h.
  destruct (call_state t t1 body _ H4 H5 Et Hn)
    as [x1 [c1 [x4 [cb [J1 [R1 [Jb [Rb [Sb [[c' Rest] [M [D [I [Rs [N0 _]]]]]]]]]]]]]]].
  fold h in Jb, Sb, I. specialize (N0 Hi).
  cbn [csteps5] in Rest. destruct (cstep5 c5_strict cb (ERunEnd rc)) as [ce|] eqn:Ee; [|discriminate].
  destruct (step_runend _ _ _ Ee N0) as [Dr Pr].
  split.
  - apply (bridge_imm_nil t1 x1 c1 J1 R1). rewrite Dr in D.
    destruct (d_imms c1); [reflexivity | discriminate D].
  - destruct Pr as [Pr | [Pr Cl]]; [left; congruence|]. right. split.
    + apply poll_ready_none. congruence.
    + destruct (min_due (d_tmrs cb)) as [m|] eqn:Em.
      * right. destruct (d_clock cb) as [now|] eqn:Ec; [|destruct Cl]. exists m, now.
        split; [exact (bridge_min_due h x4 cb Jb Rb m Em)|].
        split; [rewrite <- (bridge_clock h x4 cb Jb Rb); exact Ec | exact Cl].
      * left. apply (bridge_tmr_nil h x4 cb Jb Rb). apply min_due_none. exact Em.
Qed.
