(* C05, spec side: acceptance by the C04 and the C05 checker implies the three per-callback
   clauses of C05 (choice_priority, immediate_order, timer_order of EventsSpec.v, Part 3b).
   Pure trace reasoning; nothing here depends on the model of the C. *)
From Coq Require Import NArith ZArith List Bool Arith Lia.
From LCP Require Import Events.EventsTrace Events.EventsSpec Events.EventsSpecProofs Events.EventsOrder Events.EventsSpec5Bridge.
Import ListNotations.
Unset Lia Cache.

(* destruct, one after the other, the tests a checker step makes *)
Ltac brk H :=
  repeat match type of H with
  | None = Some _ => discriminate H
  | (if ?b then _ else _) = Some _ => destruct b
  | match ?x with _ => _ end = Some _ => destruct x
  end.

(* ====================================================================================== *)
(* Part A.  What d_prev remembers                                                          *)
(* ====================================================================================== *)

Definition prev_ok (t : trace) (c : c5) : Prop :=
  (d_prev c = PvPoll0 ->
     exists t0 tmo fs ans, t = t0 ++ [EPoll tmo fs ans] /\ poll_quiet tmo ans = true) /\
  (d_prev c = PvPoll0Clock ->
     exists t0 tmo fs ans now, t = t0 ++ [EPoll tmo fs ans; EClock now] /\ poll_quiet tmo ans = true).

Lemma prev_ok_init : prev_ok [] c5_init.
Proof. split; intros X; discriminate X. Qed.

Lemma cstep5_prev fl c e c' :
  cstep5 fl c e = Some c' ->
  d_prev c' = match e with
              | EPoll tmo _ ans => if poll_quiet tmo ans then PvPoll0 else PvNone
              | EClock _ => match d_prev c with PvPoll0 => PvPoll0Clock | _ => PvClock end
              | _ => PvNone
              end.
Proof. intros H. destruct e; simpl in H; brk H; inversion H; reflexivity. Qed.

Lemma prev_step fl t c e c' : prev_ok t c -> cstep5 fl c e = Some c' -> prev_ok (t ++ [e]) c'.
Proof.
  intros [P1 P2] H. apply cstep5_prev in H. unfold prev_ok. rewrite H.
  destruct e as [ | | | | | | | |now|tmo0 fs0 ans0| | | | | | | | | ]; try (split; intros X; discriminate X).
  - (* EClock *)
    destruct (d_prev c) eqn:E; try (split; intros X; discriminate X).
    split; [intros X; discriminate X|]. intros _.
    destruct (P1 eq_refl) as [u [tmo [fs [ans [Et Q]]]]]. exists u, tmo, fs, ans, now.
    split; [|exact Q]. rewrite Et, <- app_assoc. reflexivity.
  - (* EPoll *)
    destruct (poll_quiet tmo0 ans0) eqn:Q; try (split; intros X; discriminate X).
    split; [|intros X; discriminate X]. intros _. exists t, tmo0, fs0, ans0. auto.
Qed.

Lemma prev_steps fl t' : forall t c c', prev_ok t c -> csteps5 fl c t' = Some c' -> prev_ok (t ++ t') c'.
Proof.
  induction t' as [|e t' IH]; intros t c c' HP Hs; simpl in Hs.
  - inversion Hs; subst. rewrite app_nil_r. exact HP.
  - destruct (cstep5 fl c e) as [c1|] eqn:E; [|discriminate].
    replace (t ++ e :: t') with ((t ++ [e]) ++ t') by (rewrite <- app_assoc; reflexivity).
    eapply IH; [|exact Hs]. eapply prev_step; eauto.
Qed.

Lemma poll_quiet_true tmo ans : poll_quiet tmo ans = true -> tmo = 0%Z /\ quiet_answer ans.
Proof.
  unfold poll_quiet, quiet_answer. intros H. apply andb_true_iff in H. destruct H as [A B].
  apply Z.eqb_eq in A. split; [exact A|].
  destruct ans as [[|x l]|[|]]; try discriminate; auto.
Qed.

(* ====================================================================================== *)
(* Part B.  Positions in lists                                                             *)
(* ====================================================================================== *)

Definition before {A} (l : list A) (x y : A) : Prop := exists l1 l2, l = l1 ++ y :: l2 /\ In x l1.

Lemma before_nil {A} (x y : A) : ~ before [] x y.
Proof. intros [l1 [l2 [E _]]]. destruct l1; discriminate. Qed.

Lemma before_cons {A} (a : A) l x y : before (a :: l) x y <-> (x = a /\ In y l) \/ before l x y.
Proof.
  split.
  - intros [l1 [l2 [E Hin]]]. destruct l1 as [|a0 l1]; [destruct Hin|].
    simpl in E. inversion E; subst a0 l. destruct Hin as [<- | Hin].
    + left. split; [reflexivity|]. apply in_or_app. right. left. reflexivity.
    + right. exists l1, l2. auto.
  - intros [[-> Hin] | [l1 [l2 [E Hin]]]].
    + apply in_split in Hin. destruct Hin as [l1 [l2 E]]. exists (a :: l1), l2. subst l.
      split; [reflexivity | left; reflexivity].
    + exists (a :: l1), l2. subst l. split; [reflexivity | right; exact Hin].
Qed.

Lemma before_filter {A} (f : A -> bool) l x y : before (filter f l) x y -> before l x y.
Proof.
  induction l as [|a l IH]; simpl; intros H; [exact H|].
  apply before_cons. destruct (f a).
  - apply before_cons in H. destruct H as [[E Hin] | H]; [left | right; auto].
    split; [exact E|]. apply filter_In in Hin. tauto.
  - right. auto.
Qed.

Lemma before_imm_of K x y : before (flat_map imm_of K) x y -> before (map g_rid K) (fst x) (fst y).
Proof.
  induction K as [|g K IH]; simpl; intros H; [exact (False_ind _ (before_nil _ _ H))|].
  apply before_cons. unfold imm_of at 1 in H. destruct (g_kind g); simpl in H; try (right; auto; fail).
  apply before_cons in H. destruct H as [[E Hin] | H]; [left | right; auto].
  split; [subst x; reflexivity|]. apply in_imm_of in Hin. destruct Hin as [g' [Hg' [Er _]]].
  apply in_map_iff. exists g'. auto.
Qed.

(* the element imm_best picks: strictly below everything before it, not above anything after *)
Lemma imm_best_none l : imm_best l = None -> l = [].
Proof.
  destruct l as [|[r p] t]; [reflexivity|]. simpl.
  destruct (imm_best t) as [[r' p']|]; [destruct (p' <? p)|]; discriminate.
Qed.

Lemma imm_best_split l : forall r p, imm_best l = Some (r, p) ->
  exists l1 l2, l = l1 ++ (r, p) :: l2 /\ (forall x, In x l1 -> p < snd x) /\ (forall x, In x l2 -> p <= snd x).
Proof.
  induction l as [|[r0 p0] t IH]; intros r p H; simpl in H; [discriminate|].
  destruct (imm_best t) as [[r' p']|] eqn:Eb.
  - destruct (IH r' p' eq_refl) as [l1 [l2 [Et [A B]]]].
    destruct (p' <? p0) eqn:Elt.
    + apply Nat.ltb_lt in Elt. inversion H; subst r' p'. exists ((r0, p0) :: l1), l2.
      split; [rewrite Et; reflexivity|]. split; [|exact B].
      intros x [<- | Hx]; [simpl; exact Elt | apply A; exact Hx].
    + apply Nat.ltb_ge in Elt. inversion H; subst r0 p0. exists [], t.
      split; [reflexivity|]. split; [intros x []|].
      intros x Hx. rewrite Et in Hx. apply in_app_or in Hx. destruct Hx as [Hx | [<- | Hx]].
      * specialize (A x Hx). lia.
      * simpl. exact Elt.
      * specialize (B x Hx). lia.
  - inversion H; subst r0 p0. apply imm_best_none in Eb. subst t. exists [], [].
    split; [reflexivity|]. split; intros x [].
Qed.

(* ====================================================================================== *)
(* Part C.  The C04 checker keeps its live list in registration order                      *)
(* ====================================================================================== *)

Definition ord_ids (ids regs : list nat) : Prop :=
  rev ids = filter (fun r => EventsSpec.mem_nat r ids) regs.

(* the live ids, oldest first, are the registered ids filtered by liveness *)
Definition reg_ordered (t : trace) (x4 : c4) : Prop := ord_ids (map g_rid (c_live x4)) (registered t).

Lemma mem_nat_filter (P : nat -> bool) r ids :
  EventsSpec.mem_nat r (filter P ids) = P r && EventsSpec.mem_nat r ids.
Proof.
  unfold EventsSpec.mem_nat. induction ids as [|a ids IH]; simpl; [rewrite andb_false_r; reflexivity|].
  destruct (P a) eqn:Pa; simpl; rewrite IH; destruct (Nat.eqb r a) eqn:E; simpl; try reflexivity.
  - apply Nat.eqb_eq in E. subst a. rewrite Pa. reflexivity.
  - apply Nat.eqb_eq in E. subst a. rewrite Pa. reflexivity.
Qed.

Lemma filter_andb {A} (p q : A -> bool) l : filter p (filter q l) = filter (fun x => p x && q x) l.
Proof.
  induction l as [|a l IH]; simpl; [reflexivity|].
  destruct (q a) eqn:Eq; destruct (p a) eqn:Ep; simpl; rewrite ?Ep, IH; reflexivity.
Qed.

Lemma ord_ids_remove (P : nat -> bool) ids regs : ord_ids ids regs -> ord_ids (filter P ids) regs.
Proof.
  unfold ord_ids. intros H. rewrite <- filter_rev', H, filter_andb. apply filter_ext.
  intros a. rewrite mem_nat_filter. reflexivity.
Qed.

Lemma ord_ids_cons r ids regs : ord_ids ids regs -> ~ In r regs -> ord_ids (r :: ids) (regs ++ [r]).
Proof.
  unfold ord_ids. intros H Hn. simpl rev. rewrite filter_app. f_equal.
  - rewrite H. apply filter_ext_in. intros a Ha. unfold EventsSpec.mem_nat. simpl.
    assert (X : Nat.eqb a r = false) by (apply Nat.eqb_neq; intros ->; exact (Hn Ha)).
    rewrite X. reflexivity.
  - simpl. unfold EventsSpec.mem_nat. simpl. rewrite Nat.eqb_refl. reflexivity.
Qed.

Lemma remove_reg_ids r L :
  map g_rid (remove_reg r L) = filter (fun i => negb (Nat.eqb i r)) (map g_rid L).
Proof. unfold remove_reg. apply (map_filter_comm g_rid (fun i => negb (Nat.eqb i r))). Qed.

Lemma reg_ordered_init : reg_ordered [] c4_init.
Proof. reflexivity. Qed.

Lemma reg_ordered_step t x e x' :
  J t x -> reg_ordered t x -> cstep4 x e = Some x' -> reg_ordered (t ++ [e]) x'.
Proof.
  intros HJ HO Hs. unfold reg_ordered in *. rewrite registered_snoc.
  destruct e; simpl in Hs; cbn [ev_registered]; rewrite ?app_nil_r;
    try (solve [brk Hs; inversion Hs; subst; exact HO]).
  - (* ERegister *)
    destruct (EventsSpec.mem_nat r (c_used x)) eqn:Em; [discriminate|].
    match type of Hs with (if ?b then _ else _) = _ => destruct b; [|discriminate] end.
    inversion Hs; subst x'. simpl. apply ord_ids_cons; [exact HO|].
    intros X. apply (j_used _ _ HJ) in X. apply mem_nat_true in X. congruence.
  - (* ECancel *)
    destruct (find_reg r (c_live x)); [|discriminate]. inversion Hs; subst x'. simpl.
    rewrite remove_reg_ids. apply ord_ids_remove. exact HO.
  - (* EReset *)
    brk Hs. inversion Hs; subst x'. simpl. rewrite map_map.
    rewrite (map_ext _ g_rid); [exact HO|]. intros g. apply (proj1 (set_due_ids _ _ g)).
  - (* EPoll *)
    destruct ans; inversion Hs; subst x'; simpl; [|exact HO]. rewrite map_map.
    rewrite (map_ext _ g_rid); [exact HO|]. intros g. apply (proj1 (mark_ready_ids _ g)).
  - (* EInvoke *)
    brk Hs. inversion Hs; subst x'. simpl.
    rewrite remove_reg_ids. apply ord_ids_remove. exact HO.
Qed.

Lemma reg_ordered_steps t' : forall t x x',
  J t x -> reg_ordered t x -> csteps4 x t' = Some x' -> reg_ordered (t ++ t') x'.
Proof.
  induction t' as [|e t' IH]; intros t x x' HJ HO Hs; simpl in Hs.
  - inversion Hs; subst. rewrite app_nil_r. exact HO.
  - destruct (cstep4 x e) as [x1|] eqn:E; [|discriminate].
    replace (t ++ e :: t') with ((t ++ [e]) ++ t') by (rewrite <- app_assoc; reflexivity).
    eapply IH; [| |exact Hs]; [eapply J_step; eauto | eapply reg_ordered_step; eauto].
Qed.

(* the pending immediates are kept in registration order *)
Lemma imms_in_reg_order t x4 c a b :
  reg_ordered t x4 -> R45 x4 c -> before (d_imms c) a b -> reg_before t (fst a) (fst b).
Proof.
  intros HO HR H. rewrite (r_imms _ _ HR) in H. apply before_imm_of in H.
  rewrite map_rev in H. unfold reg_ordered, ord_ids in HO. rewrite HO in H.
  apply before_filter in H. exact H.
Qed.

(* ====================================================================================== *)
(* Part D.  What the C05 checker tests when a callback starts                              *)
(* ====================================================================================== *)

Lemma invoke5_cases c r c' :
  cstep5 c5_strict c (EInvoke r) = Some c' ->
  (exists p p0, In (r, p) (d_imms c) /\ imm_best (d_imms c) = Some (r, p0)) \/
  (d_imms c = [] /\ In r (d_nets c)) \/
  (d_imms c = [] /\ ~ In r (d_nets c) /\
   exists tmo due m, In (r, (tmo, due)) (d_tmrs c) /\ min_due (d_tmrs c) = Some m /\ (due <= m)%N /\
                     d_prev c = PvPoll0Clock).
Proof.
  intros H. simpl in H.
  destruct (d_incb c || d_stop c); [discriminate|].
  assert (H' : match find_imm r (d_imms c) with
       | Some _ => match imm_best (d_imms c) with
                   | Some (r', _) => if Nat.eqb r' r then Some tt else None
                   | None => None
                   end
       | None =>
         if EventsSpec.mem_nat r (d_nets c) then
           if EventsSpec.is_nil (d_imms c) then Some tt else None
         else
           match find_tmr r (d_tmrs c), min_due (d_tmrs c) with
           | Some (_, (_, due)), Some m =>
             if EventsSpec.is_nil (d_imms c) && (due <=? m)%N &&
                match d_prev c with PvPoll0Clock => true | _ => false end
             then Some tt else None
           | _, _ => None
           end
       end = Some tt).
  { destruct (d_mode c); [discriminate | |]; brk H; reflexivity. }
  clear H.
  destruct (find_imm r (d_imms c)) as [[r1 p1]|] eqn:Efi.
  - left. apply find_imm_some in Efi. destruct Efi as [Hin E]. simpl in E. subst r1.
    destruct (imm_best (d_imms c)) as [[r' p0]|]; [|discriminate].
    destruct (Nat.eqb r' r) eqn:Er; [|discriminate]. apply Nat.eqb_eq in Er. subst r'.
    exists p1, p0. auto.
  - right. destruct (EventsSpec.mem_nat r (d_nets c)) eqn:Emn.
    + left. destruct (d_imms c); [|discriminate]. split; [reflexivity|]. apply mem_nat_true. exact Emn.
    + right.
      destruct (find_tmr r (d_tmrs c)) as [[r0 [tmo due]]|] eqn:Eft; [|discriminate].
      destruct (min_due (d_tmrs c)) as [m|]; [|discriminate].
      match type of H' with (if ?b then _ else _) = _ => destruct b eqn:Eb; [|discriminate] end.
      apply andb_true_iff in Eb. destruct Eb as [Eb Ep]. apply andb_true_iff in Eb. destruct Eb as [En El].
      apply find_tmr_some in Eft. destruct Eft as [Hin E]. simpl in E. subst r0.
      split; [destruct (d_imms c); [reflexivity | discriminate]|].
      split; [intros X; apply mem_nat_true in X; congruence|].
      exists tmo, due, m. split; [exact Hin|]. split; [reflexivity|]. split; [apply N.leb_le; exact El|].
      destruct (d_prev c); try discriminate. reflexivity.
Qed.

(* the states of both checkers when a callback starts *)
Record AtInvoke (t1 : trace) (r : nat) (x4 : c4) (c : c5) : Prop := {
  ai_J : J t1 x4;
  ai_R : R45 x4 c;
  ai_ord : reg_ordered t1 x4;
  ai_prev : prev_ok t1 c;
  ai_live : live_in t1 r;
  ai_step : exists c', cstep5 c5_strict c (EInvoke r) = Some c'
}.

Lemma at_invoke t t1 r t2 :
  check_c04 t = true -> check_c05 t = true -> t = t1 ++ EInvoke r :: t2 ->
  exists x4 c, AtInvoke t1 r x4 c.
Proof.
  intros H4 H5 Et. subst t. unfold check_c05 in H5.
  destruct (both_prefix c5_strict t1 (EInvoke r :: t2) H4 H5) as [x4 [c [B4 B5 BJ BR [y4 R4] [c' R5]]]].
  exists x4, c. cbn [csteps4 csteps5] in R4, R5.
  destruct (cstep4 x4 (EInvoke r)) as [z4|] eqn:E4; [|discriminate].
  destruct (cstep5 c5_strict c (EInvoke r)) as [z5|] eqn:E5; [|discriminate].
  constructor; auto.
  - apply (reg_ordered_steps t1 [] c4_init x4 J_init reg_ordered_init B4).
  - apply (prev_steps c5_strict t1 [] c5_init c prev_ok_init B5).
  - simpl in E4. destruct (find_reg r (c_live x4)) as [g|] eqn:Ef; [|discriminate].
    apply find_reg_some in Ef. destruct Ef as [Hg Er]. apply (j_live _ _ BJ). exists g. auto.
  - exists z5. exact E5.
Qed.

(* ====================================================================================== *)
(* Part E.  The three clauses                                                              *)
(* ====================================================================================== *)

Theorem c05_choice_priority t : check_c04 t = true -> check_c05 t = true -> choice_priority t.
Proof.
  intros H4 H5 t1 r t2 k Et Hk.
  destruct (at_invoke t t1 r t2 H4 H5 Et) as [x4 [c [HJ HR HO HP Hl [c' Hs]]]].
  destruct (invoke5_cases c r c' Hs) as [[p [p0 [Hin _]]] | [[Hnil Hin] | [Hnil [Hnn [tmo [due [m [Hin [_ [_ Hpv]]]]]]]]]].
  - apply (bridge_imm t1 x4 c HJ HR) in Hin. destruct Hin as [_ Hk'].
    assert (k = KImm p) by congruence. subst k. split; intros X; discriminate X.
  - split; [intros _; apply (bridge_imm_nil t1 x4 c HJ HR); exact Hnil|].
    apply (bridge_net t1 x4 c HJ HR) in Hin. destruct Hin as [_ [fd [dir Hk']]].
    assert (k = KNet fd dir) by congruence. subst k. intros X; discriminate X.
  - split; [intros _; apply (bridge_imm_nil t1 x4 c HJ HR); exact Hnil|]. intros _.
    destruct HP as [_ P2]. destruct (P2 Hpv) as [t0 [tm [fs [ans [now [E1 Q]]]]]].
    apply poll_quiet_true in Q. destruct Q as [-> Q]. exists t0, fs, ans, now. auto.
Qed.

Theorem c05_immediate_order t : check_c04 t = true -> check_c05 t = true -> immediate_order t.
Proof.
  intros H4 H5 t1 r t2 p Et Hk r' p' Hl' Hne.
  destruct (at_invoke t t1 r t2 H4 H5 Et) as [x4 [c [HJ HR HO HP Hl [c' Hs]]]].
  assert (Hin : In (r, p) (d_imms c)) by (apply (bridge_imm t1 x4 c HJ HR); split; auto).
  assert (Hin' : In (r', p') (d_imms c)) by (apply (bridge_imm t1 x4 c HJ HR); exact Hl').
  destruct (invoke5_cases c r c' Hs) as [[p1 [p0 [_ Hb]]] | [[Hnil _] | [Hnil _]]];
    try (rewrite Hnil in Hin; destruct Hin; fail).
  assert (p0 = p).
  { apply imm_best_in in Hb. exact (bridge_imm_fun t1 x4 c HJ HR r p0 p Hb Hin). }
  subst p0. destruct (imm_best_split _ _ _ Hb) as [l1 [l2 [El [A B]]]].
  rewrite El in Hin'. apply in_app_or in Hin'. destruct Hin' as [X | [X | X]].
  - left. exact (A _ X).
  - inversion X. congruence.
  - pose proof (B _ X) as Hle. simpl in Hle.
    destruct (Nat.eq_dec p p') as [<- | Hpp]; [right | left; lia]. split; [reflexivity|].
    apply in_split in X. destruct X as [a [b Eb]].
    apply (imms_in_reg_order t1 x4 c (r, p) (r', p) HO HR).
    exists (l1 ++ (r, p) :: a), b. split.
    + rewrite El, Eb, <- app_assoc. reflexivity.
    + apply in_or_app. right. left. reflexivity.
Qed.

Theorem c05_timer_order t : check_c04 t = true -> check_c05 t = true -> timer_order t.
Proof.
  intros H4 H5 t1 r t2 tmo Et Hk r' tmo' Hl'.
  destruct (at_invoke t t1 r t2 H4 H5 Et) as [x4 [c [HJ HR HO HP Hl [c' Hs]]]].
  destruct (invoke5_cases c r c' Hs) as [[p [p0 [Hin _]]] | [[Hnil Hin] | [Hnil [Hnn [tm [due [m [Hin [Hm [Hle _]]]]]]]]]].
  - apply (bridge_imm t1 x4 c HJ HR) in Hin. destruct Hin as [_ Hk']. congruence.
  - apply (bridge_net t1 x4 c HJ HR) in Hin. destruct Hin as [_ [fd [dir Hk']]]. congruence.
  - apply (bridge_tmr t1 x4 c HJ HR) in Hin. destruct Hin as [[_ Hk'] Hd].
    assert (tm = tmo) by congruence. subst tm.
    destruct (live_reg t1 x4 HJ r' (proj1 Hl')) as [g' [Hg' [Er' Ek']]].
    assert (K : g_kind g' = KTimer tmo') by (destruct Hl'; congruence).
    destruct (j_due _ _ HJ g' tmo' Hg' K) as [t0' [Ha' Hd']]. rewrite Er' in Ha'.
    assert (D' : deadline t1 r' tmo' (us t0' + us tmo')%N) by (exists t0'; auto).
    exists due, (us t0' + us tmo')%N. split; [exact Hd|]. split; [exact D'|].
    destruct (bridge_min_due t1 x4 c HJ HR m Hm) as [_ Hmin].
    specialize (Hmin r' tmo' _ Hl' D'). lia.
Qed.
