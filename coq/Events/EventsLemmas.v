(* List lemmas used by the event-loop proofs (upd_nth, removelast, repeat, sorted views). *)
From Coq Require Import NArith ZArith List Bool Arith Lia Permutation.
From LCP Require Import Base.CheckedMem Events.EventsTrace Events.EventsModel.
Import ListNotations.

Lemma length_upd_nth {A} (n : nat) (x : A) l : length (upd_nth n x l) = length l.
Proof. revert n. induction l as [|a l IH]; intros [|n]; simpl; auto. Qed.

Lemma nth_error_upd_nth_eq {A} (n : nat) (x : A) l :
  n < length l -> nth_error (upd_nth n x l) n = Some x.
Proof.
  revert n. induction l as [|a l IH]; intros [|n] H; simpl in *; try lia; auto; try (apply IH; lia).
Qed.

Lemma nth_error_upd_nth_neq {A} (n m : nat) (x : A) l :
  n <> m -> nth_error (upd_nth n x l) m = nth_error l m.
Proof.
  revert n m. induction l as [|a l IH]; intros [|n] [|m] H; simpl; auto; try lia; try (apply IH; lia).
Qed.

Lemma nth_error_upd_nth {A} (n m : nat) (x : A) l y :
  nth_error (upd_nth n x l) m = Some y ->
  (n = m /\ y = x /\ n < length l) \/ (n <> m /\ nth_error l m = Some y).
Proof.
  intros H. destruct (Nat.eq_dec n m) as [->|Hne].
  - left. assert (m < length l).
    { rewrite <- (length_upd_nth m x l). apply nth_error_Some. congruence. }
    rewrite nth_error_upd_nth_eq in H by assumption. inversion H. auto.
  - right. rewrite nth_error_upd_nth_neq in H by assumption. auto.
Qed.

Lemma upd_nth_oob {A} (n : nat) (x : A) l : length l <= n -> upd_nth n x l = l.
Proof.
  revert n. induction l as [|a l IH]; intros [|n] H; simpl in *; auto; try lia; try (f_equal; apply IH; lia).
Qed.

Lemma in_upd_nth {A} (n : nat) (x y : A) l : In y (upd_nth n x l) -> y = x \/ In y l.
Proof.
  revert n. induction l as [|a l IH]; intros [|n]; simpl; auto.
  - intros [H|H]; auto.
  - intros [H|H]; auto. destruct (IH _ H); auto.
Qed.

Lemma in_upd_nth_other {A} (n : nat) (x y : A) l :
  In y l -> (nth_error l n <> Some y) -> In y (upd_nth n x l).
Proof.
  revert n. induction l as [|a l IH]; intros [|n]; simpl; auto.
  - intros [H|H] Hn; auto. subst. congruence.
  - intros [H|H] Hn; auto.
Qed.

Lemma nth_error_removelast {A} (l : list A) j :
  nth_error (removelast l) j = if j <? length l - 1 then nth_error l j else None.
Proof.
  revert j. induction l as [|a l IH]; intros j.
  - simpl. destruct j; reflexivity.
  - destruct l as [|b l].
    + simpl. destruct j; reflexivity.
    + change (removelast (a :: b :: l)) with (a :: removelast (b :: l)).
      destruct j as [|j].
      * simpl. reflexivity.
      * simpl nth_error. rewrite IH. simpl length.
        destruct (j <? S (length l) - 1) eqn:E1; destruct (S j <? S (S (length l)) - 1) eqn:E2;
          try reflexivity; apply Nat.ltb_lt in E1 || apply Nat.ltb_ge in E1;
          apply Nat.ltb_lt in E2 || apply Nat.ltb_ge in E2; lia.
Qed.

Lemma length_removelast {A} (l : list A) : length (removelast l) = length l - 1.
Proof.
  induction l as [|a l IH]; [reflexivity|]. destruct l as [|b l]; [reflexivity|].
  change (removelast (a :: b :: l)) with (a :: removelast (b :: l)). simpl length in *. lia.
Qed.

Lemma in_removelast {A} (l : list A) x : In x (removelast l) -> In x l.
Proof.
  induction l as [|a l IH]; [auto|]. destruct l as [|b l]; [intros []|].
  change (removelast (a :: b :: l)) with (a :: removelast (b :: l)). intros [H|H]; [left; auto | right; auto].
Qed.

Lemma nth_error_repeat_app {A} (l : list A) x n j y :
  nth_error (l ++ repeat x n) j = Some y -> nth_error l j = Some y \/ (length l <= j /\ y = x).
Proof.
  intros H. destruct (lt_dec j (length l)).
  - left. rewrite nth_error_app1 in H by assumption. exact H.
  - right. rewrite nth_error_app2 in H by lia. split; [lia|].
    apply nth_error_In in H. apply repeat_spec in H. exact H.
Qed.

Lemma nth_error_in_iff {A} (l : list A) x : In x l <-> exists j, nth_error l j = Some x.
Proof.
  split; [apply In_nth_error|]. intros [j H]. eapply nth_error_In; eauto.
Qed.

Lemma rdn_ok {A} (l : list A) i x : rdn l i = Ok x -> nth_error l i = Some x.
Proof. unfold rdn. destruct (nth_error l i); intros H; inversion H; reflexivity. Qed.

(* ---------------------------------------------------------------- lookup in sorted views *)
(* the clean statement for distinct keys *)
Lemma lookup_fd_none_notin {A} (l : list (nat * A)) fd :
  lookup_fd fd l = None <-> ~ In fd (map fst l).
Proof.
  induction l as [|[g b] l IH]; simpl.
  - split; [intros _ [] | reflexivity].
  - destruct (Nat.eqb g fd) eqn:E.
    + apply Nat.eqb_eq in E. subst. split; [discriminate | intros H; exfalso; apply H; left; reflexivity].
    + apply Nat.eqb_neq in E. rewrite IH. split; intros H; [intros [X|X]; auto | intros X; apply H; right; exact X].
Qed.

Lemma lookup_fd_in {A} (l : list (nat * A)) fd a :
  NoDup (map fst l) -> In (fd, a) l -> lookup_fd fd l = Some a.
Proof.
  induction l as [|[g b] l IH]; simpl; intros Hn Hin; [destruct Hin|].
  inversion Hn; subst. destruct Hin as [Hin | Hin].
  - inversion Hin; subst. rewrite Nat.eqb_refl. reflexivity.
  - destruct (Nat.eqb g fd) eqn:E.
    + apply Nat.eqb_eq in E. subst. exfalso. apply H1. apply in_map_iff. exists (fd, a). auto.
    + apply IH; auto.
Qed.

Lemma lookup_fd_some_in {A} (l : list (nat * A)) fd a :
  lookup_fd fd l = Some a -> In (fd, a) l.
Proof.
  induction l as [|[g b] l IH]; simpl; [discriminate|].
  destruct (Nat.eqb g fd) eqn:E.
  - apply Nat.eqb_eq in E. subst. intros H. inversion H. left. reflexivity.
  - intros H. right. auto.
Qed.

Lemma insert_fd_perm {A} (x : nat * A) l : Permutation (insert_fd x l) (x :: l).
Proof.
  induction l as [|y l IH]; simpl; [reflexivity|].
  destruct (fst x <=? fst y); [reflexivity|].
  rewrite IH. apply perm_swap.
Qed.

Lemma sort_fd_perm {A} (l : list (nat * A)) : Permutation (sort_fd l) l.
Proof.
  induction l as [|x l IH]; simpl; [reflexivity|].
  unfold sort_fd in *. simpl. rewrite insert_fd_perm. constructor. exact IH.
Qed.

Lemma lookup_fd_sort {A} (l : list (nat * A)) fd :
  NoDup (map fst l) -> lookup_fd fd (sort_fd l) = lookup_fd fd l.
Proof.
  intros Hn.
  assert (Hp : Permutation (sort_fd l) l) by apply sort_fd_perm.
  assert (Hn' : NoDup (map fst (sort_fd l))).
  { eapply Permutation_NoDup; [|exact Hn]. apply Permutation_map. symmetry. exact Hp. }
  destruct (lookup_fd fd l) as [a|] eqn:E.
  - apply lookup_fd_in; [exact Hn'|]. eapply Permutation_in; [symmetry; exact Hp|].
    apply lookup_fd_some_in. exact E.
  - apply lookup_fd_none_notin. apply lookup_fd_none_notin in E. intros X. apply E.
    eapply Permutation_in; [|exact X]. apply Permutation_map. exact Hp.
Qed.

Lemma upd_nth_twice {A} (n : nat) (x y : A) l : upd_nth n x (upd_nth n y l) = upd_nth n x l.
Proof. revert n. induction l as [|a l IH]; intros [|n]; simpl; auto. f_equal. apply IH. Qed.

Lemma upd_nth_app_last {A} (l : list A) x y : upd_nth (length l) x (l ++ [y]) = l ++ [x].
Proof. induction l as [|a l IH]; simpl; auto. f_equal. exact IH. Qed.

Lemma nth_error_snoc {A} (l : list A) x j y :
  nth_error (l ++ [x]) j = Some y -> (j < length l /\ nth_error l j = Some y) \/ (j = length l /\ y = x).
Proof.
  intros H. destruct (lt_dec j (length l)).
  - left. rewrite nth_error_app1 in H by assumption. auto.
  - right. rewrite nth_error_app2 in H by lia. destruct (j - length l) as [|m] eqn:E.
    + simpl in H. inversion H. split; [lia | reflexivity].
    + simpl in H. destruct m; discriminate.
Qed.

Lemma nth_error_snoc_last {A} (l : list A) x : nth_error (l ++ [x]) (length l) = Some x.
Proof. rewrite nth_error_app2 by lia. rewrite Nat.sub_diag. reflexivity. Qed.

Lemma nth_error_lt {A} (l : list A) j y : nth_error l j = Some y -> j < length l.
Proof. intros H. apply nth_error_Some. congruence. Qed.

Lemma upd_nth_split {A} (l : list A) i x :
  nth_error l i = Some x ->
  exists rest, Permutation l (x :: rest) /\ forall x', Permutation (upd_nth i x' l) (x' :: rest).
Proof.
  revert i. induction l as [|a l IH]; intros [|i] H; simpl in H; try discriminate.
  - inversion H; subst. exists l. split; [reflexivity | intros; reflexivity].
  - destruct (IH i H) as [rest [P1 P2]]. exists (a :: rest). split.
    + rewrite P1. apply perm_swap.
    + intros x'. simpl. rewrite P2. apply perm_swap.
Qed.
